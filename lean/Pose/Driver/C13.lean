import Pose.Wire
import Pose.Model.Filter
/-!
Driver ops for C13 (EKF / UKF / PF).

The model functions of `Pose/Model/Filter.lean` are run at `α = BigF`.  Their kernel parameters are
instantiated by simple stand-ins whose **contract is re-checked on every call**
(`pinvStandIn`: Gauss–Jordan, checks `S·X = I`; `cholStandIn`: Cholesky of the lower triangle, checks
`L·Lᵀ = M`); a violated contract is reported as `err contract-…` (the harness turns it into exit 2).

The user's system is the family
  `f_i(x,u,t) = (A0 x)_i + (B0 u)_i + c1_i + t·tf_i + af_i · sin((Wf x)_i + (Vf u)_i + phf_i)`
  `g_i(x,u,t) = (C0 x)_i + (D0 u)_i + c2_i + t·tg_i + ag_i · sin((Wg x)_i + (Vg u)_i + phg_i)`
with its analytic state Jacobians (stand-in for autograd; affine when `af = ag = 0`).
-/
namespace PP.Driver
open PP Wire Filter

abbrev F := BigF

/-! ### token reader -/

structure Rd where
  a : Array F
  pos : Nat

abbrev RdM := StateT Rd (Except String)

def rdV (n : Nat) : RdM (Vec F n) := do
  let s ← get
  if s.pos + n > s.a.size then throw "arity"
  set { s with pos := s.pos + n }
  let a := s.a
  let o := s.pos
  return fun i => a.getD (o + i.val) BigF.zero

def rdM (r c : Nat) : RdM (Mat F r c) := do
  let s ← get
  if s.pos + r * c > s.a.size then throw "arity"
  set { s with pos := s.pos + r * c }
  let a := s.a
  let o := s.pos
  return fun i j => a.getD (o + i.val * c + j.val) BigF.zero

def rdS : RdM F := do
  let v ← rdV 1
  return v ⟨0, by omega⟩

def rdEnd : RdM Unit := do
  let s ← get
  if s.pos ≠ s.a.size then throw "arity"

def flatV {n} (v : Vec F n) : List F := List.ofFn v
def flatM {r c} (A : Mat F r c) : List F := (List.ofFn fun i => List.ofFn (A i)).flatten

/-! ### stand-ins with contract checks -/

def toArr {r c} (A : Mat F r c) : Array (Array F) := Array.ofFn fun i => Array.ofFn (A i)
def ofArr {r c} (A : Array (Array F)) : Mat F r c := fun i j => (A.getD i.val #[]).getD j.val BigF.zero

def maxAbs {r c} (A : Mat F r c) : F :=
  (flatM A).foldl (fun m x => if BigF.lt m (BigF.abs x) then BigF.abs x else m) BigF.zero

def tiny (bits : Nat) : F := BigF.scale2 BigF.one (-(bits : Int))

/-- Gauss–Jordan inverse with partial pivoting; `none` when a pivot is exactly zero. -/
def gaussInv (n : Nat) (S : Array (Array F)) : Option (Array (Array F)) := Id.run do
  -- augmented [S | I]
  let mut M : Array (Array F) := Array.ofFn (n := n) fun i =>
    (S.getD i.val #[]) ++ Array.ofFn (n := n) fun j => if i.val = j.val then BigF.one else BigF.zero
  for c in [0:n] do
    -- pivot
    let mut piv := c
    let mut best := BigF.abs ((M.getD c #[]).getD c BigF.zero)
    for r in [c+1:n] do
      let v := BigF.abs ((M.getD r #[]).getD c BigF.zero)
      if BigF.lt best v then
        piv := r
        best := v
    if best.isZero then return none
    let rowP := M.getD piv #[]
    let rowC := M.getD c #[]
    M := (M.setIfInBounds piv rowC).setIfInBounds c rowP
    let pv := rowP.getD c BigF.zero
    let rowN := rowP.map (fun x => BigF.div x pv)
    M := M.setIfInBounds c rowN
    for r in [0:n] do
      if r ≠ c then
        let row := M.getD r #[]
        let fct := row.getD c BigF.zero
        if !fct.isZero then
          M := M.setIfInBounds r (Array.ofFn (n := 2 * n) fun j =>
            BigF.sub (row.getD j.val BigF.zero) (BigF.mul fct (rowN.getD j.val BigF.zero)))
  return some (M.map (fun row => row.extract n (2 * n)))

/-- `pinv` stand-in. Contract re-checked: `max |S·X − I| ≤ 2⁻¹⁰⁰` (else error). -/
def pinvStandIn {p : Nat} (S : Mat F p p) : Except String (Mat F p p) :=
  match gaussInv p (toArr S) with
  | none => .error "singular"
  | some Xa =>
    let X : MemoM F p p := memoM (ofArr Xa)
    let E := msub (mmul S X.mfn) eye
    if BigF.lt (tiny 100) (maxAbs E) then .error "contract-pinv" else .ok X.mfn

/-- lower-triangle mirror (LAPACK's Cholesky reads only the lower triangle) -/
def symL {n} (M : Mat F n n) : Mat F n n := fun i j => if j.val ≤ i.val then M i j else M j i

/-- Cholesky–Banachiewicz on the lower triangle; `none` when a pivot is not positive. -/
def cholArr (n : Nat) (M : Array (Array F)) : Option (Array (Array F)) := Id.run do
  let mut L : Array (Array F) := Array.replicate n (Array.replicate n BigF.zero)
  for i in [0:n] do
    for j in [0:i+1] do
      let mut s := (M.getD i #[]).getD j BigF.zero
      for t in [0:j] do
        s := BigF.sub s (BigF.mul ((L.getD i #[]).getD t BigF.zero) ((L.getD j #[]).getD t BigF.zero))
      if i = j then
        if s.m ≤ 0 then return none
        L := L.setIfInBounds i ((L.getD i #[]).setIfInBounds j (BigF.sqrt s))
      else
        let d := (L.getD j #[]).getD j BigF.zero
        L := L.setIfInBounds i ((L.getD i #[]).setIfInBounds j (BigF.div s d))
  return some L

/-- `msqrt` stand-in. Contract re-checked: `max |L·Lᵀ − symL M| ≤ 2⁻¹⁴⁰ · max|M|`. -/
def cholStandIn {n : Nat} (M : Mat F n n) : Except String (Mat F n n) :=
  match cholArr n (toArr M) with
  | none => .error "not-pd"
  | some La =>
    let L : MemoM F n n := memoM (ofArr La)
    let E := msub (mmul L.mfn (transpose L.mfn)) (symL M)
    if BigF.lt (BigF.mul (tiny 140) (maxAbs M)) (maxAbs E) then .error "contract-msqrt" else .ok L.mfn

/-! Kernel parameters of the model are total functions; the stand-ins can fail. Every handler first
runs a pre-flight (`ekfWhy`, `ukfWhy`) that evaluates the kernels' arguments exactly as the model does
and reports a stand-in failure as `err <kind>`; only then the model is run. As a second line of
defence a failing stand-in inside the model returns a poisoned matrix that makes the reply an error. -/

/-- marker used to poison outputs when a stand-in failed: an absurd exponent that no honest
computation produces -/
def poison : F := ⟨1, 1000000007⟩

def isPoisoned (x : F) : Bool := x.e > 500000000 || x.e < -500000000

def poisonM {r c} : Mat F r c := fun _ _ => poison

def pinvK {p} (S : Mat F p p) : Mat F p p :=
  if (flatM S).any isPoisoned then poisonM else
  match pinvStandIn S with | .ok X => X | .error _ => poisonM

def cholK {n} (M : Mat F n n) : Mat F n n :=
  if (flatM M).any isPoisoned then poisonM else
  match cholStandIn M with | .ok X => X | .error _ => poisonM

/-! ### the system family -/

structure Fam (n m p : Nat) where
  A0 : Mat F n n
  B0 : Mat F n m
  c1 : Vec F n
  tf : Vec F n
  af : Vec F n
  Wf : Mat F n n
  Vf : Mat F n m
  phf : Vec F n
  C0 : Mat F p n
  D0 : Mat F p m
  c2 : Vec F p
  tg : Vec F p
  ag : Vec F p
  Wg : Mat F p n
  Vg : Mat F p m
  phg : Vec F p

def rdFam (n m p : Nat) : RdM (Fam n m p) := do
  let A0 ← rdM n n; let B0 ← rdM n m; let c1 ← rdV n; let tf ← rdV n
  let af ← rdV n; let Wf ← rdM n n; let Vf ← rdM n m; let phf ← rdV n
  let C0 ← rdM p n; let D0 ← rdM p m; let c2 ← rdV p; let tg ← rdV p
  let ag ← rdV p; let Wg ← rdM p n; let Vg ← rdM p m; let phg ← rdV p
  return ⟨A0, B0, c1, tf, af, Wf, Vf, phf, C0, D0, c2, tg, ag, Wg, Vg, phg⟩

def affPart {r n m} (A : Mat F r n) (B : Mat F r m) (c tv : Vec F r) (t : F) (x : Vec F n) (u : Vec F m) :
    Vec F r :=
  fun i => mulVec A x i + mulVec B u i + c i + t * tv i

def famFun {r n m} (A : Mat F r n) (B : Mat F r m) (c tv a : Vec F r) (W : Mat F r n) (V : Mat F r m)
    (ph : Vec F r) (t : F) (x : Vec F n) (u : Vec F m) : Vec F r :=
  fun i =>
    let lin := affPart A B c tv t x u i
    if (a i).isZero then lin else lin + a i * BigF.sin (mulVec W x i + mulVec V u i + ph i)

def famJac {r n m} (A : Mat F r n) (a : Vec F r) (W : Mat F r n) (V : Mat F r m)
    (ph : Vec F r) (x : Vec F n) (u : Vec F m) : Mat F r n :=
  fun i =>
    if (a i).isZero then A i else
    let cz := a i * BigF.cos (mulVec W x i + mulVec V u i + ph i)
    fun j => A i j + cz * W i j

def Fam.sys {n m p} (fm : Fam n m p) (t : F) : Sys F n m p where
  f := famFun fm.A0 fm.B0 fm.c1 fm.tf fm.af fm.Wf fm.Vf fm.phf t
  g := famFun fm.C0 fm.D0 fm.c2 fm.tg fm.ag fm.Wg fm.Vg fm.phg t
  jf := famJac fm.A0 fm.af fm.Wf fm.Vf fm.phf
  jg := famJac fm.C0 fm.ag fm.Wg fm.Vg fm.phg

/-! ### handlers -/

def outPost {n} (po : Post F n) : Except String String :=
  let xs := flatV po.x ++ flatM po.P
  if xs.any isPoisoned then
    .error "kernel"
  else .ok (fmt xs)

/-- common prefix: `n m p t  <family>  u y Q R x P` -/
def rdStep (n m p : Nat) : RdM (Step F n m p × Post F n) := do
  let t ← rdS
  let fm ← rdFam n m p
  let u ← rdV m; let y ← rdV p
  let Q ← rdM n n; let R ← rdM p p
  let x ← rdV n; let P ← rdM n n
  return (⟨fm.sys t, u, y, Q, R⟩, ⟨x, P⟩)

def runRd {β} (toks : List String) (act : RdM β) : Except String β := do
  let xs ← nums toks
  let (v, _) ← (do let v ← act; rdEnd; return v).run ⟨xs.toArray, 0⟩
  return v

/-- pre-flight: evaluate the kernels' arguments exactly as the model does and run the stand-ins with
their contract checks; `"ok"` or the error kind -/
def ekfWhy {n m p} (s : Step F n m p) (pr : Post F n) : String :=
  let A := memoM (s.sys.jf pr.x s.u)
  let C := memoM (s.sys.jg pr.x s.u)
  let Pm := memoM (madd (mmul (mmul A.mfn pr.P) (transpose A.mfn)) s.Q)
  let S := memoM (madd (mmul (mmul C.mfn Pm.mfn) (transpose C.mfn)) s.R)
  match pinvStandIn S.mfn with | .ok _ => "ok" | .error e => e

def ukfWhy {n m p} (kk : F) (s : Step F n m p) (pr : Post F n) : String :=
  match cholStandIn (msmul (k n + kk) pr.P) with
  | .error e => e ++ "-1"
  | .ok _ =>
    -- recompute P⁻ exactly as the model does
    let a := w0 n kk
    let b := wr n kk
    let xs := (sigmaPoints cholK pr.x pr.P kk).map (fun pt => s.sys.f pt s.u)
    let xe := memoV (xs.wsum a b)
    let ex := xs.dev xe.fn
    let Pm := memoM (madd s.Q (ex.cov a b ex))
    match cholStandIn (msmul (k n + kk) Pm.mfn) with
    | .error e => e ++ "-2"
    | .ok _ =>
      let s2 := sigmaPoints cholK xe.fn Pm.mfn kk
      let ys := s2.map (fun pt => s.sys.g pt s.u)
      let ye := memoV (ys.wsum a b)
      let ey := ys.dev ye.fn
      let Py := memoM (madd s.R (ey.cov a b ey))
      match pinvStandIn Py.mfn with | .ok _ => "ok" | .error e => e

def opsC13 : List (String × Handler) := [
  -- c13.ekf n m p  t <family> u y Q R x P        -> x' P'
  ("c13.ekf", fun ts => do
      match ts with
      | n :: m :: p :: rest =>
        let n ← nat n; let m ← nat m; let p ← nat p
        let (s, pr) ← runRd rest (rdStep n m p)
        let why := ekfWhy s pr
        if why ≠ "ok" then throw why
        outPost (ekf pinvK s pr)
      | _ => throw "arity"),
  -- c13.ukf n m p  kk t <family> u y Q R x P     -> x' P'
  ("c13.ukf", fun ts => do
      match ts with
      | n :: m :: p :: kk :: rest =>
        let n ← nat n; let m ← nat m; let p ← nat p
        let kk ← num kk
        let (s, pr) ← runRd rest (rdStep n m p)
        let why := ukfWhy kk s pr
        if why ≠ "ok" then throw why
        outPost (ukf pinvK cholK kk s pr)
      | _ => throw "arity"),
  -- c13.pf n m p N  lz t <family> u y Q R x P  xp(N·n) r(N)   -> x' P' idx(N) w(N)
  ("c13.pf", fun ts => do
      match ts with
      | n :: m :: p :: N :: lz :: rest =>
        let n ← nat n; let m ← nat m; let p ← nat p; let N ← nat N
        let lz ← num lz
        let ((s, _pr), xp, r) ← runRd rest (do
          let sp ← rdStep n m p
          let xp ← rdM N n
          let r ← rdV N
          return (sp, xp, r))
        let Rinv ← pinvStandIn s.R
        let Ri := memoM Rinv
        let w := pfWeights Ri.mfn lz s xp
        let cs := memoV (cumsum w.fn)
        let idx := memoV (pfIndices cs.fn r)
        if hN : 0 < N then
          let o ← outPost (pf hN pinvK lz s xp r)
          return o ++ " " ++ fmt ((List.ofFn idx.fn).map (fun i => BigF.ofNat i) ++ flatV w.fn)
        else throw "no-particles"
      | _ => throw "arity"),
  -- c13.call <ekf|ukf> n m p  fq fr gq gr hk  kk  t <family> u y [Qstored] [Rstored] [Qpassed] [Rpassed] x P   -> x' P'
  -- one call on a filter OBJECT: fq/fr = the object stores Q/R, gq/gr = the call passes Q/R, hk = the call passes k
  -- (hk = 0: `None`, the model's `resolveK` supplies 3 − n). The resolution glue runs in the model (`ekfCall`/`ukfCall`).
  ("c13.call", fun ts => do
      match ts with
      | kind :: n :: m :: p :: fq :: fr :: gq :: gr :: hk :: kk :: rest =>
        let n ← nat n; let m ← nat m; let p ← nat p
        let fq ← nat fq; let fr ← nat fr; let gq ← nat gq; let gr ← nat gr; let hk ← nat hk
        let kk ← num kk
        let (sys, u, y, stQ, stR, pQ, pR, pr) ← runRd rest (do
          let t ← rdS
          let fm ← rdFam n m p
          let u ← rdV m; let y ← rdV p
          let stQ ← if fq == 1 then (do let q ← rdM n n; pure (some q)) else pure none
          let stR ← if fr == 1 then (do let q ← rdM p p; pure (some q)) else pure none
          let pQ ← if gq == 1 then (do let q ← rdM n n; pure (some q)) else pure none
          let pR ← if gr == 1 then (do let q ← rdM p p; pure (some q)) else pure none
          let x ← rdV n; let P ← rdM n n
          return (fm.sys t, u, y, stQ, stR, pQ, pR, (⟨x, P⟩ : Post F n)))
        let c : Call F n m p := ⟨sys, u, y, pQ, pR, if hk == 1 then some kk else none⟩
        match c.toStep stQ stR with
        | none => throw "no-covariance"
        | some s =>
          if kind == "ekf" then
            let why := ekfWhy s pr
            if why ≠ "ok" then throw why
            match ekfCall pinvK stQ stR c.sys c.u c.y c.pQ c.pR pr with
            | some po => outPost po
            | none => throw "no-covariance"
          else
            let kv := resolveK n c.kk
            let why := ukfWhy kv s pr
            if why ≠ "ok" then throw why
            match ukfCall pinvK cholK kv stQ stR c.sys c.u c.y c.pQ c.pR pr with
            | some po => outPost po
            | none => throw "no-covariance"
      | _ => throw "arity"),
  -- c13.witness -> x P : the model's UKF on the necessity witness (f = x, g = x² + x, k = −1/2, P = 1/2, Q = 3/2, R = 1)
  ("c13.witness", fun _ => do
      let half : F := BigF.div BigF.one (BigF.ofNat 2)
      let sys : Sys F 1 1 1 := ⟨fun x _ => x, fun x _ => fun _ => x ⟨0, by omega⟩ * x ⟨0, by omega⟩ + x ⟨0, by omega⟩,
        fun _ _ => fun _ _ => BigF.one, fun x _ => fun _ _ => BigF.ofNat 2 * x ⟨0, by omega⟩ + BigF.one⟩
      let s : Step F 1 1 1 := ⟨sys, fun _ => BigF.zero, fun _ => BigF.zero, fun _ _ => BigF.div (BigF.ofNat 3) (BigF.ofNat 2),
        fun _ _ => BigF.one⟩
      outPost (ukf pinvK cholK (BigF.neg half) s ⟨fun _ => BigF.zero, fun _ _ => half⟩)),
  -- c13.weights n kk -> w0 wr
  ("c13.weights", fun ts => do
      match ts with
      | [n, kk] =>
        let n ← nat n; let kk ← num kk
        return fmt [w0 n kk, wr n kk]
      | _ => throw "arity")
]

end PP.Driver
