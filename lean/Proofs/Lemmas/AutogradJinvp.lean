/-
C04 (pass 3): the `Jinvp` node.  `Jinvp(X, p) = Jl_inv(Log X)·p` is not an autograd `Function` in the code; its backward is PyTorch's
autograd of built-in operations, represented in the model by the parameter `dJ`.  `DJSpec` states exactly what is assumed of it;
`jinvp_nodeOK_of` reduces local correctness of a `Jinvp` node to that contract and local correctness of the `Log` node below it.
-/
import Proofs.Lemmas.AutogradNodes
set_option maxRecDepth 10000
set_option maxHeartbeats 1000000
set_option linter.unusedSimpArgs false
set_option linter.unusedVariables false
namespace PP.AD
open PP

theorem list_head_tail (n : Nat) (l : DVec ℝ) (h : l.length = n + 1) : l = nth l 0 :: l.tail := by
  cases l with
  | nil => simp at h
  | cons a l => simp

theorem lcurve_tail (n : Nat) (γ : ℝ → DVec ℝ) (d0 : ℝ) (d' : DVec ℝ) (hl : ∀ t, (γ t).length = n + 1)
    (hc : LCurve (n+1) γ (d0 :: d')) : LCurve n (fun t => (γ t).tail) d' := by
  intro i hi
  have := hc (i+1) (Nat.succ_lt_succ hi)
  simp only [nth_cons_succ] at this
  have e2 : (fun t => nth ((γ t).tail) i) = fun t => nth (γ t) (i+1) := by
    funext t
    conv_rhs => rw [list_head_tail n (γ t) (hl t)]
    simp
  rw [e2]; exact this

/-- product rule for the dot product of two moving lists -/
theorem hasDerivAt_dot2 (n : Nat) : ∀ (a b : ℝ → DVec ℝ) (da db : DVec ℝ), (∀ t, (a t).length = n) → (∀ t, (b t).length = n) →
    da.length = n → db.length = n → LCurve n a da → LCurve n b db →
    HasDerivAt (fun t => DVec.dot (a t) (b t)) (DVec.dot da (b 0) + DVec.dot (a 0) db) 0 := by
  induction n with
  | zero =>
    intro a b da db hla hlb hda hdb _ _
    have ha : ∀ t, a t = [] := fun t => List.eq_nil_of_length_eq_zero (hla t)
    have hda' : da = [] := List.eq_nil_of_length_eq_zero hda
    simp only [ha, hda', ddot_nil_left, add_zero]
    exact hasDerivAt_const _ _
  | succ n ih =>
    intro a b da db hla hlb hda hdb hca hcb
    cases da with
    | nil => simp at hda
    | cons da0 da' =>
    cases db with
    | nil => simp at hdb
    | cons db0 db' =>
      have hA := fun t => list_head_tail n (a t) (hla t)
      have hB := fun t => list_head_tail n (b t) (hlb t)
      have e : (fun t => DVec.dot (a t) (b t)) = fun t => nth (a t) 0 * nth (b t) 0 + DVec.dot ((a t).tail) ((b t).tail) := by
        funext t
        conv_lhs => rw [hA t, hB t]
        simp [ddot_cons]
      have e0 : DVec.dot (da0 :: da') (b 0) + DVec.dot (a 0) (db0 :: db')
          = (da0 * nth (b 0) 0 + nth (a 0) 0 * db0) + (DVec.dot da' ((b 0).tail) + DVec.dot ((a 0).tail) db') := by
        conv_lhs => rw [hA 0, hB 0]
        simp [ddot_cons]; ring
      rw [e, e0]
      have ha0 := hca 0 (Nat.succ_pos n)
      have hb0 := hcb 0 (Nat.succ_pos n)
      simp only [nth_cons_zero] at ha0 hb0
      have := ih (fun t => (a t).tail) (fun t => (b t).tail) da' db' (fun t => by simp [hla t]) (fun t => by simp [hlb t])
        (by simpa using hda) (by simpa using hdb) (lcurve_tail n a da0 da' hla hca) (lcurve_tail n b db0 db' hlb hcb)
      exact (ha0.mul hb0).add this

theorem nth_mulVec (M : DMat ℝ) (y : DVec ℝ) (i : Nat) (hi : i < M.length) :
    nth (M.mulVec y) i = DVec.dot (M.getD i []) y := by
  simp [DMat.mulVec, nth, hi]

theorem nth_dadd (a b : DVec ℝ) (i : Nat) (h : a.length = b.length) : nth (DVec.add a b) i = nth a i + nth b i := by
  induction a generalizing b i with
  | nil => cases b with
    | nil => simp [DVec.add]
    | cons y b => simp at h
  | cons x a ih => cases b with
    | nil => simp at h
    | cons y b =>
      cases i with
      | zero => simp [DVec.add]
      | succ i => simpa [DVec.add] using ih b i (by simpa using h)

theorem row_length {n m : Nat} (M : DMat ℝ) (hs : Shape n m M) (i : Nat) (hi : i < n) : (M.getD i []).length = m := by
  have hl : i < M.length := by rw [hs.1]; exact hi
  have e : M.getD i [] = M[i] := by simp [List.getD_eq_getElem?_getD, hl]
  rw [e]
  exact hs.2 _ (List.getElem_mem hl)

/-- **contract on the external kernel of `Jinvp`** (`dJ` = PyTorch's autograd of the built-in operations inside `*_Jl_inv`): along every
differentiable curve `φ` through `φ0` with velocity `d` the entries of `Jl_inv(φ(t))` are differentiable and `dJ(φ0, p0)·d` is the
derivative of `t ↦ Jl_inv(φ(t))·p0`. -/
def DJSpec (dJ : DJ ℝ) (g : Grp) (eps : ℝ) (φ0 p0 : DVec ℝ) : Prop :=
  ∀ (φ : ℝ → DVec ℝ) (d : DVec ℝ), φ 0 = φ0 → (∀ t, (φ t).length = g.adim) → d.length = g.adim → LCurve g.adim φ d →
    ∃ M' : DMat ℝ, Shape g.adim g.adim M' ∧
      (∀ i, i < g.adim → LCurve g.adim (fun t => (JlInvMat g eps (φ t)).getD i []) (M'.getD i [])) ∧
      (dJ g eps φ0 p0).mulVec d = M'.mulVec p0

/-- **`Jinvp` node = `Log` node + the kernel contract.**  -/
theorem jinvp_nodeOK_of (dJ : DJ ℝ) (hdJs : DJShape dJ) (eps : ℝ) (lt : List Ty) (env : ℝ → List (DVec ℝ)) (tan : List (DVec ℝ)) (g : Grp)
    (p q : Prog) (hq : NodeOK dJ eps lt env tan q) (hlog : NodeOK dJ eps lt env tan (.un .Log g p))
    (hdj : DJSpec dJ g eps (logF g eps (eval eps (env 0) p)) (eval eps (env 0) q)) :
    NodeOK dJ eps lt env tan (.bin .Jinvp g p q) := by
  intro ty hty
  simp only [tyOf] at hty
  cases hpt : tyOf lt p with
  | none => simp [hpt] at hty
  | some t =>
  cases hqt : tyOf lt q with
  | none => simp [hpt, hqt] at hty
  | some u =>
    simp only [hpt, hqt, Option.bind_some, ty2] at hty
    split at hty <;> simp at hty
    rename_i htu; obtain ⟨ht, hu⟩ := htu; subst ht; subst hu; subst hty
    obtain ⟨hY, hyl, hτy⟩ := curveOK_V.mp (hq _ hqt)
    have hlt : tyOf lt (.un .Log g p) = some (.V g.adim) := by simp [tyOf, hpt, ty1]
    obtain ⟨hL, hll, hτl⟩ := curveOK_V.mp (hlog _ hlt)
    simp only [eval, fwd1, tangent, jvp1] at hL hll hτl
    obtain ⟨M', hM', hrows, hdJ⟩ := hdj (fun s => logF g eps (eval eps (env s) p)) _ rfl hll hτl hL
    have hSh := fun s => Shape_JlInvMat g eps (logF g eps (eval eps (env s) p))
    refine curveOK_V.mpr ⟨?_, ?_, ?_⟩
    · intro i hi
      simp only [eval, fwd2, jinvpF, jlInvP, tangent, jvp2]
      have e : (fun s => nth ((JlInvMat g eps (logF g eps (eval eps (env s) p))).mulVec (eval eps (env s) q)) i)
          = fun s => DVec.dot ((JlInvMat g eps (logF g eps (eval eps (env s) p))).getD i []) (eval eps (env s) q) := by
        funext s; exact nth_mulVec _ _ i (by rw [(hSh s).1]; exact hi)
      rw [e, hdJ, nth_dadd _ _ _ (by rw [length_mulVec _ hM', length_mulVec _ (hSh 0)]),
        nth_mulVec _ _ i (by rw [hM'.1]; exact hi), nth_mulVec _ _ i (by rw [(hSh 0).1]; exact hi)]
      exact hasDerivAt_dot2 g.adim _ _ _ _ (fun s => row_length _ (hSh s) i hi) hyl (row_length _ hM' i hi) hτy (hrows i hi) hY
    · intro s; simp only [eval, fwd2, jinvpF, jlInvP]; exact length_mulVec _ (hSh s) _
    · simp only [tangent, jvp2]
      rw [length_dadd _ _ (by rw [length_mulVec _ (hSh 0), length_mulVec _ (hdJs g eps _ _)]), length_mulVec _ (hdJs g eps _ _)]

/-- an explicit kernel: at `φ = 0` the derivative of `φ ↦ so3_Jl_inv(φ)·p` is `½ hat(p)` -/
noncomputable def dJzero : DJ ℝ := fun g _ _ p =>
  match g with
  | .SO3 => (Mat3.smul (1/2) (Mat3.hat (v3 p))).toRows
  | g => DMat.zero g.adim g.adim

/-- the contract is satisfiable: the explicit kernel `dJzero` meets it for `SO3` at `φ = 0` (Taylor branch of `so3_Jl_inv`) -/
theorem djSpec_SO3_zero (eps : ℝ) (heps : 0 < eps) (p0 : DVec ℝ) (hp : p0.length = 3) : DJSpec dJzero .SO3 eps [0, 0, 0] p0 := by
  intro φ d hφ0 hφl hd hL
  obtain ⟨d0, d1, d2, rfl⟩ := len3 _ hd
  obtain ⟨y0, y1, y2, rfl⟩ := len3 _ hp
  have h0 := hL 0 (by simp [Grp.adim]); have h1 := hL 1 (by simp [Grp.adim]); have h2 := hL 2 (by simp [Grp.adim])
  simp only [nth_cons_zero, nth_cons_succ] at h0 h1 h2
  have z0 : nth (φ 0) 0 = 0 := by rw [hφ0]; simp
  have z1 : nth (φ 0) 1 = 0 := by rw [hφ0]; simp
  have z2 : nth (φ 0) 2 = 0 := by rw [hφ0]; simp
  have e0 := h0.differentiableAt; have e1 := h1.differentiableAt; have e2 := h2.differentiableAt
  have hNc : ContinuousAt (fun t => Real.sqrt (nth (φ t) 0 * nth (φ t) 0 + nth (φ t) 1 * nth (φ t) 1 + nth (φ t) 2 * nth (φ t) 2)) 0 :=
    (((h0.continuousAt.mul h0.continuousAt).add (h1.continuousAt.mul h1.continuousAt)).add (h2.continuousAt.mul h2.continuousAt)).sqrt
  have hev : ∀ᶠ t in nhds (0:ℝ), ¬ eps < (v3 (φ t)).norm := by
    have : ∀ᶠ t in nhds (0:ℝ), Real.sqrt (nth (φ t) 0 * nth (φ t) 0 + nth (φ t) 1 * nth (φ t) 1 + nth (φ t) 2 * nth (φ t) 2) < eps := by
      apply hNc.eventually (gt_mem_nhds _)
      simp [z0, z1, z2, heps]
    filter_upwards [this] with t ht
    have : (v3 (φ t)).norm = Real.sqrt (nth (φ t) 0 * nth (φ t) 0 + nth (φ t) 1 * nth (φ t) 1 + nth (φ t) 2 * nth (φ t) 2) := by
      simp [Vec3.norm, Vec3.normSq, v3]
    rw [this]; exact not_lt.mpr (le_of_lt ht)
  refine ⟨(Mat3.smul (-(1/2)) (Mat3.hat ⟨d0, d1, d2⟩)).toRows, ?_, ?_, ?_⟩
  · simp [Shape, Grp.adim, Mat3.toRows, Vec3.toList]
  · intro i hi j hj
    have hcl : (fun t => nth ((JlInvMat .SO3 eps (φ t)).getD i []) j) =ᶠ[nhds 0]
        fun t => nth ((polyK 1 (-(1/2)) (1/12) (v3 (φ t))).toRows.getD i []) j := by
      filter_upwards [hev] with t ht
      simp only [JlInvMat, so3JlInv_taylor eps _ ht]
    refine HasDerivAt.congr_of_eventuallyEq ?_ hcl
    simp only [Grp.adim] at hi hj
    interval_cases i <;> interval_cases j
    all_goals
      simp only [polyK, Mat3.toRows, Vec3.toList, v3, List.getD_cons_zero, List.getD_cons_succ, nth_cons_zero, nth_cons_succ, Nat.zero_add]
      lie_unfold
      try simp only [nth_cons_zero, nth_cons_succ]
      refine HasDerivAt.congr_deriv (DifferentiableAt.hasDerivAt (by fun_prop (disch := assumption))) ?_
      simp (disch := first | assumption | fun_prop (disch := assumption)) only [deriv_fun_add, deriv_fun_sub, deriv_fun_mul,
        deriv_const, deriv_const_mul_field, deriv.fun_neg, h0.deriv, h1.deriv, h2.deriv]
      simp only [z0, z1, z2]
      norm_num
  · simp [dJzero, Mat3.toRows, Vec3.toList, DMat.mulVec, ddot_cons, v3]
    lie_unfold
    refine ⟨?_, ?_, ?_⟩ <;> ring

/-! ## a witness of the contract away from the zero rotation (`SO3`, closed-form branch) -/

/-- velocity of the matrix `1 − K(ψ)/2 + c·K(ψ)²` along curves `ψ(t)`, `c(t)` -/
noncomputable def jlinvVel (ψ b : Vec3 ℝ) (c cd : ℝ) : Mat3 ℝ :=
  Mat3.add (Mat3.smul (-(1/2)) (Mat3.hat b))
    (Mat3.add (Mat3.smul cd ((Mat3.hat ψ).mul (Mat3.hat ψ)))
      (Mat3.smul c (Mat3.add ((Mat3.hat b).mul (Mat3.hat ψ)) ((Mat3.hat ψ).mul (Mat3.hat b)))))

theorem jlinv_entries_curve (p0 p1 p2 cc : ℝ → ℝ) (b0 b1 b2 cd : ℝ)
    (hp0 : HasDerivAt p0 b0 0) (hp1 : HasDerivAt p1 b1 0) (hp2 : HasDerivAt p2 b2 0) (hcc : HasDerivAt cc cd 0) :
    ∀ i, i < 3 → ∀ j, j < 3 →
      HasDerivAt (fun t => nth ((polyK 1 (-(1/2)) (cc t) ⟨p0 t, p1 t, p2 t⟩).toRows.getD i []) j)
        (nth ((jlinvVel ⟨p0 0, p1 0, p2 0⟩ ⟨b0, b1, b2⟩ (cc 0) cd).toRows.getD i []) j) 0 := by
  have e0 := hp0.differentiableAt; have e1 := hp1.differentiableAt; have e2 := hp2.differentiableAt
  have ec := hcc.differentiableAt
  intro i hi j hj
  interval_cases i <;> interval_cases j
  all_goals
    simp only [polyK, jlinvVel, Mat3.toRows, Vec3.toList, List.getD_cons_zero, List.getD_cons_succ, nth_cons_zero, nth_cons_succ]
    lie_unfold
    try simp only [nth_cons_zero, nth_cons_succ]
    refine HasDerivAt.congr_deriv (DifferentiableAt.hasDerivAt (by fun_prop (disch := assumption))) ?_
    simp (disch := first | assumption | fun_prop (disch := assumption)) only [deriv_fun_add, deriv_fun_sub, deriv_fun_mul,
      deriv_const, deriv_const_mul_field, deriv.fun_neg, hp0.deriv, hp1.deriv, hp2.deriv, hcc.deriv]
    ring

/-- the scalar coefficient of `so3_Jl_inv` (closed form) -/
noncomputable def cInv (θ : ℝ) : ℝ := (1 - θ * Real.cos (1/2 * θ) / (2 * Real.sin (1/2 * θ))) / (θ * θ)

/-- the analytic derivative of `φ ↦ so3_Jl_inv(φ)·p` (closed-form branch) as a matrix acting on `δφ` -/
noncomputable def dJso3 (φ p : Vec3 ℝ) : Mat3 ℝ :=
  let K := Mat3.hat φ
  let θ := φ.norm
  Mat3.add (Mat3.smul (1/2) (Mat3.hat p))
    (Mat3.sub (Mat3.smul (deriv cInv θ / θ) (Mat3.outer ((K.mul K).mulVec p) φ))
      (Mat3.smul (cInv θ) (Mat3.add (Mat3.hat (φ.cross p)) (K.mul (Mat3.hat p)))))

/-- an explicit kernel for `SO3`: the analytic derivative on the closed-form branch -/
noncomputable def dJclosed : DJ ℝ := fun g _ φ p =>
  match g with
  | .SO3 => (dJso3 (v3 φ) (v3 p)).toRows
  | g => DMat.zero g.adim g.adim

theorem cInv_differentiable (θ : ℝ) (hθ : θ ≠ 0) (hs : Real.sin (1/2 * θ) ≠ 0) : DifferentiableAt ℝ cInv θ := by
  unfold cInv
  have h2 : 2 * Real.sin (1/2 * θ) ≠ 0 := mul_ne_zero (by norm_num) hs
  have h3 : θ * θ ≠ 0 := mul_ne_zero hθ hθ
  fun_prop (disch := assumption)

/-- **the `Jinvp` kernel contract is satisfiable away from the zero rotation**: the analytic kernel `dJclosed` meets `DJSpec` for `SO3`
at every `φ₀` on the closed-form branch (`θ₀ > eps`, `sin(θ₀/2) ≠ 0`) and every `p₀`. -/
theorem djSpec_SO3_closed (eps : ℝ) (heps : 0 ≤ eps) (φ0 p0 : DVec ℝ) (hφl : φ0.length = 3) (hp : p0.length = 3)
    (hth : eps < (v3 φ0).norm) (hs : Real.sin (1/2 * (v3 φ0).norm) ≠ 0) : DJSpec dJclosed .SO3 eps φ0 p0 := by
  intro φ d hφ0 hφlen hd hL
  obtain ⟨d0, d1, d2, rfl⟩ := len3 _ hd
  obtain ⟨y0, y1, y2, rfl⟩ := len3 _ hp
  have h0 := hL 0 (by simp [Grp.adim]); have h1 := hL 1 (by simp [Grp.adim]); have h2 := hL 2 (by simp [Grp.adim])
  simp only [nth_cons_zero, nth_cons_succ] at h0 h1 h2
  set q0 := nth (φ 0) 0 with hq0
  set q1 := nth (φ 0) 1 with hq1
  set q2 := nth (φ 0) 2 with hq2
  have hv0 : v3 φ0 = ⟨q0, q1, q2⟩ := by rw [← hφ0]; simp [v3, hq0, hq1, hq2]
  rw [hv0] at hth hs
  have hn : ∀ t, (v3 (φ t)).norm = Real.sqrt (nth (φ t) 0 * nth (φ t) 0 + nth (φ t) 1 * nth (φ t) 1 + nth (φ t) 2 * nth (φ t) 2) := by
    intro t; simp [Vec3.norm, Vec3.normSq, v3]
  have hn0 : (⟨q0, q1, q2⟩ : Vec3 ℝ).norm = Real.sqrt (q0 * q0 + q1 * q1 + q2 * q2) := by simp [Vec3.norm, Vec3.normSq]
  set θ0 := Real.sqrt (q0 * q0 + q1 * q1 + q2 * q2) with hθ0
  rw [hn0] at hth hs
  have hθpos : 0 < θ0 := lt_of_le_of_lt heps hth
  have hsq : q0 * q0 + q1 * q1 + q2 * q2 ≠ 0 := by
    intro h; rw [hθ0, h, Real.sqrt_zero] at hθpos; exact lt_irrefl _ hθpos
  -- θ(t) and c(θ(t))
  have hS : HasDerivAt (fun t => nth (φ t) 0 * nth (φ t) 0 + nth (φ t) 1 * nth (φ t) 1 + nth (φ t) 2 * nth (φ t) 2)
      (2 * (q0 * d0 + q1 * d1 + q2 * d2)) 0 := by
    have := ((h0.mul h0).add (h1.mul h1)).add (h2.mul h2)
    refine this.congr_deriv ?_
    simp only [← hq0, ← hq1, ← hq2]; ring
  have hθ : HasDerivAt (fun t => Real.sqrt (nth (φ t) 0 * nth (φ t) 0 + nth (φ t) 1 * nth (φ t) 1 + nth (φ t) 2 * nth (φ t) 2))
      ((q0 * d0 + q1 * d1 + q2 * d2) / θ0) 0 := by
    have := hS.sqrt (by simpa [← hq0, ← hq1, ← hq2] using hsq)
    refine this.congr_deriv ?_
    simp only [← hq0, ← hq1, ← hq2, ← hθ0]
    field_simp
  have hcd := cInv_differentiable θ0 (ne_of_gt hθpos) hs
  have hc : HasDerivAt (fun t => cInv (Real.sqrt (nth (φ t) 0 * nth (φ t) 0 + nth (φ t) 1 * nth (φ t) 1 + nth (φ t) 2 * nth (φ t) 2)))
      (deriv cInv θ0 * ((q0 * d0 + q1 * d1 + q2 * d2) / θ0)) 0 := by
    have hc0 : HasDerivAt cInv (deriv cInv θ0) ((fun t => Real.sqrt (nth (φ t) 0 * nth (φ t) 0 + nth (φ t) 1 * nth (φ t) 1 + nth (φ t) 2 * nth (φ t) 2)) 0) := by
      simp only [← hq0, ← hq1, ← hq2, ← hθ0]; exact hcd.hasDerivAt
    exact hc0.comp 0 hθ
  have hNc : ContinuousAt (fun t => Real.sqrt (nth (φ t) 0 * nth (φ t) 0 + nth (φ t) 1 * nth (φ t) 1 + nth (φ t) 2 * nth (φ t) 2)) 0 := hθ.continuousAt
  have hev : ∀ᶠ t in nhds (0:ℝ), eps < (v3 (φ t)).norm := by
    have := hNc.eventually (lt_mem_nhds (by simpa [← hq0, ← hq1, ← hq2, ← hθ0] using hth))
    filter_upwards [this] with t ht
    rw [hn]; exact ht
  have hent := jlinv_entries_curve (fun t => nth (φ t) 0) (fun t => nth (φ t) 1) (fun t => nth (φ t) 2)
    (fun t => cInv (Real.sqrt (nth (φ t) 0 * nth (φ t) 0 + nth (φ t) 1 * nth (φ t) 1 + nth (φ t) 2 * nth (φ t) 2)))
    d0 d1 d2 _ h0 h1 h2 hc
  simp only [← hq0, ← hq1, ← hq2, ← hθ0] at hent
  refine ⟨(jlinvVel ⟨q0, q1, q2⟩ ⟨d0, d1, d2⟩ (cInv θ0) (deriv cInv θ0 * ((q0 * d0 + q1 * d1 + q2 * d2) / θ0))).toRows, ?_, ?_, ?_⟩
  · simp [Shape, Grp.adim, Mat3.toRows, Vec3.toList]
  · intro i hi j hj
    simp only [Grp.adim] at hi hj
    refine (hent i hi j hj).congr_of_eventuallyEq ?_
    filter_upwards [hev] with t ht
    have hcl := so3JlInv_closed eps (v3 (φ t)) ht
    rw [hn t] at hcl
    simp only [JlInvMat]
    rw [hcl]
    simp [cInv, v3]
  · rw [← hφ0]
    simp only [dJclosed, dJso3, jlinvVel, toRows_mulVec, v3, nth_cons_zero, nth_cons_succ, ← hq0, ← hq1, ← hq2, Nat.zero_add]
    have hn0' : (⟨q0, q1, q2⟩ : Vec3 ℝ).norm = θ0 := hn0
    rw [hn0']
    generalize deriv cInv θ0 = c'
    generalize cInv θ0 = c
    apply congrArg
    apply Vec3.ext' <;> lie_unfold <;> field_simp <;> ring

end PP.AD
