import Pose.Wire
/-! Driver ops for C17. -/
namespace PP.Driver
open PP Wire

def opsC17 : List (String × Handler) := []

end PP.Driver
