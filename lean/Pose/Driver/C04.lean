import Pose.Wire
import Pose.Driver.Lie
/-! Driver ops for C04. -/
namespace PP.Driver
open PP Wire

def opsC04 : List (String × Handler) := []

end PP.Driver
