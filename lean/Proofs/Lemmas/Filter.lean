import Proofs.Real
import Pose.Model.Filter
import Mathlib.LinearAlgebra.Matrix.PosDef
import Mathlib.LinearAlgebra.Matrix.NonsingularInverse
import Mathlib.Data.Matrix.ColumnRowPartitioned
import Mathlib.Algebra.BigOperators.Fin
import Mathlib.Algebra.BigOperators.Field
import Mathlib.Tactic.NoncommRing
import Mathlib.Algebra.Order.Star.Real
import Mathlib.Analysis.Matrix.Order
/-!
# Helper lemmas for C13 (filters)

* the evaluation-forcing wrappers are identities;
* the model's dense algebra over `ℝ` is Mathlib's matrix algebra;
* Kalman algebra: Joseph form, Schur complement, sigma-point sums.
-/
open Matrix
namespace PP.Filter

/-! ### `memo` is the identity -/

@[simp] theorem MemoV.fn_of {β : Type} {n : Nat} (v : Fin n → β) : (memoV v).fn = v := by
  funext i
  simp [memoV, MemoV.fn]

@[simp] theorem MemoM.mfn_of {β : Type} {m n : Nat} (A : Fin m → Fin n → β) : (memoM A).mfn = A := by
  funext i j
  simp [memoM, MemoV.mfn]

@[simp] theorem Sigma.memo_eq {α : Type} {n q : Nat} (s : Sigma α n q) : s.memo = s := by
  cases s
  simp [Sigma.memo]

/-! ### the model's algebra at `ℝ` is Mathlib's -/

theorem fsum_eq_sum : ∀ {n : Nat} (f : Fin n → ℝ), fsum f = ∑ i, f i
  | 0, f => by simp [fsum]
  | n+1, f => by
    rw [fsum, fsum_eq_sum, Fin.sum_univ_succ]

/-- reinterpret a model matrix as a Mathlib matrix (definitionally the same function) -/
abbrev toM {m n : Nat} (A : Mat ℝ m n) : Matrix (Fin m) (Fin n) ℝ := Matrix.of A

theorem mmul_eq {l m n : Nat} (A : Mat ℝ l m) (B : Mat ℝ m n) : toM (mmul A B) = toM A * toM B := by
  ext i j
  simp [mmul, fsum_eq_sum, Matrix.mul_apply]

theorem transpose_eq {m n : Nat} (A : Mat ℝ m n) : toM (transpose A) = (toM A)ᵀ := by
  ext i j; simp [transpose]

theorem madd_eq {m n : Nat} (A B : Mat ℝ m n) : toM (madd A B) = toM A + toM B := by
  ext i j; simp [madd]

theorem msub_eq {m n : Nat} (A B : Mat ℝ m n) : toM (msub A B) = toM A - toM B := by
  ext i j; simp [msub]

theorem msmul_eq {m n : Nat} (c : ℝ) (A : Mat ℝ m n) : toM (msmul c A) = c • toM A := by
  ext i j; simp [msmul]

theorem eye_eq {n : Nat} : toM (eye : Mat ℝ n n) = 1 := by
  ext i j
  simp [eye, Matrix.one_apply, Fin.ext_iff]

theorem mulVec_eq {m n : Nat} (A : Mat ℝ m n) (v : Vec ℝ n) : mulVec A v = toM A *ᵥ v := by
  funext i
  simp [mulVec, fsum_eq_sum, Matrix.mulVec, dotProduct]

theorem vadd_eq {n : Nat} (a b : Vec ℝ n) : vadd a b = a + b := rfl
theorem vsub_eq {n : Nat} (a b : Vec ℝ n) : vsub a b = a - b := rfl
theorem vsmul_eq {n : Nat} (c : ℝ) (a : Vec ℝ n) : vsmul c a = c • a := rfl

theorem dot_eq {n : Nat} (a b : Vec ℝ n) : dot a b = a ⬝ᵥ b := by
  simp [dot, fsum_eq_sum, dotProduct]

end PP.Filter

namespace PP.Filter
open Matrix

/-! ### the same facts with Mathlib-typed arguments (rewrite rules used by the property proofs) -/

section rewrite
variable {l m n : Nat}
theorem mmul_eq' (A : Matrix (Fin l) (Fin m) ℝ) (B : Matrix (Fin m) (Fin n) ℝ) : mmul A B = A * B := mmul_eq A B
theorem transpose_eq' (A : Matrix (Fin m) (Fin n) ℝ) : Filter.transpose A = Aᵀ := transpose_eq A
theorem madd_eq' (A B : Matrix (Fin m) (Fin n) ℝ) : madd A B = A + B := madd_eq A B
theorem msub_eq' (A B : Matrix (Fin m) (Fin n) ℝ) : msub A B = A - B := msub_eq A B
theorem msmul_eq' (c : ℝ) (A : Matrix (Fin m) (Fin n) ℝ) : msmul c A = c • A := msmul_eq c A
theorem eye_eq' : (eye : Mat ℝ n n) = (1 : Matrix (Fin n) (Fin n) ℝ) := eye_eq
@[simp] theorem MemoM.mfn_of' (A : Matrix (Fin m) (Fin n) ℝ) : (memoM A).mfn = A := MemoM.mfn_of A
theorem mulVec_eq' (A : Matrix (Fin m) (Fin n) ℝ) (v : Fin n → ℝ) : Filter.mulVec A v = A *ᵥ v := mulVec_eq A v
end rewrite

/-! ### the specification: Kalman recursion in Mathlib's matrix algebra -/

/-- a Gaussian belief: mean and covariance -/
structure Belief (n : Nat) where
  mean : Fin n → ℝ
  cov : Matrix (Fin n) (Fin n) ℝ

/-- Kalman recursion for a transition with Jacobian `A` whose predicted state is `xm` and an observation
with Jacobian `C` whose predicted value is `ym`: predicted covariance `P⁻ = A P Aᵀ + Q`, innovation
covariance `S = C P⁻ Cᵀ + R`; the posterior is the conditional mean / covariance of the joint Gaussian
`(x', y)`:  `mean = xm + P⁻Cᵀ S⁻¹ (y − ym)`,  `cov = P⁻ − P⁻Cᵀ S⁻¹ C P⁻`. -/
noncomputable def kfStep {n p : Nat} (A : Matrix (Fin n) (Fin n) ℝ) (C : Matrix (Fin p) (Fin n) ℝ)
    (xm : Fin n → ℝ) (ym : Fin p → ℝ) (Q : Matrix (Fin n) (Fin n) ℝ) (R : Matrix (Fin p) (Fin p) ℝ)
    (P : Matrix (Fin n) (Fin n) ℝ) (y : Fin p → ℝ) : Belief n :=
  let Pm := A * P * Aᵀ + Q
  let S := C * Pm * Cᵀ + R
  ⟨xm + (Pm * Cᵀ * S⁻¹) *ᵥ (y - ym), Pm - Pm * Cᵀ * S⁻¹ * C * Pm⟩

/-- The exact Kalman predict-then-update posterior of the linear-Gaussian system
`x' = A x + B u + c1 + w`, `y = C x' + D u + c2 + v`, `w ~ N(0,Q)`, `v ~ N(0,R)`, prior `N(x, P)`. -/
noncomputable def kalman {n m p : Nat} (A : Matrix (Fin n) (Fin n) ℝ) (B : Matrix (Fin n) (Fin m) ℝ)
    (C : Matrix (Fin p) (Fin n) ℝ) (D : Matrix (Fin p) (Fin m) ℝ) (c1 : Fin n → ℝ) (c2 : Fin p → ℝ)
    (Q : Matrix (Fin n) (Fin n) ℝ) (R : Matrix (Fin p) (Fin p) ℝ)
    (x : Fin n → ℝ) (P : Matrix (Fin n) (Fin n) ℝ) (u : Fin m → ℝ) (y : Fin p → ℝ) : Belief n :=
  let xm := A *ᵥ x + B *ᵥ u + c1
  kfStep A C xm (C *ᵥ xm + D *ᵥ u + c2) Q R P y

/-! ### positivity facts -/

section pos
variable {n p : Nat}

theorem predCov_psd {A P Q : Matrix (Fin n) (Fin n) ℝ} (hP : P.PosSemidef) (hQ : Q.PosSemidef) :
    (A * P * Aᵀ + Q).PosSemidef := by
  have := hP.mul_mul_conjTranspose_same A
  rw [conjTranspose_eq_transpose_of_trivial] at this
  exact this.add hQ

theorem innovCov_pd {C : Matrix (Fin p) (Fin n) ℝ} {Pm : Matrix (Fin n) (Fin n) ℝ} {R : Matrix (Fin p) (Fin p) ℝ}
    (hPm : Pm.PosSemidef) (hR : R.PosDef) : (C * Pm * Cᵀ + R).PosDef := by
  have := hPm.mul_mul_conjTranspose_same C
  rw [conjTranspose_eq_transpose_of_trivial] at this
  exact hR.posSemidef_add this

theorem PosDef.isUnit_det' {S : Matrix (Fin p) (Fin p) ℝ} (hS : S.PosDef) : IsUnit S.det :=
  (Matrix.isUnit_iff_isUnit_det S).1 hS.isUnit

end pos
end PP.Filter

namespace PP.Filter
open Matrix

/-! ### Joseph form and positive semidefiniteness of the Kalman posterior covariance -/

section joseph
variable {n p : Nat}

/-- With the Kalman gain `K = P⁻Cᵀ S⁻¹`, `S = C P⁻ Cᵀ + R` invertible:
`P⁻ − K C P⁻ = (1 − K C) P⁻ (1 − K C)ᵀ + K R Kᵀ`. -/
theorem joseph_identity (Pm : Matrix (Fin n) (Fin n) ℝ) (C : Matrix (Fin p) (Fin n) ℝ)
    (R : Matrix (Fin p) (Fin p) ℝ) (hS : IsUnit (C * Pm * Cᵀ + R).det) :
    Pm - Pm * Cᵀ * (C * Pm * Cᵀ + R)⁻¹ * C * Pm =
      (1 - Pm * Cᵀ * (C * Pm * Cᵀ + R)⁻¹ * C) * Pm * (1 - Pm * Cᵀ * (C * Pm * Cᵀ + R)⁻¹ * C)ᵀ
        + (Pm * Cᵀ * (C * Pm * Cᵀ + R)⁻¹) * R * (Pm * Cᵀ * (C * Pm * Cᵀ + R)⁻¹)ᵀ := by
  set S := C * Pm * Cᵀ + R with hSdef
  set K := Pm * Cᵀ * S⁻¹ with hK
  have hKS : K * S = Pm * Cᵀ := by
    rw [hK, Matrix.mul_assoc, Matrix.nonsing_inv_mul _ hS, Matrix.mul_one]
  have hCPC : C * Pm * Cᵀ = S - R := by rw [hSdef]; abel
  have key : (1 - K * C) * Pm * Cᵀ = K * R := by
    calc (1 - K * C) * Pm * Cᵀ = Pm * Cᵀ - K * (C * Pm * Cᵀ) := by
          simp only [Matrix.sub_mul, Matrix.one_mul, Matrix.mul_assoc]
      _ = Pm * Cᵀ - K * (S - R) := by rw [hCPC]
      _ = Pm * Cᵀ - K * S + K * R := by rw [Matrix.mul_sub]; abel
      _ = K * R := by rw [hKS]; simp
  have hT : (1 - K * C)ᵀ = 1 - Cᵀ * Kᵀ := by
    rw [Matrix.transpose_sub, Matrix.transpose_one, Matrix.transpose_mul]
  rw [hT, Matrix.mul_sub, Matrix.mul_one, ← Matrix.mul_assoc ((1 - K * C) * Pm), key]
  rw [Matrix.sub_mul, Matrix.one_mul]
  abel

/-- The Kalman posterior covariance is symmetric positive semidefinite (for any `A`, `C`). -/
theorem kf_cov_psd {Pm : Matrix (Fin n) (Fin n) ℝ} (C : Matrix (Fin p) (Fin n) ℝ)
    {R : Matrix (Fin p) (Fin p) ℝ} (hPm : Pm.PosSemidef) (hR : R.PosDef) :
    (Pm - Pm * Cᵀ * (C * Pm * Cᵀ + R)⁻¹ * C * Pm).PosSemidef := by
  have hS := PosDef.isUnit_det' (innovCov_pd (C := C) hPm hR)
  rw [joseph_identity Pm C R hS]
  have h1 := hPm.mul_mul_conjTranspose_same (1 - Pm * Cᵀ * (C * Pm * Cᵀ + R)⁻¹ * C)
  have h2 := hR.posSemidef.mul_mul_conjTranspose_same (Pm * Cᵀ * (C * Pm * Cᵀ + R)⁻¹)
  rw [conjTranspose_eq_transpose_of_trivial] at h1 h2
  exact h1.add h2

theorem kfStep_cov_psd (A : Matrix (Fin n) (Fin n) ℝ) (C : Matrix (Fin p) (Fin n) ℝ)
    (xm : Fin n → ℝ) (ym : Fin p → ℝ) {Q : Matrix (Fin n) (Fin n) ℝ} {R : Matrix (Fin p) (Fin p) ℝ}
    {P : Matrix (Fin n) (Fin n) ℝ} (y : Fin p → ℝ) (hP : P.PosSemidef) (hQ : Q.PosSemidef) (hR : R.PosDef) :
    (kfStep A C xm ym Q R P y).cov.PosSemidef := by
  simp only [kfStep]
  exact kf_cov_psd C (predCov_psd hP hQ) hR

end joseph
end PP.Filter

namespace PP.Filter
open Matrix

/-! ### runs on (time-varying) linear-Gaussian systems -/

/-- one call on a linear-Gaussian system: the system matrices may change from call to call -/
structure LinStep (n m p : Nat) where
  A : Matrix (Fin n) (Fin n) ℝ
  B : Matrix (Fin n) (Fin m) ℝ
  C : Matrix (Fin p) (Fin n) ℝ
  D : Matrix (Fin p) (Fin m) ℝ
  c1 : Fin n → ℝ
  c2 : Fin p → ℝ
  u : Fin m → ℝ
  y : Fin p → ℝ
  Q : Matrix (Fin n) (Fin n) ℝ
  R : Matrix (Fin p) (Fin p) ℝ

/-- what the filter object receives for this call -/
noncomputable def LinStep.toStep {n m p : Nat} (l : LinStep n m p) : Step ℝ n m p :=
  ⟨affSys l.A l.B l.C l.D l.c1 l.c2, l.u, l.y, l.Q, l.R⟩

/-- noise covariances are valid -/
def LinStep.ok {n m p : Nat} (l : LinStep n m p) : Prop := l.Q.PosSemidef ∧ l.R.PosDef

/-- exact Kalman posterior after one call -/
noncomputable def LinStep.kalman {n m p : Nat} (l : LinStep n m p) (b : Belief n) : Belief n :=
  Filter.kalman l.A l.B l.C l.D l.c1 l.c2 l.Q l.R b.mean b.cov l.u l.y

/-- exact Kalman filter run -/
noncomputable def kalmanRun {n m p : Nat} (steps : List (LinStep n m p)) (b : Belief n) : Belief n :=
  steps.foldl (fun b l => l.kalman b) b

theorem LinStep.kalman_cov_psd {n m p : Nat} (l : LinStep n m p) (hl : l.ok) {b : Belief n}
    (hb : b.cov.PosSemidef) : (l.kalman b).cov.PosSemidef := by
  simp only [LinStep.kalman, Filter.kalman]
  exact kfStep_cov_psd _ _ _ _ _ hb hl.1 hl.2

end PP.Filter

namespace PP.Filter
open Matrix

/-! ### sigma-point sums -/

section sigma
variable {n q r : Nat}

/-- column `i` of a matrix as a vector -/
def colv {q n : Nat} (L : Matrix (Fin q) (Fin n) ℝ) (i : Fin n) : Fin q → ℝ := fun a => L a i

/-- the sigma set `x, x + L eᵢ, x − L eᵢ` -/
def sig (x : Fin n → ℝ) (L : Matrix (Fin n) (Fin n) ℝ) : Sigma ℝ n n :=
  ⟨x, fun i => x + colv L i, fun i => x - colv L i⟩

/-- a symmetric set of deviations `0, −V eᵢ, +V eᵢ` -/
def devSig (V : Matrix (Fin q) (Fin n) ℝ) : Sigma ℝ n q :=
  ⟨0, fun i => -colv V i, fun i => colv V i⟩

theorem sigmaPoints_eq (msqrt : Matrix (Fin n) (Fin n) ℝ → Matrix (Fin n) (Fin n) ℝ) (x : Fin n → ℝ) (P : Matrix (Fin n) (Fin n) ℝ) (kk : ℝ) :
    sigmaPoints msqrt x P kk = sig x (msqrt (((n : ℝ) + kk) • P)) := by
  simp only [sigmaPoints, Sigma.memo_eq, MemoM.mfn_of', msmul_eq', k_real, vadd_eq, vsub_eq]
  rfl

theorem mulVec_colv (T : Matrix (Fin q) (Fin n) ℝ) (L : Matrix (Fin n) (Fin n) ℝ) (i : Fin n) :
    T *ᵥ colv L i = colv (T * L) i := by
  funext a
  simp [colv, Matrix.mulVec, dotProduct, Matrix.mul_apply]

/-- weighted mean of an affine image of a sigma set is the image of the centre (weights sum to one) -/
theorem wsum_affine (a b : ℝ) (hab : a + 2 * n * b = 1) (x : Fin n → ℝ) (L : Matrix (Fin n) (Fin n) ℝ)
    (T : Matrix (Fin q) (Fin n) ℝ) (d c : Fin q → ℝ) :
    ((sig x L).map (fun pt => T *ᵥ pt + d + c)).wsum a b = T *ᵥ x + d + c := by
  funext j
  simp only [Sigma.wsum, Sigma.map, Sigma.memo_eq, sig, fsum_eq_sum, Matrix.mulVec_add, Matrix.mulVec_sub,
    Pi.add_apply, Pi.sub_apply]
  simp only [mul_add, mul_sub, Finset.sum_add_distrib, Finset.sum_sub_distrib, Finset.sum_const, Finset.card_univ,
    Fintype.card_fin, nsmul_eq_mul]
  linear_combination ((T *ᵥ x) j + d j + c j) * hab

theorem dev_map_affine (x : Fin n → ℝ) (L : Matrix (Fin n) (Fin n) ℝ)
    (T : Matrix (Fin q) (Fin n) ℝ) (d c : Fin q → ℝ) :
    ((sig x L).map (fun pt => T *ᵥ pt + d + c)).dev (T *ᵥ x + d + c) = devSig (T * L) := by
  simp only [Sigma.dev, Sigma.map, Sigma.memo_eq, sig, devSig, vsub_eq, Matrix.mulVec_add, Matrix.mulVec_sub,
    mulVec_colv]
  congr 1
  · funext j; simp
  · funext i j; simp
  · funext i j; simp

theorem dev_sig (x : Fin n → ℝ) (L : Matrix (Fin n) (Fin n) ℝ) : (sig x L).dev x = devSig L := by
  simp only [Sigma.dev, Sigma.memo_eq, sig, devSig, vsub_eq]
  congr 1
  · funext j; simp
  · funext i j; simp
  · funext i j; simp

theorem cov_devSig (a b : ℝ) (V : Matrix (Fin q) (Fin n) ℝ) (W : Matrix (Fin r) (Fin n) ℝ) :
    (devSig V).cov a b (devSig W) = (2 * b) • (V * Wᵀ) := by
  funext i j
  simp only [Sigma.cov, devSig, fsum_eq_sum, colv, Pi.zero_apply, Pi.neg_apply, Matrix.smul_apply, Matrix.mul_apply,
    Matrix.transpose_apply, smul_eq_mul, Finset.mul_sum]
  rw [mul_zero, zero_add, ← Finset.sum_add_distrib]
  apply Finset.sum_congr rfl
  intro l _
  ring

end sigma
end PP.Filter

namespace PP.Filter
open Matrix

/-! ### weighted sample covariances are positive semidefinite; Schur complement -/

section schur
variable {n q r : Nat}

theorem vecMulVec_self_psd {ι : Type} [Fintype ι] (z : ι → ℝ) : (vecMulVec z z).PosSemidef := by
  have h := posSemidef_vecMulVec_self_star z
  have hz : star z = z := by funext i; simp
  rwa [hz] at h

/-- `Sigma.cov` as a Mathlib matrix -/
noncomputable def covM (a b : ℝ) (s : Sigma ℝ n q) (t : Sigma ℝ n r) : Matrix (Fin q) (Fin r) ℝ := Matrix.of (s.cov a b t)

theorem cov_eq_covM (a b : ℝ) (s : Sigma ℝ n q) (t : Sigma ℝ n r) : s.cov a b t = covM a b s t := rfl

theorem covM_apply (a b : ℝ) (s : Sigma ℝ n q) (t : Sigma ℝ n r) (i : Fin q) (j : Fin r) :
    covM a b s t i j = a * s.c i * t.c j + (∑ l, b * s.plus l i * t.plus l j) + ∑ l, b * s.minus l i * t.minus l j := by
  simp [covM, Sigma.cov, fsum_eq_sum]

/-- the joint weighted covariance of two families attached to the same sigma set is PSD when the weights
are non-negative -/
theorem joint_cov_psd (a b : ℝ) (ha : 0 ≤ a) (hb : 0 ≤ b) (s : Sigma ℝ n q) (t : Sigma ℝ n r) :
    (fromBlocks (covM a b s s) (covM a b s t) (covM a b t s) (covM a b t t)).PosSemidef := by
  have key : fromBlocks (covM a b s s) (covM a b s t) (covM a b t s) (covM a b t t)
      = a • vecMulVec (Sum.elim s.c t.c) (Sum.elim s.c t.c)
        + ∑ l, b • vecMulVec (Sum.elim (s.plus l) (t.plus l)) (Sum.elim (s.plus l) (t.plus l))
        + ∑ l, b • vecMulVec (Sum.elim (s.minus l) (t.minus l)) (Sum.elim (s.minus l) (t.minus l)) := by
    ext (i | i) (j | j) <;>
      simp [covM_apply, vecMulVec_apply, Matrix.add_apply, Matrix.sum_apply, mul_assoc]
  rw [key]
  refine ((vecMulVec_self_psd _).smul ha).add ?_ |>.add ?_
  · exact posSemidef_sum _ fun l _ => (vecMulVec_self_psd _).smul hb
  · exact posSemidef_sum _ fun l _ => (vecMulVec_self_psd _).smul hb

theorem covM_transpose (a b : ℝ) (s : Sigma ℝ n q) (t : Sigma ℝ n r) : (covM a b s t)ᵀ = covM a b t s := by
  ext i j
  simp only [Matrix.transpose_apply, covM_apply]
  congr 1
  · congr 1
    · ring
    · exact Finset.sum_congr rfl fun l _ => by ring
  · exact Finset.sum_congr rfl fun l _ => by ring

theorem covM_self_psd (a b : ℝ) (ha : 0 ≤ a) (hb : 0 ≤ b) (s : Sigma ℝ n q) : (covM a b s s).PosSemidef := by
  have h := (joint_cov_psd a b ha hb s s).submatrix (Sum.inl : Fin q → Fin q ⊕ Fin q)
  have e : (fromBlocks (covM a b s s) (covM a b s s) (covM a b s s) (covM a b s s)).submatrix
      (Sum.inl : Fin q → Fin q ⊕ Fin q) Sum.inl = covM a b s s := by
    ext i j; simp
  rwa [e] at h

/-- Schur complement: with `Py = R + cov(t,t)`, `R ≻ 0` and non-negative weights,
`cov(s,s) − cov(s,t) Py⁻¹ cov(s,t)ᵀ ⪰ 0`. -/
theorem schur_cov_psd (a b : ℝ) (ha : 0 ≤ a) (hb : 0 ≤ b) (s : Sigma ℝ n q) (t : Sigma ℝ n r)
    {R : Matrix (Fin r) (Fin r) ℝ} (hR : R.PosDef) :
    (covM a b s s - covM a b s t * (R + covM a b t t)⁻¹ * (covM a b s t)ᵀ).PosSemidef := by
  have hPy : (R + covM a b t t).PosDef := hR.add_posSemidef (covM_self_psd a b ha hb t)
  let _ : Invertible (R + covM a b t t) := hPy.isUnit.invertible
  have h0 : (fromBlocks (0 : Matrix (Fin q) (Fin q) ℝ) (0 : Matrix (Fin q) (Fin r) ℝ) 0 R).PosSemidef := by
    let _ : Invertible R := hR.isUnit.invertible
    have := (hR.fromBlocks₂₂ (0 : Matrix (Fin q) (Fin q) ℝ) (0 : Matrix (Fin q) (Fin r) ℝ)).2
      (by simpa using PosSemidef.zero)
    simpa using this
  have hJ := (joint_cov_psd a b ha hb s t).add h0
  rw [fromBlocks_add, add_zero, add_zero, add_zero, add_comm (covM a b t t) R, ← covM_transpose a b s t] at hJ
  have := (hPy.fromBlocks₂₂ (covM a b s s) (covM a b s t)).1
  rw [conjTranspose_eq_transpose_of_trivial] at this
  exact this hJ

end schur
end PP.Filter

namespace PP.Filter
open Matrix

/-! ### particle filter: softmax, cumulative sums, searchsorted, moments -/

section pf
variable {N n : Nat}

theorem fcount_eq_sum : ∀ {N : Nat} (p : Fin N → Bool), fcount p = ∑ i, if p i then 1 else 0
  | 0, p => by simp [fcount]
  | N+1, p => by rw [fcount, fcount_eq_sum, Fin.sum_univ_succ]

theorem fcount_eq_card (p : Fin N → Bool) : fcount p = (Finset.univ.filter fun i => p i = true).card := by
  rw [fcount_eq_sum, Finset.card_filter]

theorem searchsorted_eq_card (cs : Fin N → ℝ) (r : ℝ) :
    searchsorted cs r = (Finset.univ.filter fun i => cs i < r).card := by
  simp [searchsorted, fcount_eq_card, lt_real]

/-- `searchsorted` on a non-decreasing sequence is the lower bound: it is `≤ i` exactly when `r ≤ cs i`. -/
theorem searchsorted_le_iff (cs : Fin N → ℝ) (hmono : Monotone cs) (r : ℝ) (i : Fin N) :
    searchsorted cs r ≤ i.val ↔ r ≤ cs i := by
  rw [searchsorted_eq_card]
  constructor
  · intro h
    by_contra hlt
    rw [not_le] at hlt
    have hsub : Finset.univ.filter (fun j : Fin N => j ≤ i) ⊆ Finset.univ.filter fun j => cs j < r := by
      intro j hj
      simp only [Finset.mem_filter, Finset.mem_univ, true_and] at hj ⊢
      exact lt_of_le_of_lt (hmono hj) hlt
    have hc := Finset.card_le_card hsub
    have : (Finset.univ.filter (fun j : Fin N => j ≤ i)).card = i.val + 1 := by
      have : Finset.univ.filter (fun j : Fin N => j ≤ i) = Finset.Iic i := by ext j; simp
      rw [this, Fin.card_Iic]
    omega
  · intro h
    have hsub : (Finset.univ.filter fun j => cs j < r) ⊆ Finset.univ.filter (fun j : Fin N => j < i) := by
      intro j hj
      simp only [Finset.mem_filter, Finset.mem_univ, true_and] at hj ⊢
      by_contra hji
      rw [not_lt] at hji
      exact absurd (lt_of_lt_of_le hj h) (not_lt.mpr (hmono hji))
    have hc := Finset.card_le_card hsub
    have : (Finset.univ.filter (fun j : Fin N => j < i)).card = i.val := by
      have : Finset.univ.filter (fun j : Fin N => j < i) = Finset.Iio i := by ext j; simp
      rw [this, Fin.card_Iio]
    omega

theorem searchsorted_le_size (cs : Fin N → ℝ) (r : ℝ) : searchsorted cs r ≤ N := by
  rw [searchsorted_eq_card]
  exact (Finset.card_filter_le _ _).trans (by simp)

/-- `cumsum` is the prefix sum -/
theorem cumsum_eq (w : Fin N → ℝ) (i : Fin N) : cumsum w i = ∑ j ∈ Finset.univ.filter (fun j : Fin N => j ≤ i), w j := by
  simp only [cumsum, fsum_eq_sum]
  refine Finset.sum_bij (fun j _ => (⟨j.val, by have := j.isLt; have := i.isLt; omega⟩ : Fin N)) ?_ ?_ ?_ ?_
  · intro j _
    simp only [Finset.mem_filter, Finset.mem_univ, true_and]
    exact Fin.le_def.2 (by have := j.isLt; simp only; omega)
  · intro a _ b _ h
    exact Fin.ext (by simpa using congrArg Fin.val h)
  · intro j hj
    simp only [Finset.mem_filter, Finset.mem_univ, true_and] at hj
    exact ⟨⟨j.val, by have := Fin.le_def.1 hj; omega⟩, Finset.mem_univ _, rfl⟩
  · intro j _; rfl

theorem cumsum_mono (w : Fin N → ℝ) (hw : ∀ i, 0 ≤ w i) : Monotone (cumsum w) := by
  intro i j hij
  rw [cumsum_eq, cumsum_eq]
  apply Finset.sum_le_sum_of_subset_of_nonneg
  · intro k hk
    simp only [Finset.mem_filter, Finset.mem_univ, true_and] at hk ⊢
    exact hk.trans hij
  · intro k _ _; exact hw k

theorem cumsum_last (w : Fin N → ℝ) (i : Fin N) (hi : i.val + 1 = N) : cumsum w i = ∑ j, w j := by
  rw [cumsum_eq]
  congr 1
  ext j
  simp only [Finset.mem_filter, Finset.mem_univ, true_and, iff_true]
  exact Fin.le_def.2 (by have := j.isLt; omega)

end pf
end PP.Filter

namespace PP.Filter
open Matrix

section pf2
variable {N n : Nat}

/-- the max-shift inside `softmax` cancels: `softmax l i = exp(l i) / Σ_j exp(l j)` -/
theorem softmax_fn (l : Fin N → ℝ) (i : Fin N) :
    (softmax l).fn i = Real.exp (l i) / ∑ j, Real.exp (l j) := by
  simp only [softmax, MemoV.fn_of, fsum_eq_sum, exp_real]
  generalize vmax l = c
  simp only [Real.exp_sub, ← Finset.sum_div]
  rw [div_div_div_cancel_right₀ (Real.exp_ne_zero c)]

theorem softmax_pos (l : Fin N → ℝ) (i : Fin N) : 0 < (softmax l).fn i := by
  rw [softmax_fn]
  exact div_pos (Real.exp_pos _) (Finset.sum_pos' (fun j _ => (Real.exp_pos _).le) ⟨i, Finset.mem_univ _, Real.exp_pos _⟩)

theorem softmax_sum (l : Fin N → ℝ) (hN : 0 < N) : ∑ i, (softmax l).fn i = 1 := by
  simp only [softmax_fn, ← Finset.sum_div]
  have : 0 < ∑ j, Real.exp (l j) :=
    Finset.sum_pos' (fun j _ => (Real.exp_pos _).le) ⟨⟨0, hN⟩, Finset.mem_univ _, Real.exp_pos _⟩
  exact div_self this.ne'

/-- a common additive constant in the log-likelihoods does not change the weights -/
theorem softmax_shift (l : Fin N → ℝ) (c : ℝ) : (softmax fun i => l i - c).fn = (softmax l).fn := by
  funext i
  simp only [softmax_fn, Real.exp_sub, ← Finset.sum_div]
  rw [div_div_div_cancel_right₀ (Real.exp_ne_zero c)]

/-- mean and covariance of `pfMoments` in Mathlib terms -/
theorem pfMoments_x (Q : Matrix (Fin n) (Fin n) ℝ) (xr : Fin N → Fin n → ℝ) :
    (pfMoments Q xr).x = fun a => (∑ j, xr j a) / N := by
  simp only [pfMoments, MemoV.fn_of, fsum_eq_sum, k_real]

theorem pfMoments_P (Q : Matrix (Fin n) (Fin n) ℝ) (xr : Fin N → Fin n → ℝ) :
    (pfMoments Q xr).P = Q + (1 / (N : ℝ)) • ∑ j, vecMulVec (xr j - (pfMoments Q xr).x) (xr j - (pfMoments Q xr).x) := by
  funext a b
  simp only [pfMoments, MemoV.fn_of, MemoM.mfn_of, fsum_eq_sum, k_real, vsub_eq, Matrix.add_apply, Matrix.smul_apply,
    Matrix.sum_apply, vecMulVec_apply, Pi.sub_apply, smul_eq_mul]
  rw [one_div, inv_mul_eq_div]

theorem pfMoments_P_psd {Q : Matrix (Fin n) (Fin n) ℝ} (hQ : Q.PosSemidef) (xr : Fin N → Fin n → ℝ) :
    Matrix.PosSemidef (pfMoments Q xr).P := by
  rw [pfMoments_P]
  refine hQ.add (PosSemidef.smul (posSemidef_sum _ fun j _ => vecMulVec_self_psd _) ?_)
  positivity

end pf2
end PP.Filter

namespace PP.Filter
section pf3
variable {N : Nat}

theorem cumsum_zero (w : Fin N → ℝ) (i : Fin N) (hi : i.val = 0) : cumsum w i = w i := by
  rw [cumsum_eq]
  have : Finset.univ.filter (fun j : Fin N => j ≤ i) = {i} := by
    ext j
    simp only [Finset.mem_filter, Finset.mem_univ, true_and, Finset.mem_singleton]
    constructor
    · intro h; exact Fin.ext (by have := Fin.le_def.1 h; omega)
    · rintro rfl; exact le_refl _
  rw [this, Finset.sum_singleton]

theorem cumsum_succ (w : Fin N → ℝ) (i j : Fin N) (hij : j.val = i.val + 1) : cumsum w j = cumsum w i + w j := by
  rw [cumsum_eq, cumsum_eq]
  have : Finset.univ.filter (fun k : Fin N => k ≤ j) = insert j (Finset.univ.filter (fun k : Fin N => k ≤ i)) := by
    ext k
    simp only [Finset.mem_filter, Finset.mem_univ, true_and, Finset.mem_insert, Fin.le_def, Fin.ext_iff]
    omega
  rw [this, Finset.sum_insert, add_comm]
  simp only [Finset.mem_filter, Finset.mem_univ, true_and, Fin.le_def]
  omega

end pf3
end PP.Filter

namespace PP.Filter
open Matrix

/-! ### the Kalman gain minimises the error covariance among all linear updates -/

section optimal
variable {n p : Nat}

/-- error covariance of the linear update `x⁺ = x⁻ + G (y − ŷ)` (Joseph form) -/
def updateCov (Pm : Matrix (Fin n) (Fin n) ℝ) (C : Matrix (Fin p) (Fin n) ℝ) (R : Matrix (Fin p) (Fin p) ℝ)
    (G : Matrix (Fin n) (Fin p) ℝ) : Matrix (Fin n) (Fin n) ℝ :=
  (1 - G * C) * Pm * (1 - G * C)ᵀ + G * R * Gᵀ

theorem updateCov_sub_kalman (Pm : Matrix (Fin n) (Fin n) ℝ) (C : Matrix (Fin p) (Fin n) ℝ)
    (R : Matrix (Fin p) (Fin p) ℝ) (hPm : Pm.PosSemidef) (hR : R.PosDef) (G : Matrix (Fin n) (Fin p) ℝ) :
    updateCov Pm C R G - (Pm - Pm * Cᵀ * (C * Pm * Cᵀ + R)⁻¹ * C * Pm)
      = (G - Pm * Cᵀ * (C * Pm * Cᵀ + R)⁻¹) * (C * Pm * Cᵀ + R) * (G - Pm * Cᵀ * (C * Pm * Cᵀ + R)⁻¹)ᵀ := by
  have hSpd := innovCov_pd (C := C) hPm hR
  have hS := PosDef.isUnit_det' hSpd
  have hSsym : (C * Pm * Cᵀ + R)ᵀ = C * Pm * Cᵀ + R := hSpd.isHermitian
  have hPsym : Pmᵀ = Pm := hPm.isHermitian
  set S := C * Pm * Cᵀ + R with hSdef
  set M := Pm * Cᵀ with hM
  have hMT : Mᵀ = C * Pm := by rw [hM, Matrix.transpose_mul, Matrix.transpose_transpose, hPsym]
  have hJ : updateCov Pm C R G = Pm - G * Mᵀ - M * Gᵀ + G * S * Gᵀ := by
    have e1 : (1 - G * C)ᵀ = 1 - Cᵀ * Gᵀ := by
      rw [Matrix.transpose_sub, Matrix.transpose_one, Matrix.transpose_mul]
    have e2 : G * S * Gᵀ = G * (C * Pm * Cᵀ) * Gᵀ + G * R * Gᵀ := by
      rw [hSdef, Matrix.mul_add, Matrix.add_mul]
    rw [updateCov, e1, e2, hMT, hM]
    simp only [Matrix.sub_mul, Matrix.mul_sub, Matrix.one_mul, Matrix.mul_one, Matrix.mul_assoc]
    abel
  have hK : (G - M * S⁻¹) * S * (G - M * S⁻¹)ᵀ = G * S * Gᵀ - G * Mᵀ - M * Gᵀ + M * S⁻¹ * Mᵀ := by
    have e1 : (G - M * S⁻¹) * S = G * S - M := by
      rw [Matrix.sub_mul, Matrix.nonsing_inv_mul_cancel_right _ _ hS]
    have e2 : (G - M * S⁻¹)ᵀ = Gᵀ - S⁻¹ * Mᵀ := by
      rw [Matrix.transpose_sub, Matrix.transpose_mul, Matrix.transpose_nonsing_inv, hSsym]
    have e3 : G * S * (S⁻¹ * Mᵀ) = G * Mᵀ := by
      rw [Matrix.mul_assoc G S, Matrix.mul_nonsing_inv_cancel_left _ _ hS]
    rw [e1, e2, Matrix.sub_mul, Matrix.mul_sub, Matrix.mul_sub, e3, ← Matrix.mul_assoc M]
    abel
  rw [hJ, hK, Matrix.mul_assoc (M * S⁻¹) C Pm, ← hMT]
  abel

end optimal
end PP.Filter

namespace PP.Filter
open Matrix
open scoped MatrixOrder

/-- the square-root contract of `UKF.msqrt` is satisfiable in every dimension -/
theorem exists_msqrt (n : Nat) : ∃ msqrt : Matrix (Fin n) (Fin n) ℝ → Matrix (Fin n) (Fin n) ℝ,
    ∀ M : Matrix (Fin n) (Fin n) ℝ, M.PosSemidef → msqrt M * (msqrt M)ᵀ = M := by
  classical
  refine ⟨fun M => if h : M.PosSemidef then
    (Classical.choose (CStarAlgebra.nonneg_iff_eq_star_mul_self.mp h.nonneg))ᵀ else 0, ?_⟩
  intro M hM
  have := Classical.choose_spec (CStarAlgebra.nonneg_iff_eq_star_mul_self.mp hM.nonneg)
  simp only [hM, dif_pos, transpose_transpose]
  conv_rhs => rw [this]
  simp [star_eq_conjTranspose]

/-- the `pinv` contract is satisfiable -/
theorem exists_pinv (p : Nat) : ∃ pinv : Matrix (Fin p) (Fin p) ℝ → Matrix (Fin p) (Fin p) ℝ,
    ∀ S : Matrix (Fin p) (Fin p) ℝ, IsUnit S.det → pinv S = S⁻¹ := ⟨fun S => S⁻¹, fun _ _ => rfl⟩

end PP.Filter

namespace PP.Filter
open Matrix

/-! ### the witness for the necessity of a non-negative centre weight -/

abbrev M1 := Matrix (Fin 1) (Fin 1) ℝ

/-- the witness system: `f(x,u) = x` (written in affine form), `g(x,u) = x² + x` -/
noncomputable def witnessSys : Sys ℝ 1 1 1 where
  f x u := vadd (vadd (Filter.mulVec (1 : M1) x) (Filter.mulVec (0 : M1) u)) 0
  g x _ := fun _ => x 0 * x 0 + x 0
  jf _ _ := (1 : M1)
  jg x _ := fun _ _ => 2 * x 0 + 1

theorem fsum_one (f : Fin 1 → ℝ) : fsum f = f 0 := by simp [fsum_eq_sum]

end PP.Filter

namespace PP.Filter
open Matrix Finset

/-! ### histories on one object over linear-Gaussian systems; expectation over independently drawn indices -/

section objruns
variable {n m p M N : Nat}

/-- one call on a linear-Gaussian system as the API sees it: the covariances the call would pass, whether it passes them,
and the sigma-point parameter it passes (`none` = default) -/
structure LinCall (n m p : Nat) where
  l : LinStep n m p
  passQ : Bool
  passR : Bool
  kk : Option ℝ

noncomputable def LinCall.toCall (c : LinCall n m p) : Call ℝ n m p :=
  ⟨affSys c.l.A c.l.B c.l.C c.l.D c.l.c1 c.l.c2, c.l.u, c.l.y,
   if c.passQ then some c.l.Q else none, if c.passR then some c.l.R else none, c.kk⟩

/-- the linear-Gaussian step in force on an object that stores `stQ`, `stR` -/
def LinCall.eff (stQ : Matrix (Fin n) (Fin n) ℝ) (stR : Matrix (Fin p) (Fin p) ℝ) (c : LinCall n m p) : LinStep n m p :=
  { c.l with Q := if c.passQ then c.l.Q else stQ, R := if c.passR then c.l.R else stR }

theorem LinCall.toStep_eq (stQ : Matrix (Fin n) (Fin n) ℝ) (stR : Matrix (Fin p) (Fin p) ℝ) (c : LinCall n m p) :
    c.toCall.toStep (some stQ) (some stR) = some (c.eff stQ stR).toStep := by
  cases c with
  | mk l pq pr kk => cases pq <;> cases pr <;> simp [LinCall.toCall, LinCall.eff, Call.toStep, resolve, LinStep.toStep]

/-- expectation of `F(idx)` when the `N` indices are drawn independently, index `i` with probability `w i`
(a finite sum over all index tuples) -/
noncomputable def expectIdx (w : Fin M → ℝ) (F : (Fin N → Fin M) → ℝ) : ℝ :=
  ∑ f : Fin N → Fin M, (∏ j, w (f j)) * F f

theorem expectIdx_prod (w : Fin M → ℝ) (g : Fin N → Fin M → ℝ) :
    expectIdx w (fun f => ∏ j, g j (f j)) = ∏ j, ∑ i, w i * g j i := by
  unfold expectIdx
  rw [Finset.prod_univ_sum, Fintype.piFinset_univ]
  exact Finset.sum_congr rfl fun f _ => by rw [Finset.prod_mul_distrib]

theorem expectIdx_add (w : Fin M → ℝ) (F G : (Fin N → Fin M) → ℝ) :
    expectIdx w (fun f => F f + G f) = expectIdx w F + expectIdx w G := by
  simp only [expectIdx, mul_add, Finset.sum_add_distrib]

theorem expectIdx_sum {ι : Type} (s : Finset ι) (w : Fin M → ℝ) (F : ι → (Fin N → Fin M) → ℝ) :
    expectIdx w (fun f => ∑ a ∈ s, F a f) = ∑ a ∈ s, expectIdx w (F a) := by
  simp only [expectIdx, Finset.mul_sum]
  rw [Finset.sum_comm]

theorem expectIdx_const_mul (w : Fin M → ℝ) (c : ℝ) (F : (Fin N → Fin M) → ℝ) :
    expectIdx w (fun f => c * F f) = c * expectIdx w F := by
  simp only [expectIdx, Finset.mul_sum]
  exact Finset.sum_congr rfl fun f _ => by ring

theorem expectIdx_coord (w : Fin M → ℝ) (hw : ∑ i, w i = 1) (h : Fin M → ℝ) (j0 : Fin N) :
    expectIdx w (fun f => h (f j0)) = ∑ i, w i * h i := by
  have := expectIdx_prod w (fun j i => if j = j0 then h i else 1)
  simp only [Finset.prod_ite_eq', Finset.mem_univ, if_true] at this
  rw [this]
  have : ∀ j, (∑ i, w i * if j = j0 then h i else 1) = if j = j0 then ∑ i, w i * h i else 1 := by
    intro j; by_cases hj : j = j0 <;> simp [hj, hw]
  simp only [this, Finset.prod_ite_eq', Finset.mem_univ, if_true]

theorem expectIdx_two (w : Fin M → ℝ) (hw : ∑ i, w i = 1) (h h' : Fin M → ℝ) (j0 l0 : Fin N) (hne : j0 ≠ l0) :
    expectIdx w (fun f => h (f j0) * h' (f l0)) = (∑ i, w i * h i) * ∑ i, w i * h' i := by
  have := expectIdx_prod w (fun j i => (if j = j0 then h i else 1) * (if j = l0 then h' i else 1))
  simp only [Finset.prod_mul_distrib, Finset.prod_ite_eq', Finset.mem_univ, if_true] at this
  rw [this]
  have hj : ∀ j, (∑ i, w i * ((if j = j0 then h i else 1) * if j = l0 then h' i else 1)) =
      (if j = j0 then ∑ i, w i * h i else 1) * (if j = l0 then ∑ i, w i * h' i else 1) := by
    intro j
    by_cases h1 : j = j0
    · have h2 : j ≠ l0 := fun e => hne (h1.symm.trans e)
      simp [h1, hne]
    · by_cases h2 : j = l0
      · subst h2
        simp [h1]
      · simp [h1, h2, hw]
  simp only [hj, Finset.prod_mul_distrib, Finset.prod_ite_eq', Finset.mem_univ, if_true]

/-- multinomial resampling is unbiased: the expected mean of the resampled values is the weighted mean -/
theorem resample_mean_expect (w : Fin M → ℝ) (hw : ∑ i, w i = 1) (hN : 0 < N) (h : Fin M → ℝ) :
    expectIdx (N := N) w (fun f => (∑ j, h (f j)) / N) = ∑ i, w i * h i := by
  have hN' : (N : ℝ) ≠ 0 := by exact_mod_cast hN.ne'
  have e : (fun f : Fin N → Fin M => (∑ j, h (f j)) / N) = fun f => (1 / (N : ℝ)) * ∑ j, h (f j) := by
    funext f; ring
  rw [e, expectIdx_const_mul, expectIdx_sum]
  simp only [expectIdx_coord w hw h, Finset.sum_const, Finset.card_univ, Fintype.card_fin, nsmul_eq_mul]
  field_simp

/-- ... and its variance is the weighted variance divided by `N` (the Monte-Carlo rate of the resampling stage) -/
theorem resample_mean_variance (w : Fin M → ℝ) (hw : ∑ i, w i = 1) (hN : 0 < N) (h : Fin M → ℝ) :
    expectIdx (N := N) w (fun f => ((∑ j, h (f j)) / N - ∑ i, w i * h i) ^ 2)
      = (∑ i, w i * (h i - ∑ i, w i * h i) ^ 2) / N := by
  have hN' : (N : ℝ) ≠ 0 := by exact_mod_cast hN.ne'
  set μ := ∑ i, w i * h i with hμ
  set d : Fin M → ℝ := fun i => h i - μ with hd
  have hd0 : ∑ i, w i * d i = 0 := by
    simp only [hd, mul_sub, Finset.sum_sub_distrib, ← Finset.sum_mul, hw, one_mul, ← hμ, sub_self]
  have e : (fun f : Fin N → Fin M => ((∑ j, h (f j)) / N - μ) ^ 2)
      = fun f => (1 / (N : ℝ)) ^ 2 * ∑ j, ∑ l, d (f j) * d (f l) := by
    funext f
    have : (∑ j, h (f j)) / N - μ = (1 / (N : ℝ)) * ∑ j, d (f j) := by
      simp only [hd, Finset.sum_sub_distrib, Finset.sum_const, Finset.card_univ, Fintype.card_fin, nsmul_eq_mul]
      field_simp
    rw [this, mul_pow, pow_two (∑ j, d (f j)), Finset.sum_mul_sum]
  rw [e, expectIdx_const_mul, expectIdx_sum]
  have inner : ∀ j : Fin N, expectIdx w (fun f => ∑ l, d (f j) * d (f l)) = ∑ i, w i * d i ^ 2 := by
    intro j
    rw [expectIdx_sum, Finset.sum_eq_single j]
    · have := expectIdx_coord (N := N) w hw (fun i => d i * d i) j
      simpa only [pow_two] using this
    · intro l _ hl
      rw [expectIdx_two w hw d d j l (Ne.symm hl), hd0, zero_mul]
    · intro hj; exact absurd (Finset.mem_univ j) hj
  simp only [inner, Finset.sum_const, Finset.card_univ, Fintype.card_fin, nsmul_eq_mul]
  field_simp
  rfl

end objruns
end PP.Filter

namespace PP.Filter
open Matrix
open scoped MatrixOrder

/-! ### positive definiteness along a run (what the default Cholesky root needs); lemmas that hold by construction of the model -/

section pass4
variable {n m p : Nat}

/-- information form: the Kalman posterior covariance times `P⁻⁻¹ + CᵀR⁻¹C` is the identity -/
theorem kf_cov_mul_information (Pm : Matrix (Fin n) (Fin n) ℝ) (C : Matrix (Fin p) (Fin n) ℝ)
    (R : Matrix (Fin p) (Fin p) ℝ) (hPm : IsUnit Pm.det) (hR : IsUnit R.det) (hS : IsUnit (C * Pm * Cᵀ + R).det) :
    (Pm - Pm * Cᵀ * (C * Pm * Cᵀ + R)⁻¹ * C * Pm) * (Pm⁻¹ + Cᵀ * R⁻¹ * C) = 1 := by
  set S := C * Pm * Cᵀ + R with hSdef
  set Mx := Pm * Cᵀ with hM
  have hCPC : C * Mx = S - R := by rw [hM, ← Matrix.mul_assoc, hSdef]; abel
  have h1 : (Pm - Mx * S⁻¹ * C * Pm) * Pm⁻¹ = 1 - Mx * S⁻¹ * C := by
    rw [Matrix.sub_mul, Matrix.mul_nonsing_inv _ hPm, Matrix.mul_assoc (Mx * S⁻¹ * C), Matrix.mul_nonsing_inv _ hPm,
      Matrix.mul_one]
  have h2 : (Pm - Mx * S⁻¹ * C * Pm) * (Cᵀ * R⁻¹ * C) = Mx * S⁻¹ * C := by
    have e : (Pm - Mx * S⁻¹ * C * Pm) * (Cᵀ * R⁻¹ * C) = Mx * R⁻¹ * C - Mx * S⁻¹ * (C * Mx) * R⁻¹ * C := by
      rw [hM]; simp only [Matrix.sub_mul, Matrix.mul_assoc]
    rw [e, hCPC, Matrix.mul_sub, Matrix.sub_mul, Matrix.sub_mul, Matrix.nonsing_inv_mul_cancel_right _ _ hS,
      Matrix.mul_assoc (Mx * S⁻¹) R, Matrix.mul_nonsing_inv _ hR, Matrix.mul_one]
    abel
  rw [Matrix.mul_add, h1, h2]
  abel

/-- with `P⁻ ≻ 0` and `R ≻ 0` the Kalman posterior covariance is positive definite (so it has a Cholesky factor) -/
theorem kf_cov_pd {Pm : Matrix (Fin n) (Fin n) ℝ} (C : Matrix (Fin p) (Fin n) ℝ) {R : Matrix (Fin p) (Fin p) ℝ}
    (hPm : Pm.PosDef) (hR : R.PosDef) : (Pm - Pm * Cᵀ * (C * Pm * Cᵀ + R)⁻¹ * C * Pm).PosDef := by
  have hpsd := kf_cov_psd C hPm.posSemidef hR
  have hS := PosDef.isUnit_det' (innovCov_pd (C := C) hPm.posSemidef hR)
  have hinfo := kf_cov_mul_information Pm C R (PosDef.isUnit_det' hPm) (PosDef.isUnit_det' hR) hS
  exact hpsd.posDef_iff_isUnit.mpr ((Matrix.isUnit_iff_isUnit_det _).2 (Matrix.isUnit_det_of_right_inverse hinfo))

theorem predCov_pd {A P Q : Matrix (Fin n) (Fin n) ℝ} (hP : P.PosSemidef) (hQ : Q.PosDef) :
    (A * P * Aᵀ + Q).PosDef := by
  have := hP.mul_mul_conjTranspose_same A
  rw [conjTranspose_eq_transpose_of_trivial] at this
  exact hQ.posSemidef_add this


/-- noise covariances positive definite (what the default Cholesky root of the UKF needs along a run) -/
def LinStep.okPD (l : LinStep n m p) : Prop := l.Q.PosDef ∧ l.R.PosDef

theorem LinStep.okPD.ok {l : LinStep n m p} (h : l.okPD) : l.ok := ⟨h.1.posSemidef, h.2⟩

theorem LinStep.kalman_cov_pd (l : LinStep n m p) (hl : l.okPD) {b : Belief n} (hb : b.cov.PosSemidef) :
    (l.kalman b).cov.PosDef := by
  simp only [LinStep.kalman, Filter.kalman, kfStep]
  exact kf_cov_pd _ (predCov_pd hb hl.1) hl.2

/-- core of `ukf_linear_eq_kf`: all that is needed of the matrix square root are the two factorisations the call makes -/
theorem ukf_linear_eq_kf_of_factors (pinv : Mat ℝ p p → Mat ℝ p p)
    (hpinv : ∀ S : Matrix (Fin p) (Fin p) ℝ, IsUnit S.det → pinv S = S⁻¹)
    (msqrt : Matrix (Fin n) (Fin n) ℝ → Matrix (Fin n) (Fin n) ℝ)
    (kk : ℝ) (hk : -(n : ℝ) < kk)
    (l : LinStep n m p) (hl : l.ok) (b : Belief n) (hb : b.cov.PosSemidef)
    (h1 : msqrt (((n : ℝ) + kk) • b.cov) * (msqrt (((n : ℝ) + kk) • b.cov))ᵀ = ((n : ℝ) + kk) • b.cov)
    (h2 : msqrt (((n : ℝ) + kk) • (l.A * b.cov * l.Aᵀ + l.Q)) * (msqrt (((n : ℝ) + kk) • (l.A * b.cov * l.Aᵀ + l.Q)))ᵀ
      = ((n : ℝ) + kk) • (l.A * b.cov * l.Aᵀ + l.Q)) :
    (ukf pinv msqrt kk l.toStep ⟨b.mean, b.cov⟩).x = (l.kalman b).mean ∧
    (ukf pinv msqrt kk l.toStep ⟨b.mean, b.cov⟩).P = (l.kalman b).cov := by
  have hN : 0 < (n : ℝ) + kk := by linarith
  have hab : w0 n kk + 2 * n * wr n kk = 1 := by
    simp only [w0, wr, k_real]; field_simp; push_cast; ring
  have h2b : 2 * wr n kk * ((n : ℝ) + kk) = 1 := by
    simp only [wr, k_real]; field_simp; push_cast; ring
  obtain ⟨hQ, hR⟩ := hl
  set N : ℝ := (n : ℝ) + kk with hNdef
  set L1 := msqrt (N • b.cov) with hL1def
  have hL1 : L1 * L1ᵀ = N • b.cov := h1
  have hPmpsd : (l.A * b.cov * l.Aᵀ + l.Q).PosSemidef := predCov_psd hb hQ
  set Pm := l.A * b.cov * l.Aᵀ + l.Q with hPmdef
  set L2 := msqrt (N • Pm) with hL2def
  have hL2 : L2 * L2ᵀ = N • Pm := h2
  have e1 : (2 * wr n kk) • (l.A * L1 * (l.A * L1)ᵀ) = l.A * b.cov * l.Aᵀ := by
    rw [Matrix.transpose_mul, Matrix.mul_assoc l.A L1, ← Matrix.mul_assoc L1, hL1, Matrix.smul_mul, Matrix.mul_smul,
      smul_smul, h2b, one_smul, Matrix.mul_assoc]
  have e2 : l.Q + l.A * b.cov * l.Aᵀ = Pm := add_comm _ _
  have e3 : (2 * wr n kk) • (l.C * L2 * (l.C * L2)ᵀ) = l.C * Pm * l.Cᵀ := by
    rw [Matrix.transpose_mul, Matrix.mul_assoc l.C L2, ← Matrix.mul_assoc L2, hL2, Matrix.smul_mul, Matrix.mul_smul,
      smul_smul, h2b, one_smul, Matrix.mul_assoc]
  have e4 : (2 * wr n kk) • (L2 * (l.C * L2)ᵀ) = Pm * l.Cᵀ := by
    rw [Matrix.transpose_mul, ← Matrix.mul_assoc L2, hL2, Matrix.smul_mul, smul_smul, h2b, one_smul]
  have e5 : l.R + l.C * Pm * l.Cᵀ = l.C * Pm * l.Cᵀ + l.R := add_comm _ _
  have hS := PosDef.isUnit_det' (innovCov_pd (C := l.C) hPmpsd hR)
  simp only [ukf, LinStep.toStep, affSys, MemoV.fn_of, MemoM.mfn_of', sigmaPoints_eq, mulVec_eq', vadd_eq,
    vsub_eq, wsum_affine _ _ hab, dev_map_affine, dev_sig, cov_devSig, madd_eq', ← hNdef, ← hL1def, e1, e2, ← hL2def,
    e3, e4, e5, hpinv _ hS, mmul_eq', msub_eq', transpose_eq', LinStep.kalman, kalman, kfStep]
  rw [← hPmdef]
  refine ⟨rfl, ?_⟩
  have hSsym : (l.C * Pm * l.Cᵀ + l.R)ᵀ = l.C * Pm * l.Cᵀ + l.R := (innovCov_pd (C := l.C) hPmpsd hR).isHermitian
  have hPsym : Pmᵀ = Pm := hPmpsd.isHermitian
  rw [Matrix.nonsing_inv_mul_cancel_right _ _ hS, Matrix.transpose_mul, Matrix.transpose_mul, Matrix.transpose_transpose,
    Matrix.transpose_nonsing_inv, hSsym, hPsym]
  simp only [Matrix.mul_assoc]
  rfl


/-! The following statements hold by construction of the model (`foldl`, `filterMap`, `match`): they record what the model
says about statelessness, atomicity and argument resolution. That the REAL objects behave like this is decided by the
history streams of the harness (object reuse, copies, failing calls, per-call sources), not by these lemmas. -/

/-- **Object reuse = fresh object (statelessness), any system.** A run is a plain fold of the one-call function:
splitting a history anywhere and continuing from the intermediate posterior — e.g. with a freshly constructed filter
— gives the same result, for arbitrary (non-linear) systems and arbitrary per-call arguments. Anything a filter object
remembers between calls (caches of weights, Jacobians, factors) must therefore be invisible. -/
theorem run_append {α : Type} [Scalar α] (pinv : Mat α p p → Mat α p p) (msqrt : Mat α n n → Mat α n n)
    (s₁ s₂ : List (Step α n m p)) (c₁ c₂ : List (α × Step α n m p)) (pr : Post α n) :
    runEKF pinv (s₁ ++ s₂) pr = runEKF pinv s₂ (runEKF pinv s₁ pr) ∧
    runUKF pinv msqrt (c₁ ++ c₂) pr = runUKF pinv msqrt c₂ (runUKF pinv msqrt c₁ pr) := by
  simp [runEKF, runUKF, List.foldl_append]

/-- the last call of a run sees only the posterior of the calls before it and its own arguments -/
theorem run_last_call {α : Type} [Scalar α] (pinv : Mat α p p → Mat α p p) (msqrt : Mat α n n → Mat α n n)
    (ss : List (Step α n m p)) (s : Step α n m p) (cs : List (α × Step α n m p)) (kk : α) (pr : Post α n) :
    runEKF pinv (ss ++ [s]) pr = ekf pinv s (runEKF pinv ss pr) ∧
    runUKF pinv msqrt (cs ++ [(kk, s)]) pr = ukf pinv msqrt kk s (runUKF pinv msqrt cs pr) := by
  simp [runEKF, runUKF, List.foldl_append]

/-- **Each of `Q`, `R` is resolved on its own.** A covariance passed for the call is the one used, whatever the object
stores for it and whether or not the *other* covariance is passed or stored; a covariance not passed is the stored one.
(The seeded change "if Q is None or R is None: Q, R = self.Q, self.R" violates the first two equations.) -/
theorem call_resolution_independent {α : Type} [Scalar α] (pinv : Mat α p p → Mat α p p) (msqrt : Mat α n n → Mat α n n)
    (kk : α) (sys : Sys α n m p) (u : Vec α m) (y : Vec α p) (Q Q' : Mat α n n) (R R' : Mat α p p)
    (stQ : Option (Mat α n n)) (stR : Option (Mat α p p)) (pr : Post α n) :
    -- exactly one of the two is passed, the other is taken from the object
    ekfCall pinv stQ (some R') sys u y (some Q) none pr = some (ekf pinv ⟨sys, u, y, Q, R'⟩ pr) ∧
    ekfCall pinv (some Q') stR sys u y none (some R) pr = some (ekf pinv ⟨sys, u, y, Q', R⟩ pr) ∧
    ukfCall pinv msqrt kk stQ (some R') sys u y (some Q) none pr = some (ukf pinv msqrt kk ⟨sys, u, y, Q, R'⟩ pr) ∧
    ukfCall pinv msqrt kk (some Q') stR sys u y none (some R) pr = some (ukf pinv msqrt kk ⟨sys, u, y, Q', R⟩ pr) ∧
    -- both passed: the stored values are irrelevant; none passed: the stored values are used
    ekfCall pinv stQ stR sys u y (some Q) (some R) pr = some (ekf pinv ⟨sys, u, y, Q, R⟩ pr) ∧
    ekfCall pinv (some Q') (some R') sys u y none none pr = some (ekf pinv ⟨sys, u, y, Q', R'⟩ pr) := by
  simp [ekfCall, ukfCall, resolve]

/-- **A failing call is no call** (atomicity of error paths): a history with calls that raised, after which the caller
continued with the estimate it had, equals the history without those calls. -/
theorem failed_call_is_no_call {α : Type} [Scalar α] (pinv : Mat α p p → Mat α p p)
    (calls : List (Option (Step α n m p))) (pr : Post α n) :
    runEKFopt pinv calls pr = runEKF pinv (calls.filterMap id) pr := by
  induction calls generalizing pr with
  | nil => rfl
  | cons c rest ih =>
    cases c with
    | none => simpa [runEKFopt, runEKF] using ih pr
    | some s => simpa [runEKFopt, runEKF] using ih (ekf pinv s pr)

/-- **One object, per-call argument sources (glue = core).** A history on one EKF / UKF object in which every call
resolves its own `Q`, `R` (passed or stored) and, for UKF, its own `k` (`None ↦ 3 − n`), and in which calls that cannot
resolve a covariance raise and leave everything as it was, is the plain run over the resolved calls. Any systems. -/
theorem runEKFobj_eq {α : Type} [Scalar α] (pinv : Mat α p p → Mat α p p) (stQ : Option (Mat α n n))
    (stR : Option (Mat α p p)) (calls : List (Call α n m p)) (pr : Post α n) :
    runEKFobj pinv stQ stR calls pr = runEKF pinv (calls.filterMap (Call.toStep stQ stR)) pr := by
  induction calls generalizing pr with
  | nil => rfl
  | cons c rest ih =>
    simp only [runEKFobj, List.foldl_cons, List.filterMap_cons, ekfCall, Call.toStep] at ih ⊢
    cases hq : resolve c.pQ stQ <;> cases hr : resolve c.pR stR <;> simp only [runEKF, List.foldl_cons] <;> exact ih _

/-- the same for one UKF object -/
theorem runUKFobj_eq {α : Type} [Scalar α] (pinv : Mat α p p → Mat α p p) (msqrt : Mat α n n → Mat α n n)
    (stQ : Option (Mat α n n)) (stR : Option (Mat α p p)) (calls : List (Call α n m p)) (pr : Post α n) :
    runUKFobj pinv msqrt stQ stR calls pr
      = runUKF pinv msqrt (calls.filterMap fun c => (c.toStep stQ stR).map fun s => (resolveK n c.kk, s)) pr := by
  induction calls generalizing pr with
  | nil => rfl
  | cons c rest ih =>
    simp only [runUKFobj, List.foldl_cons, List.filterMap_cons, ukfCall, Call.toStep] at ih ⊢
    cases hq : resolve c.pQ stQ <;> cases hr : resolve c.pR stR <;>
      simp only [runUKF, List.foldl_cons, Option.map_none, Option.map_some] <;> exact ih _

/-- on a linear-Gaussian system the predicted covariance inside `ukf` is `A P Aᵀ + Q` -/
theorem ukfPredCov_linear (msqrt : Matrix (Fin n) (Fin n) ℝ → Matrix (Fin n) (Fin n) ℝ) (kk : ℝ) (hk : -(n : ℝ) < kk)
    (l : LinStep n m p) (b : Belief n)
    (h1 : msqrt (((n : ℝ) + kk) • b.cov) * (msqrt (((n : ℝ) + kk) • b.cov))ᵀ = ((n : ℝ) + kk) • b.cov) :
    ukfPredCov msqrt kk l.toStep ⟨b.mean, b.cov⟩ = l.A * b.cov * l.Aᵀ + l.Q := by
  have hN : 0 < (n : ℝ) + kk := by linarith
  have hab : w0 n kk + 2 * n * wr n kk = 1 := by
    simp only [w0, wr, k_real]; field_simp; push_cast; ring
  have h2b : 2 * wr n kk * ((n : ℝ) + kk) = 1 := by
    simp only [wr, k_real]; field_simp; push_cast; ring
  set N : ℝ := (n : ℝ) + kk with hNdef
  set L1 := msqrt (N • b.cov) with hL1def
  have e1 : (2 * wr n kk) • (l.A * L1 * (l.A * L1)ᵀ) = l.A * b.cov * l.Aᵀ := by
    rw [Matrix.transpose_mul, Matrix.mul_assoc l.A L1, ← Matrix.mul_assoc L1, h1, Matrix.smul_mul, Matrix.mul_smul,
      smul_smul, h2b, one_smul, Matrix.mul_assoc]
  simp only [ukfPredCov, LinStep.toStep, affSys, MemoV.fn_of, MemoM.mfn_of', sigmaPoints_eq, mulVec_eq', vadd_eq,
    wsum_affine _ _ hab, dev_map_affine, cov_devSig, madd_eq', ← hNdef, ← hL1def, e1]
  exact add_comm _ _
end pass4
end PP.Filter

namespace PP.Filter
open Matrix

/-! ### pass 7: completing the square — what the PF importance weights target on a linear-Gaussian observation -/

section bayes
variable {n p : Nat}

theorem mulVec_dot (C : Matrix (Fin p) (Fin n) ℝ) (d : Fin n → ℝ) (w : Fin p → ℝ) :
    (C *ᵥ d) ⬝ᵥ w = d ⬝ᵥ (Cᵀ *ᵥ w) := by
  rw [dotProduct_comm, Matrix.dotProduct_mulVec, dotProduct_comm, Matrix.mulVec_transpose]

theorem quad_symm {M : Matrix (Fin n) (Fin n) ℝ} (hM : Mᵀ = M) (a d : Fin n → ℝ) :
    a ⬝ᵥ M *ᵥ d = d ⬝ᵥ M *ᵥ a := by
  rw [dotProduct_comm, mulVec_dot, hM]

theorem quad_expand {M : Matrix (Fin n) (Fin n) ℝ} (hM : Mᵀ = M) (d a : Fin n → ℝ) :
    (d + a) ⬝ᵥ M *ᵥ (d + a) = d ⬝ᵥ M *ᵥ d + 2 * (d ⬝ᵥ M *ᵥ a) + a ⬝ᵥ M *ᵥ a := by
  rw [Matrix.mulVec_add, add_dotProduct, dotProduct_add, dotProduct_add, quad_symm hM a d]
  ring

/-- the gain identity behind the information form of the mean: `P⁻⁻¹ K = Cᵀ R⁻¹ (1 − C K)` for `K = P⁻CᵀS⁻¹` -/
theorem gain_information (Pm : Matrix (Fin n) (Fin n) ℝ) (C : Matrix (Fin p) (Fin n) ℝ)
    (R : Matrix (Fin p) (Fin p) ℝ) (hPm : IsUnit Pm.det) (hR : IsUnit R.det) (hS : IsUnit (C * Pm * Cᵀ + R).det) :
    Pm⁻¹ * (Pm * Cᵀ * (C * Pm * Cᵀ + R)⁻¹) = Cᵀ * R⁻¹ * (1 - C * (Pm * Cᵀ * (C * Pm * Cᵀ + R)⁻¹)) := by
  set S := C * Pm * Cᵀ + R with hSdef
  have hCPC : C * Pm * Cᵀ = S - R := by rw [hSdef]; abel
  have e1 : Pm⁻¹ * (Pm * Cᵀ * S⁻¹) = Cᵀ * S⁻¹ := by
    rw [← Matrix.mul_assoc, ← Matrix.mul_assoc, Matrix.nonsing_inv_mul _ hPm, Matrix.one_mul]
  have e2 : C * (Pm * Cᵀ * S⁻¹) = 1 - R * S⁻¹ := by
    rw [← Matrix.mul_assoc, ← Matrix.mul_assoc, hCPC, Matrix.sub_mul, Matrix.mul_nonsing_inv _ hS]
  rw [e1, e2, sub_sub_cancel, Matrix.mul_assoc Cᵀ, ← Matrix.mul_assoc R⁻¹, Matrix.nonsing_inv_mul _ hR, Matrix.one_mul]

/-- **completing the square (Bayes' rule for a linear-Gaussian observation).** With `μ, Σ` the Kalman posterior
of prior `N(xm, P⁻)` and observation `y = C x + d + v`, `v ~ N(0,R)`: for every `x`
`(x−xm)ᵀP⁻⁻¹(x−xm) + (y−Cx−d)ᵀR⁻¹(y−Cx−d) = (x−μ)ᵀΣ⁻¹(x−μ) + c₀` with `c₀` not depending on `x`. -/
theorem bayes_complete_square {Pm : Matrix (Fin n) (Fin n) ℝ} (C : Matrix (Fin p) (Fin n) ℝ)
    {R : Matrix (Fin p) (Fin p) ℝ} (hPm : Pm.PosDef) (hR : R.PosDef) (xm : Fin n → ℝ) (d y : Fin p → ℝ) :
    let S := C * Pm * Cᵀ + R
    let μ := xm + (Pm * Cᵀ * S⁻¹) *ᵥ (y - (C *ᵥ xm + d))
    let Sg := Pm - Pm * Cᵀ * S⁻¹ * C * Pm
    let c0 := (μ - xm) ⬝ᵥ Pm⁻¹ *ᵥ (μ - xm) + (y - (C *ᵥ μ + d)) ⬝ᵥ R⁻¹ *ᵥ (y - (C *ᵥ μ + d))
    ∀ x : Fin n → ℝ,
      (x - xm) ⬝ᵥ Pm⁻¹ *ᵥ (x - xm) + (y - (C *ᵥ x + d)) ⬝ᵥ R⁻¹ *ᵥ (y - (C *ᵥ x + d))
        = (x - μ) ⬝ᵥ Sg⁻¹ *ᵥ (x - μ) + c0 := by
  intro S μ Sg c0 x
  have hPmU := PosDef.isUnit_det' hPm
  have hRU := PosDef.isUnit_det' hR
  have hS : IsUnit S.det := PosDef.isUnit_det' (innovCov_pd (C := C) hPm.posSemidef hR)
  have hSg : Sg⁻¹ = Pm⁻¹ + Cᵀ * R⁻¹ * C := Matrix.inv_eq_right_inv (kf_cov_mul_information Pm C R hPmU hRU hS)
  have hPi : (Pm⁻¹)ᵀ = Pm⁻¹ := by
    rw [Matrix.transpose_nonsing_inv]; congr 1
    have := hPm.isHermitian; rwa [IsHermitian, conjTranspose_eq_transpose_of_trivial] at this
  have hRi : (R⁻¹)ᵀ = R⁻¹ := by
    rw [Matrix.transpose_nonsing_inv]; congr 1
    have := hR.isHermitian; rwa [IsHermitian, conjTranspose_eq_transpose_of_trivial] at this
  set e := y - (C *ᵥ xm + d) with he
  set K := Pm * Cᵀ * S⁻¹ with hK
  set dx := x - μ with hdx
  set a := μ - xm with ha
  set b := y - (C *ᵥ μ + d) with hb
  have hx : x - xm = dx + a := by rw [hdx, ha]; abel
  have hy : y - (C *ᵥ x + d) = -(C *ᵥ dx) + b := by
    rw [hdx, hb, Matrix.mulVec_sub]; abel
  have haK : a = K *ᵥ e := by rw [ha]; simp only [μ]; abel
  have hbK : b = (1 - C * K) *ᵥ e := by
    rw [hb, Matrix.sub_mulVec, Matrix.one_mulVec, ← Matrix.mulVec_mulVec]
    simp only [μ, Matrix.mulVec_add]
    generalize C *ᵥ K *ᵥ e = z
    rw [he]; abel
  have grad : Pm⁻¹ *ᵥ a = (Cᵀ * R⁻¹) *ᵥ b := by
    rw [haK, hbK, Matrix.mulVec_mulVec, Matrix.mulVec_mulVec, gain_information Pm C R hPmU hRU hS]
  rw [hx, hy, quad_expand hPi, quad_expand hRi, hSg, Matrix.add_mulVec, dotProduct_add]
  have t1 : -(C *ᵥ dx) ⬝ᵥ R⁻¹ *ᵥ -(C *ᵥ dx) = dx ⬝ᵥ (Cᵀ * R⁻¹ * C) *ᵥ dx := by
    rw [Matrix.mulVec_neg, neg_dotProduct, dotProduct_neg, neg_neg, mulVec_dot, Matrix.mulVec_mulVec, Matrix.mulVec_mulVec]
  have t2 : -(C *ᵥ dx) ⬝ᵥ R⁻¹ *ᵥ b = -(dx ⬝ᵥ Pm⁻¹ *ᵥ a) := by
    rw [neg_dotProduct, mulVec_dot, Matrix.mulVec_mulVec, grad]
  rw [t1, t2]
  simp only [c0]
  ring
end bayes
end PP.Filter

namespace PP.Filter
open Matrix Finset

/-! ### pass 10: concentration of the resampling stage (weak law with an explicit rate) -/

section pass10
variable {M N : Nat}

/-- the expectation over index tuples is monotone (non-negative weights) -/
theorem expectIdx_mono (w : Fin M → ℝ) (hw0 : ∀ i, 0 ≤ w i) {F G : (Fin N → Fin M) → ℝ} (h : ∀ f, F f ≤ G f) :
    expectIdx w F ≤ expectIdx w G := by
  unfold expectIdx
  exact Finset.sum_le_sum fun f _ => mul_le_mul_of_nonneg_left (h f) (Finset.prod_nonneg fun j _ => hw0 _)
/-- **Chebyshev bound for the resampling stage**: the probability (independent draws, index `i` with probability `w i`) that the
mean of the `N` resampled values deviates from the weighted mean by at least `ε` is at most `Var_w(h) / (N ε²)` -/
theorem resample_mean_chebyshev (w : Fin M → ℝ) (hw0 : ∀ i, 0 ≤ w i) (hw : ∑ i, w i = 1) (hN : 0 < N) (h : Fin M → ℝ)
    {ε : ℝ} (hε : 0 < ε) :
    expectIdx (N := N) w (fun f => if ε ≤ |(∑ j, h (f j)) / N - ∑ i, w i * h i| then 1 else 0)
      ≤ (∑ i, w i * (h i - ∑ i, w i * h i) ^ 2) / (N * ε ^ 2) := by
  have hε2 : 0 < ε ^ 2 := by positivity
  have step : ∀ f : Fin N → Fin M,
      (if ε ≤ |(∑ j, h (f j)) / N - ∑ i, w i * h i| then (1 : ℝ) else 0)
        ≤ (1 / ε ^ 2) * ((∑ j, h (f j)) / N - ∑ i, w i * h i) ^ 2 := by
    intro f
    split_ifs with hc
    · rw [one_div, inv_mul_eq_div, le_div_iff₀ hε2, one_mul, ← sq_abs ((∑ j, h (f j)) / N - ∑ i, w i * h i)]
      exact pow_le_pow_left₀ hε.le hc 2
    · positivity
  refine (expectIdx_mono w hw0 step).trans (le_of_eq ?_)
  rw [expectIdx_const_mul, resample_mean_variance w hw hN h]
  have hN' : (N : ℝ) ≠ 0 := by exact_mod_cast hN.ne'
  field_simp
end pass10
end PP.Filter
