import Pose.Model.LMLoop
import Pose.Model.Lie
import Proofs.Real
/-!
Helper lemmas for C08 (the LM accept/reject loop, strategies).  Everything is at `α = ℝ`; the
parameter, step and strategy-state types `P D S` are arbitrary.
-/
namespace PP.LMLoop
variable {P D S : Type} (pr : Prob P D ℝ) (reject : Nat) (e : Env P D S ℝ)

/-- the state written by the "reject step" branch -/
def rejSt (st : St P S ℝ) (d : D) : St P S ℝ :=
  { p := pr.retr (pr.retr st.p d) (pr.neg d),
    s := e.upd st.s st.last (pr.lossAt (pr.retr st.p d)) d,
    loss := st.last, last := st.last, rc := st.rc + 1, solves := st.solves + 1, live := true }

/-- the state written by the final `else: break` branch (accepted, or rejections exhausted) -/
def accSt (st : St P S ℝ) (d : D) : St P S ℝ :=
  { p := pr.retr st.p d,
    s := e.upd st.s st.last (pr.lossAt (pr.retr st.p d)) d,
    loss := pr.lossAt (pr.retr st.p d), last := st.last, rc := st.rc, solves := st.solves + 1, live := false }

/-- the state after `except: break` -/
def raiseSt (st : St P S ℝ) : St P S ℝ := { st with solves := st.solves + 1, live := false }

/-- complete case analysis of one pass -/
theorem body_spec (st : St P S ℝ) :
    (st.live = false ∧ body pr reject e st = st) ∨
    (st.live = true ∧ ¬ st.last ≤ st.loss ∧ body pr reject e st = { st with live := false }) ∨
    (st.live = true ∧ st.last ≤ st.loss ∧ e.solve st.solves st.p = none ∧
        body pr reject e st = raiseSt st) ∨
    (∃ d, st.live = true ∧ st.last ≤ st.loss ∧ e.solve st.solves st.p = some d ∧
        st.last < pr.lossAt (pr.retr st.p d) ∧ st.rc < reject ∧ body pr reject e st = rejSt pr e st d) ∨
    (∃ d, st.live = true ∧ st.last ≤ st.loss ∧ e.solve st.solves st.p = some d ∧
        ¬ (st.last < pr.lossAt (pr.retr st.p d) ∧ st.rc < reject) ∧ body pr reject e st = accSt pr e st d) := by
  obtain ⟨p, s, loss, last, rc, solves, live⟩ := st
  cases live with
  | false => left; simp [body]
  | true =>
    right
    by_cases hc : last ≤ loss
    · right
      cases hs : e.solve solves p with
      | none => left; simp [body, hc, hs, raiseSt]
      | some d =>
        right
        by_cases hw : last < pr.lossAt (pr.retr p d) ∧ rc < reject
        · left; exact ⟨d, rfl, hc, rfl, hw.1, hw.2, by simp [body, hc, hs, hw.1, hw.2, rejSt]⟩
        · right
          refine ⟨d, rfl, hc, rfl, hw, ?_⟩
          have : (decide (last < pr.lossAt (pr.retr p d)) && decide (rc < reject)) = false := by
            by_cases h1 : last < pr.lossAt (pr.retr p d)
            · have : ¬ rc < reject := fun h2 => hw ⟨h1, h2⟩
              simp [this]
            · simp [h1]
          simp [body, hc, hs, this, accSt]
    · left; simp [body, hc]

theorem loop_succ (n : Nat) (st : St P S ℝ) :
    loop pr reject e (n + 1) st = loop pr reject e n (body pr reject e st) := rfl

theorem loop_succ' (n : Nat) (st : St P S ℝ) :
    loop pr reject e (n + 1) st = body pr reject e (loop pr reject e n st) := by
  induction n generalizing st with
  | zero => rfl
  | succ n ih => rw [loop_succ, ih, ← loop_succ]

theorem body_dead (st : St P S ℝ) (h : st.live = false) : body pr reject e st = st := by
  rcases body_spec pr reject e st with h1 | h1 | h1 | ⟨d, h1⟩ | ⟨d, h1⟩
  · exact h1.2
  all_goals (rw [h] at h1; simp at h1)

theorem loop_dead (n : Nat) (st : St P S ℝ) (h : st.live = false) : loop pr reject e n st = st := by
  induction n with
  | zero => rfl
  | succ n ih => rw [loop_succ, body_dead pr reject e st h, ih]


theorem loop_add (a b : Nat) (st : St P S ℝ) :
    loop pr reject e (a + b) st = loop pr reject e b (loop pr reject e a st) := by
  induction a generalizing st with
  | zero => simp [loop]
  | succ a ih =>
    have : a + 1 + b = (a + b) + 1 := by omega
    rw [this, loop_succ, ih, loop_succ]

/-- The invariant of the `while` loop.  `l0` is the loss the call started from (`self.last`), `p0` the
parameters it was given. -/
structure Inv (l0 : ℝ) (p0 : P) (st : St P S ℝ) : Prop where
  last_eq : st.last = l0
  rc_le : st.rc ≤ reject
  loss_true : st.loss = pr.lossAt st.p
  live_p : st.live = true → st.p = p0 ∧ st.loss = l0 ∧ st.solves = st.rc
  dead : st.live = false → st.solves = st.rc + 1 ∧ (st.loss ≤ l0 ∨ st.rc = reject)

/-- **The retraction contract, restricted to what can occur**: undoing a step *that the solver actually returned at that
point* gives the point back. (The unrestricted `∀ p d, retr (retr p d) (neg d) = p` holds for Euclidean parameters; for
Lie-group parameters it holds exactly only for steps on the closed-form branch of `Exp` — see `so3_retrOK` etc.) -/
def RetrOK (pr : Prob P D ℝ) (e : Env P D S ℝ) : Prop :=
  ∀ k p d, e.solve k p = some d → pr.retr (pr.retr p d) (pr.neg d) = p

theorem RetrOK.of_forall {pr : Prob P D ℝ} (h : ∀ p d, pr.retr (pr.retr p d) (pr.neg d) = p) (e : Env P D S ℝ) :
    RetrOK pr e := fun _ p d _ => h p d

variable (hinv : RetrOK pr e)
include hinv

theorem body_inv (l0 : ℝ) (p0 : P) (st : St P S ℝ) (h : Inv pr reject l0 p0 st) :
    Inv pr reject l0 p0 (body pr reject e st) := by
  rcases body_spec pr reject e st with ⟨_, hb⟩ | ⟨hl, hc, _⟩ | ⟨hl, hc, hs, hb⟩ | ⟨d, hl, hc, hs, hw, hr, hb⟩ |
      ⟨d, hl, hc, hs, hw, hb⟩
  · rw [hb]; exact h
  · exfalso
    have := h.live_p hl
    rw [h.last_eq, this.2.1] at hc
    exact hc le_rfl
  · rw [hb]
    have hp := h.live_p hl
    refine ⟨h.last_eq, h.rc_le, h.loss_true, ?_, ?_⟩
    · intro hh; simp [raiseSt] at hh
    · intro _
      refine ⟨?_, Or.inl ?_⟩
      · simp [raiseSt, hp.2.2]
      · simp [raiseSt, hp.2.1]
  · rw [hb]
    have hp := h.live_p hl
    refine ⟨h.last_eq, ?_, ?_, ?_, ?_⟩
    · simp only [rejSt]; omega
    · simp only [rejSt]; rw [hinv _ _ _ hs, h.last_eq, ← hp.2.1]; exact h.loss_true
    · intro _
      simp only [rejSt]
      rw [hinv _ _ _ hs]
      exact ⟨hp.1, h.last_eq, by rw [hp.2.2]⟩
    · intro hh; simp [rejSt] at hh
  · rw [hb]
    have hp := h.live_p hl
    refine ⟨h.last_eq, h.rc_le, rfl, ?_, ?_⟩
    · intro hh; simp [accSt] at hh
    · intro _
      refine ⟨by simp [accSt, hp.2.2], ?_⟩
      simp only [accSt]
      by_cases h1 : st.last < pr.lossAt (pr.retr st.p d)
      · right
        have : ¬ st.rc < reject := fun h2 => hw ⟨h1, h2⟩
        have := h.rc_le
        omega
      · left; rw [← h.last_eq]; exact not_lt.mp h1

theorem loop_inv (l0 : ℝ) (p0 : P) (n : Nat) (st : St P S ℝ) (h : Inv pr reject l0 p0 st) :
    Inv pr reject l0 p0 (loop pr reject e n st) := by
  induction n generalizing st with
  | zero => exact h
  | succ n ih => rw [loop_succ]; exact ih _ (body_inv pr reject e hinv l0 p0 st h)

omit hinv in
/-- a pass either halts the loop or increments `reject_count` (which is bounded by `reject`) -/
theorem body_live (st : St P S ℝ) (h : (body pr reject e st).live = true) :
    (body pr reject e st).rc = st.rc + 1 ∧ st.rc < reject ∧ st.live = true := by
  rcases body_spec pr reject e st with ⟨hl, hb⟩ | ⟨hl, hc, hb⟩ | ⟨hl, hc, hs, hb⟩ | ⟨d, hl, hc, hs, hw, hr, hb⟩ |
      ⟨d, hl, hc, hs, hw, hb⟩
  · rw [hb] at h; rw [hl] at h; simp at h
  · rw [hb] at h; simp at h
  · rw [hb] at h; simp [raiseSt] at h
  · rw [hb]; exact ⟨rfl, hr, hl⟩
  · rw [hb] at h; simp [accSt] at h

omit hinv in
theorem loop_halts_aux : ∀ (m : Nat) (st : St P S ℝ), st.rc ≤ reject → reject + 1 - st.rc ≤ m →
    (loop pr reject e m st).live = false := by
  intro m
  induction m with
  | zero => intro st h1 h2; omega
  | succ m ih =>
    intro st h1 h2
    rw [loop_succ]
    by_cases hl : (body pr reject e st).live = true
    · obtain ⟨hrc, hlt, _⟩ := body_live pr reject e st hl
      exact ih _ (by omega) (by omega)
    · have : (body pr reject e st).live = false := by simpa using hl
      rw [loop_dead pr reject e m _ this]; exact this

omit hinv in
theorem start_inv (cached : Option ℝ) (p : P) (s : S)
    (hc : cached = none ∨ cached = some (pr.lossAt p)) :
    Inv pr reject (pr.lossAt p) p (start pr cached p s : St P S ℝ) := by
  have : (start pr cached p s : St P S ℝ) =
      { p := p, s := s, loss := pr.lossAt p, last := pr.lossAt p, rc := 0, solves := 0, live := true } := by
    rcases hc with rfl | rfl <;> rfl
  rw [this]
  exact ⟨rfl, Nat.zero_le _, rfl, fun _ => ⟨rfl, rfl, rfl⟩, fun h => by simp at h⟩


omit hinv in
theorem loop_preserves (I : S → Prop) (hI : ∀ s a b d, I s → I (e.upd s a b d)) :
    ∀ (n : Nat) (st : St P S ℝ), I st.s → I (loop pr reject e n st).s := by
  intro n
  induction n with
  | zero => intro st h; exact h
  | succ n ih =>
    intro st h
    rw [loop_succ]
    apply ih
    rcases body_spec pr reject e st with ⟨_, hb⟩ | ⟨_, _, hb⟩ | ⟨_, _, _, hb⟩ | ⟨d, _, _, _, _, _, hb⟩ |
      ⟨d, _, _, _, _, hb⟩
    · rw [hb]; exact h
    · rw [hb]; exact h
    · rw [hb]; exact h
    · rw [hb]; exact hI _ _ _ _ h
    · rw [hb]; exact hI _ _ _ _ h


/-! ### strategies at `ℝ` -/
section strat
omit hinv

theorem pyMin_eq (a b : ℝ) : pyMin a b = min a b := by
  unfold pyMin; simp only [lt_real]
  by_cases h : b < a
  · simp [h, min_eq_right (le_of_lt h)]
  · simp [h, min_eq_left (not_lt.mp h)]

theorem pyMax_eq (a b : ℝ) : pyMax a b = max a b := by
  unfold pyMax; simp only [lt_real]
  by_cases h : a < b
  · simp [h, max_eq_right (le_of_lt h)]
  · simp [h, max_eq_left (not_lt.mp h)]

theorem clampMM_eq (h : Hyper ℝ) (x : ℝ) : clampMM h x = max h.smin (min x h.smax) := by
  unfold clampMM; rw [pyMax_eq, pyMin_eq]

theorem clampMM_bounds (h : Hyper ℝ) (x : ℝ) (hmm : h.smin ≤ h.smax) :
    h.smin ≤ clampMM h x ∧ clampMM h x ≤ h.smax := by
  rw [clampMM_eq]
  exact ⟨le_max_left _ _, max_le hmm (min_le_right _ _)⟩

theorem clampMM_id (h : Hyper ℝ) (x : ℝ) (h1 : h.smin ≤ x) (h2 : x ≤ h.smax) : clampMM h x = x := by
  rw [clampMM_eq, min_eq_left h2, max_eq_right h1]

theorem clampMM_mono (h : Hyper ℝ) (x y : ℝ) (hxy : x ≤ y) : clampMM h x ≤ clampMM h y := by
  rw [clampMM_eq, clampMM_eq]
  exact max_le_max le_rfl (min_le_min hxy le_rfl)

theorem isZero_eq (x : ℝ) : isZero x = decide (x = 0) := by
  unfold isZero
  simp only [lt_real, k_real, Nat.cast_zero]
  rcases lt_trichotomy x 0 with h | h | h
  · simp [h, ne_of_lt h]
  · simp [h]
  · simp [h, ne_of_gt h, not_lt.mpr (le_of_lt h)]

theorem verdict_of_ne (high low num den : ℝ) (hd : den ≠ 0) :
    verdict high low num den =
      if high < num / den then Verdict.very else if low < num / den then Verdict.ok else Verdict.bad := by
  unfold verdict
  rw [isZero_eq]
  simp only [hd, decide_false, lt_real]
  by_cases h1 : high < num / den
  · simp [h1]
  · by_cases h2 : low < num / den <;> simp [h1, h2]

end strat

/-! ### the loop as a function of the sequence of trial losses -/

/-- strategy state after the first `i` trials, all made at `p0` with `last = l0` -/
def sAfter (p0 : P) (l0 : ℝ) (ds : Nat → D) (s0 : S) (i : Nat) : S :=
  (List.range i).foldl (fun s j => e.upd s l0 (pr.lossAt (pr.retr p0 (ds j))) (ds j)) s0

omit hinv in
theorem sAfter_succ (p0 : P) (l0 : ℝ) (ds : Nat → D) (s0 : S) (i : Nat) :
    sAfter pr e p0 l0 ds s0 (i + 1) =
      e.upd (sAfter pr e p0 l0 ds s0 i) l0 (pr.lossAt (pr.retr p0 (ds i))) (ds i) := by
  simp [sAfter, List.range_succ]

/-- while every trial so far was solved and was worse, the loop is still live at `p0` -/
theorem loop_prefix (p0 : P) (l0 : ℝ) (ds : Nat → D) (s0 : S) (j : Nat)
    (hsolve : ∀ i, i < j → e.solve i p0 = some (ds i))
    (hworse : ∀ i, i < j → l0 < pr.lossAt (pr.retr p0 (ds i)))
    (hj : j ≤ reject) :
    loop pr reject e j { p := p0, s := s0, loss := l0, last := l0, rc := 0, solves := 0, live := true } =
      { p := p0, s := sAfter pr e p0 l0 ds s0 j, loss := l0, last := l0, rc := j, solves := j, live := true } := by
  induction j with
  | zero => simp [loop, sAfter]
  | succ j ih =>
    rw [loop_succ', ih (fun i hi => hsolve i (by omega)) (fun i hi => hworse i (by omega)) (by omega)]
    have hs := hsolve j (by omega)
    have hw := hworse j (by omega)
    have hr : j < reject := by omega
    have hi := hinv j p0 (ds j) hs
    simp only [body, le_real, le_refl, decide_true, Bool.and_self, if_true, hs, lt_real, hw, hr, hi,
      sAfter_succ]


end PP.LMLoop

namespace PP.LMLoop

/-! ### quaternion algebra for the SO3 instance of the retraction contract -/
section so3
open PP
/-- both branches of `so3Exp` have the form `(f·x, g)` with `f, g` depending on `‖x‖` only; then
`Exp(-x)·(Exp(x)·X) = ‖Exp x‖²·X` -/
theorem quat_conj_sandwich (x : Vec3 ℝ) (f g : ℝ) (X : Quat ℝ) :
    (Quat.mk' ((Vec3.neg x).smul f) g).mul ((Quat.mk' (x.smul f) g).mul X) =
      ⟨(Quat.mk' (x.smul f) g).normSq * X.x, (Quat.mk' (x.smul f) g).normSq * X.y,
       (Quat.mk' (x.smul f) g).normSq * X.z, (Quat.mk' (x.smul f) g).normSq * X.w⟩ := by
  obtain ⟨a, b, c, w⟩ := X
  obtain ⟨x1, x2, x3⟩ := x
  simp only [Quat.mul, Quat.mk', Vec3.smul, Vec3.neg, Quat.normSq]
  congr 1 <;> ring

theorem normSq_mk (x : Vec3 ℝ) (f g : ℝ) :
    (Quat.mk' (x.smul f) g).normSq = f ^ 2 * x.normSq + g ^ 2 := by
  obtain ⟨x1, x2, x3⟩ := x
  simp only [Quat.mk', Vec3.smul, Quat.normSq, Vec3.normSq]
  ring


theorem vec3_norm_neg (x : Vec3 ℝ) : (Vec3.neg x).norm = x.norm := by
  simp [Vec3.norm, Vec3.normSq, Vec3.neg]

theorem vec3_norm_sq (x : Vec3 ℝ) : x.norm * x.norm = x.normSq := by
  unfold Vec3.norm
  simp only [sqrt_real]
  exact Real.mul_self_sqrt (by unfold Vec3.normSq; nlinarith [mul_self_nonneg x.x, mul_self_nonneg x.y, mul_self_nonneg x.z])
end so3


/-! ### TrustRegion: consecutive unsuccessful updates -/

/-- `k` consecutive unsuccessful TrustRegion updates -/
noncomputable def trustBad (h : Hyper ℝ) : Nat → SState ℝ → SState ℝ
  | 0, s => s
  | k + 1, s => updTrust h (trustBad h k s) Verdict.bad

/-- triangular numbers `0, 0, 1, 3, 6, …` = `k(k-1)/2` -/
def tri : Nat → Nat
  | 0 => 0
  | k + 1 => tri k + k

theorem tri_eq (k : Nat) : 2 * tri k = k * (k - 1) := by
  induction k with
  | zero => rfl
  | succ k ih =>
    cases k with
    | zero => rfl
    | succ j =>
      simp only [tri] at ih ⊢
      simp only [Nat.add_sub_cancel] at ih ⊢
      have : (j + 1 + 1) * (j + 1) = (j + 1) * j + 2 * (j + 1) := by ring
      omega

theorem updTrust_bad (h : Hyper ℝ) (t : SState ℝ) :
    updTrust h t Verdict.bad =
      { damping := 1 / clampMM h (1 / t.damping * t.down), radius := clampMM h (1 / t.damping * t.down),
        down := clampMM h (t.down * h.factor) } := by
  simp [updTrust]

theorem trustBad_aux (h : Hyper ℝ) (s : SState ℝ) (k : Nat)
    (hr : ∀ i, 1 ≤ i → i ≤ k → h.smin ≤ 1 / s.damping * s.down ^ i * h.factor ^ tri i ∧
                      1 / s.damping * s.down ^ i * h.factor ^ tri i ≤ h.smax)
    (hdn : ∀ i, 1 ≤ i → i ≤ k → h.smin ≤ s.down * h.factor ^ i ∧ s.down * h.factor ^ i ≤ h.smax) :
    1 / (trustBad h k s).damping = 1 / s.damping * s.down ^ k * h.factor ^ tri k ∧
    (trustBad h k s).down = s.down * h.factor ^ k ∧
    (1 ≤ k → (trustBad h k s).radius = 1 / s.damping * s.down ^ k * h.factor ^ tri k) := by
  induction k with
  | zero => simp [trustBad, tri]
  | succ k ih =>
    obtain ⟨e1, e2, _⟩ := ih (fun i a b => hr i a (by omega)) (fun i a b => hdn i a (by omega))
    have h1 := hr (k + 1) (by omega) le_rfl
    have h2 := hdn (k + 1) (by omega) le_rfl
    have ev : 1 / (trustBad h k s).damping * (trustBad h k s).down =
        1 / s.damping * s.down ^ (k + 1) * h.factor ^ tri (k + 1) := by
      rw [e1, e2]; simp only [tri]; ring
    have ed : (trustBad h k s).down * h.factor = s.down * h.factor ^ (k + 1) := by
      rw [e2]; ring
    have hs : trustBad h (k + 1) s = updTrust h (trustBad h k s) Verdict.bad := rfl
    rw [hs, updTrust_bad, ev, ed, clampMM_id h _ h1.1 h1.2, clampMM_id h _ h2.1 h2.2]
    refine ⟨?_, rfl, fun _ => rfl⟩
    simp


/-! ### `RobustModel.loss` at ℝ -/

theorem dsum_eq (l : List ℝ) : DVec.sum l = l.sum := by
  unfold DVec.sum
  simp only [k_real, Nat.cast_zero]
  have : ∀ (a : ℝ) (l : List ℝ), List.foldl (· + ·) a l = a + l.sum := by
    intro a l
    induction l generalizing a with
    | nil => simp
    | cons b l ih => simp [List.foldl_cons, ih, add_assoc]
  rw [this]; simp

theorem normSq_nonneg (r : List ℝ) : 0 ≤ DVec.normSq r := by
  unfold DVec.normSq DVec.dot
  rw [dsum_eq]
  apply List.sum_nonneg
  intro x hx
  simp only [List.mem_iff_getElem, List.getElem_zipWith, List.length_zipWith] at hx
  obtain ⟨i, _, rfl⟩ := hx
  exact mul_self_nonneg _

theorem outputLoss_eq (rho : ℝ → ℝ) (o : Output ℝ) :
    outputLoss rho o = (o.map (fun r => rho (DVec.normSq r))).sum := by
  unfold outputLoss; rw [dsum_eq]

theorem outputLoss_nonneg (rho : ℝ → ℝ) (hr : ∀ x, 0 ≤ x → 0 ≤ rho x) (o : Output ℝ) : 0 ≤ outputLoss rho o := by
  rw [outputLoss_eq]
  apply List.sum_nonneg
  intro x hx
  simp only [List.mem_map] at hx
  obtain ⟨r, _, rfl⟩ := hx
  exact hr _ (normSq_nonneg r)

/-! ### predicates used in the statements of `Proofs/Props/C08.lean` -/

/-- the optimizer object is *consistent*: its cached loss (if any) is the loss at its parameters -/
def Consistent {P D S : Type} (pr : Prob P D ℝ) (o : Opt P S ℝ) : Prop :=
  o.cached = none ∨ o.cached = some (pr.lossAt o.p)

/-- the strategy bounds as a predicate on `pg` -/
def InBounds (kd : Kind) (h : Hyper ℝ) (s : SState ℝ) : Prop :=
  match kd with
  | .constant => True
  | .adaptive => h.smin ≤ s.damping ∧ s.damping ≤ h.smax
  | .trust => h.smin ≤ s.radius ∧ s.radius ≤ h.smax ∧ h.smin ≤ s.down ∧ s.down ≤ h.smax ∧
      s.damping * s.radius = 1

/-- what holds for every hyper-parameters the constructors accept: the clamped quantities lie in `[min, max(min, max)]` -/
def InRange (kd : Kind) (h : Hyper ℝ) (s : SState ℝ) : Prop :=
  match kd with
  | .constant => True
  | .adaptive => h.smin ≤ s.damping ∧ s.damping ≤ max h.smin h.smax
  | .trust => h.smin ≤ s.radius ∧ s.radius ≤ max h.smin h.smax ∧ h.smin ≤ s.down ∧ s.down ≤ max h.smin h.smax

/-- non-vacuity example: 1-D problem, loss `x²`, retraction `x + d`, a "solver" that overshoots twice
(`d = -3x`, loss ×4) and then returns the Newton step -/
def exProb : Prob ℝ ℝ ℝ := { lossAt := fun x => x * x, retr := fun x d => x + d, neg := fun d => -d }
def exEnv : Env ℝ ℝ Nat ℝ :=
  { solve := fun i x => if i < 2 then some (-3 * x) else some (-x), upd := fun s _ _ _ => s + 1 }


/-! ### structural facts about calls and histories (plumbing used by `Proofs/Props/C08.lean`) -/
section plumbing
variable {P D S : Type} (pr : Prob P D ℝ) (reject : Nat) (e : Env P D S ℝ)

/-- **The cache is transparent**: starting a call from the cached loss or recomputing the loss at the
given parameters gives the same call (the cache is only an optimisation) — provided the cache is true. -/
theorem cache_transparent (p : P) (s : S) :
    lmStep pr reject e (some (pr.lossAt p)) p s = lmStep pr reject e none p s := rfl

/-- **Nothing but (parameters, param group, cached loss) carries over between calls**: a call does not
read the previous `reject_count` or `last` (a stale counter cannot influence the next call). -/
theorem lmCall_stateless (o o' : Opt P S ℝ) (hp : o.p = o'.p) (hs : o.s = o'.s) (hc : o.cached = o'.cached) :
    lmCall pr reject o e = lmCall pr reject o' e := by
  unfold lmCall; rw [hp, hs, hc]

/-- **Re-using an optimizer object = continuing from its state**: a history split anywhere. -/
theorem lmRun_append (o : Opt P S ℝ) (es₁ es₂ : List (Env P D S ℝ)) :
    lmRun pr reject o (es₁ ++ es₂) = lmRun pr reject (lmRun pr reject o es₁) es₂ := by
  unfold lmRun; rw [List.foldl_append]

/-- the strategy update reads the *current* param group only: editing `pg` between updates simply restarts the
fold from the edited state (no hidden copy of an earlier damping / threshold can matter) -/
theorem stratRun_append (kd : Kind) (h : Hyper ℝ) (s : SState ℝ) (qs₁ qs₂ : List (ℝ × ℝ)) :
    stratRun kd h s (qs₁ ++ qs₂) = stratRun kd h (stratRun kd h s qs₁) qs₂ := by
  unfold stratRun; rw [List.foldl_append]

/-- **Two optimizers sharing one strategy object do not interact**: the strategy has no state of its own (all of it
lives in the param group), so interleaving the updates of two param groups in any order equals running each
group's updates alone. `evs`: which group (`true` = first) is updated with which quality. -/
theorem shared_strategy_independent (kd : Kind) (h : Hyper ℝ) (evs : List (Bool × ℝ × ℝ)) (s₁ s₂ : SState ℝ) :
    evs.foldl (fun (st : SState ℝ × SState ℝ) ev =>
        if ev.1 then (stratUpd kd h st.1 ev.2.1 ev.2.2, st.2) else (st.1, stratUpd kd h st.2 ev.2.1 ev.2.2)) (s₁, s₂) =
      (stratRun kd h s₁ ((evs.filter (fun ev => ev.1)).map (fun ev => ev.2)),
       stratRun kd h s₂ ((evs.filter (fun ev => !ev.1)).map (fun ev => ev.2))) := by
  induction evs generalizing s₁ s₂ with
  | nil => rfl
  | cons ev evs ih =>
    obtain ⟨b, nd⟩ := ev
    cases b with
    | true => simp only [List.foldl_cons, if_true, List.filter_cons, Bool.not_true, List.map_cons]; rw [ih]; simp [stratRun]
    | false => simp only [List.foldl_cons, Bool.false_eq_true, if_false, List.filter_cons, Bool.not_false]; rw [ih]; simp [stratRun]



/-- **Interleaved use of independent objects = each used alone** (any state type, any step function): a history that
alternates between two optimizers (an original and its copy, two optimizers of different kind, …) factors into the two
separate histories. -/
theorem interleave_independent {σ ε : Type} (f : σ → ε → σ) (evs : List (Bool × ε)) (a b : σ) :
    evs.foldl (fun (st : σ × σ) ev => if ev.1 then (f st.1 ev.2, st.2) else (st.1, f st.2 ev.2)) (a, b) =
      (((evs.filter (fun ev => ev.1)).map (fun ev => ev.2)).foldl f a,
       ((evs.filter (fun ev => !ev.1)).map (fun ev => ev.2)).foldl f b) := by
  induction evs generalizing a b with
  | nil => rfl
  | cons ev evs ih =>
    obtain ⟨bb, x⟩ := ev
    cases bb with
    | true => simp only [List.foldl_cons, if_true, List.filter_cons, Bool.not_true]; rw [ih]; simp
    | false => simp only [List.foldl_cons, Bool.false_eq_true, if_false, List.filter_cons, Bool.not_false]; rw [ih]; simp

/-- … instantiated: an optimizer and its copy (same state) used interleaved each follow `lmRun` on their own calls -/
theorem copies_independent (o : Opt P S ℝ) (evs : List (Bool × Env P D S ℝ)) :
    evs.foldl (fun (st : Opt P S ℝ × Opt P S ℝ) ev =>
        if ev.1 then (lmCall pr reject st.1 ev.2, st.2) else (st.1, lmCall pr reject st.2 ev.2)) (o, o) =
      (lmRun pr reject o ((evs.filter (fun ev => ev.1)).map (fun ev => ev.2)),
       lmRun pr reject o ((evs.filter (fun ev => !ev.1)).map (fun ev => ev.2))) :=
  interleave_independent (lmCall pr reject) evs o o

theorem lmRun_take_succ (o : Opt P S ℝ) (es : List (Env P D S ℝ)) (k : Nat) (hk : k < es.length) :
    lmRun pr reject o (es.take (k + 1)) = lmCall pr reject (lmRun pr reject o (es.take k)) es[k] := by
  unfold lmRun
  rw [List.take_succ_eq_append_getElem hk, List.foldl_append]
  rfl

theorem gnRun_take_succ (o : GNOpt P ℝ) (svs : List (P → Option D)) (k : Nat) (hk : k < svs.length) :
    gnRun pr o (svs.take (k + 1)) = gnStep pr svs[k] (gnRun pr o (svs.take k)) := by
  unfold gnRun
  rw [List.take_succ_eq_append_getElem hk, List.foldl_append]
  rfl

theorem lmCallG_fst (gsolve : Nat → P → Option D) (on : Opt P S ℝ × Nat) (upd : S → ℝ → ℝ → D → S) :
    (lmCallG pr reject gsolve on upd).1 =
      lmCall pr reject on.1 { solve := fun i p => gsolve (on.2 + i) p, upd := upd } := rfl

end plumbing

section defect
variable {P D S : Type} (pr : Prob P D ℝ) (reject : Nat) (e : Env P D S ℝ)

/-! ### the retraction contract up to a defect (`restored ≈ original`) -/

/-- what the approximate loop theorems assume: a distance on parameters (only `dist p p = 0` and the triangle inequality
are used), the loss is `L`-Lipschitz for it, and undoing a step the solver returned misses the original point by at most
`δ` (round-off of the retraction; for SO3 see `so3_retr_defect`). `δ = 0` is the exact contract `RetrOK`. -/
structure Defect (pr : Prob P D ℝ) (e : Env P D S ℝ) (dist : P → P → ℝ) (L δ : ℝ) : Prop where
  dist_self : ∀ p, dist p p = 0
  dist_tri : ∀ a b c, dist a c ≤ dist a b + dist b c
  delta_nonneg : 0 ≤ δ
  lip_nonneg : 0 ≤ L
  lip : ∀ p q, |pr.lossAt p - pr.lossAt q| ≤ L * dist p q
  restore : ∀ k p d, e.solve k p = some d → dist (pr.retr (pr.retr p d) (pr.neg d)) p ≤ δ

/-- loop invariant with a defect: `l0` the loss the call started from, `p0` the parameters it was given -/
structure InvD (dist : P → P → ℝ) (δ : ℝ) (l0 : ℝ) (p0 : P) (st : St P S ℝ) : Prop where
  last_eq : st.last = l0
  rc_le : st.rc ≤ reject
  live_p : st.live = true → st.loss = l0 ∧ st.solves = st.rc ∧ dist st.p p0 ≤ st.rc * δ
  dead : st.live = false → st.solves = st.rc + 1 ∧ (st.loss ≤ l0 ∨ st.rc = reject) ∧
    (st.loss = pr.lossAt st.p ∨ (st.loss = l0 ∧ dist st.p p0 ≤ st.rc * δ))

theorem body_invD (dist : P → P → ℝ) (L δ : ℝ) (hD : Defect pr e dist L δ) (l0 : ℝ) (p0 : P) (st : St P S ℝ)
    (h : InvD pr reject dist δ l0 p0 st) : InvD pr reject dist δ l0 p0 (body pr reject e st) := by
  rcases body_spec pr reject e st with ⟨_, hb⟩ | ⟨hl, hc, _⟩ | ⟨hl, hc, hs, hb⟩ | ⟨d, hl, hc, hs, hw, hr, hb⟩ |
      ⟨d, hl, hc, hs, hw, hb⟩
  · rw [hb]; exact h
  · exfalso
    have := h.live_p hl
    rw [h.last_eq, this.1] at hc
    exact hc le_rfl
  · rw [hb]
    have hp := h.live_p hl
    refine ⟨h.last_eq, h.rc_le, ?_, ?_⟩
    · intro hh; simp [raiseSt] at hh
    · intro _
      refine ⟨by simp [raiseSt, hp.2.1], Or.inl (by simp [raiseSt, hp.1]), Or.inr ⟨by simp [raiseSt, hp.1], ?_⟩⟩
      simpa [raiseSt] using hp.2.2
  · rw [hb]
    have hp := h.live_p hl
    refine ⟨h.last_eq, ?_, ?_, ?_⟩
    · simp only [rejSt]; omega
    · intro _
      refine ⟨by simp only [rejSt]; exact h.last_eq, by simp only [rejSt]; rw [hp.2.1], ?_⟩
      simp only [rejSt]
      have h1 := hD.restore _ _ _ hs
      have h2 := hD.dist_tri (pr.retr (pr.retr st.p d) (pr.neg d)) st.p p0
      push_cast
      nlinarith [hp.2.2]
    · intro hh; simp [rejSt] at hh
  · rw [hb]
    have hp := h.live_p hl
    refine ⟨h.last_eq, h.rc_le, ?_, ?_⟩
    · intro hh; simp [accSt] at hh
    · intro _
      refine ⟨by simp [accSt, hp.2.1], ?_, Or.inl rfl⟩
      simp only [accSt]
      by_cases h1 : st.last < pr.lossAt (pr.retr st.p d)
      · right
        have : ¬ st.rc < reject := fun h2 => hw ⟨h1, h2⟩
        have := h.rc_le
        omega
      · left; rw [← h.last_eq]; exact not_lt.mp h1

theorem loop_invD (dist : P → P → ℝ) (L δ : ℝ) (hD : Defect pr e dist L δ) (l0 : ℝ) (p0 : P) (n : Nat) (st : St P S ℝ)
    (h : InvD pr reject dist δ l0 p0 st) : InvD pr reject dist δ l0 p0 (loop pr reject e n st) := by
  induction n generalizing st with
  | zero => exact h
  | succ n ih => rw [loop_succ]; exact ih _ (body_invD pr reject e dist L δ hD l0 p0 st h)

/-- the state at the top of the loop when the call starts from the loss `l0` (cached or freshly computed) -/
theorem start_invD (dist : P → P → ℝ) (L δ : ℝ) (hD : Defect pr e dist L δ) (cached : Option ℝ) (p : P) (s : S) :
    InvD pr reject dist δ (start pr cached p s : St P S ℝ).last p (start pr cached p s) := by
  refine ⟨rfl, by cases cached <;> simp [start], fun _ => ⟨by cases cached <;> rfl, by cases cached <;> rfl, ?_⟩,
    fun h => by cases cached <;> simp [start] at h⟩
  have : (start pr cached p s : St P S ℝ).p = p ∧ (start pr cached p s : St P S ℝ).rc = 0 := by cases cached <;> exact ⟨rfl, rfl⟩
  rw [this.1, this.2, hD.dist_self]; simp

end defect

end PP.LMLoop
