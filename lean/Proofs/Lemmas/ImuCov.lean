import Proofs.Lemmas.Imu
import Mathlib.LinearAlgebra.Matrix.PosDef
import Mathlib.Algebra.BigOperators.Fin
import Mathlib.Algebra.Order.Star.Real
/-!
# Helper lemmas for C16, covariance part: the model's 9×9 array matrices as Mathlib matrices,
the product scan of `propagate_cov`, positive semidefiniteness, the documented recursion
-/
namespace PP.Imu
open PP Matrix

abbrev Mat9 := Matrix (Fin 9) (Fin 9) ℝ

namespace M9

theorem get_ofFn (f : Nat → Nat → ℝ) (i j : Nat) (hi : i < 9) (hj : j < 9) : (M9.ofFn f).get i j = f i j := by
  have h : 9 * i + j < 81 := by omega
  have e1 : (9 * i + j) / 9 = i := by omega
  have e2 : (9 * i + j) % 9 = j := by omega
  unfold M9.get M9.ofFn
  rw [Array.getD_eq_getD_getElem?, Array.getElem?_ofFn]
  simp only [h, dite_true, Option.getD_some, e1, e2]

theorem ofFn_congr (f g : Nat → Nat → ℝ) (h : ∀ i j, i < 9 → j < 9 → f i j = g i j) : M9.ofFn f = M9.ofFn g := by
  have e : (fun p : Fin 81 => f (p.val / 9) (p.val % 9)) = fun p : Fin 81 => g (p.val / 9) (p.val % 9) := by
    funext p
    exact h _ _ (by omega) (by omega)
  unfold M9.ofFn
  rw [e]

/-- the model matrix as a Mathlib matrix -/
noncomputable def toM (A : M9 ℝ) : Mat9 := Matrix.of fun i j => A.get i.val j.val

theorem toM_apply (A : M9 ℝ) (i j : Fin 9) : toM A i j = A.get i.val j.val := rfl

theorem sum9_eq (f : Nat → ℝ) : M9.sum9 f = ∑ l : Fin 9, f l.val := by
  unfold M9.sum9
  simp [Fin.sum_univ_succ]
  ring

theorem toM_ofFn (f : Nat → Nat → ℝ) : toM (M9.ofFn f) = Matrix.of fun i j => f i.val j.val := by
  ext i j; rw [toM_apply, get_ofFn f _ _ i.isLt j.isLt]; rfl

theorem toM_mul (A B : M9 ℝ) : toM (A.mul B) = toM A * toM B := by
  ext i j
  rw [M9.mul, toM_ofFn, Matrix.mul_apply]
  simp only [Matrix.of_apply, sum9_eq, toM_apply]

theorem toM_add (A B : M9 ℝ) : toM (A.add B) = toM A + toM B := by
  ext i j; rw [M9.add, toM_ofFn]; rfl

theorem toM_smul (c : ℝ) (A : M9 ℝ) : toM (A.smul c) = c • toM A := by
  ext i j; rw [M9.smul, toM_ofFn]; rfl

theorem toM_transpose (A : M9 ℝ) : toM A.transpose = (toM A)ᵀ := by
  ext i j; rw [M9.transpose, toM_ofFn]; rfl

theorem toM_zero : toM (M9.zero : M9 ℝ) = 0 := by
  ext i j; rw [M9.zero, toM_ofFn]; simp

theorem toM_one : toM (M9.one : M9 ℝ) = 1 := by
  ext i j; rw [M9.one, toM_ofFn]
  simp only [Matrix.of_apply, Matrix.one_apply, k_real, Nat.cast_one, Nat.cast_zero, Fin.val_inj]

theorem toM_diag (d : Nat → ℝ) : toM (M9.diag d) = Matrix.diagonal fun i : Fin 9 => d i.val := by
  ext i j; rw [M9.diag, toM_ofFn]
  simp only [Matrix.of_apply, Matrix.diagonal_apply, k_real, Nat.cast_zero, Fin.val_inj]

/-- equality of the Mathlib matrices gives equality of canonical (`ofFn`-built) model matrices -/
theorem ofFn_eq_of_toM (f g : Nat → Nat → ℝ) (h : toM (M9.ofFn f) = toM (M9.ofFn g)) : M9.ofFn f = M9.ofFn g := by
  apply ofFn_congr
  intro i j hi hj
  have := congrFun (congrFun h ⟨i, hi⟩) ⟨j, hj⟩
  rwa [toM_apply, toM_apply, get_ofFn f _ _ hi hj, get_ofFn g _ _ hi hj] at this

theorem mul_assoc' (A B C : M9 ℝ) : (A.mul B).mul C = A.mul (B.mul C) := by
  unfold M9.mul
  apply ofFn_eq_of_toM
  have h1 := toM_mul (A.mul B) C
  have h2 := toM_mul A (B.mul C)
  unfold M9.mul at h1 h2
  rw [h1, h2]
  have h3 := toM_mul A B
  have h4 := toM_mul B C
  unfold M9.mul at h3 h4
  rw [h3, h4, Matrix.mul_assoc]

end M9

open M9

/-! ## the product scan of `propagate_cov` -/

/-- products along the flipped list `[I, A_{F-1}, …, A_0]`: right order `Q_{j+1} = Q_j · A_{F-1-j}`
(so `Q_j = A_{F-1} ⋯ A_{F-j}`), left order `Q_{j+1} = A_{F-1-j} · Q_j` (so `Q_j = A_{F-j} ⋯ A_{F-1}`) -/
noncomputable def qProd (left : Bool) (F : Nat) (A : Nat → M9 ℝ) : Nat → M9 ℝ
  | 0 => M9.one
  | j+1 => if left then (A (F-1-j)).mul (qProd left F A j) else (qProd left F A j).mul (A (F-1-j))

theorem flipA_zero (F : Nat) (A : Nat → M9 ℝ) : flipA F A 0 = M9.one := by
  unfold flipA; simp

theorem flipA_succ (F : Nat) (A : Nat → M9 ℝ) (j : Nat) (hj : j + 1 ≤ F) : flipA F A (j+1) = A (F-1-j) := by
  unfold flipA
  have h : F - (j+1) < F := by omega
  have e : F - (j+1) = F - 1 - j := by omega
  rw [if_pos h, e]

theorem seg_flip (F : Nat) (A : Nat → M9 ℝ) (v : Nat → M9 ℝ) (hv : ∀ i, i ≤ F → v i = flipA F A i) :
    ∀ j, j ≤ F → Scan.seg M9.mul v 0 j = qProd false F A j := by
  intro j
  induction j with
  | zero => intro _; simp only [Scan.seg, qProd]; rw [hv 0 (by omega), flipA_zero]
  | succ n ih =>
    intro hj
    simp only [Scan.seg, qProd, Nat.zero_add, Bool.false_eq_true, if_false]
    rw [ih (by omega), hv (n+1) hj, flipA_succ F A n hj]

theorem segLeft_flip (F : Nat) (A : Nat → M9 ℝ) (v : Nat → M9 ℝ) (hv : ∀ i, i ≤ F → v i = flipA F A i) :
    ∀ j, j ≤ F → Scan.segLeft M9.mul v j = qProd true F A j := by
  intro j
  induction j with
  | zero => intro _; simp only [Scan.segLeft, qProd]; rw [hv 0 (by omega), flipA_zero]
  | succ n ih =>
    intro hj
    simp only [Scan.segLeft, qProd, if_true]
    rw [ih (by omega), hv (n+1) hj, flipA_succ F A n hj]

/-- `cumprod(A.flip(1), left)[j]` is the ordered product — through the C12 scan theorem, for every `F` -/
theorem covCum_eq (left : Bool) (F : Nat) (A : Nat → M9 ℝ) (j : Nat) (hj : j ≤ F) :
    (covCum left F A).getD j M9.one = qProd left F A j := by
  unfold covCum
  have h1 := @Scan.cumopsArr_eq (M9 ℝ) (if left then (fun a b => M9.mul b a) else M9.mul) ⟨M9.one⟩
    (tab (F+1) (flipA F A)) j (by rw [tab_size]; omega)
  have hd : (@default (M9 ℝ) ⟨M9.one⟩) = M9.one := rfl
  rw [hd] at h1
  rw [h1, tab_size]
  have hv : ∀ i, i ≤ F → (tab (F+1) (flipA F A)).getD i M9.one = flipA F A i :=
    fun i hi => getD_tab (F+1) _ _ i (by omega)
  cases left
  · simp only [Bool.false_eq_true, if_false]
    rw [Scan.cumops_spec M9.mul M9.mul_assoc' (F+1) _ j (by omega)]
    exact seg_flip F A _ hv j hj
  · simp only [if_true]
    have := Scan.cumopsLeft_spec M9.mul M9.mul_assoc' (F+1) (fun j => (tab (F+1) (flipA F A)).getD j M9.one) j (by omega)
    unfold Scan.cumopsLeft at this
    rw [this]
    exact segLeft_flip F A _ hv j hj

/-! ## `propagate_cov` as a sum of congruences -/

theorem toM_foldl_add (T : Nat → M9 ℝ) (n : Nat) :
    toM ((List.range n).foldl (fun acc j => acc.add (T j)) M9.zero) = ∑ j ∈ Finset.range n, toM (T j) := by
  induction n with
  | zero => simp [toM_zero]
  | succ n ih => rw [List.range_succ, List.foldl_append, Finset.sum_range_succ, ← ih]; simp [toM_add]

theorem toM_propagateCov (left : Bool) (F : Nat) (A B : Nat → M9 ℝ) (C0 : M9 ℝ) :
    toM (propagateCov left F A B C0) =
      ∑ j ∈ Finset.range (F+1), toM (qProd left F A (F - j)) * toM (bSeq C0 B j) * (toM (qProd left F A (F - j)))ᵀ := by
  unfold propagateCov
  show toM ((List.range (F+1)).foldl (fun acc j => acc.add
      ((((covCum left F A).getD (F - j) M9.one).mul (bSeq C0 B j)).mul ((covCum left F A).getD (F - j) M9.one).transpose))
      M9.zero) = _
  rw [toM_foldl_add]
  apply Finset.sum_congr rfl
  intro j _
  rw [covCum_eq left F A (F - j) (by omega), toM_mul, toM_mul, toM_transpose]

theorem psd_sum {ι : Type} (s : Finset ι) (f : ι → Mat9) (h : ∀ i ∈ s, (f i).PosSemidef) : (∑ i ∈ s, f i).PosSemidef := by
  classical
  induction s using Finset.induction_on with
  | empty => simpa using Matrix.PosSemidef.zero
  | insert a s ha ih =>
    rw [Finset.sum_insert ha]
    exact (h a (Finset.mem_insert_self a s)).add (ih fun i hi => h i (Finset.mem_insert_of_mem hi))

theorem psd_congr (X : Mat9) (hX : X.PosSemidef) (P : Mat9) : (P * X * Pᵀ).PosSemidef := by
  have := hX.mul_mul_conjTranspose_same P
  rwa [Matrix.conjTranspose_eq_transpose_of_trivial] at this

/-- any order of the product: a sum of congruences of PSD blocks is PSD -/
theorem propagateCov_psd (left : Bool) (F : Nat) (A B : Nat → M9 ℝ) (C0 : M9 ℝ)
    (h0 : (toM C0).PosSemidef) (hB : ∀ j, j < F → (toM (B j)).PosSemidef) :
    (toM (propagateCov left F A B C0)).PosSemidef := by
  rw [toM_propagateCov]
  apply psd_sum
  intro j hj
  apply psd_congr
  cases j with
  | zero => exact h0
  | succ n => exact hB n (by simp at hj; omega)

/-! ## the documented recursion -/

/-- `C_{k+1} = A_k C_k A_kᵀ + B_k` on Mathlib matrices -/
noncomputable def covRec (A B : Nat → Mat9) (C0 : Mat9) : Nat → Mat9
  | 0 => C0
  | n+1 => A n * covRec A B C0 n * (A n)ᵀ + B n

theorem qProd_succ_F (F : Nat) (A : Nat → M9 ℝ) (i : Nat) :
    toM (qProd false (F+1) A (i+1)) = toM (A F) * toM (qProd false F A i) := by
  induction i with
  | zero => simp [qProd, toM_mul, toM_one]
  | succ n ih =>
    have e : F + 1 - 1 - (n + 1) = F - 1 - n := by omega
    rw [qProd]
    simp only [Bool.false_eq_true, if_false]
    rw [toM_mul, ih, e, qProd]
    simp only [Bool.false_eq_true, if_false]
    rw [toM_mul, Matrix.mul_assoc]

/-- with the products in time order (`left = false`) `propagate_cov` IS the documented recursion, for every `F` -/
theorem propagateCov_eq_rec (F : Nat) (A B : Nat → M9 ℝ) (C0 : M9 ℝ) :
    toM (propagateCov false F A B C0) = covRec (fun j => toM (A j)) (fun j => toM (B j)) (toM C0) F := by
  rw [toM_propagateCov]
  induction F with
  | zero => simp [qProd, toM_one, bSeq, covRec]
  | succ F ih =>
    rw [Finset.sum_range_succ, covRec, ← ih]
    have e0 : F + 1 - (F + 1) = 0 := by omega
    rw [e0]
    simp only [qProd, toM_one, Matrix.one_mul, Matrix.transpose_one, Matrix.mul_one, bSeq]
    congr 1
    rw [Finset.mul_sum, Finset.sum_mul]
    apply Finset.sum_congr rfl
    intro j hj
    have hj' : j ≤ F := by simp at hj; omega
    have e : F + 1 - j = (F - j) + 1 := by omega
    rw [e, qProd_succ_F, Matrix.transpose_mul]
    simp only [Matrix.mul_assoc]

theorem covRec_congr (A B A' B' : Nat → Mat9) (C0 : Mat9) (n : Nat)
    (h : ∀ j, j < n → A j = A' j ∧ B j = B' j) : covRec A B C0 n = covRec A' B' C0 n := by
  induction n with
  | zero => rfl
  | succ n ih => rw [covRec, covRec, ih (fun j hj => h j (by omega)), (h n (by omega)).1, (h n (by omega)).2]

theorem covRec_add (A B : Nat → Mat9) (C0 : Mat9) (m n : Nat) :
    covRec A B C0 (m + n) = covRec (fun j => A (m + j)) (fun j => B (m + j)) (covRec A B C0 m) n := by
  induction n with
  | zero => rfl
  | succ n ih => rw [show m + (n+1) = (m+n)+1 from rfl, covRec, covRec, ih]

theorem covRec_psd (A B : Nat → Mat9) (C0 : Mat9) (h0 : C0.PosSemidef) (n : Nat)
    (hB : ∀ j, j < n → (B j).PosSemidef) : (covRec A B C0 n).PosSemidef := by
  induction n with
  | zero => exact h0
  | succ n ih => exact (psd_congr _ (ih fun j hj => hB j (by omega)) (A n)).add (hB n (by omega))

/-! ## the noise block is PSD -/

theorem v3get_nonneg (v : Vec3 ℝ) (hx : 0 ≤ v.x) (hy : 0 ≤ v.y) (hz : 0 ≤ v.z) (i : Nat) : 0 ≤ v3get v i := by
  unfold v3get; split <;> assumption

theorem diag3_psd (v : Vec3 ℝ) (hx : 0 ≤ v.x) (hy : 0 ≤ v.y) (hz : 0 ≤ v.z) : (toM (diag3 v)).PosSemidef := by
  unfold diag3
  rw [toM_diag]
  apply Matrix.PosSemidef.diagonal
  intro i
  simp only [Pi.zero_apply]
  split
  · exact v3get_nonneg v hx hy hz _
  · simp

/-- `B_cov[k] = (Bg Cg Bgᵀ + Ba Ca Baᵀ)/dt` is PSD for non-negative measurement covariances and `dt ≥ 0` -/
theorem noise_psd (eps : ℝ) (c : CovIn ℝ) (hdt : 0 ≤ c.dt)
    (hg : 0 ≤ c.gcov.x ∧ 0 ≤ c.gcov.y ∧ 0 ≤ c.gcov.z) (ha : 0 ≤ c.acov.x ∧ 0 ≤ c.acov.y ∧ 0 ≤ c.acov.z) :
    (toM (noise eps c)).PosSemidef := by
  unfold noise
  simp only [toM_smul, toM_add, toM_mul, toM_transpose]
  apply Matrix.PosSemidef.smul
  · exact (psd_congr _ (diag3_psd _ hg.1 hg.2.1 hg.2.2) _).add (psd_congr _ (diag3_psd _ ha.1 ha.2.1 ha.2.2) _)
  · simp only [k_real, Nat.cast_one]; positivity

/-! ## what `propagate_cov` is fed, in terms of the recursion -/

/-- `Rij * Dr` / `Dr` -/
noncomputable def rijMul (o : Option (Quat ℝ)) (x : Quat ℝ) : Quat ℝ :=
  match o with
  | some r => r.mul x
  | none => x

theorem rijMul_mul (o : Option (Quat ℝ)) (a x : Quat ℝ) : (rijMul o a).mul x = rijMul o (a.mul x) := by
  cases o with
  | none => rfl
  | some r => simp only [rijMul, Quat.mul_assoc']

/-- the per-frame inputs of the covariance propagation, written with the sequential recursion -/
noncomputable def cinSpec (eps : ℝ) (g : Vec3 ℝ) (R0 : Quat ℝ) (Rij0 : Option (Quat ℝ)) (fr : Nat → Frame ℝ)
    (j : Nat) : CovIn ℝ :=
  ⟨rijMul Rij0 (seqR eps fr (j+1)), dr eps (fr j), aSeq eps g R0 fr j, (fr j).dt, (fr j).gcov, (fr j).acov⟩

theorem covInAt_eq (eps : ℝ) (g : Vec3 ℝ) (R0 : Quat ℝ) (Rij0 : Option (Quat ℝ)) (fr : Nat → Frame ℝ) (F j : Nat)
    (hj : j < F) : covInAt Rij0 eps (integrate eps g R0 fr F) fr j = cinSpec eps g R0 Rij0 fr j := by
  unfold covInAt cinSpec rijAt
  rw [integ_a eps g R0 fr F j hj]
  have : qAt (integrate eps g R0 fr F).incR (j+1) = seqR eps fr (j+1) := by
    rw [integ_incR eps g R0 fr F (j+1) (by omega), preSeq_dR]
  rw [this]
  cases Rij0 <;> rfl

theorem cinSpec_shift (eps : ℝ) (g : Vec3 ℝ) (R0 : Quat ℝ) (Rij0 o : Option (Quat ℝ)) (fr : Nat → Frame ℝ) (m j : Nat)
    (ho : ∀ x, rijMul o x = rijMul Rij0 ((seqR eps fr m).mul x)) :
    cinSpec eps g (R0.mul (seqR eps fr m)) o (fun i => fr (m + i)) j = cinSpec eps g R0 Rij0 fr (m + j) := by
  unfold cinSpec
  rw [aSeq_shift, ho, show m + j + 1 = m + (j+1) from rfl, ← seqR_shift]

/-! ## `forward` (no explicit `init_state`) against the specification stream -/

theorem call_outs (cfg : Cfg ℝ) (st : State ℝ) (fr : Nat → Frame ℝ) (F : Nat) :
    (call cfg st none fr F).outs = tab F (predictAt st.pos st.rot st.vel (integrate cfg.eps cfg.g st.rot fr F)) := rfl

theorem call_cov (cfg : Cfg ℝ) (st : State ℝ) (fr : Nat → Frame ℝ) (F : Nat) (hp : cfg.propCov = true) :
    (call cfg st none fr F).cov = some (propagateCov cfg.left F
      (fun j => matA (covInAt st.Rij cfg.eps (integrate cfg.eps cfg.g st.rot fr F) fr j))
      (fun j => noise cfg.eps (covInAt st.Rij cfg.eps (integrate cfg.eps cfg.g st.rot fr F) fr j)) st.cov) := by
  simp only [call, hp, if_true]

theorem call_st (cfg : Cfg ℝ) (st : State ℝ) (fr : Nat → Frame ℝ) (F : Nat) (hp : cfg.propCov = true)
    (hr : cfg.reset = false) :
    (call cfg st none fr F).st =
      { pos := (outAt (call cfg st none fr F).outs (F - 1)).pos
        rot := (outAt (call cfg st none fr F).outs (F - 1)).rot
        vel := (outAt (call cfg st none fr F).outs (F - 1)).vel
        cov := propagateCov cfg.left F
          (fun j => matA (covInAt st.Rij cfg.eps (integrate cfg.eps cfg.g st.rot fr F) fr j))
          (fun j => noise cfg.eps (covInAt st.Rij cfg.eps (integrate cfg.eps cfg.g st.rot fr F) fr j)) st.cov
        Rij := some (rijAt st.Rij (integrate cfg.eps cfg.g st.rot fr F) (F - 1)) } := by
  simp only [call, hp, hr, if_true, Bool.false_eq_true, if_false]

theorem call_st_reset (cfg : Cfg ℝ) (st : State ℝ) (init : Option (Init ℝ)) (fr : Nat → Frame ℝ) (F : Nat)
    (hr : cfg.reset = true) : (call cfg st init fr F).st = st := by
  simp only [call, hr, if_true]

/-- every frame of a call is the documented recursion composed with the state the call starts from -/
theorem call_out_eq (cfg : Cfg ℝ) (st : State ℝ) (fr : Nat → Frame ℝ) (F j : Nat) (hj : j < F) :
    outAt (call cfg st none fr F).outs j
      = compose st.pos st.rot st.vel (preSeq cfg.eps cfg.g st.rot fr (j+1)) := by
  rw [call_outs]
  unfold outAt
  rw [getD_tab _ _ _ _ hj, predictAt_eq cfg.eps cfg.g st.pos st.rot st.vel fr F j hj]

noncomputable def specOut (eps : ℝ) (g : Vec3 ℝ) (st0 : State ℝ) (fr : Nat → Frame ℝ) (n : Nat) : Out ℝ :=
  compose st0.pos st0.rot st0.vel (preSeq eps g st0.rot fr n)
noncomputable def specA (eps : ℝ) (g : Vec3 ℝ) (st0 : State ℝ) (fr : Nat → Frame ℝ) : Nat → Mat9 :=
  fun j => toM (matA (cinSpec eps g st0.rot st0.Rij fr j))
noncomputable def specB (eps : ℝ) (g : Vec3 ℝ) (st0 : State ℝ) (fr : Nat → Frame ℝ) : Nat → Mat9 :=
  fun j => toM (noise eps (cinSpec eps g st0.rot st0.Rij fr j))
/-- the documented covariance recursion along the whole stream, started from the carried covariance -/
noncomputable def specCov (eps : ℝ) (g : Vec3 ℝ) (st0 : State ℝ) (fr : Nat → Frame ℝ) (n : Nat) : Mat9 :=
  covRec (specA eps g st0 fr) (specB eps g st0 fr) (toM st0.cov) n

/-- `st` is the carried state after `n` frames of the stream `fr` started from `st0` -/
structure Rep (eps : ℝ) (g : Vec3 ℝ) (st0 : State ℝ) (fr : Nat → Frame ℝ) (n : Nat) (st : State ℝ) : Prop where
  rot : st.rot = (specOut eps g st0 fr n).rot
  vel : st.vel = (specOut eps g st0 fr n).vel
  pos : st.pos = (specOut eps g st0 fr n).pos
  cov : toM st.cov = specCov eps g st0 fr n
  rij : ∀ x, rijMul st.Rij x = rijMul st0.Rij ((seqR eps fr n).mul x)

theorem rep_zero (eps : ℝ) (g : Vec3 ℝ) (st0 : State ℝ) (fr : Nat → Frame ℝ) : Rep eps g st0 fr 0 st0 := by
  refine ⟨?_, ?_, ?_, rfl, ?_⟩
  · simp only [specOut, compose, preSeq, Pre.init, Quat.mul_one']
  · simp only [specOut, compose, preSeq, Pre.init, Quat.act_zero]; ext <;> lie_unfold <;> ring
  · simp only [specOut, compose, preSeq, Pre.init, Quat.act_zero]; ext <;> lie_unfold <;> ring
  · intro x; simp only [seqR, Quat.one_mul']

/-- one call from a carried state continues the specification stream (time-ordered covariance product) -/
theorem call_rep (cfg : Cfg ℝ) (hr : cfg.reset = false) (hp : cfg.propCov = true) (hl : cfg.left = false)
    (st0 : State ℝ) (fr : Nat → Frame ℝ) (N : Nat) (hR0 : st0.rot.normSq = 1)
    (hu : ∀ i, i < N → (dr cfg.eps (fr i)).normSq = 1)
    (n : Nat) (st : State ℝ) (hrep : Rep cfg.eps cfg.g st0 fr n st) (m : Nat) (hm : 1 ≤ m) (hN : n + m ≤ N) :
    (∀ j, j < m → outAt (call cfg st none (fun i => fr (n + i)) m).outs j = specOut cfg.eps cfg.g st0 fr (n + j + 1)) ∧
    (call cfg st none (fun i => fr (n + i)) m).outs.size = m ∧
    (∃ c, (call cfg st none (fun i => fr (n + i)) m).cov = some c ∧ toM c = specCov cfg.eps cfg.g st0 fr (n + m)) ∧
    Rep cfg.eps cfg.g st0 fr (n + m) (call cfg st none (fun i => fr (n + i)) m).st := by
  have hrot : st.rot = st0.rot.mul (seqR cfg.eps fr n) := by
    rw [hrep.rot]; simp only [specOut, compose, preSeq_dR]
  -- outputs
  have houts : ∀ j, j < m → outAt (call cfg st none (fun i => fr (n + i)) m).outs j
      = specOut cfg.eps cfg.g st0 fr (n + j + 1) := by
    intro j hj
    rw [call_out_eq cfg st _ m j hj]
    have := compose_shift cfg.eps cfg.g st0.pos st0.rot st0.vel fr N hR0 hu n (j+1) (by omega)
    simp only at this
    unfold specOut
    rw [show n + j + 1 = n + (j + 1) from rfl, ← this, hrep.pos, hrep.rot, hrep.vel]
    rfl
  -- covariance
  have hcov : toM (propagateCov cfg.left m
      (fun j => matA (covInAt st.Rij cfg.eps (integrate cfg.eps cfg.g st.rot (fun i => fr (n + i)) m) (fun i => fr (n + i)) j))
      (fun j => noise cfg.eps (covInAt st.Rij cfg.eps (integrate cfg.eps cfg.g st.rot (fun i => fr (n + i)) m) (fun i => fr (n + i)) j))
      st.cov) = specCov cfg.eps cfg.g st0 fr (n + m) := by
    rw [hl, propagateCov_eq_rec, hrep.cov]
    unfold specCov
    rw [covRec_add]
    apply covRec_congr
    intro j hj
    have e : covInAt st.Rij cfg.eps (integrate cfg.eps cfg.g st.rot (fun i => fr (n + i)) m) (fun i => fr (n + i)) j
        = cinSpec cfg.eps cfg.g st0.rot st0.Rij fr (n + j) := by
      rw [covInAt_eq _ _ _ _ _ m j hj, hrot]
      exact cinSpec_shift cfg.eps cfg.g st0.rot st0.Rij st.Rij fr n j hrep.rij
    simp only [specA, specB, e, and_self]
  refine ⟨houts, by rw [call_outs, tab_size], ⟨_, call_cov cfg st _ m hp, hcov⟩, ?_⟩
  rw [call_st cfg st _ m hp hr]
  have hlast := houts (m - 1) (by omega)
  have e : n + (m - 1) + 1 = n + m := by omega
  rw [e] at hlast
  refine ⟨?_, ?_, ?_, hcov, ?_⟩
  · simp only [hlast]
  · simp only [hlast]
  · simp only [hlast]
  · intro x
    have hq : qAt (integrate cfg.eps cfg.g st.rot (fun i => fr (n + i)) m).incR (m - 1 + 1)
        = seqR cfg.eps (fun i => fr (n + i)) m := by
      rw [integ_incR _ _ _ _ m (m - 1 + 1) (by omega), preSeq_dR]
      congr 1; omega
    have hra : rijAt st.Rij (integrate cfg.eps cfg.g st.rot (fun i => fr (n + i)) m) (m - 1)
        = rijMul st.Rij (seqR cfg.eps (fun i => fr (n + i)) m) := by
      unfold rijAt; rw [hq]; cases st.Rij <;> rfl
    show (rijAt st.Rij _ (m - 1)).mul x = _
    rw [hra, rijMul_mul, hrep.rij, seqR_shift, Quat.mul_assoc']

/-! ## any chunking of a stream -/

theorem toList_eq_map (a : Array (Out ℝ)) (m : Nat) (h : a.size = m) : a.toList = (List.range m).map (outAt a) := by
  apply List.ext_getElem
  · simp [h]
  · intro i h1 h2
    simp only [List.getElem_map, List.getElem_range, outAt, Array.getElem_toList]
    rw [Array.getD_eq_getD_getElem?]
    have : i < a.size := by simpa using h1
    simp [this]

def concatOuts (rs : List (Result ℝ)) : List (Out ℝ) := rs.flatMap fun r => r.outs.toList

theorem runChunks_spec (cfg : Cfg ℝ) (hr : cfg.reset = false) (hp : cfg.propCov = true) (hl : cfg.left = false)
    (st0 : State ℝ) (fr : Nat → Frame ℝ) (N : Nat) (hR0 : st0.rot.normSq = 1)
    (hu : ∀ i, i < N → (dr cfg.eps (fr i)).normSq = 1) (ms : List Nat) :
    ∀ (n : Nat) (st : State ℝ), Rep cfg.eps cfg.g st0 fr n st → (∀ m ∈ ms, 1 ≤ m) → n + ms.sum ≤ N →
      concatOuts (runChunks cfg st (fun i => fr (n + i)) ms)
        = (List.range ms.sum).map (fun j => specOut cfg.eps cfg.g st0 fr (n + j + 1)) ∧
      (ms ≠ [] → ∃ r, (runChunks cfg st (fun i => fr (n + i)) ms).getLast? = some r ∧
        (∃ c, r.cov = some c ∧ toM c = specCov cfg.eps cfg.g st0 fr (n + ms.sum)) ∧
        Rep cfg.eps cfg.g st0 fr (n + ms.sum) r.st) := by
  induction ms with
  | nil => intro n st _ _ _; simp [runChunks, concatOuts]
  | cons m ms ih =>
    intro n st hrep hms hN
    have hm : 1 ≤ m := hms m (by simp)
    simp only [List.sum_cons] at hN ⊢
    obtain ⟨ho, hs, hc, hrep'⟩ := call_rep cfg hr hp hl st0 fr N hR0 hu n st hrep m hm (by omega)
    have hfun : (fun j => (fun i => fr (n + i)) (m + j)) = fun i => fr (n + m + i) := by
      funext j; simp only [Nat.add_assoc]
    obtain ⟨ih1, ih2⟩ := ih (n + m) _ hrep' (fun x hx => hms x (by simp [hx])) (by omega)
    constructor
    · simp only [runChunks, concatOuts, List.flatMap_cons]
      rw [hfun]
      have := ih1
      simp only [concatOuts] at this
      rw [this, toList_eq_map _ m hs, List.range_add, List.map_append, List.map_map]
      congr 1
      · apply List.map_congr_left
        intro j hj
        exact ho j (by simpa using hj)
      · apply List.map_congr_left
        intro j _
        simp only [Function.comp]
        congr 1; omega
    · intro _
      simp only [runChunks]
      rw [hfun]
      by_cases hnil : ms = []
      · subst hnil
        simp only [runChunks, List.getLast?_singleton, List.sum_nil, Nat.add_zero]
        exact ⟨_, rfl, hc, hrep'⟩
      · obtain ⟨r, hr1, hr2, hr3⟩ := ih2 hnil
        refine ⟨r, ?_, ?_, ?_⟩
        · rw [List.getLast?_cons_of_ne_nil]
          · exact hr1
          · intro h
            cases ms with
            | nil => exact hnil rfl
            | cons a b => simp [runChunks] at h
        · rw [← Nat.add_assoc]; exact hr2
        · rw [← Nat.add_assoc]; exact hr3

/-! ## rotation and covariance alone: no unit-quaternion hypothesis -/

/-- rotation / covariance part of the carried state (no unit-quaternion hypothesis needed) -/
structure RepRC (eps : ℝ) (g : Vec3 ℝ) (st0 : State ℝ) (fr : Nat → Frame ℝ) (n : Nat) (st : State ℝ) : Prop where
  rot : st.rot = st0.rot.mul (seqR eps fr n)
  cov : toM st.cov = specCov eps g st0 fr n
  rij : ∀ x, rijMul st.Rij x = rijMul st0.Rij ((seqR eps fr n).mul x)

theorem repRC_zero (eps : ℝ) (g : Vec3 ℝ) (st0 : State ℝ) (fr : Nat → Frame ℝ) : RepRC eps g st0 fr 0 st0 :=
  ⟨by simp only [seqR, Quat.mul_one'], rfl, fun x => by simp only [seqR, Quat.one_mul']⟩

theorem call_repRC (cfg : Cfg ℝ) (hr : cfg.reset = false) (hp : cfg.propCov = true) (hl : cfg.left = false)
    (st0 : State ℝ) (fr : Nat → Frame ℝ)
    (n : Nat) (st : State ℝ) (hrep : RepRC cfg.eps cfg.g st0 fr n st) (m : Nat) (hm : 1 ≤ m) :
    (∀ j, j < m → (outAt (call cfg st none (fun i => fr (n + i)) m).outs j).rot = st0.rot.mul (seqR cfg.eps fr (n + j + 1))) ∧
    (∃ c, (call cfg st none (fun i => fr (n + i)) m).cov = some c ∧ toM c = specCov cfg.eps cfg.g st0 fr (n + m)) ∧
    RepRC cfg.eps cfg.g st0 fr (n + m) (call cfg st none (fun i => fr (n + i)) m).st := by
  have hrot := hrep.rot
  have houts : ∀ j, j < m → (outAt (call cfg st none (fun i => fr (n + i)) m).outs j).rot
      = st0.rot.mul (seqR cfg.eps fr (n + j + 1)) := by
    intro j hj
    rw [call_out_eq cfg st _ m j hj]
    simp only [compose, preSeq_dR]
    rw [hrot, show n + j + 1 = n + (j+1) from rfl, seqR_shift cfg.eps fr n (j+1), Quat.mul_assoc']
  have hcov : toM (propagateCov cfg.left m
      (fun j => matA (covInAt st.Rij cfg.eps (integrate cfg.eps cfg.g st.rot (fun i => fr (n + i)) m) (fun i => fr (n + i)) j))
      (fun j => noise cfg.eps (covInAt st.Rij cfg.eps (integrate cfg.eps cfg.g st.rot (fun i => fr (n + i)) m) (fun i => fr (n + i)) j))
      st.cov) = specCov cfg.eps cfg.g st0 fr (n + m) := by
    rw [hl, propagateCov_eq_rec, hrep.cov]
    unfold specCov
    rw [covRec_add]
    apply covRec_congr
    intro j hj
    have e : covInAt st.Rij cfg.eps (integrate cfg.eps cfg.g st.rot (fun i => fr (n + i)) m) (fun i => fr (n + i)) j
        = cinSpec cfg.eps cfg.g st0.rot st0.Rij fr (n + j) := by
      rw [covInAt_eq _ _ _ _ _ m j hj, hrot]
      exact cinSpec_shift cfg.eps cfg.g st0.rot st0.Rij st.Rij fr n j hrep.rij
    simp only [specA, specB, e, and_self]
  refine ⟨houts, ⟨_, call_cov cfg st _ m hp, hcov⟩, ?_⟩
  rw [call_st cfg st _ m hp hr]
  have hlast := houts (m - 1) (by omega)
  have e : n + (m - 1) + 1 = n + m := by omega
  rw [e] at hlast
  refine ⟨hlast, hcov, ?_⟩
  intro x
  have hq : qAt (integrate cfg.eps cfg.g st.rot (fun i => fr (n + i)) m).incR (m - 1 + 1)
      = seqR cfg.eps (fun i => fr (n + i)) m := by
    rw [integ_incR _ _ _ _ m (m - 1 + 1) (by omega), preSeq_dR]
    congr 1; omega
  have hra : rijAt st.Rij (integrate cfg.eps cfg.g st.rot (fun i => fr (n + i)) m) (m - 1)
      = rijMul st.Rij (seqR cfg.eps (fun i => fr (n + i)) m) := by
    unfold rijAt; rw [hq]; cases st.Rij <;> rfl
  show (rijAt st.Rij _ (m - 1)).mul x = _
  rw [hra, rijMul_mul, hrep.rij, seqR_shift, Quat.mul_assoc']

/-- any chunking: rotation outputs and covariance, no hypothesis on the quaternions -/
theorem runChunks_specRC (cfg : Cfg ℝ) (hr : cfg.reset = false) (hp : cfg.propCov = true) (hl : cfg.left = false)
    (st0 : State ℝ) (fr : Nat → Frame ℝ) (ms : List Nat) :
    ∀ (n : Nat) (st : State ℝ), RepRC cfg.eps cfg.g st0 fr n st → (∀ m ∈ ms, 1 ≤ m) →
      (concatOuts (runChunks cfg st (fun i => fr (n + i)) ms)).map Out.rot
        = (List.range ms.sum).map (fun j => st0.rot.mul (seqR cfg.eps fr (n + j + 1))) ∧
      (ms ≠ [] → ∃ r, (runChunks cfg st (fun i => fr (n + i)) ms).getLast? = some r ∧
        (∃ c, r.cov = some c ∧ toM c = specCov cfg.eps cfg.g st0 fr (n + ms.sum)) ∧
        RepRC cfg.eps cfg.g st0 fr (n + ms.sum) r.st) := by
  induction ms with
  | nil => intro n st _ _; simp [runChunks, concatOuts]
  | cons m ms ih =>
    intro n st hrep hms
    have hm : 1 ≤ m := hms m (by simp)
    simp only [List.sum_cons]
    obtain ⟨ho, hc, hrep'⟩ := call_repRC cfg hr hp hl st0 fr n st hrep m hm
    have hs : (call cfg st none (fun i => fr (n + i)) m).outs.size = m := by rw [call_outs, tab_size]
    have hfun : (fun j => (fun i => fr (n + i)) (m + j)) = fun i => fr (n + m + i) := by
      funext j; simp only [Nat.add_assoc]
    obtain ⟨ih1, ih2⟩ := ih (n + m) _ hrep' (fun x hx => hms x (by simp [hx]))
    constructor
    · simp only [runChunks, concatOuts, List.flatMap_cons, List.map_append]
      rw [hfun]
      have := ih1
      simp only [concatOuts] at this
      rw [this, toList_eq_map _ m hs, List.range_add, List.map_append, List.map_map, List.map_map]
      congr 1
      · apply List.map_congr_left
        intro j hj
        exact ho j (by simpa using hj)
      · apply List.map_congr_left
        intro j _
        simp only [Function.comp]
        congr 2; omega
    · intro _
      simp only [runChunks]
      rw [hfun]
      by_cases hnil : ms = []
      · subst hnil
        simp only [runChunks, List.getLast?_singleton, List.sum_nil, Nat.add_zero]
        exact ⟨_, rfl, hc, hrep'⟩
      · obtain ⟨r, hr1, hr2, hr3⟩ := ih2 hnil
        refine ⟨r, ?_, ?_, ?_⟩
        · rw [List.getLast?_cons_of_ne_nil]
          · exact hr1
          · intro h
            cases ms with
            | nil => exact hnil rfl
            | cons a b => simp [runChunks] at h
        · rw [← Nat.add_assoc]; exact hr2
        · rw [← Nat.add_assoc]; exact hr3

end PP.Imu
