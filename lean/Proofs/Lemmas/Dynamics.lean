import Proofs.Real
import Pose.Model.Dynamics
import Proofs.Lemmas.Batch
import Mathlib.Analysis.Calculus.Deriv.Mul
import Mathlib.Analysis.Calculus.Deriv.Add
import Mathlib.Analysis.Calculus.Deriv.Pow
import Mathlib.Analysis.Calculus.MeanValue
import Mathlib.Analysis.Calculus.Deriv.MeanValue
import Mathlib.Analysis.SpecialFunctions.Trigonometric.Deriv
import Mathlib.Analysis.SpecialFunctions.Trigonometric.Bounds
import Mathlib.Data.Matrix.Mul
import Mathlib.Algebra.BigOperators.Fin
import Mathlib.Algebra.BigOperators.Group.Finset.Basic
import Mathlib.Algebra.BigOperators.Intervals
import Mathlib.Algebra.Order.BigOperators.Group.Finset
import Mathlib.Tactic.Ring
import Mathlib.Tactic.Linarith
import Mathlib.Tactic.Positivity
import Mathlib.Tactic.GCongr
/-!
# Helper lemmas for C15 (dynamics)

1. clock step normal form; 2. scalars at `ℝ`; 3. list linear algebra vs `Matrix.mulVec`;
4. `mkEnv` / `jac` bookkeeping; 5. the NLS state machine; 6. second-order expansions (`SO`).
-/
namespace PP.Dyn
open PP

/-! ### 1. clock -/
theorem stepClock_eq (k : Kind) (c : Int) (e : Ev) :
    stepClock k c e = match setVal k e with
      | some v => v
      | none => c + (if isCall e then 1 else 0) := by
  cases e with
  | refpoint t =>
    cases t with
    | none => cases k <;> simp [stepClock, setVal, isCall]
    | some t => cases k <;> simp [stepClock, setVal, isCall]
  | _ => simp [stepClock, setVal, isCall]


/-! ### 2. scalars at ℝ -/
@[simp] theorem ofInt_real (i : Int) : (ofInt i : ℝ) = (i : ℝ) := by
  unfold ofInt
  by_cases h : i < 0
  · simp only [h, if_true, k_real]
    have : ((i.natAbs : ℕ) : ℤ) = -i := by omega
    have h2 : ((i.natAbs : ℕ) : ℝ) = ((-i : ℤ) : ℝ) := by rw [← this]; simp
    rw [h2]; simp
  · simp only [h, if_false, k_real]
    have : ((i.natAbs : ℕ) : ℤ) = i := by omega
    have h2 : ((i.natAbs : ℕ) : ℝ) = ((i : ℤ) : ℝ) := by rw [← this]; simp
    rw [h2]

theorem npow_real (x : ℝ) (n : ℕ) : npow x n = x ^ n := by
  induction n with
  | zero => simp [npow]
  | succ n ih => simp [npow, ih, pow_succ]

@[simp] theorem eval_zero (env : ℕ → ℝ) : Fn.zero.eval env = 0 := by simp [Fn.zero, Fn.eval]
@[simp] theorem eval_one (env : ℕ → ℝ) : Fn.one.eval env = 1 := by simp [Fn.one, Fn.eval]

theorem symdiff (e : Fn) (env : ℕ → ℝ) (v : ℕ) (s0 : ℝ) :
    HasDerivAt (fun s => e.eval (Function.update env v s))
      ((e.D v).eval (Function.update env v s0)) s0 := by
  induction e with
  | const s a b => simpa [Fn.eval, Fn.D] using hasDerivAt_const s0 _
  | var i =>
    by_cases h : i = v
    · subst h
      simpa [Fn.eval, Fn.D] using hasDerivAt_id' s0
    · simpa [Fn.eval, Fn.D, h, Function.update_of_ne h] using hasDerivAt_const s0 (env i)
  | add a b iha ihb => simp only [Fn.eval, Fn.D]; exact iha.fun_add ihb
  | sub a b iha ihb => simp only [Fn.eval, Fn.D]; exact iha.fun_sub ihb
  | mul a b iha ihb => simp only [Fn.eval, Fn.D]; exact iha.fun_mul ihb
  | neg a iha => simp only [Fn.eval, Fn.D]; exact iha.fun_neg
  | sin a iha => simp only [Fn.eval, Fn.D, sin_real, cos_real]; exact iha.sin
  | cos a iha =>
    have h := iha.cos
    simp only [Fn.eval, Fn.D, cos_real, sin_real]
    rw [show -(Real.sin (Fn.eval (Function.update env v s0) a) * Fn.eval (Function.update env v s0) (Fn.D v a))
        = -Real.sin (Fn.eval (Function.update env v s0) a) * Fn.eval (Function.update env v s0) (Fn.D v a) by ring]
    exact h
  | pow a n iha =>
    cases n with
    | zero => simpa [Fn.eval, Fn.D, npow] using hasDerivAt_const s0 (1:ℝ)
    | succ n =>
      have h := iha.fun_pow (n + 1)
      simp only [Fn.eval, Fn.D, npow_real]
      have e : (if false = true then -q (n + 1) 1 else (q (n + 1) 1 : ℝ)) = ((n + 1 : ℕ) : ℝ) := by simp
      rw [e]
      simpa using h

/-! ### 3. list linear algebra -/
theorem sum_real (a : List ℝ) : DVec.sum a = a.sum := by
  unfold DVec.sum
  rw [List.sum_eq_foldl]
  simp

theorem dot_real (a b : List ℝ) : DVec.dot a b = (List.zipWith (· * ·) a b).sum := by
  unfold DVec.dot; rw [sum_real]

theorem dot_cons (a : ℝ) (as : List ℝ) (b : ℝ) (bs : List ℝ) :
    DVec.dot (a :: as) (b :: bs) = a * b + DVec.dot as bs := by
  simp [dot_real]

theorem add_sub_cancel_lists : ∀ (f a b : List ℝ), a.length = f.length → b.length = f.length →
    DVec.add (DVec.add a b) (DVec.sub (DVec.sub f a) b) = f := by
  intro f
  induction f with
  | nil => intro a b ha hb; simp [DVec.add, DVec.sub]
  | cons x f ih =>
    intro a b ha hb
    match a, b, ha, hb with
    | y :: a, z :: b, ha, hb =>
      have := ih a b (by simpa using ha) (by simpa using hb)
      simp only [DVec.add, DVec.sub, List.zipWith_cons_cons] at this ⊢
      rw [this]; congr 1; ring

theorem bmv_length (M : DMat ℝ) (v : DVec ℝ) : (bmv M v).length = M.length := by
  simp [bmv, DMat.mulVec]

theorem jac_length (fs : List Fn) (lo n : ℕ) (env : ℕ → ℝ) : (jac fs lo n env).length = fs.length := by
  simp [jac]

theorem affine_reproduces' (fs gs : List Fn) (x u : DVec ℝ) (t : ℝ) :
    (linearize fs gs x u t).predict x u = (evalAll fs (mkEnv x u t), evalAll gs (mkEnv x u t)) := by
  unfold linearize linAt Lin.predict
  simp only
  congr 1
  · apply add_sub_cancel_lists <;> simp [bmv_length, jac_length, evalAll]
  · apply add_sub_cancel_lists <;> simp [bmv_length, jac_length, evalAll]

/-- matrix given as a function → rows -/
def rowsOf {n m : ℕ} (M : Matrix (Fin n) (Fin m) ℝ) : DMat ℝ := List.ofFn fun i => List.ofFn fun j => M i j

theorem dot_ofFn {m : ℕ} (a b : Fin m → ℝ) : DVec.dot (List.ofFn a) (List.ofFn b) = ∑ j, a j * b j := by
  induction m with
  | zero => simp [dot_real]
  | succ m ih =>
    rw [List.ofFn_succ, List.ofFn_succ, dot_cons, ih, Fin.sum_univ_succ]

theorem bmv_eq_mulVec {n m : ℕ} (M : Matrix (Fin n) (Fin m) ℝ) (v : Fin m → ℝ) :
    bmv (rowsOf M) (List.ofFn v) = List.ofFn (M.mulVec v) := by
  unfold bmv DMat.mulVec rowsOf
  rw [List.map_ofFn]
  congr 1
  funext i
  simp [Function.comp, dot_ofFn, Matrix.mulVec, dotProduct]

theorem zipWith_ofFn {β γ δ : Type} (f : β → γ → δ) {n : ℕ} (a : Fin n → β) (b : Fin n → γ) :
    List.zipWith f (List.ofFn a) (List.ofFn b) = List.ofFn (fun i => f (a i) (b i)) := by
  induction n with
  | zero => simp
  | succ n ih => simp [List.ofFn_succ, ih]

theorem add_ofFn {n : ℕ} (a b : Fin n → ℝ) : DVec.add (List.ofFn a) (List.ofFn b) = List.ofFn (a + b) := by
  unfold DVec.add; rw [zipWith_ofFn]; rfl

theorem bmvOK_rowsOf {n m : ℕ} (M : Matrix (Fin n) (Fin m) ℝ) (v : Fin m → ℝ) :
    bmvOK (rowsOf M) (List.ofFn v) = true := by
  simp [bmvOK, rowsOf, List.all_eq_true]

/-- a linear system given by mathematical matrices, `T` stacked time slices -/
noncomputable def mkSys (kind : Kind) (periodic : Bool) {T n m p : ℕ}
    (A : Fin T → Matrix (Fin n) (Fin n) ℝ) (B : Fin T → Matrix (Fin n) (Fin m) ℝ)
    (C : Fin T → Matrix (Fin p) (Fin n) ℝ) (D : Fin T → Matrix (Fin p) (Fin m) ℝ)
    (c1 : Option (Fin T → Fin n → ℝ)) (c2 : Option (Fin T → Fin p → ℝ)) : LinSys ℝ :=
  { kind := kind, periodic := periodic
    A := List.ofFn fun i => rowsOf (A i), B := List.ofFn fun i => rowsOf (B i)
    C := List.ofFn fun i => rowsOf (C i), D := List.ofFn fun i => rowsOf (D i)
    c1 := c1.map fun c => List.ofFn fun i => List.ofFn (c i)
    c2 := c2.map fun c => List.ofFn fun i => List.ofFn (c i) }

/-- optional constant term -/
def optC {n : ℕ} (c : Option (Fin n → ℝ)) : Fin n → ℝ := c.getD 0

theorem optAdd_ofFn {n : ℕ} (z : Fin n → ℝ) (c : Option (Fin n → ℝ)) :
    optAdd (List.ofFn z) (c.map fun c => List.ofFn c) = List.ofFn (z + optC c) := by
  cases c with
  | none => simp [optAdd, optC]
  | some c => simp [optAdd, optC, add_ofFn]

theorem affine_eq {n m : ℕ} {r : ℕ} (A : Matrix (Fin r) (Fin n) ℝ) (B : Matrix (Fin r) (Fin m) ℝ)
    (c : Option (Fin r → ℝ)) (x : Fin n → ℝ) (u : Fin m → ℝ) :
    affine (rowsOf A) (rowsOf B) (c.map fun c => List.ofFn c) (List.ofFn x) (List.ofFn u)
      = List.ofFn (A.mulVec x + B.mulVec u + optC c) := by
  unfold affine
  rw [bmv_eq_mulVec, bmv_eq_mulVec, add_ofFn, optAdd_ofFn]

/-- one forward of `mkSys` at a clock value that selects slice `i` -/
theorem linForward_mkSys (kind : Kind) (periodic : Bool) {T n m p : ℕ}
    (A : Fin T → Matrix (Fin n) (Fin n) ℝ) (B : Fin T → Matrix (Fin n) (Fin m) ℝ)
    (C : Fin T → Matrix (Fin p) (Fin n) ℝ) (D : Fin T → Matrix (Fin p) (Fin m) ℝ)
    (c1 : Option (Fin T → Fin n → ℝ)) (c2 : Option (Fin T → Fin p → ℝ))
    (t : Int) (i : Fin T) (hi : sliceIdx kind periodic T t = some i.val)
    (x : Fin n → ℝ) (u : Fin m → ℝ) :
    linForward (mkSys kind periodic A B C D c1 c2) t (List.ofFn x) (List.ofFn u) =
      some (List.ofFn ((A i).mulVec x + (B i).mulVec u + optC (c1.map (· i))),
            List.ofFn ((C i).mulVec x + (D i).mulVec u + optC (c2.map (· i)))) := by
  unfold linForward mkSys
  simp only [List.length_ofFn, hi]
  simp only [List.getElem?_ofFn, i.isLt, dite_true, bmvOK_rowsOf, Bool.and_self, if_true]
  have e1 : (Option.map (fun c => List.ofFn fun i => List.ofFn (c i)) c1).bind (fun l => l[i.val]?)
      = (c1.map (· i)).map fun c => List.ofFn c := by
    cases c1 <;> simp
  have e2 : (Option.map (fun c => List.ofFn fun i => List.ofFn (c i)) c2).bind (fun l => l[i.val]?)
      = (c2.map (· i)).map fun c => List.ofFn c := by
    cases c2 <;> simp
  rw [e1, e2, affine_eq, affine_eq]

/-! ### 4. `mkEnv`, `jac` -/
theorem mkEnv_state (x u : DVec ℝ) (t : ℝ) (j : ℕ) (hj : j < x.length) : mkEnv x u t j = x.getD j 0 := by
  simp [mkEnv, hj]

theorem mkEnv_input (x u : DVec ℝ) (t : ℝ) (j : ℕ) (hj : j < u.length) :
    mkEnv x u t (x.length + j) = u.getD j 0 := by
  simp [mkEnv, hj]

theorem mkEnv_time (x u : DVec ℝ) (t : ℝ) : mkEnv x u t (x.length + u.length) = t := by
  simp [mkEnv]

theorem mkEnv_set_state (x u : DVec ℝ) (t : ℝ) (j : ℕ) (hj : j < x.length) (s : ℝ) :
    mkEnv (x.set j s) u t = Function.update (mkEnv x u t) j s := by
  funext i
  by_cases h : i = j
  · subst h; simp [mkEnv, hj]
  · rw [Function.update_of_ne h]
    simp only [mkEnv, List.length_set]
    by_cases hi : i < x.length
    · simp [hi, List.getD_eq_getElem?_getD, Ne.symm h]
    · simp [hi]

theorem mkEnv_set_input (x u : DVec ℝ) (t : ℝ) (j : ℕ) (hj : j < u.length) (s : ℝ) :
    mkEnv x (u.set j s) t = Function.update (mkEnv x u t) (x.length + j) s := by
  funext i
  by_cases h : i = x.length + j
  · subst h; simp [mkEnv, hj]
  · rw [Function.update_of_ne h]
    simp only [mkEnv, List.length_set]
    by_cases hi : i < x.length
    · simp [hi]
    · by_cases hi2 : i < x.length + u.length
      · have : i - x.length ≠ j := by omega
        simp [hi, hi2, List.getD_eq_getElem?_getD, Ne.symm this]
      · simp [hi, hi2]

theorem jac_entry (fs : List Fn) (lo n : ℕ) (env : ℕ → ℝ) (i j : ℕ) (hi : i < fs.length) (hj : j < n) :
    ((jac fs lo n env).getD i []).getD j 0 = ((fs[i]).D (lo + j)).eval env := by
  simp [jac, List.getD_eq_getElem?_getD, hi, hj]

/-! ### 5. the NLS state machine -/
section
variable {α : Type} [Scalar α]
theorem runN_append (al ax pf : Bool) (fs gs : List Fn) (S : NState α) (a b : List (NEv α)) :
    runN al ax pf fs gs S (a ++ b) = runN al ax pf fs gs (runN al ax pf fs gs S a) b := by
  simp [runN, List.foldl_append]

theorem runN_cons (al ax pf : Bool) (fs gs : List Fn) (S : NState α) (e : NEv α) (es : List (NEv α)) :
    runN al ax pf fs gs S (e :: es) = runN al ax pf fs gs (stepN al ax pf fs gs S e).1 es := by
  simp [runN]

/-- events other than `set_refpoint` attempts leave the five `_ref_*` attributes alone — in-place updates of the caller's
tensors included when the reference point is a snapshot (`ax = false`), raising forwards included (either error-path
semantics) -/
theorem stepN_nonref (al ax pf : Bool) (fs gs : List Fn) (S : NState α) (e : NEv α) (h : e.isRef = false)
    (hp : ax = false ∨ e.isPoke = false) :
    let S' := (stepN al ax pf fs gs S e).1
    S'.refx = S.refx ∧ S'.refu = S.refu ∧ S'.reft = S.reft ∧ S'.reff = S.reff ∧ S'.refg = S.refg ∧
      S'.clock = stepClock .nls S.clock e.toEv := by
  cases e with
  | refpoint x u t => simp [NEv.isRef] at h
  | refRaise x u t => simp [NEv.isRef] at h
  | call x u => simp [stepN, NEv.toEv, stepClock]
  | reset t => simp [stepN, NEv.toEv, stepClock]
  | assign t => simp [stepN, NEv.toEv, stepClock]
  | poke tgt v =>
    rcases hp with rfl | hp
    · cases tgt <;> simp [stepN, pokeN, NEv.toEv, stepClock]
    · simp [NEv.isPoke] at hp
  | callRaise x u => cases pf <;> simp [stepN, NEv.toEv, stepClock]

theorem runN_nonref (al ax pf : Bool) (fs gs : List Fn) (post : List (NEv α)) :
    ∀ (S : NState α), (∀ e ∈ post, e.isRef = false) → (ax = false ∨ ∀ e ∈ post, e.isPoke = false) →
    let S' := runN al ax pf fs gs S post
    S'.refx = S.refx ∧ S'.refu = S.refu ∧ S'.reft = S.reft ∧ S'.reff = S.reff ∧ S'.refg = S.refg ∧
      S'.clock = runClock .nls S.clock (post.map NEv.toEv) := by
  induction post with
  | nil => intro S _ _; simp [runN, runClock]
  | cons e es ih =>
    intro S h hp
    have hp1 : ax = false ∨ e.isPoke = false := hp.imp id (fun q => q e (by simp))
    have hp2 : ax = false ∨ ∀ e' ∈ es, e'.isPoke = false := hp.imp id (fun q e' he' => q e' (by simp [he']))
    have h1 := stepN_nonref al ax pf fs gs S e (h e (by simp)) hp1
    have h2 := ih (stepN al ax pf fs gs S e).1 (fun e' he' => h e' (by simp [he'])) hp2
    simp only [runN_cons]
    simp only at h1 h2 ⊢
    obtain ⟨a1, a2, a3, a4, a5, a6⟩ := h1
    obtain ⟨b1, b2, b3, b4, b5, b6⟩ := h2
    refine ⟨b1.trans a1, b2.trans a2, b3.trans a3, b4.trans a4, b5.trans a5, ?_⟩
    rw [b6, a6]; simp [runClock]

/-- the state right after a *successful* `set_refpoint` -/
theorem setRefpoint_ok (al pf : Bool) (fs gs : List Fn) (S : NState α) (x? u? : Option (DVec α)) (tr : TRef α)
    (x u : DVec α) (hx : orLast x? (S.last.map Prod.fst) = some x) (hu : orLast u? (S.last.map Prod.snd) = some u) :
    let S' := (setRefpoint al fs gs S x? u? tr pf).1
    let rt : RefT α := refTOf al S.clock tr
    S'.refx = some x ∧ S'.refu = some u ∧ S'.reft = some rt ∧
      S'.reff = some (evalAll fs (mkEnv x u (rt.value S.clock))) ∧
      S'.refg = some (evalAll gs (mkEnv x u (rt.value S.clock))) ∧ S'.clock = S.clock := by
  simp [setRefpoint, hx, hu]

end

/-! ### 6. second-order expansions -/
theorem sin_second_order (a h : ℝ) : |Real.sin (a + h) - Real.sin a - h * Real.cos a| ≤ h ^ 2 := by
  have hf : ∀ s ∈ Set.Icc (-|h|) |h|, HasDerivWithinAt (fun s => Real.sin (a + s) - s * Real.cos a)
      (Real.cos (a + s) - Real.cos a) (Set.Icc (-|h|) |h|) s := by
    intro s _
    apply HasDerivAt.hasDerivWithinAt
    have h1 : HasDerivAt (fun s => Real.sin (a + s)) (Real.cos (a + s)) s := by
      have := ((hasDerivAt_id' s).const_add a).sin
      simpa using this
    have h2 : HasDerivAt (fun s => s * Real.cos a) (Real.cos a) s := by
      simpa using (hasDerivAt_id' s).mul_const (Real.cos a)
    exact h1.fun_sub h2
  have bound : ∀ s ∈ Set.Icc (-|h|) |h|, ‖Real.cos (a + s) - Real.cos a‖ ≤ |h| := by
    intro s hs
    rw [Real.norm_eq_abs]
    calc |Real.cos (a + s) - Real.cos a| ≤ |a + s - a| := Real.abs_cos_sub_cos_le _ _
      _ = |s| := by ring_nf
      _ ≤ |h| := abs_le.2 hs
  have key := (convex_Icc (-|h|) |h|).norm_image_sub_le_of_norm_hasDerivWithin_le hf bound
    (x := 0) (y := h) (by simp) (by simp [le_abs_self, neg_le, neg_le_abs h])
  simp only [Real.norm_eq_abs, sub_zero, add_zero, zero_mul] at key
  calc |Real.sin (a + h) - Real.sin a - h * Real.cos a|
      = |Real.sin (a + h) - h * Real.cos a - Real.sin a| := by ring_nf
    _ ≤ |h| * |h| := key
    _ = h ^ 2 := by rw [← abs_mul, ← pow_two, abs_of_nonneg (sq_nonneg h)]

theorem cos_second_order (a h : ℝ) : |Real.cos (a + h) - Real.cos a + h * Real.sin a| ≤ h ^ 2 := by
  have hf : ∀ s ∈ Set.Icc (-|h|) |h|, HasDerivWithinAt (fun s => Real.cos (a + s) + s * Real.sin a)
      (-Real.sin (a + s) + Real.sin a) (Set.Icc (-|h|) |h|) s := by
    intro s _
    apply HasDerivAt.hasDerivWithinAt
    have h1 : HasDerivAt (fun s => Real.cos (a + s)) (-Real.sin (a + s)) s := by
      have := ((hasDerivAt_id' s).const_add a).cos
      simpa using this
    have h2 : HasDerivAt (fun s => s * Real.sin a) (Real.sin a) s := by
      simpa using (hasDerivAt_id' s).mul_const (Real.sin a)
    exact h1.fun_add h2
  have bound : ∀ s ∈ Set.Icc (-|h|) |h|, ‖-Real.sin (a + s) + Real.sin a‖ ≤ |h| := by
    intro s hs
    rw [Real.norm_eq_abs]
    calc |-Real.sin (a + s) + Real.sin a| = |Real.sin a - Real.sin (a + s)| := by ring_nf
      _ ≤ |a - (a + s)| := Real.abs_sin_sub_sin_le _ _
      _ = |s| := by rw [show a - (a + s) = -s by ring, abs_neg]
      _ ≤ |h| := abs_le.2 hs
  have key := (convex_Icc (-|h|) |h|).norm_image_sub_le_of_norm_hasDerivWithin_le hf bound
    (x := 0) (y := h) (by simp) (by simp [le_abs_self, neg_le, neg_le_abs h])
  simp only [Real.norm_eq_abs, sub_zero, add_zero, zero_mul] at key
  calc |Real.cos (a + h) - Real.cos a + h * Real.sin a|
      = |Real.cos (a + h) + h * Real.sin a - Real.cos a| := by ring_nf
    _ ≤ |h| * |h| := key
    _ = h ^ 2 := by rw [← abs_mul, ← pow_two, abs_of_nonneg (sq_nonneg h)]

/-- size of a perturbation on the variable set `vs`: `Σ_{v ∈ vs} |d v|` -/
def nrm (vs : Finset ℕ) (d : ℕ → ℝ) : ℝ := ∑ v ∈ vs, |d v|

theorem nrm_nonneg (vs : Finset ℕ) (d : ℕ → ℝ) : 0 ≤ nrm vs d :=
  Finset.sum_nonneg fun _ _ => abs_nonneg _

/-- `F` has the second-order expansion `F (p + d) = F p + L d + O(|d|²)` for perturbations `d` supported
on `vs`, with `L` bounded by a multiple of `|d|`. -/
def SO (vs : Finset ℕ) (p : ℕ → ℝ) (F L : (ℕ → ℝ) → ℝ) : Prop :=
  ∃ K M : ℝ, 0 ≤ K ∧ 0 ≤ M ∧ ∀ d : ℕ → ℝ, (∀ i, i ∉ vs → d i = 0) → nrm vs d ≤ 1 →
    |L d| ≤ M * nrm vs d ∧ |F (fun i => p i + d i) - F p - L d| ≤ K * nrm vs d ^ 2

theorem SO.congr {vs p F L L'} (h : SO vs p F L) (e : ∀ d : ℕ → ℝ, (∀ i, i ∉ vs → d i = 0) → L d = L' d) :
    SO vs p F L' := by
  obtain ⟨K, M, hK, hM, H⟩ := h
  refine ⟨K, M, hK, hM, fun d hd hn => ?_⟩
  rw [← e d hd]; exact H d hd hn

theorem SO_const (vs p) (c : ℝ) : SO vs p (fun _ => c) (fun _ => 0) :=
  ⟨0, 0, le_refl _, le_refl _, fun d _ _ => by simp⟩

theorem SO_var (vs : Finset ℕ) (p : ℕ → ℝ) (i : ℕ) : SO vs p (fun env => env i) (fun d => d i) := by
  refine ⟨0, 1, le_refl _, zero_le_one, fun d hd _ => ⟨?_, by simp⟩⟩
  rw [one_mul]
  show |d i| ≤ nrm vs d
  by_cases hi : i ∈ vs
  · exact Finset.single_le_sum (f := fun v => |d v|) (fun _ _ => abs_nonneg _) hi
  · rw [hd i hi, abs_zero]; exact nrm_nonneg vs d

theorem SO_add {vs p F G LF LG} (hF : SO vs p F LF) (hG : SO vs p G LG) :
    SO vs p (fun e => F e + G e) (fun d => LF d + LG d) := by
  obtain ⟨K1, M1, hK1, hM1, H1⟩ := hF
  obtain ⟨K2, M2, hK2, hM2, H2⟩ := hG
  refine ⟨K1 + K2, M1 + M2, by positivity, by positivity, fun d hd hn => ?_⟩
  obtain ⟨a1, b1⟩ := H1 d hd hn
  obtain ⟨a2, b2⟩ := H2 d hd hn
  constructor
  · calc |LF d + LG d| ≤ |LF d| + |LG d| := abs_add_le _ _
      _ ≤ (M1 + M2) * nrm vs d := by linarith
  · calc |F (fun i => p i + d i) + G (fun i => p i + d i) - (F p + G p) - (LF d + LG d)|
        = |(F (fun i => p i + d i) - F p - LF d) + (G (fun i => p i + d i) - G p - LG d)| := by ring_nf
      _ ≤ _ := abs_add_le _ _
      _ ≤ (K1 + K2) * nrm vs d ^ 2 := by linarith

theorem SO_neg {vs p F LF} (hF : SO vs p F LF) : SO vs p (fun e => -F e) (fun d => -LF d) := by
  obtain ⟨K1, M1, hK1, hM1, H1⟩ := hF
  refine ⟨K1, M1, hK1, hM1, fun d hd hn => ?_⟩
  obtain ⟨a1, b1⟩ := H1 d hd hn
  constructor
  · rwa [abs_neg]
  · calc |-F (fun i => p i + d i) - -F p - -LF d| = |-(F (fun i => p i + d i) - F p - LF d)| := by ring_nf
      _ ≤ _ := by rwa [abs_neg]

theorem SO_sub {vs p F G LF LG} (hF : SO vs p F LF) (hG : SO vs p G LG) :
    SO vs p (fun e => F e - G e) (fun d => LF d - LG d) := by
  have := SO_add hF (SO_neg hG)
  simpa [sub_eq_add_neg] using this

theorem SO_mul {vs p F G LF LG} (hF : SO vs p F LF) (hG : SO vs p G LG) :
    SO vs p (fun e => F e * G e) (fun d => LF d * G p + F p * LG d) := by
  obtain ⟨K1, M1, hK1, hM1, H1⟩ := hF
  obtain ⟨K2, M2, hK2, hM2, H2⟩ := hG
  refine ⟨K1 * (|G p| + M2 + K2) + |F p| * K2 + M1 * M2 + M1 * K2, M1 * |G p| + |F p| * M2,
    by positivity, by positivity, fun d hd hn => ?_⟩
  obtain ⟨a1, b1⟩ := H1 d hd hn
  obtain ⟨a2, b2⟩ := H2 d hd hn
  have n0 := nrm_nonneg vs d
  set n := nrm vs d with hn_def
  set RA := F (fun i => p i + d i) - F p - LF d with hRA
  set RB := G (fun i => p i + d i) - G p - LG d with hRB
  have n2 : n ^ 2 ≤ n := by nlinarith
  constructor
  · calc |LF d * G p + F p * LG d| ≤ |LF d * G p| + |F p * LG d| := abs_add_le _ _
      _ = |LF d| * |G p| + |F p| * |LG d| := by rw [abs_mul, abs_mul]
      _ ≤ (M1 * n) * |G p| + |F p| * (M2 * n) := by gcongr
      _ = (M1 * |G p| + |F p| * M2) * n := by ring
  · have hB' : |G (fun i => p i + d i)| ≤ |G p| + M2 + K2 := by
      have : G (fun i => p i + d i) = G p + LG d + RB := by rw [hRB]; ring
      rw [this]
      calc |G p + LG d + RB| ≤ |G p + LG d| + |RB| := abs_add_le _ _
        _ ≤ |G p| + |LG d| + |RB| := by gcongr; exact abs_add_le _ _
        _ ≤ |G p| + M2 * n + K2 * n ^ 2 := by gcongr
        _ ≤ |G p| + M2 * 1 + K2 * 1 := by gcongr; nlinarith
        _ = |G p| + M2 + K2 := by ring
    have e : F (fun i => p i + d i) * G (fun i => p i + d i) - F p * G p - (LF d * G p + F p * LG d)
        = RA * G (fun i => p i + d i) + F p * RB + LF d * LG d + LF d * RB := by
      rw [hRA, hRB]; ring
    rw [e]
    calc |RA * G (fun i => p i + d i) + F p * RB + LF d * LG d + LF d * RB|
        ≤ |RA * G (fun i => p i + d i)| + |F p * RB| + |LF d * LG d| + |LF d * RB| := by
          refine (abs_add_le _ _).trans ?_
          gcongr
          refine (abs_add_le _ _).trans ?_
          gcongr
          exact abs_add_le _ _
      _ = |RA| * |G (fun i => p i + d i)| + |F p| * |RB| + |LF d| * |LG d| + |LF d| * |RB| := by
          simp only [abs_mul]
      _ ≤ (K1 * n ^ 2) * (|G p| + M2 + K2) + |F p| * (K2 * n ^ 2) + (M1 * n) * (M2 * n)
            + (M1 * n) * (K2 * n ^ 2) := by gcongr
      _ ≤ (K1 * n ^ 2) * (|G p| + M2 + K2) + |F p| * (K2 * n ^ 2) + (M1 * n) * (M2 * n)
            + (M1 * 1) * (K2 * n ^ 2) := by gcongr
      _ = (K1 * (|G p| + M2 + K2) + |F p| * K2 + M1 * M2 + M1 * K2) * n ^ 2 := by ring

/-- composition with a function `φ` that has a second-order expansion with constant 1 -/
theorem SO_comp {vs p G LG} (φ φ' : ℝ → ℝ) (hφ : ∀ a h, |φ (a + h) - φ a - h * φ' a| ≤ h ^ 2)
    (hG : SO vs p G LG) : SO vs p (fun e => φ (G e)) (fun d => φ' (G p) * LG d) := by
  obtain ⟨K, M, hK, hM, H⟩ := hG
  refine ⟨(M + K) ^ 2 + |φ' (G p)| * K, |φ' (G p)| * M, by positivity, by positivity, fun d hd hn => ?_⟩
  obtain ⟨a1, b1⟩ := H d hd hn
  have n0 := nrm_nonneg vs d
  set n := nrm vs d with hn_def
  set RB := G (fun i => p i + d i) - G p - LG d with hRB
  have n2 : n ^ 2 ≤ n := by nlinarith
  constructor
  · show |φ' (G p) * LG d| ≤ _
    rw [abs_mul, mul_assoc]; gcongr
  · set h := LG d + RB with hh
    have hG' : G (fun i => p i + d i) = G p + h := by rw [hh, hRB]; ring
    have hh_le : |h| ≤ (M + K) * n := by
      calc |h| ≤ |LG d| + |RB| := abs_add_le _ _
        _ ≤ M * n + K * n ^ 2 := by gcongr
        _ ≤ M * n + K * n := by gcongr
        _ = (M + K) * n := by ring
    have hsq : h ^ 2 ≤ ((M + K) * n) ^ 2 := by
      rw [← sq_abs h]; gcongr
    show |φ (G fun i => p i + d i) - φ (G p) - φ' (G p) * LG d| ≤ _
    rw [hG']
    calc |φ (G p + h) - φ (G p) - φ' (G p) * LG d|
        = |(φ (G p + h) - φ (G p) - h * φ' (G p)) + φ' (G p) * RB| := by rw [hh]; ring_nf
      _ ≤ |φ (G p + h) - φ (G p) - h * φ' (G p)| + |φ' (G p) * RB| := abs_add_le _ _
      _ ≤ h ^ 2 + |φ' (G p)| * |RB| := by rw [abs_mul]; gcongr; exact hφ _ _
      _ ≤ ((M + K) * n) ^ 2 + |φ' (G p)| * (K * n ^ 2) := by gcongr
      _ = ((M + K) ^ 2 + |φ' (G p)| * K) * n ^ 2 := by ring

theorem SO_sin {vs p G LG} (hG : SO vs p G LG) :
    SO vs p (fun e => Real.sin (G e)) (fun d => Real.cos (G p) * LG d) :=
  SO_comp Real.sin Real.cos sin_second_order hG

theorem SO_cos {vs p G LG} (hG : SO vs p G LG) :
    SO vs p (fun e => Real.cos (G e)) (fun d => -Real.sin (G p) * LG d) :=
  SO_comp Real.cos (fun a => -Real.sin a)
    (fun a h => by have := cos_second_order a h; rwa [show Real.cos (a + h) - Real.cos a - h * -Real.sin a
      = Real.cos (a + h) - Real.cos a + h * Real.sin a by ring]) hG

theorem SO_pow {vs p G LG} (hG : SO vs p G LG) (n : ℕ) :
    SO vs p (fun e => G e ^ n) (fun d => (n : ℝ) * G p ^ (n - 1) * LG d) := by
  induction n with
  | zero => simpa using SO_const vs p 1
  | succ n ih =>
    have h := SO_mul ih hG
    have h' : SO vs p (fun e => G e ^ (n + 1)) (fun d => ↑n * G p ^ (n - 1) * LG d * G p + G p ^ n * LG d) := by
      simpa [pow_succ] using h
    refine h'.congr fun d _ => ?_
    cases n with
    | zero => simp
    | succ m => simp [pow_succ]; ring

/-- the linear part built from the symbolic partials -/
noncomputable def linPart (vs : Finset ℕ) (p : ℕ → ℝ) (e : Fn) (d : ℕ → ℝ) : ℝ :=
  ∑ v ∈ vs, (e.D v).eval p * d v

theorem SO_Fn (vs : Finset ℕ) (p : ℕ → ℝ) (e : Fn) :
    SO vs p (fun env => e.eval env) (linPart vs p e) := by
  induction e with
  | const s a b =>
    refine (SO_const vs p _).congr fun d _ => ?_
    simp [linPart, Fn.D]
  | var i =>
    refine (SO_var vs p i).congr fun d hd => ?_
    simp only [linPart, Fn.D]
    by_cases hi : i ∈ vs
    · rw [Finset.sum_eq_single i]
      · simp
      · intro b _ hb; simp [Ne.symm hb]
      · intro h; exact absurd hi h
    · rw [hd i hi, Finset.sum_eq_zero]
      intro v hv
      have : i ≠ v := fun h => hi (h ▸ hv)
      simp [this]
  | add a b iha ihb =>
    refine (SO_add iha ihb).congr fun d _ => ?_
    simp only [linPart, Fn.D, Fn.eval, ← Finset.sum_add_distrib]
    exact Finset.sum_congr rfl fun v _ => by ring
  | sub a b iha ihb =>
    refine (SO_sub iha ihb).congr fun d _ => ?_
    simp only [linPart, Fn.D, Fn.eval, ← Finset.sum_sub_distrib]
    exact Finset.sum_congr rfl fun v _ => by ring
  | mul a b iha ihb =>
    refine (SO_mul iha ihb).congr fun d _ => ?_
    simp only [linPart, Fn.D, Fn.eval, Finset.sum_mul, Finset.mul_sum, ← Finset.sum_add_distrib]
    exact Finset.sum_congr rfl fun v _ => by ring
  | neg a iha =>
    refine (SO_neg iha).congr fun d _ => ?_
    simp only [linPart, Fn.D, Fn.eval, ← Finset.sum_neg_distrib]
    exact Finset.sum_congr rfl fun v _ => by ring
  | sin a iha =>
    simp only [Fn.eval, sin_real]
    refine (SO_sin iha).congr fun d _ => ?_
    simp only [linPart, Fn.D, Fn.eval, Finset.mul_sum, cos_real]
    exact Finset.sum_congr rfl fun v _ => by ring
  | cos a iha =>
    simp only [Fn.eval, cos_real]
    refine (SO_cos iha).congr fun d _ => ?_
    simp only [linPart, Fn.D, Fn.eval, Finset.mul_sum, sin_real]
    exact Finset.sum_congr rfl fun v _ => by ring
  | pow a n iha =>
    simp only [Fn.eval, npow_real]
    refine (SO_pow iha n).congr fun d _ => ?_
    cases n with
    | zero => simp [linPart, Fn.D]
    | succ m =>
      simp only [linPart, Fn.D, Fn.eval, Finset.mul_sum, npow_real, Nat.add_sub_cancel]
      refine Finset.sum_congr rfl fun v _ => ?_
      simp
      ring

theorem getD_zipWith (f : ℝ → ℝ → ℝ) (a b : List ℝ) (i : ℕ) (ha : i < a.length) (hb : i < b.length) :
    (List.zipWith f a b).getD i 0 = f (a.getD i 0) (b.getD i 0) := by
  simp [List.getD_eq_getElem?_getD, ha, hb]

theorem bmv_getD (M : DMat ℝ) (v : DVec ℝ) (i : ℕ) (hi : i < M.length) :
    (bmv M v).getD i 0 = DVec.dot (M.getD i []) v := by
  simp [bmv, DMat.mulVec, List.getD_eq_getElem?_getD, hi]

theorem dot_map_range : ∀ (x : List ℝ) (g : ℕ → ℝ),
    DVec.dot ((List.range x.length).map g) x = ∑ j ∈ Finset.range x.length, g j * x.getD j 0 := by
  intro x
  induction x with
  | nil => intro g; simp [dot_real]
  | cons a as ih =>
    intro g
    rw [List.length_cons, List.range_succ_eq_map, List.map_cons, List.map_map, dot_cons, ih,
      Finset.sum_range_succ']
    simp [add_comm]

theorem jac_row (fs : List Fn) (lo n : ℕ) (env : ℕ → ℝ) (i : ℕ) (hi : i < fs.length) :
    (jac fs lo n env).getD i [] = (List.range n).map fun j => ((fs[i]).D (lo + j)).eval env := by
  simp [jac, List.getD_eq_getElem?_getD, hi]

/-- component `i` of the affine model at `(x', u')` = value at the reference point + the symbolic
first-order part applied to the displacement -/
theorem predict_component (fs gs : List Fn) (x u : DVec ℝ) (t : ℝ) (x' u' : DVec ℝ)
    (hx : x'.length = x.length) (hu : u'.length = u.length) (i : ℕ) (hi : i < fs.length) :
    ((linearize fs gs x u t).predict x' u').1.getD i 0
      = (fs[i]).eval (mkEnv x u t)
        + linPart (Finset.range (x.length + u.length)) (mkEnv x u t) fs[i]
            (fun v => mkEnv x' u' t v - mkEnv x u t v) := by
  unfold linearize linAt Lin.predict
  simp only
  have lA : ∀ w : DVec ℝ, (bmv (jac fs 0 x.length (mkEnv x u t)) w).length = fs.length := by
    intro w; simp [bmv, DMat.mulVec, jac]
  have lB : ∀ w : DVec ℝ, (bmv (jac fs x.length u.length (mkEnv x u t)) w).length = fs.length := by
    intro w; simp [bmv, DMat.mulVec, jac]
  have lf : (evalAll fs (mkEnv x u t)).length = fs.length := by simp [evalAll]
  unfold DVec.add DVec.sub
  rw [getD_zipWith _ _ _ _ (by simp [lA, lB, hi]) (by simp [lA, lB, lf, hi]),
    getD_zipWith _ _ _ _ (by simp [lA, hi]) (by simp [lB, hi]),
    getD_zipWith _ _ _ _ (by simp [lA, lf, hi]) (by simp [lB, hi]),
    getD_zipWith _ _ _ _ (by simp [lf, hi]) (by simp [lA, hi])]
  rw [bmv_getD _ _ _ (by simp [jac, hi]), bmv_getD _ _ _ (by simp [jac, hi]),
    bmv_getD _ _ _ (by simp [jac, hi]), bmv_getD _ _ _ (by simp [jac, hi]), jac_row _ _ _ _ _ hi,
    jac_row _ _ _ _ _ hi]
  have e1 := dot_map_range x' (fun j => ((fs[i]).D (0 + j)).eval (mkEnv x u t))
  have e2 := dot_map_range x (fun j => ((fs[i]).D (0 + j)).eval (mkEnv x u t))
  have e3 := dot_map_range u' (fun j => ((fs[i]).D (x.length + j)).eval (mkEnv x u t))
  have e4 := dot_map_range u (fun j => ((fs[i]).D (x.length + j)).eval (mkEnv x u t))
  rw [hx] at e1; rw [hu] at e3
  rw [e1, e2, e3, e4]
  have ef : (evalAll fs (mkEnv x u t)).getD i 0 = (fs[i]).eval (mkEnv x u t) := by
    simp [evalAll, List.getD_eq_getElem?_getD, hi]
  rw [ef]
  unfold linPart
  rw [Finset.sum_range_add]
  have s1 : ∑ j ∈ Finset.range x.length, ((fs[i]).D j).eval (mkEnv x u t) * (mkEnv x' u' t j - mkEnv x u t j)
      = ∑ j ∈ Finset.range x.length, ((fs[i]).D (0 + j)).eval (mkEnv x u t) * x'.getD j 0
        - ∑ j ∈ Finset.range x.length, ((fs[i]).D (0 + j)).eval (mkEnv x u t) * x.getD j 0 := by
    rw [← Finset.sum_sub_distrib]
    refine Finset.sum_congr rfl fun j hj => ?_
    have hj' : j < x.length := Finset.mem_range.1 hj
    rw [mkEnv_state x u t j hj', mkEnv_state x' u' t j (by omega), Nat.zero_add]; ring
  have s2 : ∑ j ∈ Finset.range u.length,
        ((fs[i]).D (x.length + j)).eval (mkEnv x u t) * (mkEnv x' u' t (x.length + j) - mkEnv x u t (x.length + j))
      = ∑ j ∈ Finset.range u.length, ((fs[i]).D (x.length + j)).eval (mkEnv x u t) * u'.getD j 0
        - ∑ j ∈ Finset.range u.length, ((fs[i]).D (x.length + j)).eval (mkEnv x u t) * u.getD j 0 := by
    rw [← Finset.sum_sub_distrib]
    refine Finset.sum_congr rfl fun j hj => ?_
    have hj' : j < u.length := Finset.mem_range.1 hj
    have := mkEnv_input x' u' t j (by omega)
    rw [hx] at this
    rw [mkEnv_input x u t j hj', this]; ring
  rw [s1, s2]; ring

/-! ### 7. histories, trajectories, distances -/
/-- the clock events a linear-system history amounts to -/
noncomputable def absEvs (S : LinSys ℝ) (c : Int) : List (LEv ℝ) → List Ev
  | [] => []
  | e :: es => e.toEv S c :: absEvs S (stepClock S.kind c (e.toEv S c)) es

/-- specification trajectory: step `i` runs `step` at time `c + i` -/
def trajSpec {n m p : ℕ} (step : Int → (Fin n → ℝ) → (Fin m → ℝ) → (Fin n → ℝ) × (Fin p → ℝ))
    (c : Int) (x : Fin n → ℝ) : List (Fin m → ℝ) → List ((Fin n → ℝ) × (Fin p → ℝ))
  | [] => []
  | u :: us => step c x u :: trajSpec step (c + 1) (step c x u).1 us

/-- state before step `i` of the specification trajectory -/
def trajState {n m p : ℕ} (step : Int → (Fin n → ℝ) → (Fin m → ℝ) → (Fin n → ℝ) × (Fin p → ℝ))
    (c : Int) (x : Fin n → ℝ) : List (Fin m → ℝ) → ℕ → (Fin n → ℝ)
  | _, 0 => x
  | [], _ + 1 => x
  | u :: us, i + 1 => trajState step (c + 1) (step c x u).1 us i

theorem map_range_eq_ofFn {β : Type} (n : ℕ) (g : ℕ → β) : (List.range n).map g = List.ofFn (fun j : Fin n => g j) := by
  apply List.ext_getElem <;> simp

theorem ncols_rowsOf {n m : ℕ} (M : Matrix (Fin (n + 1)) (Fin m) ℝ) : DMat.ncols (rowsOf M) = m := by
  simp [rowsOf, DMat.ncols, List.ofFn_succ]

theorem col_rowsOf {n m : ℕ} (M : Matrix (Fin n) (Fin m) ℝ) (j : Fin m) :
    DMat.col (rowsOf M) j = List.ofFn fun i => M i j := by
  simp only [DMat.col, rowsOf, List.map_ofFn]
  congr 1; funext i
  simp [List.getD_eq_getElem?_getD]

theorem transpose_rowsOf {n m : ℕ} (M : Matrix (Fin (n + 1)) (Fin m) ℝ) :
    DMat.transpose (rowsOf M) = rowsOf M.transpose := by
  unfold DMat.transpose
  rw [ncols_rowsOf, map_range_eq_ofFn]
  unfold rowsOf
  congr 1; funext j
  exact col_rowsOf M j

theorem vecMul_rowsOf {n m : ℕ} (l : Fin n → ℝ) (M : Matrix (Fin n) (Fin m) ℝ) (r : Fin m → ℝ) :
    DVec.dot (DMat.vecMul (List.ofFn l) (rowsOf M)) (List.ofFn r) = Matrix.vecMul l M ⬝ᵥ r := by
  cases n with
  | zero =>
    simp [DMat.vecMul, rowsOf, DMat.transpose, DMat.ncols, dot_real, Matrix.vecMul, dotProduct]
  | succ n =>
    unfold DMat.vecMul
    rw [transpose_rowsOf]
    unfold rowsOf
    rw [List.map_ofFn, dot_ofFn]
    simp only [Function.comp, dot_ofFn, Matrix.vecMul, dotProduct, Matrix.transpose_apply]


/-- distance of `(x', u')` from the reference point `(x, u)`: `Σ_j |x'_j − x_j| + Σ_j |u'_j − u_j|` -/
noncomputable def dist1 (x u : DVec ℝ) (t : ℝ) (x' u' : DVec ℝ) : ℝ :=
  nrm (Finset.range (x.length + u.length)) (fun v => mkEnv x' u' t v - mkEnv x u t v)

theorem mkEnv_diff_support (x u : DVec ℝ) (t : ℝ) (x' u' : DVec ℝ)
    (hx : x'.length = x.length) (hu : u'.length = u.length) :
    ∀ i, i ∉ Finset.range (x.length + u.length) → mkEnv x' u' t i - mkEnv x u t i = 0 := by
  intro i hi
  have hi' : ¬ i < x.length + u.length := by simpa using hi
  have h1 : ¬ i < x.length := by omega
  simp [mkEnv, hx, hu, hi', h1]

theorem dist1_eq (x u : DVec ℝ) (t : ℝ) (x' u' : DVec ℝ)
    (hx : x'.length = x.length) (hu : u'.length = u.length) :
    dist1 x u t x' u' = ∑ j ∈ Finset.range x.length, |x'.getD j 0 - x.getD j 0|
      + ∑ j ∈ Finset.range u.length, |u'.getD j 0 - u.getD j 0| := by
  unfold dist1 nrm
  rw [Finset.sum_range_add]
  congr 1
  · refine Finset.sum_congr rfl fun j hj => ?_
    have hj' : j < x.length := Finset.mem_range.1 hj
    show |mkEnv x' u' t j - mkEnv x u t j| = _
    rw [mkEnv_state x u t j hj', mkEnv_state x' u' t j (by omega)]
  · refine Finset.sum_congr rfl fun j hj => ?_
    have hj' : j < u.length := Finset.mem_range.1 hj
    have := mkEnv_input x' u' t j (by omega)
    rw [hx] at this
    show |mkEnv x' u' t (x.length + j) - mkEnv x u t (x.length + j)| = _
    rw [mkEnv_input x u t j hj', this]

/-! ### 8. explicit constants of the second-order expansion -/
/-- Taylor with the sharp constant, `h ≥ 0` -/
theorem sin_second_order_half_nonneg (a h : ℝ) (hh : 0 ≤ h) :
    |Real.sin (a + h) - Real.sin a - h * Real.cos a| ≤ h ^ 2 / 2 := by
  have hd : ∀ s : ℝ, HasDerivAt (fun s => Real.sin (a + s) - s * Real.cos a) (Real.cos (a + s) - Real.cos a) s := by
    intro s
    have h1 : HasDerivAt (fun s => Real.sin (a + s)) (Real.cos (a + s)) s := by
      simpa using ((hasDerivAt_id' s).const_add a).sin
    have h2 : HasDerivAt (fun s => s * Real.cos a) (Real.cos a) s := by
      simpa using (hasDerivAt_id' s).mul_const (Real.cos a)
    exact h1.fun_sub h2
  have hsq : ∀ s : ℝ, HasDerivAt (fun s : ℝ => s ^ 2 / 2) s s := by
    intro s
    have := ((hasDerivAt_id' s).fun_pow 2).div_const 2
    simpa using this
  -- upper: g = ψ - s²/2 is antitone on [0,h]
  have up : Real.sin (a + h) - h * Real.cos a - h ^ 2 / 2 ≤ Real.sin a := by
    have hg : ∀ s : ℝ, HasDerivAt (fun s => Real.sin (a + s) - s * Real.cos a - s ^ 2 / 2)
        (Real.cos (a + s) - Real.cos a - s) s := fun s => (hd s).fun_sub (hsq s)
    have anti := antitoneOn_of_deriv_nonpos (convex_Icc (0 : ℝ) h)
      (f := fun s => Real.sin (a + s) - s * Real.cos a - s ^ 2 / 2)
      (fun s _ => (hg s).continuousAt.continuousWithinAt)
      (fun s _ => (hg s).differentiableAt.differentiableWithinAt)
      (by
        intro s hs
        rw [interior_Icc] at hs
        rw [(hg s).deriv]
        have := Real.abs_cos_sub_cos_le (a + s) a
        rw [show a + s - a = s by ring, abs_of_nonneg hs.1.le] at this
        linarith [le_abs_self (Real.cos (a + s) - Real.cos a)])
    have := anti (Set.left_mem_Icc.2 hh) (Set.right_mem_Icc.2 hh) hh
    simpa using this
  have lo : Real.sin a ≤ Real.sin (a + h) - h * Real.cos a + h ^ 2 / 2 := by
    have hg : ∀ s : ℝ, HasDerivAt (fun s => Real.sin (a + s) - s * Real.cos a + s ^ 2 / 2)
        (Real.cos (a + s) - Real.cos a + s) s := fun s => (hd s).fun_add (hsq s)
    have mono := monotoneOn_of_deriv_nonneg (convex_Icc (0 : ℝ) h)
      (f := fun s => Real.sin (a + s) - s * Real.cos a + s ^ 2 / 2)
      (fun s _ => (hg s).continuousAt.continuousWithinAt)
      (fun s _ => (hg s).differentiableAt.differentiableWithinAt)
      (by
        intro s hs
        rw [interior_Icc] at hs
        rw [(hg s).deriv]
        have := Real.abs_cos_sub_cos_le (a + s) a
        rw [show a + s - a = s by ring, abs_of_nonneg hs.1.le] at this
        linarith [neg_abs_le (Real.cos (a + s) - Real.cos a)])
    have := mono (Set.left_mem_Icc.2 hh) (Set.right_mem_Icc.2 hh) hh
    simpa using this
  rw [abs_le]; constructor <;> linarith

theorem sin_second_order_half (a h : ℝ) : |Real.sin (a + h) - Real.sin a - h * Real.cos a| ≤ h ^ 2 / 2 := by
  rcases le_total 0 h with hh | hh
  · exact sin_second_order_half_nonneg a h hh
  · have := sin_second_order_half_nonneg (-a) (-h) (by linarith)
    rw [show -a + -h = -(a + h) by ring, Real.sin_neg, Real.sin_neg, Real.cos_neg] at this
    rw [show -Real.sin (a + h) - -Real.sin a - -h * Real.cos a = -(Real.sin (a + h) - Real.sin a - h * Real.cos a) by ring,
      abs_neg, neg_sq] at this
    exact this

theorem cos_second_order_half (a h : ℝ) : |Real.cos (a + h) - Real.cos a + h * Real.sin a| ≤ h ^ 2 / 2 := by
  have := sin_second_order_half (a + Real.pi / 2) h
  rw [show a + Real.pi / 2 + h = a + h + Real.pi / 2 by ring, Real.sin_add_pi_div_two, Real.sin_add_pi_div_two,
    Real.cos_add_pi_div_two] at this
  rwa [show Real.cos (a + h) - Real.cos a - h * -Real.sin a = Real.cos (a + h) - Real.cos a + h * Real.sin a by ring] at this

/-- at a fixed perturbation: `F0 = F p`, `F1 = F (p + d)`, `L = ` first-order part; the triple bounds them -/
def SOB (F0 F1 L : ℝ) (b : Bnd ℝ) : Prop :=
  |F0| ≤ b.m0 ∧ |F1| ≤ b.m0 ∧ |L| ≤ b.l ∧ |F1 - F0 - L| ≤ b.r

theorem SOB_add {F0 F1 L G0 G1 M : ℝ} {a b : Bnd ℝ} (h1 : SOB F0 F1 L a) (h2 : SOB G0 G1 M b) :
    SOB (F0 + G0) (F1 + G1) (L + M) (a.add b) := by
  obtain ⟨a1, a2, a3, a4⟩ := h1
  obtain ⟨b1, b2, b3, b4⟩ := h2
  refine ⟨(abs_add_le _ _).trans (add_le_add a1 b1), (abs_add_le _ _).trans (add_le_add a2 b2),
    (abs_add_le _ _).trans (add_le_add a3 b3), ?_⟩
  have : F1 + G1 - (F0 + G0) - (L + M) = (F1 - F0 - L) + (G1 - G0 - M) := by ring
  rw [this]; exact (abs_add_le _ _).trans (add_le_add a4 b4)

theorem SOB_neg {F0 F1 L : ℝ} {a : Bnd ℝ} (h1 : SOB F0 F1 L a) : SOB (-F0) (-F1) (-L) a := by
  obtain ⟨a1, a2, a3, a4⟩ := h1
  refine ⟨by rwa [abs_neg], by rwa [abs_neg], by rwa [abs_neg], ?_⟩
  have : -F1 - -F0 - -L = -(F1 - F0 - L) := by ring
  rw [this, abs_neg]; exact a4

theorem SOB_sub {F0 F1 L G0 G1 M : ℝ} {a b : Bnd ℝ} (h1 : SOB F0 F1 L a) (h2 : SOB G0 G1 M b) :
    SOB (F0 - G0) (F1 - G1) (L - M) (a.add b) := by
  have := SOB_add h1 (SOB_neg h2)
  simpa [sub_eq_add_neg] using this

theorem SOB_mul {F0 F1 L G0 G1 M : ℝ} {a b : Bnd ℝ} (h1 : SOB F0 F1 L a) (h2 : SOB G0 G1 M b) :
    SOB (F0 * G0) (F1 * G1) (L * G0 + F0 * M) (a.mul b) := by
  obtain ⟨a1, a2, a3, a4⟩ := h1
  obtain ⟨b1, b2, b3, b4⟩ := h2
  have p0 : 0 ≤ a.m0 := (abs_nonneg _).trans a1
  have q0 : 0 ≤ b.m0 := (abs_nonneg _).trans b1
  have pl : 0 ≤ a.l := (abs_nonneg _).trans a3
  have pr : 0 ≤ a.r := (abs_nonneg _).trans a4
  refine ⟨?_, ?_, ?_, ?_⟩
  · rw [abs_mul]; exact mul_le_mul a1 b1 (abs_nonneg _) p0
  · rw [abs_mul]; exact mul_le_mul a2 b2 (abs_nonneg _) p0
  · calc |L * G0 + F0 * M| ≤ |L * G0| + |F0 * M| := abs_add_le _ _
      _ = |L| * |G0| + |F0| * |M| := by rw [abs_mul, abs_mul]
      _ ≤ a.l * b.m0 + a.m0 * b.l := by gcongr
  · have e : F1 * G1 - F0 * G0 - (L * G0 + F0 * M)
        = (F1 - F0 - L) * G1 + F0 * (G1 - G0 - M) + L * M + L * (G1 - G0 - M) := by ring
    rw [e]
    calc |(F1 - F0 - L) * G1 + F0 * (G1 - G0 - M) + L * M + L * (G1 - G0 - M)|
        ≤ |(F1 - F0 - L) * G1| + |F0 * (G1 - G0 - M)| + |L * M| + |L * (G1 - G0 - M)| := by
          refine (abs_add_le _ _).trans ?_
          gcongr
          refine (abs_add_le _ _).trans ?_
          gcongr
          exact abs_add_le _ _
      _ = |F1 - F0 - L| * |G1| + |F0| * |G1 - G0 - M| + |L| * |M| + |L| * |G1 - G0 - M| := by simp only [abs_mul]
      _ ≤ a.r * b.m0 + a.m0 * b.r + a.l * b.l + a.l * b.r := by gcongr

theorem SOB_const (c : ℝ) (m : ℝ) (h : |c| ≤ m) : SOB c c 0 ⟨m, 0, 0⟩ := by
  refine ⟨h, h, by simp, by simp⟩

theorem SOB_one : SOB 1 1 0 ⟨(k 1 : ℝ), k 0, k 0⟩ := by
  refine ⟨by simp, by simp, by simp, by simp⟩

theorem SOB_pow {F0 F1 L : ℝ} {a : Bnd ℝ} (h1 : SOB F0 F1 L a) (n : ℕ) :
    SOB (F0 ^ n) (F1 ^ n) ((n : ℝ) * F0 ^ (n - 1) * L) (a.pow n) := by
  induction n with
  | zero => simpa [Bnd.pow] using SOB_one
  | succ n ih =>
    have h := SOB_mul ih h1
    have e : (n : ℝ) * F0 ^ (n - 1) * L * F0 + F0 ^ n * L = ((n + 1 : ℕ) : ℝ) * F0 ^ (n + 1 - 1) * L := by
      cases n with
      | zero => simp
      | succ m => simp [pow_succ]; ring
    rw [e] at h
    simpa [pow_succ, Bnd.pow] using h

theorem SOB_sin {F0 F1 L : ℝ} {a : Bnd ℝ} (h1 : SOB F0 F1 L a) :
    SOB (Real.sin F0) (Real.sin F1) (Real.cos F0 * L) a.trig := by
  obtain ⟨a1, a2, a3, a4⟩ := h1
  refine ⟨by simpa [Bnd.trig] using Real.abs_sin_le_one F0, by simpa [Bnd.trig] using Real.abs_sin_le_one F1, ?_, ?_⟩
  · rw [abs_mul]
    calc |Real.cos F0| * |L| ≤ 1 * a.l := by gcongr; exact Real.abs_cos_le_one F0
      _ = a.trig.l := by simp [Bnd.trig]
  · set h := F1 - F0 with hh
    have hF : F1 = F0 + h := by rw [hh]; ring
    have hle : |h| ≤ a.l + a.r := by
      have : h = L + (F1 - F0 - L) := by rw [hh]; ring
      rw [this]; exact (abs_add_le _ _).trans (add_le_add a3 a4)
    have e : Real.sin F1 - Real.sin F0 - Real.cos F0 * L
        = (Real.sin (F0 + h) - Real.sin F0 - h * Real.cos F0) + Real.cos F0 * (F1 - F0 - L) := by
      rw [hF]; ring
    rw [e]
    calc |(Real.sin (F0 + h) - Real.sin F0 - h * Real.cos F0) + Real.cos F0 * (F1 - F0 - L)|
        ≤ |Real.sin (F0 + h) - Real.sin F0 - h * Real.cos F0| + |Real.cos F0 * (F1 - F0 - L)| := abs_add_le _ _
      _ ≤ h ^ 2 / 2 + 1 * a.r := by
          rw [abs_mul]; gcongr
          · exact sin_second_order_half F0 h
          · exact Real.abs_cos_le_one F0
      _ ≤ (a.l + a.r) ^ 2 / 2 + 1 * a.r := by
          have : h ^ 2 ≤ (a.l + a.r) ^ 2 := by rw [← sq_abs h]; gcongr
          linarith
      _ = a.trig.r := by simp [Bnd.trig]; ring

theorem SOB_cos {F0 F1 L : ℝ} {a : Bnd ℝ} (h1 : SOB F0 F1 L a) :
    SOB (Real.cos F0) (Real.cos F1) (-(Real.sin F0 * L)) a.trig := by
  obtain ⟨a1, a2, a3, a4⟩ := h1
  refine ⟨by simpa [Bnd.trig] using Real.abs_cos_le_one F0, by simpa [Bnd.trig] using Real.abs_cos_le_one F1, ?_, ?_⟩
  · rw [abs_neg, abs_mul]
    calc |Real.sin F0| * |L| ≤ 1 * a.l := by gcongr; exact Real.abs_sin_le_one F0
      _ = a.trig.l := by simp [Bnd.trig]
  · set h := F1 - F0 with hh
    have hF : F1 = F0 + h := by rw [hh]; ring
    have hle : |h| ≤ a.l + a.r := by
      have : h = L + (F1 - F0 - L) := by rw [hh]; ring
      rw [this]; exact (abs_add_le _ _).trans (add_le_add a3 a4)
    have e : Real.cos F1 - Real.cos F0 - -(Real.sin F0 * L)
        = (Real.cos (F0 + h) - Real.cos F0 + h * Real.sin F0) + -(Real.sin F0 * (F1 - F0 - L)) := by
      rw [hF]; ring
    rw [e]
    calc |(Real.cos (F0 + h) - Real.cos F0 + h * Real.sin F0) + -(Real.sin F0 * (F1 - F0 - L))|
        ≤ |Real.cos (F0 + h) - Real.cos F0 + h * Real.sin F0| + |-(Real.sin F0 * (F1 - F0 - L))| := abs_add_le _ _
      _ ≤ h ^ 2 / 2 + 1 * a.r := by
          rw [abs_neg, abs_mul]; gcongr
          · exact cos_second_order_half F0 h
          · exact Real.abs_sin_le_one F0
      _ ≤ (a.l + a.r) ^ 2 / 2 + 1 * a.r := by
          have : h ^ 2 ≤ (a.l + a.r) ^ 2 := by rw [← sq_abs h]; gcongr
          linarith
      _ = a.trig.r := by simp [Bnd.trig]; ring


theorem SOB_Fn (vs : Finset ℕ) (p d ea da : ℕ → ℝ) (hp : ∀ i, |p i| ≤ ea i) (hq : ∀ i, |p i + d i| ≤ ea i)
    (hd : ∀ i, |d i| ≤ da i) (hs : ∀ i, i ∉ vs → d i = 0) (e : Fn) :
    SOB (e.eval p) (e.eval (fun i => p i + d i)) (linPart vs p e d) (e.bnd ea da) := by
  induction e with
  | const s a b =>
    have hq0 : |(if s = true then -(q a b : ℝ) else q a b)| ≤ (q a b : ℝ) := by
      have h0 : (0 : ℝ) ≤ q a b := by simp only [q_real]; positivity
      split
      · rw [abs_neg, abs_of_nonneg h0]
      · rw [abs_of_nonneg h0]
    have := SOB_const _ _ hq0
    simpa [Fn.eval, Fn.bnd, linPart, Fn.D] using this
  | var i =>
    have hl : linPart vs p (.var i) d = d i := by
      simp only [linPart, Fn.D]
      by_cases hi : i ∈ vs
      · rw [Finset.sum_eq_single i]
        · simp
        · intro b _ hb; simp [Ne.symm hb]
        · intro h; exact absurd hi h
      · rw [hs i hi, Finset.sum_eq_zero]
        intro v hv
        have : i ≠ v := fun h => hi (h ▸ hv)
        simp [this]
    rw [hl]
    refine ⟨hp i, hq i, hd i, ?_⟩
    simp [Fn.eval, Fn.bnd]
  | add a b iha ihb =>
    have := SOB_add iha ihb
    have e : linPart vs p (.add a b) d = linPart vs p a d + linPart vs p b d := by
      simp only [linPart, Fn.D, Fn.eval, ← Finset.sum_add_distrib]
      exact Finset.sum_congr rfl fun v _ => by ring
    rw [e]; simpa [Fn.eval, Fn.bnd] using this
  | sub a b iha ihb =>
    have := SOB_sub iha ihb
    have e : linPart vs p (.sub a b) d = linPart vs p a d - linPart vs p b d := by
      simp only [linPart, Fn.D, Fn.eval, ← Finset.sum_sub_distrib]
      exact Finset.sum_congr rfl fun v _ => by ring
    rw [e]; simpa [Fn.eval, Fn.bnd] using this
  | mul a b iha ihb =>
    have := SOB_mul iha ihb
    have e : linPart vs p (.mul a b) d = linPart vs p a d * b.eval p + a.eval p * linPart vs p b d := by
      simp only [linPart, Fn.D, Fn.eval, Finset.sum_mul, Finset.mul_sum, ← Finset.sum_add_distrib]
      exact Finset.sum_congr rfl fun v _ => by ring
    rw [e]; simpa [Fn.eval, Fn.bnd] using this
  | neg a iha =>
    have := SOB_neg iha
    have e : linPart vs p (.neg a) d = -linPart vs p a d := by
      simp only [linPart, Fn.D, Fn.eval, ← Finset.sum_neg_distrib]
      exact Finset.sum_congr rfl fun v _ => by ring
    rw [e]; simpa [Fn.eval, Fn.bnd] using this
  | sin a iha =>
    have := SOB_sin iha
    have e : linPart vs p (.sin a) d = Real.cos (a.eval p) * linPart vs p a d := by
      simp only [linPart, Fn.D, Fn.eval, Finset.mul_sum, cos_real]
      exact Finset.sum_congr rfl fun v _ => by ring
    rw [e]; simpa [Fn.eval, Fn.bnd] using this
  | cos a iha =>
    have := SOB_cos iha
    have e : linPart vs p (.cos a) d = -(Real.sin (a.eval p) * linPart vs p a d) := by
      simp only [linPart, Fn.D, Fn.eval, Finset.mul_sum, sin_real, ← Finset.sum_neg_distrib]
      exact Finset.sum_congr rfl fun v _ => by ring
    rw [e]; simpa [Fn.eval, Fn.bnd] using this
  | pow a n iha =>
    have := SOB_pow iha n
    have e : linPart vs p (.pow a n) d = (n : ℝ) * a.eval p ^ (n - 1) * linPart vs p a d := by
      cases n with
      | zero => simp [linPart, Fn.D]
      | succ m =>
        simp only [linPart, Fn.D, Fn.eval, Finset.mul_sum, npow_real, Nat.add_sub_cancel]
        refine Finset.sum_congr rfl fun v _ => ?_
        simp
        ring
    rw [e]; simpa [Fn.eval, Fn.bnd, npow_real] using this

/-- `b'` is the bound triple of the perturbation scaled by `h`: same value bound, linear part scaled by `h`, remainder at
most `h²` times the unscaled one (all bounds non-negative) -/
def Sc (h : ℝ) (b' b : Bnd ℝ) : Prop :=
  b'.m0 = b.m0 ∧ b'.l = h * b.l ∧ 0 ≤ b'.r ∧ b'.r ≤ h ^ 2 * b.r ∧ 0 ≤ b.m0 ∧ 0 ≤ b.l ∧ 0 ≤ b.r

theorem Sc_add {h : ℝ} {a' a b' b : Bnd ℝ} (ha : Sc h a' a) (hb : Sc h b' b) : Sc h (a'.add b') (a.add b) := by
  obtain ⟨a1, a2, a3, a4, a5, a6, a7⟩ := ha
  obtain ⟨b1, b2, b3, b4, b5, b6, b7⟩ := hb
  refine ⟨by simp [Bnd.add, a1, b1], by simp [Bnd.add, a2, b2]; ring, by simp only [Bnd.add]; positivity, ?_,
    by simp only [Bnd.add]; positivity, by simp only [Bnd.add]; positivity, by simp only [Bnd.add]; positivity⟩
  simp only [Bnd.add]; nlinarith

theorem Sc_mul {h : ℝ} (h0 : 0 ≤ h) (h1 : h ≤ 1) {a' a b' b : Bnd ℝ} (ha : Sc h a' a) (hb : Sc h b' b) :
    Sc h (a'.mul b') (a.mul b) := by
  obtain ⟨a1, a2, a3, a4, a5, a6, a7⟩ := ha
  obtain ⟨b1, b2, b3, b4, b5, b6, b7⟩ := hb
  have hl' : 0 ≤ a'.l := by rw [a2]; positivity
  have hlb' : 0 ≤ b'.l := by rw [b2]; positivity
  refine ⟨by simp [Bnd.mul, a1, b1], by simp [Bnd.mul, a1, b1, a2, b2]; ring, ?_, ?_,
    by simp only [Bnd.mul]; positivity, by simp only [Bnd.mul]; positivity, by simp only [Bnd.mul]; positivity⟩
  · simp only [Bnd.mul, a1, b1]; positivity
  · simp only [Bnd.mul, a1, b1, a2, b2]
    have e1 : a'.r * b.m0 ≤ h ^ 2 * a.r * b.m0 := by gcongr
    have e2 : a.m0 * b'.r ≤ a.m0 * (h ^ 2 * b.r) := by gcongr
    have e3 : h * a.l * b'.r ≤ h * a.l * (h ^ 2 * b.r) := by gcongr
    have e4 : h * a.l * (h ^ 2 * b.r) ≤ h ^ 2 * (a.l * b.r) := by
      have : h * h ^ 2 ≤ h ^ 2 := by nlinarith [sq_nonneg h]
      have hab : 0 ≤ a.l * b.r := by positivity
      calc h * a.l * (h ^ 2 * b.r) = (h * h ^ 2) * (a.l * b.r) := by ring
        _ ≤ h ^ 2 * (a.l * b.r) := by gcongr
    nlinarith

theorem Sc_trig {h : ℝ} (h0 : 0 ≤ h) (h1 : h ≤ 1) {a' a : Bnd ℝ} (ha : Sc h a' a) : Sc h a'.trig a.trig := by
  obtain ⟨a1, a2, a3, a4, a5, a6, a7⟩ := ha
  have hl' : 0 ≤ a'.l := by rw [a2]; positivity
  refine ⟨by simp [Bnd.trig], by simp [Bnd.trig, a2], by simp only [Bnd.trig, k_real]; positivity, ?_,
    by simp [Bnd.trig], by simpa [Bnd.trig] using a6, by simp only [Bnd.trig, k_real]; positivity⟩
  simp only [Bnd.trig, k_real, Nat.cast_ofNat]
  have hsum : a'.l + a'.r ≤ h * (a.l + a.r) := by
    rw [a2]
    have : h ^ 2 * a.r ≤ h * a.r := by
      have : h ^ 2 ≤ h := by nlinarith
      gcongr
    linarith
  have hsq : (a'.l + a'.r) * (a'.l + a'.r) ≤ (h * (a.l + a.r)) * (h * (a.l + a.r)) := by
    have : 0 ≤ a'.l + a'.r := by positivity
    gcongr
  nlinarith

theorem Sc_pow {h : ℝ} (h0 : 0 ≤ h) (h1 : h ≤ 1) {a' a : Bnd ℝ} (ha : Sc h a' a) (n : ℕ) : Sc h (a'.pow n) (a.pow n) := by
  induction n with
  | zero => refine ⟨rfl, by simp [Bnd.pow], by simp [Bnd.pow], by simp [Bnd.pow], by simp [Bnd.pow], by simp [Bnd.pow], by simp [Bnd.pow]⟩
  | succ n ih => exact Sc_mul h0 h1 ih ha

/-- **The explicit constants scale like a second-order term**: scaling the perturbation bound by `0 ≤ h ≤ 1` keeps the
value bound, scales the first-order bound by `h` and the remainder bound by at most `h²`. -/
theorem bnd_scale' (ea da : ℕ → ℝ) (he : ∀ i, 0 ≤ ea i) (hd : ∀ i, 0 ≤ da i) (h : ℝ) (h0 : 0 ≤ h) (h1 : h ≤ 1) (e : Fn) :
    Sc h (e.bnd ea (fun i => h * da i)) (e.bnd ea da) := by
  induction e with
  | const s a b =>
    have : (0 : ℝ) ≤ q a b := by simp only [q_real]; positivity
    refine ⟨rfl, by simp [Fn.bnd], by simp [Fn.bnd], by simp [Fn.bnd], by simpa [Fn.bnd] using this, by simp [Fn.bnd], by simp [Fn.bnd]⟩
  | var i => refine ⟨rfl, rfl, by simp [Fn.bnd], by simp [Fn.bnd], he i, hd i, by simp [Fn.bnd]⟩
  | add a b iha ihb => exact Sc_add iha ihb
  | sub a b iha ihb => exact Sc_add iha ihb
  | mul a b iha ihb => exact Sc_mul h0 h1 iha ihb
  | neg a iha => exact iha
  | sin a iha => exact Sc_trig h0 h1 iha
  | cos a iha => exact Sc_trig h0 h1 iha
  | pow a n iha => exact Sc_pow h0 h1 iha n

/-! ### 9. broadcasting: nested projections compose -/
section
open Batch

theorem projEq_length : ∀ (s : Shape) (i : List Nat), (projEq s i).length = min s.length i.length
  | [], i => by simp [projEq]
  | _ :: _, [] => by simp [projEq]
  | _ :: s, _ :: is => by simp [projEq, projEq_length s is]

theorem projEq_drop : ∀ (m : Nat) (s : Shape) (i : List Nat), (projEq s i).drop m = projEq (s.drop m) (i.drop m)
  | 0, s, i => by simp
  | m + 1, [], i => by simp [projEq]
  | m + 1, _ :: _, [] => by simp [projEq]
  | m + 1, _ :: s, _ :: is => by simp [projEq, projEq_drop m s is]

/-- equal rank: projecting onto the broadcast result first does not change the projection onto an operand -/
theorem projEq_projEq : ∀ {p q r : Shape} (i : List Nat), bzip p q = some r → projEq p (projEq r i) = projEq p i
  | [], [], r, i, h => by simp [projEq]
  | [], _ :: _, _, _, h => by simp [bzip] at h
  | _ :: _, [], _, _, h => by simp [bzip] at h
  | p0 :: p, q0 :: q, r, i, h => by
    simp only [bzip] at h
    cases hd : bdim p0 q0 with
    | none => simp [hd] at h
    | some d =>
      cases hz : bzip p q with
      | none => simp [hd, hz] at h
      | some r' =>
        simp only [hd, hz, Option.some.injEq] at h
        subst h
        cases i with
        | nil => simp [projEq]
        | cons i0 is =>
          simp only [projEq]
          rw [projEq_projEq is hz]
          congr 1
          by_cases hp : p0 = 1
          · simp [hp]
          · have : d ≠ 1 := by
              unfold bdim at hd
              by_cases e1 : p0 = q0
              · simp [e1] at hd; subst hd; rw [← e1]; exact hp
              · simp only [e1, if_false, hp] at hd
                by_cases e2 : q0 = 1
                · simp [e2] at hd; subst hd; exact hp
                · simp [e2] at hd
            simp [hp, this]

theorem bzip_drop_replicate : ∀ (m : Nat) (a q r : Shape), bzip (List.replicate m 1 ++ a) q = some r →
    bzip a (q.drop m) = some (r.drop m)
  | 0, a, q, r, h => by simpa using h
  | m + 1, a, [], r, h => by simp [List.replicate_succ, bzip] at h
  | m + 1, a, q0 :: q, r, h => by
    simp only [List.replicate_succ, List.cons_append, bzip] at h
    cases hd : bdim 1 q0 with
    | none => simp [hd] at h
    | some d =>
      cases hz : bzip (List.replicate m 1 ++ a) q with
      | none => simp [hd, hz] at h
      | some r' =>
        simp only [hd, hz, Option.some.injEq] at h
        subst h
        simpa using bzip_drop_replicate m a q r' hz

/-- **Nested broadcasts compose**: if `a` was broadcast (with anything) to `s`, then for any index `i` of a shape of rank
at least that of `s`, projecting `i` onto `s` and then onto `a` is projecting `i` onto `a`. -/
theorem proj_proj {a b s : Shape} (h : broadcastShapes a b = some s) (i : List Nat) (hi : s.length ≤ i.length) :
    proj a (proj s i) = proj a i := by
  unfold broadcastShapes at h
  simp only at h
  have hl := bzip_length h
  have hn : (max a.length b.length) = s.length := by
    rw [hl.1, padTo_length (Nat.le_max_left _ _)]
  have hal : a.length ≤ s.length := by rw [← hn]; exact Nat.le_max_left _ _
  rw [hn] at h
  set m := s.length - a.length with hm
  have h' : bzip a ((padTo s.length b).drop m) = some (s.drop m) := bzip_drop_replicate m a _ s (by simpa [padTo, hm] using h)
  unfold proj
  have l1 : (projEq s (i.drop (i.length - s.length))).length = s.length := by
    rw [projEq_length]; simp; omega
  rw [l1, projEq_drop]
  have e : (i.drop (i.length - s.length)).drop (s.length - a.length) = i.drop (i.length - a.length) := by
    rw [List.drop_drop]; congr 1; omega
  rw [e]
  exact projEq_projEq _ h'


theorem proj_length (s : Shape) (i : List Nat) (h : s.length ≤ i.length) : (proj s i).length = s.length := by
  unfold proj; rw [projEq_length]; simp; omega

theorem broadcastShapes_length {a b s : Shape} (h : broadcastShapes a b = some s) :
    a.length ≤ s.length ∧ b.length ≤ s.length := by
  unfold broadcastShapes at h
  simp only at h
  have hl := bzip_length h
  rw [padTo_length (Nat.le_max_left _ _)] at hl
  have := hl.1
  constructor
  · rw [this]; exact Nat.le_max_left _ _
  · rw [this]; exact Nat.le_max_right _ _

theorem proj_proj_right {a b s : Shape} (h : broadcastShapes a b = some s) (i : List Nat) (hi : s.length ≤ i.length) :
    proj b (proj s i) = proj b i := by
  rw [broadcastShapes_comm] at h; exact proj_proj h i hi

/-- two broadcasts in a row: `a → s1 → s2` -/
theorem proj_trans {a b c s1 s2 : Shape} (h1 : broadcastShapes a b = some s1) (h2 : broadcastShapes s1 c = some s2)
    (i : List Nat) (hi : s2.length ≤ i.length) : proj a (proj s2 i) = proj a i := by
  have l12 := (broadcastShapes_length h2).1
  rw [← proj_proj h1 (proj s2 i) (by rw [proj_length s2 i hi]; exact l12), proj_proj h2 i hi, proj_proj h1 i (by omega)]

theorem proj_trans_right {a b c s1 s2 : Shape} (h1 : broadcastShapes a b = some s1) (h2 : broadcastShapes s1 c = some s2)
    (i : List Nat) (hi : s2.length ≤ i.length) : proj b (proj s2 i) = proj b i := by
  rw [broadcastShapes_comm] at h1; exact proj_trans h1 h2 i hi

theorem bcast2_itemwise {β γ δ : Type} (f : β → γ → δ) (x : Batch.T β) (y : Batch.T γ) (out : Shape)
    (h : broadcastShapes x.shape y.shape = some out) :
    ∃ r, bcast2 f x y = some r ∧ r.shape = out ∧
      ∀ i, inb out i → r.get i = f (x.get (proj x.shape i)) (y.get (proj y.shape i)) := by
  refine ⟨⟨out, fun k => f (x.get (proj x.shape (unravel out k))) (y.get (proj y.shape (unravel out k)))⟩,
    by simp [bcast2, h], rfl, ?_⟩
  intro i hi
  show f (x.get (proj x.shape (unravel out (ravel out i)))) (y.get (proj y.shape (unravel out (ravel out i)))) = _
  rw [unravel_ravel' hi]

theorem bcast2_raises {β γ δ : Type} (f : β → γ → δ) (x : Batch.T β) (y : Batch.T γ)
    (h : broadcastShapes x.shape y.shape = none) : bcast2 f x y = none := by
  simp [bcast2, h]

theorem bcast2_isSome {β γ δ : Type} (f : β → γ → δ) (x : Batch.T β) (y : Batch.T γ) :
    (bcast2 f x y).isSome = (broadcastShapes x.shape y.shape).isSome := by
  unfold bcast2; cases broadcastShapes x.shape y.shape <;> rfl



end

/-! ### 10. Structural facts about the model (moved here from `Props/C15`: they hold by construction of the model and
are not, by themselves, statements about pypose)

* `multi_*`: in the model the clocks of different systems are different entries of a list (`List.set`), so their
  independence is true by construction. Whether the *code* keeps the clocks of two systems (or of a system and its copy, or a
  clock and a tensor of the caller) apart is decided by the correspondence streams `multi`, `lin`, `nls` (shared buffers,
  hooks captured by reference, rebound buffers: seeded changes C15-2, C15-3); these lemmas only say what those streams compare with.
* `nls_history_alias*`, `alias_*_witness`, `nls_history_code_ok`, `linAt_reproduces`: the historical alias variants of the
  model (before fixes D32 / D38), kept as witnesses.
* `lti_history_independent`, `nls_call_history_independent`, `forward_time_injective`: immediate from the definitions. -/

/-- an event on system `j ≠ i` does not touch the clock of system `i` -/
theorem multi_step_other (ks : List Kind) (cs : List Int) (j : Nat) (e : MEv) (i : Nat) (h : j ≠ i) :
    (stepMulti ks cs (j, e)).getD i 0 = cs.getD i 0 := by
  simp [stepMulti, List.getD_eq_getElem?_getD, h]

/-- **Clocks of distinct systems are independent.** For any list of events tagged with a system id — including
`b.systime = a.systime`, `b.reset(a.systime)`, `ltv.set_refpoint(t=a.systime)`, which copy the *value* the other
clock has at that moment — the clock of system `i` is the single-system clock machine run on `i`'s own events
(so `clock_history` holds per system: assigning from another system or from a shared tensor shares nothing). -/
theorem multi_clock_independent (ks : List Kind) (evs : List (Nat × MEv)) : ∀ (cs : List Int) (i : Nat),
    i < cs.length →
    (runMulti ks cs evs).getD i 0
      = runClock (ks.getD i .lti) (cs.getD i 0) (projEv i (resolveMulti ks cs evs)) := by
  induction evs with
  | nil => intro cs i _; simp [runMulti, resolveMulti, projEv, runClock]
  | cons te r ih =>
    intro cs i hi
    have hlen : i < (stepMulti ks cs te).length := by simpa [stepMulti] using hi
    have h1 : runMulti ks cs (te :: r) = runMulti ks (stepMulti ks cs te) r := by simp [runMulti]
    rw [h1, ih (stepMulti ks cs te) i hlen]
    by_cases h : te.1 = i
    · have e1 : (stepMulti ks cs te).getD i 0 = stepClock (ks.getD i .lti) (cs.getD i 0) (te.2.toEv cs) := by
        subst h
        simp [stepMulti, List.getD_eq_getElem?_getD, hi]
      simp only [resolveMulti, projEv, List.filterMap_cons, h, if_true, e1]
      simp [runClock]
    · have e1 : (stepMulti ks cs te).getD i 0 = cs.getD i 0 := multi_step_other ks cs te.1 te.2 i h
      simp only [resolveMulti, projEv, List.filterMap_cons, h, if_false, e1]

/-- **A copy is a new independent system with the same state.** `sys_i = deepcopy(sys_j)` (or a pickle round trip, or
`load_state_dict(sys_j.state_dict())` into a fresh object), `i ≠ j`: from then on, whatever events follow on any system,
the copy's time is the single-system clock machine started at the original's time and run on the copy's own events, and
the original's time is the same machine run on the original's own events — neither sees the other's calls or resets. -/
theorem multi_copy_independent (ks : List Kind) (cs : List Int) (i j : Nat) (hij : i ≠ j) (hi : i < cs.length)
    (hj : j < cs.length) (evs : List (Nat × MEv)) :
    let cs' := stepMulti ks cs (i, .copyOf j)
    (runMulti ks cs ((i, .copyOf j) :: evs)).getD i 0
        = runClock (ks.getD i .lti) (cs.getD j 0) (projEv i (resolveMulti ks cs' evs)) ∧
    (runMulti ks cs ((i, .copyOf j) :: evs)).getD j 0
        = runClock (ks.getD j .lti) (cs.getD j 0) (projEv j (resolveMulti ks cs' evs)) := by
  intro cs'
  have h1 : runMulti ks cs ((i, .copyOf j) :: evs) = runMulti ks cs' evs := by simp [runMulti, cs']
  have hl : cs'.length = cs.length := by simp [cs', stepMulti]
  have ei : cs'.getD i 0 = cs.getD j 0 := by
    simp [cs', stepMulti, MEv.toEv, stepClock, TArg.trunc, List.getD_eq_getElem?_getD, hi]
  have ej : cs'.getD j 0 = cs.getD j 0 := multi_step_other ks cs i (.copyOf j) j hij
  rw [h1]
  exact ⟨by rw [multi_clock_independent ks evs cs' i (by omega), ei],
         by rw [multi_clock_independent ks evs cs' j (by omega), ej]⟩

/-- the number of systems never changes -/
theorem multi_length (ks : List Kind) (evs : List (Nat × MEv)) : ∀ cs : List Int,
    (runMulti ks cs evs).length = cs.length := by
  induction evs with
  | nil => intro cs; simp [runMulti]
  | cons te r ih =>
    intro cs
    have h1 : runMulti ks cs (te :: r) = runMulti ks (stepMulti ks cs te) r := by simp [runMulti]
    rw [h1, ih]; simp [stepMulti]

/-- different clock values are different times for `f`, `g` (no two integer times are merged, however large) -/
theorem forward_time_injective (a b : Int) : (ofInt a : ℝ) = ofInt b ↔ a = b := by
  simp

/-- what the code returns after a successful `set_refpoint` and any later non-`set_refpoint` events:
the Jacobians are taken at the reference state and input but at `_ref_t`, which is the *current* clock
when `t` was `None` (or the caller passed `sys.systime`), while `_ref_f`, `_ref_g` are frozen at the
clock of the `set_refpoint` call. -/
theorem nls_history_alias (fs gs : List Fn) (S0 : NState ℝ) (pre post : List (NEv ℝ))
    (x? u? : Option (DVec ℝ)) (tr : TRef ℝ) (x u : DVec ℝ)
    (hx : orLast x? ((runN true false false fs gs S0 pre).last.map Prod.fst) = some x)
    (hu : orLast u? ((runN true false false fs gs S0 pre).last.map Prod.snd) = some u)
    (hpost : ∀ e ∈ post, e.isRef = false) :
    let c0 := (runN true false false fs gs S0 pre).clock
    let cnow := runClock .nls c0 (post.map NEv.toEv)
    readLin fs gs (runN true false false fs gs S0 (pre ++ .refpoint x? u? tr :: post))
      = some (linAt fs gs x u ((refTOf true c0 tr).value cnow)
          (evalAll fs (mkEnv x u (refTime c0 tr))) (evalAll gs (mkEnv x u (refTime c0 tr)))) := by
  intro c0 cnow
  rw [runN_append, runN_cons]
  set S := runN true false false fs gs S0 pre with hS
  obtain ⟨r1, r2, r3, r4, r5, r6⟩ := setRefpoint_ok true false fs gs S x? u? tr x u hx hu
  have hstep : (stepN true false false fs gs S (.refpoint x? u? tr)).1 = (setRefpoint true fs gs S x? u? tr).1 := rfl
  rw [hstep]
  obtain ⟨q1, q2, q3, q4, q5, q6⟩ := runN_nonref true false false fs gs post (setRefpoint true fs gs S x? u? tr).1 hpost (Or.inl rfl)
  have hv : (refTOf true S.clock tr).value S.clock = refTime S.clock tr := by
    cases tr <;> simp [refTOf, refTime, RefT.value]
  unfold readLin
  rw [q1, q2, q3, q4, q5, q6, r1, r2, r3, r4, r5, r6]
  simp only [hv]
  rfl

/-- the code agrees with the documented linearisation when the reference time was given as a fresh
value, or when the clock has the same value as at `set_refpoint` time -/
theorem nls_history_alias_ok (fs gs : List Fn) (S0 : NState ℝ) (pre post : List (NEv ℝ))
    (x? u? : Option (DVec ℝ)) (tr : TRef ℝ) (x u : DVec ℝ)
    (hx : orLast x? ((runN true false false fs gs S0 pre).last.map Prod.fst) = some x)
    (hu : orLast u? ((runN true false false fs gs S0 pre).last.map Prod.snd) = some u)
    (hpost : ∀ e ∈ post, e.isRef = false)
    (hsafe : (∃ t, tr = .val t) ∨
      runClock .nls (runN true false false fs gs S0 pre).clock (post.map NEv.toEv) = (runN true false false fs gs S0 pre).clock) :
    readLin fs gs (runN true false false fs gs S0 (pre ++ .refpoint x? u? tr :: post))
      = some (linearize fs gs x u (refTime (runN true false false fs gs S0 pre).clock tr)) := by
  have h := nls_history_alias fs gs S0 pre post x? u? tr x u hx hu hpost
  simp only at h
  rw [h]
  have : (refTOf true (runN true false false fs gs S0 pre).clock tr).value
      (runClock .nls (runN true false false fs gs S0 pre).clock (post.map NEv.toEv))
      = refTime (runN true false false fs gs S0 pre).clock tr := by
    rcases hsafe with ⟨t, rfl⟩ | hc
    · simp [refTOf, refTime, RefT.value]
    · rw [hc]; cases tr <;> simp [refTOf, refTime, RefT.value]
  rw [this, linearize]

/-- even then `c1`, `c2` still make the affine model reproduce the frozen `f(x*,u*,t*)`, `g(x*,u*,t*)` -/
theorem linAt_reproduces (fs gs : List Fn) (x u : DVec ℝ) (t : ℝ) (f g : DVec ℝ)
    (hf : f.length = fs.length) (hg : g.length = gs.length) :
    (linAt fs gs x u t f g).predict x u = (f, g) := by
  unfold linAt Lin.predict
  simp only
  congr 1
  · apply add_sub_cancel_lists <;> simp [bmv_length, jac_length, hf]
  · apply add_sub_cancel_lists <;> simp [bmv_length, jac_length, hg]

/-- **Witness of the defect**: `f(x,u,t) = x·t`; `sys(1,0); sys.set_refpoint(); sys(1,0)`. The documented
reference time is 1 and `∂f/∂x = 1` there, but the code now reports `A = 2` (the Jacobian at the
current time) together with a `c1` computed from the frozen `f(x*,u*,1)`. -/
theorem alias_defect_witness :
    let fs := [Fn.mul (.var 0) (.var 2)]
    let gs := [Fn.var 0]
    let evs : List (NEv ℝ) := [.call [(1 : ℝ)] [(0 : ℝ)], .refpoint none none .default, .call [(1 : ℝ)] [(0 : ℝ)]]
    (readLin fs gs (runN true false false fs gs (NState.init 0 : NState ℝ) evs)).map (·.A) = some ([[(2 : ℝ)]] : DMat ℝ) ∧
    (readLin fs gs (runN false false false fs gs (NState.init 0 : NState ℝ) evs)).map (·.A) = some ([[(1 : ℝ)]] : DMat ℝ) ∧
    (linearize fs gs [(1 : ℝ)] [(0 : ℝ)] (1 : ℝ)).A = ([[(1 : ℝ)]] : DMat ℝ) := by
  refine ⟨?_, ?_, ?_⟩
  · simp [readLin, runN, stepN, setRefpoint, NState.init, orLast, refTOf, RefT.value, linAt, jac, mkEnv,
      Fn.D, Fn.eval, Fn.one, Fn.zero]
  · simp [readLin, runN, stepN, setRefpoint, NState.init, orLast, refTOf, RefT.value, linAt, jac, mkEnv,
      Fn.D, Fn.eval, Fn.one, Fn.zero]
  · simp [linearize, linAt, jac, mkEnv, Fn.D, Fn.eval, Fn.one, Fn.zero]

/-- the code before D38 agreed with the documented linearisation as long as the caller does not update, in place, a tensor it
handed to the system (no `poke` after `set_refpoint`) -/
theorem nls_history_code_ok (fs gs : List Fn) (S0 : NState ℝ) (pre post : List (NEv ℝ))
    (x? u? : Option (DVec ℝ)) (tr : TRef ℝ) (x u : DVec ℝ)
    (hx : orLast x? ((runN false true false fs gs S0 pre).last.map Prod.fst) = some x)
    (hu : orLast u? ((runN false true false fs gs S0 pre).last.map Prod.snd) = some u)
    (hpost : ∀ e ∈ post, e.isRef = false) (hpoke : ∀ e ∈ post, e.isPoke = false) :
    readLin fs gs (runN false true false fs gs S0 (pre ++ .refpoint x? u? tr :: post))
      = some (linearize fs gs x u (refTime (runN false true false fs gs S0 pre).clock tr)) := by
  rw [runN_append, runN_cons]
  set S := runN false true false fs gs S0 pre with hS
  obtain ⟨r1, r2, r3, r4, r5, _⟩ := setRefpoint_ok false false fs gs S x? u? tr x u hx hu
  have hstep : (stepN false true false fs gs S (.refpoint x? u? tr)).1 = (setRefpoint false fs gs S x? u? tr).1 := rfl
  rw [hstep]
  obtain ⟨q1, q2, q3, q4, q5, _⟩ := runN_nonref false true false fs gs post (setRefpoint false fs gs S x? u? tr).1 hpost
    (Or.inr hpoke)
  have hv : ∀ c : Int, (refTOf false S.clock tr).value c = refTime S.clock tr := by
    intro c; cases tr <;> simp [refTOf, refTime, RefT.value]
  unfold readLin
  rw [q1, q2, q3, q4, q5, r1, r2, r3, r4, r5]
  simp only [hv, linearize]

/-- **Witness of the second aliasing defect**: `f(x,u,t) = x²`; `sys.set_refpoint(x, u, t)` with `x = 1`, then the
caller re-uses its tensor: `x.add_(2)`. Documented: the reference point stays `x* = 1`, `A = 2`. The code now reports
`A = 6` (Jacobian at the tensor's new content) with `c1 = f(1) − 6·3 = −17`, so `A·3 + c1 = 1 = f(1) ≠ f(3) = 9`: the
affine model is exact at neither point. -/
theorem alias_state_defect_witness :
    let fs := [Fn.pow (.var 0) 2]
    let gs := [Fn.var 0]
    let evs : List (NEv ℝ) := [.refpoint (some [(1 : ℝ)]) (some [(0 : ℝ)]) (.val 0), .poke .refX [(3 : ℝ)]]
    (readLin fs gs (runN false true false fs gs (NState.init 0 : NState ℝ) evs)).map (fun L => (L.A, L.c1))
        = some (([[(6 : ℝ)]] : DMat ℝ), ([(-17 : ℝ)] : DVec ℝ)) ∧
    (readLin fs gs (runN false false false fs gs (NState.init 0 : NState ℝ) evs)).map (fun L => (L.A, L.c1))
        = some (([[(2 : ℝ)]] : DMat ℝ), ([(-1 : ℝ)] : DVec ℝ)) := by
  refine ⟨?_, ?_⟩
  · simp [readLin, runN, stepN, pokeN, setSome, setRefpoint, NState.init, orLast, refTOf, RefT.value, linAt, jac,
      mkEnv, Fn.D, Fn.eval, Fn.one, Fn.zero, npow, evalAll, bmv, DMat.mulVec, DVec.sub, dot_real]
    norm_num
  · simp [readLin, runN, stepN, pokeN, setRefpoint, NState.init, orLast, refTOf, RefT.value, linAt, jac,
      mkEnv, Fn.D, Fn.eval, Fn.one, Fn.zero, npow, evalAll, bmv, DMat.mulVec, DVec.sub, dot_real]
    norm_num

/-- an LTI object has no memory: whatever happened before (any clock value), the same `(x, u)` gives the same outputs -/
theorem lti_history_independent (S : LinSys ℝ) (h : S.kind = .lti) (hp : S.periodic = false) (c c' : Int) (x u : DVec ℝ) :
    linForward S c x u = linForward S c' x u := by
  simp [linForward, sliceIdx, h, hp]

/-- the outputs of an NLS call depend on `(x, u)` and the clock only — not on earlier calls, on the reference point,
or on which semantics of the reference point is in force -/
theorem nls_call_history_independent (al ax pf al' ax' pf' : Bool) (fs gs : List Fn) (S S' : NState ℝ) (h : S.clock = S'.clock)
    (x u : DVec ℝ) : (stepN al ax pf fs gs S (.call x u)).2 = (stepN al' ax' pf' fs gs S' (.call x u)).2 := by
  simp [stepN, h]

example : traceMulti [.lti, .ltv, .nls] [0, 0, 0]
    [(0, .own (.assign ⟨3, 1⟩)), (1, .assignFrom 0), (0, .own .call), (0, .own (.reset ⟨0, 1⟩)), (1, .own .call),
     (2, .refFrom 1), (1, .refFrom 0), (1, .resetFrom 2)]
    = [[3, 0, 0], [3, 3, 0], [4, 3, 0], [0, 3, 0], [0, 4, 0], [0, 4, 0], [0, 0, 0], [0, 0, 0]] := by decide

/-- e.g. `f = t − 16777216` (exact integer arithmetic on the time stamp) tells `2^24` and `2^24 + 1` apart -/
example : (Fn.sub (.var 2) (.const false 16777216 1)).eval (mkEnv [(0 : ℝ)] [(0 : ℝ)] (ofInt 16777217)) = 1 ∧
    (Fn.sub (.var 2) (.const false 16777216 1)).eval (mkEnv [(0 : ℝ)] [(0 : ℝ)] (ofInt 16777216)) = 0 := by
  constructor
  · simp [Fn.eval, mkEnv]; norm_num
  · simp [Fn.eval, mkEnv]

/-! ### 11. Affine trees: the first-order expansion is exact -/

/-- a coefficient (no variable below `nv`) has the same value at two environments that agree from `nv` on -/
theorem eval_free (nv : ℕ) (p p' : ℕ → ℝ) (hp : ∀ j, nv ≤ j → p' j = p j) (e : Fn) (he : e.freeOf nv = true) :
    e.eval p' = e.eval p := by
  induction e with
  | const s a b => simp [Fn.eval]
  | var i => simp only [Fn.freeOf, decide_eq_true_eq] at he; simp [Fn.eval, hp i he]
  | add a b iha ihb => simp only [Fn.freeOf, Bool.and_eq_true] at he; simp [Fn.eval, iha he.1, ihb he.2]
  | sub a b iha ihb => simp only [Fn.freeOf, Bool.and_eq_true] at he; simp [Fn.eval, iha he.1, ihb he.2]
  | mul a b iha ihb => simp only [Fn.freeOf, Bool.and_eq_true] at he; simp [Fn.eval, iha he.1, ihb he.2]
  | neg a iha => simp only [Fn.freeOf] at he; simp [Fn.eval, iha he]
  | sin a iha => simp only [Fn.freeOf] at he; simp [Fn.eval, iha he]
  | cos a iha => simp only [Fn.freeOf] at he; simp [Fn.eval, iha he]
  | pow a n iha => simp only [Fn.freeOf] at he; simp [Fn.eval, iha he]

/-- the partial derivatives of a coefficient with respect to the variables below `nv` vanish -/
theorem D_free (nv : ℕ) (p : ℕ → ℝ) (v : ℕ) (hv : v < nv) (e : Fn) (he : e.freeOf nv = true) :
    (e.D v).eval p = 0 := by
  induction e with
  | const s a b => simp [Fn.D, Fn.zero, Fn.eval]
  | var i =>
    simp only [Fn.freeOf, decide_eq_true_eq] at he
    have : i ≠ v := by omega
    simp [Fn.D, this, Fn.zero, Fn.eval]
  | add a b iha ihb => simp only [Fn.freeOf, Bool.and_eq_true] at he; simp [Fn.D, Fn.eval, iha he.1, ihb he.2]
  | sub a b iha ihb => simp only [Fn.freeOf, Bool.and_eq_true] at he; simp [Fn.D, Fn.eval, iha he.1, ihb he.2]
  | mul a b iha ihb => simp only [Fn.freeOf, Bool.and_eq_true] at he; simp [Fn.D, Fn.eval, iha he.1, ihb he.2]
  | neg a iha => simp only [Fn.freeOf] at he; simp [Fn.D, Fn.eval, iha he]
  | sin a iha => simp only [Fn.freeOf] at he; simp [Fn.D, Fn.eval, iha he]
  | cos a iha => simp only [Fn.freeOf] at he; simp [Fn.D, Fn.eval, iha he]
  | pow a n iha =>
    simp only [Fn.freeOf] at he
    cases n with
    | zero => simp [Fn.D, Fn.zero, Fn.eval]
    | succ n => simp [Fn.D, Fn.eval, iha he]

/-- **An affine tree equals its first-order expansion** at every point: `e(p') = e(p) + Σ_{v < nv} ∂_v e(p)·(p'_v − p_v)`
for environments that agree from `nv` on (same time). -/
theorem affine_expansion (nv : ℕ) (p p' : ℕ → ℝ) (hp : ∀ j, nv ≤ j → p' j = p j) (e : Fn) (he : e.affineIn nv = true) :
    e.eval p' = e.eval p + linPart (Finset.range nv) p e (fun v => p' v - p v) := by
  have lin0 : ∀ f : Fn, f.freeOf nv = true → linPart (Finset.range nv) p f (fun v => p' v - p v) = 0 := by
    intro f hf
    unfold linPart
    exact Finset.sum_eq_zero fun v hv => by rw [D_free nv p v (Finset.mem_range.mp hv) f hf]; ring
  induction e with
  | const s a b => simp [linPart, Fn.D, Fn.zero, Fn.eval]
  | var i =>
    simp only [linPart, Fn.D, Fn.eval]
    by_cases hi : i < nv
    · rw [Finset.sum_eq_single i]
      · simp [Fn.one, Fn.eval]
      · intro b _ hb; simp [Ne.symm hb, Fn.zero, Fn.eval]
      · intro h; exact absurd (Finset.mem_range.mpr hi) h
    · rw [Finset.sum_eq_zero, hp i (by omega)]
      · ring
      · intro v hv
        have : i ≠ v := by have := Finset.mem_range.mp hv; omega
        simp [this, Fn.zero, Fn.eval]
  | add a b iha ihb =>
    simp only [Fn.affineIn, Bool.and_eq_true] at he
    have e1 : linPart (Finset.range nv) p (a.add b) (fun v => p' v - p v)
        = linPart (Finset.range nv) p a (fun v => p' v - p v) + linPart (Finset.range nv) p b (fun v => p' v - p v) := by
      simp only [linPart, Fn.D, Fn.eval, ← Finset.sum_add_distrib]
      exact Finset.sum_congr rfl fun v _ => by ring
    simp only [Fn.eval, e1, iha he.1, ihb he.2]; ring
  | sub a b iha ihb =>
    simp only [Fn.affineIn, Bool.and_eq_true] at he
    have e1 : linPart (Finset.range nv) p (a.sub b) (fun v => p' v - p v)
        = linPart (Finset.range nv) p a (fun v => p' v - p v) - linPart (Finset.range nv) p b (fun v => p' v - p v) := by
      simp only [linPart, Fn.D, Fn.eval, ← Finset.sum_sub_distrib]
      exact Finset.sum_congr rfl fun v _ => by ring
    simp only [Fn.eval, e1, iha he.1, ihb he.2]; ring
  | mul a b iha ihb =>
    have e1 : linPart (Finset.range nv) p (a.mul b) (fun v => p' v - p v)
        = linPart (Finset.range nv) p a (fun v => p' v - p v) * b.eval p + a.eval p * linPart (Finset.range nv) p b (fun v => p' v - p v) := by
      simp only [linPart, Fn.D, Fn.eval, Finset.sum_mul, Finset.mul_sum, ← Finset.sum_add_distrib]
      exact Finset.sum_congr rfl fun v _ => by ring
    simp only [Fn.affineIn, Bool.or_eq_true, Bool.and_eq_true] at he
    rcases he with ⟨ha, hb⟩ | ⟨ha, hb⟩
    · simp only [Fn.eval, e1, eval_free nv p p' hp a ha, ihb hb, lin0 a ha]; ring
    · simp only [Fn.eval, e1, eval_free nv p p' hp b hb, iha ha, lin0 b hb]; ring
  | neg a iha =>
    simp only [Fn.affineIn] at he
    have e1 : linPart (Finset.range nv) p a.neg (fun v => p' v - p v) = - linPart (Finset.range nv) p a (fun v => p' v - p v) := by
      simp only [linPart, Fn.D, Fn.eval, ← Finset.sum_neg_distrib]
      exact Finset.sum_congr rfl fun v _ => by ring
    simp only [Fn.eval, e1, iha he]; ring
  | sin a _ =>
    simp only [Fn.affineIn] at he
    have hf : (Fn.sin a).freeOf nv = true := by simpa [Fn.freeOf] using he
    rw [eval_free nv p p' hp _ hf, lin0 _ hf]; ring
  | cos a _ =>
    simp only [Fn.affineIn] at he
    have hf : (Fn.cos a).freeOf nv = true := by simpa [Fn.freeOf] using he
    rw [eval_free nv p p' hp _ hf, lin0 _ hf]; ring
  | pow a n _ =>
    simp only [Fn.affineIn, Bool.or_eq_true, beq_iff_eq] at he
    rcases he with he | he
    · have hf : (Fn.pow a n).freeOf nv = true := by simpa [Fn.freeOf] using he
      rw [eval_free nv p p' hp _ hf, lin0 _ hf]; ring
    · subst he
      simp [linPart, Fn.D, Fn.zero, Fn.eval, npow]

/-- the partial derivatives of an affine tree are coefficients: the same at two environments that agree from `nv` on -/
theorem D_affine_const (nv : ℕ) (p p' : ℕ → ℝ) (hp : ∀ j, nv ≤ j → p' j = p j) (v : ℕ) (hv : v < nv) (e : Fn)
    (he : e.affineIn nv = true) : (e.D v).eval p' = (e.D v).eval p := by
  induction e with
  | const s a b => simp [Fn.D]
  | var i => by_cases h : i = v <;> simp [Fn.D, h, Fn.one, Fn.zero, Fn.eval]
  | add a b iha ihb => simp only [Fn.affineIn, Bool.and_eq_true] at he; simp [Fn.D, Fn.eval, iha he.1, ihb he.2]
  | sub a b iha ihb => simp only [Fn.affineIn, Bool.and_eq_true] at he; simp [Fn.D, Fn.eval, iha he.1, ihb he.2]
  | mul a b iha ihb =>
    simp only [Fn.affineIn, Bool.or_eq_true, Bool.and_eq_true] at he
    rcases he with ⟨ha, hb⟩ | ⟨ha, hb⟩
    · simp [Fn.D, Fn.eval, D_free nv p v hv a ha, D_free nv p' v hv a ha, eval_free nv p p' hp a ha, ihb hb]
    · simp [Fn.D, Fn.eval, D_free nv p v hv b hb, D_free nv p' v hv b hb, eval_free nv p p' hp b hb, iha ha]
  | neg a iha => simp only [Fn.affineIn] at he; simp [Fn.D, Fn.eval, iha he]
  | sin a _ =>
    simp only [Fn.affineIn] at he
    have hf : (Fn.sin a).freeOf nv = true := by simpa [Fn.freeOf] using he
    rw [D_free nv p v hv _ hf, D_free nv p' v hv _ hf]
  | cos a _ =>
    simp only [Fn.affineIn] at he
    have hf : (Fn.cos a).freeOf nv = true := by simpa [Fn.freeOf] using he
    rw [D_free nv p v hv _ hf, D_free nv p' v hv _ hf]
  | pow a n _ =>
    simp only [Fn.affineIn, Bool.or_eq_true, beq_iff_eq] at he
    rcases he with he | he
    · have hf : (Fn.pow a n).freeOf nv = true := by simpa [Fn.freeOf] using he
      rw [D_free nv p v hv _ hf, D_free nv p' v hv _ hf]
    · subst he; simp [Fn.D]


/-- environments built from vectors of the same lengths at the same time agree on every variable that is not a state /
input entry -/
theorem mkEnv_agree (x u : DVec ℝ) (t : ℝ) (x' u' : DVec ℝ) (hx : x'.length = x.length) (hu : u'.length = u.length) :
    ∀ j, x.length + u.length ≤ j → mkEnv x' u' t j = mkEnv x u t j := fun j hj =>
  sub_eq_zero.mp (mkEnv_diff_support x u t x' u' hx hu j (by simpa using hj))

/-! ### 12. A linear time-variant system written as an `NLS` (`Fn.lincomb`, `Fn.affRow`) -/

theorem lincomb_free_affine (nv : ℕ) (cs : List Fn) (hc : ∀ c ∈ cs, c.freeOf nv = true) (lo : ℕ) :
    (Fn.lincomb lo cs).affineIn nv = true := by
  induction cs generalizing lo with
  | nil => simp [Fn.lincomb, Fn.zero, Fn.affineIn]
  | cons c cs ih =>
    have h1 := hc c (by simp)
    have h2 := ih (fun c' hc' => hc c' (by simp [hc'])) (lo + 1)
    simp [Fn.lincomb, Fn.affineIn, h1, h2]

/-- a coefficient is in particular affine -/
theorem free_affine (nv : ℕ) (c : Fn) (e : c.freeOf nv = true) : c.affineIn nv = true := by
  induction c with
  | const s a b => rfl
  | var i => rfl
  | add a b iha ihb => simp only [Fn.freeOf, Bool.and_eq_true] at e; simp [Fn.affineIn, iha e.1, ihb e.2]
  | sub a b iha ihb => simp only [Fn.freeOf, Bool.and_eq_true] at e; simp [Fn.affineIn, iha e.1, ihb e.2]
  | mul a b iha ihb => simp only [Fn.freeOf, Bool.and_eq_true] at e; simp [Fn.affineIn, e.1, ihb e.2]
  | neg a iha => simp only [Fn.freeOf] at e; simp [Fn.affineIn, iha e]
  | sin a _ => simp only [Fn.freeOf] at e; simp [Fn.affineIn, e]
  | cos a _ => simp only [Fn.freeOf] at e; simp [Fn.affineIn, e]
  | pow a n _ => simp only [Fn.freeOf] at e; simp [Fn.affineIn, e]

theorem affRow_affine (nv nx : ℕ) (a b : List Fn) (c : Fn) (ha : ∀ e ∈ a, e.freeOf nv = true)
    (hb : ∀ e ∈ b, e.freeOf nv = true) (hc : c.freeOf nv = true) : (Fn.affRow nx a b c).affineIn nv = true := by
  simp [Fn.affRow, Fn.affineIn, lincomb_free_affine nv a ha 0, lincomb_free_affine nv b hb nx, free_affine nv c hc]

/-- the partial derivative of `Σ_j c_j · var (lo + j)` with respect to variable `v` is the coefficient `c_{v - lo}` (0 outside) -/
theorem D_lincomb (nv : ℕ) (p : ℕ → ℝ) (v : ℕ) (hv : v < nv) (cs : List Fn) (hc : ∀ c ∈ cs, c.freeOf nv = true) (lo : ℕ) :
    ((Fn.lincomb lo cs).D v).eval p = if lo ≤ v then (cs.getD (v - lo) Fn.zero).eval p else 0 := by
  induction cs generalizing lo with
  | nil => simp [Fn.lincomb, Fn.D, Fn.zero, Fn.eval]
  | cons c cs ih =>
    have h1 := D_free nv p v hv c (hc c (by simp))
    have h2 := ih (fun c' hc' => hc c' (by simp [hc'])) (lo + 1)
    simp only [Fn.lincomb, Fn.D, Fn.eval, h1, h2, zero_mul, zero_add]
    rcases Nat.lt_trichotomy lo v with h | h | h
    · have e1 : lo ≠ v := by omega
      have e2 : v - lo = (v - (lo + 1)) + 1 := by omega
      simp [e1, Fn.zero, Fn.eval, show lo + 1 ≤ v by omega, show lo ≤ v by omega, e2]
    · subst h
      simp [Fn.one, Fn.eval]
    · have e1 : lo ≠ v := by omega
      simp [e1, Fn.zero, Fn.eval, show ¬ lo + 1 ≤ v by omega, show ¬ lo ≤ v by omega]


/-- a linear combination of variables that are all zero is zero -/
theorem eval_lincomb_zero (p : ℕ → ℝ) (cs : List Fn) (lo : ℕ) (hz : ∀ j, lo ≤ j → j < lo + cs.length → p j = 0) :
    (Fn.lincomb lo cs).eval p = 0 := by
  induction cs generalizing lo with
  | nil => simp [Fn.lincomb, Fn.zero, Fn.eval]
  | cons c cs ih =>
    have h1 : p lo = 0 := hz lo (le_refl _) (by simp)
    have h2 := ih (lo + 1) (fun j hj1 hj2 => hz j (by omega) (by simp only [List.length_cons]; omega))
    simp [Fn.lincomb, Fn.eval, h1, h2]

/-- the environment of the origin: every state / input variable is 0 -/
theorem mkEnv_origin (n m : ℕ) (t : ℝ) (j : ℕ) (hj : j < n + m) :
    mkEnv (List.replicate n (0 : ℝ)) (List.replicate m (0 : ℝ)) t j = 0 := by
  unfold mkEnv
  simp only [List.length_replicate]
  by_cases h : j < n
  · simp [h, List.getD_eq_getElem?_getD]
  · simp [h, hj, List.getD_eq_getElem?_getD]
    have : j - n < m := by omega
    simp [this]

/-- a dot product with a zero vector is zero -/
theorem dot_replicate_zero (r : List ℝ) (n : ℕ) : DVec.dot r (List.replicate n (0 : ℝ)) = 0 := by
  induction r generalizing n with
  | nil => simp [dot_real]
  | cons a as ih =>
    cases n with
    | zero => simp [dot_real]
    | succ n => rw [List.replicate_succ, dot_cons, ih]; ring

/-- **the value of the affine model at the origin is its constant term**: `(A·0 + B·0 + c1)_i = c1_i` on the fields of the
linearisation -/
theorem predict_origin (fs gs : List Fn) (x u : DVec ℝ) (t : ℝ) (i : ℕ) (hi : i < fs.length) :
    ((linearize fs gs x u t).predict (List.replicate x.length 0) (List.replicate u.length 0)).1.getD i 0
      = (linearize fs gs x u t).c1.getD i 0 := by
  have lA : ∀ w : DVec ℝ, (bmv (jac fs 0 x.length (mkEnv x u t)) w).length = fs.length := by
    intro w; simp [bmv, DMat.mulVec, jac]
  have lB : ∀ w : DVec ℝ, (bmv (jac fs x.length u.length (mkEnv x u t)) w).length = fs.length := by
    intro w; simp [bmv, DMat.mulVec, jac]
  have lf : (evalAll fs (mkEnv x u t)).length = fs.length := by simp [evalAll]
  have lc : (linearize fs gs x u t).c1.length = fs.length := by
    simp [linearize, linAt, DVec.sub, lA, lB, lf]
  have hA : (linearize fs gs x u t).A = jac fs 0 x.length (mkEnv x u t) := rfl
  have hB : (linearize fs gs x u t).B = jac fs x.length u.length (mkEnv x u t) := rfl
  unfold Lin.predict
  simp only
  unfold DVec.add
  rw [getD_zipWith _ _ _ _ (by simp [hA, hB, lA, lB, hi]) (by rw [lc]; exact hi),
    getD_zipWith _ _ _ _ (by simp [hA, lA, hi]) (by simp [hB, lB, hi]),
    bmv_getD _ _ _ (by simp [hA, jac, hi]), bmv_getD _ _ _ (by simp [hB, jac, hi]),
    dot_replicate_zero, dot_replicate_zero]
  ring

end PP.Dyn
