import Proofs.Lemmas.ScanApprox
import Proofs.Lemmas.GroupAux
import Proofs.Props.C03
set_option maxRecDepth 2000
/-! Rounded products: an exactly associative operation that is an isometry in each argument (products of unit quaternions),
followed by a rounding map with uniform error `u`, is `ApproxAssoc 1 (4u) (2u)`; hence the doubling scan of the ROUNDED
product stays within an explicit distance of the EXACT ordered product. -/
namespace PP.Scan
variable {α : Type}

/-- exactly associative, isometric in each argument, in a pseudo-metric `d` -/
structure ExactIso (op : α → α → α) (d : α → α → ℝ) : Prop where
  d_self : ∀ a, d a a = 0
  d_symm : ∀ a b, d a b = d b a
  d_tri : ∀ a b c, d a c ≤ d a b + d b c
  d_nonneg : ∀ a b, 0 ≤ d a b
  assoc : ∀ a b c, op (op a b) c = op a (op b c)
  isoL : ∀ a b c, d (op a c) (op b c) = d a b
  isoR : ∀ a b c, d (op c a) (op c b) = d a b

/-- the rounded operation -/
def rounded (fl : α → α) (op : α → α → α) : α → α → α := fun a b => fl (op a b)

theorem approxAssoc_of_rounding {op : α → α → α} {d : α → α → ℝ} (H : ExactIso op d) (fl : α → α) (u : ℝ) (hu : 0 ≤ u)
    (hfl : ∀ x, d (fl x) x ≤ u) : ApproxAssoc (rounded fl op) d 1 (4 * u) (2 * u) where
  d_self := H.d_self
  d_symm := H.d_symm
  d_tri := H.d_tri
  d_nonneg := H.d_nonneg
  one_le := le_refl 1
  eps_nonneg := by linarith
  delta_nonneg := by linarith
  lipL := by
    intro a b c
    unfold rounded
    have h1 := hfl (op a c)
    have h2 := hfl (op b c)
    rw [H.d_symm] at h2
    have t1 := H.d_tri (fl (op a c)) (op a c) (fl (op b c))
    have t2 := H.d_tri (op a c) (op b c) (fl (op b c))
    rw [H.isoL] at t2
    linarith
  lipR := by
    intro a b c
    unfold rounded
    have h1 := hfl (op c a)
    have h2 := hfl (op c b)
    rw [H.d_symm] at h2
    have t1 := H.d_tri (fl (op c a)) (op c a) (fl (op c b))
    have t2 := H.d_tri (op c a) (op c b) (fl (op c b))
    rw [H.isoR] at t2
    linarith
  assoc := by
    intro a b c
    unfold rounded
    -- X = fl ((fl (a∘b)) ∘ c),  Y = fl (a ∘ fl (b∘c))
    have x1 := hfl (op (fl (op a b)) c)
    have x2 : d (op (fl (op a b)) c) (op (op a b) c) ≤ u := by rw [H.isoL]; exact hfl _
    have x3 : d (op (op a b) c) (op a (op b c)) = 0 := by rw [H.assoc]; exact H.d_self _
    have x4 : d (op a (op b c)) (op a (fl (op b c))) ≤ u := by rw [H.isoR, H.d_symm]; exact hfl _
    have x5 := hfl (op a (fl (op b c)))
    rw [H.d_symm] at x5
    have t1 := H.d_tri (fl (op (fl (op a b)) c)) (op (fl (op a b)) c) (fl (op a (fl (op b c))))
    have t2 := H.d_tri (op (fl (op a b)) c) (op (op a b) c) (fl (op a (fl (op b c))))
    have t3 := H.d_tri (op (op a b) c) (op a (op b c)) (fl (op a (fl (op b c))))
    have t4 := H.d_tri (op a (op b c)) (op a (fl (op b c))) (fl (op a (fl (op b c))))
    linarith

/-- the sequential fold of the rounded operation drifts from the exact fold by at most `n·u` after `n` products -/
theorem seg_rounded_vs_exact {op : α → α → α} {d : α → α → ℝ} (H : ExactIso op d) (fl : α → α) (u : ℝ)
    (hfl : ∀ x, d (fl x) x ≤ u) (v : Nat → α) (a : Nat) :
    ∀ n : Nat, d (seg (rounded fl op) v a n) (seg op v a n) ≤ n * u := by
  intro n
  induction n with
  | zero => simp [seg, H.d_self]
  | succ n ih =>
    simp only [seg, rounded]
    have h1 := hfl (op (seg (rounded fl op) v a n) (v (a + n + 1)))
    have h2 : d (op (seg (rounded fl op) v a n) (v (a + n + 1))) (op (seg op v a n) (v (a + n + 1))) ≤ n * u := by
      rw [H.isoL]; exact ih
    have t := H.d_tri (fl (op (seg (rounded fl op) v a n) (v (a + n + 1)))) (op (seg (rounded fl op) v a n) (v (a + n + 1)))
      (op (seg op v a n) (v (a + n + 1)))
    push_cast
    unfold rounded at h1 h2 t ⊢
    linarith


/-! ### unit quaternions -/
open PP


/-- unit quaternions -/
def UQ := { q : Quat ℝ // SO3.Valid q }

noncomputable def UQ.mul (a b : UQ) : UQ := ⟨a.1.mul b.1, SO3_valid_mul a.1 b.1 a.2 b.2⟩
noncomputable def UQ.dist (a b : UQ) : ℝ := Real.sqrt (Quat.dist2 a.1 b.1)

def qsub (p q : Quat ℝ) : Quat ℝ := ⟨p.x - q.x, p.y - q.y, p.z - q.z, p.w - q.w⟩

theorem normSq_qsub (p q : Quat ℝ) : (qsub p q).normSq = Quat.dist2 p q := by
  unfold qsub Quat.dist2; lie_unfold; ring

theorem dist2_qsub (a b c : Quat ℝ) : Quat.dist2 (qsub a c) (qsub b c) = Quat.dist2 a b := by
  unfold qsub Quat.dist2; ring

theorem dist_tri (a b c : Quat ℝ) :
    Real.sqrt (Quat.dist2 a c) ≤ Real.sqrt (Quat.dist2 a b) + Real.sqrt (Quat.dist2 b c) := by
  have h := Quat.nrm_le_add (qsub a c) (qsub b c)
  unfold Quat.nrm at h
  rw [normSq_qsub, normSq_qsub, dist2_qsub] at h
  linarith

theorem dist2_mul_right (a b c : Quat ℝ) : Quat.dist2 (a.mul c) (b.mul c) = Quat.dist2 a b * c.normSq := by
  unfold Quat.dist2; lie_unfold; ring

theorem dist2_mul_left (a b c : Quat ℝ) : Quat.dist2 (c.mul a) (c.mul b) = c.normSq * Quat.dist2 a b := by
  unfold Quat.dist2; lie_unfold; ring


theorem UQ.normSq_one (a : UQ) : a.1.normSq = 1 := by
  have := a.2; unfold SO3.Valid at this; exact this


/-- products of unit quaternions in the Euclidean (chordal) metric: exactly associative, isometric in each argument -/
theorem unitQuat_exactIso : ExactIso UQ.mul UQ.dist where
  d_self := by intro a; unfold UQ.dist Quat.dist2; simp
  d_symm := by intro a b; unfold UQ.dist; rw [Quat.dist2_comm]
  d_tri := by intro a b c; exact dist_tri a.1 b.1 c.1
  d_nonneg := by intro a b; exact Real.sqrt_nonneg _
  assoc := by intro a b c; apply Subtype.ext; exact SO3_mul_assoc a.1 b.1 c.1
  isoL := by
    intro a b c
    unfold UQ.dist UQ.mul
    simp only
    rw [dist2_mul_right, UQ.normSq_one, mul_one]
  isoR := by
    intro a b c
    unfold UQ.dist UQ.mul
    simp only
    rw [dist2_mul_left, UQ.normSq_one, one_mul]

end PP.Scan
