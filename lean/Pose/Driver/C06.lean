import Pose.Wire
/-! Driver ops for C06. -/
namespace PP.Driver
open PP Wire

def opsC06 : List (String × Handler) := []

end PP.Driver
