import Pose.Model.Align
/-!
# Model of the tail of `pypose/module/pnp.py: EPnP` — `_compute_scale` and `_compute_solution`

EPnP represents every world point as a barycentric combination of four control points (`alpha`, rows summing to 1) and
obtains the control points *in the camera frame* up to an unknown factor from the null space of a 2N×12 matrix (external
kernels `svd`, `solve`, `eig`, `lstsq`: not modelled).  What follows the kernels is modelled here, same order of
operations as the code:

`_compute_scale(bases, alpha, points)`:
  `transp = alpha @ bases` · `dw = ‖points − mean‖`, `dc = ‖transp − mean‖` · `scale = ⟨dc,dw⟩ / ⟨dc,dc⟩` ·
  `bases *= scale` · `scalep = alpha @ bases` · `mask = any(scalep.z < 0)` · `sign = 1 − 2·mask` ·
  returns `(bases, sign·scalep, sign·scale)`;
`_compute_solution`: `pose = svdtf(points, scalep)`.
-/
namespace PP.Pnp
open PP.Align

variable {α : Type} [Scalar α]

/-- one row of `alpha`: the barycentric weights of a point w.r.t. the four control points -/
structure W4 (α : Type) where
  a0 : α
  a1 : α
  a2 : α
  a3 : α
deriving Inhabited

/-- the four control points (`bases.unflatten(-1, (4, 3))`) -/
structure Ctrl (α : Type) where
  c0 : Vec3 α
  c1 : Vec3 α
  c2 : Vec3 α
  c3 : Vec3 α
deriving Inhabited

def W4.sum (w : W4 α) : α := w.a0 + w.a1 + w.a2 + w.a3

/-- one row of `alpha @ bases` -/
def combine (w : W4 α) (c : Ctrl α) : Vec3 α :=
  ((c.c0.smul w.a0).add (c.c1.smul w.a1)).add ((c.c2.smul w.a2).add (c.c3.smul w.a3))

def Ctrl.map (f : Vec3 α → Vec3 α) (c : Ctrl α) : Ctrl α := ⟨f c.c0, f c.c1, f c.c2, f c.c3⟩
def Ctrl.smul (s : α) (c : Ctrl α) : Ctrl α := c.map (·.smul s)
def Ctrl.toList (c : Ctrl α) : List α := c.c0.toList ++ c.c1.toList ++ c.c2.toList ++ c.c3.toList

/-- `(cloud − cloud.mean(dim=-2)).norm(dim=-1)` -/
def spread (ps : Cloud α) : List α :=
  let m := mean ps
  ps.map fun p => (p.sub m).norm

/-- `vecdot` -/
def sdot (a b : List α) : α := ssum (List.zipWith (· * ·) a b)

/-- `EPnP._compute_scale`: `(bases, scalep, scale)` -/
def computeScale (c : Ctrl α) (alpha : List (W4 α)) (points : Cloud α) : Ctrl α × Cloud α × α :=
  let transp := alpha.map (combine · c)
  let dw := spread points
  let dc := spread transp
  let scale := sdot dc dw / sdot dc dc
  let c' := c.smul scale
  let scalep := alpha.map (combine · c')
  let sign : α := if scalep.any (fun p => Scalar.lt p.z (k 0)) then -(k 1) else k 1
  (c', scalep.map (·.smul sign), sign * scale)

/-- `EPnP._compute_solution` after `bases = nullvᵀ β`: `(pose, scale)` -/
def computeSolution (svd : Mat3 α → SVD3 α) (detK : Mat3 α → α) (atol : α) (c : Ctrl α) (alpha : List (W4 α))
    (points : Cloud α) : SE3 α × α :=
  let r := computeScale c alpha points
  (svdtf svd detK atol (points.zip r.2.1), r.2.2)

end PP.Pnp
