import Pose.Model.LogExp
/-!
# C02 — the glue around the modelled cores: `LieType` table, dispatch of `Log` / `Exp` / `Inv`, shapes, dtype epsilon

Model of the parts of `pypose/lietensor/lietensor.py` that sit between the user's call `X.Log()` and the
autograd functions of `operation.py`:

* the eight `LieType` singletons with their `(dimension, embedding, manifold)` triples, `on_manifold`;
* `LieTensor.__init__`'s assertion (last extent = `ltype.dimension`) — error kind `AssertionError`;
* `LieType.Log` / `LieType.Exp`: group types dispatch to `SO3_Log … Sim3_Log` and return the algebra type, algebra types
  raise `AttributeError` (and the other way round for `Exp`); `Inv` is the group inverse on group types and `-x` on
  algebra types;
* batching: a tensor of shape `(*, dimension)` is a row-major list of items, the result has shape `(*, dimension')`;
* `torch.finfo(dtype).eps`, the threshold every branch of `operation.py` uses, as a function of the dtype.
-/
namespace PP

variable {α : Type} [Scalar α]

/-- the eight `LieType` singletons of `lietensor.py` -/
inductive LType | SO3 | so3 | SE3 | se3 | Sim3 | sim3 | RxSO3 | rxso3
deriving DecidableEq, Repr, Inhabited

namespace LType

/-- `super().__init__(dimension, embedding, manifold)` of every `LieType` subclass -/
def dimension : LType → Nat
  | SO3 => 4 | so3 => 3 | SE3 => 7 | se3 => 6 | Sim3 => 8 | sim3 => 7 | RxSO3 => 5 | rxso3 => 4
def embedding : LType → Nat
  | SO3 => 4 | so3 => 4 | SE3 => 7 | se3 => 7 | Sim3 => 8 | sim3 => 8 | RxSO3 => 5 | rxso3 => 5
def manifold : LType → Nat
  | SO3 => 3 | so3 => 3 | SE3 => 6 | se3 => 6 | Sim3 => 7 | sim3 => 7 | RxSO3 => 4 | rxso3 => 4

/-- `LieType.on_manifold` : `dimension == manifold` (true exactly for the Lie-algebra types) -/
def onManifold (t : LType) : Bool := t.dimension == t.manifold

def name : LType → String
  | SO3 => "SO3" | so3 => "so3" | SE3 => "SE3" | se3 => "se3" | Sim3 => "Sim3" | sim3 => "sim3"
  | RxSO3 => "RxSO3" | rxso3 => "rxso3"

def all : List LType := [SO3, so3, SE3, se3, Sim3, sim3, RxSO3, rxso3]

def ofName (s : String) : Option LType := all.find? (fun t => t.name == s)

/-- type returned by `Log`: the algebra of a group type; `LieType.Log` raises `AttributeError` on algebra types -/
def logType : LType → Except String LType
  | SO3 => .ok so3 | SE3 => .ok se3 | Sim3 => .ok sim3 | RxSO3 => .ok rxso3
  | _ => .error "AttributeError"

/-- type returned by `Exp`: the group of an algebra type; `LieType.Exp` raises `AttributeError` on group types -/
def expType : LType → Except String LType
  | so3 => .ok SO3 | se3 => .ok SE3 | sim3 => .ok Sim3 | rxso3 => .ok RxSO3
  | _ => .error "AttributeError"

end LType

/-- floating-point dtypes of torch -/
inductive DType | float64 | float32 | float16 | bfloat16
deriving DecidableEq, Repr, Inhabited

namespace DType
def name : DType → String
  | float64 => "float64" | float32 => "float32" | float16 => "float16" | bfloat16 => "bfloat16"
def all : List DType := [float64, float32, float16, bfloat16]
def ofName (s : String) : Option DType := all.find? (fun d => d.name == s)
/-- number of stored fraction bits: `torch.finfo(dtype).eps = 2^-bits` -/
def fracBits : DType → Nat
  | float64 => 52 | float32 => 23 | float16 => 10 | bfloat16 => 7
/-- `torch.finfo(dtype).eps` — the threshold of every branch test in `operation.py` -/
def eps (d : DType) : α := q 1 (2 ^ d.fracBits)
end DType

/-! ## items from / to storage order -/

def lget (l : List α) (i : Nat) : α := l.getD i (k 0)
def vec3At (l : List α) (o : Nat) : Vec3 α := ⟨lget l o, lget l (o + 1), lget l (o + 2)⟩
def quatAt (l : List α) (o : Nat) : Quat α := ⟨lget l o, lget l (o + 1), lget l (o + 2), lget l (o + 3)⟩
def SE3.ofList (l : List α) : SE3 α := ⟨vec3At l 0, quatAt l 3⟩
def RxSO3.ofList (l : List α) : RxSO3 α := ⟨quatAt l 0, lget l 4⟩
def Sim3.ofList (l : List α) : Sim3 α := ⟨vec3At l 0, quatAt l 3, lget l 7⟩
def se3.ofList (l : List α) : se3 α := ⟨vec3At l 0, vec3At l 3⟩
def rxso3.ofList (l : List α) : rxso3 α := ⟨vec3At l 0, lget l 3⟩
def sim3.ofList (l : List α) : sim3 α := ⟨vec3At l 0, vec3At l 3, lget l 6⟩

/-! ## dispatch on one item -/

/-- `LieTensor(item, ltype=t).Log()` : constructor assertion, then `LieType.Log` dispatch -/
def lieLogItem (t : LType) (eps : α) (item : List α) : Except String (List α) :=
  if item.length != t.dimension then .error "AssertionError" else
  match t with
  | .SO3 => .ok (SO3Log eps (quatAt item 0)).toList
  | .SE3 => .ok (SE3Log eps (SE3.ofList item)).toList
  | .RxSO3 => .ok (RxSO3Log eps (RxSO3.ofList item)).toList
  | .Sim3 => .ok (Sim3Log eps (Sim3.ofList item)).toList
  | _ => .error "AttributeError"

/-- `LieTensor(item, ltype=t).Exp()` -/
def lieExpItem (t : LType) (eps : α) (item : List α) : Except String (List α) :=
  if item.length != t.dimension then .error "AssertionError" else
  match t with
  | .so3 => .ok (so3Exp eps (vec3At item 0)).toList
  | .se3 => .ok (se3Exp eps (se3.ofList item)).toList
  | .rxso3 => .ok (rxso3Exp eps (rxso3.ofList item)).toList
  | .sim3 => .ok (sim3Exp eps (sim3.ofList item)).toList
  | _ => .error "AttributeError"

/-- `LieTensor(item, ltype=t).Inv()` : group inverse on group types, `-x` on algebra types (`LieType.Inv`) -/
def lieInvItem (t : LType) (item : List α) : Except String (List α) :=
  if item.length != t.dimension then .error "AssertionError" else
  match t with
  | .SO3 => .ok (quatAt item 0).conj.toList
  | .SE3 => .ok (SE3Inv (SE3.ofList item)).toList
  | .RxSO3 => .ok (RxSO3Inv (RxSO3.ofList item)).toList
  | .Sim3 => .ok (Sim3Inv (Sim3.ofList item)).toList
  | _ => .ok (item.map (fun x => -x))

/-! ## batches: shape `(*, dimension)`, row-major data -/

/-- number of items of a batch shape (all extents but the last) -/
def batchCount (shape : List Nat) : Nat := shape.dropLast.foldl (· * ·) 1

/-- cut a flat row-major buffer into rows of width `w` -/
def chunksAux {β : Type} (w : Nat) : Nat → List β → List (List β)
  | 0, _ => []
  | fuel + 1, l => if l.isEmpty || w == 0 then [] else l.take w :: chunksAux w fuel (l.drop w)
def chunks {β : Type} (w : Nat) (l : List β) : List (List β) := chunksAux w l.length l

/-- apply a partial item op to every row; the first refusal aborts the call -/
def mapE {β γ : Type} (f : β → Except String γ) : List β → Except String (List γ)
  | [] => .ok []
  | x :: xs => match f x with
    | .error e => .error e
    | .ok y => match mapE f xs with
      | .error e => .error e
      | .ok ys => .ok (y :: ys)

/-- result shape of an op that maps items of type `t` to items of type `t'` -/
def outShape (t' : LType) (shape : List Nat) : List Nat := shape.dropLast ++ [t'.dimension]

/-- the constructor assertion on the whole tensor: rank ≥ 1, last extent = `dimension`, buffer size = product -/
def shapeOk (t : LType) (shape : List Nat) (n : Nat) : Bool :=
  shape.getLast? == some t.dimension && n == batchCount shape * t.dimension

/-- a batched call: `(ltype', shape', data')` or the error kind of the first refusal -/
def lieBatch (item : List α → Except String (List α)) (t : LType) (t' : Except String LType) (shape : List Nat)
    (data : List α) : Except String (LType × List Nat × List α) :=
  if !shapeOk t shape data.length then .error "AssertionError" else
  match t' with
  | .error e => .error e
  | .ok t' =>
    match mapE item (chunks t.dimension data) with
    | .error e => .error e
    | .ok rows => .ok (t', outShape t' shape, rows.flatten)

def lieLog (t : LType) (eps : α) (shape : List Nat) (data : List α) :=
  lieBatch (lieLogItem t eps) t t.logType shape data
def lieExp (t : LType) (eps : α) (shape : List Nat) (data : List α) :=
  lieBatch (lieExpItem t eps) t t.expType shape data
def lieInv (t : LType) (shape : List Nat) (data : List α) :=
  lieBatch (lieInvItem (α := α) t) t (.ok t) shape data

/-- the user's `X.Log()` with the code's own threshold: `eps = torch.finfo(X.dtype).eps` -/
def lieLogD (t : LType) (d : DType) (shape : List Nat) (data : List α) := lieLog t (d.eps : α) shape data
def lieExpD (t : LType) (d : DType) (shape : List Nat) (data : List α) := lieExp t (d.eps : α) shape data

end PP
