import Proofs.Lemmas.Cloud
/-!
# C18 — point-cloud filters and camera helpers match their brute-force definitions

Property theorems only (helpers: `Proofs/Lemmas/Cloud.lean`; model: `Pose/Model/Cloud.lean`), all at `α = ℝ`.
External kernels (`topk`, `unique`, `argsort`, random draws, float→int conversion) are parameters; each theorem
takes the kernel's contract as a hypothesis, and `topkStd_contract` / the `example`s show the hypotheses are
satisfiable.  Every statement is for ALL clouds (any number of points, any dimension, any feature channels).
-/
open PP PP.Cloud

namespace PP.Cloud

variable (topk topk' : Bool → List ℝ → Nat → List Nat)

/-! ## knn -/

/-- **knn, values and indices.** For every reference point `r` the returned values are the `k` smallest
(`largest`: largest) distances `‖r - nbr_j‖_ord`, in order — i.e. the first `k` entries of the sorted list of all
distances — and the returned indices are `k` distinct valid positions attaining exactly those values.
(The second conjunct holds by the definition of `knnRow`: the model reads the values off its own distance row at the
indices `topk` returns; the VALUES `torch.topk` returns are never a model object — that they equal the distances at the
returned indices is checked on the real code by the harness only (`knn-values`). Rows of unequal width are guarded in
`knn_api_spec`; here `vsub` is `zipWith`.) -/
theorem knn_spec (htk : TopkContract topk) (o : Norm) (lg : Bool) (kk : Nat) (nbr : List (Pt ℝ))
    (hk : kk ≤ nbr.length) (r : Pt ℝ) :
    (knnRow topk o lg kk nbr r).1 = (sortVals lg (nbr.map (dist o r))).take kk ∧
    (knnRow topk o lg kk nbr r).1 = (knnRow topk o lg kk nbr r).2.map (fun j => dist o r (nbr.getD j [])) ∧
    (knnRow topk o lg kk nbr r).2.length = kk ∧ (knnRow topk o lg kk nbr r).2.Nodup ∧
    ∀ j ∈ (knnRow topk o lg kk nbr r).2, j < nbr.length := by
  have h := htk lg (nbr.map (dist o r)) kk (by simpa using hk)
  have hin : ∀ j ∈ topk lg (nbr.map (dist o r)) kk, j < nbr.length := fun j hj => by simpa using h.inb j hj
  refine ⟨?_, ?_, h.len, h.nodup, hin⟩
  · simpa [knnRow] using h.values
  · simp only [knnRow, k0_real]
    apply List.map_congr_left
    intro j hj
    rw [List.getD_eq_getElem _ _ (by simpa using hin j hj), List.getD_eq_getElem _ _ (hin j hj)]
    simp

/-- **knn, ties excluded ⇒ the answer is unique.** If no two neighbours are at the same distance from `r`, any two
kernels meeting the `topk` contract return the same index list. -/
theorem knn_indices_unique (htk : TopkContract topk) (htk' : TopkContract topk') (o : Norm) (lg : Bool) (kk : Nat)
    (nbr : List (Pt ℝ)) (hk : kk ≤ nbr.length) (r : Pt ℝ)
    (hnt : ∀ i j, i < nbr.length → j < nbr.length → dist o r (nbr.getD i []) = dist o r (nbr.getD j []) → i = j) :
    (knnRow topk o lg kk nbr r).2 = (knnRow topk' o lg kk nbr r).2 := by
  simp only [knnRow]
  apply (htk lg _ kk (by simpa using hk)).unique (htk' lg _ kk (by simpa using hk))
  intro i j hi hj
  simp only [List.length_map] at hi hj
  rw [List.getD_eq_getElem _ _ (by simpa using hi), List.getD_eq_getElem _ _ (by simpa using hj)]
  simp only [List.getElem_map]
  intro e
  apply hnt i j hi hj
  rw [List.getD_eq_getElem _ _ hi, List.getD_eq_getElem _ _ hj]
  exact e

/-- **knn, permutation of the neighbour cloud** (all `N2!` orderings): with ties excluded, the distances returned
and the neighbour *points* selected for `r` do not depend on the order of `nbr` (nor on the `topk` kernel);
only the indices are relabelled. -/
theorem knn_perm_nbr (htk : TopkContract topk) (htk' : TopkContract topk') (o : Norm) (lg : Bool) (kk : Nat)
    {nbr nbr' : List (Pt ℝ)} (hp : nbr.Perm nbr') (hk : kk ≤ nbr.length) (r : Pt ℝ)
    (hnt : ∀ a ∈ nbr, ∀ b ∈ nbr, dist o r a = dist o r b → a = b) :
    (knnRow topk o lg kk nbr r).1 = (knnRow topk' o lg kk nbr' r).1 ∧
    (knnRow topk o lg kk nbr r).2.map (fun j => nbr.getD j []) =
      (knnRow topk' o lg kk nbr' r).2.map (fun j => nbr'.getD j []) := by
  have hk' : kk ≤ nbr'.length := by rw [← hp.length_eq]; exact hk
  have hnt' : ∀ a ∈ nbr', ∀ b ∈ nbr', dist o r a = dist o r b → a = b :=
    fun a ha b hb => hnt a (hp.symm.subset ha) b (hp.symm.subset hb)
  constructor
  · rw [(knn_spec topk htk o lg kk nbr hk r).1, (knn_spec topk' htk' o lg kk nbr' hk' r).1,
      sortVals_congr lg (hp.map _)]
  · simp only [knnRow]
    rw [topk_points lg (dist o r) nbr [] kk _ (htk lg _ kk (by simpa using hk)) hnt,
      topk_points lg (dist o r) nbr' [] kk _ (htk' lg _ kk (by simpa using hk')) hnt',
      sort_key_perm lg (dist o r) hp hnt]

/-! ## nbr_filter -/

/-- **nbr_filter keeps exactly the points with at least `n` OTHER points within the radius**, in input order:
the result is the input filtered by `n ≤ count`, and for every occurrence `pts = l₁ ++ p :: l₂` the count the
code uses is the number of points of `l₁ ++ l₂` within `radius` of `p` (`0 ≤ radius`). -/
theorem nbr_filter_spec (o : Norm) (pdim : Nat) (r : ℝ) (hr : 0 ≤ r) (n : ℤ) (pts : List (Pt ℝ)) :
    nbrFilter o pdim r n pts = pts.filter (fun p => decide (n ≤ nbrCount o pdim r pts p)) ∧
    ∀ l₁ p l₂, pts = l₁ ++ p :: l₂ →
      nbrCount o pdim r pts p = (((l₁ ++ l₂).filter fun q => decide (pdist o pdim p q ≤ r)).length : ℤ) := by
  refine ⟨nbrFilter_eq_filter o pdim r n pts, ?_⟩
  intro l₁ p l₂ h
  subst h
  have hw : within o pdim r p = fun q => decide (pdist o pdim p q ≤ r) := by
    funext q; simp [within]
  rw [nbrCount_others o pdim r hr, List.countP_eq_length_filter, hw]

/-- **nbr_filter is permutation equivariant**: whether a point is kept depends on the cloud only as a multiset,
so the output of a permuted cloud is the same sub-multiset, and it is the input filtered by one and the same predicate. -/
theorem nbr_filter_perm (o : Norm) (pdim : Nat) (r : ℝ) (n : ℤ) {pts pts' : List (Pt ℝ)} (hp : pts.Perm pts') :
    (∀ p, decide (n ≤ nbrCount o pdim r pts p) = decide (n ≤ nbrCount o pdim r pts' p)) ∧
    (nbrFilter o pdim r n pts).Perm (nbrFilter o pdim r n pts') := by
  have h1 : ∀ p, decide (n ≤ nbrCount o pdim r pts p) = decide (n ≤ nbrCount o pdim r pts' p) :=
    fun p => by rw [nbrCount_perm o pdim r hp p]
  refine ⟨h1, ?_⟩
  rw [nbrFilter_eq_filter, nbrFilter_eq_filter]
  have : (fun p => decide (n ≤ nbrCount o pdim r pts p)) = (fun p => decide (n ≤ nbrCount o pdim r pts' p)) :=
    funext h1
  rw [this]
  exact hp.filter _

/-! ## knn_filter -/

/-- **knn_filter = mean of the point and its k nearest neighbours.** For every retained point `p` (ties excluded)
the output row is the per-channel mean of the `k+1` cloud points closest to `p` — whatever `topk` kernel is used.
Rows come in the order of the retained points. -/
theorem knn_filter_spec (htk : TopkContract topk) (o : Norm) (pdim kk : Nat) (radius : Option ℝ) (pts : List (Pt ℝ))
    (hk : kk + 1 ≤ pts.length) (hnt : ∀ p ∈ knnRetained o pdim kk radius pts, NoTies o pdim pts p) :
    knnFilter topk o pdim kk radius pts =
      some ((knnRetained o pdim kk radius pts).map fun p => meanCols (width pts) (nearest o pdim (kk + 1) pts p)) := by
  unfold knnFilter
  rw [if_neg (by omega)]
  congr 1
  apply List.map_congr_left
  intro p hp
  simp only [knnMean, nearest]
  rw [topk_points false (pdist o pdim p) pts [] (kk + 1) _ (htk false _ (kk + 1) (by simpa using hk)) (hnt p hp)]

/-- the `k+1` closest cloud points of a cloud member `p` are `p` itself followed by its `k` nearest neighbours
among the other points -/
theorem nearest_self_first (o : Norm) (pdim kk : Nat) (l₁ l₂ : List (Pt ℝ)) (p : Pt ℝ)
    (hnt : NoTies o pdim (l₁ ++ p :: l₂) p) :
    nearest o pdim (kk + 1) (l₁ ++ p :: l₂) p = p :: nearest o pdim kk (l₁ ++ l₂) p := by
  unfold nearest
  set f := pdist o pdim p with hf
  set le := fun a b : Pt ℝ => leB false (f a) (f b) with hle
  have hperm : (p :: (l₁ ++ l₂).mergeSort le).Perm ((l₁ ++ p :: l₂).mergeSort le) := by
    refine (List.Perm.trans ?_ (List.mergeSort_perm _ _).symm)
    refine (List.Perm.cons p (List.mergeSort_perm _ _)).trans ?_
    exact List.perm_middle.symm
  have hs1 : ((l₁ ++ l₂).mergeSort le).Pairwise (fun a b => le a b = true) :=
    List.pairwise_mergeSort (le := le) (fun a b c => leB_trans false _ _ _) (fun a b => leB_total false _ _) _
  have hs2 : ((l₁ ++ p :: l₂).mergeSort le).Pairwise (fun a b => le a b = true) :=
    List.pairwise_mergeSort (le := le) (fun a b c => leB_trans false _ _ _) (fun a b => leB_total false _ _) _
  have hs : (p :: (l₁ ++ l₂).mergeSort le).Pairwise (fun a b => le a b = true) := by
    rw [List.pairwise_cons]
    refine ⟨?_, hs1⟩
    intro a _
    simp only [hle, leB_false, hf, pdist_self, decide_eq_true_eq]
    exact pdist_nonneg o pdim p a
  have heq : p :: (l₁ ++ l₂).mergeSort le = (l₁ ++ p :: l₂).mergeSort le := by
    apply List.Perm.eq_of_pairwise (le := fun a b => le a b = true) _ hs hs2 hperm
    intro a b ha hb hab hba
    have ha' : a ∈ l₁ ++ p :: l₂ := (List.mergeSort_perm _ _).subset (hperm.subset ha)
    have hb' : b ∈ l₁ ++ p :: l₂ := (List.mergeSort_perm _ _).subset hb
    apply hnt a ha' b hb'
    simp only [hle, leB_false, decide_eq_true_eq] at hab hba
    exact le_antisymm hab hba
  rw [← heq, List.take_succ_cons]

/-- **knn_filter is permutation equivariant** (all `N!` orderings, ties excluded): the rows of a permuted cloud
are the same rows, permuted; each row is a function of the point and of the cloud as a multiset. -/
theorem knn_filter_perm (htk : TopkContract topk) (htk' : TopkContract topk') (o : Norm) (pdim kk : Nat)
    (radius : Option ℝ) {pts pts' : List (Pt ℝ)} (hp : pts.Perm pts') (hk : kk + 1 ≤ pts.length)
    (D : Nat) (hD : ∀ p ∈ pts, p.length = D)
    (hnt : ∀ p ∈ knnRetained o pdim kk radius pts, NoTies o pdim pts p) :
    ∃ out out', knnFilter topk o pdim kk radius pts = some out ∧ knnFilter topk' o pdim kk radius pts' = some out' ∧
      out.Perm out' := by
  have hk' : kk + 1 ≤ pts'.length := by rw [← hp.length_eq]; exact hk
  have hw : ∀ {l : List (Pt ℝ)}, (∀ p ∈ l, p.length = D) → 1 ≤ l.length → width l = D := by
    intro l hl h1
    cases l with
    | nil => simp at h1
    | cons x xs => simpa [width] using hl x List.mem_cons_self
  have hret : (knnRetained o pdim kk radius pts).Perm (knnRetained o pdim kk radius pts') := by
    cases radius with
    | none => exact hp
    | some r => exact (nbr_filter_perm o pdim r (kk : ℤ) hp).2
  have hnt' : ∀ p ∈ knnRetained o pdim kk radius pts', NoTies o pdim pts' p := by
    intro p hp' a ha b hb
    exact hnt p (hret.symm.subset hp') a (hp.symm.subset ha) b (hp.symm.subset hb)
  refine ⟨_, _, knn_filter_spec topk htk o pdim kk radius pts hk hnt,
    knn_filter_spec topk' htk' o pdim kk radius pts' hk' hnt', ?_⟩
  rw [hw hD (by omega), hw (fun p h => hD p (hp.symm.subset h)) (by omega)]
  have hfun : ∀ p ∈ knnRetained o pdim kk radius pts,
      meanCols D (nearest o pdim (kk + 1) pts p) = meanCols D (nearest o pdim (kk + 1) pts' p) := by
    intro p hp'
    unfold nearest
    rw [sort_key_perm false (pdist o pdim p) hp (hnt p hp')]
  rw [List.map_congr_left hfun]
  exact hret.map _


/-! ## voxel_filter -/

/-- **voxel_filter (centroid branch) = one centroid per occupied voxel.** With `u` the distinct voxel keys of the
cloud (in the order `unique` returns them), the output has one row per element of `u`, and row `j` is the
per-channel mean (coordinates and feature channels) of exactly the points whose key is `u[j]`. -/
theorem voxel_filter_spec (tr : ℝ → Int) (uniq : List (List Int) → List (List Int)) (hu : UniqContract uniq)
    (vox : List ℝ) (pts : List (Pt ℝ)) :
    voxelFilter tr uniq vox pts =
      (uniq (voxKeys tr vox pts)).map fun kx =>
        meanCols (width pts) (pts.filter fun p => decide (voxKey tr vox (minp vox.length pts) p = kx)) := by
  set key := voxKey tr vox (minp vox.length pts) with hkey
  have hkeys : voxKeys tr vox pts = pts.map key := rfl
  set u := uniq (pts.map key) with hudef
  have hnd : u.Nodup := hu.nodup _
  have hmem : ∀ p ∈ pts, key p ∈ u := fun p hp => ((hu _).2 _).2 (List.mem_map.2 ⟨p, hp, rfl⟩)
  unfold voxelFilter
  simp only [hkeys, ← hudef]
  have hinv : inverseIdx u (pts.map key) = pts.map (fun p => u.idxOf (key p)) := by
    simp [inverseIdx, List.map_map, Function.comp]
  rw [hinv]
  apply List.ext_getElem
  · simp
  · intro j h1 h2
    have hj : j < u.length := by simpa using h1
    simp only [List.getElem_map, List.getElem_range]
    have hfilt : (pts.filter fun p => decide (u.idxOf (key p) = j)) = pts.filter fun p => decide (key p = u[j]) := by
      apply List.filter_congr
      intro p hp
      have hlt : u.idxOf (key p) < u.length := List.idxOf_lt_length_iff.2 (hmem p hp)
      by_cases e : key p = u[j]
      · have : u.idxOf (key p) = j := by rw [e]; exact hnd.idxOf_getElem j hj
        rw [this]; simp [e]
      · have : u.idxOf (key p) ≠ j := by
          intro e'
          apply e
          have := List.getElem_idxOf hlt
          simp only [e'] at this
          exact this.symm
        simp [e, this]
    unfold meanCols
    apply List.map_congr_left
    intro c _
    rw [indexAdd_spec, indexCount_spec, hfilt]
    simp [colMean]

/-- one row per occupied voxel: the keys are distinct, every point's voxel is represented, every represented voxel
contains a point, and the number of output rows is the number of distinct keys -/
theorem voxel_filter_one_per_voxel (tr : ℝ → Int) (uniq : List (List Int) → List (List Int)) (hu : UniqContract uniq)
    (vox : List ℝ) (pts : List (Pt ℝ)) :
    (uniq (voxKeys tr vox pts)).Nodup ∧
    (∀ p ∈ pts, voxKey tr vox (minp vox.length pts) p ∈ uniq (voxKeys tr vox pts)) ∧
    (∀ kx ∈ uniq (voxKeys tr vox pts), ∃ p ∈ pts, voxKey tr vox (minp vox.length pts) p = kx) ∧
    (voxelFilter tr uniq vox pts).length = (uniq (voxKeys tr vox pts)).length := by
  refine ⟨hu.nodup _, ?_, ?_, ?_⟩
  · intro p hp
    exact ((hu _).2 _).2 (List.mem_map.2 ⟨p, hp, rfl⟩)
  · intro kx hk
    have := ((hu _).2 _).1 hk
    simpa [voxKeys] using this
  · rw [voxel_filter_spec tr uniq hu]; simp

/-- **voxel_filter is permutation invariant** (all `N!` orderings): the keys, the list of distinct keys and every
centroid depend on the cloud only as a multiset. -/
theorem voxel_filter_perm (tr : ℝ → Int) (uniq : List (List Int) → List (List Int)) (hu : UniqContract uniq)
    (vox : List ℝ) {pts pts' : List (Pt ℝ)} (hp : pts.Perm pts') (D : Nat) (hD : ∀ p ∈ pts, p.length = D) :
    voxelFilter tr uniq vox pts = voxelFilter tr uniq vox pts' := by
  rw [voxel_filter_spec tr uniq hu, voxel_filter_spec tr uniq hu]
  have hmin : minp vox.length pts = minp vox.length pts' := minp_perm _ hp
  have hkeys : (voxKeys tr vox pts).Perm (voxKeys tr vox pts') := by
    unfold voxKeys; rw [hmin]; exact hp.map _
  have hw : width pts = width pts' := by
    cases pts with
    | nil => rw [hp.nil_eq]
    | cons x xs =>
      cases pts' with
      | nil => exact absurd hp.eq_nil (by simp)
      | cons y ys =>
        simp only [width, List.headD_cons]
        rw [hD x List.mem_cons_self, hD y (hp.symm.subset List.mem_cons_self)]
  rw [hu.perm hkeys, hmin, hw]
  apply List.map_congr_left
  intro kx _
  exact meanCols_perm _ (hp.filter _)

/-- **what a voxel is**: with a truncating float→int conversion and a positive voxel size `v_c`, the key component `κ_c`
of a cloud point says that its coordinate lies in the cell `[min_c + v_c·κ_c, min_c + v_c·(κ_c+1))` of the grid anchored
at the per-axis minimum of the cloud. -/
theorem voxel_cell (tr : ℝ → Int) (htr : ∀ x : ℝ, 0 ≤ x → (tr x : ℝ) ≤ x ∧ x < (tr x : ℝ) + 1)
    (vox : List ℝ) (pts : List (Pt ℝ)) (p : Pt ℝ) (hp : p ∈ pts) (c : Nat) (hc : c < vox.length)
    (hv : 0 < vox.getD c 0) :
    (minp vox.length pts).getD c 0 + vox.getD c 0 * ((voxKey tr vox (minp vox.length pts) p).getD c 0 : ℝ) ≤ p.getD c 0 ∧
    p.getD c 0 < (minp vox.length pts).getD c 0
      + vox.getD c 0 * (((voxKey tr vox (minp vox.length pts) p).getD c 0 : ℝ) + 1) := by
  have hmin : (minp vox.length pts).getD c 0 = minL (pts.map fun q => q.getD c 0) := by
    unfold minp
    rw [List.getD_eq_getElem _ _ (by simpa using hc)]
    simp
  have hle : minL (pts.map fun q => q.getD c 0) ≤ p.getD c 0 :=
    minL_le _ (List.mem_map.2 ⟨p, hp, rfl⟩)
  have hkey : (voxKey tr vox (minp vox.length pts) p).getD c 0
      = tr ((p.getD c 0 - (minp vox.length pts).getD c 0) / vox.getD c 0) := by
    unfold voxKey
    rw [List.getD_eq_getElem _ _ (by simpa using hc)]
    simp
  rw [hkey, hmin]
  set m := minL (pts.map fun q => q.getD c 0)
  set v := vox.getD c 0
  have hq : 0 ≤ (p.getD c 0 - m) / v := div_nonneg (by linarith) hv.le
  obtain ⟨h1, h2⟩ := htr _ hq
  constructor
  · have := (le_div_iff₀ hv).1 h1
    linarith
  · have := (div_lt_iff₀ hv).1 h2
    linarith

/-- **voxel_filter (member branch, `random=True`) = one member per occupied voxel.** For ANY `argsort` kernel meeting
its contract (a sorting permutation, not necessarily stable) and ANY draw `rnd[j] ∈ [0, counts[j])` of `randint`, the
output has one row per occupied voxel and row `j` is an input point lying in voxel `u[j]`. -/
theorem voxel_random_spec (tr : ℝ → Int) (uniq : List (List Int) → List (List Int)) (hu : UniqContract uniq)
    (argsort : List Nat → List Nat) (ha : ArgsortContract argsort) (rnd : List Nat) (vox : List ℝ) (pts : List (Pt ℝ))
    (hlen : rnd.length = (uniq (voxKeys tr vox pts)).length)
    (hr : ∀ j (hj : j < (uniq (voxKeys tr vox pts)).length),
      rnd.getD j 0 < (voxKeys tr vox pts).count ((uniq (voxKeys tr vox pts))[j])) :
    (voxelRandom tr uniq argsort rnd vox pts).length = (uniq (voxKeys tr vox pts)).length ∧
    ∀ j (hj : j < (uniq (voxKeys tr vox pts)).length),
      (voxelRandom tr uniq argsort rnd vox pts).getD j [] ∈ pts ∧
      voxKey tr vox (minp vox.length pts) ((voxelRandom tr uniq argsort rnd vox pts).getD j [])
        = (uniq (voxKeys tr vox pts))[j] := by
  set key := voxKey tr vox (minp vox.length pts) with hkey
  have hkeys : voxKeys tr vox pts = pts.map key := rfl
  rw [hkeys] at hlen hr ⊢
  set u := uniq (pts.map key) with hudef
  have hnd : u.Nodup := hu.nodup _
  have hmem : ∀ p ∈ pts, key p ∈ u := fun p hp => ((hu _).2 _).2 (List.mem_map.2 ⟨p, hp, rfl⟩)
  set g : Pt ℝ → Nat := fun p => u.idxOf (key p) with hg
  have hinv : inverseIdx u (pts.map key) = pts.map g := by
    simp [inverseIdx, List.map_map, Function.comp, hg]
  set counts := u.map fun kx => (pts.map key).count kx with hcounts
  set srt := argsort (pts.map g) with hsrt
  have hsp : srt.Perm (List.range pts.length) := by simpa using (ha (pts.map g)).1
  set w := srt.map (fun i => (pts.map g).getD i 0) with hw
  have hws : w.Pairwise (· ≤ ·) := (ha (pts.map g)).2
  have hwperm : w.Perm (pts.map g) := by
    have := hsp.map (fun i => (pts.map g).getD i 0)
    have e := map_getD_range' (pts.map g) 0
    simp only [List.length_map] at e
    rwa [e] at this
  -- Claim B
  have hB : ∀ j (hj : j < u.length), w.count j = counts[j]'(by simpa [hcounts] using hj) := by
    intro j hj
    rw [hwperm.count_eq, List.count_eq_countP, List.countP_map]
    simp only [hcounts, List.getElem_map, List.count_eq_countP, List.countP_map]
    apply List.countP_congr
    intro p hp
    simp only [Function.comp, beq_iff_eq]
    exact idxOf_eq_iff hnd (hmem p hp) hj
  have hcl : counts.length = u.length := by simp [hcounts]
  -- Claim A
  have hA : ∀ j (hj : j < u.length),
      (exclCumsum counts)[j]'(by rw [exclCumsum_length, hcl]; exact hj) = w.countP (fun x => decide (x < j)) := by
    intro j
    induction j with
    | zero => intro hj; rw [exclCumsum_zero]; simp
    | succ j ih =>
      intro hj
      rw [exclCumsum_succ counts j (by rw [hcl]; exact hj), ih (by omega), countP_lt_succ, hB j (by omega)]
  unfold voxelRandom
  simp only [hkeys, ← hudef, hinv, ← hsrt, ← hcounts]
  have hsel_len : (List.zipWith (· + ·) rnd (exclCumsum counts)).length = u.length := by
    simp [exclCumsum_length, hcl, hlen]
  refine ⟨by simpa using hsel_len, ?_⟩
  intro j hj
  have hjs : j < (List.zipWith (· + ·) rnd (exclCumsum counts)).length := by rw [hsel_len]; exact hj
  have hjr : j < rnd.length := by rw [hlen]; exact hj
  rw [List.getD_eq_getElem _ _ (by simpa using hjs)]
  simp only [List.getElem_map, List.getElem_zipWith]
  set i := rnd[j] + (exclCumsum counts)[j]'(by rw [exclCumsum_length, hcl]; exact hj) with hi
  have hrj := hr j hj
  rw [List.getD_eq_getElem _ _ hjr] at hrj
  have hcnt : (pts.map key).count u[j] = counts[j]'(by rw [hcl]; exact hj) := by simp [hcounts]
  obtain ⟨hiw, hwi⟩ := sorted_getElem_block w j i hws (by rw [hi, hA j hj]; omega)
    (by rw [hi, hA j hj, countP_lt_succ, hB j hj]; omega)
  have hwl : w.length = srt.length := by simp [hw]
  have his : i < srt.length := by rw [← hwl]; exact hiw
  have hsi : srt[i] < pts.length := by simpa using hsp.subset (List.getElem_mem his)
  rw [List.getD_eq_getElem _ _ (by simpa using his)]
  simp only [List.getElem_map]
  rw [List.getD_eq_getElem _ _ hsi]
  refine ⟨List.getElem_mem _, ?_⟩
  have : (pts.map g).getD srt[i] 0 = j := by
    have := hwi
    simp only [hw, List.getElem_map] at this
    exact this
  rw [List.getD_eq_getElem _ _ (by simpa using hsi), List.getElem_map] at this
  exact (idxOf_eq_iff hnd (hmem _ (List.getElem_mem _)) hj).1 this

/-- **voxel_filter(random=True) and permutations**: whatever the two draws and the two `argsort` kernels, the permuted
cloud yields the same occupied voxels in the same order, and row `j` of either result is a member of the same voxel. -/
theorem voxel_random_perm (tr : ℝ → Int) (uniq : List (List Int) → List (List Int)) (hu : UniqContract uniq)
    (argsort argsort' : List Nat → List Nat) (ha : ArgsortContract argsort) (ha' : ArgsortContract argsort')
    (rnd rnd' : List Nat) (vox : List ℝ) {pts pts' : List (Pt ℝ)} (hp : pts.Perm pts')
    (hlen : rnd.length = (uniq (voxKeys tr vox pts)).length)
    (hr : ∀ j (hj : j < (uniq (voxKeys tr vox pts)).length),
      rnd.getD j 0 < (voxKeys tr vox pts).count ((uniq (voxKeys tr vox pts))[j]))
    (hlen' : rnd'.length = (uniq (voxKeys tr vox pts')).length)
    (hr' : ∀ j (hj : j < (uniq (voxKeys tr vox pts')).length),
      rnd'.getD j 0 < (voxKeys tr vox pts').count ((uniq (voxKeys tr vox pts'))[j])) :
    (voxelRandom tr uniq argsort rnd vox pts).length = (voxelRandom tr uniq argsort' rnd' vox pts').length ∧
    ∀ j, j < (uniq (voxKeys tr vox pts)).length →
      voxKey tr vox (minp vox.length pts) ((voxelRandom tr uniq argsort rnd vox pts).getD j []) =
      voxKey tr vox (minp vox.length pts) ((voxelRandom tr uniq argsort' rnd' vox pts').getD j []) := by
  have hmin : minp vox.length pts = minp vox.length pts' := minp_perm _ hp
  have hkeys : (voxKeys tr vox pts).Perm (voxKeys tr vox pts') := by
    unfold voxKeys; rw [hmin]; exact hp.map _
  have hu' : uniq (voxKeys tr vox pts) = uniq (voxKeys tr vox pts') := hu.perm hkeys
  obtain ⟨l1, s1⟩ := voxel_random_spec tr uniq hu argsort ha rnd vox pts hlen hr
  obtain ⟨l2, s2⟩ := voxel_random_spec tr uniq hu argsort' ha' rnd' vox pts' hlen' hr'
  refine ⟨by rw [l1, l2, hu'], ?_⟩
  intro j hj
  have hj' : j < (uniq (voxKeys tr vox pts')).length := by rw [← hu']; exact hj
  rw [(s1 j hj).2, hmin, (s2 j hj').2]
  simp only [hu']

/-! ## random_filter -/

/-- **random_filter returns distinct input points**: for any draw `perm` of `randperm(N)` the output consists of the
points at `num` pairwise distinct valid positions; in particular it is a sub-multiset of the input. -/
theorem random_filter_spec (perm : List Nat) (num : Nat) (pts : List (Pt ℝ))
    (hperm : perm.Perm (List.range pts.length)) (hnum : num ≤ pts.length) :
    ∃ idx : List Nat, idx.length = num ∧ idx.Nodup ∧ (∀ i ∈ idx, i < pts.length) ∧
      randomFilter perm num pts = some (idx.map fun i => pts.getD i []) ∧
      (idx.map fun i => pts.getD i []).Subperm pts := by
  have hnd : (perm.take num).Nodup := (hperm.nodup_iff.2 List.nodup_range).sublist (List.take_sublist _ _)
  have hin : ∀ i ∈ perm.take num, i < pts.length := fun i hi => by
    simpa using hperm.subset (List.mem_of_mem_take hi)
  refine ⟨perm.take num, ?_, hnd, hin, ?_, ?_⟩
  · rw [List.length_take, hperm.length_eq]; simp [hnum]
  · unfold randomFilter; rw [if_neg (by omega)]
  · have hsub : (perm.take num).Subperm (List.range pts.length) :=
      List.subperm_of_subset hnd (fun i hi => by simpa using hin i hi)
    obtain ⟨l, hl, hs⟩ := hsub
    refine ⟨l.map fun i => pts.getD i [], hl.map _, ?_⟩
    have := hs.map (fun i => pts.getD i [])
    rwa [map_getD_range'] at this

/-- random_filter and a permutation of the cloud: sampling the re-ordered cloud `pts' = σ·pts` with the draw `perm`
is sampling `pts` with the draw `σ ∘ perm` -/
theorem random_filter_perm (perm σ : List Nat) (num : Nat) (pts : List (Pt ℝ)) (hnum : num ≤ pts.length)
    (hσ : σ.length = pts.length) (hperm : ∀ i ∈ perm, i < pts.length) :
    randomFilter perm num (σ.map fun i => pts.getD i []) =
      randomFilter (perm.map fun i => σ.getD i 0) num pts := by
  unfold randomFilter
  simp only [List.length_map, hσ]
  rw [if_neg (by omega), if_neg (by omega)]
  congr 1
  rw [← List.map_take, List.map_map]
  apply List.map_congr_left
  intro i hi
  have hi' : i < σ.length := by rw [hσ]; exact hperm i (List.mem_of_mem_take hi)
  simp only [Function.comp]
  rw [List.getD_eq_getElem _ _ (by simpa using hi'), List.getElem_map, List.getD_eq_getElem _ _ hi']

/-! ## camera helpers -/

/-- **`homo2cart(cart2homo(p)) = p`** for points of any dimension (`tiny ≤ 1` is `finfo.tiny`). -/
theorem homo_cart (tiny : ℝ) (h1 : tiny ≤ 1) (p : List ℝ) : homo2cart tiny (cart2homo p) = p := by
  unfold homo2cart cart2homo
  rw [List.getLastD_concat, List.dropLast_concat, k1_real, homoDen_eq tiny 1 (by simpa using h1)]
  simp

/-- away from the clamp (`0 < tiny ≤ |w|`, so `w ≠ 0`: no division by zero is hidden in the statement) `homo2cart` divides by the last entry -/
theorem homo2cart_div (tiny w : ℝ) (_ht : 0 < tiny) (hw : tiny ≤ |w|) (p : List ℝ) :
    homo2cart tiny (p ++ [w]) = p.map (· / w) := by
  unfold homo2cart
  rw [List.getLastD_concat, List.dropLast_concat, homoDen_eq tiny w hw]

/-- the pinhole projection formula `u = fx·x/z + cx`, `v = fy·y/z + cy` -/
theorem point2pixel_pinhole (tiny fx fy cx cy : ℝ) (p : Vec3 ℝ) (ht : 0 < tiny) (hz : tiny ≤ |p.z|) :
    point2pixel tiny (pinhole fx fy cx cy) none p = [fx * p.x / p.z + cx, fy * p.y / p.z + cy] := by
  have hz0 : p.z ≠ 0 := by
    intro e; rw [e, abs_zero] at hz; linarith
  have hden : homoDen tiny (0 * p.x + 0 * p.y + 1 * p.z) = p.z := by
    rw [homoDen_eq]; · ring
    · simpa using hz
  simp only [point2pixel, homo2cart, pinhole, Mat3.mulVec, Vec3.dot, Vec3.toList, List.getLastD_cons,
    List.getLastD_nil, List.dropLast, List.map_cons, List.map_nil, hden]
  congr 1
  · field_simp; ring
  · congr 1
    field_simp; ring

/-- **pixel → point → pixel**: for pinhole intrinsics with non-zero focal lengths and a depth away from the clamp,
`point2pixel(pixel2point(px, d, K), K) = px`, and the un-projected point has depth `d`. -/
theorem pixel_point_inverse (tiny fx fy cx cy u v d : ℝ) (ht : 0 < tiny) (hfx : fx ≠ 0) (hfy : fy ≠ 0)
    (hd : tiny ≤ |d|) :
    ∃ P : Vec3 ℝ, pixel2point (pinhole fx fy cx cy) u v d = some P ∧ P.z = d ∧
      point2pixel tiny (pinhole fx fy cx cy) none P = [u, v] := by
  have hd0 : d ≠ 0 := by
    intro e; rw [e, abs_zero] at hd; linarith
  refine ⟨⟨((u - cx) * d) / fx, ((v - cy) * d) / fy, d⟩, ?_, rfl, ?_⟩
  · unfold pixel2point
    simp only [pinhole, le_real, k0_real, Bool.and_eq_true, decide_eq_true_eq]
    have h1 : ¬ (fx ≤ 0 ∧ 0 ≤ fx) := fun h => hfx (le_antisymm h.1 h.2)
    have h2 : ¬ (fy ≤ 0 ∧ 0 ≤ fy) := fun h => hfy (le_antisymm h.1 h.2)
    rw [if_neg h1, if_neg h2]
  · rw [point2pixel_pinhole tiny fx fy cx cy _ ht hd]
    congr 1
    · field_simp; ring
    · congr 1
      field_simp; ring

/-- **point → pixel → point**: for a camera-frame point with depth away from the clamp,
`pixel2point(point2pixel(P, K), P.z, K) = P`. -/
theorem point_pixel_inverse (tiny fx fy cx cy : ℝ) (p : Vec3 ℝ) (ht : 0 < tiny) (hfx : fx ≠ 0) (hfy : fy ≠ 0)
    (hz : tiny ≤ |p.z|) :
    ∃ u v : ℝ, point2pixel tiny (pinhole fx fy cx cy) none p = [u, v] ∧
      pixel2point (pinhole fx fy cx cy) u v p.z = some p := by
  have hz0 : p.z ≠ 0 := by
    intro e; rw [e, abs_zero] at hz; linarith
  refine ⟨_, _, point2pixel_pinhole tiny fx fy cx cy p ht hz, ?_⟩
  unfold pixel2point
  simp only [pinhole, le_real, k0_real, Bool.and_eq_true, decide_eq_true_eq]
  have h1 : ¬ (fx ≤ 0 ∧ 0 ≤ fx) := fun h => hfx (le_antisymm h.1 h.2)
  have h2 : ¬ (fy ≤ 0 ∧ 0 ≤ fy) := fun h => hfy (le_antisymm h.1 h.2)
  rw [if_neg h1, if_neg h2]
  obtain ⟨x, y, z⟩ := p
  simp only [Option.some.injEq, Vec3.mk.injEq, and_true]
  constructor <;> field_simp <;> ring

/-- **reprojerr is zero exactly on the pixels produced by point2pixel** — for all three reductions
(`'none'`, `'sum'` = L1, `'norm'` = L2), any intrinsics, with or without extrinsics. -/
theorem reprojerr_zero_iff (tiny : ℝ) (K : Mat3 ℝ) (ext : Option (SE3 ℝ)) (p : Vec3 ℝ) (a b : ℝ) :
    (reprojerr tiny K ext .none p [a, b] = [0, 0] ↔ point2pixel tiny K ext p = [a, b]) ∧
    (reprojerr tiny K ext .sum p [a, b] = [0] ↔ point2pixel tiny K ext p = [a, b]) ∧
    (reprojerr tiny K ext .norm p [a, b] = [0] ↔ point2pixel tiny K ext p = [a, b]) := by
  obtain ⟨u, v, huv⟩ : ∃ u v, point2pixel tiny K ext p = [u, v] := by
    simp only [point2pixel, homo2cart, Vec3.toList, List.dropLast, List.map_cons, List.map_nil]
    exact ⟨_, _, rfl⟩
  simp only [reprojerr, huv, vsub, List.zipWith_cons_cons, List.zipWith_nil_right, List.map_cons, List.map_nil,
    sumL_real, List.sum_cons, List.sum_nil, sabs_real, sqrt_real, List.cons.injEq, and_true, add_zero]
  refine ⟨?_, ?_, ?_⟩
  · constructor
    · rintro ⟨h1, h2⟩; exact ⟨by linarith, by linarith⟩
    · rintro ⟨h1, h2⟩; exact ⟨by linarith, by linarith⟩
  · constructor
    · intro h
      have h1 : |u - a| = 0 := by linarith [abs_nonneg (u - a), abs_nonneg (v - b)]
      have h2 : |v - b| = 0 := by linarith [abs_nonneg (u - a), abs_nonneg (v - b)]
      exact ⟨by linarith [abs_eq_zero.1 h1], by linarith [abs_eq_zero.1 h2]⟩
    · rintro ⟨h1, h2⟩; rw [h1, h2]; simp
  · constructor
    · intro h
      have hs : (u - a) * (u - a) + (v - b) * (v - b) = 0 := by
        have := (Real.sqrt_eq_zero (by nlinarith [mul_self_nonneg (u - a), mul_self_nonneg (v - b)])).1 h
        exact this
      have h1 : u - a = 0 := by nlinarith [mul_self_nonneg (u - a), mul_self_nonneg (v - b)]
      have h2 : v - b = 0 := by nlinarith [mul_self_nonneg (u - a), mul_self_nonneg (v - b)]
      exact ⟨by linarith, by linarith⟩
    · rintro ⟨h1, h2⟩; rw [h1, h2]; simp


/-- **pixel → world point → pixel, with extrinsics** (any unit-quaternion pose `X`): un-project in the camera frame,
move to the world frame with `X⁻¹`, project with `(K, X)`. -/
theorem pixel_point_inverse_ext (tiny fx fy cx cy u v d : ℝ) (X : SE3 ℝ) (hX : X.q.normSq = 1) (ht : 0 < tiny)
    (hfx : fx ≠ 0) (hfy : fy ≠ 0) (hd : tiny ≤ |d|) :
    ∃ P : Vec3 ℝ, pixel2point (pinhole fx fy cx cy) u v d = some P ∧
      point2pixel tiny (pinhole fx fy cx cy) (some X) (SE3Act (SE3Inv X) P) = [u, v] := by
  obtain ⟨P, h1, _, h3⟩ := pixel_point_inverse tiny fx fy cx cy u v d ht hfx hfy hd
  exact ⟨P, h1, by rw [point2pixel_ext, SE3Act_inv_right X hX, h3]⟩

/-- **world point → pixel → world point, with extrinsics**: the depth is the `z` of the point in the camera frame. -/
theorem point_pixel_inverse_ext (tiny fx fy cx cy : ℝ) (X : SE3 ℝ) (hX : X.q.normSq = 1) (p : Vec3 ℝ) (ht : 0 < tiny)
    (hfx : fx ≠ 0) (hfy : fy ≠ 0) (hz : tiny ≤ |(SE3Act X p).z|) :
    ∃ u v : ℝ, ∃ P : Vec3 ℝ, point2pixel tiny (pinhole fx fy cx cy) (some X) p = [u, v] ∧
      pixel2point (pinhole fx fy cx cy) u v (SE3Act X p).z = some P ∧ SE3Act (SE3Inv X) P = p := by
  obtain ⟨u, v, h1, h2⟩ := point_pixel_inverse tiny fx fy cx cy (SE3Act X p) ht hfx hfy hz
  exact ⟨u, v, SE3Act X p, by rw [point2pixel_ext, h1], h2, SE3Act_inv_left X hX p⟩

/-! ## hardening: aliasing, call histories, batches -/

/-- **one tensor passed as both arguments** (`knn(X, X)`): every point finds itself first — the smallest returned
distance of a reference point that is also a neighbour is `0`. -/
theorem knn_self_first (htk : TopkContract topk) (o : Norm) (kk : Nat) (nbr : List (Pt ℝ)) (hk : kk ≤ nbr.length)
    (hk1 : 1 ≤ kk) (r : Pt ℝ) (hr : r ∈ nbr) :
    (knnRow topk o false kk nbr r).1.head? = some 0 := by
  rw [(knn_spec topk htk o false kk nbr hk r).1]
  set d := nbr.map (dist o r) with hd
  have h0 : (0 : ℝ) ∈ sortVals false d :=
    (sortVals_perm false d).symm.subset (List.mem_map.2 ⟨r, hr, dist_self o r⟩)
  have hpos : ∀ x ∈ sortVals false d, 0 ≤ x := by
    intro x hx
    have := (sortVals_perm false d).subset hx
    simp only [hd, List.mem_map] at this
    obtain ⟨p, _, rfl⟩ := this
    exact normOf_nonneg o _
  have hs := sortVals_pairwise false d
  cases hl : sortVals false d with
  | nil => rw [hl] at h0; simp at h0
  | cons x xs =>
    rw [hl] at h0 hpos hs
    have hx0 : x ≤ 0 := by
      rcases List.mem_cons.1 h0 with h | h
      · rw [h]
      · have := (List.pairwise_cons.1 hs).1 0 h
        simpa [ordRel] using this
    have : x = 0 := le_antisymm hx0 (hpos x List.mem_cons_self)
    obtain ⟨k', rfl⟩ : ∃ k', kk = k' + 1 := ⟨kk - 1, by omega⟩
    simp [this]

/-- the failing calls of the CORES `knnFilter` / `randomFilter` are exactly `N < k+1`, `num > N`, and the other two cores
never fail. (The public entry points reject more — `pdim > D`, the max-norm over an empty coordinate range, width-0 points,
`voxel = []`, zero sizes, the empty cloud: see `nbr_filter_api_spec`, `knn_filter_api_spec`, `knn_api_spec`,
`random_filter_api_spec`, `voxel_filter_api_spec`.) -/
theorem failing_calls (tr : ℝ → Int) (uniq : List (List Int) → List (List Int)) (c : Call ℝ) :
    evalCall topk tr uniq c = none ↔
      (∃ o pdim kk radius pts, c = .knnf o pdim kk radius pts ∧ pts.length < kk + 1) ∨
      (∃ perm num pts, c = .randf perm num pts ∧ pts.length < num) := by
  cases c with
  | nbr o pdim radius n pts => simp [evalCall]
  | knnf o pdim kk radius pts =>
    simp only [evalCall, knn_filter_defined]
    constructor
    · intro h; exact Or.inl ⟨o, pdim, kk, radius, pts, rfl, h⟩
    · rintro (⟨_, _, _, _, _, e, h⟩ | ⟨_, _, _, e, _⟩)
      · cases e; exact h
      · cases e
  | voxel vox pts => simp [evalCall]
  | randf perm num pts =>
    simp only [evalCall, random_filter_defined]
    constructor
    · intro h; exact Or.inr ⟨perm, num, pts, rfl, h⟩
    · rintro (⟨_, _, _, _, _, e, _⟩ | ⟨_, _, _, e, h⟩)
      · cases e
      · cases e; exact h

/-! ## pass 3: remaining branches, exact equivariance, floor semantics, entry points -/

/-- **nbr_filter, the remaining branch `radius < 0`**: nothing (not even the point itself) is within a negative radius, the
code's count is `-1` for every point, so the cloud is kept entirely for `n ≤ -1` and emptied otherwise — in particular
for `n = 0` it differs from "at least 0 others", which is why `nbr_filter_spec` carries `0 ≤ radius`. -/
theorem nbr_filter_neg_radius (o : Norm) (pdim : Nat) (r : ℝ) (hr : r < 0) (n : ℤ) (pts : List (Pt ℝ)) :
    (∀ p, nbrCount o pdim r pts p = -1) ∧
    nbrFilter o pdim r n pts = if n ≤ -1 then pts else [] := by
  have hc : ∀ p, nbrCount o pdim r pts p = -1 := by
    intro p
    unfold nbrCount
    have : pts.countP (within o pdim r p) = 0 := by
      rw [List.countP_eq_zero]
      intro q _
      have := pdist_nonneg o pdim p q
      simp only [within, le_real, decide_eq_true_eq, not_le]
      linarith
    rw [this]; simp
  refine ⟨hc, ?_⟩
  rw [nbrFilter_eq_filter]
  by_cases h : n ≤ -1
  · rw [if_pos h]
    apply List.filter_eq_self.2
    intro p _
    rw [hc p]; simpa using h
  · rw [if_neg h]
    apply List.filter_eq_nil_iff.2
    intro p _
    rw [hc p]; simpa using h

/-- **nbr_filter, exact equivariance**: after ANY re-ordering of the cloud the same points survive at their new positions:
the mask of the re-ordered cloud is the old per-point decision read along the new order, the output is the re-ordered
cloud filtered by the old decision. -/
theorem nbr_filter_equivariant (o : Norm) (pdim : Nat) (r : ℝ) (n : ℤ) {pts pts' : List (Pt ℝ)} (hp : pts.Perm pts') :
    nbrMask o pdim r n pts' = pts'.map (fun p => decide (n ≤ nbrCount o pdim r pts p)) ∧
    nbrFilter o pdim r n pts' = pts'.filter (fun p => decide (n ≤ nbrCount o pdim r pts p)) := by
  have h1 : (fun p => decide (n ≤ nbrCount o pdim r pts' p)) = (fun p => decide (n ≤ nbrCount o pdim r pts p)) :=
    funext fun p => by rw [nbrCount_perm o pdim r hp p]
  constructor
  · unfold nbrMask; rw [h1]
  · rw [nbrFilter_eq_filter, h1]

/-- **knn_filter, exact equivariance** (ties excluded): there is ONE row function, determined by the cloud as a multiset,
such that for every re-ordering (and every `topk` kernel) the output is that function mapped over the retained points in
their new order; with a radius the retained points are the re-ordered cloud filtered by the old decision. -/
theorem knn_filter_equivariant (htk : TopkContract topk) (htk' : TopkContract topk') (o : Norm) (pdim kk : Nat)
    (radius : Option ℝ) {pts pts' : List (Pt ℝ)} (hp : pts.Perm pts') (hk : kk + 1 ≤ pts.length)
    (D : Nat) (hD : ∀ p ∈ pts, p.length = D)
    (hnt : ∀ p ∈ knnRetained o pdim kk radius pts, NoTies o pdim pts p) :
    knnFilter topk o pdim kk radius pts
      = some ((knnRetained o pdim kk radius pts).map fun p => meanCols D (nearest o pdim (kk + 1) pts p)) ∧
    knnFilter topk' o pdim kk radius pts'
      = some ((knnRetained o pdim kk radius pts').map fun p => meanCols D (nearest o pdim (kk + 1) pts p)) ∧
    (∀ r, radius = some r →
      knnRetained o pdim kk radius pts' = pts'.filter (fun p => decide ((kk : ℤ) ≤ nbrCount o pdim r pts p))) := by
  have hk' : kk + 1 ≤ pts'.length := by rw [← hp.length_eq]; exact hk
  have hw : ∀ {l : List (Pt ℝ)}, (∀ p ∈ l, p.length = D) → 1 ≤ l.length → width l = D := by
    intro l hl h1
    cases l with
    | nil => simp at h1
    | cons x xs => simpa [width] using hl x List.mem_cons_self
  have hret : (knnRetained o pdim kk radius pts).Perm (knnRetained o pdim kk radius pts') := by
    cases radius with
    | none => exact hp
    | some r => exact (nbr_filter_perm o pdim r (kk : ℤ) hp).2
  have hnt' : ∀ p ∈ knnRetained o pdim kk radius pts', NoTies o pdim pts' p := by
    intro p hp' a ha b hb
    exact hnt p (hret.symm.subset hp') a (hp.symm.subset ha) b (hp.symm.subset hb)
  refine ⟨?_, ?_, ?_⟩
  · rw [knn_filter_spec topk htk o pdim kk radius pts hk hnt, hw hD (by omega)]
  · rw [knn_filter_spec topk' htk' o pdim kk radius pts' hk' hnt', hw (fun p h => hD p (hp.symm.subset h)) (by omega)]
    congr 1
    apply List.map_congr_left
    intro p hp'
    unfold nearest
    rw [sort_key_perm false (pdist o pdim p) hp (hnt p (hret.symm.subset hp'))]
  · intro r hr
    subst hr
    exact (nbr_filter_equivariant o pdim r (kk : ℤ) hp).2

/-- **what a voxel is, for EVERY non-zero voxel size** (positive or negative) and every coordinate (negative ones too):
with the real conversion `.to(int64)` = truncation toward zero, the key component of a cloud point is
`± ⌊(x_c − min_c) / |v_c|⌋` (sign of `v_c`), i.e. the point lies in the half-open cell
`[min_c + |v_c|·j, min_c + |v_c|·(j+1))`, `j = |κ_c|`, of the grid anchored at the per-axis minimum. -/
theorem voxel_cell_any_sign (vox : List ℝ) (pts : List (Pt ℝ)) (p : Pt ℝ) (hp : p ∈ pts) (c : Nat) (hc : c < vox.length)
    (hv : vox.getD c 0 ≠ 0) :
    (voxKey truncZ vox (minp vox.length pts) p).getD c 0
      = (if 0 < vox.getD c 0 then 1 else -1) * ⌊(p.getD c 0 - (minp vox.length pts).getD c 0) / |vox.getD c 0|⌋ ∧
    (minp vox.length pts).getD c 0
      + |vox.getD c 0| * (((voxKey truncZ vox (minp vox.length pts) p).getD c 0).natAbs : ℝ) ≤ p.getD c 0 ∧
    p.getD c 0 < (minp vox.length pts).getD c 0
      + |vox.getD c 0| * ((((voxKey truncZ vox (minp vox.length pts) p).getD c 0).natAbs : ℝ) + 1) := by
  have hmin : (minp vox.length pts).getD c 0 = minL (pts.map fun q => q.getD c 0) := by
    unfold minp
    rw [List.getD_eq_getElem _ _ (by simpa using hc)]
    simp
  have hle : minL (pts.map fun q => q.getD c 0) ≤ p.getD c 0 :=
    minL_le _ (List.mem_map.2 ⟨p, hp, rfl⟩)
  have hkey : (voxKey truncZ vox (minp vox.length pts) p).getD c 0
      = truncZ ((p.getD c 0 - (minp vox.length pts).getD c 0) / vox.getD c 0) := by
    unfold voxKey
    rw [List.getD_eq_getElem _ _ (by simpa using hc)]
    simp
  rw [hkey, hmin]
  set m := minL (pts.map fun q => q.getD c 0)
  set v := vox.getD c 0
  have hw : 0 ≤ p.getD c 0 - m := by linarith
  have ha : 0 < |v| := abs_pos.2 hv
  rw [truncZ_div _ _ hw hv]
  set y := (p.getD c 0 - m) / |v| with hy
  have hy0 : 0 ≤ y := div_nonneg hw ha.le
  have hf0 : 0 ≤ ⌊y⌋ := Int.floor_nonneg.2 hy0
  have hnat : (((if 0 < v then (1 : ℤ) else -1) * ⌊y⌋).natAbs : ℝ) = (⌊y⌋ : ℝ) := by
    have : ((if 0 < v then (1 : ℤ) else -1) * ⌊y⌋).natAbs = ⌊y⌋.natAbs := by
      split_ifs <;> simp
    rw [this]
    obtain ⟨n, hn⟩ := Int.eq_ofNat_of_zero_le hf0
    rw [hn]; simp
  refine ⟨rfl, ?_, ?_⟩
  · rw [hnat]
    have := (le_div_iff₀ ha).1 (Int.floor_le y)
    linarith
  · rw [hnat]
    have := (div_lt_iff₀ ha).1 (Int.lt_floor_add_one y)
    linarith

/-- **two cloud points share a voxel iff they share the floor cell in every coordinate** (any non-zero sizes) -/
theorem voxKey_eq_iff (vox : List ℝ) (pts : List (Pt ℝ)) (p q : Pt ℝ) (hp : p ∈ pts) (hq : q ∈ pts)
    (hv : ∀ c, c < vox.length → vox.getD c 0 ≠ 0) :
    voxKey truncZ vox (minp vox.length pts) p = voxKey truncZ vox (minp vox.length pts) q ↔
      ∀ c, c < vox.length →
        ⌊(p.getD c 0 - (minp vox.length pts).getD c 0) / |vox.getD c 0|⌋
          = ⌊(q.getD c 0 - (minp vox.length pts).getD c 0) / |vox.getD c 0|⌋ := by
  have hlen : ∀ r : Pt ℝ, (voxKey truncZ vox (minp vox.length pts) r).length = vox.length := by
    intro r; simp [voxKey]
  have hsgn : ∀ c, ((if 0 < vox.getD c 0 then (1 : ℤ) else -1)) ≠ 0 := by
    intro c; split_ifs <;> norm_num
  constructor
  · intro h c hc
    have e1 := (voxel_cell_any_sign vox pts p hp c hc (hv c hc)).1
    have e2 := (voxel_cell_any_sign vox pts q hq c hc (hv c hc)).1
    rw [h, e2] at e1
    exact (mul_left_cancel₀ (hsgn c) e1).symm
  · intro h
    apply List.ext_getElem
    · rw [hlen, hlen]
    · intro c h1 h2
      have hc : c < vox.length := by rw [hlen] at h1; exact h1
      have e1 := (voxel_cell_any_sign vox pts p hp c hc (hv c hc)).1
      have e2 := (voxel_cell_any_sign vox pts q hq c hc (hv c hc)).1
      rw [List.getD_eq_getElem _ _ h1] at e1
      rw [List.getD_eq_getElem _ _ h2] at e2
      rw [e1, e2, h c hc]

/-- **the occupied voxels partition the cloud**: every point is counted in exactly one of the member lists whose
centroids (or members) `voxel_filter` returns — the member counts add up to `N`. -/
theorem voxel_members_partition (tr : ℝ → Int) (uniq : List (List Int) → List (List Int)) (hu : UniqContract uniq)
    (vox : List ℝ) (pts : List (Pt ℝ)) :
    ((uniq (voxKeys tr vox pts)).map fun kx =>
        (pts.filter fun p => decide (voxKey tr vox (minp vox.length pts) p = kx)).length).sum = pts.length :=
  sum_countP_cover (voxKey tr vox (minp vox.length pts)) _ (hu.nodup _) pts
    (fun p hp => ((hu _).2 _).2 (List.mem_map.2 ⟨p, hp, rfl⟩))

/-- **the exact guard of the inverse law.** `pixel2point` reads only `fx, fy, cx, cy`; `point2pixel` uses the whole matrix.
For intrinsics with non-zero focal lengths and a skew entry `s`, pixel → point → pixel is the identity for ALL pixels and
depths **iff `s = 0`** — the zero-skew (pinhole) form assumed by `pixel_point_inverse` is necessary, not a convenience. -/
theorem pixel_point_inverse_iff_no_skew (tiny fx fy cx cy s : ℝ) (ht : 0 < tiny) (ht1 : tiny ≤ 1) (hfx : fx ≠ 0) (hfy : fy ≠ 0) :
    (∀ u v d : ℝ, tiny ≤ |d| → ∃ P : Vec3 ℝ, pixel2point (skewK fx fy cx cy s) u v d = some P ∧
        point2pixel tiny (skewK fx fy cx cy s) none P = [u, v]) ↔ s = 0 := by
  constructor
  · intro h
    obtain ⟨P, h1, h2⟩ := h cx (cy + 1) 1 (by simpa using ht1)
    have hP : P = ⟨((cx - cx) * 1) / fx, ((cy + 1 - cy) * 1) / fy, 1⟩ := by
      unfold pixel2point at h1
      simp only [skewK, le_real, k0_real, Bool.and_eq_true, decide_eq_true_eq] at h1
      have e1 : ¬ (fx ≤ 0 ∧ 0 ≤ fx) := fun h => hfx (le_antisymm h.1 h.2)
      have e2 : ¬ (fy ≤ 0 ∧ 0 ≤ fy) := fun h => hfy (le_antisymm h.1 h.2)
      rw [if_neg e1, if_neg e2] at h1
      exact (Option.some.inj h1).symm
    subst hP
    have hden : homoDen tiny (0 * ((cx - cx) * 1 / fx) + 0 * ((cy + 1 - cy) * 1 / fy) + 1 * 1) = 1 := by
      rw [homoDen_eq]; · ring
      · have : (0 * ((cx - cx) * 1 / fx) + 0 * ((cy + 1 - cy) * 1 / fy) + 1 * 1 : ℝ) = 1 := by ring
        rw [this]; simpa using ht1
    simp only [point2pixel, homo2cart, skewK, Mat3.mulVec, Vec3.dot, Vec3.toList, List.getLastD_cons,
      List.getLastD_nil, List.dropLast, List.map_cons, List.map_nil, hden, List.cons.injEq, and_true] at h2
    have := h2.1
    field_simp at this
    linarith
  · intro hs
    subst hs
    intro u v d hd
    obtain ⟨P, h1, _, h3⟩ := pixel_point_inverse tiny fx fy cx cy u v d ht hfx hfy hd
    exact ⟨P, h1, h3⟩

/-- **the clamp branch of the projection** (`|z| < tiny`): `homo2cart` divides by `± tiny` instead of `z`, so the inverse
law needs `tiny ≤ |depth|` exactly as stated -/
theorem point2pixel_pinhole_clamped (tiny fx fy cx cy : ℝ) (p : Vec3 ℝ) (hz : |p.z| < tiny) :
    point2pixel tiny (pinhole fx fy cx cy) none p =
      [(fx * p.x + cx * p.z) / ((if p.z < 0 then -1 else 1) * tiny),
       (fy * p.y + cy * p.z) / ((if p.z < 0 then -1 else 1) * tiny)] := by
  have hden : homoDen tiny (0 * p.x + 0 * p.y + 1 * p.z) = (if p.z < 0 then -1 else 1) * tiny := by
    have e : (0 * p.x + 0 * p.y + 1 * p.z : ℝ) = p.z := by ring
    rw [e, homoDen_clamped tiny p.z hz]
  simp only [point2pixel, homo2cart, pinhole, Mat3.mulVec, Vec3.dot, Vec3.toList, List.getLastD_cons,
    List.getLastD_nil, List.dropLast, List.map_cons, List.map_nil, hden]
  congr 1
  · congr 1; ring
  · congr 1; congr 1; ring

/-- **`homo2cart(cart2homo(p)) = p` for both dtypes, no side condition** (`finfo.tiny` is a constant of the model) -/
theorem homo_cart_api (dt : Dtype) (p : List ℝ) : homo2cartApi dt (cart2homo p) = p :=
  homo_cart _ (finfoTiny_pos_le_one dt).2 p

/-- the inverse law through the public entry point, for both dtypes -/
theorem pixel_point_inverse_api (dt : Dtype) (fx fy cx cy u v d : ℝ) (hfx : fx ≠ 0) (hfy : fy ≠ 0)
    (hd : (finfoTiny dt : ℝ) ≤ |d|) :
    ∃ P : Vec3 ℝ, pixel2point (pinhole fx fy cx cy) u v d = some P ∧ P.z = d ∧
      point2pixelApi dt (pinhole fx fy cx cy) none P = [u, v] :=
  pixel_point_inverse _ fx fy cx cy u v d (finfoTiny_pos_le_one dt).1 hfx hfy hd

/-- **`nbr_filter` through its entry point** (`D = points.size(-1)` is explicit, so the empty cloud `(0, D)` is covered):
the call is rejected exactly when `pdim > D` (documented check) or when the max-norm is taken over an empty coordinate
range (`ord = inf` with `pdim = 0` / `D = 0`: `linalg.norm` raises); otherwise it is the core with `pdim` resolved
(`None` ↦ `D`), and the mask is returned iff asked for. -/
theorem nbr_filter_api_spec (D : Nat) (pts : List (Pt ℝ)) (n : ℤ) (r : ℝ) (pdim : Option Nat) (o : Norm) (rm : Bool) :
    (nbrFilterApi D pts n r pdim o rm = none ↔
      (∃ p, pdim = some p ∧ D < p) ∨ (o = .linf ∧ resolvePdim pdim D = some 0)) ∧
    (∀ pd, resolvePdim pdim D = some pd → ¬ (o = .linf ∧ pd = 0) →
      nbrFilterApi D pts n r pdim o rm
        = some (nbrFilter o pd r n pts, if rm then some (nbrMask o pd r n pts) else none)) ∧
    (pdim = none → resolvePdim pdim D = some D) := by
  refine ⟨?_, ?_, ?_⟩
  · unfold nbrFilterApi
    cases h : resolvePdim pdim D with
    | none =>
      simp only [Option.bind_none, true_iff]
      exact Or.inl ((resolvePdim_none_iff pdim D).1 h)
    | some pd =>
      have hn : ¬ ∃ p, pdim = some p ∧ D < p := fun e => by
        rw [(resolvePdim_none_iff pdim D).2 e] at h; cases h
      by_cases hr : normRaises o pd = true
      · obtain ⟨ho, hp⟩ := (normRaises_iff o pd).1 hr
        subst ho; subst hp
        simp [normRaises]
      · have : ¬ (o = .linf ∧ pd = 0) := fun e => hr ((normRaises_iff o pd).2 e)
        simp only [Option.bind_some, hr, if_false, Bool.false_eq_true, reduceCtorEq, false_iff, not_or]
        refine ⟨hn, ?_⟩
        rintro ⟨ho, hp⟩
        exact this ⟨ho, by simpa using hp⟩
  · intro pd h hne
    have hr : ¬ normRaises o pd = true := fun e => hne ((normRaises_iff o pd).1 e)
    simp [nbrFilterApi, h, hr]
  · intro h; subst h; rfl

/-- the default `pdim` uses every column: on a cloud of uniform width `D`, distances over the first `D` entries are the
distances over whole rows -/
theorem pdist_default (o : Norm) (pts : List (Pt ℝ)) (D : Nat) (hD : ∀ p ∈ pts, p.length = D) (p q : Pt ℝ)
    (hp : p ∈ pts) (hq : q ∈ pts) : pdist o D p q = dist o p q :=
  pdist_full o D p q (le_of_eq (hD p hp)) (le_of_eq (hD q hq))

/-- **`knn_filter` through its entry point**: rejected exactly for `pdim > D`, for the max-norm over an empty coordinate
range, or for a cloud with fewer than `k+1` points; otherwise the core with `pdim` resolved -/
theorem knn_filter_api_spec (D : Nat) (pts : List (Pt ℝ)) (kk : Nat) (pdim : Option Nat) (radius : Option ℝ) (o : Norm) :
    (knnFilterApi topk D pts kk pdim radius o = none ↔
      (∃ p, pdim = some p ∧ D < p) ∨ (o = .linf ∧ resolvePdim pdim D = some 0) ∨ pts.length < kk + 1) ∧
    (∀ pd, resolvePdim pdim D = some pd → ¬ (o = .linf ∧ pd = 0) →
      knnFilterApi topk D pts kk pdim radius o = knnFilter topk o pd kk radius pts) := by
  constructor
  · unfold knnFilterApi
    cases h : resolvePdim pdim D with
    | none =>
      simp only [Option.bind_none, true_iff]
      exact Or.inl ((resolvePdim_none_iff pdim D).1 h)
    | some pd =>
      have hn : ¬ ∃ p, pdim = some p ∧ D < p := fun e => by
        rw [(resolvePdim_none_iff pdim D).2 e] at h; cases h
      by_cases hr : normRaises o pd = true
      · obtain ⟨ho, hp⟩ := (normRaises_iff o pd).1 hr
        subst ho; subst hp
        simp [normRaises]
      · have hne : ¬ (o = .linf ∧ pd = 0) := fun e => hr ((normRaises_iff o pd).2 e)
        simp only [Option.bind_some, hr, if_false, Bool.false_eq_true, knn_filter_defined]
        constructor
        · intro h'; exact Or.inr (Or.inr h')
        · rintro (e | ⟨ho, hp⟩ | h')
          · exact absurd e hn
          · exact absurd ⟨ho, by simpa using hp⟩ hne
          · exact h'
  · intro pd h hne
    have hr : ¬ normRaises o pd = true := fun e => hne ((normRaises_iff o pd).1 e)
    simp [knnFilterApi, h, hr]

/-- **`knn` through its entry point** on clouds whose rows all have width `D` (so that every difference `r − p` has the
full width and `zipWith` truncates nothing): rejected exactly for the max-norm on width 0 or for `k > N2`; otherwise the
core, whose rows satisfy `knn_spec`. -/
theorem knn_api_spec (D : Nat) (o : Norm) (lg : Bool) (kk : Nat) (ref nbr : List (Pt ℝ))
    (hr : ∀ r ∈ ref, r.length = D) (hn : ∀ p ∈ nbr, p.length = D) :
    (knnApi topk D o lg kk ref nbr = none ↔ (o = .linf ∧ D = 0) ∨ nbr.length < kk) ∧
    (¬ (o = .linf ∧ D = 0) → kk ≤ nbr.length →
      knnApi topk D o lg kk ref nbr = some (ref.map (knnRow topk o lg kk nbr))) ∧
    (∀ r ∈ ref, ∀ p ∈ nbr, (vsub r p).length = D) := by
  refine ⟨?_, ?_, ?_⟩
  · unfold knnApi knn
    by_cases h1 : normRaises o D = true
    · obtain ⟨ho, hp⟩ := (normRaises_iff o D).1 h1
      subst ho; subst hp
      simp [normRaises]
    · have hne : ¬ (o = .linf ∧ D = 0) := fun e => h1 ((normRaises_iff o D).2 e)
      by_cases h2 : nbr.length < kk <;> simp [h1, h2, hne]
  · intro hne hk
    have h1 : ¬ normRaises o D = true := fun e => hne ((normRaises_iff o D).1 e)
    simp [knnApi, knn, h1, Nat.not_lt.2 hk]
  · intro r hr' p hp
    simp [vsub, hr r hr', hn p hp]

/-- **`random_filter` through its entry point**: rejected exactly for points of width 0 (`assert points.size(-1) >= 1`) or
`num > N`; on a batch ONE draw serves every item (same positions in every batch item). -/
theorem random_filter_api_spec (D : Nat) (perm : List Nat) (num : Nat) (pts : List (Pt ℝ)) (clouds : List (List (Pt ℝ))) :
    (randomFilterApi D perm num pts = none ↔ D = 0 ∨ pts.length < num) ∧
    (1 ≤ D → randomFilterApi D perm num pts = randomFilter perm num pts) ∧
    (∀ b : Nat, (randomFilterBatch D perm num clouds)[b]? = (clouds[b]?).map (randomFilterApi D perm num)) := by
  refine ⟨?_, ?_, ?_⟩
  · unfold randomFilterApi
    by_cases h : D < 1
    · have : D = 0 := by omega
      simp [this]
    · have : D ≠ 0 := by omega
      simp [h, this, random_filter_defined]
  · intro h; simp [randomFilterApi, Nat.not_lt.2 h]
  · intro b; simp [randomFilterBatch]

/-- **`voxel_filter` through its entry point**: rejected exactly by the documented checks (`D ≥ vdim`, every size non-zero),
for the empty cloud (`torch.min` raises) and for `voxel = []` (`torch.unique` of an `(N, 0)` index tensor raises);
otherwise the branch selected by `random` -/
theorem voxel_filter_api_spec (tr : ℝ → Int) (uniq : List (List Int) → List (List Int)) (argsort : List Nat → List Nat)
    (rnd : List Nat) (D : Nat) (pts : List (Pt ℝ)) (vox : List ℝ) (random : Bool) :
    (voxelFilterApi tr uniq argsort rnd D pts vox random = none ↔
      D < vox.length ∨ (∃ v ∈ vox, v = 0) ∨ pts = [] ∨ vox = []) ∧
    (¬ D < vox.length → (∀ v ∈ vox, v ≠ 0) → pts ≠ [] → vox ≠ [] →
      voxelFilterApi tr uniq argsort rnd D pts vox random
        = some (if random then voxelRandom tr uniq argsort rnd vox pts else voxelFilter tr uniq vox pts)) := by
  have hz : ∀ v : ℝ, isZero v = true ↔ v = 0 := by
    intro v
    simp only [isZero, le_real, k0_real, Bool.and_eq_true, decide_eq_true_eq]
    exact ⟨fun h => le_antisymm h.1 h.2, fun h => by rw [h]; simp⟩
  have hany : vox.any isZero = true ↔ ∃ v ∈ vox, v = 0 := by
    simp only [List.any_eq_true, hz]
  constructor
  · unfold voxelFilterApi
    by_cases h1 : D < vox.length
    · simp [h1]
    · by_cases h2 : vox.any isZero = true
      · have h0 : (0 : ℝ) ∈ vox := by obtain ⟨v, hv, e⟩ := hany.1 h2; exact e ▸ hv
        simp [h1, h2, h0]
      · have h0 : (0 : ℝ) ∉ vox := fun h => h2 (hany.2 ⟨0, h, rfl⟩)
        simp only [h1, h2, h0, List.isEmpty_iff, if_false, Bool.false_eq_true, false_or, exists_eq_right]
        by_cases hp : pts = []
        · simp [hp]
        · by_cases hv : vox = [] <;> simp [hp, hv]
  · intro h1 h2 h3 h4
    unfold voxelFilterApi
    have h2' : ¬ vox.any isZero = true := fun h => by
      obtain ⟨v, hv, e⟩ := hany.1 h; exact h2 v hv e
    simp [h1, h2', List.isEmpty_iff, h3, h4]

/-- `reprojerr` accepts exactly the three documented reductions -/
theorem reprojerr_api_defined (dt : Dtype) (K : Mat3 ℝ) (ext : Option (SE3 ℝ)) (red : String) (p : Vec3 ℝ) (px : List ℝ) :
    reprojerrApi dt K ext red p px = none ↔ red ≠ "none" ∧ red ≠ "sum" ∧ red ≠ "norm" := by
  unfold reprojerrApi
  split <;> simp_all


/-! ## audit round: exact tie guard, last-row guard, camera broadcasting -/

/-- **knn_filter with the exact tie guard.** It is enough that there is no tie AT THE CUT (the `(k+1)`-th and `(k+2)`-th
smallest distance from a retained point differ): ties among the `k+1` nearest, lattice and symmetric clouds are all allowed.
Then every kernel meeting the `topk` contract selects the same multiset of points and the output row is its per-channel mean. -/
theorem knn_filter_spec_gap (htk : TopkContract topk) (o : Norm) (pdim kk : Nat) (radius : Option ℝ) (pts : List (Pt ℝ))
    (hk : kk + 1 ≤ pts.length) (hg : ∀ p ∈ knnRetained o pdim kk radius pts, CutGap o pdim (kk + 1) pts p) :
    knnFilter topk o pdim kk radius pts =
      some ((knnRetained o pdim kk radius pts).map fun p => meanCols (width pts) (nearest o pdim (kk + 1) pts p)) := by
  unfold knnFilter
  rw [if_neg (by omega)]
  congr 1
  apply List.map_congr_left
  intro p hp
  simp only [knnMean]
  exact meanCols_perm _ (topk_points_gap topk htk o pdim (kk + 1) pts p hk (hg p hp))

/-- **knn_filter, exact equivariance under the exact tie guard** (all orderings, any two kernels) -/
theorem knn_filter_equivariant_gap (htk : TopkContract topk) (htk' : TopkContract topk') (o : Norm) (pdim kk : Nat)
    (radius : Option ℝ) {pts pts' : List (Pt ℝ)} (hp : pts.Perm pts') (hk : kk + 1 ≤ pts.length)
    (D : Nat) (hD : ∀ p ∈ pts, p.length = D)
    (hg : ∀ p ∈ knnRetained o pdim kk radius pts, CutGap o pdim (kk + 1) pts p) :
    knnFilter topk o pdim kk radius pts
      = some ((knnRetained o pdim kk radius pts).map fun p => meanCols D (nearest o pdim (kk + 1) pts p)) ∧
    knnFilter topk' o pdim kk radius pts'
      = some ((knnRetained o pdim kk radius pts').map fun p => meanCols D (nearest o pdim (kk + 1) pts p)) ∧
    (knnRetained o pdim kk radius pts).Perm (knnRetained o pdim kk radius pts') := by
  have hk' : kk + 1 ≤ pts'.length := by rw [← hp.length_eq]; exact hk
  have hw : ∀ {l : List (Pt ℝ)}, (∀ p ∈ l, p.length = D) → 1 ≤ l.length → width l = D := by
    intro l hl h1
    cases l with
    | nil => simp at h1
    | cons x xs => simpa [width] using hl x List.mem_cons_self
  have hret : (knnRetained o pdim kk radius pts).Perm (knnRetained o pdim kk radius pts') := by
    cases radius with
    | none => exact hp
    | some r => exact (nbr_filter_perm o pdim r (kk : ℤ) hp).2
  refine ⟨?_, ?_, hret⟩
  · rw [knn_filter_spec_gap topk htk o pdim kk radius pts hk hg, hw hD (by omega)]
  · unfold knnFilter
    rw [if_neg (by omega)]
    congr 1
    apply List.map_congr_left
    intro p hp'
    simp only [knnMean]
    rw [hw (fun q h => hD q (hp.symm.subset h)) (by omega)]
    have hgp := hg p (hret.symm.subset hp')
    -- gap for pts' follows from the gap for pts: both sorted lists carry the same values
    have h1 : ((topk' false (pts'.map (pdist o pdim p)) (kk + 1)).map fun i => pts'.getD i []).Perm
        (nearest o pdim (kk + 1) pts p) := by
      set f := pdist o pdim p
      have h := htk' false (pts'.map f) (kk + 1) (by simpa using hk')
      have hin : ∀ i ∈ topk' false (pts'.map f) (kk + 1), i < pts'.length := fun i hi => by simpa using h.inb i hi
      unfold nearest
      apply gap_perm f pts _ _ (kk + 1) (List.mergeSort_perm _ _) hgp
      · exact (idx_map_subperm pts' [] _ h.nodup hin).trans hp.symm.subperm
      · rw [List.map_take, map_sort_key, sortVals_congr false (hp.map f), ← h.values, List.map_map]
        apply List.map_congr_left
        intro i hi
        simp only [Function.comp]
        rw [List.getD_eq_getElem _ _ (hin i hi), List.getD_eq_getElem _ _ (by simpa using hin i hi)]
        simp
    exact meanCols_perm _ h1

/-- **the other half of the exact guard**: with last row `(0, 0, w)` the pixel → point → pixel law holds for all pixels and
depths **iff `w = 1`** (`point2pixel` divides by `w·z`, `pixel2point` never reads `w`). Together with
`pixel_point_inverse_iff_no_skew`: the clause "mutually inverse" is about intrinsics of the form `[[fx,0,cx],[0,fy,cy],[0,0,1]]`. -/
theorem pixel_point_inverse_iff_unit_last_row (tiny fx fy cx cy w : ℝ) (ht : 0 < tiny)
    (hfx : fx ≠ 0) (hfy : fy ≠ 0) (hw : tiny ≤ |w|) :
    (∀ u v d : ℝ, tiny ≤ |w * d| → ∃ P : Vec3 ℝ, pixel2point (lastRowK fx fy cx cy w) u v d = some P ∧
        point2pixel tiny (lastRowK fx fy cx cy w) none P = [u, v]) ↔ w = 1 := by
  have hw0 : w ≠ 0 := by intro e; rw [e, abs_zero] at hw; linarith
  constructor
  · intro h
    obtain ⟨P, h1, h2⟩ := h (cx + fx) cy 1 (by simpa using hw)
    have hP : P = ⟨((cx + fx - cx) * 1) / fx, ((cy - cy) * 1) / fy, 1⟩ := by
      unfold pixel2point at h1
      simp only [lastRowK, le_real, k0_real, Bool.and_eq_true, decide_eq_true_eq] at h1
      have e1 : ¬ (fx ≤ 0 ∧ 0 ≤ fx) := fun h => hfx (le_antisymm h.1 h.2)
      have e2 : ¬ (fy ≤ 0 ∧ 0 ≤ fy) := fun h => hfy (le_antisymm h.1 h.2)
      rw [if_neg e1, if_neg e2] at h1
      exact (Option.some.inj h1).symm
    subst hP
    have hden : homoDen tiny (0 * ((cx + fx - cx) * 1 / fx) + 0 * ((cy - cy) * 1 / fy) + w * 1) = w := by
      have e : (0 * ((cx + fx - cx) * 1 / fx) + 0 * ((cy - cy) * 1 / fy) + w * 1 : ℝ) = w := by ring
      rw [e, homoDen_eq tiny w hw]
    simp only [point2pixel, homo2cart, lastRowK, Mat3.mulVec, Vec3.dot, Vec3.toList, List.getLastD_cons,
      List.getLastD_nil, List.dropLast, List.map_cons, List.map_nil, hden, List.cons.injEq, and_true] at h2
    have h3 := h2.1
    field_simp at h3
    -- fx + cx = (cx + fx) * w
    by_contra hne
    -- second pixel: take u = cx + 2 fx as well to eliminate cx
    obtain ⟨P', h1', h2'⟩ := h (cx + 2 * fx) cy 1 (by simpa using hw)
    have hP' : P' = ⟨((cx + 2 * fx - cx) * 1) / fx, ((cy - cy) * 1) / fy, 1⟩ := by
      unfold pixel2point at h1'
      simp only [lastRowK, le_real, k0_real, Bool.and_eq_true, decide_eq_true_eq] at h1'
      have e1 : ¬ (fx ≤ 0 ∧ 0 ≤ fx) := fun h => hfx (le_antisymm h.1 h.2)
      have e2 : ¬ (fy ≤ 0 ∧ 0 ≤ fy) := fun h => hfy (le_antisymm h.1 h.2)
      rw [if_neg e1, if_neg e2] at h1'
      exact (Option.some.inj h1').symm
    subst hP'
    have hden' : homoDen tiny (0 * ((cx + 2 * fx - cx) * 1 / fx) + 0 * ((cy - cy) * 1 / fy) + w * 1) = w := by
      have e : (0 * ((cx + 2 * fx - cx) * 1 / fx) + 0 * ((cy - cy) * 1 / fy) + w * 1 : ℝ) = w := by ring
      rw [e, homoDen_eq tiny w hw]
    simp only [point2pixel, homo2cart, lastRowK, Mat3.mulVec, Vec3.dot, Vec3.toList, List.getLastD_cons,
      List.getLastD_nil, List.dropLast, List.map_cons, List.map_nil, hden', List.cons.injEq, and_true] at h2'
    have h4 := h2'.1
    field_simp at h4
    -- h3: fx + cx = (cx + fx) w ; h4: 2 fx + cx = (cx + 2 fx) w ; subtract: fx = fx w
    have h5 : fy * (fx * (w - 1)) = 0 := by linear_combination h3 - h4
    rcases mul_eq_zero.1 h5 with e | e
    · exact hfy e
    · rcases mul_eq_zero.1 e with e' | e'
      · exact hfx e'
      · exact hne (by linarith)
  · intro hw1
    subst hw1
    intro u v d hd
    obtain ⟨P, h1, _, h3⟩ := pixel_point_inverse tiny fx fy cx cy u v d ht hfx hfy (by simpa using hd)
    exact ⟨P, h1, h3⟩

/-- **camera broadcasting** (`point2pixel` on `points (bp…, n, 3)`, `intrinsics (bk…, 3, 3)`, `extrinsics (be…, 7)`):
the call is defined exactly when the batch shapes broadcast; the output batch shape is their broadcast; and item `i` of it
is the single-camera projection of the points `points[proj bp i]` with `intrinsics[proj bk i]` and `extrinsics[proj be i]`
— no other coupling between batch items. -/
theorem point2pixel_batch_item (dt : Dtype) (pts : Batch.T (List (Vec3 ℝ))) (K : Batch.T (Mat3 ℝ)) (E : Batch.T (SE3 ℝ)) :
    (point2pixelBatch dt pts K (some E) = none ↔ bcast3 pts.shape K.shape E.shape = none) ∧
    (point2pixelBatch dt pts K none = none ↔ Batch.broadcastShapes pts.shape K.shape = none) ∧
    (∀ out, point2pixelBatch dt pts K (some E) = some out →
      bcast3 pts.shape K.shape E.shape = some out.shape ∧
      ∀ i, Batch.inb out.shape i →
        out.get i = (pts.get (Batch.proj pts.shape i)).map
          (point2pixelApi dt (K.get (Batch.proj K.shape i)) (some (E.get (Batch.proj E.shape i))))) ∧
    (∀ out, point2pixelBatch dt pts K none = some out →
      Batch.broadcastShapes pts.shape K.shape = some out.shape ∧
      ∀ i, Batch.inb out.shape i →
        out.get i = (pts.get (Batch.proj pts.shape i)).map (point2pixelApi dt (K.get (Batch.proj K.shape i)) none)) := by
  refine ⟨?_, ?_, ?_, ?_⟩
  · simp [point2pixelBatch]
  · simp [point2pixelBatch]
  · intro out h
    simp only [point2pixelBatch, Option.map_eq_some_iff] at h
    obtain ⟨sh, hsh, rfl⟩ := h
    refine ⟨hsh, ?_⟩
    intro i hi
    simp only [Batch.T.get, Batch.unravel_ravel' hi]
  · intro out h
    simp only [point2pixelBatch, Option.map_eq_some_iff] at h
    obtain ⟨sh, hsh, rfl⟩ := h
    refine ⟨hsh, ?_⟩
    intro i hi
    simp only [Batch.T.get, Batch.unravel_ravel' hi]

/-- **`pixel2point` broadcasting** (`pixels (bp…, n, 2)`, `depth (bd…, n)`, `intrinsics (bk…, 3, 3)` — the place of defect
D20): defined exactly when the three batch shapes broadcast; item `i` un-projects pixel `j` of `pixels[proj bp i]` with
`depth[proj bd i][j]` and `intrinsics[proj bk i]`. -/
theorem pixel2point_batch_item (px : Batch.T (List (ℝ × ℝ))) (depth : Batch.T (List ℝ)) (K : Batch.T (Mat3 ℝ)) :
    (pixel2pointBatch px depth K = none ↔ bcast3 px.shape depth.shape K.shape = none) ∧
    (∀ out, pixel2pointBatch px depth K = some out →
      bcast3 px.shape depth.shape K.shape = some out.shape ∧
      ∀ i, Batch.inb out.shape i →
        out.get i = List.zipWith (fun (uv : ℝ × ℝ) d => pixel2point (K.get (Batch.proj K.shape i)) uv.1 uv.2 d)
          (px.get (Batch.proj px.shape i)) (depth.get (Batch.proj depth.shape i))) := by
  refine ⟨by simp [pixel2pointBatch], ?_⟩
  intro out h
  simp only [pixel2pointBatch, Option.map_eq_some_iff] at h
  obtain ⟨sh, hsh, rfl⟩ := h
  refine ⟨hsh, ?_⟩
  intro i hi
  simp only [Batch.T.get, Batch.unravel_ravel' hi]


/-! ## ties at the selection boundary -/

/-- **knn_filter with ties at the selection boundary** (integer grids, organised / voxelised clouds — no tie hypothesis
at all): for EVERY `topk` kernel meeting the contract, every output row is the per-channel mean over SOME admissible choice
of `k+1` cloud points — `k+1` points exactly, none of them farther from the retained point than a point that was left out.
(A mean over all points tied at the cut, `k+2` or more, is excluded.) `knn_filter_spec_gap` / `knn_filter_spec` are the
special cases with a single admissible choice. -/
theorem knn_filter_spec_ties (htk : TopkContract topk) (o : Norm) (pdim kk : Nat) (radius : Option ℝ) (pts : List (Pt ℝ))
    (hk : kk + 1 ≤ pts.length) :
    ∃ rows, knnFilter topk o pdim kk radius pts = some rows ∧
      List.Forall₂ (fun p row => ∃ L, Admissible o pdim (kk + 1) pts p L ∧ row = meanCols (width pts) L)
        (knnRetained o pdim kk radius pts) rows := by
  refine ⟨(knnRetained o pdim kk radius pts).map (knnMean topk o pdim kk pts), ?_, ?_⟩
  · unfold knnFilter; rw [if_neg (by omega)]
  · rw [List.forall₂_map_right_iff]
    apply List.forall₂_same.2
    intro p _
    exact ⟨_, topk_points_admissible topk htk o pdim (kk + 1) pts p hk, rfl⟩

/-- **knn with ties**: the returned index list is an admissible selection for EVERY kernel — no neighbour that was left out
is closer to `r` than one that was returned (with exact ties any such list is allowed; the values are unique: `knn_spec`). -/
theorem knn_indices_admissible (htk : TopkContract topk) (o : Norm) (kk : Nat) (nbr : List (Pt ℝ)) (hk : kk ≤ nbr.length)
    (r : Pt ℝ) :
    ∀ i ∈ (knnRow topk o false kk nbr r).2, ∀ j, j < nbr.length → j ∉ (knnRow topk o false kk nbr r).2 →
      dist o r (nbr.getD i []) ≤ dist o r (nbr.getD j []) := by
  intro i hi j hj hnot
  have h := htk false (nbr.map (dist o r)) kk (by simpa using hk)
  have hii : i < nbr.length := by simpa using h.inb i hi
  have hl := h.least i hi j (by simpa using hj) hnot
  simp only [ordRel] at hl
  have hi' : i < (nbr.map (dist o r)).length := by simpa using hii
  have hj' : j < (nbr.map (dist o r)).length := by simpa using hj
  rw [List.getD_eq_getElem (nbr.map (dist o r)) 0 (n := i) hi', List.getD_eq_getElem (nbr.map (dist o r)) 0 (n := j) hj'] at hl
  rw [List.getD_eq_getElem nbr [] (n := i) hii, List.getD_eq_getElem nbr [] (n := j) hj]
  simpa using hl


/-! ## non-vacuity: the hypotheses used above are satisfiable by non-trivial values -/

/-- a `topk` kernel meeting the contract exists: the driver's stand-in (stable merge sort) -/
example : TopkContract (topkStd (α := ℝ)) := topkStd_contract
/-- the Boolean contract the driver re-checks on every call is exactly the hypothesis of the theorems -/
example (lg : Bool) (vals : List ℝ) (kk : Nat) (idx : List Nat) :
    topkOk lg vals kk idx = true ↔ TopkSpec (ordRel lg) vals kk idx := topkOk_iff lg vals kk idx
/-- … and the linear-time check the driver actually evaluates implies it -/
example (lg : Bool) (vals : List ℝ) (kk : Nat) (idx : List Nat) (h : topkOkFast lg vals kk idx = true) :
    TopkSpec (ordRel lg) vals kk idx := topkOkFast_sound lg vals kk idx h
/-- the truncation contract of `voxel_cell` holds for the floor function on non-negative reals -/
example : ∀ x : ℝ, 0 ≤ x → ((⌊x⌋ : Int) : ℝ) ≤ x ∧ x < ((⌊x⌋ : Int) : ℝ) + 1 :=
  fun x _ => ⟨Int.floor_le x, Int.lt_floor_add_one x⟩
/-- a `unique` kernel meeting the contract exists -/
example : UniqContract uniqSort := uniqSort_contract
/-- an `argsort` kernel meeting the contract exists: the driver's stand-in (positions of the stable merge sort) -/
example : ArgsortContract argsortStd := argsortStd_contract
/-- `NoTies` (every pair of distinct rows at distinct distances) implies the exact guard only when rows are not repeated;
the guard is strictly weaker on lattices: a witness with a tie INSIDE the neighbourhood and none at the cut -/
example : CutGap .l1 1 3 [[0], [1], [-1], [5]] ([0] : Pt ℝ) := by
  unfold CutGap
  have hs : ([[0], [1], [-1], [5]] : List (Pt ℝ)).mergeSort (fun a b => leB false (pdist .l1 1 [0] a) (pdist .l1 1 [0] b))
      = [[0], [1], [-1], [5]] := by
    apply List.mergeSort_of_pairwise
    simp [leB_false, pdist, dist, normOf, vsub, sumL_real, sabs_real]
  simp only [hs]
  intro a ha b hb
  simp only [List.take, List.drop, List.mem_cons, List.not_mem_nil, or_false] at ha hb
  subst hb
  rcases ha with rfl | rfl | rfl <;> simp [pdist, dist, normOf, vsub, sumL_real, sabs_real]

/-- "ties excluded" holds for a genuine cloud: three collinear points at distances 0, 1, 3 from the first -/
example : NoTies .l1 1 [[0], [1], [3]] ([0] : Pt ℝ) := by
  intro a ha b hb
  simp only [List.mem_cons, List.not_mem_nil, or_false] at ha hb
  rcases ha with rfl | rfl | rfl <;> rcases hb with rfl | rfl | rfl <;>
    simp [pdist, dist, normOf, vsub, sumL_real, sabs_real]
/-- camera hypotheses: `finfo(float32).tiny = 2⁻¹²⁶`, focal lengths 2 and -3, depth -1/2, a rotated pose -/
example : (0 : ℝ) < 2⁻¹ ^ 126 ∧ (2⁻¹ ^ 126 : ℝ) ≤ 1 ∧ (2 : ℝ) ≠ 0 ∧ (-3 : ℝ) ≠ 0 ∧ (2⁻¹ ^ 126 : ℝ) ≤ |(-1 / 2 : ℝ)| := by
  refine ⟨by positivity, ?_, by norm_num, by norm_num, ?_⟩
  · exact pow_le_one₀ (by norm_num) (by norm_num)
  · rw [abs_of_neg (by norm_num)]
    calc (2⁻¹ ^ 126 : ℝ) ≤ 2⁻¹ ^ 1 := pow_le_pow_of_le_one (by norm_num) (by norm_num) (by norm_num)
      _ = -(-1 / 2) := by norm_num
example : (⟨⟨1, 2, 3⟩, ⟨0, 0, 1, 0⟩⟩ : SE3 ℝ).q.normSq = 1 := by simp [Quat.normSq]

/-- pass 3: the truncation is toward zero on both sides; a negative radius, a negative voxel size and a skewed camera
are genuine inputs of the new theorems; with skew 1 the inverse law really fails -/
example : truncZ (7 / 2) = 3 ∧ truncZ (-7 / 2) = -3 := by
  constructor
  · unfold truncZ; rw [if_pos (by norm_num)]; rw [Int.floor_eq_iff]; norm_num
  · unfold truncZ; rw [if_neg (by norm_num)]; rw [Int.ceil_eq_iff]; norm_num
example : ((-1 : ℝ) < 0) ∧ ((-1 / 2 : ℝ) ≠ 0) := by norm_num
example : ¬ ∀ u v d : ℝ, (2⁻¹ : ℝ) ≤ |d| → ∃ P : Vec3 ℝ, pixel2point (skewK 2 3 1 1 1) u v d = some P ∧
    point2pixel 2⁻¹ (skewK 2 3 1 1 1) none P = [u, v] := by
  intro h
  have := (pixel_point_inverse_iff_no_skew 2⁻¹ 2 3 1 1 1 (by norm_num) (by norm_num) (by norm_num) (by norm_num)).1 h
  norm_num at this
example : ∃ σ : Equiv.Perm (Fin 3), σ 0 = 1 ∧ σ 1 = 2 ∧ σ 2 = 0 :=
  ⟨(Equiv.swap 0 1).trans (Equiv.swap 0 2), by decide, by decide, by decide⟩

/-- the 4×4-grid situation: the point `(0,0)` has two neighbours at distance 1; with `k = 1` both `{(0,0),(1,0)}` and
`{(0,0),(0,1)}` are admissible, the three-point set is not (wrong size) -/
example : Admissible .l2 2 2 [[0, 0], [1, 0], [0, 1], [1, 1]] ([0, 0] : Pt ℝ) [[0, 0], [0, 1]] := by
  refine ⟨rfl, [[1, 0], [1, 1]], ?_, ?_⟩
  · have h : ([[1, 0], [0, 1]] : List (Pt ℝ)).Perm [[0, 1], [1, 0]] := List.Perm.swap _ _ _
    exact (List.Perm.cons _ ((h.symm.append_right [[1, 1]]))).symm.symm
  · intro a ha b hb
    simp only [List.mem_cons, List.not_mem_nil, or_false] at ha hb
    rcases ha with rfl | rfl <;> rcases hb with rfl | rfl <;>
      simp [pdist, dist, normOf, vsub, sumL_real]


/-! ## pass 7: `knn(sorted=False)` -/

/-- **knn with `sorted=False`** (the configuration that had no model): for EVERY kernel meeting the unsorted `topk` contract
the returned values are — as a multiset, in whatever order — the `k` smallest (largest) distances, they are the distances at
the returned indices, the indices are `k` distinct valid positions, and no neighbour that was left out is closer (farther)
than one that was returned. With `sorted=True` the entry point is `knnApi` (`knn_api_spec`, `knn_spec`). -/
theorem knn_unsorted_spec (topk topkU : Bool → List ℝ → Nat → List Nat) (htk : TopkContractU topkU) (D : Nat) (o : Norm)
    (lg : Bool) (kk : Nat) (ref nbr : List (Pt ℝ)) (hne : ¬ (o = .linf ∧ D = 0)) (hk : kk ≤ nbr.length) :
    knnApiS topk topkU D o lg false kk ref nbr = some (ref.map (knnRow topkU o lg kk nbr)) ∧
    ∀ r ∈ ref,
      ((knnRow topkU o lg kk nbr r).1).Perm ((sortVals lg (nbr.map (dist o r))).take kk) ∧
      (knnRow topkU o lg kk nbr r).1 = (knnRow topkU o lg kk nbr r).2.map (fun j => dist o r (nbr.getD j [])) ∧
      (knnRow topkU o lg kk nbr r).2.length = kk ∧ (knnRow topkU o lg kk nbr r).2.Nodup ∧
      (∀ j ∈ (knnRow topkU o lg kk nbr r).2, j < nbr.length) ∧
      ∀ i ∈ (knnRow topkU o lg kk nbr r).2, ∀ j, j < nbr.length → j ∉ (knnRow topkU o lg kk nbr r).2 →
        ordRel lg (dist o r (nbr.getD i [])) (dist o r (nbr.getD j [])) := by
  constructor
  · have h1 : ¬ normRaises o D = true := fun e => hne ((normRaises_iff o D).1 e)
    simp [knnApiS, knnApi, knn, h1, Nat.not_lt.2 hk]
  · intro r _
    have h := htk lg (nbr.map (dist o r)) kk (by simpa using hk)
    have hin : ∀ j ∈ topkU lg (nbr.map (dist o r)) kk, j < nbr.length := fun j hj => by simpa using h.inb j hj
    refine ⟨?_, ?_, h.len, h.nodup, hin, ?_⟩
    · simpa [knnRow] using h.values_perm
    · simp only [knnRow, k0_real]
      apply List.map_congr_left
      intro j hj
      rw [List.getD_eq_getElem (nbr.map (dist o r)) 0 (n := j) (by simpa using hin j hj),
        List.getD_eq_getElem nbr [] (n := j) (hin j hj)]
      simp
    · intro i hi j hj hnot
      have hl := h.least i hi j (by simpa using hj) hnot
      have hii := hin i hi
      rw [List.getD_eq_getElem (nbr.map (dist o r)) 0 (n := i) (by simpa using hii),
        List.getD_eq_getElem (nbr.map (dist o r)) 0 (n := j) (by simpa using hj)] at hl
      rw [List.getD_eq_getElem nbr [] (n := i) hii, List.getD_eq_getElem nbr [] (n := j) hj]
      simpa using hl

/-- an unsorted kernel exists: any sorted kernel (the driver's stand-in), also with its answer reversed -/
example : TopkContractU (topkStd (α := ℝ)) := fun lg vals kk hk => (topkStd_spec lg vals kk hk).toU

/-! ## pass 7: which choices `knn_filter_spec_ties` allows -/

/-- **the admissible choices, characterised.** The brute-force choice (sort the cloud by distance to `p`, take the first
`m`) is admissible for every cloud, ties or not — so `knn_filter_spec_ties` always allows the brute-force mean — and when
there is a strict gap at the cut the admissible choices are EXACTLY the reorderings of it: `knn_filter_spec_ties` then pins
the row down to the one value of `knn_filter_spec_gap`. -/
theorem admissible_iff_nearest_of_gap (o : Norm) (pdim m : Nat) (pts : List (Pt ℝ)) (p : Pt ℝ) (hm : m ≤ pts.length) :
    Admissible o pdim m pts p (nearest o pdim m pts p) ∧
    (CutGap o pdim m pts p → ∀ L, Admissible o pdim m pts p L ↔ L.Perm (nearest o pdim m pts p)) := by
  refine ⟨nearest_admissible o pdim m pts p hm, fun hg L => ⟨admissible_unique_of_gap o pdim m pts p hg L, ?_⟩⟩
  intro hL
  obtain ⟨hlen, R, hperm, hle⟩ := nearest_admissible o pdim m pts p hm
  exact ⟨hL.length_eq.trans hlen, R, (hL.append_right R).trans hperm, fun a ha b hb => hle a (hL.subset ha) b hb⟩

/-- without the gap the admissible choices are genuinely several: two points at the same distance, `m = 1` — either of them
alone is admissible, and they are not reorderings of one another (so the tie theorem cannot be strengthened to `nearest`) -/
example : Admissible .l1 1 1 [[1], [-1]] ([0] : Pt ℝ) [[1]] ∧ Admissible .l1 1 1 [[1], [-1]] ([0] : Pt ℝ) [[-1]] ∧
    ¬ ([[1]] : List (Pt ℝ)).Perm [[-1]] := by
  refine ⟨⟨rfl, [[-1]], List.Perm.refl _, ?_⟩, ⟨rfl, [[1]], List.Perm.swap _ _ _, ?_⟩, ?_⟩
  · intro a ha b hb
    simp only [List.mem_singleton] at ha hb
    subst ha hb
    simp [pdist, dist, normOf, vsub, sumL_real, sabs_real]
  · intro a ha b hb
    simp only [List.mem_singleton] at ha hb
    subst ha hb
    simp [pdist, dist, normOf, vsub, sumL_real, sabs_real]
  · rw [List.perm_singleton, List.singleton_inj, List.singleton_inj]; norm_num

/-! ## pass 10: the selections of the float code (rounded distances) are those of the real model outside the band -/

/-- **knn on rounded distances selects the neighbours of the exact model** (the tie between the float code and the real-number
model where the harness makes index claims). `d'` is ANY list of computed distances within `δ` of the exact ones (whatever
rounding, whatever evaluation order); every exact distance is on the selected side of a threshold `t` or beyond it by more than
`2δ`; exactly `k` are on the selected side. Then for every unsorted-contract kernel run on `d'` the returned index set is
`{j | dist(r, nbr[j]) on the selected side of t}`, and it is a reordering of the index list of the exact model under ANY
sorted-contract kernel. Both `largest`. -/
theorem knn_indices_robust (topk topkU : Bool → List ℝ → Nat → List Nat) (htk : TopkContract topk) (htu : TopkContractU topkU)
    (o : Norm) (lg : Bool) (kk : Nat) (nbr : List (Pt ℝ)) (r : Pt ℝ) (d' : List ℝ) (δ t : ℝ) (hδ0 : 0 ≤ δ)
    (hlen : d'.length = nbr.length)
    (hδ : ∀ j, j < nbr.length → |d'.getD j 0 - dist o r (nbr.getD j [])| ≤ δ)
    (hband : ∀ j, j < nbr.length → lowSide lg t (dist o r (nbr.getD j [])) ∨
      (if lg then dist o r (nbr.getD j []) < t - 2 * δ else t + 2 * δ < dist o r (nbr.getD j [])))
    (hcount : ((List.range nbr.length).filter fun j => decide (lowSide lg t (dist o r (nbr.getD j [])))).length = kk) :
    (∀ j, j < nbr.length → (j ∈ topkU lg d' kk ↔ lowSide lg t (dist o r (nbr.getD j [])))) ∧
    (topkU lg d' kk).Perm (knnRow topk o lg kk nbr r).2 := by
  set vals := nbr.map (dist o r) with hvals
  have hvl : vals.length = nbr.length := by simp [hvals]
  have hg : ∀ j, j < nbr.length → vals.getD j 0 = dist o r (nbr.getD j []) := fun j hj => map_dist_getD _ nbr j hj
  have hk : kk ≤ nbr.length := by
    rw [← hcount]; exact (List.length_filter_le _ _).trans (by simp)
  have hδ' : ∀ i, i < vals.length → |d'.getD i 0 - vals.getD i 0| ≤ δ := fun i hi => by
    rw [hg i (hvl ▸ hi)]; exact hδ i (hvl ▸ hi)
  have hband' : ∀ i, i < vals.length → lowSide lg t (vals.getD i 0) ∨
      (if lg then vals.getD i 0 < t - 2 * δ else t + 2 * δ < vals.getD i 0) := fun i hi => by
    rw [hg i (hvl ▸ hi)]; exact hband i (hvl ▸ hi)
  have hcount' : ((List.range vals.length).filter fun i => decide (lowSide lg t (vals.getD i 0))).length = kk := by
    rw [← hcount, hvl]
    congr 1
    apply List.filter_congr
    intro j hj
    rw [hg j (List.mem_range.1 hj)]
  have hU := htu lg d' kk (hlen ▸ hk)
  have hE := (htk lg vals kk (hvl ▸ hk)).toU
  refine ⟨fun j hj => ?_, ?_⟩
  · rw [← hg j hj]
    exact TopkSpecU.robust (hlen.trans hvl.symm) hδ' hband' hcount' hU j (hvl ▸ hj)
  · exact TopkSpecU.robust_perm (hlen.trans hvl.symm) rfl hδ' (fun i _ => by simpa using hδ0) hband' hcount' hU hE

/-- **knn_filter on rounded distances**: under the same separation at the cut (`k+1` points within `t`, all others beyond
`t + 2δ`), the mean over the points selected from the ROUNDED distance row — any kernel — is exactly the row of the model. -/
theorem knn_filter_robust (topk topkU : Bool → List ℝ → Nat → List Nat) (htk : TopkContract topk) (htu : TopkContractU topkU)
    (o : Norm) (pdim kk : Nat) (pts : List (Pt ℝ)) (p : Pt ℝ) (d' : List ℝ) (δ t : ℝ) (hδ0 : 0 ≤ δ)
    (hlen : d'.length = pts.length)
    (hδ : ∀ j, j < pts.length → |d'.getD j 0 - pdist o pdim p (pts.getD j [])| ≤ δ)
    (hband : ∀ j, j < pts.length → pdist o pdim p (pts.getD j []) ≤ t ∨ t + 2 * δ < pdist o pdim p (pts.getD j []))
    (hcount : ((List.range pts.length).filter fun j => decide (pdist o pdim p (pts.getD j []) ≤ t)).length = kk + 1) :
    meanCols (width pts) ((topkU false d' (kk + 1)).map fun i => pts.getD i []) = knnMean topk o pdim kk pts p := by
  set vals := pts.map (pdist o pdim p) with hvals
  have hvl : vals.length = pts.length := by simp [hvals]
  have hg : ∀ j, j < pts.length → vals.getD j 0 = pdist o pdim p (pts.getD j []) := fun j hj => map_dist_getD _ pts j hj
  have hk : kk + 1 ≤ pts.length := by
    rw [← hcount]; exact (List.length_filter_le _ _).trans (by simp)
  have hδ' : ∀ i, i < vals.length → |d'.getD i 0 - vals.getD i 0| ≤ δ := fun i hi => by
    rw [hg i (hvl ▸ hi)]; exact hδ i (hvl ▸ hi)
  have hband' : ∀ i, i < vals.length → lowSide false t (vals.getD i 0) ∨
      (if false then vals.getD i 0 < t - 2 * δ else t + 2 * δ < vals.getD i 0) := fun i hi => by
    rw [hg i (hvl ▸ hi)]; simpa [lowSide, ordRel] using hband i (hvl ▸ hi)
  have hcount' : ((List.range vals.length).filter fun i => decide (lowSide false t (vals.getD i 0))).length = kk + 1 := by
    rw [← hcount, hvl]
    congr 1
    apply List.filter_congr
    intro j hj
    rw [hg j (List.mem_range.1 hj)]
    simp [lowSide, ordRel]
  have hU := htu false d' (kk + 1) (hlen ▸ hk)
  have hE := (htk false vals (kk + 1) (hvl ▸ hk)).toU
  have hperm := TopkSpecU.robust_perm (hlen.trans hvl.symm) rfl hδ' (fun i _ => by simpa using hδ0) hband' hcount' hU hE
  unfold knnMean
  exact meanCols_perm _ (hperm.map _)

/-- **nbr_filter on rounded distances**: `d'` any computed distance within `δ` of the exact one on the cloud, no exact distance
within `δ` of the radius. Then mask and output computed from `d'` are those of the model. -/
theorem nbr_filter_robust (o : Norm) (pdim : Nat) (r δ : ℝ) (n : ℤ) (pts : List (Pt ℝ)) (d' : Pt ℝ → Pt ℝ → ℝ)
    (hδ : ∀ p ∈ pts, ∀ q ∈ pts, |d' p q - pdist o pdim p q| ≤ δ)
    (hband : ∀ p ∈ pts, ∀ q ∈ pts, δ < |pdist o pdim p q - r|) :
    (pts.map fun p => decide (n ≤ (pts.countP (fun q => decide (d' p q ≤ r)) : ℤ) - 1)) = nbrMask o pdim r n pts ∧
    selectMask pts (pts.map fun p => decide (n ≤ (pts.countP (fun q => decide (d' p q ≤ r)) : ℤ) - 1))
      = nbrFilter o pdim r n pts := by
  have h := nbrMask_robust o pdim r δ n pts d' hδ hband
  exact ⟨h, by rw [h]; rfl⟩

/-- the hypotheses of the robustness theorems are satisfiable with a genuinely perturbed row: exact `[0, 1, 5]`, computed
`[1/8, 9/8, 5]`, `δ = 1/4`, threshold `1`, `k = 2` -/
example : (∀ i, i < 3 → |([1/8, 9/8, 5] : List ℝ).getD i 0 - ([0, 1, 5] : List ℝ).getD i 0| ≤ 1/4) ∧
    (∀ i, i < 3 → lowSide false 1 (([0, 1, 5] : List ℝ).getD i 0) ∨ (1 : ℝ) + 2 * (1/4) < ([0, 1, 5] : List ℝ).getD i 0) ∧
    ((List.range 3).filter fun i => decide (lowSide false 1 (([0, 1, 5] : List ℝ).getD i 0))).length = 2 := by
  refine ⟨?_, ?_, ?_⟩
  · intro i hi
    obtain rfl | rfl | rfl : i = 0 ∨ i = 1 ∨ i = 2 := by omega
    all_goals norm_num [abs_le]
  · intro i hi
    obtain rfl | rfl | rfl : i = 0 ∨ i = 1 ∨ i = 2 := by omega
    all_goals norm_num [lowSide, ordRel]
  · norm_num [List.range_succ, List.filter_cons, lowSide, ordRel]
/-- … and of `nbr_filter_robust`: two points at distance 3, radius 1, `δ = 1/2`, computed distance off by 1/4 -/
example : ∀ p ∈ ([[0], [3]] : List (Pt ℝ)), ∀ q ∈ ([[0], [3]] : List (Pt ℝ)), (1/2 : ℝ) < |pdist .l1 1 p q - 1| := by
  intro p hp q hq
  simp only [List.mem_cons, List.not_mem_nil, or_false] at hp hq
  rcases hp with rfl | rfl <;> rcases hq with rfl | rfl <;>
    norm_num [pdist, dist, normOf, vsub, sumL_real, sabs_real, abs_of_nonneg, abs_of_neg]

/-- **voxel_filter on rounded quotients assigns every point to the voxel of the model.** `y' c` is ANY computed value of
`(p_c − min_c) / v_c` within `δ` of the exact quotient (whatever rounding of the subtraction and the division), and the exact
quotient is farther than `δ` from every integer (the point is not within `δ·v_c` of a cell boundary): the truncated key computed
from `y'` IS the key of the model. Keys are all that `unique` / `index_add_` / `randint` see, so the partition is the model's. -/
theorem voxel_key_robust (tr : ℝ → Int) (htr : ∀ x : ℝ, 0 ≤ x → (tr x : ℝ) ≤ x ∧ x < (tr x : ℝ) + 1)
    (vox : List ℝ) (pts : List (Pt ℝ)) (p : Pt ℝ) (hp : p ∈ pts) (hv : ∀ c, c < vox.length → 0 < vox.getD c 0)
    (y' : Nat → ℝ) (δ : ℝ)
    (hδ : ∀ c, c < vox.length → |y' c - (p.getD c 0 - (minp vox.length pts).getD c 0) / vox.getD c 0| ≤ δ)
    (hband : ∀ c, c < vox.length → ∀ z : ℤ, δ < |(p.getD c 0 - (minp vox.length pts).getD c 0) / vox.getD c 0 - (z : ℝ)|) :
    ((List.range vox.length).map fun c => tr (y' c)) = voxKey tr vox (minp vox.length pts) p := by
  unfold voxKey
  apply List.map_congr_left
  intro c hc
  have hc := List.mem_range.1 hc
  simp only [k0_real]
  apply trunc_robust tr htr _ _ δ _ (hδ c hc) (hband c hc)
  have hmin : (minp vox.length pts).getD c 0 = minL (pts.map fun q => q.getD c 0) := by
    unfold minp
    rw [List.getD_eq_getElem _ _ (by simpa using hc)]
    simp
  have hle : minL (pts.map fun q => q.getD c 0) ≤ p.getD c 0 :=
    minL_le _ (List.mem_map.2 ⟨p, hp, rfl⟩)
  rw [hmin]
  exact div_nonneg (by linarith) (hv c hc).le

/-- satisfiable: quotient 5/2 (coordinate 5, minimum 0, voxel 2), computed 5/2 + 1/8, `δ = 1/4` -/
example : |((5 : ℝ) / 2 + 1 / 8) - 5 / 2| ≤ 1 / 4 ∧ ∀ z : ℤ, (1 / 4 : ℝ) < |(5 : ℝ) / 2 - (z : ℝ)| := by
  refine ⟨by norm_num [abs_le], fun z => ?_⟩
  rcases le_or_gt z 2 with h | h
  · have : (z : ℝ) ≤ 2 := by exact_mod_cast h
    rw [abs_of_pos (by linarith)]; linarith
  · have : (3 : ℝ) ≤ (z : ℝ) := by exact_mod_cast h
    rw [abs_of_neg (by linarith)]; linarith

/-! ## pass 11 -/

/-- **the whole output of knn_filter computed from a rounded distance matrix is the output of the model.** `D'` is ANY computed
distance (the one matrix the code uses for the radius mask and for `topk`) within `δ` of `pdist` on the cloud; no exact distance
is within `δ` of the radius (if one is given); in every row `k+1` distances are within a threshold `t_p` and all others beyond
`t_p + 2δ`. Then for every unsorted-contract kernel run on the rounded rows, rows retained by the rounded mask, averaged over the
points the kernel selects: exactly `knnFilter` of the real-number model under ANY sorted-contract kernel (pass-10 theorems
`knn_filter_robust` + `nbr_filter_robust` glued over all rows). -/
theorem knn_filter_robust_all (topk topkU : Bool → List ℝ → Nat → List Nat) (htk : TopkContract topk) (htu : TopkContractU topkU)
    (o : Norm) (pdim kk : Nat) (radius : Option ℝ) (pts : List (Pt ℝ)) (D' : Pt ℝ → Pt ℝ → ℝ) (δ : ℝ) (hδ0 : 0 ≤ δ)
    (hk : kk + 1 ≤ pts.length)
    (hδ : ∀ p ∈ pts, ∀ q ∈ pts, |D' p q - pdist o pdim p q| ≤ δ)
    (hrad : ∀ r, radius = some r → ∀ p ∈ pts, ∀ q ∈ pts, δ < |pdist o pdim p q - r|)
    (hcut : ∀ p ∈ pts, ∃ t : ℝ, (∀ q ∈ pts, pdist o pdim p q ≤ t ∨ t + 2 * δ < pdist o pdim p q) ∧
      ((List.range pts.length).filter fun j => decide (pdist o pdim p (pts.getD j []) ≤ t)).length = kk + 1) :
    knnFilter topk o pdim kk radius pts = some
      ((knnRetainedWith D' kk radius pts).map
        fun p => meanCols (width pts) ((topkU false (pts.map (D' p)) (kk + 1)).map fun i => pts.getD i [])) := by
  have hret : knnRetainedWith D' kk radius pts = knnRetained o pdim kk radius pts := by
    cases radius with
    | none => rfl
    | some r =>
      simp only [knnRetained, knnRetainedWith]
      rw [(nbr_filter_robust o pdim r δ (kk : ℤ) pts D' hδ (hrad r rfl)).1]
  rw [hret]
  unfold knnFilter
  rw [if_neg (by omega)]
  congr 1
  apply List.map_congr_left
  intro p hp
  have hpp := knnRetained_subset o pdim kk radius pts p hp
  obtain ⟨t, hb, hc⟩ := hcut p hpp
  have hmem : ∀ j, j < pts.length → pts.getD j [] ∈ pts := fun j hj => by
    rw [List.getD_eq_getElem pts [] (n := j) hj]; exact List.getElem_mem hj
  apply (knn_filter_robust topk topkU htk htu o pdim kk pts p (pts.map (D' p)) δ t hδ0 (by simp) ?_ ?_ hc).symm
  · intro j hj
    rw [map_dist_getD (D' p) pts j hj]
    exact hδ p hpp _ (hmem j hj)
  · intro j hj
    exact hb _ (hmem j hj)

/-- the row hypothesis of `knn_filter_robust_all` holds for a genuine cloud (`k = 1`, `δ = 1/4`, thresholds 1, 1, 4) -/
example : ∀ p ∈ ([[0], [1], [5]] : List (Pt ℝ)), ∃ t : ℝ,
    (∀ q ∈ ([[0], [1], [5]] : List (Pt ℝ)), pdist .l1 1 p q ≤ t ∨ t + 2 * (1 / 4) < pdist .l1 1 p q) ∧
    ((List.range ([[0], [1], [5]] : List (Pt ℝ)).length).filter fun j =>
      decide (pdist .l1 1 p (([[0], [1], [5]] : List (Pt ℝ)).getD j []) ≤ t)).length = 1 + 1 := by
  intro p hp
  simp only [List.mem_cons, List.not_mem_nil, or_false] at hp
  rcases hp with rfl | rfl | rfl
  · refine ⟨1, ?_, ?_⟩
    · intro q hq
      simp only [List.mem_cons, List.not_mem_nil, or_false] at hq
      rcases hq with rfl | rfl | rfl <;> norm_num [pdist, dist, normOf, vsub, sumL_real, sabs_real]
    · norm_num [List.range_succ, List.filter_cons, pdist, dist, normOf, vsub, sumL_real, sabs_real]
  · refine ⟨1, ?_, ?_⟩
    · intro q hq
      simp only [List.mem_cons, List.not_mem_nil, or_false] at hq
      rcases hq with rfl | rfl | rfl <;> norm_num [pdist, dist, normOf, vsub, sumL_real, sabs_real]
    · norm_num [List.range_succ, List.filter_cons, pdist, dist, normOf, vsub, sumL_real, sabs_real]
  · refine ⟨4, ?_, ?_⟩
    · intro q hq
      simp only [List.mem_cons, List.not_mem_nil, or_false] at hq
      rcases hq with rfl | rfl | rfl <;> norm_num [pdist, dist, normOf, vsub, sumL_real, sabs_real]
    · norm_num [List.range_succ, List.filter_cons, pdist, dist, normOf, vsub, sumL_real, sabs_real]

end PP.Cloud
