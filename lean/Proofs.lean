import Proofs.Real
