"""Independent float64 reference maths for C19 (numpy only, no pypose): quaternions (xyzw), SE3 as (t, q),
exponentials, Umeyama alignment, trajectory generators.  Used for oracles on the real code and for building
structured inputs; the *truth* for correspondence is the Lean model in 192-bit arithmetic."""
from __future__ import annotations

import math
import random

import numpy as np


# ----------------------------------------------------------------------------- quaternions (x, y, z, w)

def qmul(a, b):
    ax, ay, az, aw = a[..., 0], a[..., 1], a[..., 2], a[..., 3]
    bx, by, bz, bw = b[..., 0], b[..., 1], b[..., 2], b[..., 3]
    return np.stack([aw * bx + ax * bw + ay * bz - az * by,
                     aw * by - ax * bz + ay * bw + az * bx,
                     aw * bz + ax * by - ay * bx + az * bw,
                     aw * bw - ax * bx - ay * by - az * bz], -1)


def qconj(a):
    return a * np.array([-1.0, -1.0, -1.0, 1.0])


def qrot(q, v):
    """rotate v by unit quaternion q (via the rotation matrix; independent of the code's Act formula)"""
    R = qmat(q)
    return np.einsum("...ij,...j->...i", R, v)


def qmat(q):
    x, y, z, w = q[..., 0], q[..., 1], q[..., 2], q[..., 3]
    R = np.empty(q.shape[:-1] + (3, 3))
    R[..., 0, 0] = 1 - 2 * (y * y + z * z)
    R[..., 0, 1] = 2 * (x * y - z * w)
    R[..., 0, 2] = 2 * (x * z + y * w)
    R[..., 1, 0] = 2 * (x * y + z * w)
    R[..., 1, 1] = 1 - 2 * (x * x + z * z)
    R[..., 1, 2] = 2 * (y * z - x * w)
    R[..., 2, 0] = 2 * (x * z - y * w)
    R[..., 2, 1] = 2 * (y * z + x * w)
    R[..., 2, 2] = 1 - 2 * (x * x + y * y)
    return R


def qangle(q):
    """rotation angle in [0, pi] of the rotation represented by q (sign-free)"""
    vn = np.linalg.norm(q[..., :3], axis=-1)
    return 2 * np.arctan2(vn, np.abs(q[..., 3]))


def qnormalize(q):
    return q / np.linalg.norm(q, axis=-1, keepdims=True)


def so3_exp(phi):
    phi = np.asarray(phi, dtype=np.float64)
    th = np.linalg.norm(phi, axis=-1, keepdims=True)
    small = th < 1e-6
    ths = np.where(small, 1.0, th)
    a = np.where(small, 0.5 - th * th / 48, np.sin(ths / 2) / ths)
    w = np.where(small, 1 - th * th / 8, np.cos(ths / 2))
    return qnormalize(np.concatenate([phi * a, w], -1))


def hat(v):
    x, y, z = v
    return np.array([[0, -z, y], [z, 0, -x], [-y, x, 0]], dtype=np.float64)


def so3_jl(phi):
    th = float(np.linalg.norm(phi))
    K = hat(phi)
    if th < 1e-4:
        c1, c2 = 0.5 - th * th / 24, 1 / 6 - th * th / 120
    else:
        c1, c2 = (1 - math.cos(th)) / th ** 2, (th - math.sin(th)) / th ** 3
    return np.eye(3) + c1 * K + c2 * K @ K


def se3_exp(xi):
    """xi = (tau, phi) -> (t, q)"""
    xi = np.asarray(xi, dtype=np.float64)
    return so3_jl(xi[3:]) @ xi[:3], so3_exp(xi[3:])


def se3_mul(A, B):
    (ta, qa), (tb, qb) = A, B
    return ta + qrot(qa, tb), qnormalize(qmul(qa, qb))


def se3_inv(A):
    t, q = A
    qi = qconj(q)
    return -qrot(qi, t), qi


def se3_vec(A):
    return np.concatenate([A[0], A[1]])


def pose_dist(a, b):
    """(rotation distance as sign-free quaternion distance, translation distance) of two 7-vectors (arrays)"""
    qa, qb = a[..., 3:7], b[..., 3:7]
    dq = np.minimum(np.linalg.norm(qa - qb, axis=-1), np.linalg.norm(qa + qb, axis=-1))
    dt = np.linalg.norm(a[..., :3] - b[..., :3], axis=-1)
    return dq, dt


# ----------------------------------------------------------------------------- Umeyama (independent of pypose.svdstf)

def umeyama(src, tgt, with_scale):
    """least-squares similarity (s, R, t) with tgt ~ s R src + t; numpy SVD; returns also the singular values"""
    src = np.asarray(src, dtype=np.float64)
    tgt = np.asarray(tgt, dtype=np.float64)
    n = src.shape[0]
    cs, ct = src.mean(0), tgt.mean(0)
    a, b = src - cs, tgt - ct
    H = b.T @ a / n
    U, D, Vt = np.linalg.svd(H)
    S = np.eye(3)
    if np.linalg.det(U) * np.linalg.det(Vt) < 0:
        S[2, 2] = -1
    R = U @ S @ Vt
    var = (a ** 2).sum() / n
    s = float((D * np.diag(S)).sum() / var) if with_scale else 1.0
    t = ct - s * R @ cs
    return s, R, t, D


def align_cost(s, R, t, src, tgt):
    d = (s * (R @ np.asarray(src).T).T + t) - np.asarray(tgt)
    return float((d ** 2).sum())


def rot_from_quat(q):
    return qmat(np.asarray(q, dtype=np.float64))


# ----------------------------------------------------------------------------- generators

def rand_unit(rnd: random.Random, n=3):
    v = np.array([rnd.gauss(0, 1) for _ in range(n)])
    nv = np.linalg.norm(v)
    return v / nv if nv > 0 else np.eye(n)[0]


def rand_quat(rnd: random.Random, max_angle=math.pi):
    return so3_exp(rand_unit(rnd) * rnd.uniform(0, max_angle))


def rand_pose(rnd: random.Random, tscale=1.0, max_angle=math.pi):
    t = rand_unit(rnd) * tscale * rnd.uniform(0, 1) if tscale > 0 else np.zeros(3)
    return t, rand_quat(rnd, max_angle)


def walk(rnd: random.Random, M: int, tscale: float, rot_step: float, start=None, tstep=None):
    """random walk on SE3: T_{j+1} = T_j · Exp(xi_j), |phi_j| ~ rot_step, |tau_j| ~ tstep"""
    tstep = tscale if tstep is None else tstep
    T = start if start is not None else rand_pose(rnd, tscale)
    out = [T]
    for _ in range(M - 1):
        xi = np.concatenate([rand_unit(rnd) * tstep * rnd.uniform(0.2, 1.0), rand_unit(rnd) * rot_step * rnd.uniform(0.2, 1.0)])
        T = se3_mul(T, se3_exp(xi))
        out.append(T)
    return np.stack([se3_vec(X) for X in out])


def twist_traj(T0, xi, M):
    """T_j = T0 · Exp(j xi)"""
    return np.stack([se3_vec(se3_mul(T0, se3_exp(np.asarray(xi) * j))) for j in range(M)])


def apply_sim(s, q, t, poses):
    """similarity (s, R(q), t) applied to poses (M,7): t' = s R t_i + t, q' = q q_i"""
    P = np.asarray(poses, dtype=np.float64)
    tt = s * qrot(np.asarray(q), P[:, :3]) + np.asarray(t)
    qq = qnormalize(qmul(np.broadcast_to(np.asarray(q), P[:, 3:7].shape), P[:, 3:7]))
    return np.concatenate([tt, qq], -1)


def left_mul(G, poses):
    """G · P_i for a fixed pose G = (t, q)"""
    return apply_sim(1.0, G[1], G[0], poses)


# ----------------------------------------------------------------------------- association / pairing oracles (float64)

def match_oracle(s, l, diff, off):
    """independent statement of matching_time_indices: for every s_i the nearest (l_j + off); kept when closer than
    diff. Returns (pairs, margin) where margin is the smallest relative distance of any decision to a tie/threshold."""
    pairs, margin = [], math.inf
    l2 = [x + off for x in l]
    for i, si in enumerate(s):
        d = [abs(si - x) for x in l2]
        j = min(range(len(d)), key=lambda jj: (d[jj], jj))
        others = [d[jj] for jj in range(len(d)) if jj != j]
        if others:
            margin = min(margin, (min(others) - d[j]) / max(diff, 1e-300))
        margin = min(margin, abs(d[j] - diff) / max(diff, 1e-300))
        if d[j] < diff:
            pairs.append((i, j))
    return pairs, margin


def pairs_frames_oracle(L, delta, all_):
    if all_:
        return [(i, i + delta) for i in range(L) if i + delta < L]
    ids = list(range(0, L, delta))
    return list(zip(ids[:-1], ids[1:]))


def pairs_dist_oracle(trans, delta, tol, all_):
    """(pairs, margin): margin = smallest absolute gap of any decision (>=, argmin tie, > tol), relative to delta"""
    trans = np.asarray(trans, dtype=np.float64)
    margin = math.inf
    if all_:
        steps = np.linalg.norm(trans[:-1] - trans[1:], axis=-1)
        dist = np.concatenate([[0.0], np.cumsum(steps)])
        i0, i1 = [], []
        for i in range(len(dist) - 1):
            dfh = np.abs(dist[i + 1:] - dist[i] - delta)
            c = int(np.argmin(dfh))
            srt = np.sort(dfh)
            if len(srt) > 1:
                margin = min(margin, (srt[1] - srt[0]) / delta)
            margin = min(margin, abs(dfh[c] - tol) / delta)
            if dfh[c] > tol:
                continue
            i0.append(i)
            i1.append(c + i + 1)
        return list(zip(i0, i1)), margin
    idx, path, prev = [], 0.0, trans[0]
    for i, cur in enumerate(trans):
        path += float(np.linalg.norm(cur - prev))
        prev = cur
        margin = min(margin, abs(path - delta) / delta)
        if path >= delta:
            idx.append(i)
            path = 0.0
    return list(zip(idx[:-1], idx[1:])), margin
