import Pose.Wire
import Pose.Model.Kernel
import Pose.Model.Corrector
/-! Driver ops for C09 (robust kernels, correctors, kernel/corrector plumbing). -/
namespace PP.Driver
open PP Wire Kernel Corrector

def kindOf (s : String) : Except String Kind :=
  match s with
  | "huber" => .ok .huber
  | "pseudohuber" => .ok .pseudoHuber
  | "cauchy" => .ok .cauchy
  | "softlone" => .ok .softLOne
  | "arctan" => .ok .arctan
  | "tolerant" => .ok .tolerant
  | "scale" => .ok .scale
  | "poly" => .ok .poly
  | _ => .error s!"bad-kind:{s}"

/-- `<kind> <p1> <p2> <p3>` followed by the rest -/
def specOf (ts : List String) : Except String (Spec BigF × List String) :=
  match ts with
  | kd :: a :: b :: c :: rest => do
    let kd ← kindOf kd
    let a ← num a; let b ← num b; let c ← num c
    return (⟨kd, a, b, c⟩, rest)
  | _ => .error "arity"

def getA (a : Array BigF) (i : Nat) : BigF := a.getD i BigF.zero

/-- `N d p R… J…` -/
def batchOf (ts : List String) : Except String (Nat × Nat × Nat × Array BigF × Array BigF) :=
  match ts with
  | n :: d :: p :: rest => do
    let n ← nat n; let d ← nat d; let p ← nat p
    let xs ← nums rest
    if xs.length ≠ n * d + n * d * p then throw "arity" else
    return (n, d, p, (xs.take (n * d)).toArray, (xs.drop (n * d)).toArray)
  | _ => .error "arity"

def flatOut (n d p : Nat) (out : Nat → Out BigF) : List BigF :=
  ((List.range n).flatMap fun i => (List.range d).map fun a => (out i).R a) ++
  ((List.range n).flatMap fun i => (List.range d).flatMap fun a => (List.range p).map fun l => (out i).J a l)

def b01 (b : Bool) : BigF := if b then BigF.one else BigF.zero

/-- selection tokens: kernels are natural numbers, `N` is `None` -/
def optNat (s : String) : Except String (Option Nat) :=
  if s == "N" then .ok none else (nat s).map some

/-- `none` | `one <id>` | `many <n> <id|N>…`, returns the argument and the remaining tokens -/
def argOf (ts : List String) : Except String (Arg Nat × List String) :=
  match ts with
  | "none" :: rest => .ok (.none, rest)
  | "one" :: c :: rest => do let c ← nat c; return (.one c, rest)
  | "many" :: n :: rest => do
    let n ← nat n
    let (hd, tl) ← take n rest
    let cs ← hd.mapM optNat
    return (.many cs, tl)
  | _ => .error "arity"

def fmtK : KSel Nat → String
  | .trivial => "T"
  | .ker c => s!"K{c}"

def fmtC : CSel Nat Nat → String
  | .trivial => "T"
  | .auto c => "A" ++ fmtK c
  | .user c => s!"U{c}"

def opsC09 : List (String × Handler) := [
  -- c09.kernel <kind> p1 p2 p3 x…          kernel(input) on a flattened tensor; err negative = AssertionError
  ("c09.kernel", fun ts => do
      let (s, rest) ← specOf ts
      let xs ← nums rest
      match onTensor s xs with
      | none => throw "negative"
      | some ys => return fmt ys),
  -- c09.d12 <kind> p1 p2 p3 x…             rho'(x) rho''(x) pairs
  ("c09.d12", fun ts => do
      let (s, rest) ← specOf ts
      let xs ← nums rest
      return fmt (xs.flatMap fun x => [s.d1 x, s.d2 x])),
  -- c09.fast <kind> p1 p2 p3 N d p R… J…   FastTriggs: R' (N·d) then J' (N·d·p)
  ("c09.fast", fun ts => do
      let (s, rest) ← specOf ts
      let (n, d, p, R, J) ← batchOf rest
      let out := fun i => fastOf s.d1 d (fun a => getA R (i * d + a)) (fun a l => getA J ((i * d + a) * p + l))
      return fmt (flatOut n d p out)),
  -- c09.triggs <kind> p1 p2 p3 N d p R… J… Triggs: R', J', then the mask (N values 0/1)
  ("c09.triggs", fun ts => do
      let (s, rest) ← specOf ts
      let (n, d, p, R, J) ← batchOf rest
      let Ri := fun (i : Nat) => fun a => getA R (i * d + a)
      let out := fun i => triggsOf s.d1 s.d2 d (Ri i) (fun a l => getA J ((i * d + a) * p + l))
      let ms := (List.range n).map fun i => let x := normSq d (Ri i); b01 (mask x (s.d2 x))
      return fmt (flatOut n d p out ++ ms)),
  -- c09.lossone <kind> p1 p2 p3 N d R…     kernel(r.square().sum(-1)).sum()
  ("c09.lossone", fun ts => do
      let (s, rest) ← specOf ts
      match rest with
      | n :: d :: rest => do
        let n ← nat n; let d ← nat d
        let xs ← nums rest
        if xs.length ≠ n * d then throw "arity" else
        let R := xs.toArray
        return fmt [lossOne s.val n d (fun i a => getA R (i * d + a))]
      | _ => throw "arity"),
  -- c09.select <nres> <kernel-arg> <corrector-arg>
  --   reply: nres loss-kernel tokens (T | K<id> | -) then nres step-corrector tokens (T | AT | AK<id> | U<id> | -)
  ("c09.select", fun ts => do
      match ts with
      | n :: rest => do
        let nres ← nat n
        let (ka, rest) ← argOf rest
        let (ca, rest) ← argOf rest
        if !rest.isEmpty then throw "arity" else
        let ks := robustKernels ka
        let cs : List (CSel Nat Nat) := correctors ka ca
        let lk := (List.range nres).map fun i => match lossKernel ks nres i with | some c => fmtK c | none => "-"
        let sc := (List.range nres).map fun i => match stepCorrector cs i with | some c => fmtC c | none => "-"
        return " ".intercalate (lk ++ sc)
      | _ => throw "arity")
]

end PP.Driver
