import Pose.Wire
/-! Driver ops for C13. -/
namespace PP.Driver
open PP Wire

def opsC13 : List (String × Handler) := []

end PP.Driver
