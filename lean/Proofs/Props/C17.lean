import Proofs.Lemmas.AlignWitness
/-!
# C17 — point-set alignment: `svdtf`, `svdstf`, ICP

Property theorems only (helpers: `Proofs/Lemmas/Align.lean`, `Proofs/Lemmas/AlignRun.lean`).  The model is
`Pose/Model/Align.lean`.  External kernels enter as hypotheses:

* `SVDOk M (svd M)` — the contract of `torch.linalg.svd` *at the matrix the code decomposes* (`M = U diag(S) Vh`,
  `U`, `Vh` orthogonal, `S` sorted, non-negative);
* `hdet : ∀ M, detK M = M.det` — `torch.det`;
* `NNOk nn tgt` — `knn(k=1)`/`topk` returns a closest target point; `AlignOk align` — what ICP needs from its
  aligner (`svdtf_alignOk`: `svdtf` has it).

No assumption on the number of points, their rank (planar, collinear, duplicated, 3 points) or the sign of
`det(U Vh)` (reflection-prone noisy sets) is made anywhere in the `svdtf` theorems (for the empty list see
`model_totalisation_empty`).

Scope notes (read with the statements):
* **ICP theorems are about the default `ord = 2`, `dim = -1`**: `NNOk` is the Euclidean nearest-neighbour contract.  For
  `ord ∈ {1, ∞}` the clause "never a larger mean squared closest-point distance" is *false of the code* (the matched target
  is the `ord`-nearest one; concrete counterexamples in `notes/C17.md`) — `forward(ord=…, dim=…)` is not modelled, the
  harness checks there only the error handed to the stepper and recovery inside the `ord`-basin.
* `IcpMod` models the module state that `forward` *reads*; the stepper object, which `forward` mutates and resets, is not
  part of it: that a history of calls is stateless **in the code** rests on `stepper.reset()` and is decided by the
  harness's history / lifecycle streams (the corresponding model facts are definitional and live in `Lemmas/AlignMore`).
* a shipped stepper decides per *batch* (`torch.all` over the items' errors): `icpWith` is the unbatched call, `icpWithB`
  the batched one.
* recovery: `icp_recovers*` assume the basin at the first pass; `icp_recovers_after` / `icpWith_recovers_after` /
  `icpWithB_recovers_after` at any pass `k` (then every pass count `> k` returns the exact motion); *when* a given cloud enters
  the basin is not proved (it depends on the geometry) — the harness samples it (mixed-batch stream).
* `svdstf_ok_iff` is about an *unbatched* call; `mat2Sim3`'s rank test looks at the whole batch: `svdstfBatch_ok`.
* `var_source = 0` (all sources equal) is excluded by hypothesis (`0 < energyS`): the code divides by zero there (NaN scale,
  then "not orthogonal"), the totalised model would report `notFullRank`.
* EPnP: only the tail (`_compute_scale`, `_compute_solution`) is modelled; the head stays sampling.
-/
namespace PP.C17
open PP Vec3 Quat Mat3 Align Pnp

/-! ## `svdtf` -/

/-- **Every proper rotation matrix is the rotation matrix of the unit quaternion `mat2SO3(R, check=False)` returns**
(any mask threshold `|atol| < 1`): this is what makes the result of `svdtf` a *valid* `SE3` element with exactly the
rotation block `U'·Vh`. -/
theorem proper_rotation_quaternion (R : Mat3 ℝ) (hR : Mat3.IsRot R) (atol : ℝ) (ha : |atol| < 1) :
    (mat2SO3Raw atol R).normSq = 1 ∧ SO3matrix (mat2SO3Raw atol R) = R :=
  mat2SO3Raw_of_rotation R hR atol ha

/-- **Kabsch trace inequality**: under the SVD contract the rotation `U'·Vh` chosen by `svdtf` (last column of `U`
negated iff `det(U Vh) < 0`) maximises `⟨R, M⟩ = Σ_ab R_ab M_ab` over *all* proper rotations. -/
theorem rotation_maximises_pairing (M : Mat3 ℝ) (d : SVD3 ℝ) (h : SVDOk M d) (R' : Mat3 ℝ) (hR' : Mat3.IsRot R') :
    Mat3.frob R' M ≤ Mat3.frob (rotOf d) M ∧ Mat3.IsRot (rotOf d) ∧
      Mat3.frob (rotOf d) M = d.S.x + d.S.y + (d.U.mul d.Vh).det * d.S.z :=
  ⟨frob_le_rotOf M d h R' hR', rotOf_isRot d h.orthU h.orthV, frob_rotOf M d h⟩

/-- **`svdtf` returns a proper rigid transform**: under the SVD contract the rotation block `U'·Vh` is orthogonal
with determinant `+1` whatever the sign of `det(U Vh)`, the returned quaternion has unit norm and its rotation
matrix is exactly that block (the branch-selected conversion inverts `matrix()` on *every* proper rotation),
the translation is `c_target − R c_source`. -/
theorem svdtf_proper (svd : Mat3 ℝ → SVD3 ℝ) (detK : Mat3 ℝ → ℝ) (hdet : ∀ M, detK M = M.det) (atol : ℝ)
    (ha : |atol| < 1) (ps : Pairs ℝ) (h : SVDOk (crossCov (centered ps)) (svd (crossCov (centered ps)))) :
    (svdtf svd detK atol ps).q.normSq = 1 ∧
    Mat3.IsRot (SO3matrix (svdtf svd detK atol ps).q) ∧
    SO3matrix (svdtf svd detK atol ps).q = rotOf (svd (crossCov (centered ps))) ∧
    (svdtf svd detK atol ps).t
      = (mean (tgts ps)).sub ((rotOf (svd (crossCov (centered ps)))).mulVec (mean (srcs ps))) := by
  have hrot := rotOf_isRot _ h.orthU h.orthV
  have hq := mat2SO3Raw_of_rotation _ hrot atol ha
  simp only [svdtf, svdtfMat, svdtfRot_eq svd detK hdet]
  exact ⟨hq.1, by rw [hq.2]; exact hrot, hq.2, trivial⟩

/-- cost of `svdtf`'s result in closed form: `Σ‖s̃‖² + Σ‖t̃‖² − 2(s₁ + s₂ + det(U Vh)·s₃)` -/
theorem svdtf_cost (svd : Mat3 ℝ → SVD3 ℝ) (detK : Mat3 ℝ → ℝ) (hdet : ∀ M, detK M = M.det) (atol : ℝ)
    (ha : |atol| < 1) (ps : Pairs ℝ) (h : SVDOk (crossCov (centered ps)) (svd (crossCov (centered ps)))) :
    cost (SE3Act (svdtf svd detK atol ps)) ps
      = energyS (centered ps) + energyT (centered ps)
        - 2 * ((svd (crossCov (centered ps))).S.x + (svd (crossCov (centered ps))).S.y
            + ((svd (crossCov (centered ps))).U.mul (svd (crossCov (centered ps))).Vh).det
              * (svd (crossCov (centered ps))).S.z) := by
  obtain ⟨_, hrot, hm, ht⟩ := svdtf_proper svd detK hdet atol ha ps h
  rw [SE3Act_eq_affine, cost_affine_centered, cost_expand _ hrot.1, hm, ht, frob_rotOf _ _ h]
  have : ((((rotOf (svd (crossCov (centered ps)))).mulVec (mean (srcs ps))).add
      ((mean (tgts ps)).sub ((rotOf (svd (crossCov (centered ps)))).mulVec (mean (srcs ps))))).sub
      (mean (tgts ps))).normSq = 0 := by lie_unfold; ring
  rw [this]; ring

/-- **Optimality of `svdtf`, matrix form**: its sum of squared residuals is not larger than that of *any* proper
rotation matrix `R'` with *any* translation `t'` — for every list of correspondences (any count, planar,
collinear, duplicated, 3 points, reflection-prone: no rank or sign assumption). -/
theorem svdtf_optimal_mat (svd : Mat3 ℝ → SVD3 ℝ) (detK : Mat3 ℝ → ℝ) (hdet : ∀ M, detK M = M.det) (atol : ℝ)
    (ha : |atol| < 1) (ps : Pairs ℝ) (h : SVDOk (crossCov (centered ps)) (svd (crossCov (centered ps))))
    (R' : Mat3 ℝ) (hR' : Mat3.IsRot R') (t' : Vec3 ℝ) :
    cost (SE3Act (svdtf svd detK atol ps)) ps ≤ cost (affine R' t') ps := by
  obtain ⟨_, hrot, hm, ht⟩ := svdtf_proper svd detK hdet atol ha ps h
  rw [SE3Act_eq_affine, cost_affine_centered, cost_affine_centered, cost_expand _ hrot.1, cost_expand _ hR'.1, hm, ht]
  have h0 : ((((rotOf (svd (crossCov (centered ps)))).mulVec (mean (srcs ps))).add
      ((mean (tgts ps)).sub ((rotOf (svd (crossCov (centered ps)))).mulVec (mean (srcs ps))))).sub
      (mean (tgts ps))).normSq = 0 := by lie_unfold; ring
  rw [h0]
  have h1 := frob_le_rotOf _ _ h R' hR'
  have h2 : 0 ≤ (ps.length : ℝ) * (((R'.mulVec (mean (srcs ps))).add t').sub (mean (tgts ps))).normSq :=
    mul_nonneg (Nat.cast_nonneg _) (Align.normSq_nonneg _)
  linarith

/-- **Optimality of `svdtf`** over all rigid transforms given as `SE3` elements (unit quaternion `q'`, translation
`t'`): `cost(q', t') ≥ cost(svdtf)`. -/
theorem svdtf_optimal (svd : Mat3 ℝ → SVD3 ℝ) (detK : Mat3 ℝ → ℝ) (hdet : ∀ M, detK M = M.det) (atol : ℝ)
    (ha : |atol| < 1) (ps : Pairs ℝ) (h : SVDOk (crossCov (centered ps)) (svd (crossCov (centered ps))))
    (X' : SE3 ℝ) (hX' : X'.q.normSq = 1) :
    cost (SE3Act (svdtf svd detK atol ps)) ps ≤ cost (SE3Act X') ps := by
  rw [SE3Act_eq_affine X']
  exact svdtf_optimal_mat svd detK hdet atol ha ps h _ (isRot_SO3matrix _ hX') _

/-- **Exact correspondences are reproduced exactly**: if `targetᵢ = X₀·sourceᵢ` for a rigid `X₀`, the returned
transform maps every source point onto its target (also for collinear / duplicated sources, where the
transform itself is not unique). -/
theorem svdtf_exact (svd : Mat3 ℝ → SVD3 ℝ) (detK : Mat3 ℝ → ℝ) (hdet : ∀ M, detK M = M.det) (atol : ℝ)
    (ha : |atol| < 1) (ps : Pairs ℝ) (h : SVDOk (crossCov (centered ps)) (svd (crossCov (centered ps))))
    (X₀ : SE3 ℝ) (hX₀ : X₀.q.normSq = 1) (hex : ∀ p ∈ ps, SE3Act X₀ p.1 = p.2) :
    ∀ p ∈ ps, SE3Act (svdtf svd detK atol ps) p.1 = p.2 := by
  have h0 : cost (SE3Act X₀) ps = 0 := (cost_eq_zero_iff _ _).mpr hex
  have h1 := svdtf_optimal svd detK hdet atol ha ps h X₀ hX₀
  have h2 := cost_nonneg (SE3Act (svdtf svd detK atol ps)) ps
  exact (cost_eq_zero_iff _ _).mp (by linarith)

/-- **Exact correspondences with a non-collinear source triple: `svdtf` returns the true transform itself** — the
rotation matrix of the returned quaternion and the translation are those of `X₀` (so the quaternion is `±X₀.q`). -/
theorem svdtf_exact_unique (svd : Mat3 ℝ → SVD3 ℝ) (detK : Mat3 ℝ → ℝ) (hdet : ∀ M, detK M = M.det) (atol : ℝ)
    (ha : |atol| < 1) (ps : Pairs ℝ) (h : SVDOk (crossCov (centered ps)) (svd (crossCov (centered ps))))
    (X₀ : SE3 ℝ) (hX₀ : X₀.q.normSq = 1) (hex : ∀ p ∈ ps, SE3Act X₀ p.1 = p.2)
    (pa pb pc : Vec3 ℝ × Vec3 ℝ) (hpa : pa ∈ ps) (hpb : pb ∈ ps) (hpc : pc ∈ ps)
    (hnc : ((pb.1.sub pa.1).cross (pc.1.sub pa.1)).normSq ≠ 0) :
    SO3matrix (svdtf svd detK atol ps).q = SO3matrix X₀.q ∧ (svdtf svd detK atol ps).t = X₀.t := by
  have hall := svdtf_exact svd detK hdet atol ha ps h X₀ hX₀ hex
  obtain ⟨_, hrot, _, _⟩ := svdtf_proper svd detK hdet atol ha ps h
  have e : ∀ p ∈ ps, affine (SO3matrix (svdtf svd detK atol ps).q) (svdtf svd detK atol ps).t p.1
      = affine (SO3matrix X₀.q) X₀.t p.1 := by
    intro p hp
    rw [← SE3Act_eq_affine, ← SE3Act_eq_affine, hall p hp, hex p hp]
  exact rigid_unique _ _ hrot (isRot_SO3matrix _ hX₀) _ _ _ _ _ (e pa hpa) (e pb hpb) (e pc hpc) hnc

/-! ## `svdstf` (Umeyama) -/

/-- **`svdstf` returns an optimal similarity transform.**  For a non-empty list of correspondences whose sources are
not all equal, under the SVD contract at `H`, if Umeyama's scale exceeds `mat2Sim3`'s rank-test threshold `atol`
(default `1e-5`; true on the property's range of scales `0.1..10`): the call does not raise, returns a valid
`Sim3` element (unit quaternion, positive scale), and its sum of squared residuals is not larger than that of
**any** similarity transform (unit quaternion, scale `≥ 0`, any translation) — jointly in rotation, scale and
translation; any point count, planar / collinear / reflection-prone configurations included. -/
theorem svdstf_optimal (svd : Mat3 ℝ → SVD3 ℝ) (detK : Mat3 ℝ → ℝ) (hdet : ∀ M, detK M = M.det) (rtol atol : ℝ)
    (hr : 0 ≤ rtol) (ha0 : 0 ≤ atol) (ha1 : atol < 1) (ps : Pairs ℝ) (hN : ps ≠ [])
    (hA : 0 < energyS (centered ps)) (h : SVDOk (Hmat ps) (svd (Hmat ps)))
    (hbig : atol < umeyamaScale (svd (Hmat ps)) ps) :
    ∃ X : Sim3 ℝ, svdstf svd detK rtol atol true ps = .ok X ∧ X.q.normSq = 1 ∧ 0 < X.s ∧
      X.s = umeyamaScale (svd (Hmat ps)) ps ∧ SO3matrix X.q = rotOf (svd (Hmat ps)) ∧
      ∀ X' : Sim3 ℝ, X'.q.normSq = 1 → 0 ≤ X'.s → cost (Sim3Act X) ps ≤ cost (Sim3Act X') ps := by
  have hrot := rotOf_isRot _ h.orthU h.orthV
  have hmat := svdstfMat_eq svd detK hdet true ps h
  simp only [if_true] at hmat
  obtain ⟨X, hX, hXt, hXs, hXq, hXm⟩ := mat2Sim3_of_scaled_rotation detK hdet rtol atol hr ha0 ha1 _ hrot _ hbig
    ((mean (tgts ps)).sub ((Mat3.smul (umeyamaScale (svd (Hmat ps)) ps) (rotOf (svd (Hmat ps)))).mulVec
      (mean (srcs ps)))) Vec3.zero 0
  refine ⟨X, ?_, hXq, by rw [hXs]; linarith, hXs, hXm, ?_⟩
  · simp only [svdstf, hmat, k_real, Nat.cast_zero]; exact hX
  intro X' hq' hs'
  have hrot' := isRot_SO3matrix _ hq'
  have hN' : (0:ℝ) < (ps.length : ℝ) := by
    have : 0 < ps.length := List.length_pos_of_ne_nil hN
    positivity
  rw [Sim3Act_eq_affine X, Sim3Act_eq_affine X', cost_affine_centered, cost_affine_centered,
    cost_expand_scaled _ (by rw [hXm]; exact hrot.1), cost_expand_scaled _ hrot'.1, hXm, hXt, hXs]
  have h0 : ((((Mat3.smul (umeyamaScale (svd (Hmat ps)) ps) (rotOf (svd (Hmat ps)))).mulVec (mean (srcs ps))).add
      ((mean (tgts ps)).sub ((Mat3.smul (umeyamaScale (svd (Hmat ps)) ps) (rotOf (svd (Hmat ps)))).mulVec
        (mean (srcs ps))))).sub (mean (tgts ps))).normSq = 0 := by lie_unfold; ring
  rw [h0]
  have hle := frob_le_rotOf _ _ h _ hrot'
  rw [frob_Hmat, frob_Hmat] at hle
  have hle' : Mat3.frob (SO3matrix X'.q) (crossCov (centered ps)) ≤
      Mat3.frob (rotOf (svd (Hmat ps))) (crossCov (centered ps)) := by
    have hpos : (0:ℝ) < 1 / (ps.length : ℝ) := by positivity
    exact le_of_mul_le_mul_left hle hpos
  have hc := umeyamaScale_eq ps hN hA.ne' _ h
  have hd' : 0 ≤ (ps.length : ℝ) * (((Mat3.smul X'.s (SO3matrix X'.q)).mulVec (mean (srcs ps))).add X'.t |>.sub
      (mean (tgts ps))).normSq := mul_nonneg hN'.le (Align.normSq_nonneg _)
  generalize umeyamaScale (svd (Hmat ps)) ps = c at hc ⊢
  generalize Mat3.frob (rotOf (svd (Hmat ps))) (crossCov (centered ps)) = m at hc hle' ⊢
  generalize Mat3.frob (SO3matrix X'.q) (crossCov (centered ps)) = m' at hle' ⊢
  generalize energyS (centered ps) = A at hA hc ⊢
  generalize energyT (centered ps) = B
  have h1 : 0 ≤ A * (X'.s - c) ^ 2 := mul_nonneg hA.le (sq_nonneg _)
  have h2 : 0 ≤ X'.s * (m - m') := mul_nonneg hs' (sub_nonneg.mpr hle')
  subst hc
  nlinarith [h1, h2, hd']

/-- **Exact similarity correspondences are reproduced exactly** by `svdstf` (scale included). -/
theorem svdstf_exact (svd : Mat3 ℝ → SVD3 ℝ) (detK : Mat3 ℝ → ℝ) (hdet : ∀ M, detK M = M.det) (rtol atol : ℝ)
    (hr : 0 ≤ rtol) (ha0 : 0 ≤ atol) (ha1 : atol < 1) (ps : Pairs ℝ) (hN : ps ≠ [])
    (hA : 0 < energyS (centered ps)) (h : SVDOk (Hmat ps) (svd (Hmat ps)))
    (hbig : atol < umeyamaScale (svd (Hmat ps)) ps)
    (X₀ : Sim3 ℝ) (hq₀ : X₀.q.normSq = 1) (hs₀ : 0 ≤ X₀.s) (hex : ∀ p ∈ ps, Sim3Act X₀ p.1 = p.2) :
    ∃ X : Sim3 ℝ, svdstf svd detK rtol atol true ps = .ok X ∧ ∀ p ∈ ps, Sim3Act X p.1 = p.2 := by
  obtain ⟨X, hX, _, _, _, _, hopt⟩ := svdstf_optimal svd detK hdet rtol atol hr ha0 ha1 ps hN hA h hbig
  refine ⟨X, hX, ?_⟩
  have h0 : cost (Sim3Act X₀) ps = 0 := (cost_eq_zero_iff _ _).mpr hex
  have h1 := hopt X₀ hq₀ hs₀
  have h2 := cost_nonneg (Sim3Act X) ps
  exact (cost_eq_zero_iff _ _).mp (by linarith)

/-- **`svdstf(with_scale=False)`** returns scale exactly 1 and the rigid optimum: not worse than any rigid transform
(unit quaternion, scale 1, any translation). -/
theorem svdstf_noscale_optimal (svd : Mat3 ℝ → SVD3 ℝ) (detK : Mat3 ℝ → ℝ) (hdet : ∀ M, detK M = M.det)
    (rtol atol : ℝ) (hr : 0 ≤ rtol) (ha0 : 0 ≤ atol) (ha1 : atol < 1) (ps : Pairs ℝ)
    (h : SVDOk (Hmat ps) (svd (Hmat ps))) :
    ∃ X : Sim3 ℝ, svdstf svd detK rtol atol false ps = .ok X ∧ X.q.normSq = 1 ∧ X.s = 1 ∧
      ∀ X' : SE3 ℝ, X'.q.normSq = 1 → cost (Sim3Act X) ps ≤ cost (SE3Act X') ps := by
  have hrot := rotOf_isRot _ h.orthU h.orthV
  have hmat := svdstfMat_eq svd detK hdet false ps h
  simp only [Bool.false_eq_true, if_false] at hmat
  obtain ⟨X, hX, hXt, hXs, hXq, hXm⟩ := mat2Sim3_of_scaled_rotation detK hdet rtol atol hr ha0 ha1 _ hrot 1 ha1
    ((mean (tgts ps)).sub ((Mat3.smul 1 (rotOf (svd (Hmat ps)))).mulVec (mean (srcs ps)))) Vec3.zero 0
  refine ⟨X, ?_, hXq, hXs, ?_⟩
  · simp only [svdstf, hmat, k_real, Nat.cast_zero]; exact hX
  intro X' hq'
  have hrot' := isRot_SO3matrix _ hq'
  rw [Sim3Act_eq_affine X, SE3Act_eq_affine X', hXs, hXm, hXt, Mat3.one_smul', cost_affine_centered,
    cost_affine_centered, cost_expand _ hrot.1, cost_expand _ hrot'.1]
  have h0 : ((((rotOf (svd (Hmat ps))).mulVec (mean (srcs ps))).add
      ((mean (tgts ps)).sub ((rotOf (svd (Hmat ps))).mulVec (mean (srcs ps))))).sub
      (mean (tgts ps))).normSq = 0 := by lie_unfold; ring
  rw [h0]
  have hd' : 0 ≤ (ps.length : ℝ) * ((((SO3matrix X'.q).mulVec (mean (srcs ps))).add X'.t).sub
      (mean (tgts ps))).normSq := mul_nonneg (Nat.cast_nonneg _) (Align.normSq_nonneg _)
  have hle := frob_le_rotOf _ _ h _ hrot'
  rw [frob_Hmat, frob_Hmat] at hle
  by_cases hN : ps = []
  · subst hN; simp [energyS, energyT, centered, crossCov, Mat3.frob]; lie_unfold; norm_num
  · have hN' : (0:ℝ) < (ps.length : ℝ) := by
      have : 0 < ps.length := List.length_pos_of_ne_nil hN
      positivity
    have hpos : (0:ℝ) < 1 / (ps.length : ℝ) := by positivity
    have hle' := le_of_mul_le_mul_left hle hpos
    linarith

/-! ## ICP -/

/-- `svdtf` satisfies the aligner contract (SVD contract at every matrix it is given) -/
theorem svdtf_alignOk (svd : Mat3 ℝ → SVD3 ℝ) (detK : Mat3 ℝ → ℝ) (hdet : ∀ M, detK M = M.det) (atol : ℝ)
    (ha : |atol| < 1) (hsvd : ∀ M, SVDOk M (svd M)) : AlignOk (svdtf svd detK atol) :=
  ⟨fun ps => (svdtf_proper svd detK hdet atol ha ps (hsvd _)).1,
   fun ps X' hX' => svdtf_optimal svd detK hdet atol ha ps (hsvd _) X' hX'⟩

/-- the executable nearest-neighbour search of the model (`nnFirst`, used by the driver) meets the `knn` contract on
every non-empty target cloud -/
theorem nnFirst_ok (tgt : Cloud ℝ) (h : tgt ≠ []) : NNOk nnFirst tgt := by
  intro p
  induction tgt with
  | nil => exact absurd rfl h
  | cons q qs ih =>
    cases qs with
    | nil =>
      simp only [nnFirst, List.getD_cons_zero, List.mem_singleton]
      exact ⟨trivial, fun q' hq' => by rw [hq']⟩
    | cons q' qs =>
      obtain ⟨hm, hle⟩ := ih (by simp)
      simp only [nnFirst, lt_real]
      by_cases hc : (((q' :: qs).getD (nnFirst (q' :: qs) p) Vec3.zero).sub p).normSq < (q.sub p).normSq
      · simp only [hc, decide_true, if_true, List.getD_cons_succ]
        refine ⟨List.mem_cons_of_mem _ hm, ?_⟩
        intro r hr
        rcases List.mem_cons.mp hr with rfl | hr
        · rw [normSq_sub_comm p, normSq_sub_comm p r]; exact hc.le
        · exact hle r hr
      · simp only [hc, decide_false, Bool.false_eq_true, if_false, List.getD_cons_zero]
        refine ⟨List.mem_cons_self .., ?_⟩
        intro r hr
        rcases List.mem_cons.mp hr with rfl | hr
        · exact le_refl _
        · have := hle r hr
          rw [normSq_sub_comm p q]
          rw [normSq_sub_comm p] at this
          linarith [not_lt.mp hc]

/-- **One ICP pass never increases the sum of squared closest-point distances** (default `ord = 2`: `NNOk` is the
Euclidean nearest-neighbour contract). -/
theorem icpStep_le (align : Pairs ℝ → SE3 ℝ) (hal : AlignOk align) (nn : Cloud ℝ → Vec3 ℝ → Nat)
    (tgt : Cloud ℝ) (hnn : NNOk nn tgt) (cur : Cloud ℝ) :
    sscd nn tgt (icpStep align nn tgt cur) ≤ sscd nn tgt cur := by
  have h1 : cost (SE3Act (align (matchNN nn tgt cur))) (matchNN nn tgt cur) ≤ sscd nn tgt cur := by
    rw [sscd_eq_cost]
    exact hal.opt _ SE3one (by simp [SE3one, Quat.one, Quat.normSq])
  refine le_trans ?_ h1
  simp only [sscd, icpStep, cost, matchNN, List.map_map]
  apply ssum_le_ssum
  intro p _
  simp only [Function.comp]
  exact (hnn _).2 _ (hnn p).1

/-- any number of passes -/
theorem icpIter_le (align : Pairs ℝ → SE3 ℝ) (hal : AlignOk align) (nn : Cloud ℝ → Vec3 ℝ → Nat)
    (tgt : Cloud ℝ) (hnn : NNOk nn tgt) (n : Nat) (cur : Cloud ℝ) :
    sscd nn tgt (icpIter align nn tgt n cur) ≤ sscd nn tgt cur := by
  induction n generalizing cur with
  | zero => simp [icpIter]
  | succ n ih => exact le_trans (ih _) (icpStep_le align hal nn tgt hnn cur)

/-- monotone along the whole run: the value after `n+1` passes is at most the value after `n` passes -/
theorem icp_monotone (align : Pairs ℝ → SE3 ℝ) (hal : AlignOk align) (nn : Cloud ℝ → Vec3 ℝ → Nat)
    (tgt : Cloud ℝ) (hnn : NNOk nn tgt) (n : Nat) (cur : Cloud ℝ) :
    sscd nn tgt (icpIter align nn tgt (n + 1) cur) ≤ sscd nn tgt (icpIter align nn tgt n cur) := by
  have : ∀ (n : Nat) (c : Cloud ℝ), icpIter align nn tgt (n + 1) c = icpStep align nn tgt (icpIter align nn tgt n c) := by
    intro n; induction n with
    | zero => intro c; simp [icpIter]
    | succ n ih => intro c; rw [icpIter, ih]; simp [icpIter]
  rw [this]; exact icpStep_le align hal nn tgt hnn _

/-- **ICP's result is never worse than its initial transform** (default `ord = 2`; false of the code for `ord ∈ {1, ∞}`): for every number of passes `n` (hence for every
stepper), every initial transform (or none), with an optimal aligner and a nearest-neighbour kernel meeting
their contracts: the sum — hence the mean — of squared closest-point distances of `result·source` is at most that
of `init·source`. -/
theorem icp_result_le_init (align : Pairs ℝ → SE3 ℝ) (hal : AlignOk align) (nn : Cloud ℝ → Vec3 ℝ → Nat)
    (src tgt : Cloud ℝ) (hnn : NNOk nn tgt) (init : Option (SE3 ℝ)) (hinit : ∀ T, init = some T → T.q.normSq = 1)
    (n : Nat) :
    sscd nn tgt (src.map (SE3Act (icp align nn init n src tgt))) ≤ sscd nn tgt (icpStart init src) := by
  obtain ⟨X₀, h₀, hs⟩ := icpStart_rigid init hinit src
  obtain ⟨X, hX, hXe⟩ := icpIter_rigid align hal nn tgt src n X₀ h₀
  unfold icp
  rw [hs, hXe, icp_final_exact align hal X hX src, ← hXe, ← hs]
  exact icpIter_le align hal nn tgt hnn n _

/-- the same for the mean squared closest-point distance (the property's wording) -/
theorem icp_result_mscd_le_init (align : Pairs ℝ → SE3 ℝ) (hal : AlignOk align) (nn : Cloud ℝ → Vec3 ℝ → Nat)
    (src tgt : Cloud ℝ) (hnn : NNOk nn tgt) (init : Option (SE3 ℝ)) (hinit : ∀ T, init = some T → T.q.normSq = 1)
    (n : Nat) :
    mscd nn tgt (src.map (SE3Act (icp align nn init n src tgt))) ≤ mscd nn tgt (icpStart init src) := by
  have h := icp_result_le_init align hal nn src tgt hnn init hinit n
  have hl : (icpStart init src).length = src.length := by cases init <;> simp [icpStart]
  simp only [mscd, List.length_map, hl, k_real, Nat.cast_one]
  exact mul_le_mul_of_nonneg_right h (by positivity)

/-- **…for every stepper** (`cont` decides from the history of errors whether to continue) and every bound on the
number of passes. -/
theorem icpWith_result_le_init (align : Pairs ℝ → SE3 ℝ) (hal : AlignOk align) (nn : Cloud ℝ → Vec3 ℝ → Nat)
    (src tgt : Cloud ℝ) (hnn : NNOk nn tgt) (init : Option (SE3 ℝ)) (hinit : ∀ T, init = some T → T.q.normSq = 1)
    (cont : List ℝ → Bool) (fuel : Nat) :
    sscd nn tgt (src.map (SE3Act (icpWith align nn cont fuel init src tgt))) ≤ sscd nn tgt (icpStart init src) := by
  obtain ⟨m, _, he⟩ := icpLoop_eq_iter align nn cont tgt fuel (icpStart init src) []
  have := icp_result_le_init align hal nn src tgt hnn init hinit m
  unfold icp at this
  unfold icpWith
  rw [he]; exact this

/-- after any number of passes the value is bounded by the cost of the *first* alignment on its matched pairs -/
theorem icp_le_first_alignment (align : Pairs ℝ → SE3 ℝ) (hal : AlignOk align) (nn : Cloud ℝ → Vec3 ℝ → Nat)
    (tgt : Cloud ℝ) (hnn : NNOk nn tgt) (n : Nat) (cur : Cloud ℝ) :
    sscd nn tgt (icpIter align nn tgt (n + 1) cur) ≤
      cost (SE3Act (align (matchNN nn tgt cur))) (matchNN nn tgt cur) := by
  simp only [icpIter]
  refine le_trans (icpIter_le align hal nn tgt hnn n _) ?_
  simp only [sscd, icpStep, cost, matchNN, List.map_map]
  apply ssum_le_ssum
  intro p _
  simp only [Function.comp]
  exact (hnn _).2 _ (hnn p).1

/-- a pass started from a cloud that already lies on the target (every point's nearest target is the point itself)
leaves the cloud where it is -/
theorem icpStep_fixed (align : Pairs ℝ → SE3 ℝ) (hal : AlignOk align) (nn : Cloud ℝ → Vec3 ℝ → Nat)
    (tgt : Cloud ℝ) (cur : Cloud ℝ) (hfix : ∀ p ∈ cur, tgt.getD (nn tgt p) Vec3.zero = p) :
    icpStep align nn tgt cur = cur := by
  have hm : matchNN nn tgt cur = cur.map fun p => (p, id p) := by
    simp only [matchNN]; apply List.map_congr_left; intro p hp; rw [hfix p hp]; rfl
  have h0 : cost (SE3Act SE3one) (matchNN nn tgt cur) = 0 := by
    rw [cost_eq_zero_iff]; intro p hp
    rw [hm] at hp; obtain ⟨a, _, rfl⟩ := List.mem_map.mp hp
    exact SE3Act_one a
  have h1 := hal.opt (matchNN nn tgt cur) SE3one (by simp [SE3one, Quat.one, Quat.normSq])
  have h2 := cost_nonneg (SE3Act (align (matchNN nn tgt cur))) (matchNN nn tgt cur)
  have hz : cost (SE3Act (align (matchNN nn tgt cur))) (matchNN nn tgt cur) = 0 := le_antisymm (by linarith) h2
  simp only [icpStep]
  rw [hm] at hz ⊢
  rw [map_act_eq_of_cost_zero _ _ _ hz, List.map_id]

/-- **ICP recovers an exact rigid motion inside the convergence basin.**  Let the initial nearest-neighbour
assignment be the true correspondence: the closest target of `init·sᵢ` is `X*·sᵢ` for a rigid motion `X*` (the basin
hypothesis; it holds e.g. when every point moves by less than half the smallest target separation).  Then after
any number `n ≥ 1` of passes — hence with any stepper — the returned transform maps every source point exactly
onto `X*·sᵢ`. -/
theorem icp_recovers (align : Pairs ℝ → SE3 ℝ) (hal : AlignOk align) (nn : Cloud ℝ → Vec3 ℝ → Nat)
    (src tgt : Cloud ℝ) (hnn : NNOk nn tgt) (X₀ Xs : SE3 ℝ) (h₀ : X₀.q.normSq = 1) (hXs : Xs.q.normSq = 1)
    (init : Option (SE3 ℝ)) (hstart : icpStart init src = src.map (SE3Act X₀))
    (hbasin : ∀ s ∈ src, tgt.getD (nn tgt (SE3Act X₀ s)) Vec3.zero = SE3Act Xs s)
    (n : Nat) :
    src.map (SE3Act (icp align nn init (n + 1) src tgt)) = src.map (SE3Act Xs) := by
  -- the first pass lands exactly on X*·src
  have hm : matchNN nn tgt (src.map (SE3Act X₀)) = (src.map (SE3Act X₀)).map fun p => (p, SE3Act Xs (SE3Act (SE3Inv X₀) p)) := by
    simp only [matchNN, List.map_map]; apply List.map_congr_left; intro s hs
    simp only [Function.comp, hbasin s hs, SE3Act_inv_left' X₀ h₀]
  have hY : (SE3Mul Xs (SE3Inv X₀)).q.normSq = 1 := by
    simp only [SE3Mul, Quat.normSq_mul, hXs, SE3Inv_unit X₀ h₀]; ring
  have h0 : cost (SE3Act (SE3Mul Xs (SE3Inv X₀))) (matchNN nn tgt (src.map (SE3Act X₀))) = 0 := by
    rw [cost_eq_zero_iff, hm]; intro p hp
    obtain ⟨a, _, rfl⟩ := List.mem_map.mp hp
    exact SE3Act_mul _ _ hXs (SE3Inv_unit X₀ h₀) a
  have h1 := hal.opt (matchNN nn tgt (src.map (SE3Act X₀))) _ hY
  have h2 := cost_nonneg (SE3Act (align (matchNN nn tgt (src.map (SE3Act X₀))))) (matchNN nn tgt (src.map (SE3Act X₀)))
  have hz : cost (SE3Act (align (matchNN nn tgt (src.map (SE3Act X₀))))) (matchNN nn tgt (src.map (SE3Act X₀))) = 0 :=
    le_antisymm (by linarith) h2
  have hstep : icpStep align nn tgt (src.map (SE3Act X₀)) = src.map (SE3Act Xs) := by
    simp only [icpStep]
    rw [hm] at hz ⊢
    rw [map_act_eq_of_cost_zero _ _ _ hz, List.map_map]
    apply List.map_congr_left; intro s _
    simp only [Function.comp, SE3Act_inv_left' X₀ h₀]
  -- every later pass leaves it there: the nearest target of X*·s is X*·s itself
  have hfix : ∀ p ∈ src.map (SE3Act Xs), tgt.getD (nn tgt p) Vec3.zero = p := by
    intro p hp
    obtain ⟨s, hs, rfl⟩ := List.mem_map.mp hp
    have hin : SE3Act Xs s ∈ tgt := by rw [← hbasin s hs]; exact (hnn _).1
    have hle := (hnn (SE3Act Xs s)).2 _ hin
    have hzero : ((SE3Act Xs s).sub (SE3Act Xs s)).normSq = 0 := by lie_unfold; ring
    rw [hzero] at hle
    have := normSq_eq_zero _ (le_antisymm hle (Align.normSq_nonneg _))
    generalize tgt.getD (nn tgt (SE3Act Xs s)) Vec3.zero = g at this ⊢
    have hx := congrArg Vec3.x this; have hy := congrArg Vec3.y this; have hz' := congrArg Vec3.z this
    simp only [Vec3.sub, Vec3.zero, k_real, Nat.cast_zero] at hx hy hz'
    apply Vec3.ext' <;> linarith
  have hiter : ∀ m, icpIter align nn tgt m (src.map (SE3Act Xs)) = src.map (SE3Act Xs) := by
    intro m; induction m with
    | zero => rfl
    | succ m ih => simp only [icpIter]; rw [icpStep_fixed align hal nn tgt _ hfix, ih]
  unfold icp
  rw [hstart]
  simp only [icpIter]
  rw [hstep, hiter n, icp_final_exact align hal Xs hXs src]

/-- the basin hypothesis in geometric form: if `X*·s` is a target point and is *strictly* closer to `init·s` than every
other target point (e.g. because every point moves by less than half the smallest separation of the target), any
nearest-neighbour kernel meeting its contract selects it -/
theorem basin_of_strictly_closest (nn : Cloud ℝ → Vec3 ℝ → Nat) (tgt : Cloud ℝ) (hnn : NNOk nn tgt) (p y : Vec3 ℝ)
    (hin : y ∈ tgt) (hstrict : ∀ q ∈ tgt, q ≠ y → (p.sub y).normSq < (p.sub q).normSq) :
    tgt.getD (nn tgt p) Vec3.zero = y := by
  by_contra hne
  have h1 := hstrict _ (hnn p).1 hne
  have h2 := (hnn p).2 y hin
  linarith

/-- **ICP recovery, geometric basin**: if for every source point the true image `X*·s` belongs to the target and is
strictly the closest target point of `init·s`, then for every number `n ≥ 1` of passes the returned transform maps
every source point exactly onto `X*·s`. -/
theorem icp_recovers_of_strictly_closest (align : Pairs ℝ → SE3 ℝ) (hal : AlignOk align)
    (nn : Cloud ℝ → Vec3 ℝ → Nat) (src tgt : Cloud ℝ) (hnn : NNOk nn tgt) (X₀ Xs : SE3 ℝ) (h₀ : X₀.q.normSq = 1)
    (hXs : Xs.q.normSq = 1) (init : Option (SE3 ℝ)) (hstart : icpStart init src = src.map (SE3Act X₀))
    (hin : ∀ s ∈ src, SE3Act Xs s ∈ tgt)
    (hstrict : ∀ s ∈ src, ∀ q ∈ tgt, q ≠ SE3Act Xs s →
      ((SE3Act X₀ s).sub (SE3Act Xs s)).normSq < ((SE3Act X₀ s).sub q).normSq)
    (n : Nat) :
    src.map (SE3Act (icp align nn init (n + 1) src tgt)) = src.map (SE3Act Xs) :=
  icp_recovers align hal nn src tgt hnn X₀ Xs h₀ hXs init hstart
    (fun s hs => basin_of_strictly_closest nn tgt hnn _ _ (hin s hs) (hstrict s hs)) n

/-! ## batches and call histories -/

/-- **batched = item-wise**: item `i` of a batched `svdtf` call is `svdtf` of item `i` alone (no decision on the path
looks at another item), hence optimal for its own correspondences whatever the other items are (mixed-regime batches). -/
theorem svdtfBatch_itemwise (svd : Mat3 ℝ → SVD3 ℝ) (detK : Mat3 ℝ → ℝ) (hdet : ∀ M, detK M = M.det) (atol : ℝ)
    (ha : |atol| < 1) (items : List (Pairs ℝ)) (i : Nat) (hi : i < items.length)
    (h : SVDOk (crossCov (centered items[i])) (svd (crossCov (centered items[i])))) :
    ∃ hi' : i < (svdtfBatch svd detK atol items).length,
      (svdtfBatch svd detK atol items)[i] = svdtf svd detK atol items[i] ∧
      ∀ X' : SE3 ℝ, X'.q.normSq = 1 →
        cost (SE3Act (svdtfBatch svd detK atol items)[i]) items[i] ≤ cost (SE3Act X') items[i] := by
  refine ⟨by simp [svdtfBatch, hi], by simp [svdtfBatch], ?_⟩
  intro X' hX'
  simp only [svdtfBatch, List.getElem_map]
  exact svdtf_optimal svd detK hdet atol ha _ h X' hX'

/-- every call of a history obeys the property: its result is never worse than its own effective initial transform -/
theorem icpMod_history_le_init (align : Pairs ℝ → SE3 ℝ) (hal : AlignOk align) (nn : Cloud ℝ → Vec3 ℝ → Nat)
    (m : IcpMod ℝ) (hm : ∀ T, m.init = some T → T.q.normSq = 1) (calls : List (IcpCall ℝ))
    (hc : ∀ c ∈ calls, NNOk nn c.tgt ∧ ∀ T, c.fwdInit = some T → T.q.normSq = 1) :
    ∀ p ∈ calls.zip (IcpMod.run align nn m calls).2,
      sscd nn p.1.tgt (p.1.src.map (SE3Act p.2)) ≤ sscd nn p.1.tgt (icpStart (m.effInit p.1) p.1.src) := by
  rw [(icpMod_history align nn m calls).2]
  intro p hp
  obtain ⟨c, hcm, rfl⟩ : ∃ c ∈ calls, p = (c, (m.forward align nn c).2) := by
    rw [List.zip_map_right] at hp
    obtain ⟨x, hx, rfl⟩ := List.mem_map.mp hp
    have hx' := List.of_mem_zip hx
    refine ⟨x.1, hx'.1, ?_⟩
    have : x.2 = x.1 := by
      have hz : ∀ (l : List (IcpCall ℝ)) (y : IcpCall ℝ × IcpCall ℝ), y ∈ l.zip l → y.2 = y.1 := by
        intro l; induction l with
        | nil => intro y hy; simp at hy
        | cons a l ih =>
          intro y hy
          simp only [List.zip_cons_cons, List.mem_cons] at hy
          rcases hy with rfl | hy
          · rfl
          · exact ih y hy
      exact hz calls x hx
    simp [Prod.map, this]
  obtain ⟨hnn, hf⟩ := hc c hcm
  have hinit : ∀ T, m.effInit c = some T → T.q.normSq = 1 := by
    intro T hT
    unfold IcpMod.effInit at hT
    cases hfi : c.fwdInit with
    | none => rw [hfi] at hT; exact hm T hT
    | some T' =>
      rw [hfi] at hT
      have hTT : T' = T := Option.some.inj hT
      exact hTT ▸ hf T' hfi
  exact icp_result_le_init align hal nn c.src c.tgt hnn (m.effInit c) hinit c.passes

/-! ## pass 3: uniqueness, error paths, exact scale, geometric basin, the tail of EPnP -/

/-- **the optimal rotation is unique iff-side used by the check**: with margin `s₂ + det(U Vh)·s₃ > 0`, every proper
rotation attaining the maximal pairing `⟨R, M⟩` equals the rotation `svdtf` chooses (re-export of the lemma) -/
theorem rotation_optimum_unique (M : Mat3 ℝ) (d : SVD3 ℝ) (h : SVDOk M d) (hgap : 0 < d.S.y + (d.U.mul d.Vh).det * d.S.z)
    (R' : Mat3 ℝ) (hR' : Mat3.IsRot R') (hopt : Mat3.frob R' M = Mat3.frob (rotOf d) M) : R' = rotOf d :=
  optimal_rotation_unique M d h hgap R' hR' hopt

/-- two SVDs of the same matrix give rotations with the same pairing -/
theorem pairing_independent_of_svd (M : Mat3 ℝ) (d d' : SVD3 ℝ) (h : SVDOk M d) (h' : SVDOk M d') :
    Mat3.frob (rotOf d) M = Mat3.frob (rotOf d') M := pairing_svd_independent M d d' h h'

/-- on exact similarity correspondences Umeyama's scale *is* the true scale (re-export) -/
theorem umeyama_scale_exact (ps : Pairs ℝ) (hN : ps ≠ []) (hA : 0 < energyS (centered ps)) (d : SVD3 ℝ) (h : SVDOk (Hmat ps) d)
    (X₀ : Sim3 ℝ) (hq₀ : X₀.q.normSq = 1) (hs₀ : 0 ≤ X₀.s) (hex : ∀ p ∈ ps, Sim3Act X₀ p.1 = p.2) :
    umeyamaScale d ps = X₀.s := umeyamaScale_exact ps hN hA d h X₀ hq₀ hs₀ hex

/-- `_compute_scale` recovers the camera-frame points and the factor of the null vector exactly (re-export) -/
theorem epnp_compute_scale_exact (Cw : Ctrl ℝ) (alpha : List (W4 ℝ)) (hw : ∀ w ∈ alpha, w.sum = 1) (hne : alpha ≠ [])
    (lam : ℝ) (hlam : lam ≠ 0) (R : Mat3 ℝ) (hR : Mat3.IsOrth R) (t : Vec3 ℝ)
    (hdepth : ∀ w ∈ alpha, 0 < (affine R t (combine w Cw)).z)
    (hspread : 0 < sdot (spread (alpha.map (combine · Cw))) (spread (alpha.map (combine · Cw)))) :
    (computeScale (Cw.map (scaledAffine lam R t)) alpha (alpha.map (combine · Cw))).2.1
        = (alpha.map (combine · Cw)).map (affine R t) ∧
    (computeScale (Cw.map (scaledAffine lam R t)) alpha (alpha.map (combine · Cw))).2.2 = 1 / lam :=
  computeScale_exact Cw alpha hw hne lam hlam R hR t hdepth hspread

/-- **the result of `svdtf` does not depend on which SVD the kernel returns**: any two decompositions meeting the contract
(different signs, different bases of repeated / zero singular spaces — planar, collinear, 3-point clouds) give results of
the same cost -/
theorem svdtf_cost_svd_independent (svd svd' : Mat3 ℝ → SVD3 ℝ) (detK : Mat3 ℝ → ℝ) (hdet : ∀ M, detK M = M.det) (atol : ℝ)
    (ha : |atol| < 1) (ps : Pairs ℝ) (h : SVDOk (crossCov (centered ps)) (svd (crossCov (centered ps))))
    (h' : SVDOk (crossCov (centered ps)) (svd' (crossCov (centered ps)))) :
    cost (SE3Act (svdtf svd detK atol ps)) ps = cost (SE3Act (svdtf svd' detK atol ps)) ps :=
  le_antisymm
    (svdtf_optimal svd detK hdet atol ha ps h _ (svdtf_proper svd' detK hdet atol ha ps h').1)
    (svdtf_optimal svd' detK hdet atol ha ps h' _ (svdtf_proper svd detK hdet atol ha ps h).1)

/-- **uniqueness of the optimum**: for a non-empty list of correspondences with margin `s₂ + det(U Vh)·s₃ > 0` (the cloud
pair is not collinear-degenerate; planar and 3-point sets have `s₂ > 0 = s₃`), every rigid transform that attains the
minimal cost *is* the transform `svdtf` returns (rotation matrix and translation) -/
theorem svdtf_optimum_unique (svd : Mat3 ℝ → SVD3 ℝ) (detK : Mat3 ℝ → ℝ) (hdet : ∀ M, detK M = M.det) (atol : ℝ)
    (ha : |atol| < 1) (ps : Pairs ℝ) (hN : ps ≠ []) (h : SVDOk (crossCov (centered ps)) (svd (crossCov (centered ps))))
    (hgap : 0 < (svd (crossCov (centered ps))).S.y +
      ((svd (crossCov (centered ps))).U.mul (svd (crossCov (centered ps))).Vh).det * (svd (crossCov (centered ps))).S.z)
    (R' : Mat3 ℝ) (hR' : Mat3.IsRot R') (t' : Vec3 ℝ)
    (hopt : cost (affine R' t') ps ≤ cost (SE3Act (svdtf svd detK atol ps)) ps) :
    R' = SO3matrix (svdtf svd detK atol ps).q ∧ t' = (svdtf svd detK atol ps).t := by
  obtain ⟨_, hrot, hm, ht⟩ := svdtf_proper svd detK hdet atol ha ps h
  have hc := svdtf_cost svd detK hdet atol ha ps h
  rw [hc, cost_affine_centered, cost_expand _ hR'.1] at hopt
  have hle := frob_le_rotOf _ _ h R' hR'
  rw [frob_rotOf _ _ h] at hle
  have hNpos : (0:ℝ) < (ps.length : ℝ) := by
    have : 0 < ps.length := List.length_pos_of_ne_nil hN
    positivity
  have hd := Align.normSq_nonneg (((R'.mulVec (mean (srcs ps))).add t').sub (mean (tgts ps)))
  have hd0 : (((R'.mulVec (mean (srcs ps))).add t').sub (mean (tgts ps))).normSq = 0 := by
    have : (ps.length : ℝ) * (((R'.mulVec (mean (srcs ps))).add t').sub (mean (tgts ps))).normSq ≤ 0 := by linarith
    nlinarith
  have hfro : Mat3.frob R' (crossCov (centered ps)) = Mat3.frob (rotOf (svd (crossCov (centered ps)))) (crossCov (centered ps)) := by
    rw [frob_rotOf _ _ h]; rw [hd0] at hopt; linarith
  have hR := optimal_rotation_unique _ _ h hgap R' hR' hfro
  refine ⟨by rw [hm]; exact hR, ?_⟩
  have hz := normSq_eq_zero _ hd0
  rw [ht, ← hR]
  have hx := congrArg Vec3.x hz; have hy := congrArg Vec3.y hz; have hz' := congrArg Vec3.z hz
  simp only [Vec3.sub, Vec3.add, Vec3.zero, k_real, Nat.cast_zero] at hx hy hz'
  apply Vec3.ext' <;> simp only [Vec3.sub] <;> linarith

/-- **an unbatched `svdstf` call raises exactly when Umeyama's scale is at most `atol`** (for a batch the rank test is
batch-level: `svdstfBatch_ok`; non-empty correspondences, sources not all equal,
SVD contract): `.ok` ⇔ `atol < scale`, and otherwise the error is the rank test of `mat2Sim3` ("Rotation matrix not full
rank") — accepted inputs satisfy the precondition of `svdstf_optimal`, rejected ones are exactly the others. -/
theorem svdstf_ok_iff (svd : Mat3 ℝ → SVD3 ℝ) (detK : Mat3 ℝ → ℝ) (hdet : ∀ M, detK M = M.det) (rtol atol : ℝ)
    (hr : 0 ≤ rtol) (ha0 : 0 ≤ atol) (ha1 : atol < 1) (ps : Pairs ℝ) (hN : ps ≠ [])
    (hA : 0 < energyS (centered ps)) (h : SVDOk (Hmat ps) (svd (Hmat ps))) :
    ((∃ X, svdstf svd detK rtol atol true ps = .ok X) ↔ atol < umeyamaScale (svd (Hmat ps)) ps) ∧
    (umeyamaScale (svd (Hmat ps)) ps ≤ atol → svdstf svd detK rtol atol true ps = .error .notFullRank) := by
  have hraise : umeyamaScale (svd (Hmat ps)) ps ≤ atol → svdstf svd detK rtol atol true ps = .error .notFullRank := by
    intro hle
    have hmat := svdstfMat_eq svd detK hdet true ps h
    simp only [if_true] at hmat
    simp only [svdstf, hmat, k_real, Nat.cast_zero]
    exact mat2Sim3_small_scale_raises detK hdet rtol atol ha0 _ (rotOf_isRot _ h.orthU h.orthV) _
      (umeyamaScale_nonneg ps _ h) hle _ _ _
  refine ⟨⟨?_, ?_⟩, hraise⟩
  · rintro ⟨X, hX⟩
    by_contra hnot
    rw [hraise (not_lt.mp hnot)] at hX
    cases hX
  · intro hbig
    obtain ⟨X, hX, _⟩ := svdstf_optimal svd detK hdet rtol atol hr ha0 ha1 ps hN hA h hbig
    exact ⟨X, hX⟩

/-- **exact similarity correspondences: `svdstf` returns the true scale and reproduces every point** under the exact guard
`atol < X₀.s` on the *true* scale (instead of a hypothesis on the computed one) -/
theorem svdstf_exact_true_scale (svd : Mat3 ℝ → SVD3 ℝ) (detK : Mat3 ℝ → ℝ) (hdet : ∀ M, detK M = M.det) (rtol atol : ℝ)
    (hr : 0 ≤ rtol) (ha0 : 0 ≤ atol) (ha1 : atol < 1) (ps : Pairs ℝ) (hN : ps ≠ [])
    (hA : 0 < energyS (centered ps)) (h : SVDOk (Hmat ps) (svd (Hmat ps)))
    (X₀ : Sim3 ℝ) (hq₀ : X₀.q.normSq = 1) (hs₀ : atol < X₀.s) (hex : ∀ p ∈ ps, Sim3Act X₀ p.1 = p.2) :
    ∃ X : Sim3 ℝ, svdstf svd detK rtol atol true ps = .ok X ∧ X.s = X₀.s ∧ X.q.normSq = 1 ∧ ∀ p ∈ ps, Sim3Act X p.1 = p.2 := by
  have hs0 : 0 ≤ X₀.s := le_trans ha0 hs₀.le
  have hsc := umeyamaScale_exact ps hN hA _ h X₀ hq₀ hs0 hex
  obtain ⟨X, hX, hq, _, hXs, _, hopt⟩ := svdstf_optimal svd detK hdet rtol atol hr ha0 ha1 ps hN hA h (by rw [hsc]; exact hs₀)
  refine ⟨X, hX, by rw [hXs, hsc], hq, ?_⟩
  have h0 : cost (Sim3Act X₀) ps = 0 := (cost_eq_zero_iff _ _).mpr hex
  have h1 := hopt X₀ hq₀ hs0
  have h2 := cost_nonneg (Sim3Act X) ps
  exact (cost_eq_zero_iff _ _).mp (by linarith)

/-- **EPnP, after the kernels**: if the control points handed to `_compute_solution` are the camera-frame control points
up to the non-zero factor of the null vector (`c_j = lam·X₀ c^w_j`), the barycentric weights sum to one, the points are
in front of the camera and not all equal, then the returned pose maps every world point onto its camera-frame point
`X₀·p` and the returned scale is `1/lam` — for every number of points, either sign of `lam`. -/
theorem epnp_tail_exact (svd : Mat3 ℝ → SVD3 ℝ) (detK : Mat3 ℝ → ℝ) (hdet : ∀ M, detK M = M.det) (atol : ℝ) (ha : |atol| < 1)
    (Cw : Ctrl ℝ) (alpha : List (W4 ℝ)) (hw : ∀ w ∈ alpha, w.sum = 1) (hne : alpha ≠ [])
    (lam : ℝ) (hlam : lam ≠ 0) (X₀ : SE3 ℝ) (hX₀ : X₀.q.normSq = 1)
    (hdepth : ∀ w ∈ alpha, 0 < (SE3Act X₀ (combine w Cw)).z)
    (hspread : 0 < sdot (spread (alpha.map (combine · Cw))) (spread (alpha.map (combine · Cw))))
    (hsvd : SVDOk (crossCov (centered ((alpha.map (combine · Cw)).zip ((alpha.map (combine · Cw)).map (SE3Act X₀)))))
      (svd (crossCov (centered ((alpha.map (combine · Cw)).zip ((alpha.map (combine · Cw)).map (SE3Act X₀))))))) :
    (computeSolution svd detK atol (Cw.map (scaledAffine lam (SO3matrix X₀.q) X₀.t)) alpha (alpha.map (combine · Cw))).2 = 1 / lam ∧
    ∀ p ∈ alpha.map (combine · Cw),
      SE3Act (computeSolution svd detK atol (Cw.map (scaledAffine lam (SO3matrix X₀.q) X₀.t)) alpha (alpha.map (combine · Cw))).1 p
        = SE3Act X₀ p := by
  have hrot := isRot_SO3matrix _ hX₀
  have hd' : ∀ w ∈ alpha, 0 < (affine (SO3matrix X₀.q) X₀.t (combine w Cw)).z := by
    intro w hwm; rw [← SE3Act_eq_affine]; exact hdepth w hwm
  obtain ⟨hp, hs⟩ := computeScale_exact Cw alpha hw hne lam hlam _ hrot.1 X₀.t hd' hspread
  refine ⟨by simp only [computeSolution]; exact hs, ?_⟩
  intro p hpm
  simp only [computeSolution, hp, ← SE3Act_eq_affine]
  have hex : ∀ pr ∈ (alpha.map (combine · Cw)).zip ((alpha.map (combine · Cw)).map (SE3Act X₀)), SE3Act X₀ pr.1 = pr.2 := by
    have := cost_zip_map X₀ (alpha.map (combine · Cw))
    exact (cost_eq_zero_iff _ _).mp this
  have hall := svdtf_exact svd detK hdet atol ha _ hsvd X₀ hX₀ hex
  have hmem : (p, SE3Act X₀ p) ∈ (alpha.map (combine · Cw)).zip ((alpha.map (combine · Cw)).map (SE3Act X₀)) := by
    have : ∀ (l : Cloud ℝ) (x : Vec3 ℝ), x ∈ l → (x, SE3Act X₀ x) ∈ l.zip (l.map (SE3Act X₀)) := by
      intro l; induction l with
      | nil => intro x hx; simp at hx
      | cons a l ih =>
        intro x hx
        simp only [List.map_cons, List.zip_cons_cons, List.mem_cons] at hx ⊢
        rcases hx with rfl | hx
        · left; rfl
        · right; exact ih x hx
    exact this _ p hpm
  exact hall _ hmem


/-- **half-separation basin**: if the point `p` is closer to the target point `y` than half the distance from `y` to any
other target point (`4‖p − y‖² < ‖y − q‖²`), then `y` is strictly the closest target of `p` -/
theorem strictly_closest_of_half_separation (tgt : Cloud ℝ) (p y : Vec3 ℝ)
    (hsep : ∀ q ∈ tgt, q ≠ y → 4 * (p.sub y).normSq < (y.sub q).normSq) :
    ∀ q ∈ tgt, q ≠ y → (p.sub y).normSq < (p.sub q).normSq := by
  intro q hq hne
  have h1 := hsep q hq hne
  have h2 := normSq_sub_le y p q
  have h3 : (y.sub p).normSq = (p.sub y).normSq := normSq_sub_comm y p
  rw [h3] at h2
  linarith

/-- **ICP recovers small exact rigid perturbations** (the property's wording, fully geometric): if every source point,
after the initial transform, lies closer to its true image `X*·s` than half the distance from that image to any other
target point, and the images are among the targets, then for every `n ≥ 1` passes — any stepper — the returned transform
maps every source point exactly onto `X*·s`. -/
theorem icp_recovers_small_perturbation (align : Pairs ℝ → SE3 ℝ) (hal : AlignOk align)
    (nn : Cloud ℝ → Vec3 ℝ → Nat) (src tgt : Cloud ℝ) (hnn : NNOk nn tgt) (X₀ Xs : SE3 ℝ) (h₀ : X₀.q.normSq = 1)
    (hXs : Xs.q.normSq = 1) (init : Option (SE3 ℝ)) (hstart : icpStart init src = src.map (SE3Act X₀))
    (hin : ∀ s ∈ src, SE3Act Xs s ∈ tgt)
    (hsmall : ∀ s ∈ src, ∀ q ∈ tgt, q ≠ SE3Act Xs s →
      4 * ((SE3Act X₀ s).sub (SE3Act Xs s)).normSq < ((SE3Act Xs s).sub q).normSq)
    (n : Nat) :
    src.map (SE3Act (icp align nn init (n + 1) src tgt)) = src.map (SE3Act Xs) :=
  icp_recovers_of_strictly_closest align hal nn src tgt hnn X₀ Xs h₀ hXs init hstart hin
    (fun s hs => strictly_closest_of_half_separation tgt _ _ (hsmall s hs)) n

/-- per-pass monotonicity in the property's own measure, the *mean* squared closest-point distance -/
theorem icp_monotone_mscd (align : Pairs ℝ → SE3 ℝ) (hal : AlignOk align) (nn : Cloud ℝ → Vec3 ℝ → Nat)
    (tgt : Cloud ℝ) (hnn : NNOk nn tgt) (n : Nat) (cur : Cloud ℝ) :
    mscd nn tgt (icpIter align nn tgt (n + 1) cur) ≤ mscd nn tgt (icpIter align nn tgt n cur) := by
  have h := icp_monotone align hal nn tgt hnn n cur
  have hl : ∀ (m : Nat) (c : Cloud ℝ), (icpIter align nn tgt m c).length = c.length := by
    intro m; induction m with
    | zero => intro c; rfl
    | succ m ih => intro c; simp only [icpIter]; rw [ih]; simp [icpStep]
  simp only [mscd, hl, k_real, Nat.cast_one]
  exact mul_le_mul_of_nonneg_right h (by positivity)


/-- **`svdstf(with_scale=False)` in closed form**: scale exactly 1, the same rotation `rotOf` as `svdtf`, and the translation
of the *unscaled* solution `c_target − R c_source` (the round-3 seed took it from the scaled one) -/
theorem svdstf_noscale_form (svd : Mat3 ℝ → SVD3 ℝ) (detK : Mat3 ℝ → ℝ) (hdet : ∀ M, detK M = M.det)
    (rtol atol : ℝ) (hr : 0 ≤ rtol) (ha0 : 0 ≤ atol) (ha1 : atol < 1) (ps : Pairs ℝ)
    (h : SVDOk (Hmat ps) (svd (Hmat ps))) :
    ∃ X : Sim3 ℝ, svdstf svd detK rtol atol false ps = .ok X ∧ X.s = 1 ∧ SO3matrix X.q = rotOf (svd (Hmat ps)) ∧
      X.t = (mean (tgts ps)).sub ((rotOf (svd (Hmat ps))).mulVec (mean (srcs ps))) := by
  have hrot := rotOf_isRot _ h.orthU h.orthV
  have hmat := svdstfMat_eq svd detK hdet false ps h
  simp only [Bool.false_eq_true, if_false] at hmat
  obtain ⟨X, hX, hXt, hXs, _, hXm⟩ := mat2Sim3_of_scaled_rotation detK hdet rtol atol hr ha0 ha1 _ hrot 1 ha1
    ((mean (tgts ps)).sub ((Mat3.smul 1 (rotOf (svd (Hmat ps)))).mulVec (mean (srcs ps)))) Vec3.zero 0
  refine ⟨X, ?_, hXs, hXm, by rw [hXt, Mat3.one_smul']⟩
  simp only [svdstf, hmat, k_real, Nat.cast_zero]; exact hX

/-! ## pass 4: stepper form of the recovery clause, batch-level decisions, a witness for the aligner contract -/

/-- **the aligner contract is satisfiable without any assumption on an SVD kernel**: an optimal rigid aligner exists (the
pairing `q ↦ ⟨R(q), M⟩` is continuous on the compact unit sphere of quaternions), so every ICP theorem of this file —
all of which take `AlignOk align` as hypothesis — has a model (`idealAlign`, noncomputable). `svdtf_alignOk` is the
statement that the *code's* aligner is another one, given an SVD of every matrix it meets. -/
theorem exists_alignOk : ∃ align : Pairs ℝ → SE3 ℝ, AlignOk align := ⟨idealAlign, idealAlign_ok⟩

/-- the totalisation of the model at the empty cloud, stated so that it cannot be overlooked: `mean [] = 0` (the code
computes 0/0 = NaN there) and every cost over `[]` is 0, so the "any count" theorems above say nothing about the code
for `N = 0`; the property's quantifier is `N ≥ 3` and the harness never sends an empty cloud -/
theorem model_totalisation_empty (T : Vec3 ℝ → Vec3 ℝ) : mean ([] : Cloud ℝ) = Vec3.zero ∧ cost T [] = 0 := by
  constructor
  · apply Vec3.ext' <;> simp [mean, Vec3.smul, Vec3.zero]
  · simp [cost]

/-- a stepper that allows the first pass (every shipped stepper: `continual()` is `True` after `reset()`) makes the loop
run some number `m ≥ 1` of passes -/
theorem icpLoop_pos (align : Pairs ℝ → SE3 ℝ) (nn : Cloud ℝ → Vec3 ℝ → Nat) (cont : List ℝ → Bool) (hc : cont [] = true)
    (tgt : Cloud ℝ) (fuel : Nat) (hf : 1 ≤ fuel) (cur : Cloud ℝ) :
    ∃ m, (icpLoop align nn cont tgt fuel cur []).1 = icpIter align nn tgt (m + 1) cur := by
  obtain ⟨f, rfl⟩ : ∃ f, fuel = f + 1 := ⟨fuel - 1, by omega⟩
  simp only [icpLoop, hc, if_true]
  obtain ⟨m, _, he⟩ := icpLoop_eq_iter align nn cont tgt f (icpStep align nn tgt cur) [icpError nn tgt cur]
  exact ⟨m, by rw [he]; rfl⟩

/-- **ICP with a stepper recovers small exact rigid perturbations**: the stepper form of `icp_recovers_small_perturbation`
(`ord = 2`): any stepper that allows the first pass, any bound `fuel ≥ 1` on the number of passes. -/
theorem icpWith_recovers_small_perturbation (align : Pairs ℝ → SE3 ℝ) (hal : AlignOk align)
    (nn : Cloud ℝ → Vec3 ℝ → Nat) (src tgt : Cloud ℝ) (hnn : NNOk nn tgt) (X₀ Xs : SE3 ℝ) (h₀ : X₀.q.normSq = 1)
    (hXs : Xs.q.normSq = 1) (init : Option (SE3 ℝ)) (hstart : icpStart init src = src.map (SE3Act X₀))
    (hin : ∀ s ∈ src, SE3Act Xs s ∈ tgt)
    (hsmall : ∀ s ∈ src, ∀ q ∈ tgt, q ≠ SE3Act Xs s →
      4 * ((SE3Act X₀ s).sub (SE3Act Xs s)).normSq < ((SE3Act Xs s).sub q).normSq)
    (cont : List ℝ → Bool) (hc : cont [] = true) (fuel : Nat) (hf : 1 ≤ fuel) :
    src.map (SE3Act (icpWith align nn cont fuel init src tgt)) = src.map (SE3Act Xs) := by
  obtain ⟨m, he⟩ := icpLoop_pos align nn cont hc tgt fuel hf (icpStart init src)
  have := icp_recovers_small_perturbation align hal nn src tgt hnn X₀ Xs h₀ hXs init hstart hin hsmall m
  unfold icp at this
  unfold icpWith
  rw [he]; exact this

/-- the batched loop runs one common number `m ≤ fuel` of passes on every item -/
theorem icpLoopB_eq_iter (align : Pairs ℝ → SE3 ℝ) (nn : Cloud ℝ → Vec3 ℝ → Nat) (cont : List (List ℝ) → Bool)
    (fuel : Nat) (items : List (Cloud ℝ × Cloud ℝ)) (errs : List (List ℝ)) :
    ∃ m ≤ fuel, (icpLoopB align nn cont fuel items errs).1 = items.map fun it => (icpIter align nn it.2 m it.1, it.2) := by
  induction fuel generalizing items errs with
  | zero => exact ⟨0, le_refl _, by simp [icpLoopB, icpIter]⟩
  | succ f ih =>
    simp only [icpLoopB]
    split_ifs with hc
    · obtain ⟨m, hm, he⟩ := ih (items.map fun it => (icpStep align nn it.2 it.1, it.2))
        ((items.map fun it => icpError nn it.2 it.1) :: errs)
      refine ⟨m + 1, by omega, ?_⟩
      rw [he, List.map_map]; rfl
    · exact ⟨0, by omega, by simp [icpIter]⟩

/-- **batched ICP, item by item**: with the batch-level stepper decision (`torch.all` over the items' errors) every item
of the batch gets the result of `icp` with one common number of passes `m ≤ fuel` -/
theorem icpWithB_items (align : Pairs ℝ → SE3 ℝ) (nn : Cloud ℝ → Vec3 ℝ → Nat) (cont : List (List ℝ) → Bool) (fuel : Nat)
    (items : List (Option (SE3 ℝ) × Cloud ℝ × Cloud ℝ)) :
    ∃ m ≤ fuel, icpWithB align nn cont fuel items = items.map fun it => icp align nn it.1 m it.2.1 it.2.2 := by
  obtain ⟨m, hm, he⟩ := icpLoopB_eq_iter align nn cont fuel (items.map fun it => (icpStart it.1 it.2.1, it.2.2)) []
  refine ⟨m, hm, ?_⟩
  simp only [icpWithB, he, List.map_map]
  rw [List.zipWith_map_right]
  simp only [Function.comp, List.zipWith_self, icp]

/-- **…hence no item of a batched ICP call is worse than its own initial transform** (`ord = 2`), for every batch-level
stepper and every bound on the passes -/
theorem icpWithB_result_le_init (align : Pairs ℝ → SE3 ℝ) (hal : AlignOk align) (nn : Cloud ℝ → Vec3 ℝ → Nat)
    (cont : List (List ℝ) → Bool) (fuel : Nat) (items : List (Option (SE3 ℝ) × Cloud ℝ × Cloud ℝ))
    (hit : ∀ it ∈ items, NNOk nn it.2.2 ∧ ∀ T, it.1 = some T → T.q.normSq = 1) :
    ∀ p ∈ items.zip (icpWithB align nn cont fuel items),
      sscd nn p.1.2.2 (p.1.2.1.map (SE3Act p.2)) ≤ sscd nn p.1.2.2 (icpStart p.1.1 p.1.2.1) := by
  obtain ⟨m, _, he⟩ := icpWithB_items align nn cont fuel items
  rw [he]
  intro p hp
  have hz : ∀ (l : List (Option (SE3 ℝ) × Cloud ℝ × Cloud ℝ)) (f : _ → SE3 ℝ) (y : _ × SE3 ℝ), y ∈ l.zip (l.map f) → y.1 ∈ l ∧ y.2 = f y.1 := by
    intro l f; induction l with
    | nil => intro y hy; simp at hy
    | cons a l ih =>
      intro y hy
      simp only [List.map_cons, List.zip_cons_cons, List.mem_cons] at hy
      rcases hy with rfl | hy
      · exact ⟨List.mem_cons_self .., rfl⟩
      · exact ⟨List.mem_cons_of_mem _ (ih y hy).1, (ih y hy).2⟩
  obtain ⟨hm, hv⟩ := hz items _ p hp
  rw [hv]
  obtain ⟨hnn, hinit⟩ := hit p.1 hm
  exact icp_result_le_init align hal nn p.1.2.1 p.1.2.2 hnn p.1.1 hinit m

/-- **`svdstf` on a batch** (the rank test of `mat2Sim3` is `allclose(s, 0)` over the *whole* batch): if every item is
regular (non-empty, sources not all equal, SVD contract, positive Umeyama scale) and **at least one** item has scale above
`atol`, the batched call returns — also for the items whose own scale is `≤ atol` (alone they would raise, see
`svdstf_ok_iff`, which is a statement about an unbatched call) — and every returned item is a valid `Sim3` element with
Umeyama's scale, optimal for its own correspondences. -/
theorem svdstfBatch_ok (svd : Mat3 ℝ → SVD3 ℝ) (detK : Mat3 ℝ → ℝ) (hdet : ∀ M, detK M = M.det) (rtol atol : ℝ)
    (hr : 0 ≤ rtol) (ha0 : 0 ≤ atol) (ha1 : atol < 1) (items : List (Pairs ℝ))
    (hreg : ∀ ps ∈ items, ps ≠ [] ∧ 0 < energyS (centered ps) ∧ SVDOk (Hmat ps) (svd (Hmat ps)) ∧
      0 < umeyamaScale (svd (Hmat ps)) ps)
    (hbig : ∃ ps ∈ items, atol < umeyamaScale (svd (Hmat ps)) ps) :
    ∃ Xs : List (Sim3 ℝ), svdstfBatch svd detK rtol atol true items = .ok Xs ∧
      Xs = items.map (fun ps => (⟨(mean (tgts ps)).sub ((Mat3.smul (umeyamaScale (svd (Hmat ps)) ps) (rotOf (svd (Hmat ps)))).mulVec
        (mean (srcs ps))), canonQ atol (mat2SO3Raw 0 (rotOf (svd (Hmat ps)))), umeyamaScale (svd (Hmat ps)) ps⟩ : Sim3 ℝ)) ∧
      ∀ pr ∈ items.zip Xs, pr.2.q.normSq = 1 ∧ 0 < pr.2.s ∧
        ∀ X' : Sim3 ℝ, X'.q.normSq = 1 → 0 ≤ X'.s → cost (Sim3Act pr.2) pr.1 ≤ cost (Sim3Act X') pr.1 := by
  -- the quaternion of every item's rotation
  have hq : ∀ ps ∈ items, (mat2SO3Raw 0 (rotOf (svd (Hmat ps)))).normSq = 1 ∧
      SO3matrix (mat2SO3Raw 0 (rotOf (svd (Hmat ps)))) = rotOf (svd (Hmat ps)) := by
    intro ps hps
    obtain ⟨_, _, hsvd, _⟩ := hreg ps hps
    exact mat2SO3Raw_of_rotation _ (rotOf_isRot _ hsvd.orthU hsvd.orthV) 0 (by simp)
  have hin : ∀ ps ∈ items, svdstfIn svd detK true ps =
      ⟨.m34, Mat3.smul (umeyamaScale (svd (Hmat ps)) ps) (rotOf (svd (Hmat ps))),
        (mean (tgts ps)).sub ((Mat3.smul (umeyamaScale (svd (Hmat ps)) ps) (rotOf (svd (Hmat ps)))).mulVec (mean (srcs ps))),
        Vec3.zero, 0⟩ := by
    intro ps hps
    obtain ⟨_, _, hsvd, _⟩ := hreg ps hps
    have hmat := svdstfMat_eq svd detK hdet true ps hsvd
    simp only [if_true] at hmat
    simp only [svdstfIn, hmat, k_real, Nat.cast_zero]
  have hR : (items.map (svdstfIn svd detK true)).map (·.R) =
      (items.map fun ps => (mat2SO3Raw 0 (rotOf (svd (Hmat ps))), umeyamaScale (svd (Hmat ps)) ps)).map
        fun p => Mat3.smul p.2 (SO3matrix p.1) := by
    rw [List.map_map, List.map_map]; apply List.map_congr_left; intro ps hps
    simp only [Function.comp, hin ps hps, (hq ps hps).2]
  have hvalid := scaledRotBatch_valid detK hdet true rtol atol hr ha0 ha1
    (items.map fun ps => (mat2SO3Raw 0 (rotOf (svd (Hmat ps))), umeyamaScale (svd (Hmat ps)) ps))
    (by intro p hp; obtain ⟨ps, hps, rfl⟩ := List.mem_map.mp hp; exact ⟨(hq ps hps).1, (hreg ps hps).2.2.2⟩)
    (by intro _; obtain ⟨ps, hps, hb⟩ := hbig; exact ⟨_, List.mem_map.mpr ⟨ps, hps, rfl⟩, hb⟩)
  refine ⟨_, ?_, rfl, ?_⟩
  · unfold svdstfBatch mat2Sim3Batch
    rw [hR, hvalid]
    simp only [List.map_map, List.zipWith_map, List.zipWith_self]
    congr 1
    apply List.map_congr_left; intro ps hps
    simp only [Function.comp, hin ps hps, MatIn.tOf]
  · intro pr hpr
    have hz : ∀ (l : List (Pairs ℝ)) (f : Pairs ℝ → Sim3 ℝ) (y : Pairs ℝ × Sim3 ℝ), y ∈ l.zip (l.map f) → y.1 ∈ l ∧ y.2 = f y.1 := by
      intro l f; induction l with
      | nil => intro y hy; simp at hy
      | cons a l ih =>
        intro y hy
        simp only [List.map_cons, List.zip_cons_cons, List.mem_cons] at hy
        rcases hy with rfl | hy
        · exact ⟨List.mem_cons_self .., rfl⟩
        · exact ⟨List.mem_cons_of_mem _ (ih y hy).1, (ih y hy).2⟩
    obtain ⟨hm, hv⟩ := hz items _ pr hpr
    obtain ⟨hN, hA, hsvd, hpos⟩ := hreg pr.1 hm
    rw [hv]
    refine ⟨by rw [canonQ_normSq]; exact (hq pr.1 hm).1, hpos, ?_⟩
    exact sim3_optimal_of_form pr.1 hN hA _ hsvd _ rfl (by rw [SO3matrix_canonQ]; exact (hq pr.1 hm).2) rfl


/-! ## pass 10: recovery from a basin that is reached only after some passes; recovery is absorbing; mixed batches -/

/-- **ICP recovers an exact rigid motion as soon as the loop has entered the basin — at whatever pass.**
`icp_recovers` asks that the *first* nearest-neighbour assignment is already the true correspondence.  A cloud that slides
along a curve or a wall needs many passes before that is the case (the slowly converging items of the mixed batches of the
harness: 10–35 passes).  Here the basin hypothesis is made about the `k`-th `temporal` cloud `X_k·src` instead (`X_k` is the
product of the transforms found so far; such a unit `X_k` exists for every `k`: `icpIter_rigid`): if the closest target
of `X_k·sᵢ` is `X*·sᵢ` for every source point, then for **every** number `k + n + 1` of passes beyond `k` the returned
transform maps every source point exactly onto `X*·sᵢ`.  `k = 0` is `icp_recovers`. -/
theorem icp_recovers_after (align : Pairs ℝ → SE3 ℝ) (hal : AlignOk align) (nn : Cloud ℝ → Vec3 ℝ → Nat)
    (src tgt : Cloud ℝ) (hnn : NNOk nn tgt) (Xk Xs : SE3 ℝ) (hk1 : Xk.q.normSq = 1) (hXs : Xs.q.normSq = 1)
    (init : Option (SE3 ℝ)) (k : Nat)
    (hk : icpIter align nn tgt k (icpStart init src) = src.map (SE3Act Xk))
    (hbasin : ∀ s ∈ src, tgt.getD (nn tgt (SE3Act Xk s)) Vec3.zero = SE3Act Xs s)
    (n : Nat) :
    src.map (SE3Act (icp align nn init (k + n + 1) src tgt)) = src.map (SE3Act Xs) := by
  have h := icp_recovers align hal nn src tgt hnn Xk Xs hk1 hXs (some Xk) rfl hbasin n
  have he : icp align nn init (k + n + 1) src tgt = icp align nn (some Xk) (n + 1) src tgt := by
    unfold icp
    rw [Nat.add_assoc, icpIter_add, hk]
    rfl
  rw [he]; exact h

/-- **Recovery is absorbing**: once the `temporal` cloud lies exactly on `X*·src ⊆ target` after `m` passes (the item is
recovered with `m` passes), it is recovered with every larger number of passes: a stepper that lets the loop run longer
— because *other items of the batch* are not yet quiet — cannot lose an item that has converged. -/
theorem icp_recovered_stays (align : Pairs ℝ → SE3 ℝ) (hal : AlignOk align) (nn : Cloud ℝ → Vec3 ℝ → Nat)
    (src tgt : Cloud ℝ) (hnn : NNOk nn tgt) (Xs : SE3 ℝ) (hXs : Xs.q.normSq = 1) (init : Option (SE3 ℝ)) (m : Nat)
    (hm : icpIter align nn tgt m (icpStart init src) = src.map (SE3Act Xs))
    (hin : ∀ s ∈ src, SE3Act Xs s ∈ tgt) (n : Nat) :
    src.map (SE3Act (icp align nn init (m + n) src tgt)) = src.map (SE3Act Xs) := by
  cases n with
  | zero =>
    unfold icp
    rw [Nat.add_zero, hm]
    exact icp_final_exact align hal Xs hXs src
  | succ n =>
    exact icp_recovers_after align hal nn src tgt hnn Xs Xs hXs hXs init m hm
      (fun s hs => nn_self_of_mem nn tgt hnn _ (hin s hs)) n

/-- the stepper form of `icp_recovers_after` (unbatched call): whatever the stepper, the loop makes some number `m ≤ fuel` of
passes, and if the loop has entered the basin after `k` passes with `k + 1 ≤ m`, the exact rigid motion is returned -/
theorem icpWith_recovers_after (align : Pairs ℝ → SE3 ℝ) (hal : AlignOk align) (nn : Cloud ℝ → Vec3 ℝ → Nat)
    (src tgt : Cloud ℝ) (hnn : NNOk nn tgt) (init : Option (SE3 ℝ)) (cont : List ℝ → Bool) (fuel : Nat) :
    ∃ m ≤ fuel, ∀ (k : Nat) (Xk Xs : SE3 ℝ), Xk.q.normSq = 1 → Xs.q.normSq = 1 → k + 1 ≤ m →
      icpIter align nn tgt k (icpStart init src) = src.map (SE3Act Xk) →
      (∀ s ∈ src, tgt.getD (nn tgt (SE3Act Xk s)) Vec3.zero = SE3Act Xs s) →
      src.map (SE3Act (icpWith align nn cont fuel init src tgt)) = src.map (SE3Act Xs) := by
  obtain ⟨m, hmf, he⟩ := icpLoop_eq_iter align nn cont tgt fuel (icpStart init src) []
  refine ⟨m, hmf, ?_⟩
  intro k Xk Xs hk1 hXs hkm hk hbasin
  obtain ⟨n, rfl⟩ : ∃ n, m = k + n + 1 := ⟨m - (k + 1), by omega⟩
  have := icp_recovers_after align hal nn src tgt hnn Xk Xs hk1 hXs init k hk hbasin n
  unfold icp at this
  unfold icpWith
  rw [he]; exact this

/-- **Mixed batches: an item is recovered whatever its neighbours are, provided the batch runs long enough for *it*.**
For every batch-level stepper `cont` (any function of the whole history of all items' errors — `torch.all`, but also a
`max` / `mean` / `any` over the batch) and every bound `fuel`, the batched call makes one common number `m ≤ fuel` of passes,
and every item whose own loop has entered its basin after `k` passes with `k + 1 ≤ m` is returned exactly recovered.  So a
batch-global criterion can hurt an item only by stopping the *common* loop before that item's `k + 1` — which is what the
mixed-batch stream of the harness (class 51) tests against the item registered alone. -/
theorem icpWithB_recovers_after (align : Pairs ℝ → SE3 ℝ) (hal : AlignOk align) (nn : Cloud ℝ → Vec3 ℝ → Nat)
    (cont : List (List ℝ) → Bool) (fuel : Nat) (items : List (Option (SE3 ℝ) × Cloud ℝ × Cloud ℝ)) :
    ∃ m ≤ fuel, ∀ p ∈ items.zip (icpWithB align nn cont fuel items), NNOk nn p.1.2.2 →
      ∀ (k : Nat) (Xk Xs : SE3 ℝ), Xk.q.normSq = 1 → Xs.q.normSq = 1 → k + 1 ≤ m →
        icpIter align nn p.1.2.2 k (icpStart p.1.1 p.1.2.1) = p.1.2.1.map (SE3Act Xk) →
        (∀ s ∈ p.1.2.1, p.1.2.2.getD (nn p.1.2.2 (SE3Act Xk s)) Vec3.zero = SE3Act Xs s) →
        p.1.2.1.map (SE3Act p.2) = p.1.2.1.map (SE3Act Xs) := by
  obtain ⟨m, hmf, he⟩ := icpWithB_items align nn cont fuel items
  refine ⟨m, hmf, ?_⟩
  rw [he]
  intro p hp hnn k Xk Xs hk1 hXs hkm hk hbasin
  have hz : ∀ (l : List (Option (SE3 ℝ) × Cloud ℝ × Cloud ℝ)) (f : _ → SE3 ℝ) (y : _ × SE3 ℝ), y ∈ l.zip (l.map f) → y.1 ∈ l ∧ y.2 = f y.1 := by
    intro l f; induction l with
    | nil => intro y hy; simp at hy
    | cons a l ih =>
      intro y hy
      simp only [List.map_cons, List.zip_cons_cons, List.mem_cons] at hy
      rcases hy with rfl | hy
      · exact ⟨List.mem_cons_self .., rfl⟩
      · exact ⟨List.mem_cons_of_mem _ (ih y hy).1, (ih y hy).2⟩
  obtain ⟨_, hv⟩ := hz items _ p hp
  rw [hv]
  obtain ⟨n, rfl⟩ : ∃ n, m = k + n + 1 := ⟨m - (k + 1), by omega⟩
  exact icp_recovers_after align hal nn p.1.2.1 p.1.2.2 hnn Xk Xs hk1 hXs p.1.1 k hk hbasin n


/-- the points the returned transform produces are exactly the last `temporal` cloud of the loop (the final
`svdtf(source, temporal)` reproduces the accumulated rigid motion) -/
theorem icp_result_cloud (align : Pairs ℝ → SE3 ℝ) (hal : AlignOk align) (nn : Cloud ℝ → Vec3 ℝ → Nat)
    (src tgt : Cloud ℝ) (init : Option (SE3 ℝ)) (hinit : ∀ T, init = some T → T.q.normSq = 1) (n : Nat) :
    src.map (SE3Act (icp align nn init n src tgt)) = icpIter align nn tgt n (icpStart init src) := by
  obtain ⟨X₀, h₀, hs⟩ := icpStart_rigid init hinit src
  obtain ⟨X, hX, hXe⟩ := icpIter_rigid align hal nn tgt src n X₀ h₀
  unfold icp
  rw [hs, hXe, icp_final_exact align hal X hX src]

/-- **zero passes** (a stepper that never allows a pass): the returned transform acts on the source points exactly like the
initial transform (like the identity if there is none) — the harness's `init:` oracle -/
theorem icp_zero_passes (align : Pairs ℝ → SE3 ℝ) (hal : AlignOk align) (nn : Cloud ℝ → Vec3 ℝ → Nat)
    (src tgt : Cloud ℝ) (init : Option (SE3 ℝ)) (hinit : ∀ T, init = some T → T.q.normSq = 1) :
    src.map (SE3Act (icp align nn init 0 src tgt)) = icpStart init src :=
  icp_result_cloud align hal nn src tgt init hinit 0

/-- **More passes are never worse — at the level of the returned transforms** (`ord = 2`): the result of a call with
`m + n` passes has a sum (hence mean) of squared closest-point distances at most that of a call with `m` passes on the same
input.  This is the statement the harness samples when it compares calls with `n − 1` and `n` passes, and an item of a
batch (common pass count `m + n`) with the item registered alone (`m` passes). -/
theorem icp_result_more_passes_le (align : Pairs ℝ → SE3 ℝ) (hal : AlignOk align) (nn : Cloud ℝ → Vec3 ℝ → Nat)
    (src tgt : Cloud ℝ) (hnn : NNOk nn tgt) (init : Option (SE3 ℝ)) (hinit : ∀ T, init = some T → T.q.normSq = 1)
    (m n : Nat) :
    sscd nn tgt (src.map (SE3Act (icp align nn init (m + n) src tgt))) ≤
      sscd nn tgt (src.map (SE3Act (icp align nn init m src tgt))) := by
  rw [icp_result_cloud align hal nn src tgt init hinit, icp_result_cloud align hal nn src tgt init hinit, icpIter_add]
  exact icpIter_le align hal nn tgt hnn n _

/-- **Mixed batches, cost clause**: whatever the batch-level stepper looks at, the batched call makes one common number
`m ≤ fuel` of passes, and every item's result is at least as good (sum of squared closest-point distances, `ord = 2`) as
the result of that item registered **alone with any number `m' ≤ m` of passes** — in particular with the passes its own
stepper would have made, provided the batch did not stop earlier than that. -/
theorem icpWithB_le_alone (align : Pairs ℝ → SE3 ℝ) (hal : AlignOk align) (nn : Cloud ℝ → Vec3 ℝ → Nat)
    (cont : List (List ℝ) → Bool) (fuel : Nat) (items : List (Option (SE3 ℝ) × Cloud ℝ × Cloud ℝ))
    (hit : ∀ it ∈ items, NNOk nn it.2.2 ∧ ∀ T, it.1 = some T → T.q.normSq = 1) :
    ∃ m ≤ fuel, ∀ p ∈ items.zip (icpWithB align nn cont fuel items), ∀ m' ≤ m,
      sscd nn p.1.2.2 (p.1.2.1.map (SE3Act p.2)) ≤
        sscd nn p.1.2.2 (p.1.2.1.map (SE3Act (icp align nn p.1.1 m' p.1.2.1 p.1.2.2))) := by
  obtain ⟨m, hmf, he⟩ := icpWithB_items align nn cont fuel items
  refine ⟨m, hmf, ?_⟩
  rw [he]
  intro p hp m' hm'
  have hz : ∀ (l : List (Option (SE3 ℝ) × Cloud ℝ × Cloud ℝ)) (f : _ → SE3 ℝ) (y : _ × SE3 ℝ), y ∈ l.zip (l.map f) → y.1 ∈ l ∧ y.2 = f y.1 := by
    intro l f; induction l with
    | nil => intro y hy; simp at hy
    | cons a l ih =>
      intro y hy
      simp only [List.map_cons, List.zip_cons_cons, List.mem_cons] at hy
      rcases hy with rfl | hy
      · exact ⟨List.mem_cons_self .., rfl⟩
      · exact ⟨List.mem_cons_of_mem _ (ih y hy).1, (ih y hy).2⟩
  obtain ⟨hmem, hv⟩ := hz items _ p hp
  rw [hv]
  obtain ⟨hnn, hinit⟩ := hit p.1 hmem
  obtain ⟨n, rfl⟩ : ∃ n, m = m' + n := ⟨m - m', by omega⟩
  exact icp_result_more_passes_le align hal nn p.1.2.1 p.1.2.2 hnn p.1.1 hinit m' n


/-! ## pass 11: the mixed-batch recovery oracle itself; the cost clause in the property's measure -/

/-- **Mixed batches — "recovered alone ⇒ recovered in the batch"** (oracle (iii) of the harness's mixed-batch stream, as a
theorem): for every batch-level stepper there is one common pass count `m ≤ fuel`, and every item that is recovered when
registered **alone with some `m' ≤ m` passes** (its `temporal` cloud then lies exactly on `X*·src ⊆ target`) is returned
exactly recovered by the batched call, whatever the other items are.  So an item can be lost in a batch only if the common
loop stops *before* the item's own pass count — a batch-global stop criterion (class 51). -/
theorem icpWithB_recovered_if_alone (align : Pairs ℝ → SE3 ℝ) (hal : AlignOk align) (nn : Cloud ℝ → Vec3 ℝ → Nat)
    (cont : List (List ℝ) → Bool) (fuel : Nat) (items : List (Option (SE3 ℝ) × Cloud ℝ × Cloud ℝ)) :
    ∃ m ≤ fuel, ∀ p ∈ items.zip (icpWithB align nn cont fuel items), NNOk nn p.1.2.2 →
      ∀ (m' : Nat) (Xs : SE3 ℝ), Xs.q.normSq = 1 → m' ≤ m →
        icpIter align nn p.1.2.2 m' (icpStart p.1.1 p.1.2.1) = p.1.2.1.map (SE3Act Xs) →
        (∀ s ∈ p.1.2.1, SE3Act Xs s ∈ p.1.2.2) →
        p.1.2.1.map (SE3Act p.2) = p.1.2.1.map (SE3Act Xs) := by
  obtain ⟨m, hmf, he⟩ := icpWithB_items align nn cont fuel items
  refine ⟨m, hmf, ?_⟩
  rw [he]
  intro p hp hnn m' Xs hXs hm' hrec hin
  have hz : ∀ (l : List (Option (SE3 ℝ) × Cloud ℝ × Cloud ℝ)) (f : _ → SE3 ℝ) (y : _ × SE3 ℝ), y ∈ l.zip (l.map f) → y.1 ∈ l ∧ y.2 = f y.1 := by
    intro l f; induction l with
    | nil => intro y hy; simp at hy
    | cons a l ih =>
      intro y hy
      simp only [List.map_cons, List.zip_cons_cons, List.mem_cons] at hy
      rcases hy with rfl | hy
      · exact ⟨List.mem_cons_self .., rfl⟩
      · exact ⟨List.mem_cons_of_mem _ (ih y hy).1, (ih y hy).2⟩
  obtain ⟨_, hv⟩ := hz items _ p hp
  rw [hv]
  obtain ⟨n, rfl⟩ : ∃ n, m = m' + n := ⟨m - m', by omega⟩
  exact icp_recovered_stays align hal nn p.1.2.1 p.1.2.2 hnn Xs hXs p.1.1 m' hrec hin n

/-- `icp_result_more_passes_le` in the property's own measure, the **mean** squared closest-point distance -/
theorem icp_result_more_passes_mscd_le (align : Pairs ℝ → SE3 ℝ) (hal : AlignOk align) (nn : Cloud ℝ → Vec3 ℝ → Nat)
    (src tgt : Cloud ℝ) (hnn : NNOk nn tgt) (init : Option (SE3 ℝ)) (hinit : ∀ T, init = some T → T.q.normSq = 1)
    (m n : Nat) :
    mscd nn tgt (src.map (SE3Act (icp align nn init (m + n) src tgt))) ≤
      mscd nn tgt (src.map (SE3Act (icp align nn init m src tgt))) := by
  have h := icp_result_more_passes_le align hal nn src tgt hnn init hinit m n
  simp only [mscd, List.length_map, k_real, Nat.cast_one]
  exact mul_le_mul_of_nonneg_right h (by positivity)


/-! ## Non-vacuity: the hypotheses are satisfiable by non-trivial values -/

/-- a concrete reflection-prone problem: `M = diag(2, 2, -1)` has the SVD `1 · diag(2,2,1) · diag(1,1,-1)` with
`det(U Vh) = -1`; the contract holds and the chosen rotation is the identity (pairing `2 + 2 − 1 = 3`). -/
example : SVDOk ⟨⟨2, 0, 0⟩, ⟨0, 2, 0⟩, ⟨0, 0, -1⟩⟩ ⟨Mat3.one, ⟨2, 2, 1⟩, diag3 ⟨1, 1, -1⟩⟩ := by
  refine ⟨?_, isOrth_one, isOrth_diagF, by norm_num, by norm_num, by norm_num⟩
  simp only [diag3]; mat3_ext <;> lie_unfold <;> norm_num

/-- a concrete planar 4-point cloud aligned with itself: `M = Σ t̃ s̃ᵀ = diag(2, 2, 0)` (rank 2), SVD `1·diag(2,2,0)·1` -/
example : SVDOk (crossCov (centered [(⟨1, 0, 0⟩, ⟨1, 0, 0⟩), (⟨-1, 0, 0⟩, ⟨-1, 0, 0⟩), (⟨0, 1, 0⟩, ⟨0, 1, 0⟩),
    (⟨0, -1, 0⟩, (⟨0, -1, 0⟩ : Vec3 ℝ))])) ⟨Mat3.one, ⟨2, 2, 0⟩, Mat3.one⟩ := by
  refine ⟨?_, isOrth_one, isOrth_one, by norm_num, by norm_num, by norm_num⟩
  simp only [crossCov, centered, srcs, tgts, mean, List.map_cons, List.map_nil, vsum_cons, vsum_nil, msum_cons, msum_nil,
    List.length_cons, List.length_nil, diag3]
  mat3_ext <;> lie_unfold <;> norm_num

/-- a proper rotation matrix that is not the identity (rotation by 90° about `z`) -/
example : Mat3.IsRot ⟨⟨0, -1, 0⟩, ⟨1, 0, 0⟩, ⟨0, 0, 1⟩⟩ := by
  constructor
  · mat3_ext <;> lie_unfold <;> norm_num
  · lie_unfold; norm_num

/-- the nearest-neighbour contract is met by the model's own search on any non-empty target -/
example : NNOk nnFirst [⟨0, 0, 0⟩, ⟨1, 2, 3⟩, (⟨-1, 0, 5⟩ : Vec3 ℝ)] := nnFirst_ok _ (by simp)

/-- an instance of the aligner contract itself (`exists_alignOk`): every ICP theorem applies to it -/
example : AlignOk idealAlign := idealAlign_ok

/-- …so e.g. the stepper form of the property's ICP clause holds for a concrete, assumption-free aligner -/
example (nn : Cloud ℝ → Vec3 ℝ → Nat) (src tgt : Cloud ℝ) (hnn : NNOk nn tgt) (cont : List ℝ → Bool) (fuel : Nat) :
    sscd nn tgt (src.map (SE3Act (icpWith idealAlign nn cont fuel none src tgt))) ≤ sscd nn tgt src :=
  icpWith_result_le_init idealAlign idealAlign_ok nn src tgt hnn none (by intro T h; cases h) cont fuel

/-- the reflection-prone instance `M = diag(2,2,-1)` has margin `s₂ + det(U Vh)·s₃ = 2 − 1 > 0`: the optimum is unique -/
example : 0 < (⟨Mat3.one, ⟨2, 2, 1⟩, diag3 ⟨1, 1, -1⟩⟩ : SVD3 ℝ).S.y +
    ((⟨Mat3.one, ⟨2, 2, 1⟩, diag3 ⟨1, 1, -1⟩⟩ : SVD3 ℝ).U.mul (⟨Mat3.one, ⟨2, 2, 1⟩, diag3 ⟨1, 1, -1⟩⟩ : SVD3 ℝ).Vh).det *
      (⟨Mat3.one, ⟨2, 2, 1⟩, diag3 ⟨1, 1, -1⟩⟩ : SVD3 ℝ).S.z := by
  simp only [diag3]; lie_unfold; norm_num

/-- a collinear (rank one) cross-covariance `M = diag(3,0,0)` meets the contract with *two different* SVDs (the kernel is
free to choose the null directions and the sign of `det(U Vh)`): every theorem of the `svdtf` section applies to both,
`pairing_independent_of_svd` says they are equally good; the uniqueness margin is 0, as it must be -/
example : SVDOk ⟨⟨3, 0, 0⟩, ⟨0, 0, 0⟩, ⟨0, 0, 0⟩⟩ ⟨Mat3.one, ⟨3, 0, 0⟩, Mat3.one⟩ ∧
    SVDOk ⟨⟨3, 0, 0⟩, ⟨0, 0, 0⟩, ⟨0, 0, 0⟩⟩ ⟨Mat3.one, ⟨3, 0, 0⟩, diag3 ⟨1, 1, -1⟩⟩ := by
  refine ⟨⟨?_, isOrth_one, isOrth_one, by norm_num, by norm_num, by norm_num⟩,
    ⟨?_, isOrth_one, isOrth_diagF, by norm_num, by norm_num, by norm_num⟩⟩ <;>
  (simp only [diag3]; mat3_ext <;> lie_unfold <;> norm_num)

/-- the half-separation hypothesis on a concrete target: `p = (0.1,0,0)` is within half the distance from `y = 0` to the
other targets -/
example : ∀ q ∈ ([⟨0, 0, 0⟩, ⟨1, 0, 0⟩, ⟨0, 2, 0⟩] : Cloud ℝ), q ≠ ⟨0, 0, 0⟩ →
    4 * ((⟨1/10, 0, 0⟩ : Vec3 ℝ).sub ⟨0, 0, 0⟩).normSq < ((⟨0, 0, 0⟩ : Vec3 ℝ).sub q).normSq := by
  intro q hq hne
  simp only [List.mem_cons, List.mem_nil_iff, or_false] at hq
  rcases hq with rfl | rfl | rfl
  · exact absurd rfl hne
  · lie_unfold; norm_num
  · lie_unfold; norm_num

/-- barycentric weights summing to one, and a cloud with positive source energy (hypotheses of `svdstf_ok_iff`,
`epnp_tail_exact`) -/
example : (⟨1/4, 1/4, 1/4, 1/4⟩ : W4 ℝ).sum = 1 ∧ (⟨2, -1, 1/2, -1/2⟩ : W4 ℝ).sum = 1 := by
  constructor <;> simp only [W4.sum] <;> norm_num
example : 0 < energyS (centered [(⟨1, 0, 0⟩, ⟨2, 0, 0⟩), (⟨-1, 0, 0⟩, (⟨-2, 0, 0⟩ : Vec3 ℝ))]) := by
  simp only [energyS, centered, srcs, tgts, mean, List.map_cons, List.map_nil, vsum_cons, vsum_nil, List.length_cons,
    List.length_nil, ssum_cons, ssum_nil]
  lie_unfold; norm_num

/-- pass 10: the hypotheses of `icp_recovered_stays` / `icp_recovers_after` are satisfiable for every non-empty cloud, a concrete
nearest-neighbour kernel and a concrete aligner (target = source, `X* = 1`; `k = 1`: the basin hypothesis is made about the
cloud *after* a pass) -/
example (src : Cloud ℝ) (hne : src ≠ []) (n : Nat) :
    src.map (SE3Act (icp idealAlign nnFirst none (0 + n) src src)) = src.map (SE3Act SE3one) ∧
    src.map (SE3Act (icp idealAlign nnFirst none (1 + n + 1) src src)) = src.map (SE3Act SE3one) := by
  have h1 : (SE3one : SE3 ℝ).q.normSq = 1 := by simp [SE3one, Quat.one, Quat.normSq]
  have hid : src.map (SE3Act (SE3one : SE3 ℝ)) = src := by
    conv_rhs => rw [← List.map_id src]
    apply List.map_congr_left; intro s _; exact SE3Act_one s
  have hnn := nnFirst_ok src hne
  have hself : ∀ p ∈ src, src.getD (nnFirst src p) Vec3.zero = p := fun p hp => nn_self_of_mem nnFirst src hnn p hp
  refine ⟨icp_recovered_stays idealAlign idealAlign_ok nnFirst src src hnn SE3one h1 none 0 (by simp [icpIter, icpStart, hid])
    (fun s hs => by rw [SE3Act_one]; exact hs) n, ?_⟩
  refine icp_recovers_after idealAlign idealAlign_ok nnFirst src src hnn SE3one SE3one h1 h1 none 1 ?_
    (fun s hs => by rw [SE3Act_one]; exact hself s hs) n
  simp only [icpIter, icpStart]
  rw [icpStep_fixed idealAlign idealAlign_ok nnFirst src src hself, hid]

/-- pass 10: the batch cost clause for a concrete aligner and kernel: any two registration problems with non-empty targets, any
batch-level stepper -/
example (a b : Cloud ℝ × Cloud ℝ) (ha : a.2 ≠ []) (hb : b.2 ≠ []) (cont : List (List ℝ) → Bool) (fuel : Nat) :
    ∃ m ≤ fuel, ∀ p ∈ [(none, a), (none, b)].zip (icpWithB idealAlign nnFirst cont fuel [(none, a), (none, b)]), ∀ m' ≤ m,
      sscd nnFirst p.1.2.2 (p.1.2.1.map (SE3Act p.2)) ≤
        sscd nnFirst p.1.2.2 (p.1.2.1.map (SE3Act (icp idealAlign nnFirst p.1.1 m' p.1.2.1 p.1.2.2))) := by
  apply icpWithB_le_alone idealAlign idealAlign_ok nnFirst cont fuel
  intro it hit
  simp only [List.mem_cons, List.not_mem_nil, or_false] at hit
  rcases hit with rfl | rfl
  · exact ⟨nnFirst_ok _ ha, by intro T h; cases h⟩
  · exact ⟨nnFirst_ok _ hb, by intro T h; cases h⟩

/-- pass 11: `icpWithB_recovered_if_alone` is not vacuous: a batch of two problems "register a non-empty cloud onto itself" with
the concrete aligner and kernel; each item is recovered alone with 0 passes (`X* = 1`), hence by every batched call -/
example (a b : Cloud ℝ) (ha : a ≠ []) (hb : b ≠ []) (cont : List (List ℝ) → Bool) (fuel : Nat) :
    ∀ p ∈ [((none : Option (SE3 ℝ)), a, a), ((none : Option (SE3 ℝ)), b, b)].zip (icpWithB idealAlign nnFirst cont fuel [((none : Option (SE3 ℝ)), a, a), ((none : Option (SE3 ℝ)), b, b)]),
      p.1.2.1.map (SE3Act p.2) = p.1.2.1.map (SE3Act SE3one) := by
  obtain ⟨m, _, h⟩ := icpWithB_recovered_if_alone idealAlign idealAlign_ok nnFirst cont fuel [((none : Option (SE3 ℝ)), a, a), ((none : Option (SE3 ℝ)), b, b)]
  have h1 : (SE3one : SE3 ℝ).q.normSq = 1 := by simp [SE3one, Quat.one, Quat.normSq]
  have hid : ∀ c : Cloud ℝ, c.map (SE3Act (SE3one : SE3 ℝ)) = c := by
    intro c; conv_rhs => rw [← List.map_id c]
    apply List.map_congr_left; intro s _; exact SE3Act_one s
  intro p hp
  have hmem : p.1 = ((none : Option (SE3 ℝ)), a, a) ∨ p.1 = ((none : Option (SE3 ℝ)), b, b) := by
    simp only [icpWithB, List.map_cons, List.map_nil] at hp
    have := List.of_mem_zip hp
    simpa using this.1
  have hnn : NNOk nnFirst p.1.2.2 := by
    rcases hmem with e | e <;> rw [e]
    · exact nnFirst_ok _ ha
    · exact nnFirst_ok _ hb
  refine h p hp hnn 0 SE3one h1 (Nat.zero_le _) ?_ ?_
  · rcases hmem with e | e <;> rw [e] <;> simp [icpIter, icpStart, hid]
  · rcases hmem with e | e <;> rw [e] <;> intro s hs <;> rw [SE3Act_one] <;> exact hs

end PP.C17
