"""C16 — IMU preintegration equals the documented recursion and is chunking-invariant.

Model: lean/Pose/Model/Imu.lean (integrate / predict / propagate_cov / forward with carried buffers / _check);
theorems: lean/Proofs/Props/C16.lean.

Correspondence streams (implementation vs the model executed in 192-bit arithmetic, `imu.hist` mode 0)
  frames  : one call, EVERY frame count F in 1..200, batch 1..4, float32/float64, with/without known rotation,
            gravity 0 / 9.81007, structured dt / gyro / acc (ladders, Taylor band of Exp, rotations beyond pi);
  chunks  : one module object fed a stream split into consecutive chunks (all compositions of F for small F,
            random chunkings above), reset=False/True, rank-1/2/3 inputs, explicit init_state, per-call covariances;
  shape   : `_check` rank lifting and the rank assert against the model's `checkShape` / `rankOk`;
  corpus  : a deterministic corner corpus (same for every seed) evaluated first: small F, all chunk shapes, extreme
            magnitudes, mixed-regime batches, strided / expanded / aliased arguments, every init_state kind;
  integrate: the dict returned by `integrate()` block by block (Dr, Dv, Dp, Dt, a) against the model's `integrate`;
  large   : batches of 2^14+1 / 2^16+1 items and streams of 2^k, 2^k+-1 frames: batch split bit for bit, single items,
            frame split (chunk invariance), the model on the first and the last item;
  steps   : every single rotation step rot_{k-1}^-1 rot_k against the exact Exp(w dt) at 64 eps, independent of k;
  modeorder: first call of fresh sizes under inference_mode / no_grad, then autograd (with backward) and plain calls;
  reuse   : ONE object serves several calls with every per-call argument varied (B, F, rank, rotation, covariances,
            init_state), the caller re-using one set of buffers in place; each call = the call on a fresh object.
Oracles on the real code (the property's own clauses)
  recursion : rot/vel/pos against the sequential recursion in C16's wording (gravity removed inside the acceleration,
              R = R0*dR, v = v0 + R0*dv, p = p0 + R0*dp + v0*t) evaluated in 192 bits (`imu.hist` mode 1) — NOT the formula
              of the docstring of forward/predict, which writes dR*R0 and puts the gravity outside (see Props/C16.lean §10);
  chunk     : chunked outputs == one-call outputs (rot, vel, pos; and the carried covariance);
  rank      : (H) == (1,1,H), (F,H) == (1,F,H) bit for bit;
  psd       : returned covariance symmetric and positive semidefinite;
  purity    : inputs (whole storage around views) and previously returned outputs are not modified by later calls;
  alias     : the caller overwriting its inputs / the returned tensors in place does not change later calls;
  items     : every item of a (mixed-regime) batch = the call on that item alone;
  attrs     : module parameters untouched; buffers untouched (reset=True) or = last returned frame (reset=False);
  reuse, types, nonfinite, raises: see the streams above.
"""
from __future__ import annotations

import math
import random
from concurrent.futures import ThreadPoolExecutor

import torch

from . import common
from .common import Ctx, to_wire

META = {
    "rule": "frames: one case for every F in 1..200 (quick: B, dtype, modes random per F; thorough: 2 per F); chunks: every "
            "composition of F for F<=5 + 12 sampled compositions of 6,7 (quick) / all for F<=8 (thorough) plus random chunkings of F up to 200; per case the data are "
            "drawn from ladders: dt in {1e-4..1} const/varying, |gyro*dt| in {0, Taylor band <= eps, small, moderate, up to 7 rad}, "
            "|acc| in {0..1e3}, gravity in {0, 9.81007}, initial state default/shared/per-item; non-trivial = some gyro or acc "
            "non-zero; distinct by (stream, dtype, B, rank, F, #chunks, gyro/acc/dt modes, known-rot, gravity, prop_cov, reset)",
    "trusted": ["torch.cumsum / cat / einsum / eye / diag_embed / sum semantics (external kernels, modelled as prefix sums etc.)",
                "module parameters (gravity, gyro_cov, acc_cov) are given as float32-representable numbers and the module is "
                "moved to the input dtype with .to(dtype) (torch module convention; a float32 module rejects float64 input)"],
    "assumptions": ["'the recursion' = the step-by-step form of what integrate+predict compute, in the wording of property C16; the "
                    "docstring of forward/predict differs in convention (R_j = dR*R_i, +g*dt terms outside, noise without 1/dt): "
                    "theorems doc_form_of_start_rotation / doc_order_differs / cov_eq_recursion state the relation",
                    "dt > 0 for the covariance clause (the noise term divides by dt; FrameOk); F >= 1 frames per call; "
                    "constructor guard reset or prop_cov",
                    "rank equivalence (H)/(F,H)/(B,F,H) is carried by the harness (bit-identical calls on the real code + shape stream), "
                    "the model's forwardItem is defined as validate-lift-call",
                    "chunk_invariant / cov theorems: initial rotation and every increment Exp(w dt) are unit quaternions "
                    "(exact for |w dt| > eps and for w dt = 0; see partial)"],
    "partial": ["chunk invariance of vel/pos for NON-unit increments (Taylor band 0 < |w dt| <= eps of so3 Exp) is proved as a BOUND, "
                "not an equality: exact up to an explicit defect, |dvel| <= K*(#chunks)*sum|dt||a|, |dpos| <= K*(#chunks)*(double sum), "
                "K = 3 eta + 3 eta^2, eta = (1+eps^6)^(frames) - 1, for any number of cuts (chunk_list_every_stream; one cut: "
                "chunk_two_every_stream; closed form K <= 12*N*eps^6 when 2*N*eps^6 <= 1: chunk_list_every_stream_closed); exact equality needs unit increments (chunk_invariant); rot, cov, Rij are exactly "
                "chunk-invariant without hypothesis (chunk_invariant_rot_cov)",
                "float round-off: theorems are over the reals; agreement of the float code with the exact model is measured "
                "at 64*eps*(frames+2)*scale (covariance: 8x that + 16*sqrt(eps) for the cancellation inside so3 Jr)"],
}

K_ALG = 64.0
TINY = {"float64": 2.2250738585072014e-308, "float32": 1.1754943508222875e-38, "float16": 6.103515625e-05,
        "bfloat16": 1.1754943508222875e-38}
# (30) every float dtype the integrator accepts after .to(dtype): machine epsilons (= the threshold so3 Exp uses)
EPSX = {**common.EPS, "float16": 2.0 ** -10, "bfloat16": 2.0 ** -7}
STD_G = 9.810070037841797      # float32(9.81007)
# (26) the sign of the gravity constant is a convention (z-up / z-down worlds), its size a choice of planet / units
GRAVITIES = [0.0, STD_G, STD_G, STD_G, STD_G, -STD_G, -STD_G, -STD_G, 1.62, -3.71, 274.0, -274.0, 1e4, -1e4, 1e-6, -1e-6, 10.0, -10.0]
DT_LADDER = [1e-4, 1e-3, 2e-3, 1e-2, 0.1, 0.5, 1.0]


def pp():
    import pypose
    return pypose


def tdt(name):
    return {"float64": torch.float64, "float32": torch.float32, "float16": torch.float16, "bfloat16": torch.bfloat16}[name]


def f32(x: float) -> float:
    return float(torch.tensor(x, dtype=torch.float32))


# ----------------------------------------------------------------------------- data generation

def unit_quat(r: random.Random):
    c = r.random()
    if c < 0.08:      # (20) exact ties |v| == |w| (quarter turn about an axis), both hemispheres
        h = math.sqrt(0.5)
        q = [0.0, 0.0, 0.0, h * r.choice([-1, 1])]
        q[r.randrange(3)] = h * r.choice([-1, 1])
        return q
    if c < 0.15:
        return [0.0, 0.0, 0.0, 1.0]
    if c < 0.3:
        th = r.choice([1e-9, 1e-3, math.pi - 1e-6, math.pi, 3.0])
        d = common.rand_dir(r, 3)
        q = [d[0] * math.sin(th / 2), d[1] * math.sin(th / 2), d[2] * math.sin(th / 2), math.cos(th / 2)]
    else:
        q = [r.gauss(0, 1) for _ in range(4)]
    n = math.sqrt(sum(x * x for x in q)) or 1.0
    q = [x / n for x in q]
    if r.random() < 0.5:
        q = [-x for x in q]
    return q


def gen_theta(r: random.Random, mode: str, eps: float) -> float:
    if mode == "zero":
        return 0.0
    if mode == "taylor":
        return r.choice([0.0, 1e-30, 1e-20, eps / 2, eps * (1 - 2 ** -10), eps, eps * (1 + 2 ** -10), 2 * eps])
    if mode == "small":
        return 10 ** r.uniform(-12, -3)
    if mode == "moderate":
        return 10 ** r.uniform(-3, 0)
    if mode == "large":
        return r.choice([1.0, 2.0, 3.0, math.pi - 1e-3, math.pi + 1e-3, 4.0, 2 * math.pi - 1e-3, 7.0, r.uniform(0.5, 7.0)])
    if mode in ("pi", "pi_exact"):   # spacing around the thresholds of SO3 Log (|w| ~ 0 at pi, |v| ~ 0 at 2 pi)
        base = r.choice([math.pi, math.pi, 2 * math.pi, 3 * math.pi])
        ds = [1e-3, 1e-4] if eps > 1e-10 else [1e-6, 1e-9, 1e-12]
        if mode == "pi_exact":
            ds = ds + [0.0, 0.0]
        return base * (1 + r.choice([-1, 1]) * r.choice(ds))
    if mode == "eps_tie":   # (38c) |w dt| EXACTLY eps, eps/2, 2 eps, 4 eps (axis aligned, power-of-two dt: no rounding anywhere)
        return r.choice([eps, eps, eps / 2, 2 * eps, 4 * eps])
    if mode == "near_id":   # (36) rotation per step nearly the identity: quaternion within 1e-8 .. 1e-5 of (0,0,0,1)
        return r.choice([3e-8, 1e-7, 1e-6, 1e-5, 4e-5])
    if mode == "quarter":   # (20) exact quarter / half / full turns per step (|v| = |w|, w = 0, v = 0 up to the last bit)
        return r.choice([0.5, 1.0, 1.0, 1.5, 2.0]) * math.pi
    if mode == "quarter_nopi":   # anisotropic gyro covariance: J C J^T depends on the sign Log picks at exactly a half turn
        return r.choice([0.5, 0.5, 1.5, 2.0]) * math.pi
    if mode == "huge":      # many turns per step: valid input ("arbitrary gyro")
        return r.choice([20.0, 50.0, 100.0, r.uniform(10.0, 100.0)])
    return gen_theta(r, r.choice(["zero", "taylor", "small", "moderate", "moderate", "large"]), eps)   # mix


def gen_accmag(r: random.Random, mode: str) -> float:
    if mode == "zero":
        return 0.0
    if mode == "unit":
        return r.uniform(0.1, 3.0)
    if mode == "grav":
        return 9.81 * r.uniform(0.9, 1.1)
    if mode == "big":
        return r.choice([30.0, 100.0, 1e3])
    if mode == "huge":
        return r.choice([1e5, 1e6])
    if mode == "tiny":
        return r.choice([1e-30, 1e-20, 1e-12])
    if mode == "near_grav":  # (36) |acc| within 1e-7 .. 1e-5 (relative) of standard gravity: a nearly stationary sensor
        return STD_G * (1 + r.choice([-1, 1]) * r.choice([1e-7, 1e-6, 1e-5]))
    return r.choice([0.0, 1e-3, 0.1, 1.0, 9.81, 9.81, 30.0, 100.0])   # mix


DT_EXTREME = [1e-5, 2.0, 10.0]
DT_SIGNED = [-1.0, -0.01, -1e-4, 0.0, 0.0, 0.01, 0.5]


def build_data(case) -> dict:
    """all tensors of a case, deterministically from case['data_seed'] / case['ctor_seed'] (python PRNG only)"""
    r = random.Random(case["data_seed"])
    dtn = case["dtype"]
    dtype, eps = tdt(dtn), EPSX[dtn]
    B, F = case["B"], sum(case["chunks"])
    dts, gy, ac, ro, gc, av = [], [], [], [], [], []
    dt_const = r.choice(DT_LADDER)
    items = case.get("item_modes")          # mixed-regime batch: one (gyro_mode, acc_mode) per item
    for b in range(B):
        gm, amode = (items[b % len(items)] if items else (case["gyro_mode"], case["acc_mode"]))
        if gm == "pi" and case["cov_mode"] in ("default", "float") and not any(case["call_cov"]):
            gm = "pi_exact"     # isotropic gyro covariance: J C J^T does not depend on the sign Log picks at exactly pi
        if gm == "quarter" and case["prop_cov"] and not (case["cov_mode"] in ("default", "float") and not any(case["call_cov"])):
            gm = "quarter_nopi"
        for f in range(F):
            m = case["dt_mode"]
            if m == "signed" and case["prop_cov"]:
                m = "vary"                  # the covariance divides by dt: dt <= 0 only without covariance propagation
            if case.get("dt_int"):
                m = "int"
            if m == "const":
                d = dt_const
            elif m == "ladder":
                d = r.choice(DT_LADDER)
            elif m == "extreme":
                d = r.choice(DT_EXTREME)
            elif m == "signed":
                d = r.choice(DT_SIGNED)
            elif m == "int":
                d = float(r.choice([1, 1, 2, 3]))
            elif m == "near_const":      # (36) time steps equal up to 1e-7 .. 1e-5 relative: between round-off and an allclose()
                d = dt_const * (1 + r.choice([-1, 1]) * r.choice([1e-7, 1e-6, 3e-6, 1e-5]))
            else:
                d = 10 ** r.uniform(-4, 0)
            dts.append(d)
            th = gen_theta(r, gm, eps)
            dirv = common.rand_dir(r, 3)
            if gm in ("quarter", "quarter_nopi", "eps_tie"):
                d = r.choice([0.5, 0.25, 1.0]) if d > 0 else d      # power-of-two dt: gyro*dt is the exact float multiple of pi
                dts[-1] = d
                if gm == "eps_tie" or r.random() < 0.6:
                    dirv = [0.0, 0.0, 0.0]
                    dirv[r.randrange(3)] = r.choice([-1.0, 1.0])
            gy.append([(th / d if d != 0 else th) * x for x in dirv])
            am = gen_accmag(r, amode)
            dira = common.rand_dir(r, 3)
            if amode == "near_grav":
                dira = [r.choice([0.0, 1e-7, -1e-6]), r.choice([0.0, 1e-7]), 1.0]
            ac.append([am * x for x in dira])
            ro.append(unit_quat(r))
            gb, ab = 10 ** r.uniform(-8, -4), 10 ** r.uniform(-5, -2)
            gc.append([gb * r.uniform(1, 10) for _ in range(3)])
            av.append([ab * r.uniform(1, 10) for _ in range(3)])
    D = {
        "dt": torch.tensor(dts, dtype=torch.float64).reshape(B, F, 1).to(dtype),
        "gyro": torch.tensor(gy, dtype=torch.float64).reshape(B, F, 3).to(dtype),
        "acc": torch.tensor(ac, dtype=torch.float64).reshape(B, F, 3).to(dtype),
        "rot": torch.tensor(ro, dtype=torch.float64).reshape(B, F, 4).to(dtype),
        "gcov": torch.tensor(gc, dtype=torch.float64).reshape(B, F, 3).to(dtype),
        "acov": torch.tensor(av, dtype=torch.float64).reshape(B, F, 3).to(dtype),
    }
    if case.get("layout") == "alias":       # the SAME tensor object is passed as gyro and as acc
        D["acc"] = D["gyro"]
    # constructor state (own PRNG so that several cases can share one constructor)
    rc = random.Random(case.get("ctor_seed", case["data_seed"] ^ 0x5A5A5A))
    pm, vm = case.get("pos_mag", 1.0), case.get("vel_mag", 1.0)
    nst = B if case["init_mode"] == "per_item" else 1
    D["p0"] = torch.tensor([[pm * x for x in common.rand_dir(rc, 3)] for _ in range(nst)], dtype=torch.float64).to(dtype)
    D["v0"] = torch.tensor([[vm * x for x in common.rand_dir(rc, 3)] for _ in range(nst)], dtype=torch.float64).to(dtype)
    D["R0"] = torch.tensor([unit_quat(rc) for _ in range(nst)], dtype=torch.float64).to(dtype)
    if case["init_mode"] == "default":
        D["p0"], D["v0"] = torch.zeros(1, 3, dtype=dtype), torch.zeros(1, 3, dtype=dtype)
        D["R0"] = torch.tensor([[0.0, 0.0, 0.0, 1.0]], dtype=dtype)
    # module covariances (float32-representable)
    cm = case["cov_mode"]
    if cm == "default":
        D["mg"], D["ma"] = [f32((3.2e-3) ** 2)] * 3, [f32((8e-2) ** 2)] * 3
    elif cm == "float":
        g_, a_ = f32(10 ** rc.uniform(-8, -3)), f32(10 ** rc.uniform(-5, -1))
        D["mg"], D["ma"] = [g_] * 3, [a_] * 3
    else:
        g_, a_ = 10 ** rc.uniform(-8, -4), 10 ** rc.uniform(-5, -2)
        D["mg"] = [f32(g_ * rc.uniform(1, 10)) for _ in range(3)]
        D["ma"] = [f32(a_ * rc.uniform(1, 10)) for _ in range(3)]
        if cm == "gfloat_avec":      # exactly one of the two given as a float, the other as a 3-vector
            D["mg"] = [D["mg"][0]] * 3
        elif cm == "gvec_afloat":
            D["ma"] = [D["ma"][0]] * 3
        elif cm == "gonly":          # only gyro_cov given, acc_cov left at its default
            D["ma"] = [f32((8e-2) ** 2)] * 3
        elif cm == "aonly":          # only acc_cov given (as a float), gyro_cov left at its default
            D["mg"] = [f32((3.2e-3) ** 2)] * 3
            D["ma"] = [D["ma"][0]] * 3
    # explicit init_state material, one per call
    D["xi"] = []
    for ci, kind in enumerate(case["explicit_init"]):
        if kind is None:
            D["xi"].append(None)
            continue
        e = {"pos": torch.tensor([[r.gauss(0, 2) for _ in range(3)] for _ in range(B)], dtype=torch.float64).to(dtype),
             "vel": torch.tensor([[r.gauss(0, 2) for _ in range(3)] for _ in range(B)], dtype=torch.float64).to(dtype),
             "rot": torch.tensor([unit_quat(r) for _ in range(B)], dtype=torch.float64).to(dtype)}
        if case.get("alias_init"):       # (31) the init_state tensors ARE views of this call's own inputs
            s0 = sum(case["chunks"][:ci])
            e["pos"], e["vel"], e["rot"] = D["acc"][:, s0].clone(), D["gyro"][:, s0].clone(), D["rot"][:, s0].clone()
        if "covnone" in kind:
            e["cov"] = None                       # the key is present with value None
        elif "cov" in kind:
            Ls = torch.tensor([[r.gauss(0, 1e-2) for _ in range(81)] for _ in range(B)], dtype=torch.float64).reshape(B, 9, 9)
            e["cov"] = (Ls @ Ls.mT).to(dtype)
        if "rij" in kind:
            e["Rij"] = torch.tensor([unit_quat(r) for _ in range(B)], dtype=torch.float64).to(dtype)
        if "rnone" in kind:
            e["Rij"] = None
        D["xi"].append(e)
    return D


def item_data(case, D, b):
    """(case, data) of item b alone (B = 1): what the batched call must reproduce item by item"""
    c = dict(case, B=1, itemwise=False, layout="contig")
    if c["init_mode"] == "per_item":
        c["init_mode"] = "shared"
    Db = {}
    for k in ("dt", "gyro", "acc", "rot", "gcov", "acov"):
        Db[k] = D[k][b:b + 1].clone()
    bi = b if D["p0"].shape[0] > 1 else 0
    for k in ("p0", "v0", "R0"):
        Db[k] = D[k][bi:bi + 1].clone()
    Db["mg"], Db["ma"] = D["mg"], D["ma"]
    Db["xi"] = [None if xi is None else {k: (None if v is None else v[b:b + 1].clone()) for k, v in xi.items()} for xi in D["xi"]]
    return c, Db


def user_imu_class():
    """a user subclass of the shipped integrator (module-level name, so that it can be pickled / deep-copied)"""
    g = globals()
    if "UserIMU" not in g:
        P = pp()

        class UserIMU(P.module.IMUPreintegrator):
            vfh16_calls = {"integrate": 0, "predict": 0, "propagate_cov": 0}      # the user's overrides must be the ones that run

            def integrate(self, *a, **k):
                UserIMU.vfh16_calls["integrate"] += 1
                return super().integrate(*a, **k)

            @classmethod
            def predict(cls_, init_state, integrate):
                UserIMU.vfh16_calls["predict"] += 1
                return super().predict(init_state, integrate)

            @classmethod
            def propagate_cov(cls_, *a, **k):
                UserIMU.vfh16_calls["propagate_cov"] += 1
                return super().propagate_cov(*a, **k)
        UserIMU.__qualname__ = "UserIMU"
        UserIMU.__module__ = __name__
        g["UserIMU"] = UserIMU
    return g["UserIMU"]


def make_module(case, D, keep=None):
    """the integrator of a case; `keep` collects the tensors handed to the constructor (the caller still owns them)"""
    P = pp()
    dtype = tdt(case["dtype"])
    if case.get("bare"):                 # (29) EVERY optional argument omitted (not passed, not None); no .to(): float32
        return P.module.IMUPreintegrator()
    g = case["gravity"]
    if case.get("gravity_int") and float(g).is_integer():
        g = int(g)
    kw = dict(gravity=g, reset=case["reset"], prop_cov=case["prop_cov"])
    cm = case["cov_mode"]
    if cm == "float":
        kw.update(gyro_cov=D["mg"][0], acc_cov=D["ma"][0])
    elif cm == "vec":
        kw.update(gyro_cov=torch.tensor(D["mg"]), acc_cov=torch.tensor(D["ma"]))
    elif cm == "gfloat_avec":
        kw.update(gyro_cov=D["mg"][0], acc_cov=torch.tensor(D["ma"]))
    elif cm == "gvec_afloat":
        kw.update(gyro_cov=torch.tensor(D["mg"]), acc_cov=D["ma"][0])
    elif cm == "gonly":
        kw.update(gyro_cov=torch.tensor(D["mg"]))
    elif cm == "aonly":
        kw.update(acc_cov=D["ma"][0])
    im = case["init_mode"]
    if im == "shared":
        kw.update(pos=D["p0"][0].clone(), rot=P.SO3(D["R0"][0].clone()), vel=D["v0"][0].clone())
    elif im == "per_item":
        kw.update(pos=D["p0"][:, None].clone(), rot=P.SO3(D["R0"][:, None].clone()), vel=D["v0"][:, None].clone())
    if keep is not None:     # pos / rot / vel are documented as values (the constructor clones them); the covariance tensors
        keep += [kw[k] for k in ("pos", "rot", "vel") if k in kw]      # are registered as given (observation, see notes)
    cls = P.module.IMUPreintegrator
    if case.get("subclass"):            # (21) a user class derived from the shipped one, overriding by delegation
        cls = user_imu_class()
    if case.get("ctor_positional") and im != "default":
        m = cls(kw.pop("pos"), kw.pop("rot"), kw.pop("vel"), kw.pop("gravity"), **kw)
    else:
        m = cls(**kw)
    return m.to(dtype)


SENTINEL = 7.25


def lay_out(x, layout, name, bufs, guards):
    """the tensor actually handed to forward: a fresh contiguous copy, a strided view into a larger buffer, an
    expanded tensor, or a view into a persistent caller-owned buffer (`bufs`); `guards` collects every storage
    that must be bit-identical after the call"""
    if bufs is not None:                                   # caller re-uses ONE buffer for all calls (stale reads)
        if name not in bufs:
            bufs[name] = torch.full((4, 320, x.shape[-1] + 1), SENTINEL, dtype=x.dtype)
        base = bufs[name]
        idx = (slice(0, x.shape[0]),) * 0
        if x.dim() == 3:
            v = base[:x.shape[0], :x.shape[1], :x.shape[2]]
        elif x.dim() == 2:
            v = base[0, :x.shape[0], :x.shape[1]]
        else:
            v = base[0, 0, :x.shape[0]]
        v.copy_(x)
        guards.append(base)
        return v
    if layout == "strided" and x.dim() >= 2:
        shp = list(x.shape)
        big = torch.full(shp[:-2] + [2 * shp[-2] + 1, shp[-1] + 2], SENTINEL, dtype=x.dtype)
        v = big[..., 1:2 * shp[-2] + 1:2, 1:shp[-1] + 1]
        v.copy_(x)
        guards.append(big)
        return v
    if layout == "expanded" and name == "dt" and x.dim() >= 2 and bool((x == x.flatten()[0]).all()):
        v = x.flatten()[:1].clone().reshape([1] * x.dim()).expand(*x.shape)
        guards.append(v)
        return v
    v = x.clone()
    guards.append(v)
    return v


def call_args(case, D, ci, s, e, rank=None, bufs=None):
    """positional/keyword arguments of call `ci` covering frames s:e, and the storages to guard"""
    P = pp()
    rank = case["rank"] if rank is None else rank
    layout = case.get("layout", "contig")
    guards = []

    def cut(x):
        if rank == 3:
            return x[:, s:e]
        if rank == 2:
            return x[0, s:e]
        return x[0, s]
    dt_ = lay_out(cut(D["dt"]), layout, "dt", bufs, guards)
    if case.get("dt_int"):               # (30) integer time steps (legal without covariance propagation): values are whole numbers
        dt_ = dt_.to(torch.int32)
        guards.append(dt_)
    gy_ = lay_out(cut(D["gyro"]), layout, "gyro", bufs, guards)
    ac_ = gy_ if layout == "alias" else lay_out(cut(D["acc"]), layout, "acc", bufs, guards)
    args = [dt_, gy_, ac_]
    kw = {}
    if case["known_rot"][ci]:
        kw["rot"] = P.SO3(lay_out(cut(D["rot"]), layout, "rot", bufs, guards))
    cc = case["call_cov"][ci]           # False | True (both) | "g" | "a" (exactly one) | "b1" (both, shape (B,1,3))
    if cc in (True, "g"):
        kw["gyro_cov"] = lay_out(D["gcov"][:, s:e], layout, "gcov", bufs, guards)
    if cc in (True, "a"):
        kw["acc_cov"] = lay_out(D["acov"][:, s:e], layout, "acov", bufs, guards)
    if cc == "b1":
        kw["gyro_cov"] = lay_out(D["gcov"][:, s:s + 1], "contig", "gcov", None, guards)
        kw["acc_cov"] = lay_out(D["acov"][:, s:s + 1], "contig", "acov", None, guards)
    xi = D["xi"][ci]
    if xi is not None:
        st = {"pos": xi["pos"][:, None].clone(), "vel": xi["vel"][:, None].clone(), "rot": P.SO3(xi["rot"][:, None].clone())}
        if case.get("alias_init") and rank == 3 and bufs is None:
            st = {"pos": ac_[:, :1], "vel": gy_[:, :1], "rot": P.SO3(raw_storage(kw["rot"])[:, :1]) if "rot" in kw else st["rot"]}
        elif case["B"] == 1 and case.get("init_flat"):      # documented for one item: plain (3,), (4,) tensors
            st = {"pos": xi["pos"][0].clone(), "vel": xi["vel"][0].clone(), "rot": P.SO3(xi["rot"][0].clone())}
        if "cov" in xi:
            st["cov"] = None if xi["cov"] is None else xi["cov"].clone()
        if "Rij" in xi:
            st["Rij"] = None if xi["Rij"] is None else P.SO3(xi["Rij"][:, None].clone())
        guards += [v for v in st.values() if v is not None]
        kw["init_state"] = st
    return args, kw, guards


def plain(t):
    return torch.Tensor.as_subclass(t.detach(), torch.Tensor).clone()


def raw_storage(t):
    """the tensor's own storage as a plain tensor (shares memory)"""
    return torch.Tensor.as_subclass(t.detach(), torch.Tensor)


class Misbehaviour(Exception):
    """the implementation did something a caller can observe and the property forbids (message = failure text)"""


def module_attrs(m):
    return {k: (None if getattr(m, k) is None else plain(getattr(m, k))) for k in ("gravity", "gyro_cov", "acc_cov", "pos", "rot", "vel", "cov", "Rij")}


def check_attrs(m, before, o, reset, prop_cov):
    """public attributes after a call: parameters untouched; reset=True: buffers untouched; reset=False: buffers = last frame"""
    now = module_attrs(m)
    for k in ("gravity", "gyro_cov", "acc_cov"):
        if now[k].shape != before[k].shape or not torch.equal(now[k], before[k]):
            raise Misbehaviour(f"attrs: a call changed the module parameter '{k}'")
    if m.reset != reset or m.prop_cov != prop_cov:
        raise Misbehaviour("attrs: a call changed the flags reset / prop_cov")
    if reset:
        for k in ("pos", "rot", "vel", "cov"):
            if now[k].shape != before[k].shape or not torch.equal(now[k], before[k]):
                raise Misbehaviour(f"attrs: reset=True but the buffer '{k}' changed in a call")
        if now["Rij"] is not None and before["Rij"] is None:
            raise Misbehaviour("attrs: reset=True but the buffer 'Rij' was set by a call")
    else:
        for k in ("pos", "rot", "vel"):
            want = plain(o[k])[..., -1:, :]
            if now[k].shape != want.shape or not torch.equal(now[k], want):
                raise Misbehaviour(f"attrs: reset=False but the buffer '{k}' is not the last returned frame")
        if o.get("cov") is not None and (now["cov"].shape != o["cov"].shape or not torch.equal(now["cov"], plain(o["cov"]))):
            raise Misbehaviour("attrs: reset=False but the buffer 'cov' is not the returned covariance")


def record(o):
    """float64 copies of what a call returned; a NaN / inf in a result for finite valid inputs is a failure by itself
    (tested before any comparison or model call: NaN compares false with everything)"""
    for key in ("rot", "vel", "pos", "cov"):
        if o.get(key) is not None and not bool(torch.isfinite(raw_storage(o[key])).all()):
            bad = raw_storage(o[key])
            n_bad = int((~torch.isfinite(bad)).sum())
            raise Misbehaviour(f"nonfinite: forward returned {n_bad} NaN/inf entries in '{key}' (shape {tuple(bad.shape)}) for finite valid inputs")
    return {"raw": o, "rot": plain(o["rot"]).double(), "vel": plain(o["vel"]).double(), "pos": plain(o["pos"]).double(),
            "cov": None if o.get("cov") is None else plain(o["cov"]).double(),
            "types": (type(o["rot"]).__name__, str(o["rot"].dtype), tuple(o["rot"].shape), tuple(o["vel"].shape),
                      tuple(o["pos"].shape), None if o.get("cov") is None else tuple(o["cov"].shape))}


class Inconclusive(Exception):
    """a request that must raise did not raise: nothing can be concluded from this case (counted, skipped)"""


ERR_KINDS_COV = ["gcov_float", "acov_float", "cov_dtype", "cov_shape", "cov_last2", "init_cov_shape", "init_rij_plain"]
ERR_KINDS_ANY = ["rank", "acc_len", "init_missing"]


def corrupt(kind, case, args, kw):
    """turn a legal call into one that must raise (each kind is checked to raise on the unchanged tree);
    the late kinds raise inside / after the covariance stage, when integrate() and predict() have already run"""
    P = pp()
    dtype = tdt(case["dtype"])
    other = torch.float32 if dtype == torch.float64 else torch.float64
    B = case["B"]
    n = args[0].shape[-2] if args[0].dim() >= 2 else 1
    kw = dict(kw)
    args = list(args)
    zero_init = {"pos": torch.zeros(3, dtype=dtype), "rot": P.identity_SO3(dtype=dtype), "vel": torch.zeros(3, dtype=dtype)}
    if kind == "gcov_float":
        kw["gyro_cov"] = 1e-4
    elif kind == "acov_float":
        kw["acc_cov"] = 1e-4
    elif kind == "cov_dtype":
        kw["gyro_cov"] = torch.full((B, n, 3), 1e-4, dtype=other)
    elif kind == "cov_shape":
        kw["acc_cov"] = torch.full((B, n + 1, 3), 1e-4, dtype=dtype)
    elif kind == "cov_last2":
        kw["gyro_cov"] = torch.full((B, n, 2), 1e-4, dtype=dtype)
    elif kind == "init_cov_shape":
        kw["init_state"] = {**zero_init, "cov": torch.zeros(B, 8, 8, dtype=dtype)}
    elif kind == "init_rij_plain":
        kw["init_state"] = {**zero_init, "Rij": torch.tensor([0.0, 0.0, 0.0, 1.0], dtype=dtype)}
    elif kind == "rank":
        args[1] = args[1][0]
    elif kind == "acc_len":
        a = args[2]
        args[2] = torch.cat([a, a[..., -1:, :]], dim=-2) if a.dim() >= 2 else torch.stack([a, a])
        if a.dim() < 2:
            args[1] = args[1]          # ranks now differ: assertion
    elif kind == "init_missing":
        kw["init_state"] = {"pos": zero_init["pos"], "rot": zero_init["rot"]}
    else:
        raise ValueError(kind)
    return args, kw


def storage_span(t):
    st = raw_storage(t).untyped_storage()
    return st.data_ptr(), st.data_ptr() + st.nbytes()


def overlaps(a, b):
    (a0, a1), (b0, b1) = storage_span(a), storage_span(b)
    return a0 < b1 and b0 < a1 and a1 > a0 and b1 > b0


def check_owns(m, o, guards, where):
    """(15) results own their memory: no internal overlap, no storage shared between the returned tensors, with an
    argument, or with the module's buffers"""
    outs = {k: o[k] for k in ("rot", "vel", "pos", "cov") if o.get(k) is not None}
    for k, t in outs.items():
        r = raw_storage(t)
        if any(st == 0 and sz > 1 for st, sz in zip(r.stride(), r.shape)) or not r.is_contiguous() and r.numel() > r.untyped_storage().nbytes() // r.element_size():
            raise Misbehaviour(f"owns: returned '{k}' overlaps itself (stride 0 / expanded) {where}")
    keys = list(outs)
    for i, a in enumerate(keys):
        for b in keys[i + 1:]:
            if overlaps(outs[a], outs[b]):
                raise Misbehaviour(f"owns: returned '{a}' and '{b}' share storage {where}")
    for k, t in outs.items():
        for g in guards:
            if overlaps(t, g):
                raise Misbehaviour(f"owns: returned '{k}' shares storage with an argument of the call {where}")
        for bn in ("pos", "rot", "vel", "cov", "Rij", "gravity", "gyro_cov", "acc_cov"):
            buf = getattr(m, bn, None)
            if buf is not None and overlaps(t, buf):
                raise Misbehaviour(f"owns: returned '{k}' shares storage with the module buffer '{bn}' {where}")


def module_keys(m):
    return (tuple(sorted(m._buffers.keys())), tuple(sorted(k for k in m.__dict__.keys())))


def grad_context(mode):
    import contextlib
    if mode == "no_grad":
        return torch.no_grad()
    if mode == "inference":
        return torch.inference_mode()
    return contextlib.nullcontext()


def do_call(m, case, args, kw, grad_mode=None):
    if grad_mode == "requires_grad":
        P = pp()
        args = [a.clone().requires_grad_() for a in args]
        kw = dict(kw)
        if kw.get("rot") is not None:
            kw["rot"] = P.SO3(raw_storage(kw["rot"]).clone().requires_grad_())
    if case.get("positional"):
        args = list(args) + [kw.get("rot"), kw.get("gyro_cov"), kw.get("acc_cov"), kw.get("init_state")]
        kw = {}
    with grad_context(grad_mode):
        return m(*args, **kw)


def failing_call(m, case, D, ci, s, n, rank, kind):
    """(11) a request that raises between successful calls: the object must be exactly as before"""
    nc = len(case["chunks"])
    cj = min(ci, nc - 1)
    if ci >= nc:
        s = s - n
    args, kw, _ = call_args(case, D, cj, s, s + n, rank)
    args, kw = corrupt(kind, case, args, kw)
    before, keys0 = module_attrs(m), module_keys(m)
    try:
        do_call(m, case, args, kw)
    except Exception:
        after = module_attrs(m)
        for k in before:
            x, y = before[k], after[k]
            if (x is None) != (y is None) or (x is not None and (x.shape != y.shape or x.dtype != y.dtype or not torch.equal(x, y))):
                raise Misbehaviour(f"atomic: a call that raised ({kind}, before call {ci} of chunks {case['chunks'][:12]}) changed the "
                                   f"carried '{k}': the failed chunk is counted although the caller never got a result")
        if module_keys(m) != keys0:
            raise Misbehaviour(f"atomic: a call that raised ({kind}) left new attributes / buffers on the object")
        return
    raise Inconclusive(kind)


def run_impl(case, D, chunks=None, rank=None, disturb=False, grad_mode=None, hook=None):
    """the real module fed the chunks; returns list of per-call dicts of float64 tensors (+ raw for bit checks).
    disturb=True: after every call the caller overwrites, in place, every tensor it passed in (constructor included) and
    every tensor it got back — later calls must not notice.  case['fail_at'] = {call index: kind}: a request that raises
    is made before that call (index = number of calls: after the last one).  hook(m, ci) runs before call ci."""
    own = chunks is None
    chunks = case["chunks"] if chunks is None else chunks
    ctor = []
    m = make_module(case, D, keep=ctor)
    for bn in ("pos", "rot", "vel"):
        for t in ctor:
            if overlaps(getattr(m, bn), t):
                raise Misbehaviour(f"owns: the module buffer '{bn}' shares storage with a constructor argument")
    if disturb:
        for t in ctor:
            raw_storage(t).fill_(-77.0)
    fail_at = {int(k): v for k, v in (case.get("fail_at") or {}).items()} if own else {}
    outs, s = [], 0
    prev_raw = []
    for ci, n in enumerate(chunks):
        if hook is not None:
            hook(m, ci)
        if ci in fail_at:
            failing_call(m, case, D, ci, s, n, rank, fail_at[ci])
        args, kw, guards = call_args(case, D, ci if len(chunks) == len(case["chunks"]) else 0, s, s + n, rank)
        snap = [plain(x) for x in guards]
        before = module_attrs(m)
        if case.get("subclass"):
            cnt0 = dict(type(m).vfh16_calls)
        o = do_call(m, case, args, kw, grad_mode)
        if case.get("subclass"):
            want = {"integrate": 1, "predict": 1, "propagate_cov": 1 if case["prop_cov"] else 0}
            got = {k: type(m).vfh16_calls[k] - cnt0[k] for k in want}
            if got != want:
                raise Misbehaviour(f"subclass: forward on a user subclass ran the user's overrides {got} times, expected {want} "
                                   f"(dispatch by class identity instead of the object's own methods)")
        if not isinstance(o, dict) or any(k not in o for k in ("rot", "vel", "pos")):
            raise Misbehaviour("types: forward did not return a dict with rot / vel / pos")
        for a, b in zip(guards, snap):
            if not torch.equal(plain(a), b):
                raise Misbehaviour("purity: forward modified an argument (or the storage around a view it was given)")
        for po, ps in prev_raw:
            for key in ps:
                if not torch.equal(plain(po[key]), ps[key]):
                    raise Misbehaviour(f"purity: a later call modified the previously returned '{key}'")
        rec = record(o)                     # raises on a non-finite result, before anything is compared
        check_attrs(m, before, o, case["reset"], case["prop_cov"])
        check_owns(m, o, guards, f"(call {ci})")
        outs.append(rec)
        if disturb:
            for x in guards:
                if x.is_contiguous() or x._base is None:
                    try:
                        raw_storage(x).fill_(-55.5)
                    except RuntimeError:
                        pass                      # expanded tensors cannot be written
            for key in ("rot", "vel", "pos", "cov"):
                if o.get(key) is not None:
                    raw_storage(o[key]).fill_(123.0)
        else:
            prev_raw.append((o, {key: plain(o[key]) for key in ("rot", "vel", "pos")}))
        s += n
    if len(chunks) in fail_at:
        failing_call(m, case, D, len(chunks), s, chunks[-1], rank, fail_at[len(chunks)])
        # the state must still be the last frame of the last successful call
        check_attrs(m, module_attrs(m), outs[-1]["raw"], case["reset"], case["prop_cov"]) if not disturb and not case["reset"] else None
    return outs


# ----------------------------------------------------------------------------- model side

def wl(t) -> str:
    return " ".join(to_wire(x) for x in t.double().flatten().tolist())


def model_line_resolved(case, D, b, mode, left):
    """`imu.hist`: arguments already resolved by the harness (used for the specification mode 1)"""
    eps = EPSX[case["dtype"]]
    nst = D["p0"].shape[0]
    bi = b if nst > 1 else 0
    toks = ["imu.hist", str(mode), to_wire(eps), to_wire(case["gravity"]), "1" if case["reset"] else "0",
            "1" if case["prop_cov"] else "0", "1" if left else "0", wl(D["p0"][bi]), wl(D["R0"][bi]), wl(D["v0"][bi]),
            str(len(case["chunks"]))]
    mg, ma = " ".join(to_wire(x) for x in D["mg"]), " ".join(to_wire(x) for x in D["ma"])
    s = 0
    for ci, n in enumerate(case["chunks"]):
        known = case["known_rot"][ci]
        xi = D["xi"][ci]
        toks += [str(n), "1" if known else "0", "0" if xi is None else "1"]
        if xi is not None:
            toks += [wl(xi["pos"][b]), wl(xi["rot"][b]), wl(xi["vel"][b])]
            if xi.get("cov") is not None:
                toks += ["1", wl(xi["cov"][b])]
            else:
                toks.append("0")
            if "Rij" not in xi:
                toks.append("0")
            elif xi["Rij"] is None:
                toks.append("1")
            else:
                toks += ["2", wl(xi["Rij"][b])]
        for f in range(s, s + n):
            toks += [wl(D["dt"][b, f]), wl(D["gyro"][b, f]), wl(D["acc"][b, f])]
            if known:
                toks.append(wl(D["rot"][b, f]))
            cc = case["call_cov"][ci]
            fg = s if cc == "b1" else f
            toks.append(wl(D["gcov"][b, fg]) if cc in (True, "g", "b1") else mg)
            toks.append(wl(D["acov"][b, fg]) if cc in (True, "a", "b1") else ma)
        s += n
    return " ".join(toks)


def model_line(case, D, b, mode, left):
    """mode 0 (model of the code): `imu.hist2` — the RAW arguments of every call (optional covariances with their shapes,
    the init_state dict key by key); defaults, broadcasting and dict resolution happen in the Lean model (`forwardArgs`).
    mode 1 (documented recursions): `imu.hist` with resolved arguments."""
    if mode != 0:
        return model_line_resolved(case, D, b, mode, left)
    eps = EPSX[case["dtype"]]
    nst = D["p0"].shape[0]
    bi = b if nst > 1 else 0
    toks = ["imu.hist2", to_wire(eps), to_wire(case["gravity"]), "1" if case["reset"] else "0",
            "1" if case["prop_cov"] else "0", "1" if left else "0", wl(D["p0"][bi]), wl(D["R0"][bi]), wl(D["v0"][bi]),
            " ".join(to_wire(x) for x in D["mg"]), " ".join(to_wire(x) for x in D["ma"]), str(len(case["chunks"]))]
    s = 0
    for ci, n in enumerate(case["chunks"]):
        known = case["known_rot"][ci]
        xi = D["xi"][ci]
        toks += [str(n), "1" if known else "0", "0" if xi is None else "1"]
        if xi is not None:
            toks += ["1", wl(xi["pos"][b]), "1", wl(xi["rot"][b]), "1", wl(xi["vel"][b])]
            if "cov" not in xi:
                toks.append("0")
            elif xi["cov"] is None:
                toks.append("1")
            else:
                toks += ["2", wl(xi["cov"][b])]
            if "Rij" not in xi:
                toks.append("0")
            elif xi["Rij"] is None:
                toks.append("1")
            else:
                toks += ["2", wl(xi["Rij"][b])]
        cc = case["call_cov"][ci]
        for name, given in (("gcov", cc in (True, "g", "b1")), ("acov", cc in (True, "a", "b1"))):
            if not given:
                toks.append("0")
            elif cc == "b1":
                toks += ["1", wl(D[name][b, s])]
            else:
                toks += ["2"] + [wl(D[name][b, f]) for f in range(s, s + n)]
        for f in range(s, s + n):
            toks += [wl(D["dt"][b, f]), wl(D["gyro"][b, f]), wl(D["acc"][b, f])]
            if known:
                toks.append(wl(D["rot"][b, f]))
        s += n
    return " ".join(toks)


def parse_floats(rep: str):
    st, toks = common.parse_reply(rep)
    if st != "ok":
        raise common.InfraError(f"model error reply: {rep[:200]}")
    out = []
    for t in toks:
        m, e = t.split(":")
        out.append(math.ldexp(int(m), int(e)))
    return out


def split_reply(case, vals):
    """-> per call (rot (n,4), vel (n,3), pos (n,3), cov (9,9)|None)"""
    res, i = [], 0
    for n in case["chunks"]:
        blk = torch.tensor(vals[i:i + 10 * n], dtype=torch.float64).reshape(n, 10)
        i += 10 * n
        cov = None
        if case["prop_cov"]:
            cov = torch.tensor(vals[i:i + 81], dtype=torch.float64).reshape(9, 9)
            i += 81
        res.append((blk[:, 0:4], blk[:, 4:7], blk[:, 7:10], cov))
    if i != len(vals):
        raise common.InfraError("model reply length mismatch")
    return res


def par_driver(ctx: Ctx, lines):
    """run many (long) lines through the driver on several processes, order kept"""
    if not lines:
        return []
    nw = min(8, len(lines))
    # balance by length
    order = sorted(range(len(lines)), key=lambda i: -len(lines[i]))
    groups = [[] for _ in range(nw)]
    load = [0] * nw
    for i in order:
        j = load.index(min(load))
        groups[j].append(i)
        load[j] += len(lines[i])
    res = [None] * len(lines)

    def work(g):
        for k in range(0, len(g), 300):
            part = g[k:k + 300]
            reps = ctx.driver.run([lines[i] for i in part])
            for i, rep in zip(part, reps):
                res[i] = rep
    with ThreadPoolExecutor(nw) as ex:
        list(ex.map(work, [g for g in groups if g]))
    return res


# ----------------------------------------------------------------------------- comparison

def qdist(a, b):
    return torch.minimum((a - b).norm(dim=-1), (a + b).norm(dim=-1))


class Scale:
    """running magnitudes along one item's stream (for the tolerance: 64*eps*(k+2)*scale)"""

    def __init__(self, g):
        self.g = abs(g)
        self.k = 0
        self.sv = 0.0
        self.sp = 0.0
        self.th = 0.0

    def start(self, p0, v0, carried):
        if not carried:
            self.k, self.th = 0, 0.0
            self.sv, self.sp = float(v0.norm()), float(p0.norm())
        else:
            self.sv, self.sp = max(self.sv, float(v0.norm())), max(self.sp, float(p0.norm()))

    def step(self, dt, gyro, acc):
        dt = abs(dt)
        am = float(acc.norm()) + self.g
        self.sp += self.sv * dt + 0.5 * am * dt * dt
        self.sv += am * dt
        self.th = max(self.th, float(gyro.norm()) * dt)
        self.k += 1
        return self.k, self.sv, self.sp, self.th


def tolerances(case, D, b, starts):
    """per call lists of (tol_rot, tol_vel, tol_pos) for item b; `starts[ci]` = (p0, v0) the call starts from (model)"""
    eps = EPSX[case["dtype"]]
    sc = Scale(case["gravity"])
    out, s = [], 0
    for ci, n in enumerate(case["chunks"]):
        carried = ci > 0 and not case["reset"] and D["xi"][ci] is None
        sc.start(starts[ci][0], starts[ci][1], carried)
        tr, tv, tp = [], [], []
        for f in range(s, s + n):
            k, sv, sp, th = sc.step(float(D["dt"][b, f, 0]), D["gyro"][b, f].double(), D["acc"][b, f].double())
            c = K_ALG * eps * (k + 2) * (1 + th)
            floor = (k + 2) * TINY[case["dtype"]]        # underflow floor of the dtype (results below the normal range)
            tr.append(c)
            tv.append(c * sv + floor)
            tp.append(c * sp + floor)
        out.append((torch.tensor(tr, dtype=torch.float64), torch.tensor(tv, dtype=torch.float64),
                    torch.tensor(tp, dtype=torch.float64)))
        s += n
    return out


def cov_tol(case, nframes):
    return 8 * K_ALG * EPSX[case["dtype"]] * (nframes + 2)


def cov_err(got, want):
    """max over entries of |got-want| / sqrt(d_i d_j), d = diagonal of `want` (floored)"""
    d = want.diagonal().clamp_min(0)
    dm = float(d.max()) if d.numel() else 0.0
    d = d.clamp_min(dm * 1e-30 + 1e-300)
    s = torch.sqrt(d[:, None] * d[None, :])
    return float(((got - want).abs() / s).max())


def cmp_streams(case, D, b, impl_calls, model_calls, starts, what):
    """compare item b of the implementation's calls with a model/spec reply; -> list of problem strings"""
    tols = tolerances(case, D, b, starts)
    probs = []
    tot = 0
    for ci, n in enumerate(case["chunks"]):
        ir = impl_calls[ci]
        mr, mv, mp, mc = model_calls[ci]
        tr, tv, tp = tols[ci]
        tot += n
        er = qdist(ir["rot"][b], mr)
        ev = (ir["vel"][b] - mv).norm(dim=-1)
        ep = (ir["pos"][b] - mp).norm(dim=-1)
        for name, e, t in (("rot", er, tr), ("vel", ev, tv), ("pos", ep, tp)):
            bad = ~(e <= t)
            if bool(bad.any()):
                j = int(bad.nonzero()[0])
                probs.append((name, f"{what}: call {ci} item {b} frame {j}: |d{name}| = {float(e[j]):.3e} > {float(t[j]):.3e}"))
        if mc is not None:
            if ir["cov"] is None:
                probs.append(("cov", f"{what}: call {ci}: no covariance returned"))
            else:
                ce = cov_err(ir["cov"][b], mc)
                # so3 Jr evaluates (1-cos t)/t^2 with cancellation (C05's allowance; error <= sqrt(eps), amplified by the
                # anisotropy sqrt(max/min) <= 3.2 of the measurement covariances in this metric): 16*sqrt(eps) on top of the algebraic part
                ct = 8 * float(tr.max()) + 16 * math.sqrt(EPSX[case['dtype']])
                if not ce <= ct:
                    probs.append(("cov", f"{what}: call {ci} item {b}: covariance relative error {ce:.3e} > {ct:.3e}"))
        elif ir["cov"] is not None:
            probs.append(("cov", f"{what}: call {ci}: covariance returned although prop_cov=False"))
    return probs


def starts_from_model(case, D, b, model_calls):
    """(p0, v0) each call starts from, according to the model's own outputs"""
    nst = D["p0"].shape[0]
    bi = b if nst > 1 else 0
    p, v = D["p0"][bi].double(), D["v0"][bi].double()
    res = []
    for ci in range(len(case["chunks"])):
        xi = D["xi"][ci]
        if xi is not None:
            res.append((xi["pos"][b].double(), xi["vel"][b].double()))
        elif case["reset"] or ci == 0:
            res.append((D["p0"][bi].double(), D["v0"][bi].double()))
        else:
            res.append((p, v))
        if not case["reset"]:
            p, v = model_calls[ci][2][-1], model_calls[ci][1][-1]
    return res


# ----------------------------------------------------------------------------- oracles on the real code

def strip(case):
    return {k: v for k, v in case.items() if not k.startswith("_")}


def oracle_psd(ctx, case, impl_calls):
    ok = True
    tot = 0
    for ci, rec in enumerate(impl_calls):
        tot += case["chunks"][ci]
        C = rec["cov"]
        if C is None:
            continue
        for b in range(C.shape[0]):
            c = C[b]
            d = c.diagonal()
            if bool((d < 0).any()):
                ctx.fail({**strip(case), "oracle": "psd"}, f"psd: negative diagonal entry {float(d.min()):.3e} (call {ci}, item {b})")
                ok = False
                continue
            dm = float(d.max())
            dd = d.clamp_min(dm * 1e-30 + 1e-300)
            s = torch.sqrt(dd[:, None] * dd[None, :])
            asym = float(((c - c.mT).abs() / s).max())
            t = cov_tol(case, tot)
            if not asym <= t:
                ctx.fail({**strip(case), "oracle": "psd"}, f"psd: covariance not symmetric, relative asymmetry {asym:.3e} > {t:.3e} (call {ci}, item {b})")
                ok = False
            n = (c + c.mT) / 2 / s
            ev = float(torch.linalg.eigvalsh(n).min())
            if not ev >= -t * 9:
                ctx.fail({**strip(case), "oracle": "psd"}, f"psd: covariance not positive semidefinite, scaled min eigenvalue {ev:.3e} (call {ci}, item {b})")
                ok = False
    return ok


def oracle_chunk(ctx, case, D, impl_calls):
    """chunked == one call (only when no explicit init_state, reset=False, rot known for all or none)"""
    if case["reset"] or any(x is not None for x in case["explicit_init"]) or len(case["chunks"]) < 2:
        return True
    if len(set(case["known_rot"])) != 1 or any(case["call_cov"]):
        return True
    F = sum(case["chunks"])
    rank = 3 if case["rank"] == 1 else case["rank"]
    try:
        one = run_impl(case, D, chunks=[F], rank=rank)[0]
    except (Inconclusive, Misbehaviour):
        raise
    except Exception as e:
        ctx.fail({**strip(case), "oracle": "chunk"}, f"raises: one-call run raised {type(e).__name__}: {str(e)[:160]}")
        return False
    ok = True
    B = case["B"]
    cat = {k: torch.cat([r[k] for r in impl_calls], dim=1) for k in ("rot", "vel", "pos")}
    for b in range(B):
        starts = [(D["p0"][b if D["p0"].shape[0] > 1 else 0].double(), D["v0"][b if D["v0"].shape[0] > 1 else 0].double())]
        c1 = dict(case, chunks=[F], known_rot=case["known_rot"][:1], call_cov=[False], explicit_init=[None])
        D1 = dict(D, xi=[None])
        tr, tv, tp = tolerances(c1, D1, b, starts)[0]
        for name, e, t in (("rot", qdist(cat["rot"][b], one["rot"][b]), tr), ("vel", (cat["vel"][b] - one["vel"][b]).norm(dim=-1), tv),
                           ("pos", (cat["pos"][b] - one["pos"][b]).norm(dim=-1), tp)):
            bad = ~(e <= 2 * t)
            if bool(bad.any()):
                j = int(bad.nonzero()[0])
                ctx.fail({**strip(case), "oracle": "chunk"},
                         f"chunk: chunks {case['chunks'][:12]} vs one call differ in '{name}' at frame {j} item {b}: {float(e[j]):.3e} > {2 * float(t[j]):.3e}")
                ok = False
                break
    if case["prop_cov"] and one["cov"] is not None and impl_calls[-1]["cov"] is not None:
        for b in range(B):
            ce = cov_err(impl_calls[-1]["cov"][b], one["cov"][b])
            ct = 4 * cov_tol(case, F)
            if not ce <= ct:
                ctx.fail({**strip(case), "oracle": "chunk-cov"},
                         f"chunk-cov: covariance after chunks {case['chunks'][:12]} differs from the one-call covariance, relative {ce:.3e} > {ct:.3e} (item {b})")
                ok = False
                break
    return ok


def oracle_rank(ctx, case, D, impl_calls):
    """rank-1 / rank-2 inputs give bit-identical results to the (1,1,H) / (1,F,H) inputs"""
    if case["rank"] == 3:
        return True
    try:
        ref = run_impl(case, D, rank=3)
    except (Inconclusive, Misbehaviour):
        raise
    except Exception as e:
        ctx.fail({**strip(case), "oracle": "rank"}, f"raises: rank-3 run raised {type(e).__name__}: {str(e)[:160]}")
        return False
    for ci, (a, r) in enumerate(zip(impl_calls, ref)):
        for key in ("rot", "vel", "pos", "cov"):
            x, y = a[key], r[key]
            if (x is None) != (y is None) or (x is not None and (x.shape != y.shape or not torch.equal(x, y))):
                ctx.fail({**strip(case), "oracle": "rank"},
                         f"rank: rank-{case['rank']} input and its (B,F,H) form give different '{key}' (call {ci})")
                return False
    return True


def check_types(ctx, case, impl_calls):
    B = case["B"]
    for ci, (rec, n) in enumerate(zip(impl_calls, case["chunks"])):
        tn, dn, sr, sv, sp, sc = rec["types"]
        want = ("LieTensor", "torch." + case["dtype"], (B, n, 4), (B, n, 3), (B, n, 3), (B, 9, 9) if case["prop_cov"] else None)
        if (tn, dn, sr, sv, sp, sc) != want:
            ctx.fail({**strip(case), "oracle": "types"}, f"types: call {ci} returned {rec['types']}, documented {want}")
            return False
        for key in ("rot", "vel", "pos", "cov"):
            if rec[key] is not None and not bool(torch.isfinite(rec[key]).all()):
                ctx.fail({**strip(case), "oracle": "nonfinite"}, f"nonfinite: call {ci} returned NaN/inf in '{key}' for finite inputs")
                return False
    return True


def same_calls(a_calls, b_calls, keys=("rot", "vel", "pos", "cov")):
    """first difference (bit for bit) between two runs, or None"""
    for ci, (a, r) in enumerate(zip(a_calls, b_calls)):
        for key in keys:
            x, y = a[key], r[key]
            if (x is None) != (y is None) or (x is not None and (x.shape != y.shape or not torch.equal(x, y))):
                d = "" if x is None or y is None or x.shape != y.shape else f" (max |diff| {float((x - y).abs().max()):.3e})"
                return f"'{key}' of call {ci}{d}"
    return None


def oracle_alias(ctx, case, D, impl_calls):
    """a caller who overwrites, in place, the tensors it passed in and the tensors it got back (re-used buffers,
    post-processed results) must not change what later calls return: the object owns its state"""
    if len(case["chunks"]) < 2 or not case.get("alias_probe", case["stream"] in ("corpus", "search") and not case.get("fail_at")):
        return True
    dist = run_impl(case, D, disturb=True)
    diff = same_calls(impl_calls, dist)
    if diff is not None:
        ctx.fail({**strip(case), "oracle": "alias"},
                 f"alias: after the caller overwrote its own input / returned tensors in place between calls, {diff} changed "
                 f"(chunks {case['chunks'][:12]}, reset={case['reset']}): the carried state aliases caller-visible tensors")
        return False
    return True


def oracle_items(ctx, case, D, impl_calls):
    """item-wise = batched: every item of the batched call equals the same call on that item alone"""
    if case["B"] < 2 or not case.get("itemwise"):
        return True
    eps = EPSX[case["dtype"]]
    ok = True
    for b in range(case["B"]):
        cb, Db = item_data(case, D, b)
        single = run_impl(cb, Db)
        for ci, (a, r) in enumerate(zip(impl_calls, single)):
            for key in ("rot", "vel", "pos", "cov"):
                x, y = a[key], r[key]
                if x is None and y is None:
                    continue
                if (x is None) != (y is None):
                    ctx.fail({**strip(case), "oracle": "items"}, f"items: '{key}' present only in one of batched / single run")
                    return False
                xb, yb = x[b], y[0]
                scale = float(yb.abs().max()) if key != "rot" else 1.0
                err = float((xb - yb).abs().max()) if key != "rot" else float(qdist(xb, yb).max())
                if key == "cov":
                    err, scale = cov_err(xb, yb), 1.0
                if not err <= 64 * eps * scale + 8 * TINY[case['dtype']]:
                    ctx.fail({**strip(case), "oracle": "items", "item": b},
                             f"items: item {b} of the batched call differs from the call on that item alone in '{key}' "
                             f"(call {ci}): {err:.3e} > {64 * eps * scale + 8 * TINY[case['dtype']]:.3e} (batch regimes {case.get('item_modes')})")
                    ok = False
                    break
            if not ok:
                break
    return ok


def oracle_grad(ctx, case, D, impl_calls):
    """(12) the VALUES do not depend on the autograd mode: requires_grad operands, no_grad, inference_mode"""
    if not case.get("grad_probe"):
        return True
    ok = True
    for mode in ("requires_grad", "no_grad", "inference"):
        try:
            other = run_impl(dict(case, layout="contig" if case.get("layout") != "alias" else "alias"), D, grad_mode=mode)
        except Inconclusive:
            continue
        diff = same_calls(impl_calls, other)
        if diff is not None:
            ctx.fail({**strip(case), "oracle": "grad", "grad_mode": mode},
                     f"grad: the same history under '{mode}' returns different values in {diff}")
            ok = False
    return ok


def oracle_copies(ctx, case, D, impl_calls):
    """(14) deepcopy / pickle round trip of the object in the middle of a history; original and copies are then fed
    the remaining chunks interleaved — each must continue exactly like the undisturbed object"""
    import copy
    import pickle
    nc = len(case["chunks"])
    if nc < 2 or not case.get("copy_probe") or case.get("fail_at"):
        return True
    k = case.get("copy_at", nc // 2)
    ctor = []
    m = make_module(case, D, keep=ctor)
    objs = {"original": m}
    s = 0
    for ci, n in enumerate(case["chunks"]):
        if ci == k:
            objs["deepcopy"] = copy.deepcopy(m)
            objs["pickle"] = pickle.loads(pickle.dumps(m))
            objs["deepcopy-of-copy"] = copy.deepcopy(objs["deepcopy"])
        order = list(objs.items())
        if ci % 2:
            order.reverse()
        for name, obj in order:
            args, kw, _ = call_args(case, D, ci, s, s + n)
            o = do_call(obj, case, args, kw)
            diff = same_calls([impl_calls[ci]], [record(o)])
            if diff is not None:
                ctx.fail({**strip(case), "oracle": "copies"},
                         f"copies: after copying the object before call {k} and using original and copies interleaved, the "
                         f"{name} differs from the undisturbed history in {diff.replace('call 0', 'call ' + str(ci))}")
                return False
        s += n
    return True


def run_interleave(ctx: Ctx, group):
    """(17) several objects (different dtypes / configurations) served alternately in one process: each must follow its
    own solo history bit for bit (module-level / class-level state shared between objects shows only here)"""
    case = {"kind": "interleave", "subs": [strip(c) for c in group]}
    ctx.note_case(("interleave", tuple((c["dtype"], c["B"], tuple(c["chunks"]), c["reset"]) for c in group)), True)
    ctx.count("interleave.group")
    try:
        datas = [build_data(c) for c in group]
        solos = [run_impl(c, D) for c, D in zip(group, datas)]
        mods = [make_module(c, D) for c, D in zip(group, datas)]
        pos = [0] * len(group)
        offs = [0] * len(group)
        turn = 0
        while any(pos[i] < len(group[i]["chunks"]) for i in range(len(group))):
            i = turn % len(group)
            turn += 1
            if pos[i] >= len(group[i]["chunks"]):
                continue
            c, D, ci = group[i], datas[i], pos[i]
            n = c["chunks"][ci]
            args, kw, _ = call_args(c, D, ci, offs[i], offs[i] + n)
            o = do_call(mods[i], c, args, kw)
            diff = same_calls([solos[i][ci]], [record(o)])
            if diff is not None:
                raise Misbehaviour(f"interleave: object {i} ({c['dtype']}, B={c['B']}, chunks {c['chunks']}) served alternately with "
                                   f"{len(group) - 1} other object(s) differs from its solo history at its call {ci}: {diff}")
            pos[i] += 1
            offs[i] += n
    except Misbehaviour as e:
        ctx.fail({**case, "oracle": str(e).split(":")[0]}, str(e))
    except common.InfraError:
        raise
    except Inconclusive:
        ctx.count("errpath.noraise")
    except Exception as e:
        ctx.fail({**case, "oracle": "raises"}, f"raises: interleaved objects raised {type(e).__name__}: {str(e)[:160]}")


def oracle_default_dtype(ctx, case, D, impl_calls):
    """(25) process-wide default dtype: constructing and calling under torch.set_default_dtype(the OTHER dtype) must give
    the same values and the same metadata (dtype of every returned tensor, LieTensor type)"""
    if not case.get("dtype_probe") or case.get("bare") or case["dtype"] not in ("float32", "float64"):
        return True
    old = torch.get_default_dtype()
    other = torch.float64 if case["dtype"] == "float32" else torch.float32
    try:
        torch.set_default_dtype(other)
        res = run_impl(dict(case, layout="contig" if case.get("layout") != "alias" else "alias"), D)
    except Inconclusive:
        return True
    except Misbehaviour:
        raise
    except Exception as e:
        ctx.fail({**strip(case), "oracle": "default-dtype"},
                 f"default-dtype: under torch.set_default_dtype({other}) the same call raises {type(e).__name__}: {str(e)[:140]}")
        return False
    finally:
        torch.set_default_dtype(old)
    for ci, (a, r) in enumerate(zip(impl_calls, res)):
        if a["types"] != r["types"]:
            ctx.fail({**strip(case), "oracle": "default-dtype"},
                     f"default-dtype: under torch.set_default_dtype({other}) call {ci} returns {r['types']} instead of {a['types']}")
            return False
    diff = same_calls(impl_calls, res)
    if diff is not None:
        ctx.fail({**strip(case), "oracle": "default-dtype"},
                 f"default-dtype: under torch.set_default_dtype({other}) the values differ in {diff}")
        return False
    return True


def other_operations():
    """(32) every other public operation family of the library on DEGENERATE shapes (single item, all-1 batches), forward and
    backward, both float dtypes — anything that fills a module-level constant in place does it here"""
    P = pp()
    for dtype in (torch.float64, torch.float32):
        for shape in ((), (1,), (1, 1)):
            for mk in (P.randn_SO3, P.randn_SE3, P.randn_RxSO3, P.randn_Sim3):
                X = mk(*shape, dtype=dtype)
                x = X.Log()
                p3 = torch.ones(shape + (3,), dtype=dtype, requires_grad=True)
                p4 = torch.ones(shape + (4,), dtype=dtype, requires_grad=True)
                Xg = X.clone().requires_grad_()
                for f in (lambda: X.matrix(), lambda: X.Inv(), lambda: X @ X, lambda: X.Adj(x), lambda: X.AdjT(x),
                          lambda: x.Exp().matrix(), lambda: x.Jr() if hasattr(x, "Jr") else None, lambda: X.rotation().matrix(),
                          lambda: (Xg.Act(p3)).sum().backward(), lambda: (Xg.Act(p4)).sum().backward(),
                          lambda: (Xg @ X).Log().sum().backward(), lambda: Xg.Inv().Log().sum().backward(),
                          lambda: Xg.Adj(x).sum().backward(), lambda: P.cumprod(X.unsqueeze(0), 0), lambda: X.Jinvp(x)):
                    try:
                        f()
                    except Exception:
                        pass        # not every operation exists for every type: irrelevant here


def run_poison(ctx: Ctx):
    """(32) two IDENTICAL integrator histories with every other operation of the library (degenerate shapes, forward and
    backward) in between must agree bit for bit, and both with a degenerate integrator call (B = F = 1) in between"""
    rng = random.Random(20260926_32)
    for k in range(3):
        case = base_case(rng, "poison", [[3, 2], [1], [4]][k], B=[2, 1, 3][k], dtype=["float64", "float32", "float64"][k],
                         gyro_mode="moderate", acc_mode="unit", gravity=STD_G, layout="contig",
                         known_rot=[k == 1] * len([[3, 2], [1], [4]][k]), dt_mode="vary", reset=False, prop_cov=True,
                         cov_mode="vec", subclass=False, positional=False)
        ctx.note_case(("poison", k), True)
        ctx.count("poison")
        D = build_data(case)
        try:
            first = run_impl(case, D)
            other_operations()
            tiny = base_case(rng, "poison", [1], B=1, dtype=case["dtype"], gyro_mode="large", acc_mode="big", gravity=-STD_G,
                             layout="contig", known_rot=[True], call_cov=[True], subclass=False, positional=False, dt_mode="const",
                             reset=False, prop_cov=True)
            run_impl(tiny, build_data(tiny))
            second = run_impl(case, D)
            diff = same_calls(first, second)
            if diff is not None:
                raise Misbehaviour(f"poison: the same history returns different values in {diff} after other library operations on "
                                   f"single items / a B=F=1 integrator call ran in between: a module-level constant was overwritten")
        except Misbehaviour as e:
            ctx.fail({**strip(case), "oracle": str(e).split(":")[0]}, str(e))
        except common.InfraError:
            raise
        except Exception as e:
            ctx.fail({**strip(case), "oracle": "raises"}, f"raises: poison probe raised {type(e).__name__}: {str(e)[:160]}")


def run_toggle(ctx: Ctx):
    """(33) public attributes changed by the user between calls: `reset` / `prop_cov` are read at every call — after
    `m.reset = True` the carried state is used but no longer advanced"""
    rng = random.Random(20260926_33)
    for k in range(3):
        case = base_case(rng, "toggle", [2, 3], B=1 + k, dtype=["float64", "float32", "float64"][k], gyro_mode="moderate",
                         acc_mode="unit", gravity=[STD_G, -STD_G, 0.0][k], layout="contig", known_rot=[k == 2] * 2, subclass=False,
                         positional=False, reset=False, prop_cov=True, dt_mode="vary")
        ctx.note_case(("toggle", k), True)
        ctx.count("toggle")
        D = build_data(case)
        try:
            ref = run_impl(case, D)                         # reset=False all along
            m = make_module(case, D)
            a1, k1, _ = call_args(case, D, 0, 0, 2)
            m(*a1, **k1)
            m.reset = True                                   # the user switches to "keep the state"
            outs = []
            for _ in range(2):
                a2, k2, _ = call_args(case, D, 1, 2, 5)
                outs.append(record(m(*a2, **k2)))
            for j, o in enumerate(outs):
                diff = same_calls([ref[1]], [o])
                if diff is not None:
                    raise Misbehaviour(f"toggle: after `m.reset = True` call {j} on the carried state differs from the reset=False history "
                                       f"in {diff}: the attribute is not read at call time / the state advanced although reset=True")
        except Misbehaviour as e:
            ctx.fail({**strip(case), "oracle": str(e).split(":")[0]}, str(e))
        except common.InfraError:
            raise
        except Exception as e:
            ctx.fail({**strip(case), "oracle": "raises"}, f"raises: toggle probe raised {type(e).__name__}: {str(e)[:160]}")


def bulk_data(case):
    """(34) data of a very large batch, vectorised (torch generator seeded from the case: deterministic, replayable)"""
    gen = torch.Generator().manual_seed(case["data_seed"])
    dtype = tdt(case["dtype"])
    B, F = case["B"], sum(case["chunks"])
    r = lambda *sh: torch.rand(*sh, generator=gen, dtype=torch.float64)
    n = lambda *sh: torch.randn(*sh, generator=gen, dtype=torch.float64)
    D = {"dt": (10 ** (-4 + 4 * r(B, F, 1))).to(dtype), "gyro": (n(B, F, 3) * 0.7).to(dtype), "acc": (n(B, F, 3) * 3).to(dtype),
         "gcov": (1e-6 * (1 + r(B, F, 3))).to(dtype), "acov": (1e-3 * (1 + r(B, F, 3))).to(dtype)}
    q = n(B, F, 4)
    D["rot"] = (q / q.norm(dim=-1, keepdim=True)).to(dtype)
    q0 = n(B, 4)
    D["R0"] = (q0 / q0.norm(dim=-1, keepdim=True)).to(dtype)
    D["p0"], D["v0"] = n(B, 3).to(dtype), n(B, 3).to(dtype)
    D["mg"], D["ma"] = [f32((3.2e-3) ** 2)] * 3, [f32((8e-2) ** 2)] * 3
    D["xi"] = [None] * len(case["chunks"])
    return D


def run_bulk(ctx: Ctx):
    """(34) sizes beyond the largest block: one batch above 2^17 in quick (2^17+1), 2^18+1, 2^18+37, 2^20+1 in thorough; the LAST
    `B % 2^k` items for several k: batch split at the block boundaries bit for bit, single items there, the model on the last item"""
    rng = random.Random(20260926_34)
    left = model_left(ctx)
    lines, metas = [], []
    for B in ([131073] if ctx.quick else [131073, 262145, 262181, 1048577]):
        case = base_case(rng, "bulk", [1], B=B, dtype="float32" if B > 300000 else rng.choice(["float64", "float32"]), gravity=-STD_G,
                         layout="contig", prop_cov=False, reset=True, known_rot=[B % 2 == 0], call_cov=[False], init_mode="per_item",
                         positional=False, subclass=False, cov_mode="default", gyro_mode="moderate", acc_mode="unit", dt_mode="vary")
        ctx.note_case(("bulk", B, case["dtype"]), True)
        ctx.count("bulk")
        D = bulk_data(case)
        try:
            full = run_impl(case, D)
            if not check_types(ctx, case, full):
                continue
            cuts = sorted({B - B % (1 << k) for k in (10, 14, 16, 17, 18) if 0 < B % (1 << k) < B} | {B - 1})
            for a in cuts[:3] + cuts[-1:]:
                outs2 = []
                for lo, hi in ((0, a), (a, B)):
                    c2 = dict(case, B=hi - lo)
                    D2 = {kk: (v[lo:hi] if isinstance(v, torch.Tensor) and v.shape[0] == B else v) for kk, v in D.items()}
                    outs2.append(run_impl(c2, D2))
                for key in ("rot", "vel", "pos"):
                    cat = torch.cat([outs2[0][0][key], outs2[1][0][key]], dim=0)
                    if not torch.equal(cat, full[0][key]):
                        i = int((cat != full[0][key]).flatten(1).any(dim=1).nonzero()[0])
                        raise Misbehaviour(f"split: B={B}: forward(x) differs from cat(forward(x[:{a}]), forward(x[{a}:])) in '{key}' at item {i} "
                                           f"(the last {B - a} items)")
            for b in (0, B - 1):
                lines.append(model_line(case, D, b, 0, left))
                metas.append((case, D, b, full))
        except Misbehaviour as e:
            ctx.fail({**strip(case), "oracle": str(e).split(":")[0]}, str(e))
        except common.InfraError:
            raise
        except Exception as e:
            ctx.fail({**strip(case), "oracle": "raises"}, f"raises: bulk case B={B} raised {type(e).__name__}: {str(e)[:160]}")
    compare_model(ctx, par_driver(ctx, lines), metas)


def run_mode_order(ctx: Ctx):
    """(23) caches poisoned by a grad mode: for frame counts that no earlier call of this process has used, the FIRST call
    runs under inference_mode (resp. no_grad), then the same sizes are used by an autograd call (with backward) and by
    a plain call; all must return the values of the plain call.  Runs before everything else."""
    P = pp()
    rng = random.Random(20260926_23)
    for F, first in ((211, "inference"), (223, "no_grad"), (7, "inference"), (13, "no_grad")):
        case = base_case(rng, "modeorder", [F], B=1, dtype="float64", gyro_mode="moderate", acc_mode="unit", gravity=-STD_G,
                         layout="contig", prop_cov=(F < 100), reset=(F >= 100), known_rot=[False], call_cov=[False],
                         positional=False, subclass=False)
        ctx.note_case(("modeorder", F, first), True)
        ctx.count("modeorder")
        D = build_data(case)
        try:
            a = run_impl(case, D, grad_mode=first)
            # autograd call of the same sizes, with a backward pass
            m = make_module(case, D)
            args, kw, _ = call_args(case, D, 0, 0, F)
            args = [x.clone().requires_grad_() for x in args]
            o = m(*args, **kw)
            (raw_storage_grad(o["pos"]).sum() + raw_storage_grad(o["vel"]).sum() + raw_storage_grad(o["rot"]).sum()).backward()
            if any(x.grad is None or not bool(torch.isfinite(x.grad).all()) for x in args):
                raise Misbehaviour(f"modeorder: after a first call under {first} (F={F}) the autograd call returns no / non-finite gradients")
            b = [record(o)]
            c = run_impl(case, D)
            for nm, r in (("autograd", b), (first, a)):
                diff = same_calls(c, r)
                if diff is not None:
                    raise Misbehaviour(f"modeorder: F={F}: the {nm} call differs from the plain call in {diff} (first call of these sizes ran under {first})")
        except Misbehaviour as e:
            ctx.fail({**strip(case), "oracle": "modeorder", "first": first}, str(e))
        except common.InfraError:
            raise
        except Exception as e:
            ctx.fail({**strip(case), "oracle": "modeorder", "first": first},
                     f"modeorder: after a first call under {first} with F={F} a later call of the same sizes raised {type(e).__name__}: {str(e)[:160]}")


def raw_storage_grad(t):
    return torch.Tensor.as_subclass(t, torch.Tensor)


def run_steps(ctx: Ctx, cases):
    """(24) every single step at round-off level: rot_k must be rot_{k-1} * Exp(w_k dt_k) with the EXACT increment (192-bit
    `so3.Exp`) to 64 eps (1+theta), independent of the position k in the stream — a per-step defect cannot hide in the k*eps
    drift allowance of the stream comparison"""
    P = pp()
    lines, metas = [], []
    for case in cases:
        if len(case["chunks"]) != 1 or case["rank"] != 3:
            continue
        D = build_data(case)
        eps = EPSX[case["dtype"]]
        try:
            impl = run_impl(case, D)
        except Exception:
            continue          # reported by the main stream
        rot = impl[0]["rot"]
        nst = D["R0"].shape[0]
        for b in range(case["B"]):
            R0 = D["R0"][b if nst > 1 else 0].double()
            prev = torch.cat([R0[None], rot[b][:-1]], dim=0)
            dq = (P.SO3(prev).Inv() * P.SO3(rot[b])).tensor()            # float64 arithmetic on the code's own outputs
            for f in range(rot.shape[1]):
                x = (D["gyro"][b, f].double() * D["dt"][b, f, 0].double())
                lines.append("so3.Exp " + to_wire(eps) + " " + wl(x))
                metas.append((case, b, f, dq[f], float(x.norm())))
        ctx.count("steps.case")
    reps = par_driver(ctx, lines)
    bad = {}
    for rep, (case, b, f, dq, th) in zip(reps, metas):
        want = torch.tensor(parse_floats(rep), dtype=torch.float64)
        eps = EPSX[case["dtype"]]
        # the input gyro*dt is rounded once in the dtype before Exp: 2 eps theta on top of the 64 eps of the composition
        tol = K_ALG * eps * (1 + th)
        e = float(qdist(dq, want))
        if not e <= tol and id(case) not in bad:
            bad[id(case)] = True
            ctx.disagree("steps", strip(case), f"item {b} step {f}: |rot_{f-1}^-1 rot_{f} - Exp(w dt)| = {e:.3e} > {tol:.3e}")
            ctx.fail({**strip(case), "oracle": "step", "item": b},
                     f"step: item {b}: the rotation step {f} (theta = {th:.3e}) is off by {e:.3e} > {tol:.3e} = 64 eps (1+theta): "
                     f"dR <- dR Exp(w dt) does not hold to round-off at this step")


def run_large(ctx: Ctx):
    """(19) large sizes: batches of 2^14+1 and 2^16+1 items, frame counts 2^k, 2^k +- 1 up to 4097; oracle without the model on
    10^5 items: split consistency (batch split bit for bit, frame split = chunk invariance), single items first / last / random
    against the call on that item alone, and the model on the LAST item / last frames"""
    rng = random.Random(20260926_19)
    specs = [(16385, [2], True), (65537, [1], False), (1, [1023], False), (1, [1025], True), (2, [513], True)]
    if not ctx.quick:
        specs += [(1, [4097], False), (1, [2047], False), (32769, [3], True), (3, [2049], False)]
    left = model_left(ctx)
    lines, metas = [], []
    for B, parts, cov in specs:
        case = base_case(rng, "large", parts, B=B, dtype=rng.choice(["float64", "float32"]), gyro_mode="moderate", acc_mode="unit",
                         gravity=f32(rng.choice([STD_G, -STD_G])), layout="contig", prop_cov=cov, reset=not cov, known_rot=[B % 2 == 0],
                         call_cov=[False], init_mode="per_item" if B > 1 else "shared", positional=False, subclass=False,
                         dt_mode="vary", cov_mode="default")
        F = parts[0]
        ctx.note_case(("large", B, F, case["dtype"]), True)
        ctx.count("large")
        D = build_data(case)
        try:
            full = run_impl(case, D)
            if not check_types(ctx, case, full):
                continue
            # batch split, bit for bit
            if B > 1:
                for a in (1, B // 2 + 1, B - 1):
                    parts_out = []
                    for lo, hi in ((0, a), (a, B)):
                        c2 = dict(case, B=hi - lo)
                        D2 = {k: (v[lo:hi] if isinstance(v, torch.Tensor) and v.shape[0] == B else v) for k, v in D.items()}
                        parts_out.append(run_impl(c2, D2))
                    for key in ("rot", "vel", "pos", "cov"):
                        if full[0][key] is None:
                            continue
                        cat = torch.cat([parts_out[0][0][key], parts_out[1][0][key]], dim=0)
                        if not torch.equal(cat, full[0][key]):
                            i = int((cat != full[0][key]).flatten(1).any(dim=1).nonzero()[0])
                            raise Misbehaviour(f"split: B={B}, F={F}: forward(x) differs from cat(forward(x[:{a}]), forward(x[{a}:])) in '{key}' at item {i}")
                # single items
                for i in (0, B - 1, rng.randrange(B)):
                    cb, Db = item_data(case, D, i)
                    one = run_impl(cb, Db)
                    for key in ("rot", "vel", "pos", "cov"):
                        if full[0][key] is not None and not torch.equal(one[0][key][0], full[0][key][i]):
                            raise Misbehaviour(f"split: B={B}, F={F}: item {i} of the batch differs from the call on that item alone in '{key}'")
            # frame split (chunk invariance on the real code) for the long streams
            if F >= 64 and not case["reset"]:
                oracle_chunk(ctx, dict(case, chunks=[F // 2 + 1, F - F // 2 - 1]), D,
                             run_impl(dict(case, chunks=[F // 2 + 1, F - F // 2 - 1], known_rot=case["known_rot"] * 2,
                                           call_cov=[False, False], explicit_init=[None, None]), dict(D, xi=[None, None])))
            # the model (192 bits) on the first and the LAST item
            if (F <= 1100 and not (cov and F > 300)) or not ctx.quick:
                for b in sorted({0, B - 1}):
                    lines.append(model_line(case, D, b, 0, left))
                    metas.append((case, D, b, full))
        except Misbehaviour as e:
            ctx.fail({**strip(case), "oracle": str(e).split(":")[0]}, str(e))
        except common.InfraError:
            raise
        except Exception as e:
            ctx.fail({**strip(case), "oracle": "raises"}, f"raises: large case B={B}, F={F} raised {type(e).__name__}: {str(e)[:160]}")
    compare_model(ctx, par_driver(ctx, lines), metas)


def guarded(ctx, case, name, fn, *args):
    """an oracle must never crash the harness: whatever the implementation returned becomes a failure with the case"""
    try:
        return fn(ctx, case, *args)
    except Misbehaviour as e:
        ctx.fail({**strip(case), "oracle": name}, str(e))
    except common.InfraError:
        raise
    except Inconclusive:
        ctx.count("errpath.noraise")
    except Exception as e:
        ctx.fail({**strip(case), "oracle": name},
                 f"misbehaviour: oracle '{name}' could not process what the implementation returned: {type(e).__name__}: {str(e)[:160]}")
    return False


# ----------------------------------------------------------------------------- evaluation of a list of cases

def model_left(ctx) -> bool:
    """the product order the MODEL of the code uses in propagate_cov (constant `Imu.codeLeft`)"""
    rep = ctx.driver.run(["imu.codeleft"])[0]
    st, toks = common.parse_reply(rep)
    if st != "ok":
        raise common.InfraError("imu.codeleft: " + rep)
    return toks[0] == "1"


def sig_of(case):
    F = sum(case["chunks"])
    return ("hist", case["stream"], case["dtype"], case["B"], case["rank"], F, len(case["chunks"]), case["gyro_mode"],
            case["acc_mode"], case["dt_mode"], tuple(case["known_rot"][:3]), case["gravity"] != 0.0, case["prop_cov"],
            case["reset"], case["init_mode"], tuple(x for x in case["explicit_init"][:3]), case.get("layout", "contig"),
            str(case.get("item_modes")))


def run_case_impl(ctx, case, D):
    """run the real code on one case, turning every observable misbehaviour into a failure; -> impl calls or None"""
    try:
        impl = run_impl(case, D)
    except Misbehaviour as e:
        ctx.fail({**strip(case), "oracle": str(e).split(":")[0]}, str(e))
        return None
    except Inconclusive as e:
        ctx.count("errpath.noraise")       # the request that must raise was accepted: nothing to conclude
        ctx.notes.append(f"error-path request '{e}' did not raise")
        return None
    except Exception as e:
        ctx.fail({**strip(case), "oracle": "raises"},
                 f"raises: forward raised {type(e).__name__} for B={case['B']} chunks={case['chunks'][:12]} rank={case['rank']} "
                 f"layout={case.get('layout', 'contig')}: {str(e)[:160]}")
        return None
    if not check_types(ctx, case, impl):
        return None       # wrong shapes / types / NaN: already a failure, nothing further can be compared
    return impl


def evaluate(ctx: Ctx, cases, left=None) -> None:
    if left is None:
        left = model_left(ctx)
    lines, metas = [], []
    pending, futures = [], []
    pool = ThreadPoolExecutor(2)          # the model runs in driver processes while the real code keeps running here
    block = max(40, len(cases) // 5)
    for idx, case in enumerate(cases):
        D = build_data(case)
        F = sum(case["chunks"])
        ctx.note_case(sig_of(case), case["gyro_mode"] != "zero" or case["acc_mode"] != "zero")
        ctx.count(f"{case['stream']}.{case['dtype']}.B{case['B']}.rank{case['rank']}")
        ctx.count(f"gyro.{case['gyro_mode']}")
        ctx.count(f"acc.{case['acc_mode']}")
        ctx.count(f"F.{'1' if F == 1 else '2-8' if F <= 8 else '9-64' if F <= 64 else '65-200' if F <= 200 else '201+'}")
        ctx.count(f"chunks.{min(len(case['chunks']), 9)}")
        ctx.count("known_rot" if any(case["known_rot"]) else "integrated_rot")
        ctx.count("gravity0" if case["gravity"] == 0.0 else "gravity")
        ctx.count(f"layout.{case.get('layout', 'contig')}")
        if case.get("item_modes"):
            ctx.count("mixed_regime_batch")
        for kind in (case.get("fail_at") or {}).values():
            ctx.count(f"errpath.{kind}")
        for cc in case["call_cov"]:
            if cc:
                ctx.count(f"call_cov.{cc}")
        ctx.sample({k: v for k, v in case.items() if k not in ("known_rot", "call_cov", "explicit_init") or len(case["chunks"]) <= 4}, cap=8)
        impl = run_case_impl(ctx, case, D)
        if impl is not None:
            guarded(ctx, case, "psd", oracle_psd, impl)
            guarded(ctx, case, "chunk", oracle_chunk, D, impl)
            guarded(ctx, case, "rank", oracle_rank, D, impl)
            guarded(ctx, case, "alias", oracle_alias, D, impl)
            guarded(ctx, case, "items", oracle_items, D, impl)
            guarded(ctx, case, "grad", oracle_grad, D, impl)
            guarded(ctx, case, "copies", oracle_copies, D, impl)
            guarded(ctx, case, "default-dtype", oracle_default_dtype, D, impl)
            for b in range(case["B"]):
                pending.append(model_line(case, D, b, 0, left))
                metas.append((case, D, b, impl))
        if pending and ((idx + 1) % block == 0 or idx + 1 == len(cases)):
            futures.append(pool.submit(par_driver, ctx, pending))
            pending = []
    if pending:
        futures.append(pool.submit(par_driver, ctx, pending))
    reps = []
    for fu in futures:
        reps += fu.result()
    pool.shutdown()
    compare_model(ctx, reps, metas)


def compare_model(ctx: Ctx, reps, metas):
    """implementation vs model replies; every disagreeing case is re-evaluated against the documented recursions"""
    suspects = []
    for rep, (case, D, b, impl) in zip(reps, metas):
        mc = split_reply(case, parse_floats(rep))
        probs = cmp_streams(case, D, b, impl, mc, starts_from_model(case, D, b, mc), "implementation vs model")
        if probs:
            ctx.disagree(case["stream"], strip(case), "; ".join(p for _, p in probs[:3]))
            suspects.append((case, D, b, impl))
    # a disagreement: evaluate the property's own statement (documented recursions, 192 bits) on the same case
    if suspects:
        suspects = suspects[:40]
        reps = par_driver(ctx, [model_line(c, D, b, 1, False) for c, D, b, _ in suspects])
        for rep, (case, D, b, impl) in zip(reps, suspects):
            sc = split_reply(case, parse_floats(rep))
            probs = cmp_streams(case, D, b, impl, sc, starts_from_model(case, D, b, sc), "sequential recursion")
            for kind, p in probs:
                if kind in ("rot", "vel", "pos"):
                    ctx.fail({**strip(case), "oracle": "recursion", "item": b}, "recursion: " + p)
                    break
            for kind, p in probs:
                if kind == "cov":
                    ctx.fail({**strip(case), "oracle": "cov-recursion", "item": b},
                             "cov-recursion: returned covariance is not the documented C <- A C A^T + B: " + p)
                    break


# ----------------------------------------------------------------------------- the `integrate` dict, block by block

def run_integrate(ctx: Ctx, cases):
    """`IMUPreintegrator.integrate` called directly: Dr, Dv, Dp, Dt, a against the model's `integrate`, each block with
    its OWN relative scale (no initial position / velocity magnitude in any tolerance)"""
    P = pp()
    lines, metas = [], []
    for case in cases:
        D = build_data(case)
        eps = EPSX[case["dtype"]]
        B, F = case["B"], sum(case["chunks"])
        m = make_module(case, D)
        known = case["known_rot"][0]
        nst = D["R0"].shape[0]
        R0 = P.SO3((D["R0"][:, None] if nst > 1 else D["R0"][0][None, None].expand(B, 1, 4)).clone())
        c1 = {**strip(case), "kind": "integrate"}
        ctx.note_case(("integrate",) + sig_of(case)[2:], True)
        ctx.count("integrate")
        try:
            st = m.integrate(D["dt"].clone(), D["gyro"].clone(), D["acc"].clone(),
                             rot=P.SO3(D["rot"].clone()) if known else None, init_rot=R0)
            got = {k: plain(st[k]).double() for k in ("Dr", "Dv", "Dp", "Dt", "a")}
            nf = [k for k, v in got.items() if not bool(torch.isfinite(v).all())]
            if nf:
                ctx.fail({**c1, "oracle": "nonfinite"}, f"nonfinite: integrate returned NaN/inf in {nf} for finite valid inputs")
                continue
            shapes = {k: tuple(v.shape) for k, v in got.items()}
            want = {"Dr": (B, F, 4), "Dv": (B, F, 3), "Dp": (B, F, 3), "Dt": (B, F, 1), "a": (B, F, 3)}
            if shapes != want:
                ctx.fail(c1, f"types: integrate returned shapes {shapes}, documented {want}")
                continue
        except Exception as e:
            ctx.fail(c1, f"raises: integrate raised {type(e).__name__}: {str(e)[:160]}")
            continue
        for b in range(B):
            bi = b if nst > 1 else 0
            toks = ["imu.integrate", to_wire(eps), to_wire(case["gravity"]), wl(D["R0"][bi]), str(F), "1" if known else "0"]
            for f in range(F):
                toks += [wl(D["dt"][b, f]), wl(D["gyro"][b, f]), wl(D["acc"][b, f])]
                if known:
                    toks.append(wl(D["rot"][b, f]))
                toks += ["0:0 0:0 0:0", "0:0 0:0 0:0"]
            lines.append(" ".join(toks))
            metas.append((c1, D, b, got))
    reps = par_driver(ctx, lines)
    for rep, (c1, D, b, got) in zip(reps, metas):
        eps = EPSX[c1["dtype"]]
        F = sum(c1["chunks"])
        vals = torch.tensor(parse_floats(rep), dtype=torch.float64).reshape(F, 14)
        g = abs(c1["gravity"])
        dt = D["dt"][b, :, 0].double().abs()
        am = D["acc"][b].double().norm(dim=-1) + g
        th = (D["gyro"][b].double().norm(dim=-1) * dt).cummax(0)[0]
        k = torch.arange(F, dtype=torch.float64) + 2
        c = K_ALG * eps * k * (1 + th)
        sv = torch.cumsum(am * dt, 0)
        sp = torch.cumsum(torch.cat([torch.zeros(1, dtype=torch.float64), sv[:-1]]) * dt + 0.5 * am * dt * dt, 0)
        fl = k * TINY[c1["dtype"]]
        blocks = [("Dr", qdist(got["Dr"][b], vals[:, 0:4]), c),
                  ("Dv", (got["Dv"][b] - vals[:, 4:7]).norm(dim=-1), c * sv + fl),
                  ("Dp", (got["Dp"][b] - vals[:, 7:10]).norm(dim=-1), c * sp + fl),
                  ("Dt", (got["Dt"][b, :, 0] - vals[:, 10]).abs(), K_ALG * eps * k * torch.cumsum(dt, 0)),
                  ("a", (got["a"][b] - vals[:, 11:14]).norm(dim=-1), c * am + fl)]
        for name, e, t in blocks:
            bad = ~(e <= t)
            if bool(bad.any()):
                j = int(bad.nonzero()[0])
                msg = f"integrate item {b} frame {j}: block '{name}' off by {float(e[j]):.3e} > {float(t[j]):.3e}"
                ctx.disagree("integrate", c1, msg)
                ctx.fail({**c1, "oracle": "recursion", "item": b},
                         "recursion: increments returned by integrate() are not the sequential recursion of C16 (theorem par_eq_seq_integrate: "
                         "model = recursion): " + msg)
                break


# ----------------------------------------------------------------------------- object reuse

REUSE_KEYS = ("dtype", "gravity", "gravity_int", "ctor_positional", "subclass", "reset", "prop_cov", "cov_mode", "init_mode", "ctor_seed",
              "pos_mag", "vel_mag")


def reuse_history(rng: random.Random, n_calls: int, variant: str):
    """sub-cases (one call each) that share ONE constructor but differ in every per-call argument: batch size, frame
    count, rank, known rotation, per-call covariances, init_state, layout, regimes"""
    first = base_case(rng, "reuse", [rng.randint(1, 9)], B=rng.choice([1, 2, 3, 4]),
                      init_mode=rng.choice(["default", "shared"]), ctor_seed=rng.randrange(1 << 30))
    if variant == "reset":
        first["reset"], first["prop_cov"] = True, rng.random() < 0.8
    else:                       # reset=False, but every call brings a full init_state: documented to ignore the carried one
        first["reset"], first["prop_cov"] = False, True
    subs = []
    for i in range(n_calls):
        if subs and rng.random() < 0.35:      # same sizes as the previous call: only the CONTENT of the caller's buffers changed
            B, rank, F = subs[-1]["B"], subs[-1]["rank"], subs[-1]["chunks"][0]
        else:
            B = rng.choice([1, 2, 3, 4])
            rank = rng.choice([3, 3, 2, 1]) if B == 1 else 3
            F = 1 if rank == 1 else rng.choice([1, 2, 3, 5, 8, 9, 17])
        c = base_case(rng, "reuse", [F], B=B, rank=rank)
        for k in REUSE_KEYS:
            c[k] = first[k]
        c["known_rot"] = [rng.random() < 0.5]
        c["call_cov"] = [c["prop_cov"] and rng.random() < 0.4]
        c["explicit_init"] = ["cov+rij"] if variant == "fullinit" else [rng.choice([None, None, "basic", "cov+rij", "cov+rnone"])]
        c["layout"] = "contig"
        subs.append(c)
    return subs


def run_reuse_history(ctx: Ctx, subs, record_case=True):
    """ONE object serves all sub-cases, the caller re-using ONE set of buffers (updated in place between calls);
    every call must equal, bit for bit, the same call on a fresh object"""
    case = {"kind": "reuse", "subs": [strip(c) for c in subs]}
    ctx.note_case(("reuse", len(subs), subs[0]["reset"], subs[0]["dtype"], tuple((c["B"], c["chunks"][0], c["rank"]) for c in subs)), True)
    ctx.count("reuse.history")
    try:
        D0 = build_data(subs[0])
        m = make_module(subs[0], D0)
        bufs = {}
        for k, c in enumerate(subs):
            D = build_data(c)
            n = c["chunks"][0]
            args, kw, guards = call_args(c, D, 0, 0, n, bufs=bufs)
            snap = [plain(x) for x in guards]
            before = module_attrs(m)
            o = m(*args, **kw)
            for a, b in zip(guards, snap):
                if not torch.equal(plain(a), b):
                    raise Misbehaviour(f"purity: call {k} on the reused object modified the caller's buffers")
            check_attrs(m, before, o, c["reset"], c["prop_cov"])
            got = [record(o)]
            fresh = run_impl(c, D)
            if got[0]["types"] != fresh[0]["types"]:
                raise Misbehaviour(f"reuse: call {k} on the reused object returned {got[0]['types']}, a fresh object {fresh[0]['types']}")
            diff = same_calls(got, fresh)
            if diff is not None:
                hist = [(s_["B"], s_["chunks"][0], s_["rank"], s_["explicit_init"][0]) for s_ in subs[:k + 1]]
                raise Misbehaviour(f"reuse: call {k} of one object (history of (B,F,rank,init) {hist}, reset={c['reset']}) differs from the "
                                   f"same call on a fresh object in {diff}: state or a cache leaks between calls")
    except Misbehaviour as e:
        ctx.fail({**case, "oracle": str(e).split(":")[0]}, str(e))
    except common.InfraError:
        raise
    except Exception as e:
        ctx.fail({**case, "oracle": "raises"}, f"raises: reused object raised {type(e).__name__} in a legal call sequence: {str(e)[:160]}")


# ----------------------------------------------------------------------------- case generation

GYRO_MODES = ["mix", "mix", "mix", "moderate", "moderate", "moderate", "small", "small", "taylor", "taylor", "large", "large", "zero", "zero", "huge", "pi", "quarter", "near_id", "eps_tie"]
ACC_MODES = ["mix", "mix", "mix", "unit", "unit", "grav", "grav", "big", "big", "zero", "zero", "huge", "tiny", "near_grav"]


def base_case(rng: random.Random, stream: str, chunks, B=None, rank=3, dtype=None, **over):
    n = len(chunks)
    kr = rng.random() < 0.4
    case = {
        "kind": "hist", "stream": stream,
        "dtype": dtype or rng.choice(["float64", "float64", "float32"]),
        "B": B if B is not None else rng.choice([1, 1, 2, 3, 4]),
        "rank": rank,
        "gravity": f32(rng.choice(GRAVITIES)),
        "reset": False, "prop_cov": True,
        "chunks": list(chunks),
        "known_rot": [kr] * n, "call_cov": [False] * n, "explicit_init": [None] * n,
        "init_mode": rng.choice(["default", "shared", "shared", "per_item"]),
        "gyro_mode": rng.choice(GYRO_MODES), "acc_mode": rng.choice(ACC_MODES),
        "dt_mode": rng.choice(["const", "const", "const", "ladder", "ladder", "ladder", "vary", "vary", "vary", "vary", "extreme", "signed", "near_const"]),
        "cov_mode": rng.choice(["default", "default", "float", "float", "vec", "vec", "gfloat_avec", "gvec_afloat", "gonly", "aonly"]),
        "positional": rng.random() < 0.25, "ctor_positional": rng.random() < 0.25, "gravity_int": False,
        "init_flat": rng.random() < 0.5, "subclass": rng.random() < 0.15,
        "pos_mag": rng.choice([0.0, 1.0, 1e3]), "vel_mag": rng.choice([0.0, 1.0, 30.0]),
        "data_seed": rng.randrange(1 << 30),
        "layout": rng.choice(["contig", "contig", "contig", "strided", "expanded", "alias"]),
    }
    case.update(over)
    if "gravity_int" not in over and float(case["gravity"]).is_integer() and rng.random() < 0.5:
        case["gravity_int"] = True                      # 0, 10, -10, 274 … written as python ints
    if case["dt_mode"] == "signed" and case.get("bare"):
        case["dt_mode"] = "vary"
    if case["dt_mode"] == "signed":                     # (26) dt < 0 / dt = 0 frames: no covariance (it divides by dt)
        case["prop_cov"], case["reset"] = False, True
    if case["layout"] == "alias" and case["acc_mode"] in ("zero", "big", "huge") and "gyro_mode" not in over:
        case["gyro_mode"] = "moderate"       # acc IS gyro in this layout: keep it a sensible signal
    if case["rank"] < 3:
        case["B"] = 1
        if case["init_mode"] == "per_item":
            case["init_mode"] = "shared"
    return case


def compositions(F):
    """all ordered ways to write F as a sum of positive integers"""
    for mask in range(1 << (F - 1)):
        parts, run = [], 1
        for i in range(F - 1):
            if mask >> i & 1:
                parts.append(run)
                run = 1
            else:
                run += 1
        parts.append(run)
        yield parts


def random_chunks(rng, F):
    c = rng.random()
    if c < 0.25:          # two chunks, split anywhere
        s = rng.randint(1, F - 1)
        return [s, F - s]
    if c < 0.45:          # many singletons then a block
        s = rng.randint(1, min(F - 1, 6))
        return [1] * s + [F - s]
    parts, left = [], F
    while left > 0:
        m = rng.choice([1, 1, 2, 3, 4, 5, 7, 8, 9, 16, 17, 31, 33, 64]) if rng.random() < 0.7 else rng.randint(1, left)
        m = min(m, left)
        parts.append(m)
        left -= m
    return parts


def corner_corpus():
    """deterministic corner corpus: identical for every VERIF_SEED, evaluated BEFORE the seeded random cases"""
    rng = random.Random(20260925_16)
    cs = []

    def add(chunks, **kw):
        kw.setdefault("dtype", "float64")
        kw.setdefault("layout", "contig")
        c = base_case(rng, "corpus", chunks, **kw)
        n = len(chunks)
        for k in ("known_rot", "call_cov", "explicit_init"):
            if k in kw and len(kw[k]) != n:
                c[k] = (list(kw[k]) * n)[:n]
        cs.append(c)
        return c
    # every small frame count x {integrated, known} rotation x {gravity, none}; clean start so nothing hides a small term
    for F in (1, 2, 3, 4, 5, 7, 8, 9, 16, 17):
        for kr in (False, True):
            add([F], B=1, known_rot=[kr], gravity=STD_G if F % 2 else 0.0, gyro_mode="moderate", acc_mode="unit",
                init_mode="default" if F % 3 else "shared", pos_mag=0.0, vel_mag=1.0, dt_mode="vary",
                prop_cov=F <= 9, reset=F > 9)
    for F in (32, 33, 64, 65):
        add([F], B=1, known_rot=[False], gravity=STD_G, gyro_mode="moderate", acc_mode="grav", prop_cov=False, reset=True,
            init_mode="shared", dt_mode="ladder")
    # chunkings incl. singletons at either end, three and more calls, per-item start, float32
    for parts in ([1, 1], [1, 2], [2, 1], [1, 1, 1], [2, 3], [3, 2, 4], [1, 4, 1, 2], [5, 1, 1, 1, 3]):
        add(parts, B=2, known_rot=[False], gravity=STD_G, gyro_mode="moderate", acc_mode="unit", init_mode="per_item",
            dt_mode="vary", itemwise=True)
        add(parts, B=1, known_rot=[True], gravity=STD_G, gyro_mode="large", acc_mode="grav", init_mode="shared",
            dt_mode="const", dtype="float32", layout="strided")
    # (1) extreme but valid: many turns per step, huge / tiny accelerations, dt outside [1e-4, 1], far-away start,
    #     batch sizes and frame counts beyond the listed ranges
    add([6], B=1, gyro_mode="huge", acc_mode="unit", gravity=STD_G, known_rot=[False])
    add([3, 3], B=1, gyro_mode="huge", acc_mode="huge", gravity=STD_G, known_rot=[False], pos_mag=0.0, vel_mag=0.0)
    add([6], B=2, gyro_mode="moderate", acc_mode="huge", gravity=STD_G, known_rot=[True], pos_mag=0.0)
    add([6], B=2, gyro_mode="small", acc_mode="tiny", gravity=0.0, known_rot=[False], pos_mag=0.0, vel_mag=0.0, init_mode="default")
    add([4, 2], B=1, gyro_mode="moderate", acc_mode="unit", dt_mode="extreme", gravity=STD_G, known_rot=[False])
    add([5], B=1, gyro_mode="moderate", acc_mode="unit", gravity=STD_G, pos_mag=1e6, vel_mag=1e3, init_mode="shared")
    add([3], B=7, gyro_mode="mix", acc_mode="mix", gravity=STD_G, init_mode="per_item", itemwise=True)
    add([2, 2], B=5, gyro_mode="moderate", acc_mode="unit", gravity=STD_G, init_mode="shared")
    for F in (201, 257):
        add([F], B=1, gyro_mode="moderate", acc_mode="unit", gravity=STD_G, prop_cov=False, reset=True, dt_mode="const")
    # (7) mixed-regime batches: every item in another regime, compared item by item with the single-item call
    regs = [("zero", "zero"), ("taylor", "grav"), ("moderate", "unit"), ("large", "big")]
    for parts in ([4], [2, 3]):
        for kr in (False, True):
            add(parts, B=4, item_modes=regs, gyro_mode="mix", acc_mode="mix", known_rot=[kr], gravity=STD_G,
                init_mode="per_item", itemwise=True, dtype="float64")
    add([3], B=4, item_modes=[("huge", "huge"), ("zero", "tiny"), ("small", "grav"), ("taylor", "zero")], gyro_mode="mix",
        acc_mode="mix", known_rot=[False], gravity=STD_G, init_mode="shared", itemwise=True, dtype="float32")
    # (6) views, aliases
    for lay in ("strided", "expanded", "alias"):
        add([3, 2], B=2, layout=lay, gyro_mode="moderate", acc_mode="unit", dt_mode="const", gravity=STD_G, known_rot=[lay == "strided"])
        add([4], B=1, rank=2, layout=lay, gyro_mode="moderate", acc_mode="unit", dt_mode="const", gravity=STD_G)
    # (4) histories: reset=True, explicit init_state of every kind, per-call covariances, prop_cov=False
    add([2, 3, 1], B=2, reset=True, prop_cov=True, known_rot=[True, False, True], call_cov=[False, True, False],
        explicit_init=[None, "cov+rij", "basic"], gyro_mode="moderate", acc_mode="unit", gravity=STD_G)
    add([2, 2, 2], B=1, reset=True, prop_cov=False, gyro_mode="moderate", acc_mode="unit", gravity=STD_G)
    add([1, 3, 2, 2], B=2, reset=False, prop_cov=True, known_rot=[False, False, True, False],
        call_cov=[False, False, True, True], explicit_init=[None, None, "cov", "rij"], gyro_mode="moderate",
        acc_mode="unit", gravity=STD_G)
    add([2, 1, 2], B=1, reset=False, explicit_init=["cov+rnone", None, None], gyro_mode="moderate", acc_mode="grav", gravity=STD_G)
    add([1, 1, 1], B=1, rank=1, gyro_mode="moderate", acc_mode="unit", gravity=STD_G, known_rot=[True])
    # ---- hardening pass 2
    # (11) error paths: every kind of raising request, before the first / between / after the last successful call
    for k, kind in enumerate(ERR_KINDS_COV + ERR_KINDS_ANY):
        for at in (0, 1, 2, 3):
            if (k + at) % 2 == 0 or kind in ("gcov_float", "cov_dtype", "cov_shape"):
                add([2, 1, 3], B=1 + k % 2, reset=False, prop_cov=True, known_rot=[k % 3 == 0], gravity=STD_G,
                    gyro_mode="moderate", acc_mode="unit", fail_at={str(at): kind}, init_mode="shared", dtype="float64" if k % 4 else "float32")
    add([2, 2], B=2, reset=False, fail_at={"0": "gcov_float", "1": "cov_dtype", "2": "cov_shape"}, gyro_mode="moderate",
        acc_mode="unit", gravity=STD_G)
    add([3, 2], B=1, reset=True, prop_cov=True, fail_at={"1": "acov_float"}, gyro_mode="moderate", acc_mode="unit", gravity=STD_G)
    # (10) argument combinations: exactly one per-call covariance, (B,1,3) covariances, positional passing, constructor mixes
    for cc in ("g", "a", "b1", True):
        for posi in (False, True):
            add([2, 3], B=2, call_cov=[cc, False] if posi else [False, cc], positional=posi, ctor_positional=posi,
                cov_mode=("gfloat_avec", "gvec_afloat", "gonly", "aonly")[(cc != "g") + 2 * posi],
                known_rot=[posi], gyro_mode="moderate", acc_mode="unit", gravity=STD_G, itemwise=True)
    add([2, 2, 1], B=2, explicit_init=["covnone", None, "covnone+rij"], reset=False, gyro_mode="moderate", acc_mode="unit", gravity=STD_G)
    add([2, 2], B=1, explicit_init=["rnone", "basic"], init_flat=True, reset=True, gyro_mode="moderate", acc_mode="unit", gravity=STD_G)
    add([2, 2], B=1, explicit_init=["cov+rij", None], init_flat=True, reset=False, positional=True, gyro_mode="moderate",
        acc_mode="unit", gravity=STD_G)
    # (13) zero / integral gravity written as a python int
    add([3, 2], B=2, gravity=0.0, gravity_int=True, gyro_mode="moderate", acc_mode="unit", known_rot=[False])
    add([4], B=1, gravity=10.0, gravity_int=True, gyro_mode="moderate", acc_mode="unit", known_rot=[True], dtype="float32")
    # (16) sizes equal to the feature dimensions 3, 4, 9 (and 1) in the batch and the frame position
    for Bs, parts in ((3, [3]), (3, [1]), (1, [3]), (4, [4]), (3, [4]), (4, [3]), (9, [9]), (3, [9]), (3, [3, 3]), (4, [4, 3, 9])):
        add(parts, B=Bs, gyro_mode="moderate", acc_mode="unit", gravity=STD_G, known_rot=[Bs % 2 == 0], init_mode="per_item",
            call_cov=[True] + [False] * (len(parts) - 1), itemwise=Bs <= 4)
    # (18) spacing around the thresholds of SO3 Log (theta = pi, 2 pi, 3 pi; both sides; exactly, with isotropic covariance)
    for dtp in ("float64", "float32"):
        add([6], B=2, gyro_mode="pi", acc_mode="unit", gravity=STD_G, cov_mode="default", dtype=dtp, known_rot=[False])
        add([3, 3], B=1, gyro_mode="pi", acc_mode="grav", gravity=STD_G, cov_mode="vec", dtype=dtp, known_rot=[True])
    # (12), (14) probes on carried histories
    # ---- round-4 classes
    # (26) sign / size of the gravity constant (z-down worlds, other planets, other units), int spelling; dt < 0 and dt = 0
    for k, gval in enumerate((-STD_G, -STD_G, f32(-1.62), f32(274.0), f32(-274.0), 1e4, -1e4, f32(1e-6), f32(-1e-6), -10.0)):
        add([3] if k % 2 else [2, 2], B=1 + k % 2, gravity=gval, gravity_int=(gval == -10.0), known_rot=[k % 3 == 0],
            gyro_mode="moderate", acc_mode="grav" if abs(gval) < 20 else "unit", init_mode="shared", pos_mag=0.0, vel_mag=0.0,
            dtype="float64" if k % 3 else "float32")
    add([4], B=2, gravity=-STD_G, item_modes=[("zero", "zero"), ("moderate", "grav")], gyro_mode="mix", acc_mode="mix",
        known_rot=[False], itemwise=True)
    for kr in (False, True):
        add([5], B=1, dt_mode="signed", gravity=-STD_G if kr else STD_G, known_rot=[kr], gyro_mode="moderate", acc_mode="unit")
        add([2, 3], B=2, dt_mode="signed", gravity=STD_G, known_rot=[kr], gyro_mode="large", acc_mode="grav")
    # (20) exact coincidences: quarter / half / full turns per step, tie quaternions as known rotation, equal dt,
    #      acceleration exactly equal to the rotated gravity (stationary sensor)
    for dtp in ("float64", "float32"):
        add([6], B=2, gyro_mode="quarter", acc_mode="unit", dt_mode="const", cov_mode="default", dtype=dtp, known_rot=[False], gravity=STD_G)
        add([2, 2], B=1, gyro_mode="quarter", acc_mode="grav", dt_mode="const", cov_mode="vec", dtype=dtp, known_rot=[True], gravity=-STD_G)
    # (21) user subclasses of the integrator and of LieTensor
    add([2, 3], B=2, subclass=True, known_rot=[True], gyro_mode="moderate", acc_mode="unit", gravity=STD_G)
    add([4], B=1, subclass=True, known_rot=[False], gyro_mode="moderate", acc_mode="unit", gravity=-STD_G, explicit_init=["cov+rij"])
    # ---- round-5 classes
    # (29) objects built with every optional argument omitted, against the DOCUMENTED defaults (model), also chunked
    for parts in ([3], [2, 2], [1, 1, 3]):
        add(parts, B=len(parts), dtype="float32", bare=True, init_mode="default", cov_mode="default", gravity=STD_G, gravity_int=False, dt_mode="vary",
            reset=False, prop_cov=True, ctor_positional=False, subclass=False, known_rot=[len(parts) == 2], gyro_mode="moderate",
            acc_mode="grav")
    # (30) every float dtype accepted after .to(dtype); integer time steps
    for dtp in ("float16", "bfloat16"):
        for kr in (False, True):
            add([3], B=2, dtype=dtp, prop_cov=False, reset=True, known_rot=[kr], gyro_mode="moderate", acc_mode="unit", gravity=STD_G,
                dt_mode="ladder", pos_mag=1.0, vel_mag=1.0, cov_mode="default", init_mode="shared")
    add([4], B=2, dt_int=True, prop_cov=False, reset=True, gyro_mode="moderate", acc_mode="unit", gravity=-STD_G, dtype="float32")
    add([2, 2], B=1, dt_int=True, prop_cov=False, reset=True, gyro_mode="large", acc_mode="grav", gravity=STD_G, dtype="float64",
        known_rot=[True])
    # (31) init_state tensors that are views of the call's own inputs
    add([3, 2], B=2, alias_init=True, explicit_init=["basic", "cov+rij"], known_rot=[True], reset=True, gyro_mode="moderate",
        acc_mode="unit", gravity=STD_G)
    add([2, 2], B=1, alias_init=True, explicit_init=["cov", "basic"], known_rot=[False], reset=False, layout="alias",
        gyro_mode="moderate", acc_mode="unit", gravity=-STD_G, init_flat=False)
    # (36) bands between round-off and a "helpful" tolerance: nearly equal dt, nearly identity rotations, nearly stationary
    for dtp in ("float64", "float32"):
        add([5], B=1, dt_mode="near_const", gyro_mode="moderate", acc_mode="unit", gravity=STD_G, dtype=dtp, known_rot=[False])
        add([2, 3], B=2, dt_mode="const", gyro_mode="near_id", acc_mode="near_grav", gravity=STD_G, dtype=dtp, known_rot=[False],
            init_mode="default")
        add([4], B=1, dt_mode="near_const", gyro_mode="near_id", acc_mode="near_grav", gravity=STD_G, dtype=dtp, known_rot=[True])
    # ---- pass 7 (38c): exact ties of the floating branch selections on the integrator's path, exactly representable:
    #      |w dt| == eps (so3 Exp / Jr masks), dt == 0 (covered by `signed`), quarter / half turns (Log masks, covered above)
    for dtp in ("float64", "float32"):
        add([4], B=2, gyro_mode="eps_tie", acc_mode="unit", dt_mode="const", dtype=dtp, known_rot=[False], gravity=STD_G)
        add([2, 2], B=1, gyro_mode="eps_tie", acc_mode="grav", dt_mode="const", dtype=dtp, known_rot=[True], gravity=-STD_G,
            cov_mode="vec")
    # (25) process-wide default dtype
    for c in cs[2::7]:
        if sum(c["chunks"]) <= 40:
            c["dtype_probe"] = True
    multi = [c for c in cs if len(c["chunks"]) >= 2 and not c.get("fail_at")]
    for c in multi[::3]:
        c["copy_probe"] = True
    for c in cs[1::6]:
        if sum(c["chunks"]) <= 40:
            c["grad_probe"] = True
    return cs


def corpus_interleave():
    """(17) fixed groups of objects served alternately"""
    rng = random.Random(20260926_16)
    mk = lambda parts, **kw: base_case(rng, "interleave", parts, **{"gyro_mode": "moderate", "acc_mode": "unit", "gravity": STD_G,
                                                                    "layout": "contig", **kw})
    bare = lambda parts, B: mk(parts, B=B, dtype="float32", bare=True, init_mode="default", cov_mode="default", gravity=STD_G, dt_mode="vary",
                               gravity_int=False, reset=False, prop_cov=True, positional=False, ctor_positional=False, subclass=False)
    return [[bare([2, 1, 2], 1), bare([1, 3], 2), bare([2, 2], 1)],          # (29) three objects built with NO argument at all
            [mk([2, 1, 3], B=2, dtype="float64"), mk([1, 2, 2], B=1, dtype="float32"), mk([3, 3], B=3, dtype="float64", reset=True)],
            [mk([1, 1, 1, 1], B=1, dtype="float32", init_mode="default"), mk([2, 2], B=1, dtype="float32", init_mode="default")],
            [mk([2, 3], B=2, dtype="float64", init_mode="default"), mk([4, 1], B=4, dtype="float64", init_mode="default", gravity=0.0)]]


def corpus_reuse():
    rng = random.Random(20260925_17)
    return [reuse_history(rng, 5, "reset"), reuse_history(rng, 4, "fullinit"), reuse_history(rng, 5, "reset")]


def gen_cases(ctx: Ctx):
    rng = ctx.rng
    cases = []
    # --- frames: every F in 1..200, one call
    reps = ctx.pick(1, 2)
    for F in range(1, 201):
        for _ in range(reps):
            if ctx.quick:
                B = rng.choice([1, 2, 3, 4]) if F <= 12 else (rng.choice([1, 1, 2]) if F <= 40 else 1)
                propc = True if F <= 16 else (rng.random() < 0.4 if F <= 40 else rng.random() < 0.06)
            else:
                B = rng.choice([1, 1, 2, 3, 4]) if F <= 64 else rng.choice([1, 1, 1, 2])
                propc = True if F <= 64 else rng.random() < 0.35
            cases.append(base_case(rng, "frames", [F], B=B, prop_cov=propc, reset=(not propc) or rng.random() < 0.3))
    # --- chunks: all compositions for small F
    Fmax = ctx.pick(5, 8)
    for F in range(2, Fmax + 1):
        for parts in compositions(F):
            if len(parts) == 1:
                continue
            cases.append(base_case(rng, "chunks", parts, B=rng.choice([1, 1, 2, 3]),
                                   rank=rng.choice([3, 3, 3, 2, 1 if max(parts) == 1 else 3])))
    if ctx.quick:       # a sample of the compositions of 6 and 7 (all of them in the thorough tier)
        for F in (6, 6, 6, 6, 6, 6, 7, 7, 7, 7, 7, 7):
            parts = rng.choice([p_ for p_ in compositions(F) if len(p_) > 1])
            cases.append(base_case(rng, "chunks", parts, B=rng.choice([1, 2]), rank=rng.choice([3, 3, 2])))
    # --- rank-1 / rank-2 inputs (always present)
    for n in (1, 2, 3, 5):
        cases.append(base_case(rng, "chunks", [1] * n, B=1, rank=1))
    for parts in ([3], [2, 4], [1, 1, 2], [17]):
        cases.append(base_case(rng, "chunks", parts, B=1, rank=2))
    # --- chunks: random chunkings of larger streams
    for _ in range(ctx.pick(32, 160)):
        c = rng.random()
        if ctx.quick:
            F = rng.randint(7, 24) if c < 0.8 else (rng.randint(25, 64) if c < 0.93 else rng.choice([65, 127, 128, 129, 200]))
        else:
            F = rng.randint(7, 40) if c < 0.7 else (rng.randint(41, 200) if c < 0.9 else rng.choice([64, 65, 127, 128, 129, 200]))
        cases.append(base_case(rng, "chunks", random_chunks(rng, F), B=rng.choice([1, 1, 2, 4]) if F <= 24 else 1,
                               rank=rng.choice([3, 3, 3, 2])))
    # --- histories: reset=True, mixed known rotation, explicit init_state, per-call covariances, prop_cov=False
    for _ in range(ctx.pick(40, 200)):
        F = rng.randint(2, 24)
        parts = random_chunks(rng, F)
        n = len(parts)
        c = base_case(rng, "history", parts, B=rng.choice([1, 2, 3]))
        c["reset"] = rng.random() < 0.35
        c["prop_cov"] = True if not c["reset"] else rng.random() < 0.6
        c["known_rot"] = [rng.random() < 0.4 for _ in range(n)]
        c["call_cov"] = [(rng.choice([True, "g", "a", "b1"]) if c["prop_cov"] and rng.random() < 0.35 else False) for _ in range(n)]
        kinds = [None, None, None, "basic", "cov", "cov+rij", "cov+rnone", "rij", "rnone", "covnone", "covnone+rij"]
        c["explicit_init"] = [rng.choice(kinds) for _ in range(n)]
        c["alias_init"] = rng.random() < 0.2
        cases.append(c)
    # --- (11) error paths: a request that raises between successful calls of a carried history
    for c in cases:
        if c["stream"] in ("chunks", "history") and rng.random() < 0.3:
            kinds = ERR_KINDS_ANY + (ERR_KINDS_COV * 2 if c["prop_cov"] else [])
            n = len(c["chunks"])
            c["fail_at"] = {str(rng.randint(0, n)): rng.choice(kinds) for _ in range(rng.choice([1, 1, 2]))}
        if len(c["chunks"]) >= 2 and rng.random() < 0.15:
            c["copy_probe"] = True
            c["copy_at"] = rng.randint(1, len(c["chunks"]) - 1)
        if sum(c["chunks"]) <= 24 and rng.random() < 0.1:
            c["grad_probe"] = True
        if sum(c["chunks"]) <= 40 and rng.random() < 0.1:
            c["dtype_probe"] = True
    return cases


def run_shapes(ctx: Ctx):
    """`_check` and the rank assert against the model"""
    P = pp()
    m = P.module.IMUPreintegrator()
    shapes = [[3], [1], [4], [5, 3], [1, 3], [7, 1], [2, 5, 3], [1, 1, 3], [4, 200, 1], [3, 1, 4]]
    reps = ctx.driver.run(["imu.shape " + " ".join(map(str, s)) for s in shapes])
    for s, rep in zip(shapes, reps):
        st, toks = common.parse_reply(rep)
        got = list(m._check(torch.zeros(*s)).shape)
        ctx.note_case(("shape", tuple(s)), True)
        ctx.count("shape")
        if st != "ok" or [int(t) for t in toks] != got:
            ctx.disagree("shape", {"kind": "shape", "shape": s}, f"_check{tuple(s)} -> {got}, model {toks}")
    combos = [(a, d, g) for a in range(1, 5) for d in range(1, 5) for g in range(1, 5)]
    reps = ctx.driver.run([f"imu.rankok {a} {d} {g}" for a, d, g in combos])
    for (a, d, g), rep in zip(combos, reps):
        st, toks = common.parse_reply(rep)
        want = toks[0] == "1"
        mk = lambda r, h: torch.full([1] * (r - 1) + [h], 0.01)
        try:
            P.module.IMUPreintegrator()(mk(d, 1), mk(g, 3), mk(a, 3))
            got = True
        except AssertionError:
            got = False
        except Exception:
            got = None
        ctx.note_case(("rankok", a, d, g), True)
        ctx.count("rankok")
        if want and got is not True:
            ctx.disagree("shape", {"kind": "rankok", "ranks": [a, d, g]}, f"ranks acc={a} dt={d} gyro={g}: model accepts, implementation {got}")
            ctx.fail({"kind": "rankok", "ranks": [a, d, g], "oracle": "rank"}, f"rank: equal ranks {a} <= 3 are rejected by forward")
        if (not want) and got is True:
            ctx.disagree("shape", {"kind": "rankok", "ranks": [a, d, g]}, f"ranks acc={a} dt={d} gyro={g}: model rejects, implementation accepts")
    # the constructor guard
    try:
        P.module.IMUPreintegrator(prop_cov=False, reset=False)
        ctx.disagree("shape", {"kind": "ctor"}, "prop_cov=False with reset=False accepted by the constructor")
    except RuntimeError:
        pass


def run(ctx: Ctx):
    torch.set_num_threads(2)
    rng = ctx.rng
    run_mode_order(ctx)          # (23) must see sizes that are fresh in this process: first of all
    run_shapes(ctx)
    run_large(ctx)               # (19)
    run_bulk(ctx)                # (34)
    run_poison(ctx)              # (32)
    run_toggle(ctx)              # (33)
    # deterministic corner corpus first (same for every seed), then the seeded random cases
    corpus = corner_corpus()
    reuse = corpus_reuse() + [reuse_history(rng, rng.randint(3, 6), rng.choice(["reset", "reset", "fullinit"]))
                              for _ in range(ctx.pick(6, 60))]
    for subs in reuse:
        run_reuse_history(ctx, subs)
    groups = corpus_interleave() + [[base_case(rng, "interleave", random_chunks(rng, rng.randint(2, 9)), B=rng.choice([1, 2, 3]))
                                     for _ in range(rng.choice([2, 3]))] for _ in range(ctx.pick(4, 40))]
    for g in groups:
        run_interleave(ctx, g)
    cases = gen_cases(ctx)
    # mixed-regime batches and the item-wise oracle also on seeded cases
    for c in cases:
        if len(c["chunks"]) >= 2 and rng.random() < 0.5:
            c["alias_probe"] = True
        if c["B"] >= 2 and sum(c["chunks"]) <= 12 and not any(c["call_cov"]) and rng.random() < 0.5:
            c["itemwise"] = True
            if rng.random() < 0.5:
                c["item_modes"] = [(rng.choice(["zero", "taylor", "small", "moderate", "large"]),
                                    rng.choice(["zero", "unit", "grav", "big"])) for _ in range(c["B"])]
    sub_cases = [c for subs in reuse[:3] for c in subs]          # the reuse calls, as fresh objects, against the model
    evaluate(ctx, corpus + sub_cases + cases)
    single = [c for c in corpus + cases if len(c["chunks"]) == 1 and c["rank"] == 3 and c["explicit_init"] == [None]
              and c.get("layout", "contig") != "alias"]
    pick = [c for c in single if c["stream"] == "corpus"] + [c for c in single if c["stream"] != "corpus" and sum(c["chunks"]) <= 64][:ctx.pick(40, 200)]
    run_integrate(ctx, pick)
    run_steps(ctx, [c for c in pick if sum(c["chunks"]) <= 64][:ctx.pick(60, 300)])      # (24)


def search(ctx: Ctx):
    """after a broken proof / correspondence without a failing input: evaluate the documented recursion (192 bits),
    chunk-invariance, rank equivalence and PSD on a dense structured grid of small cases"""
    rng = random.Random(ctx.seed * 7919 + 16)
    left = model_left(ctx)
    cases = []
    for F in list(range(1, 13)) + [16, 17, 31, 32, 33, 64, 100]:
        for kr in (False, True):
            for g in (0.0, STD_G):
                c = base_case(rng, "search", [F], B=2, dtype="float64", gravity=g)
                c["known_rot"] = [kr]
                cases.append(c)
    for F in range(2, 8):
        for parts in compositions(F):
            if len(parts) > 1:
                cases.append(base_case(rng, "search", parts, B=1, dtype="float64"))
    lines, metas = [], []
    for case in cases:
        D = build_data(case)
        impl = run_case_impl(ctx, case, D)
        if impl is None:
            continue
        guarded(ctx, case, "psd", oracle_psd, impl)
        guarded(ctx, case, "chunk", oracle_chunk, D, impl)
        guarded(ctx, case, "alias", oracle_alias, D, impl)
        for b in range(case["B"]):
            lines.append(model_line(case, D, b, 1, left))
            metas.append((case, D, b, impl))
    reps = par_driver(ctx, lines)
    for rep, (case, D, b, impl) in zip(reps, metas):
        sc = split_reply(case, parse_floats(rep))
        probs = [p for k, p in cmp_streams(case, D, b, impl, sc, starts_from_model(case, D, b, sc), "sequential recursion")
                 if k in ("rot", "vel", "pos")]
        if probs:
            ctx.fail({**strip(case), "oracle": "recursion", "item": b}, "recursion: " + probs[0])


def replay(ctx: Ctx, case) -> bool:
    c = dict(case["case"])
    c.pop("oracle", None)
    c.pop("item", None)
    n0 = len(ctx.failures) + len(ctx.known_hits)
    if c.get("kind") == "rankok":
        run_shapes(ctx)
    elif c.get("kind") == "reuse":
        run_reuse_history(ctx, c["subs"])
    elif c.get("kind") == "interleave":
        run_interleave(ctx, c["subs"])
    elif c.get("stream") == "large":
        run_large(ctx)
    elif c.get("stream") == "modeorder":
        run_mode_order(ctx)
    elif c.get("stream") == "bulk":
        run_bulk(ctx)
    elif c.get("stream") == "poison":
        run_poison(ctx)
    elif c.get("stream") == "toggle":
        run_toggle(ctx)
    elif c.get("kind") == "integrate":
        c["kind"] = "hist"
        run_integrate(ctx, [c])
    else:
        evaluate(ctx, [c])
        # always show the property's own statement for this case
        D = build_data(c)
        try:
            impl = run_impl(c, D)
            if not check_types(ctx, c, impl):
                raise Misbehaviour("types")
            reps = par_driver(ctx, [model_line(c, D, b, 1, False) for b in range(c["B"])])
            for b, rep in enumerate(reps):
                sc = split_reply(c, parse_floats(rep))
                for k, p in cmp_streams(c, D, b, impl, sc, starts_from_model(c, D, b, sc), "sequential recursion"):
                    if k in ("rot", "vel", "pos"):
                        ctx.fail({**strip(c), "oracle": "recursion", "item": b}, "recursion: " + p)
        except Exception as e:
            print("  implementation raised:", type(e).__name__, str(e)[:200])
    for f in ctx.failures:
        print("  fails:", f["what"])
    for kh in ctx.known_hits:
        print("  known finding", kh["finding"], ":", kh["what"])
    for d in ctx.disagreements:
        print("  model/implementation disagreement:", d["detail"])
    return len(ctx.failures) + len(ctx.known_hits) == n0 and not ctx.disagreements
