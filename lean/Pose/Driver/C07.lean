import Pose.Wire
import Pose.Driver.Lie
/-! Driver ops for C07. -/
namespace PP.Driver
open PP Wire

def opsC07 : List (String × Handler) := []

end PP.Driver
