import Proofs.Lemmas.LieExp
import Mathlib.Analysis.Complex.Trigonometric
/-!
# Explicit error bounds on the Taylor branches of `so3_Exp` and `so3_Jl` (C01)

For `0 < θ ≤ eps ≤ 1` the code uses truncated series; the matrices they produce are within `θ⁴/8`
(rotation) and `θ³/8` (the coupling matrix `V`) of the exact closed forms, entrywise.
-/
open Matrix NormedSpace
namespace PP
open Vec3 Quat Mat3
noncomputable section

theorem abs_comp_le_norm (x : Vec3 ℝ) : |x.x| ≤ x.norm ∧ |x.y| ≤ x.norm ∧ |x.z| ≤ x.norm := by
  unfold Vec3.norm Vec3.normSq
  refine ⟨Real.abs_le_sqrt ?_, Real.abs_le_sqrt ?_, Real.abs_le_sqrt ?_⟩ <;>
    nlinarith [mul_self_nonneg x.x, mul_self_nonneg x.y, mul_self_nonneg x.z]

theorem hatM_entry_le (x : Vec3 ℝ) (i j : Fin 3) : |hatM x i j| ≤ x.norm := by
  obtain ⟨hx, hy, hz⟩ := abs_comp_le_norm x
  have hn := Vec3.norm_nonneg x
  fin_cases i <;> fin_cases j <;> simp [hatM, hn, hx, hy, hz]

theorem hatM_sq_entry_le (x : Vec3 ℝ) (i j : Fin 3) : |(hatM x ^ 2) i j| ≤ x.norm ^ 2 := by
  have hn : x.norm ^ 2 = x.x * x.x + x.y * x.y + x.z * x.z := by rw [pow_two, Vec3.norm_sq]; rfl
  rw [hn, abs_le]
  fin_cases i <;> fin_cases j <;>
    simp [hatM, pow_succ, Matrix.mul_apply, Fin.sum_univ_three] <;>
    constructor <;> nlinarith [mul_self_nonneg x.x, mul_self_nonneg x.y, mul_self_nonneg x.z,
      mul_self_nonneg (x.x + x.y), mul_self_nonneg (x.x - x.y), mul_self_nonneg (x.x + x.z),
      mul_self_nonneg (x.x - x.z), mul_self_nonneg (x.y + x.z), mul_self_nonneg (x.y - x.z)]

/-- two quadratic polynomials in `K = x^` with the same constant term differ entrywise by at most
`|b-b'| θ + |c-c'| θ²` -/
theorem poly_entry_diff (a b c b' c' : ℝ) (x : Vec3 ℝ) (i j : Fin 3) :
    |(a • (1 : Matrix (Fin 3) (Fin 3) ℝ) + b • hatM x + c • (hatM x ^ 2)) i j
      - (a • (1 : Matrix (Fin 3) (Fin 3) ℝ) + b' • hatM x + c' • (hatM x ^ 2)) i j|
      ≤ |b - b'| * x.norm + |c - c'| * x.norm ^ 2 := by
  have e : (a • (1 : Matrix (Fin 3) (Fin 3) ℝ) + b • hatM x + c • (hatM x ^ 2)) i j
      - (a • (1 : Matrix (Fin 3) (Fin 3) ℝ) + b' • hatM x + c' • (hatM x ^ 2)) i j
      = (b - b') * hatM x i j + (c - c') * (hatM x ^ 2) i j := by
    simp only [Matrix.add_apply, Matrix.smul_apply, smul_eq_mul]; ring
  rw [e]
  calc |(b - b') * hatM x i j + (c - c') * (hatM x ^ 2) i j|
      ≤ |(b - b') * hatM x i j| + |(c - c') * (hatM x ^ 2) i j| := abs_add_le _ _
    _ = |b - b'| * |hatM x i j| + |c - c'| * |(hatM x ^ 2) i j| := by rw [abs_mul, abs_mul]
    _ ≤ |b - b'| * x.norm + |c - c'| * x.norm ^ 2 := by
        gcongr
        · exact hatM_entry_le x i j
        · exact hatM_sq_entry_le x i j

/-- `|sin θ/θ − (1 − θ²/6)| ≤ θ⁴/100` for `0 < θ ≤ 1` -/
theorem sinc_bound (th : ℝ) (h0 : 0 < th) (h1 : th ≤ 1) : |Real.sin th / th - (1 - th ^ 2 / 6)| ≤ th ^ 4 / 100 := by
  have hb := Real.sin_bound (x := th) (by rw [abs_of_pos h0]; exact h1)
  rw [abs_of_pos h0] at hb
  have e : Real.sin th / th - (1 - th ^ 2 / 6) = (Real.sin th - (th - th ^ 3 / 6)) / th := by field_simp
  rw [e, abs_div, abs_of_pos h0, div_le_iff₀ h0]
  calc _ ≤ th ^ 5 / 100 := hb
    _ = th ^ 4 / 100 * th := by ring

/-- `|(1 − cos θ)/θ² − 1/2| ≤ (5/96) θ²` for `0 < θ ≤ 1` -/
theorem cosc_bound (th : ℝ) (h0 : 0 < th) (h1 : th ≤ 1) :
    |(1 - Real.cos th) / (th * th) - 1 / 2| ≤ th ^ 2 * (5 / 96) := by
  have hb := Real.cos_bound (x := th) (by rw [abs_of_pos h0]; exact h1)
  rw [abs_of_pos h0] at hb
  have hpos : 0 < th * th := mul_pos h0 h0
  have e : (1 - Real.cos th) / (th * th) - 1 / 2 = -(Real.cos th - (1 - th ^ 2 / 2)) / (th * th) := by field_simp; ring
  rw [e, abs_div, abs_neg, abs_of_pos hpos, div_le_iff₀ hpos]
  calc _ ≤ th ^ 4 * (5 / 96) := hb
    _ = th ^ 2 * (5 / 96) * (th * th) := by ring

/-- `|(θ − sin θ)/θ³ − 1/6| ≤ θ²/100` for `0 < θ ≤ 1` -/
theorem sinc3_bound (th : ℝ) (h0 : 0 < th) (h1 : th ≤ 1) :
    |(th - Real.sin th) / (th * th * th) - 1 / 6| ≤ th ^ 2 / 100 := by
  have hb := Real.sin_bound (x := th) (by rw [abs_of_pos h0]; exact h1)
  rw [abs_of_pos h0] at hb
  have hpos : 0 < th * th * th := by positivity
  have e : (th - Real.sin th) / (th * th * th) - 1 / 6 = -(Real.sin th - (th - th ^ 3 / 6)) / (th * th * th) := by
    field_simp; ring
  rw [e, abs_div, abs_neg, abs_of_pos hpos, div_le_iff₀ hpos]
  calc _ ≤ th ^ 5 / 100 := hb
    _ = th ^ 2 / 100 * (th * th * th) := by ring
/-- the Taylor-branch quaternion of `so3Exp` gives the matrix `1 + b K + c K²` with polynomial `b`, `c` -/
theorem so3Exp_taylor_toMatrix (eps : ℝ) (x : Vec3 ℝ) (h : ¬ eps < x.norm) :
    (SO3matrix (so3Exp eps x)).toMatrix =
      (1 : ℝ) • (1 : Matrix (Fin 3) (Fin 3) ℝ)
        + (2 * (1 - 1 / 8 * x.norm ^ 2 + 1 / 384 * x.norm ^ 4) * (1 / 2 - 1 / 48 * x.norm ^ 2 + 1 / 3840 * x.norm ^ 4)) • hatM x
        + (2 * (1 / 2 - 1 / 48 * x.norm ^ 2 + 1 / 3840 * x.norm ^ 4) * (1 / 2 - 1 / 48 * x.norm ^ 2 + 1 / 3840 * x.norm ^ 4))
          • (hatM x ^ 2) := by
  unfold so3Exp
  simp only [lt_real, h, decide_false, Bool.false_eq_true, if_false, q_real, k_real, Nat.cast_one, Nat.cast_ofNat]
  rw [SO3matrix_mk_smul, polyK_toMatrix]
  congr 3 <;> ring

theorem taylor_b_bound (t : ℝ) (h0 : 0 ≤ t) (h1 : t ≤ 1) :
    |2 * (1 - 1 / 8 * t + 1 / 384 * t ^ 2) * (1 / 2 - 1 / 48 * t + 1 / 3840 * t ^ 2) - (1 - t / 6)| ≤ t ^ 2 / 100 := by
  have h2 : 0 ≤ t ^ 2 := by positivity
  have h3 : t ^ 3 ≤ t ^ 2 := by nlinarith
  have h3' : 0 ≤ t ^ 3 := by positivity
  have h4 : 0 ≤ t ^ 4 := by positivity
  have h4' : t ^ 4 ≤ t ^ 2 := by nlinarith
  rw [abs_le]; constructor <;> nlinarith

theorem taylor_c_bound (t : ℝ) (h0 : 0 ≤ t) (h1 : t ≤ 1) :
    |2 * (1 / 2 - 1 / 48 * t + 1 / 3840 * t ^ 2) * (1 / 2 - 1 / 48 * t + 1 / 3840 * t ^ 2) - 1 / 2| ≤ t / 24 := by
  have h2 : 0 ≤ t ^ 2 := by positivity
  have h2' : t ^ 2 ≤ t := by nlinarith
  have h3 : t ^ 3 ≤ t := by nlinarith
  have h3' : 0 ≤ t ^ 3 := by positivity
  have h4 : 0 ≤ t ^ 4 := by positivity
  have h4' : t ^ 4 ≤ t := by nlinarith
  rw [abs_le]; constructor <;> nlinarith

/-- Taylor branch of `so3Exp` (`0 < θ ≤ eps ≤ 1`): every entry of the matrix is within `θ⁴/8` of `exp (x^)` -/
theorem so3Exp_matrix_taylor_bound (eps : ℝ) (x : Vec3 ℝ) (h : ¬ eps < x.norm) (h1 : eps ≤ 1) (i j : Fin 3) :
    |(SO3matrix (so3Exp eps x)).toMatrix i j - NormedSpace.exp (hatM x) i j| ≤ x.norm ^ 4 / 8 := by
  have hle : x.norm ≤ 1 := le_trans (not_lt.mp h) h1
  rcases (Vec3.norm_nonneg x).eq_or_lt with hz | hpos
  · -- θ = 0: exact
    have hx := norm_zero_imp x hz.symm
    have h0 : 0 ≤ eps := by rw [← hz] at h; exact not_lt.mp h
    rw [so3Exp_matrix' eps x h0 (Or.inr hz.symm), sub_self, abs_zero, ← hz]; norm_num
  · have hne : x.norm ≠ 0 := ne_of_gt hpos
    have hE : NormedSpace.exp (hatM x) = (1 : ℝ) • (1 : Matrix (Fin 3) (Fin 3) ℝ) + (Real.sin x.norm / x.norm) • hatM x
        + ((1 - Real.cos x.norm) / (x.norm * x.norm)) • (hatM x ^ 2) := by
      rw [MatExp.exp_eq_rod (hatM x) x.norm hne (hatM_cube x), one_smul]
    rw [so3Exp_taylor_toMatrix eps x h, hE]
    refine le_trans (poly_entry_diff 1
      (2 * (1 - 1 / 8 * x.norm ^ 2 + 1 / 384 * x.norm ^ 4) * (1 / 2 - 1 / 48 * x.norm ^ 2 + 1 / 3840 * x.norm ^ 4))
      (2 * (1 / 2 - 1 / 48 * x.norm ^ 2 + 1 / 3840 * x.norm ^ 4) * (1 / 2 - 1 / 48 * x.norm ^ 2 + 1 / 3840 * x.norm ^ 4))
      (Real.sin x.norm / x.norm) ((1 - Real.cos x.norm) / (x.norm * x.norm)) x i j) ?_
    set th := x.norm with hth
    have ht0 : 0 ≤ th ^ 2 := by positivity
    have ht1 : th ^ 2 ≤ 1 := by nlinarith
    have hb1 := taylor_b_bound (th ^ 2) ht0 ht1
    have hb2 := sinc_bound th hpos hle
    have hc1 := taylor_c_bound (th ^ 2) ht0 ht1
    have hc2 := cosc_bound th hpos hle
    have e4 : th ^ 4 = (th ^ 2) ^ 2 := by ring
    have hb : |2 * (1 - 1 / 8 * th ^ 2 + 1 / 384 * th ^ 4) * (1 / 2 - 1 / 48 * th ^ 2 + 1 / 3840 * th ^ 4) - Real.sin th / th|
        ≤ th ^ 4 / 50 := by
      rw [e4]
      have := abs_sub_le (2 * (1 - 1 / 8 * th ^ 2 + 1 / 384 * (th ^ 2) ^ 2) * (1 / 2 - 1 / 48 * th ^ 2 + 1 / 3840 * (th ^ 2) ^ 2))
        (1 - th ^ 2 / 6) (Real.sin th / th)
      rw [abs_sub_comm (1 - th ^ 2 / 6) (Real.sin th / th)] at this
      rw [e4] at hb2
      linarith
    have hc : |2 * (1 / 2 - 1 / 48 * th ^ 2 + 1 / 3840 * th ^ 4) * (1 / 2 - 1 / 48 * th ^ 2 + 1 / 3840 * th ^ 4)
        - (1 - Real.cos th) / (th * th)| ≤ th ^ 2 / 10 := by
      rw [e4]
      have := abs_sub_le (2 * (1 / 2 - 1 / 48 * th ^ 2 + 1 / 3840 * (th ^ 2) ^ 2) * (1 / 2 - 1 / 48 * th ^ 2 + 1 / 3840 * (th ^ 2) ^ 2))
        (1 / 2) ((1 - Real.cos th) / (th * th))
      rw [abs_sub_comm (1 / 2 : ℝ) ((1 - Real.cos th) / (th * th))] at this
      linarith
    have h4 : 0 ≤ th ^ 4 := by positivity
    calc _ ≤ th ^ 4 / 50 * th + th ^ 2 / 10 * th ^ 2 := by gcongr
      _ ≤ th ^ 4 / 8 := by nlinarith
theorem blk4_entry_bound (M M' : Matrix (Fin 3) (Fin 3) ℝ) (v v' : Fin 3 → ℝ) (B : ℝ)
    (hM : ∀ i j, |M i j - M' i j| ≤ B) (hv : ∀ i, |v i - v' i| ≤ B) (hB : 0 ≤ B) (i j : Fin 4) :
    |blk4 M v 1 i j - blk4 M' v' 1 i j| ≤ B := by
  fin_cases i <;> fin_cases j <;> simp [blk4] <;>
    first | exact hM _ _ | exact hv _ | exact hB

/-- `|(M v)ᵢ − (M' v)ᵢ| ≤ B (|v₀| + |v₁| + |v₂|)` when the entries of `M`, `M'` differ by at most `B` -/
theorem mulVec_entry_diff (M M' : Matrix (Fin 3) (Fin 3) ℝ) (v : Fin 3 → ℝ) (B : ℝ)
    (hM : ∀ i j, |M i j - M' i j| ≤ B) (i : Fin 3) :
    |M.mulVec v i - M'.mulVec v i| ≤ B * (|v 0| + |v 1| + |v 2|) := by
  have e : M.mulVec v i - M'.mulVec v i = (M i 0 - M' i 0) * v 0 + (M i 1 - M' i 1) * v 1 + (M i 2 - M' i 2) * v 2 := by
    simp only [Matrix.mulVec, dotProduct, Fin.sum_univ_three]; ring
  rw [e]
  have h0 := hM i 0; have h1 := hM i 1; have h2 := hM i 2
  calc _ ≤ |(M i 0 - M' i 0) * v 0| + |(M i 1 - M' i 1) * v 1| + |(M i 2 - M' i 2) * v 2| := abs_add_three _ _ _
    _ = |M i 0 - M' i 0| * |v 0| + |M i 1 - M' i 1| * |v 1| + |M i 2 - M' i 2| * |v 2| := by simp only [abs_mul]
    _ ≤ B * |v 0| + B * |v 1| + B * |v 2| := by gcongr
    _ = B * (|v 0| + |v 1| + |v 2|) := by ring

theorem so3Jl_taylor_toMatrix (eps : ℝ) (x : Vec3 ℝ) (h : ¬ eps < x.norm) :
    (so3Jl eps x).toMatrix = (1 : ℝ) • (1 : Matrix (Fin 3) (Fin 3) ℝ) + (1 / 2 - 1 / 24 * x.norm ^ 2) • hatM x
      + (1 / 6 - 1 / 120 * x.norm ^ 2) • (hatM x ^ 2) := by
  unfold so3Jl so3JlCoef
  simp only [lt_real, h, decide_false, Bool.false_eq_true, if_false, q_real, k_real, Nat.cast_one, Nat.cast_ofNat]
  rw [polyK_toMatrix]
  congr 3 <;> ring

/-- Taylor branch of `so3_Jl` (`0 < θ ≤ eps ≤ 1`): entries within `θ³/8` of the exact `V = Σ Kⁿ/(n+1)!` -/
theorem so3Jl_taylor_bound (eps : ℝ) (x : Vec3 ℝ) (h : ¬ eps < x.norm) (h1 : eps ≤ 1) (hpos : 0 < x.norm) (i j : Fin 3) :
    |(so3Jl eps x).toMatrix i j -
      ((1 : Matrix (Fin 3) (Fin 3) ℝ) + ((1 - Real.cos x.norm) / (x.norm * x.norm)) • hatM x
          + ((x.norm - Real.sin x.norm) / (x.norm * x.norm * x.norm)) • (hatM x ^ 2)) i j| ≤ x.norm ^ 3 / 8 := by
  have hle : x.norm ≤ 1 := le_trans (not_lt.mp h) h1
  have hE : ((1 : Matrix (Fin 3) (Fin 3) ℝ) + ((1 - Real.cos x.norm) / (x.norm * x.norm)) • hatM x
          + ((x.norm - Real.sin x.norm) / (x.norm * x.norm * x.norm)) • (hatM x ^ 2))
      = (1 : ℝ) • (1 : Matrix (Fin 3) (Fin 3) ℝ) + ((1 - Real.cos x.norm) / (x.norm * x.norm)) • hatM x
          + ((x.norm - Real.sin x.norm) / (x.norm * x.norm * x.norm)) • (hatM x ^ 2) := by rw [one_smul]
  rw [so3Jl_taylor_toMatrix eps x h, hE]
  refine le_trans (poly_entry_diff 1 (1 / 2 - 1 / 24 * x.norm ^ 2) (1 / 6 - 1 / 120 * x.norm ^ 2)
    ((1 - Real.cos x.norm) / (x.norm * x.norm)) ((x.norm - Real.sin x.norm) / (x.norm * x.norm * x.norm)) x i j) ?_
  set th := x.norm with hth
  have hc2 := cosc_bound th hpos hle
  have hs2 := sinc3_bound th hpos hle
  have ht0 : 0 ≤ th ^ 2 := by positivity
  have hb : |1 / 2 - 1 / 24 * th ^ 2 - (1 - Real.cos th) / (th * th)| ≤ th ^ 2 / 10 := by
    have := abs_sub_le (1 / 2 - 1 / 24 * th ^ 2) (1 / 2) ((1 - Real.cos th) / (th * th))
    rw [abs_sub_comm (1 / 2 : ℝ) ((1 - Real.cos th) / (th * th))] at this
    have e : |1 / 2 - 1 / 24 * th ^ 2 - 1 / 2| = 1 / 24 * th ^ 2 := by
      rw [show (1 / 2 - 1 / 24 * th ^ 2 - 1 / 2 : ℝ) = -(1 / 24 * th ^ 2) by ring, abs_neg, abs_of_nonneg (by positivity)]
    linarith
  have hc : |1 / 6 - 1 / 120 * th ^ 2 - (th - Real.sin th) / (th * th * th)| ≤ th ^ 2 / 50 := by
    have := abs_sub_le (1 / 6 - 1 / 120 * th ^ 2) (1 / 6) ((th - Real.sin th) / (th * th * th))
    rw [abs_sub_comm (1 / 6 : ℝ) ((th - Real.sin th) / (th * th * th))] at this
    have e : |1 / 6 - 1 / 120 * th ^ 2 - 1 / 6| = 1 / 120 * th ^ 2 := by
      rw [show (1 / 6 - 1 / 120 * th ^ 2 - 1 / 6 : ℝ) = -(1 / 120 * th ^ 2) by ring, abs_neg, abs_of_nonneg (by positivity)]
    linarith
  have h3 : 0 ≤ th ^ 3 := by positivity
  calc _ ≤ th ^ 2 / 10 * th + th ^ 2 / 50 * th ^ 2 := by gcongr
    _ ≤ th ^ 3 / 8 := by nlinarith

/-- Taylor branch of `se3Exp` (`0 < ‖φ‖ ≤ eps ≤ 1`): every entry of the 4×4 matrix is within
`(θ³/8)(1 + |τ₀| + |τ₁| + |τ₂|)` of `exp (ξ^)` -/
theorem se3Exp_matrix_taylor_bound (eps : ℝ) (x : se3 ℝ) (h : ¬ eps < x.phi.norm) (h1 : eps ≤ 1) (hpos : 0 < x.phi.norm)
    (i j : Fin 4) :
    |(SE3matrix (se3Exp eps x)).toMatrix4 i j - NormedSpace.exp (se3Gen x) i j|
      ≤ x.phi.norm ^ 3 / 8 * (1 + |x.tau.x| + |x.tau.y| + |x.tau.z|) := by
  have hle : x.phi.norm ≤ 1 := le_trans (not_lt.mp h) h1
  have hne : x.phi.norm ≠ 0 := ne_of_gt hpos
  rw [se3Gen_blk, exp_blk4_hat x.phi _ hne, SE3matrix_blk]
  have hB : 0 ≤ x.phi.norm ^ 3 / 8 * (1 + |x.tau.x| + |x.tau.y| + |x.tau.z|) := by positivity
  have h3 : 0 ≤ x.phi.norm ^ 3 := by positivity
  refine blk4_entry_bound _ _ _ _ _ ?_ ?_ hB i j
  · intro a b
    refine le_trans (so3Exp_matrix_taylor_bound eps x.phi h h1 a b) ?_
    have : x.phi.norm ^ 4 ≤ x.phi.norm ^ 3 := by nlinarith
    have hs : 0 ≤ |x.tau.x| + |x.tau.y| + |x.tau.z| := by positivity
    nlinarith
  · intro a
    show |((so3Jl eps x.phi).mulVec x.tau).toFun a - _| ≤ _
    rw [← mulVec_toFun]
    refine le_trans (mulVec_entry_diff _ _ _ _ (so3Jl_taylor_bound eps x.phi h h1 hpos) a) ?_
    have e : |x.tau.toFun 0| + |x.tau.toFun 1| + |x.tau.toFun 2| = |x.tau.x| + |x.tau.y| + |x.tau.z| := by
      simp [Vec3.toFun]
    rw [e]
    have hs : 0 ≤ |x.tau.x| + |x.tau.y| + |x.tau.z| := by positivity
    nlinarith
end
end PP
