import Proofs.Lemmas.AlignRun
import Pose.Model.Pnp
import Mathlib.Analysis.SpecialFunctions.Pow.Real
/-!
# Lemmas for C17, third part (pass 3): equality case of the Kabsch inequality and uniqueness of the optimal rotation,
`svdstf`'s error path and exact scale, the tail of EPnP (`_compute_scale`)
-/
namespace PP.C17
open PP Vec3 Quat Mat3 Align Pnp


/-- an orthogonal matrix with `Q₀₀ = Q₁₁ = 1` is `diag(1, 1, Q₂₂)` -/
theorem orth_diag_of_two_ones (Q : Mat3 ℝ) (hQ : Mat3.IsOrth Q) (h0 : Q.r0.x = 1) (h1 : Q.r1.y = 1) :
    Q = diag3 ⟨1, 1, Q.r2.z⟩ := by
  have hc := Mat3.IsOrth.tmul hQ
  have e : ∀ (A B : Mat3 ℝ), A = B → A.r0.x = B.r0.x ∧ A.r1.y = B.r1.y := by intro A B h; subst h; simp
  obtain ⟨r00, r11⟩ := e _ _ hQ
  obtain ⟨c00, c11⟩ := e _ _ hc
  revert r00 r11 c00 c11; lie_unfold; intro r00 r11 c00 c11
  rw [h0] at r00 c00; rw [h1] at r11 c11
  have a1 : Q.r0.y = 0 := by nlinarith [sq_nonneg Q.r0.y, sq_nonneg Q.r0.z]
  have a2 : Q.r0.z = 0 := by nlinarith [sq_nonneg Q.r0.y, sq_nonneg Q.r0.z]
  have a3 : Q.r1.x = 0 := by nlinarith [sq_nonneg Q.r1.x, sq_nonneg Q.r1.z]
  have a4 : Q.r1.z = 0 := by nlinarith [sq_nonneg Q.r1.x, sq_nonneg Q.r1.z]
  have a5 : Q.r2.x = 0 := by nlinarith [sq_nonneg Q.r1.x, sq_nonneg Q.r2.x]
  have a6 : Q.r2.y = 0 := by nlinarith [sq_nonneg Q.r0.y, sq_nonneg Q.r2.y]
  simp only [diag3]
  mat3_ext <;> simp [a1, a2, a3, a4, a5, a6, h0, h1]

/-- **equality case of the Kabsch inequality**: if the margin `s₂ + det(Q)·s₃` is positive, an orthogonal `Q` attaining
`Σ Q_ii s_i = s₁ + s₂ + det(Q) s₃` is `diag(1, 1, det Q)` -/
theorem kabsch_eq_case (Q : Mat3 ℝ) (hQ : Mat3.IsOrth Q) (s : Vec3 ℝ) (h12 : s.y ≤ s.x) (h23 : s.z ≤ s.y) (h3 : 0 ≤ s.z)
    (hgap : 0 < s.y + Q.det * s.z)
    (heq : Q.r0.x * s.x + Q.r1.y * s.y + Q.r2.z * s.z = s.x + s.y + Q.det * s.z) :
    Q = diag3 ⟨1, 1, Q.det⟩ := by
  obtain ⟨a1, a2, a3, b1, b2, b3⟩ := hQ.diag_le
  have key : Q.r0.x = 1 ∧ Q.r1.y = 1 := by
    rcases hQ.det_cases with hd | hd
    · rw [hd] at heq hgap
      have hs2 : 0 < s.y := by nlinarith
      have t1 : 0 ≤ (1 - Q.r0.x) * s.x := mul_nonneg (by linarith) (by linarith)
      have t2 : 0 ≤ (1 - Q.r1.y) * s.y := mul_nonneg (by linarith) (by linarith)
      have t3 : 0 ≤ (1 - Q.r2.z) * s.z := mul_nonneg (by linarith) h3
      have z1 : (1 - Q.r0.x) * s.x = 0 := by nlinarith
      have z2 : (1 - Q.r1.y) * s.y = 0 := by nlinarith
      have hs1 : 0 < s.x := by linarith
      constructor
      · rcases mul_eq_zero.mp z1 with h | h
        · linarith
        · linarith
      · rcases mul_eq_zero.mp z2 with h | h
        · linarith
        · linarith
    · have ht := hQ.trace_le_of_det_neg hd
      simp only [Mat3.trace] at ht
      rw [hd] at heq hgap
      have g2 : 0 < s.y - s.z := by linarith
      have g1 : 0 < s.x - s.z := by linarith
      have t1 : 0 ≤ (1 - Q.r0.x) * (s.x - s.z) := mul_nonneg (by linarith) g1.le
      have t2 : 0 ≤ (1 - Q.r1.y) * (s.y - s.z) := mul_nonneg (by linarith) g2.le
      have t3 : 0 ≤ (1 - (Q.r0.x + Q.r1.y + Q.r2.z)) * s.z := mul_nonneg (by linarith) h3
      have z1 : (1 - Q.r0.x) * (s.x - s.z) = 0 := by nlinarith
      have z2 : (1 - Q.r1.y) * (s.y - s.z) = 0 := by nlinarith
      constructor
      · rcases mul_eq_zero.mp z1 with h | h
        · linarith
        · linarith
      · rcases mul_eq_zero.mp z2 with h | h
        · linarith
        · linarith
  have hd := orth_diag_of_two_ones Q hQ key.1 key.2
  have hdet : Q.det = Q.r2.z := by
    conv_lhs => rw [hd]
    rw [det_diag3]; simp
  rw [hdet]; exact hd

/-- **the optimal rotation is unique when `s₂ + det(U Vh)·s₃ > 0`**: any proper rotation attaining the maximum of `⟨R, M⟩`
is the rotation `svdtf` chooses — whatever SVD the kernel returned. (This margin is exactly the conditioning the
correspondence check uses to decide when the implementation's rotation block may be compared with the model's.) -/
theorem optimal_rotation_unique (M : Mat3 ℝ) (d : SVD3 ℝ) (h : SVDOk M d) (hgap : 0 < d.S.y + (d.U.mul d.Vh).det * d.S.z)
    (R' : Mat3 ℝ) (hR' : Mat3.IsRot R') (hopt : Mat3.frob R' M = Mat3.frob (rotOf d) M) : R' = rotOf d := by
  have hUt := h.orthU.tmul
  have hVt := h.orthV.tmul
  have hU : d.U.mul d.U.transpose = Mat3.one := h.orthU
  have hV : d.Vh.mul d.Vh.transpose = Mat3.one := h.orthV
  set Q := (d.U.transpose.mul R').mul d.Vh.transpose with hQdef
  have hQ : Mat3.IsOrth Q := (h.orthU.transpose.mul hR'.1).mul h.orthV.transpose
  have hdet : Q.det = (d.U.mul d.Vh).det := by
    rw [hQdef, Mat3.det_mul, Mat3.det_mul, Mat3.det_mul, Mat3.det_transpose, Mat3.det_transpose, hR'.2]; ring
  have hval : Q.r0.x * d.S.x + Q.r1.y * d.S.y + Q.r2.z * d.S.z = d.S.x + d.S.y + Q.det * d.S.z := by
    rw [hdet, ← frob_rotOf M d h, ← hopt]
    conv_rhs => rw [← h.recon]
    rw [frob_svd]
  have hQe := kabsch_eq_case Q hQ d.S h.s12 h.s23 h.s3 (by rw [hdet]; exact hgap) hval
  -- R' = U Q Vh
  have hR : R' = (d.U.mul Q).mul d.Vh := by
    rw [hQdef]
    calc R' = (d.U.mul d.U.transpose).mul (R'.mul (d.Vh.transpose.mul d.Vh)) := by rw [hU, hVt, Mat3.mul_one', Mat3.one_mul']
      _ = (d.U.mul ((d.U.transpose.mul R').mul d.Vh.transpose)).mul d.Vh := by
          simp only [Mat3.mul_assoc']
  rw [hR, hQe, hdet]
  unfold rotOf
  rcases (h.orthU.mul h.orthV).det_cases with h1 | h1
  · rw [h1]; norm_num
    have : diag3 (⟨1, 1, 1⟩ : Vec3 ℝ) = Mat3.one := by simp only [diag3]; mat3_ext <;> lie_unfold
    rw [this, Mat3.mul_one']
  · rw [h1]; norm_num
    rw [flipLastCol_eq]

/-- two SVDs of the same matrix (LAPACK is free to choose signs and, for repeated or zero singular values, whole
subspaces) give rotations with the same pairing, hence `svdtf` results with the same cost -/
theorem pairing_svd_independent (M : Mat3 ℝ) (d d' : SVD3 ℝ) (h : SVDOk M d) (h' : SVDOk M d') :
    Mat3.frob (rotOf d) M = Mat3.frob (rotOf d') M :=
  le_antisymm (frob_le_rotOf M d' h' _ (rotOf_isRot d h.orthU h.orthV)) (frob_le_rotOf M d h _ (rotOf_isRot d' h'.orthU h'.orthV))


/-- `mat2Sim3(check=True)` on `[c·R | t]` with `R` a proper rotation and `0 ≤ c ≤ atol`: the rank test fires
("Rotation matrix not full rank") -/
theorem mat2Sim3_small_scale_raises (detK : Mat3 ℝ → ℝ) (hdet : ∀ M, detK M = M.det) (rtol atol : ℝ) (ha0 : 0 ≤ atol)
    (R : Mat3 ℝ) (hR : Mat3.IsRot R) (c : ℝ) (hc0 : 0 ≤ c) (hc : c ≤ atol) (t last : Vec3 ℝ) (l3 : ℝ) :
    mat2Sim3 detK true rtol atol ⟨.m34, Mat3.smul c R, t, last, l3⟩ = .error .notFullRank := by
  have hd : (Mat3.smul c R).det = c * c * c := by rw [Mat3.det_smul, hR.2, mul_one]
  have hp : scaleTiny rtol atol (powThird (detK (Mat3.smul c R))) = true := by
    rw [hdet, hd]
    rcases eq_or_lt_of_le hc0 with h0 | hpos
    · subst h0
      simp [powThird, scaleTiny, closeTo, sabs_real, ha0]
    · rw [powThird_cube c hpos, scaleTiny_some _ _ _ hpos]; simpa using hc
  simp only [mat2Sim3, mat2Sim3Batch, scaledRotBatch, List.map_cons, List.map_nil, rankTestFails, List.isEmpty_cons,
    Bool.not_false, List.all_cons, List.all_nil, Bool.and_true, hp, if_true]

theorem umeyamaScale_nonneg (ps : Pairs ℝ) (d : SVD3 ℝ) (h : SVDOk (Hmat ps) d) : 0 ≤ umeyamaScale d ps := by
  unfold umeyamaScale
  apply div_nonneg
  · have h23 := h.s23; have h12 := h.s12; have h3 := h.s3
    rcases (h.orthU.mul h.orthV).det_cases with h1 | h1 <;> rw [h1] <;> nlinarith
  · rw [varSource_eq]
    apply mul_nonneg
    · unfold energyS; apply ssum_nonneg; intro x hx
      obtain ⟨p, _, rfl⟩ := List.mem_map.mp hx; exact Align.normSq_nonneg _
    · positivity

/-- cost of the similarity `p ↦ c·R p + (c_t − c·R c_s)` for an orthogonal `R` in closed form -/
theorem cost_centred_similarity (R : Mat3 ℝ) (hR : Mat3.IsOrth R) (c : ℝ) (ps : Pairs ℝ) :
    cost (affine (Mat3.smul c R) ((mean (tgts ps)).sub ((Mat3.smul c R).mulVec (mean (srcs ps))))) ps
      = c * c * energyS (centered ps) + energyT (centered ps) - 2 * c * Mat3.frob R (crossCov (centered ps)) := by
  rw [cost_affine_centered, cost_expand_scaled _ hR]
  have h0 : ((((Mat3.smul c R).mulVec (mean (srcs ps))).add
      ((mean (tgts ps)).sub ((Mat3.smul c R).mulVec (mean (srcs ps))))).sub (mean (tgts ps))).normSq = 0 := by
    lie_unfold; ring
  rw [h0]; ring

/-- a similarity reproducing all correspondences exactly has `Σ‖t̃‖² = s²·Σ‖s̃‖²` -/
theorem energyT_of_exact (R : Mat3 ℝ) (hR : Mat3.IsOrth R) (c : ℝ) (t : Vec3 ℝ) (ps : Pairs ℝ)
    (hex : ∀ p ∈ ps, affine (Mat3.smul c R) t p.1 = p.2) :
    energyT (centered ps) = c * c * energyS (centered ps) := by
  have h0 : cost (affine (Mat3.smul c R) t) ps = 0 := (cost_eq_zero_iff _ _).mpr hex
  rw [cost_affine_centered] at h0
  have hn1 : 0 ≤ ssum ((centered ps).map fun p => (((Mat3.smul c R).mulVec p.1).sub p.2).normSq) := by
    apply ssum_nonneg; intro x hx; obtain ⟨p, _, rfl⟩ := List.mem_map.mp hx; exact Align.normSq_nonneg _
  have hn2 : 0 ≤ (ps.length : ℝ) * ((((Mat3.smul c R).mulVec (mean (srcs ps))).add t).sub (mean (tgts ps))).normSq :=
    mul_nonneg (Nat.cast_nonneg _) (Align.normSq_nonneg _)
  have hz : ssum ((centered ps).map fun p => (((Mat3.smul c R).mulVec p.1).sub p.2).normSq) = 0 := by linarith
  have hterm := ssum_eq_zero _ (by
    intro x hx; obtain ⟨p, _, rfl⟩ := List.mem_map.mp hx; exact Align.normSq_nonneg _) hz
  unfold energyT energyS
  rw [← ssum_map_mul]
  congr 1
  apply List.map_congr_left
  intro p hp
  have := hterm _ (List.mem_map.mpr ⟨p, hp, rfl⟩)
  have hv := normSq_eq_zero _ this
  have e : p.2 = (Mat3.smul c R).mulVec p.1 := by
    have hx := congrArg Vec3.x hv; have hy := congrArg Vec3.y hv; have hz' := congrArg Vec3.z hv
    simp only [Vec3.sub, Vec3.zero, k_real, Nat.cast_zero] at hx hy hz'
    apply Vec3.ext' <;> linarith
  rw [e, Mat3.smul_mulVec]
  have := hR.normSq_mulVec p.1
  rw [← this]; lie_unfold; ring

/-- **on exact similarity correspondences Umeyama's scale is the true scale** (sources not all equal) -/
theorem umeyamaScale_exact (ps : Pairs ℝ) (hN : ps ≠ []) (hA : 0 < energyS (centered ps)) (d : SVD3 ℝ) (h : SVDOk (Hmat ps) d)
    (X₀ : Sim3 ℝ) (hq₀ : X₀.q.normSq = 1) (hs₀ : 0 ≤ X₀.s) (hex : ∀ p ∈ ps, Sim3Act X₀ p.1 = p.2) :
    umeyamaScale d ps = X₀.s := by
  have hrot := rotOf_isRot d h.orthU h.orthV
  have hrot₀ := isRot_SO3matrix _ hq₀
  have hex' : ∀ p ∈ ps, affine (Mat3.smul X₀.s (SO3matrix X₀.q)) X₀.t p.1 = p.2 := by
    intro p hp; rw [← Sim3Act_eq_affine]; exact hex p hp
  have hB := energyT_of_exact _ hrot₀.1 _ _ ps hex'
  have hc := umeyamaScale_eq ps hN hA.ne' d h
  have hc0 := umeyamaScale_nonneg ps d h
  -- cost of the code's similarity = B − c²A ≥ 0, and ≤ cost of X₀ = 0
  have hcost := cost_centred_similarity (rotOf d) hrot.1 (umeyamaScale d ps) ps
  have hnn := cost_nonneg (affine (Mat3.smul (umeyamaScale d ps) (rotOf d))
    ((mean (tgts ps)).sub ((Mat3.smul (umeyamaScale d ps) (rotOf d)).mulVec (mean (srcs ps))))) ps
  -- X₀ has cost 0 = s₀²A + B − 2 s₀ m₀ + N‖d‖² with m₀ ≤ m*
  have h0 : cost (affine (Mat3.smul X₀.s (SO3matrix X₀.q)) X₀.t) ps = 0 := (cost_eq_zero_iff _ _).mpr hex'
  rw [cost_affine_centered, cost_expand_scaled _ hrot₀.1] at h0
  have hle := frob_le_rotOf _ _ h _ hrot₀
  rw [frob_Hmat, frob_Hmat] at hle
  have hNpos : (0:ℝ) < (ps.length : ℝ) := by
    have : 0 < ps.length := List.length_pos_of_ne_nil hN
    positivity
  have hle' : Mat3.frob (SO3matrix X₀.q) (crossCov (centered ps)) ≤ Mat3.frob (rotOf d) (crossCov (centered ps)) := by
    have hpos : (0:ℝ) < 1 / (ps.length : ℝ) := by positivity
    exact le_of_mul_le_mul_left hle hpos
  have hd' : 0 ≤ (ps.length : ℝ) * ((((Mat3.smul X₀.s (SO3matrix X₀.q)).mulVec (mean (srcs ps))).add X₀.t).sub
      (mean (tgts ps))).normSq := mul_nonneg hNpos.le (Align.normSq_nonneg _)
  rw [hcost] at hnn
  generalize umeyamaScale d ps = c at hc hc0 hnn ⊢
  generalize Mat3.frob (rotOf d) (crossCov (centered ps)) = m at hc hle' hnn
  generalize Mat3.frob (SO3matrix X₀.q) (crossCov (centered ps)) = m₀ at hle' h0
  generalize energyS (centered ps) = A at hA hc hB hnn h0
  generalize energyT (centered ps) = B at hB hnn h0
  generalize (ps.length : ℝ) * ((((Mat3.smul X₀.s (SO3matrix X₀.q)).mulVec (mean (srcs ps))).add X₀.t).sub
      (mean (tgts ps))).normSq = D at hd' h0
  subst hc
  subst hB
  -- hnn : 0 ≤ c²A + s₀²A − 2c(cA) ⇒ c² ≤ s₀²; h0 ⇒ s₀²A + s₀²A − 2 s₀ m₀ + D = 0 ⇒ s₀ m₀ ≥ s₀² A ⇒ (m₀ ≤ cA) s₀ c ≥ s₀²
  have e1 : c * c ≤ X₀.s * X₀.s := by
    have : 0 ≤ A * (X₀.s * X₀.s - c * c) := by nlinarith
    nlinarith [this]
  have e2 : X₀.s * X₀.s * A ≤ X₀.s * (c * A) := by nlinarith [mul_nonneg hs₀ (sub_nonneg.mpr hle')]
  have e3 : X₀.s * X₀.s ≤ X₀.s * c := by
    have : A * (X₀.s * X₀.s) ≤ A * (X₀.s * c) := by nlinarith
    exact le_of_mul_le_mul_left this hA
  nlinarith [sq_nonneg (X₀.s - c), mul_nonneg hs₀ hc0]


/-- the map `p ↦ λ·(R p + t)` (camera-frame coordinates up to the unknown factor of the null vector) -/
noncomputable def scaledAffine (lam : ℝ) (R : Mat3 ℝ) (t : Vec3 ℝ) (p : Vec3 ℝ) : Vec3 ℝ := (affine R t p).smul lam

/-- barycentric combinations commute with affine maps (weights summing to 1) -/
theorem combine_scaledAffine (w : W4 ℝ) (hw : w.sum = 1) (lam : ℝ) (R : Mat3 ℝ) (t : Vec3 ℝ) (c : Ctrl ℝ) :
    combine w (c.map (scaledAffine lam R t)) = scaledAffine lam R t (combine w c) := by
  have h : w.a0 + w.a1 + w.a2 + w.a3 = 1 := hw
  simp only [combine, Ctrl.map, scaledAffine, affine]
  apply Vec3.ext' <;> lie_unfold
  · linear_combination (lam * t.x) * h
  · linear_combination (lam * t.y) * h
  · linear_combination (lam * t.z) * h

theorem combine_smul (w : W4 ℝ) (s : ℝ) (c : Ctrl ℝ) : combine w (c.smul s) = (combine w c).smul s := by
  simp only [combine, Ctrl.smul, Ctrl.map]; apply Vec3.ext' <;> lie_unfold <;> ring

theorem vsum_map_scaledAffine (lam : ℝ) (R : Mat3 ℝ) (t : Vec3 ℝ) (ps : Cloud ℝ) :
    vsum (ps.map (scaledAffine lam R t)) = ((R.mulVec (vsum ps)).add (t.smul (ps.length : ℝ))).smul lam := by
  induction ps with
  | nil => apply Vec3.ext' <;> simp [Vec3.smul, Vec3.add, Vec3.zero, Mat3.mulVec, Vec3.dot]
  | cons p ps ih =>
    simp only [List.map_cons, vsum_cons, ih, List.length_cons, Nat.cast_succ, scaledAffine, affine]
    apply Vec3.ext' <;> lie_unfold <;> ring

theorem mean_map_scaledAffine (lam : ℝ) (R : Mat3 ℝ) (t : Vec3 ℝ) (ps : Cloud ℝ) (hne : ps ≠ []) :
    mean (ps.map (scaledAffine lam R t)) = scaledAffine lam R t (mean ps) := by
  have hN : ((ps.length : ℕ) : ℝ) ≠ 0 := by
    have : 0 < ps.length := List.length_pos_of_ne_nil hne
    positivity
  simp only [mean, vsum_map_scaledAffine, List.length_map, scaledAffine, affine, k_real, Nat.cast_one]
  apply Vec3.ext' <;> lie_unfold <;> field_simp

theorem norm_smul_orth (R : Mat3 ℝ) (hR : Mat3.IsOrth R) (lam : ℝ) (v : Vec3 ℝ) :
    ((R.mulVec v).smul lam).norm = |lam| * v.norm := by
  have h1 : ((R.mulVec v).smul lam).normSq = lam * lam * v.normSq := by
    rw [← hR.normSq_mulVec v]; lie_unfold; ring
  simp only [Vec3.norm, sqrt_real, h1]
  rw [Real.sqrt_mul (mul_self_nonneg lam), Real.sqrt_mul_self_eq_abs]

theorem spread_map_scaledAffine (lam : ℝ) (R : Mat3 ℝ) (hR : Mat3.IsOrth R) (t : Vec3 ℝ) (ps : Cloud ℝ) (hne : ps ≠ []) :
    spread (ps.map (scaledAffine lam R t)) = (spread ps).map fun x => |lam| * x := by
  simp only [spread, mean_map_scaledAffine lam R t ps hne, List.map_map]
  apply List.map_congr_left; intro p _
  simp only [Function.comp]
  rw [← norm_smul_orth R hR lam (p.sub (mean ps))]
  congr 1
  simp only [scaledAffine, affine, Mat3.mulVec_sub]
  apply Vec3.ext' <;> simp only [Vec3.sub, Vec3.add, Vec3.smul] <;> ring

theorem sdot_map_left (c : ℝ) (a b : List ℝ) : sdot (a.map fun x => c * x) b = c * sdot a b := by
  induction a generalizing b with
  | nil => simp [sdot]
  | cons x xs ih =>
    cases b with
    | nil => simp [sdot]
    | cons y ys =>
      have := ih ys
      simp only [sdot, List.map_cons, List.zipWith_cons_cons, ssum_cons] at this ⊢
      rw [this]; ring

theorem sdot_map_both (c : ℝ) (a : List ℝ) : sdot (a.map fun x => c * x) (a.map fun x => c * x) = c * c * sdot a a := by
  induction a with
  | nil => simp [sdot]
  | cons x xs ih =>
    simp only [sdot, List.map_cons, List.zipWith_cons_cons, ssum_cons] at ih ⊢
    rw [ih]; ring

theorem sdot_self_nonneg (a : List ℝ) : 0 ≤ sdot a a := by
  induction a with
  | nil => simp [sdot]
  | cons x xs ih =>
    simp only [sdot, List.zipWith_cons_cons, ssum_cons] at ih ⊢
    nlinarith [mul_self_nonneg x]

theorem smul_smul' (v : Vec3 ℝ) (a b : ℝ) : (v.smul a).smul b = v.smul (a * b) := by
  apply Vec3.ext' <;> lie_unfold <;> ring
theorem smul_one' (v : Vec3 ℝ) : v.smul 1 = v := by apply Vec3.ext' <;> lie_unfold <;> ring

/-- **`_compute_scale` recovers the camera-frame points exactly** from control points that are right up to the unknown
non-zero factor `lam` of the null vector (either sign): returned points `= R p + t`, returned scale `= 1/lam`. -/
theorem computeScale_exact (Cw : Ctrl ℝ) (alpha : List (W4 ℝ)) (hw : ∀ w ∈ alpha, w.sum = 1) (hne : alpha ≠ [])
    (lam : ℝ) (hlam : lam ≠ 0) (R : Mat3 ℝ) (hR : Mat3.IsOrth R) (t : Vec3 ℝ)
    (hdepth : ∀ w ∈ alpha, 0 < (affine R t (combine w Cw)).z)
    (hspread : 0 < sdot (spread (alpha.map (combine · Cw))) (spread (alpha.map (combine · Cw)))) :
    (computeScale (Cw.map (scaledAffine lam R t)) alpha (alpha.map (combine · Cw))).2.1
        = (alpha.map (combine · Cw)).map (affine R t) ∧
    (computeScale (Cw.map (scaledAffine lam R t)) alpha (alpha.map (combine · Cw))).2.2 = 1 / lam := by
  set points := alpha.map (combine · Cw) with hpts
  have hpne : points ≠ [] := by rw [hpts]; simpa using hne
  have htransp : alpha.map (combine · (Cw.map (scaledAffine lam R t))) = points.map (scaledAffine lam R t) := by
    rw [hpts, List.map_map]; apply List.map_congr_left; intro w hwm
    simp only [Function.comp]; exact combine_scaledAffine w (hw w hwm) lam R t Cw
  have hdc := spread_map_scaledAffine lam R hR t points hpne
  have habs : 0 < |lam| := abs_pos.mpr hlam
  have hscale : sdot (spread (points.map (scaledAffine lam R t))) (spread points) /
      sdot (spread (points.map (scaledAffine lam R t))) (spread (points.map (scaledAffine lam R t))) = 1 / |lam| := by
    rw [hdc, sdot_map_left, sdot_map_both]
    field_simp
  have hscalep : alpha.map (combine · ((Cw.map (scaledAffine lam R t)).smul (1 / |lam|)))
      = points.map fun p => (affine R t p).smul (lam / |lam|) := by
    rw [hpts, List.map_map]; apply List.map_congr_left; intro w hwm
    simp only [Function.comp]
    rw [combine_smul, combine_scaledAffine w (hw w hwm), scaledAffine, smul_smul']
    congr 1; field_simp
  rcases lt_or_gt_of_ne hlam with hneg | hpos
  · -- negative factor: every z is negative, the sign flips everything back
    have hq : lam / |lam| = -1 := by rw [abs_of_neg hneg]; field_simp
    rw [hq] at hscalep
    have hany : (points.map fun p => (affine R t p).smul (-1)).any (fun p => Scalar.lt p.z (k 0)) = true := by
      rw [List.any_eq_true]
      obtain ⟨w, hwm⟩ := List.exists_mem_of_ne_nil alpha hne
      refine ⟨(affine R t (combine w Cw)).smul (-1), ?_, ?_⟩
      · apply List.mem_map.mpr; exact ⟨combine w Cw, List.mem_map.mpr ⟨w, hwm, rfl⟩, rfl⟩
      · have := hdepth w hwm
        simp only [lt_real, k_real, Nat.cast_zero, decide_eq_true_eq, Vec3.smul]; linarith
    have hfin : ((points.map fun p => (affine R t p).smul (-1)).map fun p => p.smul (-(1:ℝ))) = points.map (affine R t) := by
      rw [List.map_map]; apply List.map_congr_left; intro p _
      simp only [Function.comp, smul_smul']; norm_num; exact smul_one' _
    refine ⟨?_, ?_⟩
    · simp only [computeScale, htransp, hscale, hscalep, hany, if_true]; simp only [k_real, Nat.cast_one]; exact hfin
    · simp only [computeScale, htransp, hscale, hscalep, hany, if_true]; simp only [k_real, Nat.cast_one]
      rw [abs_of_neg hneg]; field_simp
  · have hq : lam / |lam| = 1 := by rw [abs_of_pos hpos]; field_simp
    rw [hq] at hscalep
    have hany : (points.map fun p => (affine R t p).smul 1).any (fun p => Scalar.lt p.z (k 0)) = false := by
      rw [List.any_eq_false]
      intro q hqm
      obtain ⟨p, hp, rfl⟩ := List.mem_map.mp hqm
      obtain ⟨w, hwm, rfl⟩ := List.mem_map.mp hp
      have := hdepth w hwm
      simp only [lt_real, k_real, Nat.cast_zero, decide_eq_true_eq, Vec3.smul, not_lt]; linarith
    have hfin : ((points.map fun p => (affine R t p).smul 1).map fun p => p.smul (1:ℝ)) = points.map (affine R t) := by
      rw [List.map_map]; apply List.map_congr_left; intro p _
      simp only [Function.comp, smul_smul']; norm_num; exact smul_one' _
    refine ⟨?_, ?_⟩
    · simp only [computeScale, htransp, hscale, hscalep, hany, Bool.false_eq_true, if_false]; simp only [k_real, Nat.cast_one]; exact hfin
    · simp only [computeScale, htransp, hscale, hscalep, hany, Bool.false_eq_true, if_false]; simp only [k_real, Nat.cast_one]
      rw [abs_of_pos hpos]; ring


/-- `‖a − c‖² ≤ 2‖a − b‖² + 2‖b − c‖²` -/
theorem normSq_sub_le (a b c : Vec3 ℝ) : (a.sub c).normSq ≤ 2 * (a.sub b).normSq + 2 * (b.sub c).normSq := by
  lie_unfold
  nlinarith [sq_nonneg (a.x - b.x - (b.x - c.x)), sq_nonneg (a.y - b.y - (b.y - c.y)), sq_nonneg (a.z - b.z - (b.z - c.z))]


/-! ## definitional facts about the batch / history models (moved from Props: they hold by construction of the model —
whether the *code* is stateless, in particular whether `stepper.reset()` does its job, is decided by the harness's
history and lifecycle streams, not by these lemmas) -/

/-- **Trace identity** (DESIGN §5 C17): for a symmetric `A` and *any* quaternion `z = (v, w)` (the code's rotation
formula `R(z) = 1 + 2w[v]× + 2[v]×²`), `tr A − tr(A·R(z)) = 2 vᵀ(tr(A)·1 − A) v`. -/
theorem trace_rotation_identity (A : Mat3 ℝ) (hA : A.transpose = A) (z : Quat ℝ) :
    A.trace - (A.mul (SO3matrix z)).trace
      = 2 * z.vec.dot ((Mat3.sub (Mat3.smul A.trace Mat3.one) A).mulVec z.vec) := by
  have e : ∀ (X Y : Mat3 ℝ), X = Y → X.r0.y = Y.r0.y ∧ X.r0.z = Y.r0.z ∧ X.r1.z = Y.r1.z := by
    intro X Y h; subst h; simp
  obtain ⟨h01, h02, h12⟩ := e _ _ hA
  revert h01 h02 h12
  unfold SO3matrix; lie_unfold
  intro h01 h02 h12
  linear_combination (2 * z.w * z.z) * h01 + (-2 * z.w * z.y) * h02 + (2 * z.w * z.x) * h12


/-- **a call history on one ICP module is stateless**: after any list of calls — with every per-call argument (clouds
of any sizes, number of passes, forward-`init` or none) varying freely — the module is what it was, and the result of
every call is the result of the same call on a fresh module. -/
theorem icpMod_history (align : Pairs ℝ → SE3 ℝ) (nn : Cloud ℝ → Vec3 ℝ → Nat) (m : IcpMod ℝ) (calls : List (IcpCall ℝ)) :
    (IcpMod.run align nn m calls).1 = m ∧
    (IcpMod.run align nn m calls).2 = calls.map fun c => (m.forward align nn c).2 := by
  induction calls with
  | nil => exact ⟨rfl, rfl⟩
  | cons c cs ih =>
    simp only [IcpMod.run, List.map_cons]
    have hm : (m.forward align nn c).1 = m := rfl
    rw [hm]
    exact ⟨ih.1, by rw [ih.2]⟩


/-- forward's `init` takes precedence over the constructor's; without it the constructor's is used -/
theorem icpMod_init_precedence (align : Pairs ℝ → SE3 ℝ) (nn : Cloud ℝ → Vec3 ℝ → Nat) (m : IcpMod ℝ) (c : IcpCall ℝ) :
    (∀ T, c.fwdInit = some T → (m.forward align nn c).2 = icp align nn (some T) c.passes c.src c.tgt) ∧
    (c.fwdInit = none → (m.forward align nn c).2 = icp align nn m.init c.passes c.src c.tgt) := by
  constructor
  · intro T hT; simp [IcpMod.forward, IcpMod.effInit, hT]
  · intro hN; simp [IcpMod.forward, IcpMod.effInit, hN]


/-- **failing calls are atomic**: a history in which some calls raise gives the module and the results of the history
without the failed calls. -/
theorem icpMod_history_atomic (align : Pairs ℝ → SE3 ℝ) (nn : Cloud ℝ → Vec3 ℝ → Nat) (m : IcpMod ℝ)
    (calls : List (Option (IcpCall ℝ))) :
    IcpMod.runE align nn m calls = IcpMod.run align nn m (calls.filterMap id) := by
  induction calls generalizing m with
  | nil => rfl
  | cons c cs ih =>
    cases c with
    | none => simp only [IcpMod.runE, List.filterMap_cons, id]; exact ih m
    | some c =>
      simp only [IcpMod.runE, List.filterMap_cons, id, IcpMod.run]
      rw [ih]
      rfl


/-- **copies are independent**: with two module objects used interleaved in any order, neither object changes and every
call returns what a fresh module with the state of the object it was made on returns — in particular a copy (equal
state) and its original give equal results for equal arguments, and nothing one of them is asked changes the other. -/
theorem icpMod_copies_independent (align : Pairs ℝ → SE3 ℝ) (nn : Cloud ℝ → Vec3 ℝ → Nat) (a b : IcpMod ℝ)
    (calls : List (Bool × IcpCall ℝ)) :
    (IcpMod.run2 align nn a b calls).1 = (a, b) ∧
    (IcpMod.run2 align nn a b calls).2 = calls.map fun p => ((if p.1 then b else a).forward align nn p.2).2 := by
  induction calls with
  | nil => exact ⟨rfl, rfl⟩
  | cons p ps ih =>
    obtain ⟨w, c⟩ := p
    cases w with
    | false =>
      simp only [IcpMod.run2, List.map_cons, Bool.false_eq_true, if_false]
      have hm : (a.forward align nn c).1 = a := rfl
      rw [hm]; exact ⟨ih.1, by rw [ih.2]⟩
    | true =>
      simp only [IcpMod.run2, List.map_cons, if_true]
      have hm : (b.forward align nn c).1 = b := rfl
      rw [hm]; exact ⟨ih.1, by rw [ih.2]⟩



/-- a `Sim3` element of Umeyama's closed form is optimal among all similarities (the inequality part of `svdstf_optimal`,
independent of how the element was obtained — used for items of a batch that pass the batch-level rank test) -/
theorem sim3_optimal_of_form (ps : Pairs ℝ) (hN : ps ≠ []) (hA : 0 < energyS (centered ps)) (d : SVD3 ℝ) (h : SVDOk (Hmat ps) d)
    (X : Sim3 ℝ) (hXs : X.s = umeyamaScale d ps) (hXm : SO3matrix X.q = rotOf d)
    (hXt : X.t = (mean (tgts ps)).sub ((Mat3.smul (umeyamaScale d ps) (rotOf d)).mulVec (mean (srcs ps)))) :
    ∀ X' : Sim3 ℝ, X'.q.normSq = 1 → 0 ≤ X'.s → cost (Sim3Act X) ps ≤ cost (Sim3Act X') ps := by
  intro X' hq' hs'
  have hrot := rotOf_isRot d h.orthU h.orthV
  have hrot' := isRot_SO3matrix _ hq'
  have hN' : (0:ℝ) < (ps.length : ℝ) := by
    have : 0 < ps.length := List.length_pos_of_ne_nil hN
    positivity
  rw [Sim3Act_eq_affine X, Sim3Act_eq_affine X', hXm, hXt, hXs, cost_centred_similarity _ hrot.1, cost_affine_centered,
    cost_expand_scaled _ hrot'.1]
  have hle := frob_le_rotOf _ _ h _ hrot'
  rw [frob_Hmat, frob_Hmat] at hle
  have hle' : Mat3.frob (SO3matrix X'.q) (crossCov (centered ps)) ≤ Mat3.frob (rotOf d) (crossCov (centered ps)) := by
    have hpos : (0:ℝ) < 1 / (ps.length : ℝ) := by positivity
    exact le_of_mul_le_mul_left hle hpos
  have hc := umeyamaScale_eq ps hN hA.ne' d h
  have hd' : 0 ≤ (ps.length : ℝ) * (((Mat3.smul X'.s (SO3matrix X'.q)).mulVec (mean (srcs ps))).add X'.t |>.sub
      (mean (tgts ps))).normSq := mul_nonneg hN'.le (Align.normSq_nonneg _)
  generalize umeyamaScale d ps = c at hc ⊢
  generalize Mat3.frob (rotOf d) (crossCov (centered ps)) = m at hc hle' ⊢
  generalize Mat3.frob (SO3matrix X'.q) (crossCov (centered ps)) = m' at hle' ⊢
  generalize energyS (centered ps) = A at hA hc ⊢
  generalize energyT (centered ps) = B
  have h1 : 0 ≤ A * (X'.s - c) ^ 2 := mul_nonneg hA.le (sq_nonneg _)
  have h2 : 0 ≤ X'.s * (m - m') := mul_nonneg hs' (sub_nonneg.mpr hle')
  subst hc
  nlinarith [h1, h2, hd']


/-! ## pass 10: the iterates of the ICP loop -/

/-- `k + n` passes are `k` passes followed by `n` passes -/
theorem icpIter_add (align : Pairs ℝ → SE3 ℝ) (nn : Cloud ℝ → Vec3 ℝ → Nat) (tgt : Cloud ℝ) (k n : Nat) (cur : Cloud ℝ) :
    icpIter align nn tgt (k + n) cur = icpIter align nn tgt n (icpIter align nn tgt k cur) := by
  induction k generalizing cur with
  | zero => simp [icpIter]
  | succ k ih =>
    have : k + 1 + n = (k + n) + 1 := by omega
    rw [this]
    simp only [icpIter]
    exact ih _

/-- a point of the target is its own nearest target point, whatever kernel meets the contract -/
theorem nn_self_of_mem (nn : Cloud ℝ → Vec3 ℝ → Nat) (tgt : Cloud ℝ) (hnn : NNOk nn tgt) (p : Vec3 ℝ) (hin : p ∈ tgt) :
    tgt.getD (nn tgt p) Vec3.zero = p := by
  have hle := (hnn p).2 _ hin
  have hzero : (p.sub p).normSq = 0 := by lie_unfold; ring
  rw [hzero] at hle
  have := normSq_eq_zero _ (le_antisymm hle (Align.normSq_nonneg _))
  generalize tgt.getD (nn tgt p) Vec3.zero = g at this ⊢
  have hx := congrArg Vec3.x this; have hy := congrArg Vec3.y this; have hz' := congrArg Vec3.z this
  simp only [Vec3.sub, Vec3.zero, k_real, Nat.cast_zero] at hx hy hz'
  apply Vec3.ext' <;> linarith


end PP.C17
