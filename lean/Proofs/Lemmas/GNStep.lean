import Proofs.Real
import Pose.Model.GNStep
import Mathlib.Algebra.BigOperators.Group.Finset.Basic
import Mathlib.Algebra.BigOperators.Intervals
import Mathlib.Algebra.BigOperators.Ring.Finset
import Mathlib.Algebra.Order.BigOperators.Ring.Finset
import Mathlib.Data.Matrix.Mul
import Mathlib.LinearAlgebra.Matrix.DotProduct
import Mathlib.Tactic.Ring
import Mathlib.Tactic.Linarith
import Mathlib.Tactic.FieldSimp
import Mathlib.Tactic.Abel
import Mathlib.Tactic.Positivity
import Mathlib.LinearAlgebra.Matrix.PosDef
import Mathlib.Algebra.Order.Star.Real
import Mathlib.Analysis.Calculus.Deriv.Basic
import Mathlib.Analysis.Calculus.Deriv.Mul
import Mathlib.Analysis.Calculus.Deriv.Add
/-!
# Lemmas for C07 (one GN / LM step): sums, segment location, block-diagonal weights, least squares
All statements are about the model of `Pose/Model/GNStep.lean` at `α = ℝ`.
-/
namespace PP.GNStep
open Finset

/-! ## `sumN` is the finite sum -/

theorem sumN_eq (n : Nat) (f : Nat → ℝ) : sumN n f = ∑ i ∈ range n, f i := by
  induction n with
  | zero => simp [sumN]
  | succ n ih => rw [sumN, ih, sum_range_succ]

/-! ## segments: `locate`, `offset`, `total` -/

theorem locate_lt_head (n : Nat) (ns : List Nat) (c : Nat) (h : c < n) : locate (n :: ns) c = some (0, c) := by
  simp [locate, h]

theorem locate_shift (n : Nat) (ns : List Nat) (x : Nat) :
    locate (n :: ns) (n + x) = (locate ns x).map fun p => (p.1 + 1, p.2) := by
  have h : ¬ (n + x < n) := by omega
  simp only [locate, h, if_false, Nat.add_sub_cancel_left]
  cases locate ns x with
  | none => rfl
  | some p => rfl

theorem locate_none_of_ge (ns : List Nat) (c : Nat) (h : total ns ≤ c) : locate ns c = none := by
  induction ns generalizing c with
  | nil => rfl
  | cons n ns ih =>
    simp only [total] at h
    obtain ⟨x, rfl⟩ : ∃ x, c = n + x := ⟨c - n, by omega⟩
    rw [locate_shift, ih x (by omega)]; rfl

/-- `locate` inverts `offset`: the flat index `offset ns j + o` lies in segment `j` at position `o`. -/
theorem locate_offset (ns : List Nat) (j o : Nat) (hj : j < ns.length) (ho : o < ns.getD j 0) :
    locate ns (offset ns j + o) = some (j, o) := by
  induction ns generalizing j with
  | nil => simp at hj
  | cons n ns ih =>
    cases j with
    | zero =>
      simp only [List.getD_cons_zero] at ho
      simp [offset, locate, ho]
    | succ j =>
      simp only [List.getD_cons_succ] at ho
      simp only [List.length_cons, Nat.add_lt_add_iff_right] at hj
      simp only [offset, Nat.add_assoc]
      rw [locate_shift, ih j hj ho]; rfl

/-- every in-range flat index is located in exactly one segment -/
theorem locate_some_of_lt (ns : List Nat) (c : Nat) (h : c < total ns) :
    ∃ j o, locate ns c = some (j, o) ∧ j < ns.length ∧ o < ns.getD j 0 ∧ c = offset ns j + o := by
  induction ns generalizing c with
  | nil => simp [total] at h
  | cons n ns ih =>
    by_cases hc : c < n
    · exact ⟨0, c, by simp [locate, hc], by simp, by simpa using hc, by simp [offset]⟩
    · obtain ⟨x, rfl⟩ : ∃ x, c = n + x := ⟨c - n, by omega⟩
      simp only [total] at h
      obtain ⟨j, o, h1, h2, h3, h4⟩ := ih x (by omega)
      refine ⟨j + 1, o, ?_, by simpa using h2, by simpa using h3, ?_⟩
      · rw [locate_shift, h1]; rfl
      · simp only [offset]; omega

/-! ## `hcat` / `flattenRowJac`: the row of the Jacobian against a step vector splits by parameter -/

/-- sum over all segments of `ns`: `Σ_j Σ_{o < ns[j]} F j o` -/
def segSum : List Nat → (Nat → Nat → ℝ) → ℝ
  | [], _ => 0
  | n :: ns, F => (∑ o ∈ range n, F 0 o) + segSum ns fun j => F (j + 1)

theorem segSum_eq (ns : List Nat) (F : Nat → Nat → ℝ) :
    segSum ns F = ∑ j ∈ range ns.length, ∑ o ∈ range (ns.getD j 0), F j o := by
  induction ns generalizing F with
  | nil => simp [segSum]
  | cons n ns ih =>
    rw [segSum, ih, List.length_cons, sum_range_succ']
    simp only [List.getD_cons_succ, List.getD_cons_zero]
    ring

theorem hcat_cons_lt (n : Nat) (ns : List Nat) (blk : Nat → Nat → Nat → ℝ) (r c : Nat) (h : c < n) :
    hcat (n :: ns) blk r c = blk 0 r c := by
  simp [hcat, locate, h]

theorem hcat_cons_shift (n : Nat) (ns : List Nat) (blk : Nat → Nat → Nat → ℝ) (r x : Nat) :
    hcat (n :: ns) blk r (n + x) = hcat ns (fun j => blk (j + 1)) r x := by
  simp only [hcat, locate_shift]
  cases locate ns x with
  | none => rfl
  | some p => rfl

/-- **`torch.cat(…, 1)` against a vector**: `Σ_c hcat[r, c]·δ[c] = Σ_j Σ_o blk_j[r, o]·δ[offset j + o]` -/
theorem hcat_dot (ns : List Nat) (blk : Nat → Nat → Nat → ℝ) (δ : Nat → ℝ) (r : Nat) :
    ∑ c ∈ range (total ns), hcat ns blk r c * δ c
      = segSum ns fun j o => blk j r o * δ (offset ns j + o) := by
  induction ns generalizing blk δ with
  | nil => simp [total, segSum]
  | cons n ns ih =>
    rw [total, sum_range_add, segSum]
    congr 1
    · apply sum_congr rfl
      intro c hc
      rw [hcat_cons_lt _ _ _ _ _ (mem_range.mp hc)]
      simp [offset]
    · have := ih (fun j => blk (j + 1)) (fun x => δ (n + x))
      simp only [hcat_cons_shift]
      rw [this]
      congr 1
      funext j o
      simp [offset, Nat.add_assoc]

/-- sum over the kept (trainable) parameters only -/
def keptSum : List (Nat × Bool) → (Nat → Nat → ℝ) → ℝ
  | [], _ => 0
  | (n, true) :: ps, F => (∑ o ∈ range n, F 0 o) + keptSum ps fun j => F (j + 1)
  | (_, false) :: ps, F => keptSum ps fun j => F (j + 1)

/-- start of the column block / step slice of parameter `j`: frozen parameters take no room -/
def keptOffset : List (Nat × Bool) → Nat → Nat
  | [], _ => 0
  | _ :: _, 0 => 0
  | (n, b) :: ps, j + 1 => (if b then n else 0) + keptOffset ps j

theorem keptSum_eq (ps : List (Nat × Bool)) (F : Nat → Nat → ℝ) :
    keptSum ps F = ∑ j ∈ range ps.length,
      if (ps.getD j (0, false)).2 then ∑ o ∈ range (ps.getD j (0, false)).1, F j o else 0 := by
  induction ps generalizing F with
  | nil => simp [keptSum]
  | cons p ps ih =>
    obtain ⟨n, b⟩ := p
    cases b
    · rw [keptSum, ih, List.length_cons, sum_range_succ']
      simp
    · rw [keptSum, ih, List.length_cons, sum_range_succ']
      simp only [List.getD_cons_succ, List.getD_cons_zero, if_true]
      ring

/-- **`flatten_row_jacobian` against a step vector**: row `r` of the flattened Jacobian times `δ` is the sum over
the parameters with `requires_grad=True` of their own block times their own slice `δ[keptOffset j + ·]`. -/
theorem flattenRowJac_dot (ps : List (Nat × Bool)) (blk : Nat → Nat → Nat → ℝ) (δ : Nat → ℝ) (r : Nat) :
    ∑ c ∈ range (total (keepNumels ps)), flattenRowJac ps blk r c * δ c
      = keptSum ps fun j o => blk j r o * δ (keptOffset ps j + o) := by
  induction ps generalizing blk δ with
  | nil => simp [keepNumels, total, keptSum]
  | cons p ps ih =>
    obtain ⟨n, b⟩ := p
    cases b
    · simp only [keepNumels, Bool.false_eq_true, if_false, flattenRowJac, keptSum]
      rw [ih]
      congr 1
      funext j o
      simp [keptOffset]
    · simp only [keepNumels, if_true, total, flattenRowJac, keptSum]
      rw [sum_range_add]
      congr 1
      · apply sum_congr rfl
        intro c hc
        simp [mem_range.mp hc, keptOffset]
      · have := ih (fun j => blk (j + 1)) (fun x => δ (n + x))
        have h2 : ∀ x, ¬ (n + x < n) := fun x => by omega
        simp only [h2, if_false, Nat.add_sub_cancel_left]
        rw [this]
        congr 1
        funext j o
        simp [keptOffset, Nat.add_assoc]

/-- with every parameter trainable `flatten_row_jacobian` is the plain column concatenation -/
theorem flattenRowJac_all (ns : List Nat) (blk : Nat → Nat → Nat → ℝ) :
    flattenRowJac (ns.map fun n => (n, true)) blk = hcat ns blk := by
  induction ns generalizing blk with
  | nil => funext r c; simp [flattenRowJac, hcat, locate]
  | cons n ns ih =>
    funext r c
    simp only [List.map_cons, flattenRowJac]
    by_cases h : c < n
    · simp [h, hcat_cons_lt]
    · obtain ⟨x, rfl⟩ : ∃ x, c = n + x := ⟨c - n, by omega⟩
      simp only [h, if_false, Nat.add_sub_cancel_left, ih, hcat_cons_shift]

/-! ## `update_parameter`: every trainable parameter receives its own consecutive slice -/

theorem trainOffset_eq_keptOffset (ps : List (Param ℝ)) (j : Nat) :
    trainOffset ps j = keptOffset (jacSpec ps) j := by
  induction ps generalizing j with
  | nil => cases j <;> simp [trainOffset, keptOffset, jacSpec]
  | cons p ps ih =>
    cases j with
    | zero => simp [trainOffset, keptOffset, jacSpec]
    | succ j =>
      have := ih j
      simp only [jacSpec] at this
      simp [trainOffset, keptOffset, jacSpec, this]

theorem trainTotal_eq (ps : List (Param ℝ)) : trainTotal ps = total (keepNumels (jacSpec ps)) := by
  induction ps with
  | nil => simp [trainTotal, jacSpec, keepNumels, total]
  | cons p ps ih =>
    simp only [jacSpec] at ih
    cases h : p.rg <;> simp [trainTotal, jacSpec, keepNumels, total, h, ih]

theorem updateParams_length (eps : ℝ) (ps : List (Param ℝ)) (D : Nat → ℝ) (off : Nat) :
    (updateParams eps ps D off).length = ps.length := by
  induction ps generalizing off with
  | nil => simp [updateParams]
  | cons p ps ih =>
    cases h : p.rg <;> simp [updateParams, h, ih]

/-- the `j`-th parameter after `update_parameter`: untouched when frozen, otherwise `add_` of the slice of the step
that starts at `off + trainOffset ps j` -/
theorem updateParams_getD (eps : ℝ) (ps : List (Param ℝ)) (D : Nat → ℝ) (off j : Nat) (hj : j < ps.length) :
    (updateParams eps ps D off).getD j default =
      if (ps.getD j default).rg then
        addParam eps (ps.getD j default) (fun i => D (off + trainOffset ps j + i))
      else ps.getD j default := by
  induction ps generalizing off j with
  | nil => simp at hj
  | cons p ps ih =>
    cases j with
    | zero =>
      cases h : p.rg <;> simp [updateParams, h, trainOffset]
    | succ j =>
      simp only [List.length_cons, Nat.add_lt_add_iff_right] at hj
      cases h : p.rg
      · simp only [updateParams, h, Bool.false_eq_true, if_false, List.getD_cons_succ, trainOffset]
        rw [ih off j hj]; simp
      · simp only [updateParams, h, if_true, List.getD_cons_succ, trainOffset]
        rw [ih (off + p.numel) j hj]
        simp [Nat.add_assoc]

/-! ## block-diagonal weights -/

theorem blockDiag_nil (r c : Nat) : blockDiag ([] : List (WBlocks ℝ)) r c = 0 := by
  simp [blockDiag, locate]

/-- structure of `torch.block_diag`: first block, zero off-diagonal corners, the rest shifted -/
theorem blockDiag_cons (B : WBlocks ℝ) (bs : List (WBlocks ℝ)) (r c : Nat) :
    blockDiag (B :: bs) r c =
      if r < B.rows then
        (if c < B.cols then
          (if r / B.h = c / B.w then B.blk ((r / B.h) % B.nb) (r % B.h) (c % B.w) else 0)
         else 0)
      else (if c < B.cols then 0 else blockDiag bs (r - B.rows) (c - B.cols)) := by
  by_cases hr : r < B.rows
  · by_cases hc : c < B.cols
    · simp [blockDiag, locate, hr, hc]
    · obtain ⟨y, rfl⟩ : ∃ y, c = B.cols + y := ⟨c - B.cols, by omega⟩
      simp only [blockDiag, List.map_cons, locate_shift, locate_lt_head _ _ _ hr, hr, hc, if_true, if_false]
      cases locate (List.map (fun x => x.cols) bs) y with
      | none => simp
      | some p => simp
  · obtain ⟨x, rfl⟩ : ∃ x, r = B.rows + x := ⟨r - B.rows, by omega⟩
    by_cases hc : c < B.cols
    · simp only [blockDiag, List.map_cons, locate_shift, locate_lt_head _ _ _ hc, hr, hc, if_true, if_false]
      cases locate (List.map (fun x => x.rows) bs) x with
      | none => simp
      | some p => simp
    · obtain ⟨y, rfl⟩ : ∃ y, c = B.cols + y := ⟨c - B.cols, by omega⟩
      simp only [blockDiag, List.map_cons, locate_shift, hr, hc, if_false, Nat.add_sub_cancel_left]
      cases locate (List.map (fun x => x.rows) bs) x with
      | none => simp
      | some p =>
        cases locate (List.map (fun x => x.cols) bs) y with
        | none => simp
        | some q => simp

/-- `Σ_{c < n·d} f c = Σ_{t < n} Σ_{b < d} f (t·d + b)` -/
theorem sum_blocks (n d : Nat) (f : Nat → ℝ) :
    ∑ c ∈ range (n * d), f c = ∑ t ∈ range n, ∑ b ∈ range d, f (t * d + b) := by
  induction n with
  | zero => simp
  | succ n ih => rw [Nat.succ_mul, sum_range_add, ih, sum_range_succ]

/-- one row of a single square block list against a vector: only the row's own block contributes -/
theorem block_row_dot (B : WBlocks ℝ) (d : Nat) (hd : 0 < d) (hh : B.h = d) (hw : B.w = d) (v : Nat → ℝ)
    (t a : Nat) (ht : t < B.cnt) (ha : a < d) :
    ∑ c ∈ range (B.cnt * d),
        (if (t * d + a) / B.h = c / B.w then B.blk (((t * d + a) / B.h) % B.nb) ((t * d + a) % B.h) (c % B.w) else 0) * v c
      = ∑ b ∈ range d, B.blk (t % B.nb) a b * v (t * d + b) := by
  rw [hh, hw, sum_blocks]
  have e1 : (t * d + a) / d = t := by
    rw [Nat.add_comm, Nat.add_mul_div_right _ _ hd, Nat.div_eq_of_lt ha, Nat.zero_add]
  have e2 : (t * d + a) % d = a := by
    rw [Nat.add_comm, Nat.add_mul_mod_self_right, Nat.mod_eq_of_lt ha]
  rw [e1, e2]
  have inner : ∀ t' ∈ range B.cnt,
      (∑ b ∈ range d, (if t = (t' * d + b) / d then B.blk (t % B.nb) a ((t' * d + b) % d) else 0) * v (t' * d + b))
        = if t = t' then ∑ b ∈ range d, B.blk (t % B.nb) a b * v (t' * d + b) else 0 := by
    intro t' _
    by_cases htt : t = t'
    · subst htt
      simp only [if_true]
      apply sum_congr rfl
      intro b hb
      have hb := mem_range.mp hb
      have f1 : (t * d + b) / d = t := by
        rw [Nat.add_comm, Nat.add_mul_div_right _ _ hd, Nat.div_eq_of_lt hb, Nat.zero_add]
      have f2 : (t * d + b) % d = b := by
        rw [Nat.add_comm, Nat.add_mul_mod_self_right, Nat.mod_eq_of_lt hb]
      simp [f1, f2]
    · simp only [htt, if_false]
      apply sum_eq_zero
      intro b hb
      have hb := mem_range.mp hb
      have f1 : (t' * d + b) / d = t' := by
        rw [Nat.add_comm, Nat.add_mul_div_right _ _ hd, Nat.div_eq_of_lt hb, Nat.zero_add]
      simp [f1, htt]
  rw [sum_congr rfl inner, sum_ite_eq (range B.cnt) t]
  simp [mem_range.mpr ht]

theorem row_lt_rows (cnt h t a : Nat) (ht : t < cnt) (ha : a < h) : t * h + a < cnt * h := by
  have h1 : (t + 1) * h ≤ cnt * h := Nat.mul_le_mul_right h ht
  have h2 : (t + 1) * h = t * h + h := Nat.succ_mul t h
  omega

/-- **block-diagonal expansion applies `W_i` to residual item `i`** (any number of residuals): row `(t, a)` of
residual `i` of `block_diag(…) @ v` is `Σ_b ws_i[t % nb_i][a, b] · v[(t, b) of residual i]`. -/
theorem blockDiag_row_dot (bs : List (WBlocks ℝ)) (hsq : ∀ B ∈ bs, B.h = B.w ∧ 0 < B.h) (v : Nat → ℝ)
    (i t a : Nat) (hi : i < bs.length) (ht : t < (bs.getD i default).cnt) (ha : a < (bs.getD i default).h) :
    ∑ c ∈ range (wCols bs),
        blockDiag bs (offset (bs.map (·.rows)) i + (t * (bs.getD i default).h + a)) c * v c
      = ∑ b ∈ range (bs.getD i default).h,
          (bs.getD i default).blk (t % (bs.getD i default).nb) a b
            * v (offset (bs.map (·.cols)) i + (t * (bs.getD i default).h + b)) := by
  induction bs generalizing i v with
  | nil => simp at hi
  | cons B bs ih =>
    have hB := hsq B (by simp)
    have hcols : B.cols = B.cnt * B.h := by rw [WBlocks.cols, ← hB.1]
    cases i with
    | zero =>
      simp only [List.getD_cons_zero] at ht ha ⊢
      have hr : t * B.h + a < B.rows := row_lt_rows _ _ _ _ ht ha
      simp only [wCols, List.map_cons, total, offset, Nat.zero_add]
      rw [sum_range_add]
      have second : ∑ x ∈ range (total (List.map (fun x => x.cols) bs)),
          blockDiag (B :: bs) (t * B.h + a) (B.cols + x) * v (B.cols + x) = 0 := by
        apply sum_eq_zero
        intro x _
        have hc : ¬ (B.cols + x < B.cols) := by omega
        rw [blockDiag_cons]; simp [hr, hc]
      rw [second, add_zero, hcols]
      have first : ∀ c ∈ range (B.cnt * B.h), blockDiag (B :: bs) (t * B.h + a) c * v c
          = (if (t * B.h + a) / B.h = c / B.w then B.blk (((t * B.h + a) / B.h) % B.nb) ((t * B.h + a) % B.h) (c % B.w) else 0) * v c := by
        intro c hc
        have hc' : c < B.cols := by rw [hcols]; exact mem_range.mp hc
        rw [blockDiag_cons]; simp [hr, hc']
      rw [sum_congr rfl first]
      exact block_row_dot B B.h hB.2 rfl hB.1.symm v t a ht ha
    | succ i =>
      simp only [List.getD_cons_succ] at ht ha ⊢
      simp only [List.length_cons, Nat.add_lt_add_iff_right] at hi
      simp only [wCols, List.map_cons, total, offset]
      rw [sum_range_add]
      set r := offset (List.map (fun x => x.rows) bs) i + (t * (bs.getD i default).h + a) with hrdef
      have hr : ¬ (B.rows + r < B.rows) := by omega
      have first : ∑ c ∈ range B.cols, blockDiag (B :: bs) (B.rows + offset (List.map (fun x => x.rows) bs) i
          + (t * (bs.getD i default).h + a)) c * v c = 0 := by
        apply sum_eq_zero
        intro c hc
        have hc := mem_range.mp hc
        rw [blockDiag_cons]
        have hr' : ¬ (B.rows + offset (List.map (fun x => x.rows) bs) i + (t * (bs.getD i default).h + a) < B.rows) := by omega
        rw [if_neg hr', if_pos hc, zero_mul]
      rw [first, zero_add]
      have second : ∀ x ∈ range (total (List.map (fun x => x.cols) bs)),
          blockDiag (B :: bs) (B.rows + offset (List.map (fun x => x.rows) bs) i + (t * (bs.getD i default).h + a)) (B.cols + x)
              * v (B.cols + x)
            = blockDiag bs r x * (fun y => v (B.cols + y)) x := by
        intro x _
        have hr' : ¬ (B.rows + offset (List.map (fun x => x.rows) bs) i + (t * (bs.getD i default).h + a) < B.rows) := by omega
        have hc : ¬ (B.cols + x < B.cols) := by omega
        rw [blockDiag_cons, if_neg hr', if_neg hc, Nat.add_sub_cancel_left]
        congr 2
        rw [hrdef]; omega
      rw [sum_congr rfl second]
      have := ih (fun B hB => hsq B (by simp [hB])) (fun y => v (B.cols + y)) i hi ht ha
      simp only [wCols] at this
      rw [this]
      apply sum_congr rfl
      intro b _
      simp [Nat.add_assoc]

/-! ## the shape arithmetic of `normalize_RWJ` on the documented weight shapes -/

theorem prod_append (a b : List Nat) : prod (a ++ b) = prod a * prod b := by
  induction a with
  | nil => simp [prod]
  | cons x xs ih => simp [prod, ih, Nat.mul_assoc]

theorem prod_singleton (d : Nat) : prod [d] = d := by simp [prod]
theorem prod_pair (a b : Nat) : prod [a, b] = a * b := by simp [prod]

/-- row-major flat index of the multi-index `is` in a tensor of shape `bs` -/
def flatIdx : List Nat → List Nat → Nat
  | _ :: bs, i :: is => i * prod bs + flatIdx bs is
  | _, _ => 0

theorem flatIdx_lt (bs is : List Nat) (h : List.Forall₂ (fun i b => i < b) is bs) : flatIdx bs is < prod bs := by
  induction h with
  | nil => simp [flatIdx, prod]
  | @cons i b is bs hib _ ih =>
    simp only [flatIdx, prod]
    have : (i + 1) * prod bs ≤ b * prod bs := Nat.mul_le_mul_right _ hib
    have h2 : (i + 1) * prod bs = i * prod bs + prod bs := Nat.succ_mul _ _
    omega

theorem flatIdx_append (pre suf ipre isuf : List Nat) (hlen : ipre.length = pre.length) :
    flatIdx (pre ++ suf) (ipre ++ isuf) = flatIdx pre ipre * prod suf + flatIdx suf isuf := by
  induction pre generalizing ipre with
  | nil =>
    have : ipre = [] := List.length_eq_zero_iff.mp hlen
    subst this
    simp [flatIdx]
  | cons b bs ih =>
    cases ipre with
    | nil => simp at hlen
    | cons i is =>
      simp only [List.length_cons, Nat.add_right_cancel_iff] at hlen
      simp only [List.cons_append, flatIdx, ih is hlen, prod_append]
      ring

theorem getLast?_append_singleton (l : List Nat) (d : Nat) : (l ++ [d]).getLast? = some d := by simp

/-- **documented weight shapes** (`d ≥ 2`): residual `pre ++ suf ++ [d]`, weight `suf ++ [d, d]` give `prod suf`
distinct `d × d` blocks, laid out `prod suf · prod pre` times, the `u`-th being block `u % prod suf`. -/
theorem wblocks_documented_ne1 (pre suf : List Nat) (d : Nat) (hd : 1 < d) (hsuf : 0 < prod suf) (wdata : Nat → ℝ) :
    ∃ B, wblocks (pre ++ suf ++ [d]) (suf ++ [d, d]) wdata = some B ∧
      B.cnt = prod suf * prod pre ∧ B.h = d ∧ B.w = d ∧ B.nb = prod suf ∧
      B.blk = fun t a b => wdata ((t * d + a) * d + b) := by
  have hd0 : 0 < d := by omega
  have hne : d ≠ 1 := by omega
  have e1 : (pre ++ suf ++ [d]).getLast? = some d := by simp
  have e2 : (suf ++ [d, d]).getLast? = some d := by simp
  have hw : prod (suf ++ [d, d]) = prod suf * (d * d) := by rw [prod_append, prod_pair]
  have hwpos : prod (suf ++ [d, d]) ≠ 0 := by
    rw [hw]; exact Nat.ne_of_gt (Nat.mul_pos hsuf (Nat.mul_pos hd0 hd0))
  have hr : prod (pre ++ suf ++ [d]) = prod pre * prod suf * d := by
    rw [prod_append, prod_append, prod_singleton]
  have hlen : ¬ ((suf ++ [d, d]).length < 2) := by simp
  have g1 : (suf ++ [d, d]).getD ((suf ++ [d, d]).length - 2) 0 = d := by
    simp [List.getD_eq_getElem?_getD]
  have g2 : (suf ++ [d, d]).getD ((suf ++ [d, d]).length - 1) 0 = d := by
    simp [List.getD_eq_getElem?_getD]
  have hreps : prod pre * prod suf * d * d / (prod suf * (d * d)) = prod pre := by
    have : prod pre * prod suf * d * d = prod pre * (prod suf * (d * d)) := by ring
    rw [this, Nat.mul_div_cancel _ (Nat.mul_pos hsuf (Nat.mul_pos hd0 hd0))]
  have hnb : prod suf * (d * d) / (d * d) = prod suf := Nat.mul_div_cancel _ (Nat.mul_pos hd0 hd0)
  refine ⟨⟨prod suf * prod pre, d, d, prod suf, fun t a b => wdata ((t * d + a) * d + b)⟩, ?_, rfl, rfl, rfl, rfl, rfl⟩
  unfold wblocks
  rw [e1, e2]
  simp only [if_false, hne, hlen, g1, g2, hr, hw, hreps, hnb]
  rw [if_neg (by rw [← hw]; exact hwpos)]

/-- **documented weight shapes, `d = 1`** (the code's special case `w.view(*w.shape, 1, 1)`): residual
`pre ++ suf ++ [1]`, weight `suf ++ [1, 1]` give `prod suf` distinct `1 × 1` blocks, `prod suf · prod pre` in total. -/
theorem wblocks_documented_eq1 (pre suf : List Nat) (hsuf : 0 < prod suf) (wdata : Nat → ℝ) :
    ∃ B, wblocks (pre ++ suf ++ [1]) (suf ++ [1, 1]) wdata = some B ∧
      B.cnt = prod suf * prod pre ∧ B.h = 1 ∧ B.w = 1 ∧ B.nb = prod suf ∧
      B.blk = fun t a b => wdata ((t * 1 + a) * 1 + b) := by
  have e1 : (pre ++ suf ++ [1]).getLast? = some 1 := by simp
  have e2 : (suf ++ [1, 1]).getLast? = some 1 := by simp
  have hw : prod (suf ++ [1, 1]) = prod suf := by rw [prod_append, prod_pair]; simp
  have hwpos : prod (suf ++ [1, 1]) ≠ 0 := by rw [hw]; exact Nat.ne_of_gt hsuf
  have hr : prod (pre ++ suf ++ [1]) = prod pre * prod suf := by
    rw [prod_append, prod_append, prod_singleton]; simp
  have hlen : ¬ ((suf ++ [1, 1] ++ [1, 1]).length < 2) := by simp
  have g1 : (suf ++ [1, 1] ++ [1, 1]).getD ((suf ++ [1, 1] ++ [1, 1]).length - 2) 0 = 1 := by
    simp [List.getD_eq_getElem?_getD]
  have g2 : (suf ++ [1, 1] ++ [1, 1]).getD ((suf ++ [1, 1] ++ [1, 1]).length - 1) 0 = 1 := by
    simp [List.getD_eq_getElem?_getD]
  have hreps : prod pre * prod suf * 1 / prod suf = prod pre := by
    rw [Nat.mul_one, Nat.mul_div_cancel _ hsuf]
  refine ⟨⟨prod suf * prod pre, 1, 1, prod suf, fun t a b => wdata ((t * 1 + a) * 1 + b)⟩, ?_, rfl, rfl, rfl, rfl, rfl⟩
  unfold wblocks
  rw [e1, e2]
  have hreps' : prod pre * prod suf / prod suf = prod pre := Nat.mul_div_cancel _ hsuf
  simp only [if_false, if_true, hlen, g1, g2, hr, hw, Nat.mul_one, Nat.div_one, hreps']
  rw [if_neg (Nat.ne_of_gt hsuf)]

/-! ## `torch.cat(R)`, `torch.cat(J)`: reading back a residual's own rows -/

theorem rows_getD (rs : List (Res ℝ)) (i : Nat) (hi : i < rs.length) :
    (rs.map (·.rows)).getD i 0 = (rs.getD i default).rows := by
  simp [List.getD_eq_getElem?_getD, List.getElem?_map, List.getElem?_eq_getElem hi]

theorem catR_at (rs : List (Res ℝ)) (i o : Nat) (hi : i < rs.length) (ho : o < (rs.getD i default).rows) :
    catR rs (offset (rs.map (·.rows)) i + o) = (rs.getD i default).R o := by
  unfold catR vcatV
  rw [locate_offset _ i o (by simpa using hi) (by rw [rows_getD rs i hi]; exact ho)]

theorem catJ_at (rs : List (Res ℝ)) (i o c : Nat) (hi : i < rs.length) (ho : o < (rs.getD i default).rows) :
    catJ rs (offset (rs.map (·.rows)) i + o) c = (rs.getD i default).J o c := by
  unfold catJ vcatM
  rw [locate_offset _ i o (by simpa using hi) (by rw [rows_getD rs i hi]; exact ho)]

/-! ## documented weights for any number of residuals -/

/-- both documented cases in one statement (`d ≥ 1`) -/
theorem wblocks_documented (pre suf : List Nat) (d : Nat) (hd : 0 < d) (hsuf : 0 < prod suf) (wdata : Nat → ℝ) :
    ∃ B, wblocks (pre ++ suf ++ [d]) (suf ++ [d, d]) wdata = some B ∧
      B.cnt = prod suf * prod pre ∧ B.h = d ∧ B.w = d ∧ B.nb = prod suf ∧
      B.blk = fun t a b => wdata ((t * d + a) * d + b) := by
  by_cases h1 : d = 1
  · subst h1; exact wblocks_documented_eq1 pre suf hsuf wdata
  · exact wblocks_documented_ne1 pre suf d (by omega) hsuf wdata

/-- a documented (residual shape, weight shape) pair -/
structure DocPair where
  pre : List Nat
  suf : List Nat
  d : Nat

def DocPair.rshape (p : DocPair) : List Nat := p.pre ++ p.suf ++ [p.d]
def DocPair.wshape (p : DocPair) : List Nat := p.suf ++ [p.d, p.d]
def DocPair.valid (p : DocPair) : Prop := 0 < p.d ∧ 0 < prod p.suf
/-- `r.numel()` -/
def DocPair.numel (p : DocPair) : Nat := prod p.suf * prod p.pre * p.d

theorem allBlocks_documented (ps : List DocPair) (hv : ∀ p ∈ ps, p.valid) (wd : List (Nat → ℝ)) (hl : wd.length = ps.length) :
    ∃ bs, allBlocks (ps.map (·.rshape)) (List.zipWith (fun p w => (p.wshape, w)) ps wd) = some bs ∧
      bs.length = ps.length ∧
      (∀ B ∈ bs, B.h = B.w ∧ 0 < B.h) ∧
      bs.map (·.rows) = ps.map (·.numel) ∧ bs.map (·.cols) = ps.map (·.numel) := by
  induction ps generalizing wd with
  | nil =>
    have : wd = [] := List.length_eq_zero_iff.mp hl
    subst this
    exact ⟨[], by simp [allBlocks], rfl, by simp, rfl, rfl⟩
  | cons p ps ih =>
    cases wd with
    | nil => simp at hl
    | cons w wd =>
      simp only [List.length_cons, Nat.add_right_cancel_iff] at hl
      obtain ⟨bs, hbs, hlen, hsq, hr, hc⟩ := ih (fun q hq => hv q (by simp [hq])) wd hl
      have hp := hv p (by simp)
      obtain ⟨B, hB, hcnt, hh, hw, hnb, hblk⟩ := wblocks_documented p.pre p.suf p.d hp.1 hp.2 w
      refine ⟨B :: bs, ?_, by simp [hlen], ?_, ?_, ?_⟩
      · simp only [List.map_cons, List.zipWith_cons_cons, allBlocks]
        have : wblocks p.rshape p.wshape w = some B := hB
        rw [this, hbs]
      · intro B' hB'
        rcases List.mem_cons.mp hB' with rfl | h'
        · exact ⟨by rw [hh, hw], by rw [hh]; exact hp.1⟩
        · exact hsq B' h'
      · rw [List.map_cons, List.map_cons, hr]; simp only [WBlocks.rows, hcnt, hh, DocPair.numel]
      · rw [List.map_cons, List.map_cons, hc]; simp only [WBlocks.cols, hcnt, hw, DocPair.numel]


/-- `Σ_{c < total ns} F c = Σ_j Σ_{o < ns[j]} F (offset ns j + o)` -/
theorem sum_segments (ns : List Nat) (F : Nat → ℝ) :
    ∑ c ∈ range (total ns), F c = segSum ns fun j o => F (offset ns j + o) := by
  induction ns generalizing F with
  | nil => simp [total, segSum]
  | cons n ns ih =>
    rw [total, sum_range_add, segSum]
    congr 1
    · apply sum_congr rfl; intro c _; simp [offset]
    · rw [ih (fun x => F (n + x))]
      congr 1; funext j o; simp [offset, Nat.add_assoc]


/-! ## bridge to Mathlib matrices -/

open Matrix

/-- `m × n` matrix of an index function -/
def toMat (m n : Nat) (A : Nat → Nat → ℝ) : Matrix (Fin m) (Fin n) ℝ := fun i j => A i j
/-- vector of an index function -/
def toVec (n : Nat) (v : Nat → ℝ) : Fin n → ℝ := fun i => v i

theorem toMat_gnA_none (m n : Nat) (J : Nat → Nat → ℝ) : toMat m n (gnA m none J) = toMat m n J := rfl

theorem toVec_gnb_none (m : Nat) (R : Nat → ℝ) : toVec m (gnb m none R) = -toVec m R := rfl

theorem toMat_gnA_some (m n : Nat) (W J : Nat → Nat → ℝ) :
    toMat m n (gnA m (some W) J) = toMat m m W * toMat m n J := by
  ext i j
  simp only [toMat, gnA, sumN_eq, Matrix.mul_apply]
  rw [Finset.sum_range]

theorem toVec_gnb_some (m : Nat) (W : Nat → Nat → ℝ) (R : Nat → ℝ) :
    toVec m (gnb m (some W) R) = -((toMat m m W) *ᵥ (toVec m R)) := by
  ext i
  simp only [toVec, toMat, gnb, sumN_eq, Matrix.mulVec, dotProduct, Pi.neg_apply]
  rw [Finset.sum_range, ← Finset.sum_neg_distrib]
  apply Finset.sum_congr rfl
  intro x _
  show -W i x * R x = -(W i x * R x)
  ring

theorem toMat_lmJT_none (m n : Nat) (J : Nat → Nat → ℝ) : toMat n m (lmJT m none J) = (toMat m n J)ᵀ := rfl

theorem toMat_lmJT_some (m n : Nat) (W J : Nat → Nat → ℝ) :
    toMat n m (lmJT m (some W) J) = (toMat m n J)ᵀ * toMat m m W := by
  ext i j
  simp only [toMat, lmJT, sumN_eq, Matrix.mul_apply, Matrix.transpose_apply]
  rw [Finset.sum_range]

theorem toMat_lmNormal (m n : Nat) (JT J : Nat → Nat → ℝ) :
    toMat n n (lmNormal m JT J) = toMat n m JT * toMat m n J := by
  ext i j
  simp only [toMat, lmNormal, sumN_eq, Matrix.mul_apply]
  rw [Finset.sum_range]

theorem toVec_lmb (m n : Nat) (JT : Nat → Nat → ℝ) (R : Nat → ℝ) :
    toVec n (lmb m JT R) = -((toMat n m JT) *ᵥ (toVec m R)) := by
  ext i
  simp only [toVec, toMat, lmb, sumN_eq, Matrix.mulVec, dotProduct, Pi.neg_apply]
  rw [Finset.sum_range, ← Finset.sum_neg_distrib]
  apply Finset.sum_congr rfl
  intro x _
  show -JT i x * R x = -(JT i x * R x)
  ring

/-! ## least squares: certificates -/

section certificates
variable {m n : ℕ}

/-- squared Euclidean norm -/
def nrm2 {k : ℕ} (v : Fin k → ℝ) : ℝ := v ⬝ᵥ v

theorem nrm2_nonneg {k : ℕ} (v : Fin k → ℝ) : 0 ≤ nrm2 v := by
  unfold nrm2 dotProduct
  exact Finset.sum_nonneg fun i _ => mul_self_nonneg (v i)

theorem nrm2_eq_zero {k : ℕ} (v : Fin k → ℝ) : nrm2 v = 0 ↔ v = 0 := by
  unfold nrm2
  exact dotProduct_self_eq_zero

theorem nrm2_add {k : ℕ} (u v : Fin k → ℝ) : nrm2 (u + v) = nrm2 u + 2 * (u ⬝ᵥ v) + nrm2 v := by
  unfold nrm2
  rw [add_dotProduct, dotProduct_add, dotProduct_add, dotProduct_comm v u]
  ring

theorem nrm2_smul {k : ℕ} (t : ℝ) (v : Fin k → ℝ) : nrm2 (t • v) = t * t * nrm2 v := by
  unfold nrm2
  rw [smul_dotProduct, dotProduct_smul]
  simp only [smul_eq_mul]; ring

/-- normal equations ⟹ minimiser of `‖M y - c‖` -/
theorem ls_of_normal (M : Matrix (Fin m) (Fin n) ℝ) (c : Fin m → ℝ) (x : Fin n → ℝ)
    (h : Mᵀ *ᵥ (M *ᵥ x - c) = 0) (y : Fin n → ℝ) : nrm2 (M *ᵥ x - c) ≤ nrm2 (M *ᵥ y - c) := by
  have e : M *ᵥ y - c = (M *ᵥ x - c) + M *ᵥ (y - x) := by
    rw [mulVec_sub]; abel
  have cross : (M *ᵥ x - c) ⬝ᵥ (M *ᵥ (y - x)) = 0 := by
    rw [dotProduct_mulVec, ← mulVec_transpose, h, zero_dotProduct]
  rw [e, nrm2_add, cross]
  have := nrm2_nonneg (M *ᵥ (y - x))
  linarith

/-- minimiser of `‖M y - c‖` ⟹ normal equations -/
theorem normal_of_ls (M : Matrix (Fin m) (Fin n) ℝ) (c : Fin m → ℝ) (x : Fin n → ℝ)
    (h : ∀ y, nrm2 (M *ᵥ x - c) ≤ nrm2 (M *ᵥ y - c)) : Mᵀ *ᵥ (M *ᵥ x - c) = 0 := by
  set g := Mᵀ *ᵥ (M *ᵥ x - c) with hg
  rw [← nrm2_eq_zero]
  -- move along -t g
  have key : ∀ t : ℝ, 0 ≤ -2 * t * nrm2 g + t * t * nrm2 (M *ᵥ g) := by
    intro t
    have e : M *ᵥ (x - t • g) - c = (M *ᵥ x - c) + (-t) • (M *ᵥ g) := by
      rw [mulVec_sub, mulVec_smul]
      ext i; simp only [Pi.sub_apply, Pi.add_apply, Pi.smul_apply, smul_eq_mul]; ring
    have cross : (M *ᵥ x - c) ⬝ᵥ ((-t) • (M *ᵥ g)) = -t * nrm2 g := by
      rw [dotProduct_smul, dotProduct_mulVec, ← mulVec_transpose, ← hg]
      simp [nrm2]
    have := h (x - t • g)
    rw [e, nrm2_add, cross, nrm2_smul] at this
    nlinarith
  have hg0 := nrm2_nonneg g
  have hm0 := nrm2_nonneg (M *ᵥ g)
  by_cases hz : nrm2 (M *ᵥ g) = 0
  · have := key 1
    rw [hz] at this
    nlinarith
  · have hpos : 0 < nrm2 (M *ᵥ g) := lt_of_le_of_ne hm0 (Ne.symm hz)
    have := key (nrm2 g / nrm2 (M *ᵥ g))
    have e : -2 * (nrm2 g / nrm2 (M *ᵥ g)) * nrm2 g
        + nrm2 g / nrm2 (M *ᵥ g) * (nrm2 g / nrm2 (M *ᵥ g)) * nrm2 (M *ᵥ g)
        = -(nrm2 g * nrm2 g) / nrm2 (M *ᵥ g) := by
      field_simp; ring
    rw [e] at this
    have h2 : nrm2 g * nrm2 g ≤ 0 := by
      by_contra hc
      rw [not_le] at hc
      have : -(nrm2 g * nrm2 g) / nrm2 (M *ᵥ g) < 0 := by
        apply div_neg_of_neg_of_pos <;> linarith
      linarith
    nlinarith

/-- a least-squares solution in the range of `Mᵀ` is the unique one of minimum norm -/
theorem minnorm_of_range (M : Matrix (Fin m) (Fin n) ℝ) (c : Fin m → ℝ) (x : Fin n → ℝ) (w : Fin m → ℝ)
    (hx : Mᵀ *ᵥ (M *ᵥ x - c) = 0) (hrange : x = Mᵀ *ᵥ w) (y : Fin n → ℝ) (hy : Mᵀ *ᵥ (M *ᵥ y - c) = 0) :
    nrm2 x ≤ nrm2 y ∧ (nrm2 y = nrm2 x → y = x) := by
  have h1 : Mᵀ *ᵥ (M *ᵥ (y - x)) = 0 := by
    have : M *ᵥ (y - x) = (M *ᵥ y - c) - (M *ᵥ x - c) := by rw [mulVec_sub]; abel
    rw [this, mulVec_sub, hx, hy, sub_zero]
  have h2 : M *ᵥ (y - x) = 0 := by
    rw [← nrm2_eq_zero]
    unfold nrm2
    rw [dotProduct_mulVec, ← mulVec_transpose, h1, zero_dotProduct]
  have h3 : x ⬝ᵥ (y - x) = 0 := by
    have key : ∀ v : Fin n → ℝ, (Mᵀ *ᵥ w) ⬝ᵥ v = w ⬝ᵥ (M *ᵥ v) := by
      intro v
      rw [dotProduct_comm, dotProduct_mulVec, vecMul_transpose, dotProduct_comm]
    have : x ⬝ᵥ (y - x) = (Mᵀ *ᵥ w) ⬝ᵥ (y - x) := by rw [← hrange]
    rw [this, key, h2, dotProduct_zero]
  have e : y = x + (y - x) := by abel
  have hn : nrm2 y = nrm2 x + nrm2 (y - x) := by
    conv_lhs => rw [e]
    rw [nrm2_add, h3]; ring
  refine ⟨by have := nrm2_nonneg (y - x); linarith, fun heq => ?_⟩
  have : nrm2 (y - x) = 0 := by linarith
  have := (nrm2_eq_zero _).mp this
  exact sub_eq_zero.mp this

/-- Moore–Penrose conditions 1 and 3 give the normal equations for `x = P c` -/
theorem penrose_normal (M : Matrix (Fin m) (Fin n) ℝ) (P : Matrix (Fin n) (Fin m) ℝ) (c : Fin m → ℝ)
    (h1 : M * P * M = M) (h3 : (M * P)ᵀ = M * P) : Mᵀ *ᵥ (M *ᵥ (P *ᵥ c) - c) = 0 := by
  have e : Mᵀ * (M * P) = Mᵀ := by
    rw [← h3, ← transpose_mul, h1]
  rw [mulVec_sub, mulVec_mulVec, mulVec_mulVec, Matrix.mul_assoc Mᵀ M P, e, sub_self]

/-- Moore–Penrose conditions 2 and 4 put `x = P c` into the range of `Mᵀ` -/
theorem penrose_range (M : Matrix (Fin m) (Fin n) ℝ) (P : Matrix (Fin n) (Fin m) ℝ) (c : Fin m → ℝ)
    (h2 : P * M * P = P) (h4 : (P * M)ᵀ = P * M) : P *ᵥ c = Mᵀ *ᵥ (Pᵀ *ᵥ (P *ᵥ c)) := by
  have e : Mᵀ * Pᵀ * P = P := by
    rw [← transpose_mul, h4, h2]
  rw [mulVec_mulVec, mulVec_mulVec, e]

end certificates

/-! ## Levenberg–Marquardt: clamp, cumulative damping -/

theorem sclamp_real (lo hi x : ℝ) : sclamp lo hi x = min hi (max lo x) := by
  unfold sclamp smin smax
  simp only [lt_real]
  by_cases h1 : lo < x
  · have hm : max lo x = x := max_eq_right (le_of_lt h1)
    simp only [h1, decide_true, if_true, hm]
    by_cases h2 : x < hi
    · simp [h2, min_eq_right (le_of_lt h2)]
    · simp [h2, min_eq_left (not_lt.mp h2)]
  · have hm : max lo x = lo := max_eq_left (not_lt.mp h1)
    simp only [h1, decide_false, hm]
    by_cases h2 : lo < hi
    · simp [h2, min_eq_right (le_of_lt h2)]
    · simp [h2, min_eq_left (not_lt.mp h2)]

theorem sclamp_mem (lo hi x : ℝ) (h : lo ≤ hi) : lo ≤ sclamp lo hi x ∧ sclamp lo hi x ≤ hi := by
  rw [sclamp_real]
  exact ⟨le_min h (le_max_left _ _), min_le_left _ _⟩

theorem sclamp_ge_self (lo hi x : ℝ) (hx : x ≤ hi) : x ≤ sclamp lo hi x := by
  rw [sclamp_real]
  exact le_min hx (le_max_right _ _)

theorem sclamp_pos (lo hi x : ℝ) (hlo : 0 < lo) (hhi : 0 < hi) : 0 < sclamp lo hi x := by
  rw [sclamp_real]
  exact lt_min hhi (lt_of_lt_of_le hlo (le_max_left _ _))

theorem clampDiag_diag (lo hi : ℝ) (A : Nat → Nat → ℝ) (i : Nat) : clampDiag lo hi A i i = sclamp lo hi (A i i) := by
  simp [clampDiag]

theorem clampDiag_offdiag (lo hi : ℝ) (A : Nat → Nat → ℝ) (i j : Nat) (h : i ≠ j) : clampDiag lo hi A i j = A i j := by
  simp [clampDiag, h]

theorem lmAk_nil (A0 : Nat → Nat → ℝ) : lmAk A0 [] = A0 := rfl

theorem lmAk_snoc (A0 : Nat → Nat → ℝ) (lams : List ℝ) (lam : ℝ) :
    lmAk A0 (lams ++ [lam]) = dampDiag lam (lmAk A0 lams) := by
  simp [lmAk, List.foldl_append]

theorem lmAk_cons (A0 : Nat → Nat → ℝ) (lam : ℝ) (lams : List ℝ) :
    lmAk A0 (lam :: lams) = lmAk (dampDiag lam A0) lams := rfl

/-- the cumulative damping factor `∏ (1 + λ_i)` -/
def dampProd (lams : List ℝ) : ℝ := (lams.map fun l => 1 + l).prod

theorem lmAk_offdiag (A0 : Nat → Nat → ℝ) (lams : List ℝ) (i j : Nat) (h : i ≠ j) : lmAk A0 lams i j = A0 i j := by
  induction lams generalizing A0 with
  | nil => rfl
  | cons lam lams ih => rw [lmAk_cons, ih]; simp [dampDiag, h]

theorem lmAk_diag (A0 : Nat → Nat → ℝ) (lams : List ℝ) (i : Nat) :
    lmAk A0 lams i i = A0 i i * dampProd lams := by
  induction lams generalizing A0 with
  | nil => simp [lmAk_nil, dampProd]
  | cons lam lams ih =>
    rw [lmAk_cons, ih]
    simp only [dampDiag, if_true, dampProd, List.map_cons, List.prod_cons]
    ring

/-! ## positive definiteness of the damped normal matrix -/

theorem quad_JtWJ {m n : ℕ} (J : Matrix (Fin m) (Fin n) ℝ) (W : Matrix (Fin m) (Fin m) ℝ) (x : Fin n → ℝ) :
    x ⬝ᵥ ((Jᵀ * W * J) *ᵥ x) = (J *ᵥ x) ⬝ᵥ (W *ᵥ (J *ᵥ x)) := by
  rw [← mulVec_mulVec, ← mulVec_mulVec, dotProduct_mulVec, vecMul_transpose]

theorem quad_diagonal {n : ℕ} (E x : Fin n → ℝ) : x ⬝ᵥ ((diagonal E) *ᵥ x) = ∑ i, E i * (x i * x i) := by
  simp only [dotProduct, mulVec_diagonal]
  apply Finset.sum_congr rfl
  intro i _; ring

/-- a positive-semidefinite weighted normal matrix plus a positive diagonal is positive definite -/
theorem posDef_normal_add_diag {m n : ℕ} (J : Matrix (Fin m) (Fin n) ℝ) (W : Matrix (Fin m) (Fin m) ℝ)
    (hW : W.PosSemidef) (E : Fin n → ℝ) (hE : ∀ i, 0 < E i) : (Jᵀ * W * J + diagonal E).PosDef := by
  have hH : (Jᵀ * W * J + diagonal E).IsHermitian := by
    have h1 : (Jᵀ * W * J).IsHermitian := by
      have := isHermitian_conjTranspose_mul_mul J hW.1
      simpa using this
    exact h1.add (isHermitian_diagonal_of_self_adjoint _ (by ext i; simp))
  refine PosDef.of_dotProduct_mulVec_pos hH fun x hx => ?_
  rw [star_trivial, add_mulVec, dotProduct_add, quad_JtWJ, quad_diagonal]
  have h1 : 0 ≤ (J *ᵥ x) ⬝ᵥ (W *ᵥ (J *ᵥ x)) := by
    have := hW.dotProduct_mulVec_nonneg (J *ᵥ x)
    simpa using this
  have h2 : 0 < ∑ i, E i * (x i * x i) := by
    obtain ⟨i, hi⟩ : ∃ i, x i ≠ 0 := by
      by_contra hcon
      push Not at hcon
      exact hx (funext hcon)
    apply Finset.sum_pos'
    · intro j _
      exact mul_nonneg (le_of_lt (hE j)) (mul_self_nonneg _)
    · exact ⟨i, Finset.mem_univ _, mul_pos (hE i) (mul_self_pos.mpr hi)⟩
  linarith

/-- the matrix of trial `k` is the undamped normal matrix plus an explicit diagonal -/
theorem toMat_lmAk (m n : Nat) (lo hi : ℝ) (W : Option (Nat → Nat → ℝ)) (J : Nat → Nat → ℝ) (lams : List ℝ) :
    toMat n n (lmAk (lmA0 m lo hi W J) lams)
      = toMat n n (lmNormal m (lmJT m W J) J)
        + diagonal fun i : Fin n =>
            sclamp lo hi (lmNormal m (lmJT m W J) J i i) * dampProd lams - lmNormal m (lmJT m W J) J i i := by
  ext i j
  by_cases h : i = j
  · subst h
    simp only [toMat, Matrix.add_apply, diagonal_apply_eq, lmAk_diag, lmA0, clampDiag_diag]
    ring
  · have h' : (i : Nat) ≠ (j : Nat) := fun e => h (Fin.ext e)
    simp only [toMat, Matrix.add_apply, diagonal_apply_ne _ h, add_zero]
    rw [lmAk_offdiag _ _ _ _ h', lmA0, clampDiag_offdiag _ _ _ _ _ h']

/-! ## item arithmetic, the ignored storage slot -/

theorem div_mod_item (s t a : Nat) (ha : a < s) : (t * s + a) / s = t ∧ (t * s + a) % s = a := by
  have hs : 0 < s := by omega
  constructor
  · rw [Nat.add_comm, Nat.add_mul_div_right _ _ hs, Nat.div_eq_of_lt ha, Nat.zero_add]
  · rw [Nat.add_comm, Nat.add_mul_mod_self_right, Nat.mod_eq_of_lt ha]

/-- `Exp(d[:m]) · X` reads only the first `m = adim` entries of the item's step -/
theorem retrItem_congr (eps : ℝ) (g : Grp) (X d d' : Nat → ℝ) (h : ∀ a, a < g.adim → d a = d' a) :
    retrItem eps g X d = retrItem eps g X d' := by
  cases g
  · have h0 := h 0 (by decide); have h1 := h 1 (by decide); have h2 := h 2 (by decide)
    simp only [retrItem, Nat.zero_add, h0, h1, h2]
  · have h0 := h 0 (by decide); have h1 := h 1 (by decide); have h2 := h 2 (by decide)
    have h3 := h 3 (by decide); have h4 := h 4 (by decide); have h5 := h 5 (by decide)
    simp only [retrItem, Nat.zero_add, h0, h1, h2, h3, h4, h5]
  · have h0 := h 0 (by decide); have h1 := h 1 (by decide); have h2 := h 2 (by decide)
    have h3 := h 3 (by decide)
    simp only [retrItem, Nat.zero_add, h0, h1, h2, h3]
  · have h0 := h 0 (by decide); have h1 := h 1 (by decide); have h2 := h 2 (by decide)
    have h3 := h 3 (by decide); have h4 := h 4 (by decide); have h5 := h 5 (by decide); have h6 := h 6 (by decide)
    simp only [retrItem, Nat.zero_add, h0, h1, h2, h3, h4, h5, h6]

/-- `Exp(d[:m]) · X` of one item reads only that item's `gdim` storage entries and the first `adim` step entries -/
theorem retrItem_congr2 (eps : ℝ) (g : Grp) (X X' d d' : Nat → ℝ) (hX : ∀ a, a < g.gdim → X a = X' a)
    (h : ∀ a, a < g.adim → d a = d' a) : retrItem eps g X d = retrItem eps g X' d' := by
  rw [retrItem_congr eps g X d d' h]
  cases g
  · have h0 := hX 0 (by decide); have h1 := hX 1 (by decide); have h2 := hX 2 (by decide); have h3 := hX 3 (by decide)
    simp only [retrItem, Nat.zero_add, h0, h1, h2, h3]
  · have h0 := hX 0 (by decide); have h1 := hX 1 (by decide); have h2 := hX 2 (by decide); have h3 := hX 3 (by decide)
    have h4 := hX 4 (by decide); have h5 := hX 5 (by decide); have h6 := hX 6 (by decide)
    simp only [retrItem, Nat.zero_add, h0, h1, h2, h3, h4, h5, h6]
  · have h0 := hX 0 (by decide); have h1 := hX 1 (by decide); have h2 := hX 2 (by decide); have h3 := hX 3 (by decide)
    have h4 := hX 4 (by decide)
    simp only [retrItem, Nat.zero_add, h0, h1, h2, h3, h4]
  · have h0 := hX 0 (by decide); have h1 := hX 1 (by decide); have h2 := hX 2 (by decide); have h3 := hX 3 (by decide)
    have h4 := hX 4 (by decide); have h5 := hX 5 (by decide); have h6 := hX 6 (by decide); have h7 := hX 7 (by decide)
    simp only [retrItem, Nat.zero_add, h0, h1, h2, h3, h4, h5, h6, h7]

/-! ## separable (item-wise independent) batches -/

/-- every term of `(JᵀWJ)[i, j]` vanishes when rows / columns belong to different items -/
theorem normal_separable (m : Nat) (W J : Nat → Nat → ℝ) (ritem citem : Nat → Nat)
    (hJ : ∀ r c, ritem r ≠ citem c → J r c = 0) (hW : ∀ r s, ritem r ≠ ritem s → W r s = 0)
    (i j : Nat) (hij : citem i ≠ citem j) : lmNormal m (lmJT m (some W) J) J i j = 0 := by
  simp only [lmNormal, lmJT, sumN_eq]
  apply sum_eq_zero
  intro s _
  by_cases hs : ritem s = citem j
  · have : ∑ r ∈ range m, J r i * W r s = 0 := by
      apply sum_eq_zero
      intro r _
      by_cases hr : ritem r = citem i
      · have : ritem r ≠ ritem s := by rw [hr, hs]; exact hij
        rw [hW r s this, mul_zero]
      · rw [hJ r i hr, zero_mul]
    rw [this, zero_mul]
  · rw [hJ s j hs, mul_zero]

theorem normal_separable_unweighted (m : Nat) (J : Nat → Nat → ℝ) (ritem citem : Nat → Nat)
    (hJ : ∀ r c, ritem r ≠ citem c → J r c = 0) (i j : Nat) (hij : citem i ≠ citem j) :
    lmNormal m (lmJT m none J) J i j = 0 := by
  simp only [lmNormal, lmJT, sumN_eq]
  apply sum_eq_zero
  intro s _
  by_cases hs : ritem s = citem j
  · have : ritem s ≠ citem i := by rw [hs]; exact fun e => hij e.symm
    rw [hJ s i this, zero_mul]
  · rw [hJ s j hs, mul_zero]

/-! ## the damped weighted least-squares objective -/

section damped
variable {m n : ℕ}

/-- `(J x + R)ᵀ W (J x + R) + xᵀ diag(E) x` -/
def dampedObj (J : Matrix (Fin m) (Fin n) ℝ) (W : Matrix (Fin m) (Fin m) ℝ) (E : Fin n → ℝ) (R : Fin m → ℝ)
    (x : Fin n → ℝ) : ℝ :=
  (J *ᵥ x + R) ⬝ᵥ (W *ᵥ (J *ᵥ x + R)) + x ⬝ᵥ ((diagonal E) *ᵥ x)

theorem dot_symm_mulVec {k : ℕ} (W : Matrix (Fin k) (Fin k) ℝ) (hs : Wᵀ = W) (u v : Fin k → ℝ) :
    u ⬝ᵥ (W *ᵥ v) = v ⬝ᵥ (W *ᵥ u) := by
  rw [dotProduct_mulVec, ← mulVec_transpose, hs, dotProduct_comm]

/-- a solution of the damped normal equations minimises the damped weighted objective -/
theorem damped_minimiser (J : Matrix (Fin m) (Fin n) ℝ) (W : Matrix (Fin m) (Fin m) ℝ) (hW : W.PosSemidef)
    (E : Fin n → ℝ) (hE : ∀ i, 0 ≤ E i) (R : Fin m → ℝ) (δ : Fin n → ℝ)
    (h : (Jᵀ * W * J + diagonal E) *ᵥ δ = -((Jᵀ * W) *ᵥ R)) (δ' : Fin n → ℝ) :
    dampedObj J W E R δ ≤ dampedObj J W E R δ' := by
  have hs : Wᵀ = W := by
    have := hW.1
    rw [Matrix.IsHermitian, Matrix.conjTranspose_eq_transpose_of_trivial] at this
    exact this
  set u := δ' - δ with hu
  set r := J *ᵥ δ + R with hr
  have e1 : J *ᵥ δ' + R = r + J *ᵥ u := by
    rw [hr, hu, mulVec_sub]; abel
  have e2 : δ' = δ + u := by rw [hu]; abel
  -- cross term vanishes by the damped normal equations
  have cross : (J *ᵥ u) ⬝ᵥ (W *ᵥ r) + u ⬝ᵥ ((diagonal E) *ᵥ δ) = 0 := by
    have h1 : (J *ᵥ u) ⬝ᵥ (W *ᵥ r) = u ⬝ᵥ ((Jᵀ * W) *ᵥ r) := by
      rw [← mulVec_mulVec, dotProduct_mulVec u, vecMul_transpose]
    have h2 : (Jᵀ * W) *ᵥ r = (Jᵀ * W * J) *ᵥ δ + (Jᵀ * W) *ᵥ R := by
      rw [hr, mulVec_add, mulVec_mulVec]
    rw [h1, h2, ← dotProduct_add]
    have h3 : (Jᵀ * W * J) *ᵥ δ + (Jᵀ * W) *ᵥ R + (diagonal E) *ᵥ δ = 0 := by
      have := h
      rw [add_mulVec] at this
      rw [add_right_comm, this]; simp
    rw [h3, dotProduct_zero]
  have quadW : 0 ≤ (J *ᵥ u) ⬝ᵥ (W *ᵥ (J *ᵥ u)) := by
    have := hW.dotProduct_mulVec_nonneg (J *ᵥ u)
    simpa using this
  have quadE : 0 ≤ u ⬝ᵥ ((diagonal E) *ᵥ u) := by
    rw [quad_diagonal]
    exact Finset.sum_nonneg fun i _ => mul_nonneg (hE i) (mul_self_nonneg _)
  have symE : δ ⬝ᵥ ((diagonal E) *ᵥ u) = u ⬝ᵥ ((diagonal E) *ᵥ δ) :=
    dot_symm_mulVec _ (by simp) _ _
  have symW : r ⬝ᵥ (W *ᵥ (J *ᵥ u)) = (J *ᵥ u) ⬝ᵥ (W *ᵥ r) := dot_symm_mulVec W hs _ _
  have expand : dampedObj J W E R δ' = dampedObj J W E R δ
      + 2 * ((J *ᵥ u) ⬝ᵥ (W *ᵥ r) + u ⬝ᵥ ((diagonal E) *ᵥ δ))
      + ((J *ᵥ u) ⬝ᵥ (W *ᵥ (J *ᵥ u)) + u ⬝ᵥ ((diagonal E) *ᵥ u)) := by
    unfold dampedObj
    rw [e1]
    conv_lhs => rw [e2]
    rw [← hr]
    simp only [mulVec_add, add_dotProduct, dotProduct_add]
    rw [symW, symE]
    ring
  rw [expand, cross]
  linarith

end damped

/-! ## unfolding lemmas, call histories (helpers of the property theorems) -/

section calls
open Matrix
/-- `split` raises exactly when the step has another length -/
theorem step_raises_iff' (eps : ℝ) (ps : List (Param ℝ)) (lenD : Nat) (D : Nat → ℝ) :
    stepUpdate eps ps lenD D = none ↔ trainTotal ps ≠ lenD := by
  by_cases h : trainTotal ps = lenD <;> simp [stepUpdate, h]


/-- **`update_slices`.**  After `update_parameter`, parameter `j` is `add_` of its own slice
`D[trainOffset j …]` if it requires grad, and is untouched otherwise. -/
theorem update_slices' (eps : ℝ) (ps out : List (Param ℝ)) (lenD : Nat) (D : Nat → ℝ)
    (h : stepUpdate eps ps lenD D = some out) (j : Nat) (hj : j < ps.length) :
    out.getD j default =
      if (ps.getD j default).rg then addParam eps (ps.getD j default) (fun i => D (trainOffset ps j + i))
      else ps.getD j default := by
  unfold stepUpdate at h
  by_cases ht : trainTotal ps = lenD
  · simp only [ht, if_true, Option.some.injEq] at h
    subst h
    have := updateParams_getD eps ps D 0 j hj
    simpa using this
  · simp [ht] at h


/-- **`gnSystem` is that system built from the corrected residuals.**  Whenever the step does not raise, the solver is
handed `A = W · cat(J')`, `b = -W · cat(R')` with `(R', J')` the corrector outputs and `W` the block-diagonal weight. -/
theorem gnSystem_spec' (n : Nat) (cs : List (Res ℝ → Res ℝ)) (rs : List (Res ℝ)) (rshapes : List (List Nat))
    (weights : Option (List (List Nat × (Nat → ℝ)))) (S : Sys ℝ) (h : gnSystem n cs rs rshapes weights = some S) :
    ∃ rs' W, correctAll cs rs = some rs' ∧ weightMat rshapes weights (totalRows rs') = some W ∧
      S.m = totalRows rs' ∧ S.n = n ∧ S.A = gnA (totalRows rs') W (catJ rs') ∧ S.b = gnb (totalRows rs') W (catR rs') := by
  unfold gnSystem at h
  cases hc : correctAll cs rs with
  | none => simp [hc] at h
  | some rs' =>
    simp only [hc] at h
    cases hw : weightMat rshapes weights (totalRows rs') with
    | none => simp [hw] at h
    | some W =>
      simp only [hw, Option.some.injEq] at h
      subst h
      exact ⟨rs', W, rfl, hw, rfl, rfl, rfl, rfl⟩


/-- **`lmSystem` is that system built from the corrected residuals**, in every trial -/
theorem lmSystem_spec' (n : Nat) (lo hi : ℝ) (cs : List (Res ℝ → Res ℝ)) (rs : List (Res ℝ)) (rshapes : List (List Nat))
    (weights : Option (List (List Nat × (Nat → ℝ)))) (lams : List ℝ) (S : Sys ℝ)
    (h : lmSystem n lo hi cs rs rshapes weights lams = some S) :
    ∃ rs' W, correctAll cs rs = some rs' ∧ weightMat rshapes weights (totalRows rs') = some W ∧
      S.A = lmAk (lmA0 (totalRows rs') lo hi W (catJ rs')) lams ∧
      S.b = lmb (totalRows rs') (lmJT (totalRows rs') W (catJ rs')) (catR rs') := by
  unfold lmSystem at h
  cases hc : correctAll cs rs with
  | none => simp [hc] at h
  | some rs' =>
    simp only [hc] at h
    cases hw : weightMat rshapes weights (totalRows rs') with
    | none => simp [hw] at h
    | some W =>
      simp only [hw, Option.some.injEq] at h
      subst h
      exact ⟨rs', W, rfl, hw, rfl, rfl⟩


/-- a successful call changes the parameters exactly by `update_parameter` with the solver's `D` -/
theorem successful_call (eps : ℝ) (sys : List (Param ℝ) → Option (Sys ℝ)) (solve : Sys ℝ → Option (Nat × (Nat → ℝ)))
    (ps out : List (Param ℝ)) (h : gnCall eps sys solve ps = some out) :
    ∃ S len D, sys ps = some S ∧ solve S = some (len, D) ∧ stepUpdate eps ps len D = some out := by
  unfold gnCall at h
  cases hs : sys ps with
  | none => simp [hs] at h
  | some S =>
    cases hv : solve S with
    | none => simp [hs, hv] at h
    | some r =>
      obtain ⟨len, D⟩ := r
      simp only [hs, hv] at h
      exact ⟨S, len, D, rfl, hv, h⟩


/-- **A failing call is atomic.**  If building the system, the solver or the split fails, `gnCall` fails as a whole and
the caller keeps exactly the parameters it had: nothing is written before every stage succeeded. -/
theorem failed_call_atomic (eps : ℝ) (sys : List (Param ℝ) → Option (Sys ℝ)) (solve : Sys ℝ → Option (Nat × (Nat → ℝ)))
    (ps : List (Param ℝ))
    (h : sys ps = none ∨ (∃ S, sys ps = some S ∧ solve S = none) ∨
         (∃ S len D, sys ps = some S ∧ solve S = some (len, D) ∧ trainTotal ps ≠ len)) :
    gnCall eps sys solve ps = none ∧ callOrKeep (gnCall eps sys solve) ps = ps := by
  have hn : gnCall eps sys solve ps = none := by
    rcases h with h | ⟨S, h1, h2⟩ | ⟨S, len, D, h1, h2, h3⟩
    · simp [gnCall, h]
    · simp [gnCall, h1, h2]
    · simp [gnCall, h1, h2, (step_raises_iff' eps ps len D).mpr h3]
  exact ⟨hn, by simp [callOrKeep, hn]⟩


/-- **Continuing after a failed call gives the history without it**, wherever in the history it happened and whatever the
other calls are (any state type: parameters, or parameters together with `param_groups`). -/
theorem history_without_failed_call {σ : Type} (pre post : List (σ → Option σ)) (c : σ → Option σ) (s : σ)
    (h : c (runCalls pre s) = none) : runCalls (pre ++ [c] ++ post) s = runCalls (pre ++ post) s := by
  simp only [runCalls, List.foldl_append, List.foldl_cons, List.foldl_nil]
  have : callOrKeep c (List.foldl (fun s c => callOrKeep c s) s pre) = List.foldl (fun s c => callOrKeep c s) s pre := by
    simp only [runCalls] at h
    unfold callOrKeep at h ⊢
    rw [h]; rfl
  rw [this]


/-- **Copies are independent.**  With two optimizers used in any interleaving, each ends where its own calls alone would
have taken it: the model has no state outside the object a call is made on. -/
theorem twins_independent {σ : Type} (cs : List (Bool × (σ → Option σ))) (s : σ × σ) :
    (runTwins cs s).1 = runCalls ((cs.filter (·.1)).map (·.2)) s.1 ∧
    (runTwins cs s).2 = runCalls ((cs.filter (fun c => !c.1)).map (·.2)) s.2 := by
  induction cs generalizing s with
  | nil => simp [runTwins, runCalls]
  | cons c cs ih =>
    obtain ⟨b, f⟩ := c
    cases b
    · have := ih (s.1, callOrKeep f s.2)
      simp only [runTwins, List.foldl_cons, runCalls] at this ⊢
      simpa using this
    · have := ih (callOrKeep f s.1, s.2)
      simp only [runTwins, List.foldl_cons, runCalls] at this ⊢
      simpa using this



/-- **Calls are independent.**  The model of a call is a function of that call's own data (residuals, Jacobian, weights,
clamps, damping history): for any sequence of calls on one optimizer, the system handed to the solver in call `i` is the
one a fresh optimizer would build from call `i`'s data alone.  (The model has no cross-call state; that the *code* has
none is what the correspondence check over call histories with every per-call argument varied establishes.) -/
theorem calls_independent (calls : List (Nat × ℝ × ℝ × List (Res ℝ → Res ℝ) × List (Res ℝ) × List (List Nat)
      × Option (List (List Nat × (Nat → ℝ))) × List ℝ)) (i : Nat) (hi : i < calls.length) :
    (calls.map fun c => lmSystem c.1 c.2.1 c.2.2.1 c.2.2.2.1 c.2.2.2.2.1 c.2.2.2.2.2.1 c.2.2.2.2.2.2.1 c.2.2.2.2.2.2.2)[i]?
      = some (lmSystem calls[i].1 calls[i].2.1 calls[i].2.2.1 calls[i].2.2.2.1 calls[i].2.2.2.2.1 calls[i].2.2.2.2.2.1
                calls[i].2.2.2.2.2.2.1 calls[i].2.2.2.2.2.2.2) := by
  simp [List.getElem?_map, List.getElem?_eq_getElem hi]


/-- **Trial histories compose**: the matrix after the dampings `lams₁ ++ lams₂` is the matrix after `lams₁` damped by
`lams₂` — a trial depends on the earlier trials of the same call only through the matrix they left behind. -/
theorem lm_Ak_append (A0 : Nat → Nat → ℝ) (lams₁ lams₂ : List ℝ) :
    lmAk A0 (lams₁ ++ lams₂) = lmAk (lmAk A0 lams₁) lams₂ := by
  simp [lmAk, List.foldl_append]


/-- a weight passed to `step` overrides the constructor's; without it the constructor's is used -/
theorem step_weight_overrides {ω : Type} (c : Option ω) (s : ω) :
    selectWeight c (some s) = some s ∧ selectWeight c none = c := ⟨rfl, rfl⟩


/-- LM's defaults satisfy the side conditions of `lm_Ak_posDef` / `lm_trial_minimises`: `0 < min ≤ max` -/
theorem lm_defaults_ok : 0 < (lmConfig (α := ℝ) none none none).lo ∧
    (lmConfig (α := ℝ) none none none).lo ≤ (lmConfig (α := ℝ) none none none).hi ∧
    (lmConfig (α := ℝ) none none none).reject = 16 := by
  refine ⟨?_, ?_, rfl⟩
  · simp only [lmConfig, q_real]; positivity
  · simp only [lmConfig, q_real, k_real]; norm_num



/-- **End to end, Gauss–Newton.**  If `step` succeeds with a solver whose answer satisfies the normal equations of the
system it was handed (the contract of `PINV` / `LSTSQ`), then: the residuals were corrected by the configured correctors,
weighted by the block-diagonal weight; the step `D` is a least-squares solution of `W J' δ = -W R'`; and every parameter
is `add_` of its own slice of `D` (frozen ones untouched). -/
theorem gn_step_core (eps : ℝ) (n : Nat) (cs : List (Res ℝ → Res ℝ)) (rs : List (Res ℝ)) (rshapes : List (List Nat))
    (weights : Option (List (List Nat × (Nat → ℝ)))) (solve : Sys ℝ → Option (Nat × (Nat → ℝ)))
    (hsolve : ∀ S len D, solve S = some (len, D) →
      (toMat S.m S.n S.A)ᵀ *ᵥ (toMat S.m S.n S.A *ᵥ toVec S.n D - toVec S.m S.b) = 0)
    (ps out : List (Param ℝ))
    (h : gnCall eps (fun _ => gnSystem n cs rs rshapes weights) solve ps = some out) :
    ∃ rs' W len D, correctAll cs rs = some rs' ∧ weightMat rshapes weights (totalRows rs') = some W ∧
      (∀ δ' : Fin n → ℝ,
        nrm2 (toMat (totalRows rs') n (gnA (totalRows rs') W (catJ rs')) *ᵥ toVec n D - toVec (totalRows rs') (gnb (totalRows rs') W (catR rs')))
          ≤ nrm2 (toMat (totalRows rs') n (gnA (totalRows rs') W (catJ rs')) *ᵥ δ' - toVec (totalRows rs') (gnb (totalRows rs') W (catR rs')))) ∧
      (∀ j, j < ps.length → out.getD j default =
        if (ps.getD j default).rg then addParam eps (ps.getD j default) (fun i => D (trainOffset ps j + i))
        else ps.getD j default) ∧ trainTotal ps = len := by
  obtain ⟨S, len, D, hS, hv, hu⟩ := successful_call eps _ solve ps out h
  obtain ⟨rs', W, hc, hw, hm, hn, hA, hb⟩ := gnSystem_spec' n cs rs rshapes weights S hS
  refine ⟨rs', W, len, D, hc, hw, ?_, ?_, ?_⟩
  · intro δ'
    have hne := hsolve S len D hv
    rw [hm, hn, hA, hb] at hne
    exact ls_of_normal _ _ _ hne δ'
  · intro j hj
    exact update_slices' eps ps out len D hu j hj
  · by_contra hne
    rw [(step_raises_iff' eps ps len D).mpr hne] at hu
    exact absurd hu (by simp)


end calls

/-! ## helpers for the unweighted LM, the end-to-end theorems and their non-toy example -/

section endtoend
open Matrix
/-- the identity weight on `m` rows -/
def idW (m : Nat) : Nat → Nat → ℝ := fun r s => if r = s ∧ r < m then 1 else 0

theorem lmJT_none_eq_id (m : Nat) (J : Nat → Nat → ℝ) (i s : Nat) (hs : s < m) :
    lmJT m none J i s = lmJT m (some (idW m)) J i s := by
  simp only [lmJT, sumN_eq, idW]
  rw [Finset.sum_eq_single s]
  · simp [hs]
  · intro r _ hr; simp [hr]
  · intro h; exact absurd (mem_range.mpr hs) h


theorem toMat_idW (m : Nat) : toMat m m (idW m) = 1 := by
  ext i j
  simp only [toMat, idW, Matrix.one_apply]
  by_cases h : i = j
  · subst h; simp
  · have : (i : Nat) ≠ (j : Nat) := fun e => h (Fin.ext e)
    simp [h, this]


/-- the solver contract used below: on the system it is handed, the solver returns a vector of the system's width that
satisfies the normal equations and lies in the range of `Aᵀ` (what `pinv(A) @ b` does, `gn_pinv`) -/
def PinvContract (S : Sys ℝ) (len : Nat) (D : Nat → ℝ) : Prop :=
  len = S.n ∧
  (toMat S.m S.n S.A)ᵀ *ᵥ (toMat S.m S.n S.A *ᵥ toVec S.n D - toVec S.m S.b) = 0 ∧
  ∃ w : Fin S.m → ℝ, toVec S.n D = (toMat S.m S.n S.A)ᵀ *ᵥ w

theorem assemble_getD (ps : List (Param ℝ)) (raw : List (RawRes ℝ)) (i : Nat) (hi : i < raw.length) :
    (assemble ps raw).getD i default
      = ⟨(raw.getD i ⟨0, fun _ => 0, fun _ _ _ => 0, []⟩).rows, (raw.getD i ⟨0, fun _ => 0, fun _ _ _ => 0, []⟩).R,
         flattenRowJac (jacSpec ps) (raw.getD i ⟨0, fun _ => 0, fun _ _ _ => 0, []⟩).blk⟩ := by
  simp [assemble, List.getD_eq_getElem?_getD, List.getElem?_map, List.getElem?_eq_getElem hi]


theorem addParam_grp_item (eps : ℝ) (q : Param ℝ) (g : Grp) (hq : q.kind = .grp g) (e : Nat → ℝ) (t a : Nat) (ha : a < g.gdim) :
    (addParam eps q e).data (t * g.gdim + a)
      = retrItem eps g (fun c => q.data (t * g.gdim + c)) (fun c => e (t * g.gdim + c)) a := by
  obtain ⟨e1, e2⟩ := div_mod_item g.gdim t a ha
  simp only [addParam, hq, e1, e2]


noncomputable def exPs : List (Param ℝ) := [⟨.euclid, 2, true, fun i => (i : ℝ)⟩, ⟨.euclid, 1, false, fun _ => 7⟩]
noncomputable def exRaw : List (RawRes ℝ) :=
  [⟨1, fun _ => 2, fun j _ _ => if j = 0 then 1 else 5, [1]⟩, ⟨1, fun _ => -1, fun j _ _ => if j = 0 then 1 else 5, [1]⟩]
noncomputable def exW : Option (List (List Nat × (Nat → ℝ))) := some [([1, 1], fun _ => 2), ([1, 1], fun _ => 3)]

theorem ex_blocks : allBlocks (α := ℝ) [[1], [1]] [([1, 1], fun _ => 2), ([1, 1], fun _ => 3)]
    = some [⟨1, 1, 1, 1, fun _ _ _ => 2⟩, ⟨1, 1, 1, 1, fun _ _ _ => 3⟩] := by
  simp [allBlocks, wblocks, prod]

theorem ex_correct : correctAll (α := ℝ) [id] (assemble exPs exRaw) = some (assemble exPs exRaw) := by
  simp [correctAll, assemble, exRaw, correctFrom, pickCorrector]

theorem ex_rows : totalRows (assemble exPs exRaw) = 2 := by simp [totalRows, assemble, exRaw, total]
theorem ex_n : trainTotal exPs = 2 := by simp [trainTotal, exPs]

theorem ex_J (r c : Nat) (hr : r < 2) (hc : c < 2) : catJ (assemble exPs exRaw) r c = 1 := by
  have : r = 0 ∨ r = 1 := by omega
  have : c = 0 ∨ c = 1 := by omega
  rcases ‹r = 0 ∨ r = 1› with rfl | rfl <;> rcases ‹c = 0 ∨ c = 1› with rfl | rfl <;>
    simp [catJ, vcatM, assemble, exRaw, exPs, locate, jacSpec, flattenRowJac]

theorem ex_R : catR (assemble exPs exRaw) 0 = 2 ∧ catR (assemble exPs exRaw) 1 = -1 := by
  constructor <;> simp [catR, vcatV, assemble, exRaw, locate]

theorem ex_W (r s : Nat) (hr : r < 2) (hs : s < 2) :
    blockDiag (α := ℝ) [⟨1, 1, 1, 1, fun _ _ _ => 2⟩, ⟨1, 1, 1, 1, fun _ _ _ => 3⟩] r s = if r = s then (if r = 0 then 2 else 3) else 0 := by
  have : r = 0 ∨ r = 1 := by omega
  have : s = 0 ∨ s = 1 := by omega
  rcases ‹r = 0 ∨ r = 1› with rfl | rfl <;> rcases ‹s = 0 ∨ s = 1› with rfl | rfl <;>
    simp [blockDiag, locate, WBlocks.rows, WBlocks.cols]

noncomputable def exSolve : Sys ℝ → Option (Nat × (Nat → ℝ)) := fun _ => some (2, fun _ => 1 / 26)

theorem ex_system : ∃ S, gnSystemOf exPs exRaw [id] exW = some S ∧ S.m = 2 ∧ S.n = 2 ∧
    (∀ r c, r < 2 → c < 2 → S.A r c = if r = 0 then 2 else 3) ∧ S.b 0 = -4 ∧ S.b 1 = 3 := by
  have hsh : exRaw.map (·.rshape) = [[1], [1]] := by simp [exRaw]
  have hw : weightMat (α := ℝ) [[1], [1]] exW 2
      = some (some (blockDiag [⟨1, 1, 1, 1, fun _ _ _ => 2⟩, ⟨1, 1, 1, 1, fun _ _ _ => 3⟩])) := by
    simp [weightMat, exW, ex_blocks, wRows, wCols, WBlocks.rows, WBlocks.cols, total]
  refine ⟨⟨2, 2, gnA 2 (some (blockDiag [⟨1, 1, 1, 1, fun _ _ _ => 2⟩, ⟨1, 1, 1, 1, fun _ _ _ => 3⟩])) (catJ (assemble exPs exRaw)),
            gnb 2 (some (blockDiag [⟨1, 1, 1, 1, fun _ _ _ => 2⟩, ⟨1, 1, 1, 1, fun _ _ _ => 3⟩])) (catR (assemble exPs exRaw))⟩,
          ?_, rfl, rfl, ?_, ?_, ?_⟩
  · simp only [gnSystemOf, gnSystem, ex_correct, ex_rows, ex_n, hsh, hw]
  · intro r c hr hc
    simp only [gnA, sumN, ex_W r 0 hr (by omega), ex_W r 1 hr (by omega), ex_J 0 c (by omega) hc, ex_J 1 c (by omega) hc, k_real]
    have : r = 0 ∨ r = 1 := by omega
    rcases this with rfl | rfl <;> simp
  · simp only [gnb, sumN, ex_W 0 0 (by omega) (by omega), ex_W 0 1 (by omega) (by omega), ex_R.1, ex_R.2, k_real]; norm_num
  · simp only [gnb, sumN, ex_W 1 0 (by omega) (by omega), ex_W 1 1 (by omega) (by omega), ex_R.1, ex_R.2, k_real]; norm_num


end endtoend

/-! ## pass 10 -/

theorem getD_eq_getElem' {β : Type} [Inhabited β] (l : List β) (j : Nat) (h : j < l.length) : l.getD j default = l[j] := by
  simp only [List.getD_eq_getElem?_getD, List.getElem?_eq_getElem h, Option.getD_some]

theorem blockDiag_zero_of_ge_rows (bs : List (WBlocks ℝ)) (r c : Nat) (h : wRows bs ≤ r) : blockDiag bs r c = 0 := by
  have : locate (bs.map (·.rows)) r = none := locate_none_of_ge _ _ h
  simp [blockDiag, this, k, Scalar.ofNat]

end PP.GNStep
