import Proofs.Lemmas.ImuCov
import Proofs.Lemmas.ImuDefect
import Proofs.Lemmas.ImuGlue
/-!
# C16 — IMU preintegration equals the sequential recursion and is chunking-invariant

Model: `Pose/Model/Imu.lean` (one batch item of `IMUPreintegrator`: `integrate` through the C12 scan, `predict`,
`propagate_cov`, `forward` with carried buffers and argument resolution, `_check`).  All statements are over the model at `α = ℝ`.

**What "the recursion" means here.**  The specification `preSeq` / `compose` is the recursion in the wording of property C16:
`dR ← dR·Exp(w dt)`, `dv ← dv + dR a dt`, `dp ← dp + dv dt + ½ dR a dt²`, `a` = measured acceleration with gravity removed by the
supplied (else the integrated) rotation, composed with the initial state as `R = R₀ΔR`, `v = v₀ + R₀Δv`, `p = p₀ + R₀Δp + v₀Δt`.
It is the step-by-step form of what `integrate` + `predict` compute; the theorems of §1 say that the parallel-prefix code equals it
for every frame count.  The DOCSTRING of `forward` / `predict` (py:242-244, 395-397) writes the composition in another convention —
`R_j = ΔR_ij * R_i` and `v_j = … + gΔt`, `p_j = … + ½gΔt²` with the gravity outside — §10 states the exact relation
(`doc_form_of_start_rotation`, `doc_order_differs`); the covariance docstring (py:198-199) omits the factor `1/dt` that the code's
noise term carries (`cov_eq_recursion`).  Domain of the model: `F ≥ 1` frames per call (for `F = 0` the code returns and stores
empty tensors, the model does not describe that), constructor guard `Cfg.valid` (`reset ∨ prop_cov`).

* recursion clause      : `par_eq_seq_integrate`, `par_eq_seq`, `par_eq_seq_init` — every frame count, no hypothesis;
* chunk invariance      : `chunk_invariant_two`, `chunk_invariant` (exact, unit increments), `chunk_invariant_rot_cov` (no hypothesis),
                          §7 `chunk_two_general` / `chunk_two_every_stream` (every increment, explicit defect and bound, one cut),
                          §11 `chunk_list_defect_bound` / `chunk_list_every_stream` (any number of cuts), §12 closed form
                          `chunk_list_every_stream_closed` (`≤ 12·N·eps⁶·(#chunks+1)·Σ|dt|‖a‖`);
* rank equivalence      : carried by the HARNESS (rank-1/2/3 calls bit-identical on the real code; `shape` stream ties `_check` and the
                          rank assertion to `checkShape` / `rankOk`); `forwardItem` is defined as validate-lift-call, the
                          consequences (`rank_lift_equiv`, `rank_equiv_H/FH`, `rank_assert`) are in `Lemmas/ImuGlue.lean`;
* covariance            : `cov_psd`, `cov_psd_init`, `cov_state_psd`, `cov_psd_history`, §12 `cov_psd_requests` (symmetric PSD, `dt > 0`,
                          any history of requests incl. explicit init_state dicts and failing calls),
                          `cov_eq_recursion`, `cov_eq_recursion_init` (`C ← A C Aᵀ + B`, every `F`);
* glue lemmas (restatements / unfoldings of model definitions: error-path atomicity of `callE`, `resolveCov` / `forwardArgs`,
  gravity algebra, `code_order`, …) live in `Lemmas/ImuGlue.lean` and are not counted as property theorems.
-/
namespace PP.Imu
open PP M9 Matrix

/-! ## 1. parallel-prefix integration = the documented sequential recursion (every `F`) -/

/-- `integrate`: for every frame count `F` and every frame `j < F` the returned increments `Dr, Dv, Dp, Dt` and the
gravity-free acceleration are those of the recursion `dR ← dR·Exp(w dt)`, `dv ← dv + dR a dt`,
`dp ← dp + dv dt + ½ dR a dt²` — any gyro/acc/dt, with or without supplied rotation, any gravity, any `eps`. -/
theorem par_eq_seq_integrate (eps : ℝ) (g : Vec3 ℝ) (R0 : Quat ℝ) (fr : Nat → Frame ℝ) (F j : Nat) (hj : j < F) :
    qAt (integrate eps g R0 fr F).incR (j+1) = (preSeq eps g R0 fr (j+1)).dR ∧
    vAt (integrate eps g R0 fr F).incV (j+1) = (preSeq eps g R0 fr (j+1)).dv ∧
    vAt (integrate eps g R0 fr F).incP (j+1) = (preSeq eps g R0 fr (j+1)).dp ∧
    sAt (integrate eps g R0 fr F).incT j = (preSeq eps g R0 fr (j+1)).t ∧
    vAt (integrate eps g R0 fr F).a j = removeG g R0 (preSeq eps g R0 fr (j+1)).dR (fr j) :=
  ⟨integ_incR eps g R0 fr F (j+1) (by omega), integ_incV eps g R0 fr F (j+1) (by omega),
   integ_incP eps g R0 fr F (j+1) (by omega), integ_incT eps g R0 fr F j hj,
   by rw [integ_a eps g R0 fr F j hj, preSeq_dR]; rfl⟩

/-- `forward` (default initial state = carried buffers): frame `j` of the returned `rot, vel, pos` is the
recursion composed with the state the call starts from: `R = R₀ΔR`, `v = v₀ + R₀Δv`, `p = p₀ + R₀Δp + v₀Δt`. -/
theorem par_eq_seq (cfg : Cfg ℝ) (st : State ℝ) (fr : Nat → Frame ℝ) (F j : Nat) (hj : j < F) :
    outAt (call cfg st none fr F).outs j = compose st.pos st.rot st.vel (preSeq cfg.eps cfg.g st.rot fr (j+1)) :=
  call_out_eq cfg st fr F j hj

/-- the same with an explicit `init_state` argument -/
theorem par_eq_seq_init (cfg : Cfg ℝ) (st : State ℝ) (i : Init ℝ) (fr : Nat → Frame ℝ) (F j : Nat) (hj : j < F) :
    outAt (call cfg st (some i) fr F).outs j = compose i.pos i.rot i.vel (preSeq cfg.eps cfg.g i.rot fr (j+1)) := by
  show outAt (tab F (predictAt i.pos i.rot i.vel (integrate cfg.eps cfg.g i.rot fr F))) j = _
  unfold outAt
  rw [getD_tab _ _ _ _ hj, predictAt_eq cfg.eps cfg.g i.pos i.rot i.vel fr F j hj]

/-- exactly `F` frames are returned -/
theorem outs_size (cfg : Cfg ℝ) (st : State ℝ) (init : Option (Init ℝ)) (fr : Nat → Frame ℝ) (F : Nat) :
    (call cfg st init fr F).outs.size = F := by
  show (tab F _).size = F
  exact tab_size _ _

/-! ## 2. chunk invariance (`reset = False`) -/

/-- the increments are exactly unit on the closed-form branch of `so3 Exp` … -/
theorem dr_unit_closed (eps : ℝ) (h0 : 0 ≤ eps) (f : Frame ℝ) (h : eps < (f.gyro.smul f.dt).norm) :
    (dr eps f).normSq = 1 := so3Exp_normSq_closed eps _ h0 h

/-- … and for a vanishing rate -/
theorem dr_unit_zero (eps : ℝ) (h0 : 0 ≤ eps) (f : Frame ℝ) (h : (f.gyro.smul f.dt).normSq = 0) :
    (dr eps f).normSq = 1 := by
  have hn : (f.gyro.smul f.dt).norm = 0 := by unfold Vec3.norm; rw [h]; simp
  have hlt : ¬ eps < (f.gyro.smul f.dt).norm := by rw [hn]; exact not_lt.mpr h0
  have := so3Exp_normSq_taylor eps _ hlt
  rw [h] at this
  unfold dr
  linarith [this]

/-- **Two chunks.** One call on `m + n` frames versus a call on the first `m ≥ 1` frames followed by a call on the
remaining `n` frames on the same object: identical `rot, vel, pos` frame by frame, identical covariance
(as matrices), and the carried state afterwards represents the same point of the stream. -/
theorem chunk_invariant_two (cfg : Cfg ℝ) (hr : cfg.reset = false) (hp : cfg.propCov = true) (hl : cfg.left = false)
    (st : State ℝ) (fr : Nat → Frame ℝ) (m n : Nat) (hm : 1 ≤ m) (hn : 1 ≤ n) (hR0 : st.rot.normSq = 1)
    (hu : ∀ i, i < m + n → (dr cfg.eps (fr i)).normSq = 1) :
    let r1 := call cfg st none fr m
    let r2 := call cfg r1.st none (fun i => fr (m + i)) n
    let r := call cfg st none fr (m + n)
    (∀ j, j < m → outAt r1.outs j = outAt r.outs j) ∧
    (∀ j, j < n → outAt r2.outs j = outAt r.outs (m + j)) ∧
    (∃ c2 c, r2.cov = some c2 ∧ r.cov = some c ∧ toM c2 = toM c) ∧
    r2.st.pos = r.st.pos ∧ r2.st.rot = r.st.rot ∧ r2.st.vel = r.st.vel ∧ toM r2.st.cov = toM r.st.cov ∧
    (∀ x, rijMul r2.st.Rij x = rijMul r.st.Rij x) := by
  intro r1 r2 r
  have h0 := rep_zero cfg.eps cfg.g st fr
  have hz : (fun i => fr (0 + i)) = fr := by funext i; rw [Nat.zero_add]
  -- the one call
  obtain ⟨ho, _, ⟨c, hc, hcm⟩, hrep⟩ := call_rep cfg hr hp hl st fr (m + n) hR0 hu 0 st h0 (m + n) (by omega) (by omega)
  rw [hz] at ho hc hrep
  -- first chunk
  obtain ⟨ho1, _, _, hrep1⟩ := call_rep cfg hr hp hl st fr (m + n) hR0 hu 0 st h0 m hm (by omega)
  rw [hz] at ho1 hrep1
  -- second chunk
  obtain ⟨ho2, _, ⟨c2, hc2, hcm2⟩, hrep2⟩ := call_rep cfg hr hp hl st fr (m + n) hR0 hu (0 + m) r1.st hrep1 n hn (by omega)
  simp only [Nat.zero_add] at ho ho1 ho2 hc2 hcm hcm2 hrep hrep2
  refine ⟨fun j hj => ?_, fun j hj => ?_, ⟨c2, c, hc2, hc, by rw [hcm2, hcm]⟩, ?_, ?_, ?_, ?_, ?_⟩
  · rw [ho1 j hj, ho j (by omega)]
  · rw [ho2 j hj, ho (m + j) (by omega)]
  · rw [hrep2.pos, hrep.pos]
  · rw [hrep2.rot, hrep.rot]
  · rw [hrep2.vel, hrep.vel]
  · rw [hrep2.cov, hrep.cov]
  · intro x; rw [hrep2.rij, hrep.rij]

/-- **Any chunking.** For every list of chunk lengths `ms` (each `≥ 1`): feeding the stream chunk by chunk to one
object with `reset = False` returns, concatenated, exactly the frames of the single call on `ms.sum` frames; the
covariance returned by the last chunk is the covariance of the single call; the carried states agree. -/
theorem chunk_invariant (cfg : Cfg ℝ) (hr : cfg.reset = false) (hp : cfg.propCov = true) (hl : cfg.left = false)
    (st : State ℝ) (fr : Nat → Frame ℝ) (ms : List Nat) (hms : ∀ m ∈ ms, 1 ≤ m) (hne : ms ≠ [])
    (hR0 : st.rot.normSq = 1) (hu : ∀ i, i < ms.sum → (dr cfg.eps (fr i)).normSq = 1) :
    concatOuts (runChunks cfg st fr ms) = (call cfg st none fr ms.sum).outs.toList ∧
    ∃ rl c cl, (runChunks cfg st fr ms).getLast? = some rl ∧ rl.cov = some cl ∧
      (call cfg st none fr ms.sum).cov = some c ∧ toM cl = toM c ∧
      rl.st.pos = (call cfg st none fr ms.sum).st.pos ∧ rl.st.rot = (call cfg st none fr ms.sum).st.rot ∧
      rl.st.vel = (call cfg st none fr ms.sum).st.vel ∧ toM rl.st.cov = toM (call cfg st none fr ms.sum).st.cov ∧
      (∀ x, rijMul rl.st.Rij x = rijMul (call cfg st none fr ms.sum).st.Rij x) := by
  have h0 := rep_zero cfg.eps cfg.g st fr
  have hz : (fun i => fr (0 + i)) = fr := by funext i; rw [Nat.zero_add]
  have hpos : 1 ≤ ms.sum := by
    cases ms with
    | nil => exact absurd rfl hne
    | cons a b => have := hms a (by simp); simp only [List.sum_cons]; omega
  obtain ⟨h1, h2⟩ := runChunks_spec cfg hr hp hl st fr ms.sum hR0 hu ms 0 st h0 hms (by omega)
  obtain ⟨rl, hrl, ⟨cl, hcl, hclm⟩, hrepl⟩ := h2 hne
  obtain ⟨ho, hs, ⟨c, hc, hcm⟩, hrep⟩ := call_rep cfg hr hp hl st fr ms.sum hR0 hu 0 st h0 ms.sum hpos (by omega)
  rw [hz] at h1 hrl ho hs hc hrep
  simp only [Nat.zero_add] at h1 ho hclm hcm hrepl hrep
  constructor
  · rw [h1, toList_eq_map _ _ hs]
    apply List.map_congr_left
    intro j hj
    rw [ho j (by simpa using hj)]
  · refine ⟨rl, c, cl, hrl, hcl, hc, by rw [hclm, hcm], ?_, ?_, ?_, ?_, ?_⟩
    · rw [hrepl.pos, hrep.pos]
    · rw [hrepl.rot, hrep.rot]
    · rw [hrepl.vel, hrep.vel]
    · rw [hrepl.cov, hrep.cov]
    · intro x; rw [hrepl.rij, hrep.rij]

/-- **Rotation and covariance: any chunking, NO hypothesis on the quaternions** (also in the Taylor band of `Exp`,
also for non-unit initial rotation): the returned rotations, the covariance of the last chunk and the carried
`rot` / `cov` / `Rij` are those of the single call — associativity of the quaternion and matrix products only. -/
theorem chunk_invariant_rot_cov (cfg : Cfg ℝ) (hr : cfg.reset = false) (hp : cfg.propCov = true)
    (hl : cfg.left = false) (st : State ℝ) (fr : Nat → Frame ℝ) (ms : List Nat) (hms : ∀ m ∈ ms, 1 ≤ m)
    (hne : ms ≠ []) :
    (concatOuts (runChunks cfg st fr ms)).map Out.rot = ((call cfg st none fr ms.sum).outs.toList).map Out.rot ∧
    ∃ rl c cl, (runChunks cfg st fr ms).getLast? = some rl ∧ rl.cov = some cl ∧
      (call cfg st none fr ms.sum).cov = some c ∧ toM cl = toM c ∧
      rl.st.rot = (call cfg st none fr ms.sum).st.rot ∧ toM rl.st.cov = toM (call cfg st none fr ms.sum).st.cov ∧
      (∀ x, rijMul rl.st.Rij x = rijMul (call cfg st none fr ms.sum).st.Rij x) := by
  have h0 := repRC_zero cfg.eps cfg.g st fr
  have hz : (fun i => fr (0 + i)) = fr := by funext i; rw [Nat.zero_add]
  have hpos : 1 ≤ ms.sum := by
    cases ms with
    | nil => exact absurd rfl hne
    | cons a b => have := hms a (by simp); simp only [List.sum_cons]; omega
  obtain ⟨h1, h2⟩ := runChunks_specRC cfg hr hp hl st fr ms 0 st h0 hms
  obtain ⟨rl, hrl, ⟨cl, hcl, hclm⟩, hrepl⟩ := h2 hne
  obtain ⟨ho, ⟨c, hc, hcm⟩, hrep⟩ := call_repRC cfg hr hp hl st fr 0 st h0 ms.sum hpos
  have hs : (call cfg st none fr ms.sum).outs.size = ms.sum := by rw [call_outs, tab_size]
  rw [hz] at h1 hrl ho hc hrep
  simp only [Nat.zero_add] at h1 ho hclm hcm hrepl hrep
  constructor
  · rw [h1, toList_eq_map _ _ hs, List.map_map]
    apply List.map_congr_left
    intro j hj
    simp only [Function.comp]
    rw [ho j (by simpa using hj)]
  · refine ⟨rl, c, cl, hrl, hcl, hc, by rw [hclm, hcm], ?_, ?_, ?_⟩
    · rw [hrepl.rot, hrep.rot]
    · rw [hrepl.cov, hrep.cov]
    · intro x; rw [hrepl.rij, hrep.rij]

/-- with `reset = True` nothing is carried: the object's state after a call is the state before it -/
theorem reset_keeps_state (cfg : Cfg ℝ) (hr : cfg.reset = true) (st : State ℝ) (init : Option (Init ℝ))
    (fr : Nat → Frame ℝ) (F : Nat) : (call cfg st init fr F).st = st := call_st_reset cfg st init fr F hr

/-- with `reset = True` every call of a history (each on `≥ 1` frames) is the call on a fresh copy of the object -/
theorem reset_history (cfg : Cfg ℝ) (hr : cfg.reset = true) (ms : List Nat) :
    (∀ m ∈ ms, 1 ≤ m) → ∀ (st : State ℝ) (fr : Nat → Frame ℝ) (k : Nat) (hk : k < ms.length),
      (runChunks cfg st fr ms)[k]? = some (call cfg st none (fun i => fr ((ms.take k).sum + i)) ms[k]) := by
  induction ms with
  | nil => intro _ st fr k hk; simp at hk
  | cons m ms ih =>
    intro hms st fr k hk
    cases k with
    | zero => simp [runChunks]
    | succ k =>
      simp only [runChunks, List.getElem?_cons_succ, call_st_reset cfg st none fr m hr, List.take_succ_cons,
        List.sum_cons, List.getElem_cons_succ]
      rw [ih (fun x hx => hms x (by simp [hx])) st _ k (by simpa using hk)]
      simp only [Nat.add_assoc]

/-- the returned rotations stay unit quaternions (unit start, unit increments) -/
theorem out_rot_unit (cfg : Cfg ℝ) (st : State ℝ) (fr : Nat → Frame ℝ) (F j : Nat) (hj : j < F)
    (hR0 : st.rot.normSq = 1) (hu : ∀ i, i < F → (dr cfg.eps (fr i)).normSq = 1) :
    (outAt (call cfg st none fr F).outs j).rot.normSq = 1 := by
  rw [par_eq_seq cfg st fr F j hj]
  simp only [compose, preSeq_dR]
  rw [Quat.normSq_mul, hR0, seqR_unit cfg.eps fr F hu (j+1) (by omega)]
  ring

/-! ## 3. input ranks `(H)`, `(F,H)`, `(B,F,H)`: carried by the harness (see the header); consequences of the definition of
`forwardItem` are in `Lemmas/ImuGlue.lean` -/

/-! ## 4. the propagated covariance -/

/-- admissible frame for the covariance clause: `dt > 0` (the noise term divides by `dt`: at `dt = 0` the code produces
inf / NaN while `1/0 = 0` in ℝ), non-negative measurement covariances -/
def FrameOk (f : Frame ℝ) : Prop :=
  0 < f.dt ∧ (0 ≤ f.gcov.x ∧ 0 ≤ f.gcov.y ∧ 0 ≤ f.gcov.z) ∧ (0 ≤ f.acov.x ∧ 0 ≤ f.acov.y ∧ 0 ≤ f.acov.z)

/-- **PSD.** The returned 9×9 covariance is symmetric positive semidefinite whenever the covariance the call starts
from is — for every frame count, ANY order of the cumulative product, any rotation inputs. -/
theorem cov_psd (cfg : Cfg ℝ) (hp : cfg.propCov = true) (st : State ℝ) (fr : Nat → Frame ℝ) (F : Nat)
    (h0 : (toM st.cov).PosSemidef) (hf : ∀ j, j < F → FrameOk (fr j)) :
    ∃ c, (call cfg st none fr F).cov = some c ∧ (toM c).PosSemidef ∧ (toM c)ᵀ = toM c := by
  refine ⟨_, call_cov cfg st fr F hp, ?_, ?_⟩
  · apply propagateCov_psd _ _ _ _ _ h0
    intro j hj
    obtain ⟨h1, h2, h3⟩ := hf j hj
    exact noise_psd _ _ (le_of_lt h1) h2 h3
  · have : (toM (propagateCov cfg.left F
        (fun j => matA (covInAt st.Rij cfg.eps (integrate cfg.eps cfg.g st.rot fr F) fr j))
        (fun j => noise cfg.eps (covInAt st.Rij cfg.eps (integrate cfg.eps cfg.g st.rot fr F) fr j)) st.cov)).PosSemidef := by
      apply propagateCov_psd _ _ _ _ _ h0
      intro j hj
      obtain ⟨h1, h2, h3⟩ := hf j hj
      exact noise_psd _ _ (le_of_lt h1) h2 h3
    have hh := this.isHermitian
    rwa [Matrix.IsHermitian, Matrix.conjTranspose_eq_transpose_of_trivial] at hh

/-- the carried covariance stays PSD, for every configuration the constructor admits (`reset ∨ prop_cov`, py:100-101), `F ≥ 1` -/
theorem cov_state_psd (cfg : Cfg ℝ) (hcfg : cfg.valid = true) (st : State ℝ) (fr : Nat → Frame ℝ) (F : Nat) (_hF : 1 ≤ F)
    (h0 : (toM st.cov).PosSemidef) (hf : ∀ j, j < F → FrameOk (fr j)) :
    (toM (call cfg st none fr F).st.cov).PosSemidef := by
  by_cases hr : cfg.reset = true
  · rw [call_st_reset cfg st none fr F hr]; exact h0
  · have hr' : cfg.reset = false := by simpa using hr
    have hp : cfg.propCov = true := by
      unfold Cfg.valid at hcfg
      rw [hr'] at hcfg
      simpa using hcfg
    rw [call_st cfg st fr F hp hr']
    apply propagateCov_psd _ _ _ _ _ h0
    intro j hj
    obtain ⟨h1, h2, h3⟩ := hf j hj
    exact noise_psd _ _ (le_of_lt h1) h2 h3

/-- **PSD over histories.** Starting from a PSD covariance (e.g. the zero matrix of a new object), after ANY sequence
of calls (each on `≥ 1` frames, `dt > 0`) every returned covariance is symmetric PSD. -/
theorem cov_psd_history (cfg : Cfg ℝ) (hp : cfg.propCov = true) (ms : List Nat) :
    ∀ (st : State ℝ) (fr : Nat → Frame ℝ), (∀ m ∈ ms, 1 ≤ m) → (toM st.cov).PosSemidef → (∀ j, FrameOk (fr j)) →
      ∀ r ∈ runChunks cfg st fr ms, ∃ c, r.cov = some c ∧ (toM c).PosSemidef ∧ (toM c)ᵀ = toM c := by
  have hv : cfg.valid = true := by unfold Cfg.valid; rw [hp]; simp
  induction ms with
  | nil => intro st fr _ _ _ r hr; simp [runChunks] at hr
  | cons m ms ih =>
    intro st fr hms h0 hf r hr
    have hm : 1 ≤ m := hms m (by simp)
    simp only [runChunks, List.mem_cons] at hr
    rcases hr with rfl | hr
    · exact cov_psd cfg hp st fr m h0 (fun j _ => hf j)
    · exact ih _ _ (fun x hx => hms x (by simp [hx])) (cov_state_psd cfg hv st fr m hm h0 (fun j _ => hf j))
        (fun j => hf (m + j)) r hr

/-- **The covariance is the recursion** `C_{k+1} = A_k C_k A_kᵀ + B_k` (time-ordered product, as in the repaired code), for
every frame count.  Two conventions of the CODE differ from the docstring's formula (py:198-199) and are part of `A_k`, `B_k` here:
the noise term is `B_k = (Bg Cg Bgᵀ + Ba Ca Baᵀ)·(1/dt_k)` (the docstring has no `1/dt`: the code treats `gyro_cov`, `acc_cov` as
continuous-time densities), and `A_k`, `Ba` use `Rij_k = Rij·ΔR_{k+1}`, the rotation AFTER step `k` (docstring: `ΔR_ik`). `A_k`, `B_k` built from `Rij_k = Rij·ΔR_{k+1}`, `Exp(w_k dt_k)`, the
gravity-free acceleration `a_k`, `dt_k` and the measurement covariances. -/
theorem cov_eq_recursion (cfg : Cfg ℝ) (hp : cfg.propCov = true) (hl : cfg.left = false) (st : State ℝ)
    (fr : Nat → Frame ℝ) (F : Nat) :
    ∃ c, (call cfg st none fr F).cov = some c ∧
      toM c = covRec (fun j => toM (matA (cinSpec cfg.eps cfg.g st.rot st.Rij fr j)))
        (fun j => toM (noise cfg.eps (cinSpec cfg.eps cfg.g st.rot st.Rij fr j))) (toM st.cov) F := by
  refine ⟨_, call_cov cfg st fr F hp, ?_⟩
  rw [hl, propagateCov_eq_rec]
  apply covRec_congr
  intro j hj
  rw [covInAt_eq _ _ _ _ _ F j hj]
  exact ⟨rfl, rfl⟩

/-- the model-level recursion `covSeq` (what the driver's specification mode folds) is `covRec` -/
theorem covSeq_toM (A B : Nat → M9 ℝ) (C0 : M9 ℝ) (n : Nat) :
    toM (covSeq A B C0 n) = covRec (fun j => toM (A j)) (fun j => toM (B j)) (toM C0) n := by
  induction n with
  | zero => rfl
  | succ n ih => simp only [covSeq, covRec, toM_add, toM_mul, toM_transpose, ih]

/-- `propagate_cov` in the repaired order = the model-level recursion, entry by entry -/
theorem propagateCov_eq_covSeq (F : Nat) (A B : Nat → M9 ℝ) (C0 : M9 ℝ) (i j : Nat) (hi : i < 9) (hj : j < 9) :
    (propagateCov false F A B C0).get i j = (covSeq A B C0 F).get i j := by
  have h := propagateCov_eq_rec F A B C0
  rw [← covSeq_toM] at h
  have := congrFun (congrFun h ⟨i, hi⟩) ⟨j, hj⟩
  simpa [toM_apply] using this

/-- an explicit `init_state` equal to the carried buffers (no `cov` / `Rij` keys) changes nothing -/
theorem explicit_init_default (cfg : Cfg ℝ) (st : State ℝ) (fr : Nat → Frame ℝ) (F : Nat) :
    call cfg st (some ⟨st.pos, st.rot, st.vel, none, none⟩) fr F = call cfg st none fr F := rfl

/-! ## 5. object reuse, per-call arguments, item-wise = batched (hardening pass) -/

/-- **History independence with a full explicit `init_state`.** When `init_state` carries `pos, rot, vel, cov` and the
`Rij` key, the frames and the covariance a call returns do not depend on the object's carried buffers at all
(whatever happened in earlier calls, whatever `reset`). -/
theorem explicit_init_full_independent (cfg : Cfg ℝ) (st st' : State ℝ) (i : Init ℝ) (c : M9 ℝ)
    (r : Option (Quat ℝ)) (hc : i.cov = some c) (hr : i.Rij = some r) (fr : Nat → Frame ℝ) (F : Nat) :
    (call cfg st (some i) fr F).outs = (call cfg st' (some i) fr F).outs ∧
    (call cfg st (some i) fr F).cov = (call cfg st' (some i) fr F).cov := by
  simp only [call, hc, hr, and_self]

/-- **Per-call arguments only.** With `reset = True` the result of a call is a function of the constructor state and
of THIS call's arguments: two objects with the same constructor state give the same result whatever calls (any
sizes, any arguments) each has served before. -/
theorem reset_call_history_free (cfg : Cfg ℝ) (hr : cfg.reset = true) (st : State ℝ)
    (ms ms' : List Nat) (_hms : ∀ m ∈ ms, 1 ≤ m) (_hms' : ∀ m ∈ ms', 1 ≤ m) (fr0 fr0' : Nat → Frame ℝ)
    (init : Option (Init ℝ)) (fr : Nat → Frame ℝ) (F : Nat) (_hF : 1 ≤ F) :
    let after := fun (l : List Nat) (f : Nat → Frame ℝ) => ((runChunks cfg st f l).getLast?.map (·.st)).getD st
    call cfg (after ms fr0) init fr F = call cfg (after ms' fr0') init fr F := by
  have key : ∀ (l : List Nat) (f : Nat → Frame ℝ) (s : State ℝ), ∀ r ∈ runChunks cfg s f l, r.st = s := by
    intro l
    induction l with
    | nil => intro f s r h; simp [runChunks] at h
    | cons m l ih =>
      intro f s r h
      simp only [runChunks, List.mem_cons] at h
      rcases h with rfl | h
      · exact call_st_reset cfg s none f m hr
      · have := ih _ _ r h
        rw [this, call_st_reset cfg s none f m hr]
  have aft : ∀ (l : List Nat) (f : Nat → Frame ℝ),
      ((runChunks cfg st f l).getLast?.map (·.st)).getD st = st := by
    intro l f
    cases h : (runChunks cfg st f l).getLast? with
    | none => rfl
    | some r => simp only [Option.map_some, Option.getD_some]; exact key l f st r (List.mem_of_getLast? h)
  simp only [aft]

/-! ## 6. error paths are atomic (hardening pass 2) -/

/-! ## 7. chunk invariance for EVERY increment: exact defect and bound (pass 3) -/

/-- **Two chunks, arbitrary quaternions (no hypothesis at all).** Rotations agree exactly; velocity and position of the
one-call run equal those of the chunked run plus the explicit defects `defV`, `defP` (sums of `actDefect` terms, each
of which vanishes when start and increments are unit). -/
theorem chunk_two_general (cfg : Cfg ℝ) (hr : cfg.reset = false) (hp : cfg.propCov = true) (st : State ℝ)
    (fr : Nat → Frame ℝ) (m n : Nat) (hm : 1 ≤ m) (j : Nat) (hj : j < n) :
    let r1 := call cfg st none fr m
    let r2 := call cfg r1.st none (fun i => fr (m + i)) n
    let r := call cfg st none fr (m + n)
    (outAt r.outs (m + j)).rot = (outAt r2.outs j).rot ∧
    (outAt r.outs (m + j)).vel = (outAt r2.outs j).vel.add (defV cfg.eps cfg.g st.rot fr m (j+1)) ∧
    (outAt r.outs (m + j)).pos = (outAt r2.outs j).pos.add (defP cfg.eps cfg.g st.rot fr m (j+1)) := by
  intro r1 r2 r
  have hlast := par_eq_seq cfg st fr m (m - 1) (by omega)
  have e : m - 1 + 1 = m := by omega
  rw [e] at hlast
  have hst : r1.st.pos = (compose st.pos st.rot st.vel (preSeq cfg.eps cfg.g st.rot fr m)).pos ∧
      r1.st.rot = (compose st.pos st.rot st.vel (preSeq cfg.eps cfg.g st.rot fr m)).rot ∧
      r1.st.vel = (compose st.pos st.rot st.vel (preSeq cfg.eps cfg.g st.rot fr m)).vel := by
    show (call cfg st none fr m).st.pos = _ ∧ (call cfg st none fr m).st.rot = _ ∧ (call cfg st none fr m).st.vel = _
    rw [call_st cfg st fr m hp hr]
    simp only [hlast, and_self]
  have h2 := par_eq_seq cfg r1.st (fun i => fr (m + i)) n j hj
  have h := par_eq_seq cfg st fr (m + n) (m + j) (by omega)
  show (outAt (call cfg st none fr (m + n)).outs (m + j)).rot = (outAt (call cfg r1.st none _ n).outs j).rot ∧ _
  rw [h, h2, hst.1, hst.2.1, hst.2.2]
  exact compose_shift_general cfg.eps cfg.g st.pos st.rot st.vel fr m (j+1)

/-- every frame's composition defect is at most `(3η + 3η²)‖a‖` when the start is unit and every increment's squared
norm is within `ε` of 1, `η = (1+ε)^(m+n) − 1` -/
theorem eDef_bound (eps : ℝ) (g : Vec3 ℝ) (R0 : Quat ℝ) (fr : Nat → Frame ℝ) (m n : Nat) (ε : ℝ) (hε : 0 ≤ ε)
    (hR0 : R0.normSq = 1) (hu : ∀ i, i < m + n → |1 - (dr eps (fr i)).normSq| ≤ ε) (j : Nat) (hj : j < n) :
    (eDef eps g R0 fr m j).norm ≤
      (3 * ((1 + ε) ^ (m + n) - 1) + 3 * ((1 + ε) ^ (m + n) - 1) ^ 2) * (aSeq eps g R0 fr (m + j)).norm := by
  have h1 : (1:ℝ) ≤ 1 + ε := by linarith
  have mono : ∀ a, a ≤ m + n → (1 + ε) ^ a - 1 ≤ (1 + ε) ^ (m + n) - 1 := fun a ha => by
    have := pow_le_pow_right₀ h1 ha; linarith
  have hq := seqR_normSq_near eps fr ε (m + n) hu m (by omega)
  have hu' : ∀ i, i < n → |1 - (dr eps (fr (m + i))).normSq| ≤ ε := fun i hi => hu (m + i) (by omega)
  have hr := seqR_normSq_near eps (fun i => fr (m + i)) ε n hu' j (by omega)
  have hqr := seqR_normSq_near eps fr ε (m + n) hu (m + j) (by omega)
  rw [seqR_shift eps fr m j, Quat.normSq_mul] at hqr
  unfold eDef
  exact actDefect_norm_le_eta R0 _ _ _ _ hR0 (le_trans hq (mono m (by omega))) (le_trans hr (mono j (by omega)))
    (le_trans hqr (mono (m + j) (by omega)))

/-- **Two chunks, every increment, quantitative.** Unit start, every increment's squared norm within `ε` of 1 (no other
assumption on rates, accelerations, time steps): the chunked velocity / position differ from the one-call values by at
most `(3η + 3η²)` times the accumulated `Σ|dt|‖a‖`, resp. its double sum; `η = (1+ε)^(m+n) − 1`. -/
theorem chunk_two_defect_bound (cfg : Cfg ℝ) (hr : cfg.reset = false) (hp : cfg.propCov = true) (st : State ℝ)
    (fr : Nat → Frame ℝ) (m n : Nat) (hm : 1 ≤ m) (ε : ℝ) (hε : 0 ≤ ε) (hR0 : st.rot.normSq = 1)
    (hu : ∀ i, i < m + n → |1 - (dr cfg.eps (fr i)).normSq| ≤ ε) (j : Nat) (hj : j < n) :
    let r1 := call cfg st none fr m
    let r2 := call cfg r1.st none (fun i => fr (m + i)) n
    let r := call cfg st none fr (m + n)
    let K := 3 * ((1 + ε) ^ (m + n) - 1) + 3 * ((1 + ε) ^ (m + n) - 1) ^ 2
    (outAt r.outs (m + j)).rot = (outAt r2.outs j).rot ∧
    ((outAt r.outs (m + j)).vel.sub (outAt r2.outs j).vel).norm ≤ K * sumA cfg.eps cfg.g st.rot fr m (j+1) ∧
    ((outAt r.outs (m + j)).pos.sub (outAt r2.outs j).pos).norm ≤ K * sumP cfg.eps cfg.g st.rot fr m (j+1) := by
  intro r1 r2 r K
  obtain ⟨h1, h2, h3⟩ := chunk_two_general cfg hr hp st fr m n hm j hj
  obtain ⟨b1, b2⟩ := defect_bounds cfg.eps cfg.g st.rot fr m n K
    (fun i hi => eDef_bound cfg.eps cfg.g st.rot fr m n ε hε hR0 hu i hi) (j+1) (by omega)
  refine ⟨h1, ?_, ?_⟩
  · have e : (outAt r.outs (m + j)).vel.sub (outAt r2.outs j).vel = defV cfg.eps cfg.g st.rot fr m (j+1) := by
      rw [h2]; ext <;> simp only [Vec3.add, Vec3.sub] <;> ring
    rw [e]; exact b1
  · have e : (outAt r.outs (m + j)).pos.sub (outAt r2.outs j).pos = defP cfg.eps cfg.g st.rot fr m (j+1) := by
      rw [h3]; ext <;> simp only [Vec3.add, Vec3.sub] <;> ring
    rw [e]; exact b2

/-- every increment `Exp(w dt)` of the model — closed form AND Taylor branch — has squared norm within `eps⁶` of 1 -/
theorem dr_near_unit (eps : ℝ) (h0 : 0 ≤ eps) (h1 : eps ≤ 1) (f : Frame ℝ) : |1 - (dr eps f).normSq| ≤ eps ^ 6 := by
  rw [abs_sub_comm]; exact so3Exp_normSq_near eps _ h0 h1

/-- **Chunk invariance of `vel` / `pos` for EVERY stream** (any rates incl. the Taylor band `0 < ‖w dt‖ ≤ eps`, any
accelerations, any time steps, with or without supplied rotation): for `0 ≤ eps ≤ 1` and a unit start the chunked and the
one-call results agree up to `(3η + 3η²)·Σ|dt|‖a‖` with `η = (1+eps⁶)^(m+n) − 1` — for float64 and 200 frames `η < 2⁻³⁰⁴`. -/
theorem chunk_two_every_stream (cfg : Cfg ℝ) (hr : cfg.reset = false) (hp : cfg.propCov = true) (h0 : 0 ≤ cfg.eps)
    (h1 : cfg.eps ≤ 1) (st : State ℝ) (hR0 : st.rot.normSq = 1) (fr : Nat → Frame ℝ) (m n : Nat) (hm : 1 ≤ m)
    (j : Nat) (hj : j < n) :
    let r1 := call cfg st none fr m
    let r2 := call cfg r1.st none (fun i => fr (m + i)) n
    let r := call cfg st none fr (m + n)
    let K := 3 * ((1 + cfg.eps ^ 6) ^ (m + n) - 1) + 3 * ((1 + cfg.eps ^ 6) ^ (m + n) - 1) ^ 2
    (outAt r.outs (m + j)).rot = (outAt r2.outs j).rot ∧
    ((outAt r.outs (m + j)).vel.sub (outAt r2.outs j).vel).norm ≤ K * sumA cfg.eps cfg.g st.rot fr m (j+1) ∧
    ((outAt r.outs (m + j)).pos.sub (outAt r2.outs j).pos).norm ≤ K * sumP cfg.eps cfg.g st.rot fr m (j+1) :=
  chunk_two_defect_bound cfg hr hp st fr m n hm (cfg.eps ^ 6) (by positivity) hR0
    (fun i _ => dr_near_unit cfg.eps h0 h1 (fr i)) j hj

/-- the general statement contains the exact one: unit increments ⇒ zero defect -/
theorem chunk_two_exact_of_unit (cfg : Cfg ℝ) (hr : cfg.reset = false) (hp : cfg.propCov = true) (st : State ℝ)
    (fr : Nat → Frame ℝ) (m n : Nat) (hm : 1 ≤ m) (hR0 : st.rot.normSq = 1)
    (hu : ∀ i, i < m + n → (dr cfg.eps (fr i)).normSq = 1) (j : Nat) (hj : j < n) :
    outAt (call cfg st none fr (m + n)).outs (m + j)
      = outAt (call cfg (call cfg st none fr m).st none (fun i => fr (m + i)) n).outs j := by
  obtain ⟨h1, h2, h3⟩ := chunk_two_general cfg hr hp st fr m n hm j hj
  obtain ⟨d1, d2⟩ := defects_zero cfg.eps cfg.g st.rot fr (m + n) hR0 hu m (j+1) (by omega)
  rw [d1] at h2
  rw [d2] at h3
  have e : ∀ a b : Out ℝ, a.rot = b.rot → a.vel = b.vel → a.pos = b.pos → a = b := by
    intro a b; cases a; cases b; simp only [Out.mk.injEq]; exact fun x y z => ⟨x, y, z⟩
  apply e _ _ h1
  · rw [h2]; ext <;> lie_unfold <;> ring
  · rw [h3]; ext <;> lie_unfold <;> ring

/-- non-vacuity: a concrete stream in the Taylor band (`‖w dt‖ = 2⁻⁶⁰`, `0 < ‖w dt‖ ≤ eps = 2⁻⁵²`, so the increments are NOT
exactly unit), cut after `m = 2` of `m + n = 5` frames, frame `j = 1` of the second chunk — all hypotheses of
`chunk_two_every_stream` hold -/
example : ∃ (cfg : Cfg ℝ) (st : State ℝ) (fr : Nat → Frame ℝ) (m n j : Nat),
    cfg.reset = false ∧ cfg.propCov = true ∧ 0 ≤ cfg.eps ∧ cfg.eps ≤ 1 ∧ st.rot.normSq = 1 ∧ 1 ≤ m ∧ j < n ∧
    (∀ i, 0 < ((fr i).gyro.smul (fr i).dt).norm ∧ ((fr i).gyro.smul (fr i).dt).norm ≤ cfg.eps) := by
  refine ⟨⟨(2:ℝ)^(-52:ℤ), ⟨0, 0, -9.81⟩, false, true, false⟩, State.fresh ⟨1, 2, 3⟩ ⟨0.6, 0, 0, 0.8⟩ ⟨0, 1, 0⟩,
    fun _ => ⟨1, ⟨(2:ℝ)^(-60:ℤ), 0, 0⟩, ⟨0.1, 0.2, 9.7⟩, none, ⟨1e-5, 1e-5, 1e-5⟩, ⟨6e-3, 6e-3, 6e-3⟩⟩, 2, 3, 1,
    rfl, rfl, by positivity, ?_, ?_, by norm_num, by norm_num, ?_⟩
  · show (2:ℝ)^(-52:ℤ) ≤ 1
    rw [_root_.zpow_neg]; exact inv_le_one_of_one_le₀ (by norm_num)
  · simp only [State.fresh]; lie_unfold; norm_num
  · intro _
    have hn : (Vec3.smul (1:ℝ) (⟨(2:ℝ)^(-60:ℤ), 0, 0⟩ : Vec3 ℝ)).norm = (2:ℝ)^(-60:ℤ) := by
      unfold Vec3.norm Vec3.normSq Vec3.smul
      simp only [one_mul, mul_zero, add_zero]
      exact Real.sqrt_mul_self (by positivity)
    show 0 < (Vec3.smul (1:ℝ) (⟨(2:ℝ)^(-60:ℤ), 0, 0⟩ : Vec3 ℝ)).norm ∧ (Vec3.smul (1:ℝ) (⟨(2:ℝ)^(-60:ℤ), 0, 0⟩ : Vec3 ℝ)).norm ≤ (2:ℝ)^(-52:ℤ)
    rw [hn]
    exact ⟨by positivity, zpow_le_zpow_right₀ (by norm_num) (by norm_num)⟩

/-! ## 8. argument resolution of `forward` (pass 3) -/

/-- `'cov': None` is the same as no `'cov'` key -/
theorem cov_none_is_absent (p : Option (Vec3 ℝ)) (r : Option (Quat ℝ)) (v : Option (Vec3 ℝ)) (rij : Option (Option (Quat ℝ))) :
    resolveInit (some ⟨p, r, v, some none, rij⟩) = resolveInit (some ⟨p, r, v, none, rij⟩) := by
  cases p <;> cases r <;> cases v <;> rfl

/-- accepted dicts are exactly those with the three required keys -/
theorem resolveInit_ok_iff (d : InitDict ℝ) :
    (∃ i, resolveInit (some d) = .ok i) ↔ (d.pos.isSome ∧ d.rot.isSome ∧ d.vel.isSome) := by
  obtain ⟨p, r, v, c, j⟩ := d
  cases p <;> cases r <;> cases v <;> simp [resolveInit]

/-- `rot, vel, pos` do not depend on any covariance argument (per-call or constructor) -/
theorem outs_independent_of_cov (cfg : Cfg ℝ) (st : State ℝ) (init : Option (Init ℝ)) (fr fr' : Nat → Frame ℝ) (F : Nat)
    (h : ∀ j, (fr j).dt = (fr' j).dt ∧ (fr j).gyro = (fr' j).gyro ∧ (fr j).acc = (fr' j).acc ∧ (fr j).rot = (fr' j).rot)
    (j : Nat) (hj : j < F) :
    outAt (call cfg st init fr F).outs j = outAt (call cfg st init fr' F).outs j := by
  have hpre : ∀ (R0 : Quat ℝ) n, preSeq cfg.eps cfg.g R0 fr n = preSeq cfg.eps cfg.g R0 fr' n := by
    intro R0 n
    induction n with
    | zero => rfl
    | succ n ih =>
      obtain ⟨h1, h2, h3, h4⟩ := h n
      simp only [preSeq, ih, preStep, dr, removeG, h1, h2, h3, h4]
  cases init with
  | none => rw [par_eq_seq cfg st fr F j hj, par_eq_seq cfg st fr' F j hj, hpre]
  | some i => rw [par_eq_seq_init cfg st i fr F j hj, par_eq_seq_init cfg st i fr' F j hj, hpre]

/-- covariance and rotation the call starts from, after resolving `init_state` against the carried buffers -/
noncomputable def startCov (st : State ℝ) : Option (Init ℝ) → M9 ℝ
  | some i => (match i.cov with | some c => c | none => st.cov)
  | none => st.cov
noncomputable def startRij (st : State ℝ) : Option (Init ℝ) → Option (Quat ℝ)
  | some i => (match i.Rij with | some r => r | none => st.Rij)
  | none => st.Rij
noncomputable def startRot (st : State ℝ) : Option (Init ℝ) → Quat ℝ
  | some i => i.rot
  | none => st.rot

theorem call_cov_gen (cfg : Cfg ℝ) (st : State ℝ) (init : Option (Init ℝ)) (fr : Nat → Frame ℝ) (F : Nat)
    (hp : cfg.propCov = true) :
    (call cfg st init fr F).cov = some (propagateCov cfg.left F
      (fun j => matA (covInAt (startRij st init) cfg.eps (integrate cfg.eps cfg.g (startRot st init) fr F) fr j))
      (fun j => noise cfg.eps (covInAt (startRij st init) cfg.eps (integrate cfg.eps cfg.g (startRot st init) fr F) fr j))
      (startCov st init)) := by
  cases init with
  | none => simp only [call, hp, if_true, startCov, startRij, startRot]
  | some i =>
    obtain ⟨p, r, v, c, rj⟩ := i
    cases c <;> cases rj <;> simp only [call, hp, if_true, startCov, startRij, startRot]

/-- **Covariance = documented recursion, any `init_state`, per-call covariances frame by frame, every `F`.** -/
theorem cov_eq_recursion_init (cfg : Cfg ℝ) (hp : cfg.propCov = true) (hl : cfg.left = false) (st : State ℝ)
    (init : Option (Init ℝ)) (fr : Nat → Frame ℝ) (F : Nat) :
    ∃ c, (call cfg st init fr F).cov = some c ∧
      toM c = covRec (fun j => toM (matA (cinSpec cfg.eps cfg.g (startRot st init) (startRij st init) fr j)))
        (fun j => toM (noise cfg.eps (cinSpec cfg.eps cfg.g (startRot st init) (startRij st init) fr j)))
        (toM (startCov st init)) F := by
  refine ⟨_, call_cov_gen cfg st init fr F hp, ?_⟩
  rw [hl, propagateCov_eq_rec]
  apply covRec_congr
  intro j hj
  rw [covInAt_eq _ _ _ _ _ F j hj]
  exact ⟨rfl, rfl⟩

/-- **PSD, any `init_state`, any product order, every `F`**: the returned covariance is symmetric PSD whenever the
covariance the call starts from (the dict's, else the carried one) is. -/
theorem cov_psd_init (cfg : Cfg ℝ) (hp : cfg.propCov = true) (st : State ℝ) (init : Option (Init ℝ))
    (fr : Nat → Frame ℝ) (F : Nat) (h0 : (toM (startCov st init)).PosSemidef) (hf : ∀ j, j < F → FrameOk (fr j)) :
    ∃ c, (call cfg st init fr F).cov = some c ∧ (toM c).PosSemidef ∧ (toM c)ᵀ = toM c := by
  have hpsd : (toM (propagateCov cfg.left F
      (fun j => matA (covInAt (startRij st init) cfg.eps (integrate cfg.eps cfg.g (startRot st init) fr F) fr j))
      (fun j => noise cfg.eps (covInAt (startRij st init) cfg.eps (integrate cfg.eps cfg.g (startRot st init) fr F) fr j))
      (startCov st init))).PosSemidef := by
    apply propagateCov_psd _ _ _ _ _ h0
    intro j hj
    obtain ⟨h1, h2, h3⟩ := hf j hj
    exact noise_psd _ _ (le_of_lt h1) h2 h3
  refine ⟨_, call_cov_gen cfg st init fr F hp, hpsd, ?_⟩
  have hh := hpsd.isHermitian
  rwa [Matrix.IsHermitian, Matrix.conjTranspose_eq_transpose_of_trivial] at hh

/-- resolved frames are admissible for the covariance clause when the module's and the per-call covariances are
non-negative and `dt ≥ 0` -/
theorem resolveFrames_ok (modG modA : Vec3 ℝ) (gc ac : CovArg ℝ) (raw : Nat → RawFrame ℝ) (j : Nat)
    (hdt : 0 < (raw j).dt)
    (hg : 0 ≤ (resolveCov modG gc j).x ∧ 0 ≤ (resolveCov modG gc j).y ∧ 0 ≤ (resolveCov modG gc j).z)
    (ha : 0 ≤ (resolveCov modA ac j).x ∧ 0 ≤ (resolveCov modA ac j).y ∧ 0 ≤ (resolveCov modA ac j).z) :
    FrameOk (resolveFrames modG modA gc ac raw j) := ⟨hdt, hg, ha⟩

example : resolveInit (some (⟨some ⟨1, 2, 3⟩, some ⟨0.6, 0, 0, 0.8⟩, some ⟨0, 1, 0⟩, some none, none⟩ : InitDict ℝ))
    = .ok (some ⟨⟨1, 2, 3⟩, ⟨0.6, 0, 0, 0.8⟩, ⟨0, 1, 0⟩, none, none⟩) := rfl
example : ∃ d : InitDict ℝ, d.pos = none ∨ d.rot = none ∨ d.vel = none := ⟨⟨none, none, none, none, none⟩, Or.inl rfl⟩


/-! ## 9. sign and size of the gravity constant (round 4, class 26) -/

example : (usedRot (⟨0.6, 0, 0, 0.8⟩ : Quat ℝ) Quat.one ⟨0.01, ⟨0, 0, 0⟩, ⟨0, 0, -9.81⟩, none, ⟨1e-5, 1e-5, 1e-5⟩, ⟨6e-3, 6e-3, 6e-3⟩⟩).normSq = 1 := by
  simp only [usedRot, Quat.mul_one']; lie_unfold; norm_num


/-! ## 10. the docstring's convention (audit): gravity outside the acceleration, order of the composition -/

/-- **Docstring form ⇔ code form.** If gravity is removed with the rotation at the START of every step — e.g. a supplied
rotation `rot_k = R₀·ΔR_k` — then the increments with gravity removed INSIDE the acceleration (what `integrate` computes, C16's
wording) and the RAW increments of the docstring (`g = 0` in `preSeq`: `Δv_raw = Σ ΔR_k acc_k dt`) are related by
`Δv = Δv_raw − Δt·R₀⁻¹g`, `Δp = Δp_raw − ½Δt²·R₀⁻¹g`, same `ΔR`, `Δt`. -/
theorem inside_eq_outside_increments (eps : ℝ) (g : Vec3 ℝ) (R0 : Quat ℝ) (fr : Nat → Frame ℝ) (N : Nat)
    (h0 : R0.normSq = 1) (hu : ∀ i, i < N → (dr eps (fr i)).normSq = 1)
    (hrot : ∀ k, k < N → (fr k).rot = some (R0.mul (seqR eps fr k))) :
    ∀ n, n ≤ N →
      (preSeq eps g R0 fr n).dv = (preSeq eps Vec3.zero R0 fr n).dv.sub ((R0.conj.act g).smul (preSeq eps g R0 fr n).t) ∧
      (preSeq eps g R0 fr n).dp = (preSeq eps Vec3.zero R0 fr n).dp.sub
        ((R0.conj.act g).smul ((preSeq eps g R0 fr n).t * (preSeq eps g R0 fr n).t / 2)) ∧
      (preSeq eps g R0 fr n).t = (preSeq eps Vec3.zero R0 fr n).t := by
  intro n
  induction n with
  | zero =>
    intro _
    simp only [preSeq, Pre.init]
    refine ⟨?_, ?_, trivial⟩ <;> (ext <;> lie_unfold <;> ring)
  | succ n ih =>
    intro hn
    obtain ⟨h1, h2, h3⟩ := ih (by omega)
    have hRn : (seqR eps fr n).normSq = 1 := seqR_unit eps fr N hu n (by omega)
    have ha : (seqR eps fr n).act (aSeq eps g R0 fr n)
        = ((seqR eps fr n).act (aSeq eps Vec3.zero R0 fr n)).sub (R0.conj.act g) := by
      unfold aSeq removeG
      rw [hrot n (by omega)]
      simp only [Quat.act_zero]
      rw [vact_sub, vact_sub, start_rotation_gravity g R0 _ h0 hRn]
      ext <;> lie_unfold <;> ring
    refine ⟨?_, ?_, ?_⟩
    · rw [preSeq_dv_succ, preSeq_dv_succ, preSeq_t_succ, h1, ha]
      ext <;> simp only [Vec3.add, Vec3.sub, Vec3.smul] <;> ring
    · rw [preSeq_dp_succ, preSeq_dp_succ, preSeq_t_succ, h2, h1, ha]
      simp only [q_real, Nat.cast_one, Nat.cast_ofNat]
      ext <;> simp only [Vec3.add, Vec3.sub, Vec3.smul] <;> ring
    · rw [preSeq_t_succ, preSeq_t_succ, h3]

/-- **The docstring's propagation formulas** `v_j = R_i Δv_raw + v_i + g_doc Δt`, `p_j = R_i Δp_raw + p_i + v_i Δt + ½ g_doc Δt²`
hold for the code with `g_doc = −g` (the docstring's gravity is the negative of the constructor's gravity vector) — exactly, under
the start-of-step condition of `inside_eq_outside_increments`.  In the integrated-rotation branch the code removes gravity with the
rotation AFTER the step, so there the two forms differ at first order in `w·dt`; the property (and §1) fix the inside form. -/
theorem doc_form_of_start_rotation (eps : ℝ) (g p0 : Vec3 ℝ) (R0 : Quat ℝ) (v0 : Vec3 ℝ) (fr : Nat → Frame ℝ) (N : Nat)
    (h0 : R0.normSq = 1) (hu : ∀ i, i < N → (dr eps (fr i)).normSq = 1)
    (hrot : ∀ k, k < N → (fr k).rot = some (R0.mul (seqR eps fr k))) (n : Nat) (hn : n ≤ N) :
    let o := compose p0 R0 v0 (preSeq eps g R0 fr n)
    let raw := preSeq eps Vec3.zero R0 fr n
    o.vel = ((R0.act raw.dv).add v0).add (g.neg.smul raw.t) ∧
    o.pos = (((R0.act raw.dp).add p0).add (v0.smul raw.t)).add (g.neg.smul (raw.t * raw.t / 2)) := by
  obtain ⟨h1, h2, h3⟩ := inside_eq_outside_increments eps g R0 fr N h0 hu hrot n hn
  have hg : R0.act (R0.conj.act g) = g := Quat.act_conj_act R0 h0 g
  simp only [compose]
  rw [h1, h2, h3, vact_sub, vact_sub, Quat.act_smul, Quat.act_smul, hg]
  constructor <;> (ext <;> simp only [Vec3.add, Vec3.sub, Vec3.smul, Vec3.neg] <;> ring)

/-- the docstring writes `R_j = ΔR_ij * R_i`; the code (and the increments' own definition `ΔR ← ΔR·Exp(w dt)`) needs
`R_i · ΔR_ij` — the two orders differ already for two quarter turns about different axes -/
theorem doc_order_differs : ∃ R D : Quat ℝ, R.normSq = 1 ∧ D.normSq = 1 ∧ R.mul D ≠ D.mul R := by
  refine ⟨⟨1, 0, 0, 0⟩, ⟨0, 1, 0, 0⟩, by lie_unfold; norm_num, by lie_unfold; norm_num, ?_⟩
  intro h
  have := congrArg Quat.z h
  simp only [Quat.mul] at this
  norm_num at this

/-- non-vacuity of the start-of-step condition: one frame whose supplied rotation is the initial rotation -/
example : ∃ (R0 : Quat ℝ) (fr : Nat → Frame ℝ), R0.normSq = 1 ∧ (∀ k, k < 1 → (fr k).rot = some (R0.mul (seqR 1e-16 fr k))) :=
  ⟨⟨0.6, 0, 0, 0.8⟩, fun _ => ⟨0.01, ⟨0.1, 0.2, 0.3⟩, ⟨0, 0, 9.81⟩, some ⟨0.6, 0, 0, 0.8⟩, ⟨1e-5, 1e-5, 1e-5⟩, ⟨6e-3, 6e-3, 6e-3⟩⟩,
    by lie_unfold; norm_num, fun k hk => by
      have : k = 0 := by omega
      subst this
      simp only [seqR, Quat.mul_one']⟩


/-! ## 11. any number of cuts, every increment (pass 7) -/

/-- **Any number of cuts, every increment, quantitative.** The chunks `rs.reverse` (each `≥ 1` frames) have been fed to the
object, then a chunk of `m` frames: frame `j` of that last call against frame `rs.sum + j` of the single call on the whole
stream.  Unit start, every increment's squared norm within `ε` of 1, nothing else assumed: rotations equal, velocity within
`K·(#chunks)·Σ|dt|‖a‖`, position within `K·(#chunks)·ΣΣ…`, `K = 3η + 3η²`, `η = (1+ε)^(total frames) − 1`.  (Every frame of a
chunked run is a frame of the last chunk of a prefix of the chunk list, so this covers the whole run.) -/
theorem chunk_list_defect_bound (cfg : Cfg ℝ) (hr : cfg.reset = false) (hp : cfg.propCov = true) (st : State ℝ)
    (hR0 : st.rot.normSq = 1) (fr : Nat → Frame ℝ) (rs : List Nat) (hrs : ∀ y ∈ rs, 1 ≤ y) (m : Nat) (ε : ℝ) (hε : 0 ≤ ε)
    (hu : ∀ i, i < rs.sum + m → |1 - (dr cfg.eps (fr i)).normSq| ≤ ε) (j : Nat) (hj : j < m) :
    let r2 := call cfg (stAfterR cfg st fr rs) none (fun i => fr (rs.sum + i)) m
    let r := call cfg st none fr (rs.sum + m)
    let K := 3 * ((1 + ε) ^ (rs.sum + m) - 1) + 3 * ((1 + ε) ^ (rs.sum + m) - 1) ^ 2
    (outAt r.outs (rs.sum + j)).rot = (outAt r2.outs j).rot ∧
    ((outAt r.outs (rs.sum + j)).vel.sub (outAt r2.outs j).vel).norm
      ≤ K * ((rs.length : ℝ) + 1) * sumA cfg.eps cfg.g st.rot fr 0 (rs.sum + (j+1)) ∧
    ((outAt r.outs (rs.sum + j)).pos.sub (outAt r2.outs j).pos).norm
      ≤ K * ((rs.length : ℝ) + 1) * sumP cfg.eps cfg.g st.rot fr 0 (rs.sum + (j+1)) := by
  intro r2 r K
  have h1 : (1:ℝ) ≤ 1 + ε := by linarith
  have hη : 0 ≤ (1 + ε) ^ (rs.sum + m) - 1 := by have := one_le_pow₀ h1 (n := rs.sum + m); linarith
  have hK0 : 0 ≤ K := by positivity
  have hK : ∀ m' j', m' + j' < rs.sum + m →
      (eDef cfg.eps cfg.g st.rot fr m' j').norm ≤ K * (aSeq cfg.eps cfg.g st.rot fr (m' + j')).norm := by
    intro m' j' h
    have e : m' + (rs.sum + m - m') = rs.sum + m := by omega
    have := eDef_bound cfg.eps cfg.g st.rot fr m' (rs.sum + m - m') ε hε hR0 (by rw [e]; exact hu) j' (by omega)
    rw [e] at this
    exact this
  obtain ⟨i1, i2, i3⟩ := stAfterR_bound cfg hr hp st fr (rs.sum + m) K hK0 hK rs hrs (by omega)
  have hstep := step_defect cfg.eps cfg.g st (stAfterR cfg st fr rs) fr rs.sum m K (rs.length : ℝ) hK0 (Nat.cast_nonneg _)
    (fun j' hj' => hK rs.sum j' (by omega)) i1 i2 i3 (j+1) (by omega)
  have o2 := par_eq_seq cfg (stAfterR cfg st fr rs) (fun i => fr (rs.sum + i)) m j hj
  have o1 := par_eq_seq cfg st fr (rs.sum + m) (rs.sum + j) (by omega)
  show (outAt (call cfg st none fr (rs.sum + m)).outs (rs.sum + j)).rot = (outAt (call cfg (stAfterR cfg st fr rs) none _ m).outs j).rot ∧ _
  rw [o1, o2]
  exact hstep

/-- … and for EVERY stream of the model (`0 ≤ eps ≤ 1`): `ε = eps⁶` -/
theorem chunk_list_every_stream (cfg : Cfg ℝ) (hr : cfg.reset = false) (hp : cfg.propCov = true) (h0 : 0 ≤ cfg.eps)
    (h1 : cfg.eps ≤ 1) (st : State ℝ) (hR0 : st.rot.normSq = 1) (fr : Nat → Frame ℝ) (rs : List Nat) (hrs : ∀ y ∈ rs, 1 ≤ y)
    (m j : Nat) (hj : j < m) :
    let r2 := call cfg (stAfterR cfg st fr rs) none (fun i => fr (rs.sum + i)) m
    let r := call cfg st none fr (rs.sum + m)
    let K := 3 * ((1 + cfg.eps ^ 6) ^ (rs.sum + m) - 1) + 3 * ((1 + cfg.eps ^ 6) ^ (rs.sum + m) - 1) ^ 2
    (outAt r.outs (rs.sum + j)).rot = (outAt r2.outs j).rot ∧
    ((outAt r.outs (rs.sum + j)).vel.sub (outAt r2.outs j).vel).norm
      ≤ K * ((rs.length : ℝ) + 1) * sumA cfg.eps cfg.g st.rot fr 0 (rs.sum + (j+1)) ∧
    ((outAt r.outs (rs.sum + j)).pos.sub (outAt r2.outs j).pos).norm
      ≤ K * ((rs.length : ℝ) + 1) * sumP cfg.eps cfg.g st.rot fr 0 (rs.sum + (j+1)) :=
  chunk_list_defect_bound cfg hr hp st hR0 fr rs hrs m (cfg.eps ^ 6) (by positivity)
    (fun i _ => dr_near_unit cfg.eps h0 h1 (fr i)) j hj

/-- non-vacuity: the Taylor-band stream of §7 cut into chunks `2 | 1 | 3` then a chunk of 4 frames, frame 2 of it -/
example : ∃ (cfg : Cfg ℝ) (st : State ℝ) (fr : Nat → Frame ℝ) (rs : List Nat) (m j : Nat),
    cfg.reset = false ∧ cfg.propCov = true ∧ 0 ≤ cfg.eps ∧ cfg.eps ≤ 1 ∧ st.rot.normSq = 1 ∧ (∀ y ∈ rs, 1 ≤ y) ∧ j < m ∧
    rs.length = 3 := by
  refine ⟨⟨(2:ℝ)^(-52:ℤ), ⟨0, 0, -9.81⟩, false, true, false⟩, State.fresh ⟨1, 2, 3⟩ ⟨0.6, 0, 0, 0.8⟩ ⟨0, 1, 0⟩,
    fun _ => ⟨1, ⟨(2:ℝ)^(-60:ℤ), 0, 0⟩, ⟨0.1, 0.2, 9.7⟩, none, ⟨1e-5, 1e-5, 1e-5⟩, ⟨6e-3, 6e-3, 6e-3⟩⟩, [3, 1, 2], 4, 2,
    rfl, rfl, by positivity, ?_, ?_, by decide, by norm_num, rfl⟩
  · show (2:ℝ)^(-52:ℤ) ≤ 1
    rw [_root_.zpow_neg]; exact inv_le_one_of_one_le₀ (by norm_num)
  · simp only [State.fresh]; lie_unfold; norm_num


/-! ## 12. closed form of the chunk bound; PSD over histories of requests (pass 10) -/

/-- **Closed form of the chunk-invariance bound.** Any chunk list, every stream of the model, `0 ≤ eps ≤ 1`, unit start, and
`2·N·eps⁶ ≤ 1` (`N` = total number of frames; for float64 this allows `N` up to `2³¹¹`): the chunked and the one-call results
have equal rotations and
`‖Δvel‖ ≤ 12·N·eps⁶·(#chunks+1)·Σ_{i} |dt_i|‖a_i‖`,
`‖Δpos‖ ≤ 12·N·eps⁶·(#chunks+1)·Σ_{i} (|dt_i| Σ_{l<i} |dt_l|‖a_l‖ + ½ dt_i²‖a_i‖)`,
sums over the frames up to the compared one, `a_i` the gravity-free acceleration of frame `i`. -/
theorem chunk_list_every_stream_closed (cfg : Cfg ℝ) (hr : cfg.reset = false) (hp : cfg.propCov = true) (h0 : 0 ≤ cfg.eps)
    (h1 : cfg.eps ≤ 1) (st : State ℝ) (hR0 : st.rot.normSq = 1) (fr : Nat → Frame ℝ) (rs : List Nat) (hrs : ∀ y ∈ rs, 1 ≤ y)
    (m j : Nat) (hj : j < m) (hN : 2 * ((rs.sum + m : Nat) : ℝ) * cfg.eps ^ 6 ≤ 1) :
    let r2 := call cfg (stAfterR cfg st fr rs) none (fun i => fr (rs.sum + i)) m
    let r := call cfg st none fr (rs.sum + m)
    let C := 12 * ((rs.sum + m : Nat) : ℝ) * cfg.eps ^ 6 * ((rs.length : ℝ) + 1)
    (outAt r.outs (rs.sum + j)).rot = (outAt r2.outs j).rot ∧
    ((outAt r.outs (rs.sum + j)).vel.sub (outAt r2.outs j).vel).norm
      ≤ C * ∑ i ∈ Finset.range (rs.sum + (j+1)), |(fr i).dt| * (aSeq cfg.eps cfg.g st.rot fr i).norm ∧
    ((outAt r.outs (rs.sum + j)).pos.sub (outAt r2.outs j).pos).norm
      ≤ C * ∑ i ∈ Finset.range (rs.sum + (j+1)), (|(fr i).dt| *
          (∑ l ∈ Finset.range i, |(fr l).dt| * (aSeq cfg.eps cfg.g st.rot fr l).norm)
        + 1 / 2 * ((fr i).dt * (fr i).dt) * (aSeq cfg.eps cfg.g st.rot fr i).norm) := by
  intro r2 r C
  obtain ⟨g1, g2, g3⟩ := chunk_list_every_stream cfg hr hp h0 h1 st hR0 fr rs hrs m j hj
  have hε : 0 ≤ cfg.eps ^ 6 := by positivity
  have hK := K_closed (cfg.eps ^ 6) hε (rs.sum + m) hN
  have hl : (0:ℝ) ≤ (rs.length : ℝ) + 1 := by positivity
  have nA := sumA_nonneg cfg.eps cfg.g st.rot fr 0 (rs.sum + (j+1))
  have nP := sumP_nonneg cfg.eps cfg.g st.rot fr 0 (rs.sum + (j+1))
  have cA := sumA_closed cfg.eps cfg.g st.rot fr 0 (rs.sum + (j+1))
  have cP := sumP_closed cfg.eps cfg.g st.rot fr 0 (rs.sum + (j+1))
  simp only [Nat.zero_add] at cA cP
  refine ⟨g1, ?_, ?_⟩
  · rw [← cA]
    refine le_trans g2 ?_
    exact mul_le_mul_of_nonneg_right (mul_le_mul_of_nonneg_right hK hl) nA
  · rw [← cP]
    refine le_trans g3 ?_
    exact mul_le_mul_of_nonneg_right (mul_le_mul_of_nonneg_right hK hl) nP

/-- non-vacuity of `2·N·eps⁶ ≤ 1`: float64 (`eps = 2⁻⁵²`) and a million frames -/
example : 2 * ((1000000 : Nat) : ℝ) * ((2:ℝ)^(-52:ℤ)) ^ 6 ≤ 1 := by
  have h : ((2:ℝ)^(-52:ℤ)) ^ 6 ≤ (2:ℝ)^(-52:ℤ) := by
    have h1 : (2:ℝ)^(-52:ℤ) ≤ 1 := by rw [_root_.zpow_neg]; exact inv_le_one_of_one_le₀ (by norm_num)
    have h0 : (0:ℝ) ≤ (2:ℝ)^(-52:ℤ) := by positivity
    calc ((2:ℝ)^(-52:ℤ)) ^ 6 = ((2:ℝ)^(-52:ℤ)) ^ 5 * (2:ℝ)^(-52:ℤ) := pow_succ _ _
      _ ≤ 1 * (2:ℝ)^(-52:ℤ) := mul_le_mul_of_nonneg_right (pow_le_one₀ h0 h1) h0
      _ = (2:ℝ)^(-52:ℤ) := one_mul _
  have h2 : (2:ℝ)^(-52:ℤ) ≤ 1 / 2000000 := by
    rw [_root_.zpow_neg, show ((2:ℝ) ^ (52:ℤ)) = (2:ℝ) ^ (52:ℕ) from by norm_cast]
    rw [inv_le_comm₀ (by positivity) (by norm_num)]
    norm_num
  push_cast
  have h3 : ((2:ℝ)^(-52:ℤ)) ^ 6 ≤ 1 / 2000000 := le_trans h h2
  generalize ((2:ℝ)^(-52:ℤ)) ^ 6 = x at h3 ⊢
  linarith


/-- the carried covariance stays PSD through a call with ANY `init_state` (dict covariance PSD if given) -/
theorem cov_state_psd_init (cfg : Cfg ℝ) (hcfg : cfg.valid = true) (st : State ℝ) (init : Option (Init ℝ))
    (fr : Nat → Frame ℝ) (F : Nat) (hst : (toM st.cov).PosSemidef) (h0 : (toM (startCov st init)).PosSemidef)
    (hf : ∀ j, j < F → FrameOk (fr j)) :
    (toM (call cfg st init fr F).st.cov).PosSemidef := by
  by_cases hr : cfg.reset = true
  · rw [call_st_reset cfg st init fr F hr]; exact hst
  · have hr' : cfg.reset = false := by simpa using hr
    have hp : cfg.propCov = true := by
      unfold Cfg.valid at hcfg
      rw [hr'] at hcfg
      simpa using hcfg
    obtain ⟨c, hc, hpsd, _⟩ := cov_psd_init cfg hp st init fr F h0 hf
    rw [call_st_cov_gen cfg st init fr F hr' hp c hc]
    exact hpsd

/-- an admissible request for the covariance clause: at least one frame, `dt > 0` and non-negative measurement covariances on
its frames, and a PSD covariance in the `init_state` dict if one is given -/
def ReqOk (q : CallReq ℝ) : Prop :=
  1 ≤ q.F ∧ (∀ j, j < q.F → FrameOk (q.fr j)) ∧ (∀ i c, q.init = some i → i.cov = some c → (toM c).PosSemidef)

theorem startCov_psd (st : State ℝ) (init : Option (Init ℝ)) (hst : (toM st.cov).PosSemidef)
    (hi : ∀ i c, init = some i → i.cov = some c → (toM c).PosSemidef) : (toM (startCov st init)).PosSemidef := by
  cases init with
  | none => exact hst
  | some i =>
    obtain ⟨p, r, v, cv, rj⟩ := i
    cases cv with
    | none => exact hst
    | some c => exact hi _ c rfl rfl

/-- **PSD over ALL histories of requests.** One object serves any sequence of requests — default or explicit `init_state`
(with or without `cov` / `Rij` keys), per-call covariances, any frame counts `≥ 1`, requests that RAISE in between (the caller
catches and goes on), `reset` either way: starting from a PSD carried covariance, every covariance that is returned is symmetric
positive semidefinite and the carried covariance stays PSD. -/
theorem cov_psd_requests (cfg : Cfg ℝ) (hp : cfg.propCov = true) (qs : List (CallReq ℝ)) :
    ∀ st : State ℝ, (toM st.cov).PosSemidef → (∀ q ∈ qs, ReqOk q) →
      (∀ r ∈ okResults (runReqs cfg st qs).1, ∃ c, r.cov = some c ∧ (toM c).PosSemidef ∧ (toM c)ᵀ = toM c) ∧
      (toM (runReqs cfg st qs).2.cov).PosSemidef := by
  have hv : cfg.valid = true := by unfold Cfg.valid; rw [hp]; simp
  induction qs with
  | nil => intro st hst _; exact ⟨fun r hr => by simp [runReqs, okResults] at hr, hst⟩
  | cons q qs ih =>
    intro st hst hq
    obtain ⟨_, hF, hI⟩ := hq q (by simp)
    have hrest : ∀ q' ∈ qs, ReqOk q' := fun q' h' => hq q' (by simp [h'])
    by_cases hok : q.ok = true
    · have h0 := startCov_psd st q.init hst hI
      obtain ⟨i1, i2⟩ := ih (call cfg st q.init q.fr q.F).st
        (cov_state_psd_init cfg hv st q.init q.fr q.F hst h0 hF) hrest
      simp only [runReqs, ok_call cfg st q hok, okResults]
      refine ⟨?_, i2⟩
      intro r hr
      simp only [List.mem_cons] at hr
      rcases hr with rfl | hr
      · exact cov_psd_init cfg hp st q.init q.fr q.F h0 hF
      · exact i1 r hr
    · have hok' : q.ok = false := by simpa using hok
      simp only [runReqs, failed_call_atomic cfg st q hok', okResults]
      exact ih st hst hrest

/-- non-vacuity: a request with an explicit PSD covariance (the zero matrix) in its dict -/
example : ReqOk (⟨2, fun _ => ⟨0.01, ⟨0.1, 0.2, 0.3⟩, ⟨0, 0, 9.81⟩, none, ⟨1e-5, 1e-5, 1e-5⟩, ⟨6e-3, 6e-3, 6e-3⟩⟩,
    some ⟨⟨1, 2, 3⟩, ⟨0.6, 0, 0, 0.8⟩, ⟨0, 1, 0⟩, some M9.zero, some none⟩, true⟩ : CallReq ℝ) := by
  refine ⟨by norm_num, fun j _ => by unfold FrameOk; norm_num, ?_⟩
  intro i c hi hc
  simp only [Option.some.injEq] at hi
  subst hi
  simp only [Option.some.injEq] at hc
  subst hc
  rw [toM_zero]; exact Matrix.PosSemidef.zero


/-! ## 13. the chunk bound as a number for float64 (pass 11) -/

theorem eps64_pow6 : ((2:ℝ) ^ (-52:ℤ)) ^ 6 = (2:ℝ) ^ (-312:ℤ) := by
  rw [← zpow_natCast, ← _root_.zpow_mul]; norm_num

/-- **float64, up to 2²⁰ frames, any chunking — a number.** With `eps = 2⁻⁵²` (the threshold the float64 code uses) and at most
`2²⁰` frames in total, chunked and one-call results have equal rotations and differ by at most
`2⁻²⁸⁸·(#chunks+1)·Σ|dt|‖a‖` in velocity and `2⁻²⁸⁸·(#chunks+1)·Σ(|dt_i|Σ_{l<i}|dt_l|‖a_l‖ + ½dt_i²‖a_i‖)` in position —
in exact arithmetic the Taylor branch of `so3 Exp` costs chunk invariance less than `10⁻⁸⁶` relative. -/
theorem chunk_list_float64 (cfg : Cfg ℝ) (hr : cfg.reset = false) (hp : cfg.propCov = true) (he : cfg.eps = (2:ℝ) ^ (-52:ℤ))
    (st : State ℝ) (hR0 : st.rot.normSq = 1) (fr : Nat → Frame ℝ) (rs : List Nat) (hrs : ∀ y ∈ rs, 1 ≤ y)
    (m j : Nat) (hj : j < m) (hN : rs.sum + m ≤ 2 ^ 20) :
    let r2 := call cfg (stAfterR cfg st fr rs) none (fun i => fr (rs.sum + i)) m
    let r := call cfg st none fr (rs.sum + m)
    let C := (2:ℝ) ^ (-288:ℤ) * ((rs.length : ℝ) + 1)
    (outAt r.outs (rs.sum + j)).rot = (outAt r2.outs j).rot ∧
    ((outAt r.outs (rs.sum + j)).vel.sub (outAt r2.outs j).vel).norm
      ≤ C * ∑ i ∈ Finset.range (rs.sum + (j+1)), |(fr i).dt| * (aSeq cfg.eps cfg.g st.rot fr i).norm ∧
    ((outAt r.outs (rs.sum + j)).pos.sub (outAt r2.outs j).pos).norm
      ≤ C * ∑ i ∈ Finset.range (rs.sum + (j+1)), (|(fr i).dt| *
          (∑ l ∈ Finset.range i, |(fr l).dt| * (aSeq cfg.eps cfg.g st.rot fr l).norm)
        + 1 / 2 * ((fr i).dt * (fr i).dt) * (aSeq cfg.eps cfg.g st.rot fr i).norm) := by
  intro r2 r C
  have h0 : 0 ≤ cfg.eps := by rw [he]; positivity
  have h1 : cfg.eps ≤ 1 := by rw [he, _root_.zpow_neg]; exact inv_le_one_of_one_le₀ (by norm_num)
  have hNr : ((rs.sum + m : Nat) : ℝ) ≤ (2:ℝ) ^ (20:ℕ) := by exact_mod_cast hN
  have he6 : cfg.eps ^ 6 = (2:ℝ) ^ (-312:ℤ) := by rw [he]; exact eps64_pow6
  have hp312 : (0:ℝ) < (2:ℝ) ^ (-312:ℤ) := by positivity
  -- 12·N·eps⁶ ≤ 2⁻²⁸⁸
  have hC : 12 * ((rs.sum + m : Nat) : ℝ) * cfg.eps ^ 6 ≤ (2:ℝ) ^ (-288:ℤ) := by
    rw [he6]
    have e : (2:ℝ) ^ (-288:ℤ) = (2:ℝ) ^ (24:ℕ) * (2:ℝ) ^ (-312:ℤ) := by
      rw [← zpow_natCast, ← _root_.zpow_add₀ (by norm_num : (2:ℝ) ≠ 0)]; norm_num
    rw [e]
    have : 12 * ((rs.sum + m : Nat) : ℝ) ≤ (2:ℝ) ^ (24:ℕ) := by
      have : (2:ℝ) ^ (24:ℕ) = 16 * (2:ℝ) ^ (20:ℕ) := by norm_num
      rw [this]; nlinarith
    exact mul_le_mul_of_nonneg_right this (le_of_lt hp312)
  have hside : 2 * ((rs.sum + m : Nat) : ℝ) * cfg.eps ^ 6 ≤ 1 := by
    have hn : (0:ℝ) ≤ ((rs.sum + m : Nat) : ℝ) := Nat.cast_nonneg _
    have h288 : (2:ℝ) ^ (-288:ℤ) ≤ 1 := by rw [_root_.zpow_neg]; exact inv_le_one_of_one_le₀ (one_le_zpow₀ (by norm_num) (by norm_num))
    have hpos : 0 ≤ ((rs.sum + m : Nat) : ℝ) * cfg.eps ^ 6 := mul_nonneg hn (by rw [he6]; exact le_of_lt hp312)
    nlinarith
  obtain ⟨g1, g2, g3⟩ := chunk_list_every_stream_closed cfg hr hp h0 h1 st hR0 fr rs hrs m j hj hside
  have hl : (0:ℝ) ≤ (rs.length : ℝ) + 1 := by positivity
  have nA : 0 ≤ ∑ i ∈ Finset.range (rs.sum + (j+1)), |(fr i).dt| * (aSeq cfg.eps cfg.g st.rot fr i).norm :=
    Finset.sum_nonneg fun i _ => mul_nonneg (abs_nonneg _) (Vec3.norm_nonneg _)
  have nP : 0 ≤ ∑ i ∈ Finset.range (rs.sum + (j+1)), (|(fr i).dt| *
        (∑ l ∈ Finset.range i, |(fr l).dt| * (aSeq cfg.eps cfg.g st.rot fr l).norm)
      + 1 / 2 * ((fr i).dt * (fr i).dt) * (aSeq cfg.eps cfg.g st.rot fr i).norm) :=
    Finset.sum_nonneg fun i _ => add_nonneg
      (mul_nonneg (abs_nonneg _) (Finset.sum_nonneg fun l _ => mul_nonneg (abs_nonneg _) (Vec3.norm_nonneg _)))
      (mul_nonneg (mul_nonneg (by norm_num) (mul_self_nonneg _)) (Vec3.norm_nonneg _))
  refine ⟨g1, le_trans g2 ?_, le_trans g3 ?_⟩
  · exact mul_le_mul_of_nonneg_right (mul_le_mul_of_nonneg_right hC hl) nA
  · exact mul_le_mul_of_nonneg_right (mul_le_mul_of_nonneg_right hC hl) nP

/-- non-vacuity: a float64 configuration and 200 frames in chunks 64 | 100 then 36 -/
example : ∃ (cfg : Cfg ℝ) (rs : List Nat) (m : Nat), cfg.eps = (2:ℝ) ^ (-52:ℤ) ∧ cfg.reset = false ∧ cfg.propCov = true ∧
    (∀ y ∈ rs, 1 ≤ y) ∧ rs.sum + m ≤ 2 ^ 20 ∧ rs.sum + m = 200 :=
  ⟨⟨(2:ℝ)^(-52:ℤ), ⟨0, 0, 9.81⟩, false, true, false⟩, [100, 64], 36, rfl, rfl, rfl, by decide, by norm_num, by norm_num⟩


/-! ## non-vacuity of the hypotheses -/

example : (⟨0.6, 0, 0, 0.8⟩ : Quat ℝ).normSq = 1 := by lie_unfold; norm_num
example : (toM (State.fresh (⟨1, 2, 3⟩ : Vec3 ℝ) ⟨0.6, 0, 0, 0.8⟩ ⟨0, 1, 0⟩).cov).PosSemidef := by
  simp only [State.fresh, toM_zero]; exact Matrix.PosSemidef.zero
example : FrameOk (⟨0.01, ⟨0.1, 0.2, 0.3⟩, ⟨0, 0, 9.81⟩, none, ⟨1e-5, 1e-5, 1e-5⟩, ⟨6e-3, 6e-3, 6e-3⟩⟩ : Frame ℝ) := by
  unfold FrameOk; norm_num
/-- a frame on the closed-form branch: `‖w dt‖ = 2·(1/2) = 1 > 2⁻⁵²` -/
example : (dr ((2:ℝ)^(-52:ℤ)) (⟨1/2, ⟨2, 0, 0⟩, ⟨0, 0, 9.81⟩, none, ⟨1e-5, 1e-5, 1e-5⟩, ⟨6e-3, 6e-3, 6e-3⟩⟩ : Frame ℝ)).normSq = 1 := by
  apply dr_unit_closed _ (by positivity)
  have : (Vec3.smul (1/2 : ℝ) (⟨2, 0, 0⟩ : Vec3 ℝ)).norm = 1 := by
    unfold Vec3.norm Vec3.normSq Vec3.smul; norm_num
  show _ < (Vec3.smul (1/2 : ℝ) (⟨2, 0, 0⟩ : Vec3 ℝ)).norm
  rw [this]
  have : ((2:ℝ)^(-52:ℤ)) < 1 := by
    rw [_root_.zpow_neg]; exact inv_lt_one_of_one_lt₀ (by norm_num)
  exact this
/-- the hypotheses of `chunk_invariant` hold together: a constant-rate stream, chunks `[2,1,3]` -/
example : ∃ (cfg : Cfg ℝ) (st : State ℝ) (fr : Nat → Frame ℝ) (ms : List Nat),
    cfg.reset = false ∧ cfg.propCov = true ∧ cfg.left = false ∧ (∀ m ∈ ms, 1 ≤ m) ∧ ms ≠ [] ∧
    st.rot.normSq = 1 ∧ (∀ i, i < ms.sum → (dr cfg.eps (fr i)).normSq = 1) ∧ (toM st.cov).PosSemidef ∧
    (∀ j, FrameOk (fr j)) := by
  refine ⟨⟨(2:ℝ)^(-52:ℤ), ⟨0, 0, 9.81⟩, false, true, false⟩, State.fresh ⟨1, 2, 3⟩ ⟨0.6, 0, 0, 0.8⟩ ⟨0, 1, 0⟩,
    fun _ => ⟨1/2, ⟨2, 0, 0⟩, ⟨0, 0, 9.81⟩, none, ⟨1e-5, 1e-5, 1e-5⟩, ⟨6e-3, 6e-3, 6e-3⟩⟩, [2, 1, 3],
    rfl, rfl, rfl, by decide, by decide, ?_, ?_, ?_, ?_⟩
  · simp only [State.fresh]; lie_unfold; norm_num
  · intro i _
    apply dr_unit_closed _ (by positivity)
    have : (Vec3.smul (1/2 : ℝ) (⟨2, 0, 0⟩ : Vec3 ℝ)).norm = 1 := by
      unfold Vec3.norm Vec3.normSq Vec3.smul; norm_num
    show _ < (Vec3.smul (1/2 : ℝ) (⟨2, 0, 0⟩ : Vec3 ℝ)).norm
    rw [this, _root_.zpow_neg]
    exact inv_lt_one_of_one_lt₀ (by norm_num)
  · simp only [State.fresh, toM_zero]; exact Matrix.PosSemidef.zero
  · intro j; unfold FrameOk; norm_num
example : rankOk [3] [1] [3] = true ∧ rankOk [5, 3] [5, 1] [5, 3] = true ∧ rankOk [2, 5, 3] [5, 1] [2, 5, 3] = false := by
  decide

end PP.Imu
