"""Residual models for C07: random programs over PyPose's differentiable operator set (the set of C04 minus Jinvp and
minus Exp/Log of the scaled groups, whose backward passes are truncated series), with 1-3 parameters of mixed kinds
(Euclidean tensor / 0-dim scalar, Lie algebra, Lie group) and 1-2 residual outputs.  Everything a case needs is plain
JSON (program trees, leaf values, shapes), so a case replays exactly.

types : ["G", g] group LieTensor | ["A", g] algebra LieTensor | ["E", k] plain tensor (…, k) | ["S"] scalar multiplier
        (0-dim or (…, 1)) | ["M", g] matrix (…, n, n)
nodes : ["L", i] leaf | ["Exp", g, a] | ["Log", g, x] | ["Inv", g, x] | ["Mul", g, x, y] | ["Act", g, x, p] |
        ["Act4", g, x, p] | ["Adj", g, x, a] | ["AdjT", g, x, a] | ["Retr", g, x, a] | ["Matrix", g, x] |
        ["AddE", p, q] | ["ScaleE", p, s] | ["Ten", a]
"""
from __future__ import annotations

import math

import torch
from torch import nn

from . import common, util_lie as U

GD, AD = U.GDIM, U.ADIM
EXPLOG_GROUPS = ["SO3", "SE3"]          # Exp / Log / Retr inside programs (exact backward passes)
ALL_GROUPS = U.GROUPS


def P():
    return U.pp()


def raw(t):
    return torch.Tensor.as_subclass(t.detach(), torch.Tensor)


def tdim(ty):
    k = ty[0]
    if k == "G":
        return GD[ty[1]]
    if k == "A":
        return AD[ty[1]]
    if k == "E":
        return ty[1]
    if k == "S":
        return 1
    raise AssertionError(ty)


# ----------------------------------------------------------------------------- evaluation (the real code)

def wrap_leaf(ty, t):
    pp = P()
    if ty[0] == "G":
        return pp.LieTensor(t, ltype=U.ltype(ty[1]))
    if ty[0] == "A":
        return pp.LieTensor(t, ltype=U.ltype(U.ALG[ty[1]]))
    return t


def run_node(node, leaves):
    k = node[0]
    if k == "L":
        return leaves[node[1]]
    if k == "Exp":
        return run_node(node[2], leaves).Exp()
    if k == "Log":
        return run_node(node[2], leaves).Log()
    if k == "Inv":
        return run_node(node[2], leaves).Inv()
    if k == "Matrix":
        return run_node(node[2], leaves).matrix()
    if k == "Ten":
        return run_node(node[1], leaves).tensor()
    if k == "Sum1":
        return run_node(node[1], leaves).sum(-1, keepdim=True)
    if k == "Slice":           # a VIEW of its operand (of a parameter / an input when the operand is a leaf)
        x = run_node(node[2], leaves)
        x = x.tensor() if isinstance(x, P().LieTensor) else x
        return x[..., :node[1]]
    if k == "AddE":
        return run_node(node[1], leaves) + run_node(node[2], leaves)
    if k == "ScaleE":
        return run_node(node[1], leaves) * run_node(node[2], leaves)
    x, y = run_node(node[2], leaves), run_node(node[3], leaves)
    if k == "Mul":
        return x @ y
    if k in ("Act", "Act4"):
        return x.Act(y)
    if k == "Adj":
        return x.Adj(y)
    if k == "AdjT":
        return x.AdjT(y)
    if k == "Retr":
        return x.Retr(y)
    raise AssertionError(node)


def node_str(node):
    k = node[0]
    if k == "L":
        return f"x{node[1]}"
    if k in ("Exp", "Log", "Inv", "Matrix"):
        return f"{k}[{node[1]}]({node_str(node[2])})"
    if k == "Ten":
        return f"ten({node_str(node[1])})"
    if k == "Sum1":
        return f"sum1({node_str(node[1])})"
    if k == "Slice":
        return f"{node_str(node[2])}[..., :{node[1]}]"
    if k == "OutRef":
        return f"out{node[1]}" + (f"[..., :{node[2]}]" if node[2] else "")
    if k in ("AddE", "ScaleE"):
        return f"{k}({node_str(node[1])},{node_str(node[2])})"
    return f"{k}[{node[1]}]({node_str(node[2])},{node_str(node[3])})"


def node_ops(node, acc=None):
    acc = [] if acc is None else acc
    if node[0] == "L":
        return acc
    acc.append(node[0])
    for ch in node[1:]:
        if isinstance(ch, list):
            node_ops(ch, acc)
    return acc


def node_leaves(node, acc=None):
    acc = set() if acc is None else acc
    if node[0] == "L":
        acc.add(node[1])
        return acc
    for ch in node[1:]:
        if isinstance(ch, list):
            node_leaves(ch, acc)
    return acc


GUARD = 77.0        # value stored in the part of a buffer that lies outside a view (must never change)


def laid_out(t, layout):
    """(tensor with the values of `t` but the requested memory layout, underlying buffer or None).
    layouts: contig | slice (inner slice of a buffer that is wider in the last dim) | step (every second element of the
    last dim of a wider buffer) | perm (permuted view of a transposed buffer, rank >= 2) | bslice (slice along the first
    dim of a longer buffer, rank >= 1)"""
    if layout in (None, "contig") or t.dim() == 0:
        return t.clone(), None
    if layout == "slice":
        buf = torch.full(tuple(t.shape[:-1]) + (t.shape[-1] + 2,), GUARD, dtype=t.dtype)
        buf[..., 1:-1] = t
        return buf[..., 1:-1], buf
    if layout == "step":
        buf = torch.full(tuple(t.shape[:-1]) + (2 * t.shape[-1],), GUARD, dtype=t.dtype)
        buf[..., ::2] = t
        return buf[..., ::2], buf
    if layout == "perm" and t.dim() >= 2:
        buf = t.transpose(0, -1).contiguous()
        return buf.transpose(0, -1), None
    if layout == "bslice" and t.dim() >= 1:
        buf = torch.full((t.shape[0] + 2,) + tuple(t.shape[1:]), GUARD, dtype=t.dtype)
        buf[1:-1] = t
        return buf[1:-1], buf
    return t.clone(), None


def guard_ok(buf, layout):
    """storage outside the view still holds the guard value"""
    if buf is None:
        return True
    gv = torch.full((1,), GUARD, dtype=buf.dtype)[0]        # the guard value as this dtype stores it
    if layout == "slice":
        return bool((buf[..., 0] == gv).all()) and bool((buf[..., -1] == gv).all())
    if layout == "step":
        return bool((buf[..., 1::2] == gv).all())
    if layout == "bslice":
        return bool((buf[0] == gv).all()) and bool((buf[-1] == gv).all())
    return True


class ProgModel(nn.Module):
    """the user's model: parameters p0, p1, … (registration order = named_parameters order = param_groups order);
    constant leaves arrive through `input` (single tensor, tuple or dict)"""

    def __init__(self, case, dtype=None):
        super().__init__()
        pp = P()
        D = U.dt(case["dtype"]) if dtype is None else dtype
        self.case = case
        self.leaf_param = {}
        self.leaf_input = {}
        self.param_bufs = []
        ip = ii = 0
        for li, lf in enumerate(case["leaves"]):
            if lf["role"] == "param":
                t = torch.tensor(lf["values"], dtype=torch.float64).to(D).reshape(tuple(lf["lshape"]) + ((tdim(lf["ty"]),) if not lf.get("zerodim") else ()))
                if lf.get("view") and dtype is None:      # the parameter's data is a view into a larger buffer of the caller
                    if t.dim() == 0:
                        buf = torch.full((3,), GUARD, dtype=t.dtype); buf[1] = t
                        t, lay = buf[1], "zd"
                    else:
                        lay = lf["view"]
                        t, buf = laid_out(t, lay)
                    self.param_bufs.append((f"p{ip}", buf, lay))
                if lf["ty"][0] in ("G", "A"):
                    prm = pp.Parameter(wrap_leaf(lf["ty"], t), requires_grad=lf["rg"])
                elif lf.get("pp_param") and dtype is None:     # (13) a Euclidean parameter wrapped by pp.Parameter
                    prm = pp.Parameter(t, requires_grad=lf["rg"])
                else:
                    prm = nn.Parameter(t, requires_grad=lf["rg"])
                setattr(self, f"p{ip}", prm)
                self.leaf_param[li] = f"p{ip}"
                ip += 1
            else:
                self.leaf_input[li] = ii
                ii += 1
        self.n_inputs = ii

    def leaves_from(self, inputs):
        leaves = [None] * len(self.case["leaves"])
        for li, name in self.leaf_param.items():
            leaves[li] = getattr(self, name)
        for li, idx in self.leaf_input.items():
            leaves[li] = inputs[idx]
        return leaves

    def forward(self, *args, **kw):
        if kw:
            inputs = [kw[f"in{j}"] for j in range(self.n_inputs)]
        else:
            inputs = list(args)
        leaves = self.leaves_from(inputs)
        outs = []
        for root, as_t in zip(self.case["roots"], self.case["out_as_tensor"]):
            if root[0] == "OutRef":     # (31) an output that IS an earlier output (same object) or a view of it
                o = outs[root[1]]
                if root[2]:     # a view of the storage (a slice of a LieTensor is taken from its plain tensor view)
                    o = (o.tensor() if isinstance(o, P().LieTensor) else o)[..., :root[2]]
                outs.append(o)
                continue
            o = run_node(root, leaves)
            if as_t and isinstance(o, P().LieTensor):
                o = o.tensor()
            outs.append(o)
        return outs[0] if (len(outs) == 1 and not self.case.get("tuple_out")) else tuple(outs)


def make_inputs(case, dtype=None, with_bufs=False):
    """constant leaves as tensors / LieTensors in the case's dtype; packed the way the case passes `input`"""
    D = U.dt(case["dtype"]) if dtype is None else dtype
    ins = []
    bufs = []
    for lf in case["leaves"]:
        if lf["role"] != "input":
            continue
        t = torch.tensor(lf["values"], dtype=torch.float64).to(D).reshape(tuple(lf["lshape"]) + (tdim(lf["ty"]),))
        lay = lf.get("layout") if dtype is None else None
        t, buf = laid_out(t, lay)
        bufs.append((buf, lay))
        ins.append(wrap_leaf(lf["ty"], t))
    if with_bufs:
        return ins, bufs
    return ins


def pack_input(case, ins):
    mode = case["input_mode"]
    if mode == "dict":
        return {f"in{j}": v for j, v in enumerate(ins)}
    if mode == "single" and len(ins) == 1:
        return ins[0]
    if mode == "list":
        return list(ins)
    return tuple(ins)


# ----------------------------------------------------------------------------- generation

def gen_rot(rng):
    c = rng.random()
    if c < 0.07:
        th = 0.0
    elif c < 0.17:
        th = rng.choice([1e-9, 1e-5, 1e-3])
    else:
        th = rng.uniform(0.1, 1.2)
    d = common.rand_dir(rng, 3)
    return [th * x for x in d]


def gen_trans(rng):
    m = rng.choice([0.0, 1e-3, 0.3, 1.0, 1.0, 3.0])
    return [m * x for x in common.rand_dir(rng, 3)]


def gen_leaf_item(rng, ty, wide=False):
    k = ty[0]
    if wide and k in ("G", "A"):
        # extreme-but-valid elements: rotation angle up to pi - 1e-3, translations up to 1e3, log-scale up to +-12
        g = ty[1]
        th = rng.choice([math.pi - 1e-3, 3.0, 2.5, 1e-12, rng.uniform(0, 3.1)])
        d_ = common.rand_dir(rng, 3)
        phi = [th * x for x in d_]
        tr = [rng.choice([1e3, 50.0, 1e-6, 0.0]) * x for x in common.rand_dir(rng, 3)]
        sg = rng.choice([-12.0, 12.0, -5.0, 5.0, 1e-9])
        if k == "A":
            return (tr if g in ("SE3", "Sim3") else []) + phi + ([sg] if g in ("RxSO3", "Sim3") else [])
        s_ = math.sin(th / 2)
        q = [d_[0] * s_, d_[1] * s_, d_[2] * s_, math.cos(th / 2)]
        if rng.random() < 0.5:
            q = [-x for x in q]
        return (tr if g in ("SE3", "Sim3") else []) + q + ([math.exp(sg)] if g in ("RxSO3", "Sim3") else [])
    if wide and k == "E":
        m = rng.choice([1e3, 1e-6, 30.0])
        v = [m * x for x in common.rand_dir(rng, ty[1])]
        if ty[1] == 4:
            v[3] = rng.choice([1.0, 0.0, -3.0])
        return v
    if k == "A":
        g = ty[1]
        out = []
        if g in ("SE3", "Sim3"):
            out += gen_trans(rng)
        out += gen_rot(rng)
        if g in ("RxSO3", "Sim3"):
            out.append(rng.choice([0.0, rng.uniform(-0.7, 0.7)]))
        return out
    if k == "G":
        g = ty[1]
        phi = gen_rot(rng)
        th = math.sqrt(sum(x * x for x in phi))
        s = math.sin(th / 2) / th if th > 0 else 0.5
        q = [phi[0] * s, phi[1] * s, phi[2] * s, math.cos(th / 2)]
        if rng.random() < 0.3:
            q = [-x for x in q]
        out = []
        if g in ("SE3", "Sim3"):
            out += gen_trans(rng)
        out += q
        if g in ("RxSO3", "Sim3"):
            out.append(math.exp(rng.choice([0.0, rng.uniform(-0.7, 0.7)])))
        return out
    if k == "E":
        m = rng.choice([0.0, 0.1, 1.0, 1.0, 3.0])
        v = [m * x for x in common.rand_dir(rng, ty[1])]
        if ty[1] == 4:
            v[3] = rng.choice([1.0, 1.0, 0.0, rng.uniform(-2, 2)])
        return v
    if k == "S":
        return [rng.choice([0.5, 1.0, 2.0, -1.5, 1e-3, rng.uniform(0.2, 3), 1.0, 2.0, 1e-5, 1e-8])]   # tiny: diag(JᵀWJ) between 0 and min
    raise AssertionError(ty)


def sub_shape(rng, bshape):
    """an lshape broadcastable to bshape"""
    r = rng.random()
    if not bshape or r < 0.45:
        return list(bshape)
    if r < 0.6:
        return []
    if r < 0.8:
        kk = rng.randint(0, len(bshape))
        return list(bshape[kk:])
    return [1 if rng.random() < 0.5 else e for e in bshape]


class Builder:
    """bottom-up chains: start at a parameter leaf and wrap it in operators until a residual type is reached;
    side operands are other parameters (preferred, so that residuals mix parameters) or constant inputs"""

    def __init__(self, rng, bshape, param_types, frozen, wide=0.0, full=False):
        self.rng = rng
        self.wide = wide
        self.full = full        # every leaf carries the full batch shape (item-wise separable programs)
        self.bshape = list(bshape)
        self.leaves = []
        for ty, fr in zip(param_types, frozen):
            self.new_leaf(ty, "param", rg=not fr)
        self.used = set()

    def new_leaf(self, ty, role, rg=True):
        rng = self.rng
        zerodim = ty[0] == "S" and role == "param" and rng.random() < 0.5 and not self.full
        lshape = [] if zerodim else (list(self.bshape) if self.full else sub_shape(rng, self.bshape))
        n = int(math.prod(lshape))
        vals = [gen_leaf_item(rng, ty, wide=rng.random() < self.wide) for _ in range(n)]
        lf = {"role": role, "ty": list(ty), "lshape": lshape, "values": vals, "rg": bool(rg)}
        if zerodim:
            lf["zerodim"] = True
            lf["values"] = vals[0][0]
        self.leaves.append(lf)
        return len(self.leaves) - 1

    def operand(self, ty):
        """a leaf of type ty: an unused parameter if there is one, else (maybe) a used one, else a new input"""
        rng = self.rng
        cands = [i for i, lf in enumerate(self.leaves) if lf["ty"] == list(ty)]
        unused = [i for i in cands if self.leaves[i]["role"] == "param" and i not in self.used]
        if unused and rng.random() < 0.8:
            i = rng.choice(unused)
        elif cands and rng.random() < 0.4:
            i = rng.choice(cands)
        else:
            i = self.new_leaf(ty, "input")
        self.used.add(i)
        return ["L", i]

    def grow(self, node, ty):
        """one operator on top of `node` : (node', ty')"""
        rng = self.rng
        k = ty[0]
        if k == "G":
            g = ty[1]
            opts = ["Inv", "MulL", "MulR", "Act", "Act", "Act4", "Matrix", "Adj", "AdjT"]
            if g in EXPLOG_GROUPS:
                opts += ["Log", "Log", "Retr"]
            c = rng.choice(opts)
            if c == "Inv":
                return ["Inv", g, node], ty
            if c == "MulL":
                return ["Mul", g, node, self.operand(ty)], ty
            if c == "MulR":
                return ["Mul", g, self.operand(ty), node], ty
            if c == "Act":
                return ["Act", g, node, self.operand(["E", 3])], ["E", 3]
            if c == "Act4":
                return ["Act4", g, node, self.operand(["E", 4])], ["E", 4]
            if c == "Matrix":
                return ["Matrix", g, node], ["M", g]
            if c in ("Adj", "AdjT"):
                return [c, g, node, self.operand(["A", g])], ["A", g]
            if c == "Log":
                return ["Log", g, node], ["A", g]
            return ["Retr", g, node, self.operand(["A", g])], ty
        if k == "A":
            g = ty[1]
            opts = ["Adj", "AdjT", "Ten"]
            if g in EXPLOG_GROUPS:
                opts += ["Exp", "Exp", "Retr"]
            c = rng.choice(opts)
            if c in ("Adj", "AdjT"):
                return [c, g, self.operand(["G", g]), node], ty
            if c == "Ten":
                return ["Ten", node], ["E", AD[g]]
            if c == "Exp":
                return ["Exp", g, node], ["G", g]
            return ["Retr", g, self.operand(["G", g]), node], ["G", g]
        if k == "E":
            n = ty[1]
            opts = ["AddE", "ScaleE"] + (["Act", "Act"] if n == 3 else []) + (["Act4"] if n == 4 else [])
            c = rng.choice(opts)
            if c == "AddE":
                return ["AddE", node, self.operand(ty)], ty
            if c == "ScaleE":
                return ["ScaleE", node, self.operand(["S"])], ty
            g = rng.choice(ALL_GROUPS)
            return [c, g, self.operand(["G", g]), node], ty
        if k == "S":
            n = rng.choice([3, 3, 4, 2])
            return ["ScaleE", self.operand(["E", n]), node], ["E", n]
        raise AssertionError(ty)

    def chain(self, start, depth):
        node, ty = ["L", start], self.leaves[start]["ty"]
        self.used.add(start)
        for _ in range(depth):
            if ty[0] == "M":
                break
            node, ty = self.grow(node, ty)
        # close: the residual must be an algebra element, a Euclidean vector or a matrix
        while ty[0] in ("G", "S"):
            node, ty = self.grow(node, ty)
        return node, ty


def out_batch_dims(case):
    """run the program once (float64) and return per output (shape, values)"""
    m = ProgModel(case, dtype=torch.float64)
    ins = make_inputs(case, dtype=torch.float64)
    with torch.no_grad():
        outs = m(*ins)
    outs = outs if isinstance(outs, tuple) else (outs,)
    return [raw(o) for o in outs]


# ----------------------------------------------------------------------------- finite differences in tangent coordinates

def tangent_layout(case):
    """per parameter (registration order): (kind, group, n_items, storage dim, tangent dim)"""
    out = []
    for lf in case["leaves"]:
        if lf["role"] != "param":
            continue
        ty = lf["ty"]
        if lf.get("zerodim"):
            out.append(("E", None, 1, 1, 1))
            continue
        n = int(math.prod(lf["lshape"]))
        if ty[0] == "G":
            out.append(("G", ty[1], n, GD[ty[1]], AD[ty[1]]))
        elif ty[0] == "A":
            out.append(("A", ty[1], n, AD[ty[1]], AD[ty[1]]))
        else:
            out.append(("E", None, n, tdim(ty), tdim(ty)))
    return out


def fd_jacobian(case, param_values, target_free=True, full=False):
    """Jacobian of the stacked, flattened outputs with respect to the parameters' tangent coordinates (left
    perturbation Exp(t e_c) @ X for group items, x + t e_c otherwise), in float64 by Richardson-extrapolated central
    differences on the real forward pass.  Columns are laid out in *storage* order (a group item occupies its storage
    width; the trailing slot(s) stay zero).  Returns (J [rows x cols], reliability estimate)."""
    pp = P()
    m = ProgModel(case, dtype=torch.float64)
    names = [n for n, _ in m.named_parameters()]
    with torch.no_grad():
        for n, v in zip(names, param_values):
            getattr(m, n).copy_(v.to(torch.float64).reshape(getattr(m, n).shape))
    ins = make_inputs(case, dtype=torch.float64)

    def F():
        with torch.no_grad():
            o = m(*ins)
        o = o if isinstance(o, tuple) else (o,)
        return torch.cat([raw(x).reshape(-1) for x in o])

    base = [raw(getattr(m, n)).clone() for n in names]
    f0 = F()
    lay = tangent_layout(case)
    ncols = sum(n * sd for (_, _, n, sd, _) in lay)
    J = torch.zeros(f0.numel(), ncols, dtype=torch.float64)
    rel = 0.0
    col0 = 0
    ntan = sum(n * td for (_, _, n, _, td) in lay)
    stride = 1 if full else max(1, ntan // 6)     # Richardson (two step sizes) on about six columns only: the reliability
    # estimate; `full=True` (used to re-judge a mismatch) extrapolates every column
    kcol = 0
    H = 1e-5

    def central(prm, flat0, kind, g, td, it, c, h):
        vals = []
        for sgn in (1.0, -1.0):
            x = flat0.clone()
            if kind == "G":
                e = torch.zeros(td, dtype=torch.float64)
                e[c] = sgn * h
                X0 = pp.LieTensor(flat0[it], ltype=U.ltype(g))
                x[it] = (pp.LieTensor(e, ltype=U.ltype(U.ALG[g])).Exp() @ X0).tensor()
            else:
                x[it, c] += sgn * h
            with torch.no_grad():
                prm.copy_(x.reshape(prm.shape))
            vals.append(F())
        return (vals[0] - vals[1]) / (2 * h)

    for pi, (kind, g, n, sd, td) in enumerate(lay):
        prm = getattr(m, names[pi])
        flat0 = base[pi].reshape(n, sd) if n * sd > 0 else base[pi].reshape(0, sd)
        for it in range(n):
            for c in range(td):
                d1 = central(prm, flat0, kind, g, td, it, c, H)
                d = d1
                if kcol % stride == 0:
                    d2 = central(prm, flat0, kind, g, td, it, c, 2 * H)
                    d = (4 * d1 - d2) / 3
                    sc = max(1.0, float(d.abs().max()))
                    rel = max(rel, float((d1 - d2).abs().max()) / sc)
                kcol += 1
                J[:, col0 + it * sd + c] = d
        with torch.no_grad():
            prm.copy_(base[pi].reshape(prm.shape))
        col0 += n * sd
    return J, rel
