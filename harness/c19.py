"""C19 — splines interpolate and are equivariant; APE/RPE are alignment-invariant; geodesic loss is the angle.

Model: lean/Pose/Model/Spline.lean (chspline, bspline), lean/Pose/Model/Traj.lean (association, alignment,
pairing, errors, statistics, ape, rpe, geodesic); theorems: lean/Proofs/Props/C19.lean.

Correspondence streams (real code in-process vs the Lean model in 192-bit arithmetic)
  chs    : chspline — sample count vs the rational count, every sample of up to 3 coordinate fibres per case;
  bs     : bspline — count, every pose of up to 2 batch items per case, the assert for < 4 poses;
  geo    : geodesic_loss / GeodesicLoss — item angles, reductions;
  match  : matching_time_indices — index pairs (exact);  pairs : pair_id — index pairs (exact);
  ape/rpe: every statistic (and the single-`otype` return value) of pp.metric.ape / rpe.
Oracles on the real code (the property's own clauses): interpolation at integer times, straight lines, affine
equivariance, locality, batch consistency (chspline); constant-twist reproduction, left-equivariance, continuity
at segment joins, extrapolate end points (bspline); angle in [0,pi] = independent atan2 formula, symmetry,
invariance, reductions (geodesic); zero statistics for identical trajectories, Max>=RMSE>=Mean>=Min>=0,
rpe invariance under left multiplication of either trajectory, ape(align/scale/origin) invariance under a
rigid/similarity transform of the estimate, jitter/offset handling, svdstf contract (optimality vs an independent
Umeyama), purity of all arguments.
"""
from __future__ import annotations

import itertools
import math
import random
import warnings
from fractions import Fraction

import numpy as np
import torch

from . import common, util_c19 as R
from .common import Ctx, to_wire, wire_list

META = {
    "rule": "chspline: N in 2..60 (all small N, ladder up to 60), dims 1..6, batch rank 0..2, float32/float64, intervals from a "
            "structured list (0.1..0.99, 1/3, 1/7, 1/49, powers of two, 1-2^-53, values whose reciprocal rounds across an integer) "
            "plus uniform draws, points: gaussian / integer lattice / straight lines / constants / steps / mixed magnitudes 1e-3..1e3; "
            "bspline: N in 4..60 (1..60 with extrapolate), batch rank 0..2, random walks with step angles on a ladder 0..2.5 rad, "
            "constant-twist motions with |phi| from 1e-10 to pi-0.1, independent random poses, repeated poses, random quaternion sign "
            "flips, translations 0..100; geodesic: all eight LieTensor types, broadcast shapes, relative angle on the magnitude ladder "
            "incl. 0, eps-neighbourhood, pi-1e-6, pi; ape/rpe: 3..200 poses, stamps None / equal / jittered below the threshold / "
            "sub-sampled / longer estimate / unmatched stamps / non-zero offset / base time 0..1.3e9, every error type, align modes "
            "none / origin / align / scale / align+scale, frame and distance pairing, all/consecutive, rpair. A case is non-trivial when "
            "it has >= 2 points/poses and is not the identity; distinct by (stream, dtype, sizes, interval/options, generator kind).",
    "hardening": "a deterministic corner corpus + exhaustive length sweeps run first (seed-independent); call histories varying one "
                 "per-call argument at a time with a bit-exact repeat; in-place updates of caller tensors between calls (stale reads); "
                 "non-contiguous / embedded / expanded / aliased arguments with whole-buffer purity; mixed-regime batches compared item "
                 "by item with single-item calls; per-fibre / per-item tolerances; every implementation misbehaviour is a failure; "
                 "round 5 (run_pass5): objects / calls with the optional argument omitted, interleaved (29); float16 / bfloat16 poses and points, "
                 "int8..int64 / uint8 / float16 stamps (30); every public LieTensor operation (forward and backward, single items, all-1 batches, "
                 "batches, both dtypes) between two bit-identical rounds of all entry points (32); `reduction` as a re-assigned attribute / user "
                 "property (33); 2^18+37 (thorough: 2^18+1, 2^20+1) items for the point-wise parts with the last n mod 2^k items re-checked (34); "
                 "exact ties decided, not skipped: equidistant stamps with duplicates, tied distance pairs, lower median of even-length error lists, "
                 "each result checked to be ADMISSIBLE and against the first-index model (35); the band between round-off and a loose tolerance: "
                 "stamps / path lengths / intervals / rotations / positions off by 1e-14 … 1e-5, nearly collinear positions (36)",
    "trusted": [
        "torch.arange / searchsorted / min / median / std semantics (external kernels, used through their contracts)",
        "svdstf (property C17) is a contract parameter: the model receives the transform the real svdstf returned; its optimality "
        "is re-checked on every call against an independent numpy Umeyama",
        "float arange length: modelled exactly (Spline.floatLen = ceil of the IEEE round-to-nearest-even quotient, op c19.flen) and compared "
        "with the implementation's grid size on every case; theorem floatLen_le_count relates it to the rational count",
    ],
    "assumptions": [
        "poses are unit quaternions to 1 ulp of the dtype; time-stamp decisions (nearest stamp, < diff) and distance-pairing "
        "decisions are separated from their thresholds by a relative margin > 1e-6 (enforced by the generator)",
        "bspline model comparison skips items with a relative rotation within 1e-6 of pi (Log is discontinuous there); the laws "
        "(end points, equivariance) are still checked on them",
    ],
    "partial": [
        "IEEE rounding: theorems are over the reals; float agreement is measured at 64 eps (algebraic), 256 eps (composed Lie ops), "
        "4 sqrt(eps) relative for translation blocks in the (1-cos)/theta^2 cancellation band",
        "one-parameter law of Exp: exact on the closed-form branch (se3), within eps^6/700 / eps^7/5000 on the all-Taylor branch for the "
        "rotation part (so3Exp_add_taylor); mixed branches and the Taylor-branch translation part are not proved (differences < 1e-90)",
        "ape alignment invariance / identical=>0 in svd mode (*_partial theorems) take the optimality+uniqueness contract of svdstf "
        "(C17) as hypothesis; GUARD: the matched positions are NOT collinear - on collinear positions (incl. two distinct points, all "
        "equal) the contract is unsatisfiable (alignOK_collinear_false, collinear_optimum_not_unique) and the code's rotation-bearing "
        "errors really differ: open known finding D43, reported as KNOWN-FINDING by the traj stream (matcher d43_matcher: exact "
        "collinearity of the case's positions + align/scale + rotation-bearing etype); translation errors on collinear data and every "
        "non-collinear case remain hard failures. rpe is not affected (rpeCore_unit_scale_alignment)",
        "statistics: STD is claimed only for >= 2 errors (torch.std of one value is NaN — the only non-finite value accepted from the "
        "implementation; every other non-finite result for finite valid input is a `non-finite result` failure before any comparison); "
        "the other six statistics for >= 1",
        "pass 10: on collinear positions the clauses that survive D43 are now proved at full strength from weaker hypotheses than the "
        "contract: ape translation identical => 0 from optimality alone (ape_identical_zero_translation), rpe identical => 0 with "
        "align+scale from optimality + two distinct positions (rpeCore_identical_zero_svd_of_optimal), rpe invariance under a similarity "
        "from validity + scale consistency of svdstf alone (rpeCore/rpe_align_invariant_of_scale). Still partial: translation-type ape "
        "INVARIANCE on collinear positions (needs uniqueness of the optimal action on the line)",
        "rpe svd-mode invariance with scale (rpeCore_align_invariant_partial) takes the svdstf contract as hypothesis like the ape version; "
        "alignOK_transport shows the contract at the transformed point set follows from the contract at the original one",
        "closed-form spline theorems: Exp(Log D) ~ D is proved in the generic regime and for exactly equal orientations; relative "
        "angles in (0, ~2 eps] or within 2 eps of pi, and constant twists with 0 < |phi| <= eps, are stated (bspline_continuous, "
        "bsplineAt_const_twist) but not closed",
    ],
}

EPS = common.EPS
DT = {"float64": torch.float64, "float32": torch.float32}
CORPUS_SEED = 20260925      # the corner corpus, the sweeps, the histories and the probes never depend on VERIF_SEED


def pp():
    import pypose
    return pypose


def AR():
    import pypose.metric.ape_rpe as m
    return m


class MB:
    """batch of model lines with callbacks, flushed once (lets the driver fan out over processes)"""

    def __init__(self):
        self.items = []

    def add(self, line, cb):
        self.items.append((line, cb))

    def flush(self, ctx: Ctx):
        items, self.items = self.items, []
        if not items:
            return
        reps = ctx.driver.run([l for l, _ in items])
        for rep, (_, cb) in zip(reps, items):
            cb(rep)


def nums(rep):
    return [float(x) for x in common.reply_nums(rep)]


def pub(case):
    return {k: v for k, v in case.items() if not k.startswith("_")}


def excs(e):
    return f"{type(e).__name__}: {str(e)[:120]}"


def nmax(xs):
    """NaN-safe maximum of python floats (lesson 38: `max()` silently drops or keeps a NaN depending on its position):
    any NaN makes the result +inf, so `if not nmax(...) <= tol` fails"""
    m = 0.0
    for x in xs:
        x = float(x)
        if x != x:
            return math.inf
        if x > m:
            m = x
    return m


def all_finite(x) -> bool:
    """tensor / LieTensor / dict of tensors / list of floats: every value finite"""
    if isinstance(x, dict):
        return all(all_finite(v) for v in x.values())
    if hasattr(x, "ltype"):
        x = x.tensor()
    if isinstance(x, torch.Tensor):
        return bool(torch.isfinite(x.detach()).all()) if (x.is_floating_point() or x.is_complex()) else True
    if isinstance(x, (list, tuple)):
        return all(all_finite(v) for v in x)
    if isinstance(x, np.ndarray):
        return bool(np.isfinite(x).all())
    return math.isfinite(float(x))


def stats_finite(ctx: Ctx, case, what: str, vals, n: int, known_matcher=None) -> bool:
    """lesson 38(a): the seven statistics of a finite valid input are finite — tested BEFORE the model / any tolerance sees them.
    The only specified non-finite value: STD of a single error (torch.std of one value is NaN by torch's definition; the property's
    STD clause is for n >= 2 — theorems stats_zero / stats_sse carry that guard)."""
    bad = [k_ for k_, v in zip(STAT_KEYS, vals) if not math.isfinite(v) and not (k_ == "STD" and n == 1 and math.isnan(v))]
    if bad:
        ctx.fail(case, f"non-finite result: {what} returns {dict((k_, vals[STAT_KEYS.index(k_)]) for k_ in bad)} for finite valid poses ({n} pairs)", known_matcher=known_matcher)
        return False
    return True


# ============================================================================= chspline

CHS_INTERVALS = [0.1, 0.2, 0.25, 0.3, 0.4, 0.5, 0.6, 0.7, 0.9, 0.99, 1 / 3, 1 / 7, 1 / 49, 0.05, 0.015, 1 - 2 ** -53,
                 0.5 - 2 ** -54, 0.50000001, 0.3333333333333332, 0.125, 2 ** -5, 0.45, 0.35, 0.8] + \
                [math.nextafter(1 / n_, d_) for n_ in (3, 5, 6, 7, 9, 10, 11, 12, 13) for d_ in (0.0, 1.0)] + [1 / n_ for n_ in (5, 6, 9, 11, 12, 13)]


def k_exact(iv: float) -> int:
    return math.ceil(1 / Fraction(iv))


def k_near_integer(iv: float) -> bool:
    r = 1 / Fraction(iv)
    n = round(r)
    return r != n and abs(r - n) <= Fraction(n, 2 ** 50)


def flen_check(ctx: Ctx, case, mb: "MB", tag: str, iv: float, k: int):
    """the number of grid values per unit step must be EXACTLY the model's float arange length ceil(fl64(1/interval))"""
    F = Fraction(iv)

    def cb(rep, k=k):
        st, toks = common.parse_reply(rep)
        want = int(toks[0]) if st == "ok" else None
        if want != k:
            ctx.disagree("flen", pub(case), f"{tag}: implementation uses {k} grid values per unit step, the model's float arange length is {want} (interval={iv!r})")
            ctx.fail(pub(case), f"{tag}-count: {k} grid values per unit step for interval={iv!r}; ceil(fl64(1/interval)) = {want} (rational count {k_exact(iv)})")
    mb.add(f"c19.flen {F.numerator} {F.denominator}", cb)


def gen_interval(rng: random.Random, small_ok=True) -> float:
    c = rng.random()
    if c < 0.6:
        return rng.choice(CHS_INTERVALS)
    if c < 0.9 or not small_ok:
        return rng.uniform(0.05, 0.999)
    return rng.uniform(0.004, 0.05)


def small_batch(rng: random.Random, maxrank=2):
    return [rng.choice([1, 2, 3]) for _ in range(rng.randint(0, maxrank))]


def build_points(case) -> torch.Tensor:
    rnd = random.Random(case["seed"])
    N, D, batch, kind, sc = case["N"], case["D"], list(case["batch"]), case["pts"], case["scale"]
    nb = int(math.prod(batch))
    arr = np.zeros((nb, N, D))
    for b in range(nb):
        for d in range(D):
            if kind == "randn":
                col = [rnd.gauss(0, 1) * sc for _ in range(N)]
            elif kind == "lattice":
                col = [rnd.randint(-8, 8) * sc for _ in range(N)]
            elif kind == "line":
                a, s = rnd.uniform(-3, 3) * sc, rnd.uniform(-2, 2) * sc
                col = [a + i * s for i in range(N)]
            elif kind == "const":
                c0 = rnd.uniform(-3, 3) * sc
                col = [c0] * N
            elif kind == "steps":
                j = rnd.randint(0, N)
                col = [0.0 if i < j else sc for i in range(N)]
            elif kind == "extreme":  # class 1: every coordinate on its own extreme magnitude
                m = [1e-30, 1e-12, 1.0, 1e12, 1e30, 1e-3][(b + d) % 6]
                col = [rnd.gauss(0, 1) * m for _ in range(N)]
            else:  # mixed magnitudes per coordinate
                m = 10 ** rnd.uniform(-3, 3)
                col = [rnd.gauss(0, 1) * m for _ in range(N)]
            arr[b, :, d] = col
    return torch.tensor(arr, dtype=torch.float64).reshape(batch + [N, D]).to(DT[case["dtype"]])


def chs_scale(p64: torch.Tensor):
    """per-fibre scales (shape batch + (D,)): max |p| and max |Δp| along the point axis — every coordinate of every
    batch item is judged against its OWN magnitude (a 1e-30 fibre next to a 1e+30 fibre keeps its own tolerance)"""
    pmax = p64.abs().amax(dim=-2)
    dmax = (p64[..., 1:, :] - p64[..., :-1, :]).abs().amax(dim=-2) if p64.shape[-2] > 1 else torch.zeros_like(pmax)
    return pmax, dmax


def worst(err: torch.Tensor, tol: torch.Tensor):
    """(ok, flat index of the worst ratio) for err <= tol element-wise (NaN counts as a failure)"""
    bad = ~(err <= tol)
    if not bool(bad.any()):
        return True, -1
    ratio = torch.where(bad, torch.nan_to_num(err / (tol + 1e-300), nan=math.inf, posinf=math.inf), torch.zeros_like(err))
    return False, int(ratio.flatten().argmax())


def guard(ctx: Ctx, case, what: str, fn):
    """class (8): whatever the implementation returns (wrong type/shape/dtype, NaN, exception inside a helper fed with
    its output) becomes a failure with the case — never an exception of the harness"""
    try:
        fn()
    except common.InfraError:
        raise
    except Exception as e:
        import traceback
        tb = traceback.format_exc().strip().splitlines()
        ctx.fail(pub(case), f"{what}-misbehaviour: implementation output could not be processed: {excs(e)} [{tb[-3].strip()[:90] if len(tb) >= 3 else ''}]")


def check_chs(ctx: Ctx, case, mb: MB) -> None:
    guard(ctx, case, "chs", lambda: _check_chs(ctx, case, mb))


def _check_chs(ctx: Ctx, case, mb: MB) -> None:
    P = pp()
    dtype, iv, N, D = case["dtype"], case["interval"], case["N"], case["D"]
    eps = EPS[dtype]
    batch = tuple(case["batch"])
    pts = case["_pts"] if "_pts" in case else build_points(case)
    before = pts.clone()
    try:
        out = P.chspline(pts, iv)
    except Exception as e:
        ctx.fail(pub(case), f"chs-raises: chspline raised {excs(e)}")
        return
    if not torch.equal(pts, before):
        ctx.fail(pub(case), "chs-mutation: chspline changed its input tensor")
    if not isinstance(out, torch.Tensor) or out.dtype != pts.dtype or tuple(out.shape[:-2]) != batch or out.shape[-1] != D:
        ctx.fail(pub(case), f"chs-shape: output {type(out).__name__} {tuple(getattr(out, 'shape', ()))} {getattr(out, 'dtype', None)}")
        return
    L = out.shape[-2]
    ke = k_exact(iv)
    if (L - 1) % (N - 1) != 0:
        ctx.fail(pub(case), f"chs-count: {L} samples for N={N}, interval={iv!r}: not of the form (N-1)k+1 (k={ke})")
        return
    k = (L - 1) // (N - 1)
    flen_check(ctx, case, mb, "chs", iv, k)
    if k != ke:
        if k == ke - 1:          # floatLen_le_count: the float length may fall short by one; which one is decided exactly by c19.flen
            ctx.count("chs.count.rounding")
        else:
            ctx.fail(pub(case), f"chs-count: {L} samples = (N-1)*{k}+1 for N={N}, interval={iv!r}; the interval has {ke} multiples in [0,1)")
            return
    case["_out"] = out
    F = Fraction(iv)

    def cb_count(rep, ke=ke):
        st, toks = common.parse_reply(rep)
        if st != "ok" or int(toks[0]) != ke:
            raise common.InfraError(f"model count {rep} != python rational count {ke}")
    mb.add(f"c19.count {F.numerator} {F.denominator}", cb_count)
    p64 = before.double()
    o64 = out.double()
    if not bool(torch.isfinite(o64).all()):
        ctx.fail(pub(case), f"chs-finite: chspline returned non-finite samples for finite points (N={N}, interval={iv!r}, dtype={dtype})")
        return
    pmax, dmax = chs_scale(p64)                       # batch + (D,)
    sc_alg = (pmax + N * dmax).unsqueeze(-2)          # broadcast over the sample axis
    sc_pt = (pmax + dmax).unsqueeze(-2)
    tiny = 1e-300
    if p64.numel() == 0:
        return
    # oracle: interpolation at integer times (per fibre)
    at_knots = o64[..., ::k, :]
    ok, j = worst((at_knots - p64).abs(), 16 * eps * sc_pt.expand_as(p64) + tiny)
    if not ok:
        e = float((at_knots - p64).abs().flatten()[j])
        ctx.fail(pub(case), f"chs-interp: sample at integer time differs from the input point by {e:.3e} (flat index {j} of the points, own scale {float(sc_pt.expand_as(p64).flatten()[j]):.3e}), N={N}, k={k}")
    # model: up to 3 fibres, each with its own tolerance
    rnd = random.Random(case["seed"] + 1)
    pf = p64.reshape(-1, N, D)
    of = o64.reshape(-1, L, D)
    scf = sc_alg.reshape(-1, D)
    fibres = {(rnd.randrange(pf.shape[0]), rnd.randrange(D)) for _ in range(3)} | {(pf.shape[0] - 1, D - 1)}
    if N * k > 1500:
        fibres = set()          # very long sequences: the model is consulted on windows by run_pass4 instead
    for (b, d) in sorted(fibres):
        col = pf[b, :, d].tolist()
        got = of[b, :, d].tolist()
        tol_f = 64 * eps * float(scf[b, d]) + tiny

        def cb(rep, got=got, b=b, d=d, tol_f=tol_f):
            st, toks = common.parse_reply(rep)
            want = [float(common.from_wire(t)) for t in toks] if st == "ok" else None
            if want is None or len(want) != len(got):
                ctx.disagree("chs", pub(case), f"fibre ({b},{d}): model reply {rep[:60]} vs {len(got)} samples")
                return
            e = nmax(abs(a - c) for a, c in zip(got, want))
            if not e <= tol_f:
                j = max(range(len(got)), key=lambda n: (math.inf if got[n] != got[n] else abs(got[n] - want[n])))
                ctx.disagree("chs", pub(case), f"fibre ({b},{d}) sample {j} (segment {j // k}, u-index {j % k}): implementation {got[j]!r} model {want[j]!r}, err {e:.3e} > {tol_f:.3e}")
                ctx.fail(pub(case), f"chs-value: chspline sample {j} of fibre ({b},{d}) is {got[j]!r}, the Hermite spline through the points gives {want[j]!r} (N={N}, interval={iv!r})")
        mb.add(f"c19.chsa {N} {F.numerator} {F.denominator} {to_wire(iv)} " + wire_list(col), cb)      # grid size decided by the model (floatLen)
    # oracle: straight lines a + i d are reproduced at the right times (per coordinate)
    rl = random.Random(case["seed"] + 2)
    mags = [float(x) if float(x) > 0 else 1.0 for x in pmax.reshape(-1, D)[0].tolist()]
    a = torch.tensor([rl.uniform(-3, 3) * mags[d] for d in range(D)], dtype=torch.float64)
    s = torch.tensor([rl.uniform(-2, 2) * mags[d] for d in range(D)], dtype=torch.float64)
    idx = torch.arange(N, dtype=torch.float64)[:, None]
    line = (a + idx * s).to(DT[dtype])
    try:
        lo = P.chspline(line.expand(batch + (N, D)).clone(), iv).double()
        us = torch.arange(0, 1, iv, dtype=DT[dtype]).double()
        tl = (torch.arange(N, dtype=torch.float64)[:, None] + us[None, :]).reshape(-1)[:L]
        l64 = line.double()
        a_eff, s_eff = l64[0], (l64[-1] - l64[0]) / (N - 1)
        want = a_eff + tl[:, None] * s_eff
        tl_tol = 64 * eps * (l64.abs().amax(dim=0) + N * s_eff.abs()) + tiny
        if lo.shape[-2] != L:
            ctx.fail(pub(case), f"chs-line: {lo.shape[-2]} samples for a straight line, {L} for the case's points")
        else:
            ok, j = worst((lo - want).abs(), tl_tol.expand_as(lo))
            if not ok:
                e = float((lo - want).abs().flatten()[j])
                ctx.fail(pub(case), f"chs-line: straight line a+i*d sampled at integer times is not reproduced: deviation {e:.3e} at flat index {j} (own tolerance {float(tl_tol.expand_as(lo).flatten()[j]):.3e}; N={N}, interval={iv!r}, dtype={dtype})")
    except Exception as e:
        ctx.fail(pub(case), f"chs-raises: chspline raised on a straight line: {excs(e)}")
    # oracle: affine equivariance (the spline is linear in the points and reproduces constants)
    ra = random.Random(case["seed"] + 3)
    Mx = torch.tensor([[ra.uniform(-1, 1) for _ in range(D)] for _ in range(D)], dtype=torch.float64)
    if bool((sc_alg.reshape(-1, D).amax(dim=0) > 1e3 * (sc_alg.reshape(-1, D).amin(dim=0) + tiny)).any()):
        Mx = torch.diag(torch.diagonal(Mx))           # very unequal coordinate magnitudes: do not mix them
    bv = pmax.reshape(-1, D).amax(dim=0) * torch.tensor([ra.uniform(-1, 1) for _ in range(D)], dtype=torch.float64)
    q64 = (p64 @ Mx.T + bv).to(DT[dtype])
    try:
        oq = P.chspline(q64.clone(), iv).double()
        want = o64 @ Mx.T + bv
        sc = sc_alg @ Mx.abs().T + bv.abs()
        if oq.shape != want.shape:
            ctx.fail(pub(case), f"chs-affine: shapes differ {tuple(oq.shape)} vs {tuple(want.shape)}")
        else:
            ok, j = worst((oq - want).abs(), (256 * eps * sc + tiny).expand_as(want))
            if not ok:
                e = float((oq - want).abs().flatten()[j])
                ctx.fail(pub(case), f"chs-affine: chspline(A p + b) differs from A chspline(p) + b by {e:.3e} at flat index {j} (own tolerance {float((256 * eps * sc + tiny).expand_as(want).flatten()[j]):.3e})")
    except Exception as e:
        ctx.fail(pub(case), f"chs-raises: chspline raised on an affine image: {excs(e)}")
    # oracle: locality — moving point j changes only samples with time in (j-2, j+2)
    if N >= 3:
        j = ra.randrange(N)
        p2 = before.clone()
        p2[..., j, :] += (1.0 + pmax).to(p2.dtype)
        try:
            o2 = P.chspline(p2, iv).double()
            times = (torch.arange(L) // k).double() + (torch.arange(L) % k).double() * iv
            far = (times <= j - 2) | (times >= j + 2)
            if o2.shape == o64.shape and far.any():
                ok, jj = worst((o2[..., far, :] - o64[..., far, :]).abs(), (16 * eps * sc_pt + tiny).expand_as(o64[..., far, :]))
                if not ok:
                    ctx.fail(pub(case), f"chs-local: moving point {j} changed samples at distance >= 2 knots (flat index {jj})")
        except Exception as e:
            ctx.fail(pub(case), f"chs-raises: chspline raised after moving one point: {excs(e)}")
    # oracle (class 7): every batch item = the un-batched call on that item alone
    if pf.shape[0] > 1:
        for b in (range(pf.shape[0]) if pf.shape[0] <= 64 else sorted({0, pf.shape[0] - 1} | {ra.randrange(pf.shape[0]) for _ in range(4)})):
            try:
                ob = P.chspline(before.reshape(-1, N, D)[b].clone(), iv).double()
                if ob.shape != of[b].shape:
                    ctx.fail(pub(case), f"chs-batch: batch item {b} alone gives shape {tuple(ob.shape)}, in the batch {tuple(of[b].shape)}")
                    break
                ok, jj = worst((ob - of[b]).abs(), (4 * eps * scf[b] + tiny).expand_as(ob))
                if not ok:
                    ctx.fail(pub(case), f"chs-batch: batch item {b} differs from the un-batched call by {float((ob - of[b]).abs().flatten()[jj]):.3e} (flat index {jj})")
                    break
            except Exception as e:
                ctx.fail(pub(case), f"chs-raises: chspline raised on one batch item: {excs(e)}")
                break


def gen_chs_cases(ctx: Ctx, n: int):
    rng = ctx.rng
    cases = []
    for i in range(n):
        c = rng.random()
        N = rng.choice([2, 3, 4, 5]) if c < 0.35 else (rng.randint(6, 20) if c < 0.8 else rng.randint(21, 60))
        iv = gen_interval(rng, small_ok=N <= 6)
        if k_exact(iv) * N > 4000:
            iv = rng.choice(CHS_INTERVALS)
        cases.append({"kind": "chs", "dtype": rng.choice(["float64", "float64", "float32"]), "N": N,
                      "D": rng.randint(1, 6), "batch": small_batch(rng), "interval": iv,
                      "pts": rng.choice(["randn", "randn", "lattice", "line", "const", "steps", "mixed"]),
                      "scale": rng.choice([1e-3, 1.0, 1.0, 1e3]), "seed": rng.randrange(1 << 30)})
    return cases


def sweep_chs_cases(ctx: Ctx):
    """every point count 2..60 once (cheap settings) — particular lengths must not escape"""
    rng = random.Random(CORPUS_SEED + 1)
    return [{"kind": "chs", "dtype": "float64" if N % 3 else "float32", "N": N, "D": 1 + N % 3, "batch": [] if N % 2 else [2],
             "interval": [0.5, 0.25, 0.4][N % 3], "pts": "randn", "scale": 1.0, "seed": rng.randrange(1 << 30)}
            for N in range(2, 61)]


def run_chs(ctx: Ctx, mb: MB, n: int):
    for case in gen_chs_cases(ctx, n):
        check_chs(ctx, case, mb)
        ctx.note_case(("chs", case["dtype"], case["N"], case["D"], len(case["batch"]), case["interval"], case["pts"]),
                      case["pts"] != "const")
        ctx.count(f"chs.N{min(case['N'], 10) if case['N'] <= 10 else (20 if case['N'] <= 20 else 60)}")
        ctx.count(f"chs.{case['pts']}")
        ctx.sample({"stream": "chs", **pub(case)}, cap=12)
    # malformed: interval >= 1, too few dims
    P = pp()
    for bad in (1.0, 1.5):
        try:
            P.chspline(torch.zeros(3, 2), bad)
            ctx.fail({"kind": "chs-bad", "interval": bad}, f"chs-assert: chspline accepted interval={bad} (documented: interval < 1)")
        except AssertionError:
            ctx.count("chs.assert")
        except Exception as e:
            ctx.fail({"kind": "chs-bad", "interval": bad}, f"chs-assert: chspline raised {excs(e)} instead of AssertionError for interval={bad}")


# ============================================================================= bspline

ROT_LADDER = [0.0, 1e-10, 1e-7, 1e-4, 1e-2, 0.1, 0.5, 1.0, 2.0, 2.5]


def build_poses(case):
    """-> (array [nb, N, 7] float64 with unit quaternions, info)"""
    rnd = random.Random(case["seed"])
    N, nb, gen, rot, ts = case["N"], int(math.prod(case["batch"])), case["gen"], case["rot"], case["tscale"]
    items, info = [], []
    gen0, rot0, ts0 = gen, rot, ts
    regimes = [("walk", 0.0, 0.0), ("walk", 1e-10, 1.0), ("repeat", 0.3, 1.0), ("walk", 2.5, 100.0), ("twist", 1e-7, 1.0),
               ("walk", EPS[case["dtype"]], 1e-3), ("random", 0.0, 1.0), ("walk", 1.0, 1e4), ("twist", 2.9, 1e-6)]
    for bi in range(nb):
        if gen0 == "mixed":      # class 7: every batch item in another regime
            gen, rot, ts = regimes[(bi + case["seed"]) % len(regimes)]
        if gen == "twist":
            T0 = R.rand_pose(rnd, ts)
            xi = np.concatenate([R.rand_unit(rnd) * ts * rnd.uniform(0.1, 1.0), R.rand_unit(rnd) * rot])
            arr = R.twist_traj(T0, xi, N)
            info.append({"T0": R.se3_vec(T0).tolist(), "xi": xi.tolist()})
        elif gen == "random":
            arr = np.stack([R.se3_vec(R.rand_pose(rnd, ts)) for _ in range(N)])
            info.append(None)
        else:
            arr = R.walk(rnd, N, ts, rot)
            if gen == "repeat" and N >= 2:
                for _ in range(max(1, N // 3)):
                    j = rnd.randrange(1, N)
                    arr[j] = arr[j - 1]
            info.append(None)
        if case.get("flip"):
            for j in range(N):
                if rnd.random() < 0.4:
                    arr[j, 3:] = -arr[j, 3:]
        items.append(arr)
    return np.stack(items), info


def bs_weights(u):
    return ((5 + 3 * u - 3 * u * u + u ** 3) / 6, (1 + 3 * u + 3 * u * u - 2 * u ** 3) / 6, u ** 3 / 6)


def bs_tols(eps, data, us):
    """(q_tol, t_tol) for composed SE3 operations on the poses `data` [N,7] (float64 values)"""
    tmax = float(np.abs(data[:, :3]).max())
    tscale = 3 * tmax + 1e-300
    cancel = 0.0
    if len(data) >= 2:
        rel = R.qmul(R.qconj(data[:-1, 3:]), data[1:, 3:])
        ang = R.qangle(rel)
        ws = np.array([w for u in list(us) + [1.0] for w in bs_weights(u)])
        th = (ang[:, None] * ws[None, :]).reshape(-1)
        th = th[th > eps]
        if th.size:
            cancel = min(4 * math.sqrt(eps), 8 * eps / float(th.min()))
    return 256 * eps, (256 * eps + cancel) * tscale


def near_pi(data):
    if len(data) < 2:
        return False
    rel = R.qmul(R.qconj(data[:-1, 3:]), data[1:, 3:])
    return bool((np.abs(rel[:, 3]) / np.linalg.norm(rel, axis=-1) < 1e-6).any())


def call_bspline(X, iv, ex):
    return pp().bspline(X, iv, extrapolate=ex)


def check_bs(ctx: Ctx, case, mb: MB) -> None:
    guard(ctx, case, "bs", lambda: _check_bs(ctx, case, mb))


def _check_bs(ctx: Ctx, case, mb: MB) -> None:
    P = pp()
    dtype, iv, N, ex = case["dtype"], case["interval"], case["N"], case["extrapolate"]
    eps = EPS[dtype]
    batch = tuple(case["batch"])
    data, info = build_poses(case)
    Xt = case["_X"] if "_X" in case else torch.tensor(data, dtype=torch.float64).reshape(batch + (N, 7)).to(DT[dtype])
    X = P.LieTensor(Xt, ltype=P.SE3_type)
    d64 = Xt.double().reshape(-1, N, 7).numpy()
    before = Xt.clone()
    expect_assert = (not ex) and N < 4
    try:
        Y = call_bspline(X, iv, ex)
    except AssertionError as e:
        if expect_assert:
            ctx.count("bs.assert")
        else:
            ctx.fail(pub(case), f"bs-raises: bspline raised {excs(e)}")
        return
    except Exception as e:
        ctx.fail(pub(case), f"bs-raises: bspline raised {excs(e)}")
        return
    if expect_assert:
        ctx.fail(pub(case), f"bs-assert: bspline accepted {N} poses without extrapolate (documented: at least 4)")
        return
    if not torch.equal(X.tensor(), before):
        ctx.fail(pub(case), "bs-mutation: bspline changed its input")
    if type(Y).__name__ != "LieTensor" or Y.ltype != P.SE3_type or Y.dtype != Xt.dtype or tuple(Y.shape[:-2]) != batch or Y.shape[-1] != 7:
        ctx.fail(pub(case), f"bs-shape: output {type(Y).__name__} {tuple(Y.shape)} {Y.dtype}")
        return
    L = Y.shape[-2]
    Np = N + 4 if ex else N
    nseg = Np - 3
    ke, near = k_exact(iv), k_near_integer(iv)
    if (L - 1) % nseg != 0:
        ctx.fail(pub(case), f"bs-count: {L} poses for {N} input poses (extrapolate={ex}), interval={iv!r}: not segments*k+1 with {nseg} segments")
        return
    k = (L - 1) // nseg
    flen_check(ctx, case, mb, "bs", iv, k)
    if k != ke:
        if k == ke - 1:
            ctx.count("bs.count.rounding")
        else:
            ctx.fail(pub(case), f"bs-count: {L} poses = {nseg}*{k}+1, the interval {iv!r} has {ke} multiples in [0,1)")
            return
    case["_out"] = Y.tensor()
    y64 = Y.tensor().double().reshape(-1, L, 7).numpy()
    if not np.isfinite(y64).all():
        ctx.fail(pub(case), f"bs-finite: bspline returned non-finite poses for valid input (N={N}, interval={iv!r}, dtype={dtype})")
        return
    us = torch.arange(0, 1, iv, dtype=DT[dtype]).double().tolist()[:k]
    nb = d64.shape[0]
    rnd = random.Random(case["seed"] + 1)
    # unit quaternions out
    nrm = np.abs(np.linalg.norm(y64[..., 3:], axis=-1) - 1).max()
    if not nrm <= 64 * eps:
        ctx.fail(pub(case), f"bs-unit: output quaternion norm deviates from 1 by {nrm:.3e}")
    # oracle: extrapolate end points
    if ex:
        for b in range(nb):
            qt, tt = bs_tols(eps, d64[b], us)
            for (o, d, nm) in ((y64[b, 0], d64[b, 0], "first"), (y64[b, -1], d64[b, -1], "last")):
                dq, dt_ = R.pose_dist(o, d)
                if not (dq <= qt and dt_ <= tt):
                    ctx.fail(pub(case), f"bs-ends: extrapolate=True but the {nm} output pose differs from the {nm} input pose (rotation {dq:.3e}, translation {dt_:.3e}; N={N}, dtype={dtype})")
    # model: whole item(s)
    for b in sorted({rnd.randrange(nb) for _ in range(2)} | {nb - 1}):
        if near_pi(d64[b]):
            ctx.count("bs.skip.nearpi")
            continue
        if L > case.get("model_cap", 150 if ctx.quick else 400):
            continue
        qt, tt = bs_tols(eps, d64[b], us)
        got = y64[b]

        def cb(rep, got=got, b=b, qt=qt, tt=tt):
            st, toks = common.parse_reply(rep)
            if st != "ok":
                ctx.disagree("bs", pub(case), f"item {b}: model replied {rep[:60]} but the implementation returned {len(got)} poses")
                return
            want = np.array([float(common.from_wire(t)) for t in toks]).reshape(-1, 7)
            if want.shape != got.shape:
                ctx.disagree("bs", pub(case), f"item {b}: model has {want.shape[0]} poses, implementation {got.shape[0]}")
                return
            dq, dt_ = R.pose_dist(got, want)
            bad = np.nonzero((dq > qt) | (dt_ > tt))[0]
            if bad.size:
                n = int(bad[0])
                ctx.disagree("bs", pub(case), f"item {b} pose {n} (segment {n // k}, u-index {n % k}): rotation err {dq[n]:.3e} (tol {qt:.3e}), translation err {dt_[n]:.3e} (tol {tt:.3e})")
                ctx.fail(pub(case), f"bs-value: bspline pose {n} of item {b} (segment {n // k}, u-index {n % k}) is {got[n].tolist()}, the documented cumulative B-spline "
                                    f"P_i*Exp(w1 d1)*Exp(w2 d2)*Exp(w3 d3) gives {want[n].tolist()} (rotation err {dq[n]:.3e}, translation err {dt_[n]:.3e}; N={N}, interval={iv!r}, {dtype})")
        Fiv = Fraction(iv)
        mb.add(f"c19.bsa {to_wire(eps)} {Fiv.numerator} {Fiv.denominator} {to_wire(iv)} {1 if ex else 0} {N} " + wire_list(d64[b].flatten().tolist()), cb)
    # oracle: constant-twist motions are reproduced at the right times
    if case["gen"] == "twist" and not case.get("flip") and "_X" not in case:
        b = rnd.randrange(nb)
        T0, xi = info[b]["T0"], info[b]["xi"]
        qt, tt = bs_tols(eps, d64[b], us)
        tt = tt + 256 * eps * (N + 2) * float(np.abs(np.array(xi[:3])).max())
        ns = sorted({rnd.randrange(L) for _ in range(min(L, 10))} | {0, L - 1})
        for n in ns:
            if n == L - 1:
                seg, u = nseg - 1, 1.0
            else:
                seg, u = n // k, us[n % k]
            # padded index: with extrapolate the data index of segment start is seg-2 (clamped), time = seg + 1 + u - 2
            t = seg + 1 + u - (2 if ex else 0)
            if ex and (t < 0 or t > N - 1 or seg < 2 or seg > Np - 6):
                continue  # segments touching the duplicated end poses are not constant-twist
            got = y64[b, n]

            def cbt(rep, got=got, n=n, t=t, qt=qt, tt=tt):
                want = np.array(nums(rep))
                dq, dt_ = R.pose_dist(got, want)
                if not (dq <= qt and dt_ <= tt):
                    ctx.fail(pub(case), f"bs-twist: constant-twist motion T0*Exp(t*xi) not reproduced at t={t:.6g} (output {n}): rotation err {dq:.3e} (tol {qt:.3e}), translation err {dt_:.3e} (tol {tt:.3e}); N={N}, interval={iv!r}, |phi|={case['rot']}")
            mb.add(f"c19.twist {to_wire(eps)} " + wire_list(list(T0) + list(xi) + [t]), cbt)
    # oracle: left-equivariance
    b = rnd.randrange(nb)
    G = R.rand_pose(rnd, max(case["tscale"], 1e-3) * 2)
    dG = R.left_mul(G, d64[b])
    try:
        YG = call_bspline(P.LieTensor(torch.tensor(dG).to(DT[dtype]), ltype=P.SE3_type), iv, ex).tensor().double().numpy()
        want = R.left_mul(G, y64[b])
        qt, tt = bs_tols(eps, np.concatenate([d64[b], dG]), us)
        if YG.shape != want.shape:
            ctx.fail(pub(case), f"bs-equiv: G*data gives {YG.shape[0]} poses, data gives {want.shape[0]}")
        else:
            dq, dt_ = R.pose_dist(YG, want)
            if not (dq.max() <= 2 * qt and dt_.max() <= 2 * tt) and not near_pi(d64[b]):
                n = int(np.argmax(np.maximum(dq / qt, dt_ / tt)))
                ctx.fail(pub(case), f"bs-equiv: bspline(G*data) differs from G*bspline(data) at pose {n}: rotation {dq[n]:.3e} (tol {2 * qt:.3e}), translation {dt_[n]:.3e} (tol {2 * tt:.3e})")
    except Exception as e:
        ctx.fail(pub(case), f"bs-raises: bspline raised on G*data: {excs(e)}")
    # oracle: batch consistency
    if nb > 1:
        for b in (range(nb) if nb <= 64 else sorted({0, nb - 1} | {rnd.randrange(nb) for _ in range(4)})):
            try:
                yb = call_bspline(P.LieTensor(before.reshape(-1, N, 7)[b].clone(), ltype=P.SE3_type), iv, ex).tensor().double().numpy()
                dq, dt_ = R.pose_dist(yb, y64[b]) if yb.shape == y64[b].shape else (np.array([math.inf]), np.array([math.inf]))
                tb = 8 * eps * (np.abs(d64[b][:, :3]).max() * 3) + 1e-300      # the item's own translation scale
                if not (dq.max() <= 8 * eps and dt_.max() <= tb):
                    ctx.fail(pub(case), f"bs-batch: batch item {b} differs from the same call on that item alone (rotation {dq.max():.3e}, translation {dt_.max():.3e}, own tolerance {tb:.3e}); gen={case['gen']}")
                    break
            except Exception as e:
                ctx.fail(pub(case), f"bs-raises: bspline raised on one batch item: {excs(e)}")
                break
    # oracle: continuity across segment joins (interval just below 1/m: last parameter is 1-g)
    if case.get("continuity") and not near_pi(d64[0]):
        m = case["continuity"]
        g = 2.0 ** -20 if dtype == "float64" else 2.0 ** -10
        ivc = (1 - g) / m
        try:
            Yc = call_bspline(P.LieTensor(before.reshape(-1, N, 7)[0].clone(), ltype=P.SE3_type), ivc, ex).tensor().double().numpy()
            kc = m + 1
            if Yc.shape[0] != nseg * kc + 1:
                ctx.fail(pub(case), f"bs-count: interval {ivc!r} gives {Yc.shape[0]} poses, expected {nseg}*{kc}+1")
            else:
                rel = R.qmul(R.qconj(d64[0][:-1, 3:]), d64[0][1:, 3:])
                vmax_r = 3 * float(R.qangle(rel).max()) if N > 1 else 0.0
                steps = np.linalg.norm(d64[0][1:, :3] - d64[0][:-1, :3], axis=-1).max() if N > 1 else 0.0
                vmax_t = 3 * (float(steps) + vmax_r * float(np.abs(d64[0][:, :3]).max()) + 1e-300) * 4
                qt, tt = bs_tols(eps, d64[0], [j * ivc for j in range(kc)])
                for s in range(nseg):
                    a_, b_ = Yc[s * kc + m], Yc[(s + 1) * kc]
                    dq, dt_ = R.pose_dist(a_, b_)
                    if not (dq <= g * (vmax_r + 1e-300) + 2 * qt and dt_ <= g * vmax_t + 2 * tt):
                        ctx.fail(pub(case), f"bs-cont: spline jumps at the join after segment {s}: rotation {dq:.3e}, translation {dt_:.3e} between u=1-{g:.1e} and the next segment's u=0 (N={N})")
                        break
        except Exception as e:
            ctx.fail(pub(case), f"bs-raises: bspline raised with interval {ivc!r}: {excs(e)}")


def gen_bs_cases(ctx: Ctx, n: int):
    rng = ctx.rng
    cases = []
    for i in range(n):
        ex = rng.random() < 0.45
        c = rng.random()
        if ex:
            N = rng.choice([1, 2, 3, 4, 5]) if c < 0.45 else (rng.randint(6, 16) if c < 0.85 else rng.randint(17, 60))
        else:
            N = rng.choice([4, 5, 6]) if c < 0.45 else (rng.randint(7, 16) if c < 0.85 else rng.randint(17, 60))
            if rng.random() < 0.06:
                N = rng.choice([1, 2, 3])
        iv = gen_interval(rng, small_ok=False)
        while k_exact(iv) * (N + 1) > (300 if ctx.quick else 900):
            iv = rng.choice([0.5, 0.4, 0.3, 0.25, 0.7, 1 / 3, 0.6])
        gen = rng.choice(["walk", "walk", "twist", "twist", "random", "repeat", "mixed"])
        rot = rng.choice(ROT_LADDER) if gen != "twist" else rng.choice([1e-10, 1e-7, 1e-4, 1e-2, 0.1, 0.5, 1.0, 2.0, 2.9, math.pi - 0.1])
        cases.append({"kind": "bs", "dtype": rng.choice(["float64", "float64", "float32"]), "N": N,
                      "batch": (rng.choice([[3], [2, 3], [5]]) if gen == "mixed" else small_batch(rng)),
                      "interval": iv, "extrapolate": ex, "gen": gen, "rot": rot,
                      "tscale": rng.choice([0.0, 1e-3, 1.0, 1.0, 100.0]), "flip": rng.random() < 0.25,
                      "continuity": rng.choice([0, 0, 1, 2, 3]), "seed": rng.randrange(1 << 30)})
    return cases


def sweep_bs_cases(ctx: Ctx):
    """every pose count 1..60 (extrapolate) / 4..60 once; the model is consulted for the short ones only"""
    rng = random.Random(CORPUS_SEED + 2)
    out = []
    for N in range(1, 61):
        for ex in (True, False):
            if not ex and N < 4:
                continue
            sd_ = rng.randrange(1 << 30)
            if ctx.quick and N > 12 and N % 4 and N != 59:        # quick tier: every count up to 12, then every fourth (all of them in thorough)
                continue
            out.append({"kind": "bs", "dtype": "float64" if (N + ex) % 4 else "float32", "N": N, "batch": [] if N % 6 else [2],
                        "interval": 0.5 if N % 2 else 0.4, "extrapolate": ex, "gen": "twist" if N % 2 else "walk",
                        "rot": [0.3, 1.0, 2.0][N % 3], "tscale": 1.0, "flip": False, "continuity": 1 if N % 10 == 0 else 0,
                        "model_cap": 24, "seed": sd_})
    return out


def run_bs(ctx: Ctx, mb: MB, n: int):
    P = pp()
    for case in gen_bs_cases(ctx, n):
        check_bs(ctx, case, mb)
        ctx.note_case(("bs", case["dtype"], case["N"], len(case["batch"]), case["interval"], case["extrapolate"], case["gen"], case["rot"]),
                      case["N"] >= 2)
        ctx.count(f"bs.{case['gen']}.{'ex' if case['extrapolate'] else 'in'}")
        ctx.sample({"stream": "bs", **pub(case)}, cap=18)
    # malformed: non-SE3 input, interval >= 1
    for nm, fn in (("SO3 input", lambda: P.bspline(P.randn_SO3(5), 0.5)), ("se3 input", lambda: P.bspline(P.randn_se3(5), 0.5)),
                   ("interval 1.0", lambda: P.bspline(P.randn_SE3(5), 1.0))):
        try:
            fn()
            ctx.fail({"kind": "bs-bad", "what": nm}, f"bs-assert: bspline accepted {nm}")
        except AssertionError:
            ctx.count("bs.assert")
        except Exception as e:
            ctx.fail({"kind": "bs-bad", "what": nm}, f"bs-assert: bspline raised {excs(e)} instead of AssertionError for {nm}")


# ============================================================================= geodesic loss

GEO_TYPES = ["SO3", "SE3", "RxSO3", "Sim3", "so3", "se3", "rxso3", "sim3"]
GEO_ANGLES = lambda eps: common.ladder(eps)


def so3_log_np(q):
    q = np.asarray(q, dtype=np.float64)
    if q[3] < 0:
        q = -q
    vn = float(np.linalg.norm(q[:3]))
    if vn < 1e-300:
        return np.zeros(3)
    return q[:3] / vn * (2 * math.atan2(vn, q[3]))


def geo_tensor(rnd, tname, quats, dtype):
    """LieTensor of type `tname` whose rotation parts are (to rounding) the given unit quaternions [n,4]"""
    P = pp()
    n = quats.shape[0]
    tr = np.array([[rnd.gauss(0, 1) * 3 for _ in range(3)] for _ in range(n)])
    sc = np.array([[math.exp(rnd.uniform(-1, 1))] for _ in range(n)])
    if tname[0].isupper():
        rows = {"SO3": quats, "SE3": np.concatenate([tr, quats], -1), "RxSO3": np.concatenate([quats, sc], -1),
                "Sim3": np.concatenate([tr, quats, sc], -1)}[tname]
    else:
        phi = np.stack([so3_log_np(q) for q in quats])
        rows = {"so3": phi, "se3": np.concatenate([tr, phi], -1), "rxso3": np.concatenate([phi, np.log(sc)], -1),
                "sim3": np.concatenate([tr, phi, np.log(sc)], -1)}[tname]
    return P.LieTensor(torch.tensor(rows, dtype=torch.float64).to(DT[dtype]), ltype=getattr(P, tname + "_type"))


def build_geo(case):
    rnd = random.Random(case["seed"])
    eps = EPS[case["dtype"]]
    sx, sy = tuple(case["shape_x"]), tuple(case["shape_y"])
    so = tuple(torch.broadcast_shapes(sx, sy))
    nx, ny = int(math.prod(sx)), int(math.prod(sy))
    from . import util_lie as U
    qx = np.array([U.gen_unit_quat(rnd, eps)[0] for _ in range(nx)]).reshape(sx + (4,))
    # y = Exp(theta n)^-1 x on the broadcast grid is only possible item-wise; generate y on its own grid from the
    # broadcast x restricted to y's shape (first matching item), so the relative angle of those items is on the ladder
    qxe = np.broadcast_to(qx, so + (4,)).reshape(-1, 4)
    idx_y = np.arange(int(math.prod(so))).reshape(so)
    # pick for every y item one broadcast position it participates in
    pos = np.broadcast_to(np.arange(ny).reshape(sy), so).reshape(-1)
    first = {}
    for flat, jy in enumerate(pos.tolist()):
        first.setdefault(jy, flat)
    lad = GEO_ANGLES(eps)
    qy = np.zeros((ny, 4))
    angs = []
    for jy in range(ny):
        c = rnd.random()
        th = rnd.choice(lad) if c < 0.6 else (rnd.uniform(0, math.pi) if c < 0.9 else 10 ** rnd.uniform(-17, 0))
        angs.append(th)
        rel = R.so3_exp(R.rand_unit(rnd) * th)
        qy[jy] = R.qnormalize(R.qmul(R.qconj(rel), qxe[first[jy]]))
        if rnd.random() < 0.5:
            qy[jy] = -qy[jy]
    X = geo_tensor(rnd, case["type_x"], qx.reshape(-1, 4), case["dtype"])
    Y = geo_tensor(rnd, case["type_y"], qy, case["dtype"])
    P = pp()
    X = P.LieTensor(X.tensor().reshape(sx + (X.shape[-1],)), ltype=X.ltype)
    Y = P.LieTensor(Y.tensor().reshape(sy + (Y.shape[-1],)), ltype=Y.ltype)
    return X, Y, so, angs


def call_geo(case, X, Y, reduction):
    P = pp()
    if case["api"] == "module":
        m, _ = geo_module(reduction)
        return m(X, Y)
    return P.geodesic_loss(X, Y, reduction=reduction)


_GEO_MODULES = {}


def geo_module(reduction):
    """class 4: ONE GeodesicLoss object per reduction for the whole run, re-used with every type / shape / dtype"""
    if reduction not in _GEO_MODULES:
        m = pp().module.GeodesicLoss(reduction=reduction)
        _GEO_MODULES[reduction] = (m, {k: v for k, v in vars(m).items() if not k.startswith("_")})
    return _GEO_MODULES[reduction]


def check_geo(ctx: Ctx, case, mb: MB) -> None:
    guard(ctx, case, "geo", lambda: _check_geo(ctx, case, mb))


def _check_geo(ctx: Ctx, case, mb: MB) -> None:
    P = pp()
    dtype = case["dtype"]
    eps = EPS[dtype]
    X, Y, so, angs = build_geo(case)
    bx, by = X.tensor().clone(), Y.tensor().clone()
    tol = 24 * eps          # absolute: unit quaternions carry eps absolute noise, angles are <= pi (no magnitude factor)
    try:
        with warnings.catch_warnings():
            warnings.simplefilter("ignore")
            none = call_geo(case, X, Y, "none")
            red = call_geo(case, X, Y, case["reduction"])
            swapped = call_geo(case, Y, X, "none")
            xq = X.rotation().tensor().double()
            yq = Y.rotation().tensor().double()
    except Exception as e:
        ctx.fail(pub(case), f"geo-raises: geodesic_loss raised {excs(e)}")
        return
    if not (torch.equal(X.tensor(), bx) and torch.equal(Y.tensor(), by)):
        ctx.fail(pub(case), "geo-mutation: geodesic_loss changed an argument")
    if not isinstance(none, torch.Tensor) or tuple(none.shape) != so or none.dtype != DT[dtype]:
        ctx.fail(pub(case), f"geo-shape: reduction='none' returned shape {tuple(getattr(none, 'shape', ()))} for broadcast shape {so}")
        return
    n64 = none.double().reshape(-1)
    if n64.numel() == 0:
        return
    if not (all_finite(n64) and all_finite(swapped) and all_finite(red)):       # lesson 38(a): before any tolerance comparison
        j = int((~torch.isfinite(n64)).nonzero()[0]) if not all_finite(n64) else -1
        ctx.fail(pub(case) | {"item": j}, f"non-finite result: geodesic_loss returns a non-finite value (item {j}) for valid rotations (types {case['type_x']}/{case['type_y']}, {dtype})")
        return
    # range
    if not (bool((n64 >= 0).all()) and bool((n64 <= math.pi + tol).all())):
        ctx.fail(pub(case), f"geo-range: geodesic_loss outside [0, pi]: min {float(n64.min())!r} max {float(n64.max())!r}")
    # symmetry
    e = float((swapped.double().reshape(-1) - n64).abs().max())
    if not e <= tol:
        ctx.fail(pub(case), f"geo-sym: geodesic_loss(x,y) differs from geodesic_loss(y,x) by {e:.3e}")
    # independent formula: angle of x y^-1 via atan2 on the rotation parts
    xe = np.broadcast_to(xq.numpy(), so + (4,)).reshape(-1, 4)
    ye = np.broadcast_to(yq.numpy(), so + (4,)).reshape(-1, 4)
    want = R.qangle(R.qmul(xe, R.qconj(ye)))
    e = float(np.abs(want - n64.numpy()).max())
    if not e <= tol:
        j = int(np.abs(want - n64.numpy()).argmax())
        ctx.fail(pub(case), f"geo-angle: geodesic_loss item {j} is {float(n64[j])!r}, the rotation angle between the rotation parts is {float(want[j])!r} (types {case['type_x']}/{case['type_y']}, {dtype})")
    # reductions
    rd = case["reduction"]
    if rd == "none":
        ok = tuple(red.shape) == so and torch.equal(red, none)
    else:
        ref = n64.mean() if rd == "mean" else n64.sum()
        ok = red.dim() == 0 and abs(float(red) - float(ref)) <= tol * max(1, n64.numel()) * (1 if rd == "mean" else math.pi)
        if ok and rd == "mean" and not (0 <= float(red) <= math.pi + tol):
            ok = False
    if not ok:
        ctx.fail(pub(case), f"geo-reduce: reduction={rd!r} returned {red!r}, expected the {rd} of the item angles")
    # invariance: right and left multiplication of both rotations by a fixed rotation
    rnd = random.Random(case["seed"] + 5)
    g = P.SO3(torch.tensor(R.rand_quat(rnd)).to(DT[dtype]))
    xr, yr = X.rotation(), Y.rotation()
    try:
        a1 = P.geodesic_loss(xr @ g, yr @ g, reduction="none").double().reshape(-1)
        a2 = P.geodesic_loss(g @ xr, g @ yr, reduction="none").double().reshape(-1)
        e = nmax([float((a1 - n64).abs().max()), float((a2 - n64).abs().max())])
        if not e <= 4 * tol:
            ctx.fail(pub(case), f"geo-inv: angle changes by {e:.3e} when both rotations are multiplied by the same rotation")
    except Exception as e:
        ctx.fail(pub(case), f"geo-raises: geodesic_loss raised on SO3 inputs: {excs(e)}")
    # class 4: the shared module object keeps its public attributes
    if case["api"] == "module":
        for rd_ in ("none", case["reduction"]):
            m, snap = geo_module(rd_)
            now = {k_: v for k_, v in vars(m).items() if not k_.startswith("_")}
            if now != snap:
                ctx.fail(pub(case), f"geo-state: GeodesicLoss(reduction={rd_!r}) changed its public attributes during a call: {snap} -> {now}")
    # class 7: items of a (mixed-regime) batch = the same call on each item alone
    Xb = torch.broadcast_to(X.tensor(), so + (X.shape[-1],)).reshape(-1, X.shape[-1])
    Yb = torch.broadcast_to(Y.tensor(), so + (Y.shape[-1],)).reshape(-1, Y.shape[-1])
    for j in sorted({rnd.randrange(xe.shape[0]) for _ in range(3)}):
        try:
            with warnings.catch_warnings():
                warnings.simplefilter("ignore")
                alone = P.geodesic_loss(P.LieTensor(Xb[j].clone(), ltype=X.ltype), P.LieTensor(Yb[j].clone(), ltype=Y.ltype), reduction="none")
            if not abs(float(alone) - float(n64[j])) <= 4 * eps:
                ctx.fail(pub(case), f"geo-batch: item {j} in the batch gives {float(n64[j])!r}, alone {float(alone)!r} (relative angle regime differs from its neighbours)")
        except Exception as e:
            ctx.fail(pub(case), f"geo-raises: geodesic_loss raised on a single item: {excs(e)}")
    # model: items
    items = sorted({rnd.randrange(xe.shape[0]) for _ in range(4)})
    for j in items:
        got = float(n64[j])

        def cb(rep, got=got, j=j):
            want = nums(rep)[0]
            if not abs(got - want) <= tol:
                ctx.disagree("geo", pub(case), f"item {j}: implementation {got!r} model {want!r} (tol {tol:.3e})")
                ctx.fail(pub(case), f"geo-value: geodesic_loss item {j} is {got!r}, |Log(x y^-1)| of the rotation parts {xe[j].tolist()} / {ye[j].tolist()} is {want!r} ({dtype})")
        mb.add(f"c19.geo {to_wire(eps)} " + wire_list(xe[j].tolist() + ye[j].tolist()), cb)


def gen_geo_cases(ctx: Ctx, n: int):
    from . import util_lie as U
    rng = ctx.rng
    cases = []
    for i in range(n):
        sx, sy, _ = U.broadcast_pair(rng, 2)
        tx = rng.choice(GEO_TYPES)
        ty = tx if rng.random() < 0.6 else rng.choice(GEO_TYPES)
        cases.append({"kind": "geo", "dtype": rng.choice(["float64", "float64", "float32"]), "type_x": tx, "type_y": ty,
                      "shape_x": list(sx), "shape_y": list(sy), "reduction": rng.choice(["none", "mean", "sum"]),
                      "api": rng.choice(["fn", "module"]), "seed": rng.randrange(1 << 30)})
    return cases


def run_geo(ctx: Ctx, mb: MB, n: int):
    P = pp()
    for case in gen_geo_cases(ctx, n):
        check_geo(ctx, case, mb)
        ctx.note_case(("geo", case["dtype"], case["type_x"], case["type_y"], tuple(case["shape_x"]), tuple(case["shape_y"]),
                       case["reduction"], case["api"]), True)
        ctx.count(f"geo.{case['type_x']}")
        ctx.count(f"geo.red.{case['reduction']}")
        ctx.sample({"stream": "geo", **pub(case)}, cap=24)
    try:
        P.geodesic_loss(P.randn_SO3(2), P.randn_SO3(2), reduction="max")
        ctx.fail({"kind": "geo-bad"}, "geo-assert: geodesic_loss accepted reduction='max'")
    except AssertionError:
        ctx.count("geo.assert")
    except Exception as e:
        ctx.fail({"kind": "geo-bad"}, f"geo-assert: geodesic_loss raised {excs(e)} instead of AssertionError for an unknown reduction")


# ============================================================================= trajectories: ape / rpe

ETYPES = ["translation", "rotation", "pose", "radian", "degree"]
STAT_KEYS = ["Max", "Min", "Mean", "Median", "RMSE", "SSE", "STD"]
MODES = {"none": dict(), "origin": dict(origin=True), "align": dict(align=True), "scale": dict(scale=True),
         "align+scale": dict(align=True, scale=True), "align+origin": dict(align=True, origin=True),
         "scale+origin": dict(scale=True, origin=True), "align+scale+origin": dict(align=True, scale=True, origin=True)}
SPACING_RATIOS = [0.3, 0.4, 0.5, 0.8, 1.0, 1.25, 2.0, 2.5, 5.0, 10.0, 100.0]
EPS64 = EPS["float64"]


def build_traj(case):
    """-> dict(rs, rp, es, ep (numpy; stamps may be None), ir, ie (expected association), diff, off, margin)"""
    rnd = random.Random(case["seed"])
    M, ts, rot = case["M"], case["tscale"], case["rot"]
    full = R.walk(rnd, M, ts, rot, tstep=case.get("tstep", ts))
    geom = case.get("geom")
    if geom:
        # degenerate position geometry (D43 class): random orientations stay, positions are put on a line / two points / one point
        unit = 2.0 ** round(math.log2(max(ts, 1e-6)))                      # dyadic scale: the exact kinds stay exact in float32 too
        c0 = np.array([rnd.randint(-8, 8) * 0.25 for _ in range(3)]) * unit
        perp = 0.0
        if geom in ("line-rounded", "near-line"):
            dvec = R.rand_unit(rnd) * ts
            sk = np.array([k_ * 0.37 + rnd.uniform(0, 0.2) for k_ in range(M)])
            if geom == "near-line":      # class 36: NOT collinear — off the line by `dev` of the extent (between round-off and a loose tolerance)
                ax = dvec / np.linalg.norm(dvec)
                pv = []
                for _ in range(M):
                    w_ = R.rand_unit(rnd)
                    w_ = w_ - ax * float(w_ @ ax)
                    pv.append(w_ / np.linalg.norm(w_) * rnd.uniform(0.3, 1.0) * rnd.choice([-1, 1]))
                perp = np.array(pv) * case.get("dev", 1e-4) * float(sk.max()) * ts
        else:
            dvec = np.array(rnd.choice([[1, 0, 0], [0, -1, 0], [1, 2, -2], [3, -1, 2], [0, 1, 1]]), dtype=np.float64) * unit * 0.5
            if geom == "line":
                sk = np.array([float(rnd.choice([k_, k_, k_ * 0.5, k_ - 1])) for k_ in range(M)])
                sk[0], sk[-1] = 0.0, float(M)
            elif geom == "two":
                sk = np.array([float(k_ % 2) for k_ in range(M)])
                rnd.shuffle(sk)
                sk[0], sk[1] = 0.0, 1.0
            else:  # "one"
                sk = np.zeros(M)
        full[:, :3] = c0 + sk[:, None] * dvec + perp
    t0, dt = case["t0"], case["dt"]
    diff = case["diff"]
    st = [t0]
    for _ in range(M - 1):
        st.append(st[-1] + dt * rnd.uniform(0.7, 1.3))
    st = np.array(st)
    kind = case["stamps"]
    idx_all = list(range(M))
    if kind in ("sub", "extra"):
        keep = sorted(rnd.sample(idx_all, max(3, int(M * rnd.uniform(0.4, 0.9)))))
    else:
        keep = idx_all
    # kind 18: jitter of either sign, always below the threshold AND below half the smallest spacing (0.35 dt), so the right
    # partner is unambiguous for every spacing/diff ratio (0.3 … 100)
    amp = 0.8 * min(0.95 * diff, 0.35 * dt)
    sgn = {"after": (0.05, 1.0), "before": (-1.0, -0.05)}.get(kind, (-1.0, 1.0))
    jit = np.array([rnd.uniform(*sgn) * amp for _ in range(M)]) if kind in ("jitter", "after", "before", "sub", "extra", "unmatched") else np.zeros(M)
    # estimate poses follow the reference poses of the same index
    ek = case["est"]
    if ek == "identical":
        est_full = full.copy()
    elif ek == "independent":
        est_full = R.walk(rnd, M, ts, rot)
    elif ek == "regimes":
        # class 7: the error rotation of consecutive poses runs through every regime of mat2SO3 / Log inside ONE call:
        # 0, ~eps, tiny, ordinary, > pi/2 about each axis (the three trace-negative branches), pi - 1e-6, exactly pi
        angs = [0.0, 1e-15, 1e-9, 1e-4, 0.3, 2.0, 2.8, math.pi - 1e-6, math.pi, 3.0, 1.5]
        axes = [np.array([1.0, 0, 0]), np.array([0, 1.0, 0]), np.array([0, 0, 1.0]), np.array([1.0, 1.0, 0]) / math.sqrt(2),
                np.array([-1.0, 2.0, 0.5]) / math.sqrt(5.25)]
        est_full = np.stack([R.se3_vec(R.se3_mul((p[:3], p[3:]), R.se3_exp(np.concatenate(
            [R.rand_unit(rnd) * case["noise"] * max(ts, 1e-3), axes[(i // len(angs)) % len(axes)] * angs[i % len(angs)]]))))
            for i, p in enumerate(full)])
    else:
        nz_t, nz_r = case["noise"] * max(ts, 1e-3), case["noise"]
        est_full = np.stack([R.se3_vec(R.se3_mul((p[:3], p[3:]), R.se3_exp(np.concatenate([R.rand_unit(rnd) * nz_t * rnd.uniform(0, 1), R.rand_unit(rnd) * nz_r * rnd.uniform(0, 1)])))) for p in full])
        if ek == "transformed":
            S = (math.exp(rnd.uniform(-1, 1)), R.rand_quat(rnd), R.rand_unit(rnd) * ts * 3)
            est_full = R.apply_sim(S[0], S[1], S[2], est_full)
    if kind == "extra":       # estimate has all stamps, reference a subset
        ri, ei = keep, idx_all
    elif kind == "sub":       # estimate a subset
        ri, ei = idx_all, keep
    else:
        ri, ei = idx_all, idx_all
    rs = st[ri]
    es = st[ei] + jit[ei]
    drop = set()
    if kind == "unmatched":
        for j in range(len(ei)):
            if rnd.random() < 0.35 and 0 < j < len(ei) - 1:
                # displaced by a multiple of the threshold: 0.8 (still matched), 1.2 / 1.5 / 3 (dropped), either direction
                sg = rnd.choice([-1, 1])
                disp = rnd.choice([0.8, 1.2, 1.5, 3.0]) * diff
                gap = (st[ei[j] + 1] - st[ei[j]]) if sg > 0 else (st[ei[j]] - st[ei[j] - 1])
                gap_e = (st[ei[j + 1]] - st[ei[j]]) if sg > 0 else (st[ei[j]] - st[ei[j - 1]])
                disp = min(disp, 0.42 * gap, 0.42 * gap_e)     # stamps stay ascending, nearest reference stamp stays unique
                es[j] = st[ei[j]] + sg * disp
                drop.add(j)
    rp, ep = full[ri], est_full[ei]
    off = case["offset"]
    es_pass = es - off
    if kind == "none":
        rs_pass, es_pass2 = None, None
        if case.get("none_shorter"):
            ep = ep[:-2]
        rs_o, es_o = np.arange(len(rp), dtype=np.float64), np.arange(len(ep), dtype=np.float64)
    else:
        rs_pass, es_pass2 = rs, es_pass
        rs_o, es_o = rs, es_pass
    # expected association through the independent oracle (same short/long convention as the documentation)
    snd_longer = len(es_o) > len(rs_o)
    if snd_longer:
        pairs, margin = R.match_oracle(list(rs_o), list(es_o), diff, off)
        ir, ie = [p[0] for p in pairs], [p[1] for p in pairs]
    else:
        pairs, margin = R.match_oracle(list(es_o), list(rs_o), diff, -off)
        ie, ir = [p[0] for p in pairs], [p[1] for p in pairs]
    dtp = DT[case["dtype"]]
    rp = torch.tensor(rp, dtype=torch.float64).to(dtp).double().numpy()
    ep = torch.tensor(ep, dtype=torch.float64).to(dtp).double().numpy()
    return dict(rs=rs_pass, rp=rp, es=es_pass2, ep=ep, rs_o=rs_o, es_o=es_o, ir=ir, ie=ie, diff=diff, off=off,
                margin=margin, snd_longer=snd_longer)


def tens(a):
    return None if a is None else torch.tensor(np.asarray(a), dtype=torch.float64)


def se3t(a, dtype="float64"):
    P = pp()
    return P.SE3(torch.tensor(np.asarray(a), dtype=torch.float64).to(DT[dtype]))


def run_metric(fn, rs, rp, es, ep, dtype="float64", **kw):
    with warnings.catch_warnings():
        warnings.simplefilter("ignore")
        return fn(tens(rs), se3t(rp, dtype), tens(es), se3t(ep, dtype), **kw)


def stat_vals(res):
    return [float(res[k]) for k in STAT_KEYS]


def traj_line(stamps, poses):
    return f"{len(stamps)} " + wire_list(list(stamps)) + " " + wire_list(np.asarray(poses).flatten().tolist())


def err_tol(etype, ts):
    """tolerance of one pose error at float64 for translation scale ts"""
    if etype == "translation":
        return 64 * EPS64 * ts + 1e-300
    if etype == "rotation":
        return 64 * EPS64
    if etype == "pose":
        return 64 * EPS64 * (1 + ts)
    if etype == "radian":
        return 256 * EPS64
    return 256 * EPS64 * 180 / math.pi


def stats_close(a, b, tau, n):
    """compare two stat vectors (Max Min Mean Median RMSE SSE STD) given per-item tolerance tau; returns first bad key"""
    for key, x, y in zip(STAT_KEYS, a, b):
        if key == "STD" and n == 1:
            if not (math.isnan(x) or abs(x) <= 4 * tau):
                return key
            continue
        if math.isnan(x) or math.isnan(y):
            return key
        if key == "SSE":
            t = 2 * tau * math.sqrt(max(y, 0) * n) + n * tau * tau + 64 * EPS64 * abs(y)
        elif key == "STD":
            t = 4 * tau + 64 * EPS64 * abs(y)
        else:
            t = tau + 64 * EPS64 * abs(y)
        if not abs(x - y) <= t:
            return key
    return None


def check_order(ctx, case, what, vals):
    mx, mn, mean, med, rmse, sse, std = vals
    slack = 8 * EPS64 * abs(mx) + 1e-300
    if not (mx + slack >= rmse and rmse + slack >= mean and mean + slack >= mn and mn >= 0 and mx + slack >= med and med + slack >= mn and sse >= 0):
        ctx.fail(pub(case), f"traj-order: {what}: Max >= RMSE >= Mean >= Min >= 0 violated: Max={mx!r} RMSE={rmse!r} Mean={mean!r} Min={mn!r} Median={med!r}")


def np_stats(err):
    e = np.abs(np.asarray(err, dtype=np.float64))
    n = len(e)
    srt = np.sort(e)
    return [float(e.max()), float(e.min()), float(e.mean()), float(srt[(n - 1) // 2]), float(np.sqrt((e ** 2).mean())),
            float((e ** 2).sum()), float(e.std(ddof=1)) if n > 1 else float("nan")]


def np_rel_errors(etype, ref, est, rpe):
    """documented error of reference poses `ref` against estimate poses `est` ([n,7] arrays), independent float64 maths.
    ape: E = est^-1 ref (translation type: |t_est - t_ref|); rpe: E = ref^-1 est (translation type: |E.t|)."""
    a, b = (ref, est) if rpe else (est, ref)      # E = a^-1 b
    qa, qb = a[:, 3:7], b[:, 3:7]
    qe = R.qmul(R.qconj(qa), qb)
    te = R.qrot(R.qconj(qa), b[:, :3] - a[:, :3])
    if etype == "translation":
        return np.linalg.norm(te, axis=-1) if rpe else np.linalg.norm(est[:, :3] - ref[:, :3], axis=-1)
    qe = R.qnormalize(qe)
    Rm = R.qmat(qe)
    fro = np.sqrt(((Rm - np.eye(3)) ** 2).sum(axis=(-2, -1)))
    if etype == "rotation":
        return fro
    if etype == "pose":
        return np.sqrt(fro ** 2 + (te ** 2).sum(-1))
    ang = R.qangle(qe)
    return ang if etype == "radian" else np.degrees(ang)


def svd_T(ctx, case, B, ir, ie, with_scale):
    """the transform the real svdstf returns for the associated translations (as ape/rpe call it), contract-checked"""
    P = pp()
    est = B["ep"][ie][:, :3]
    ref = B["rp"][ir][:, :3]
    T = P.svdstf(torch.tensor(est), torch.tensor(ref), with_scale).tensor().double().numpy().reshape(-1)
    if not np.isfinite(T).all():          # lesson 38(a): never onto the wire; a NaN transform is a failure with the positions as replay
        ctx.fail(pub(case), f"non-finite result: svdstf returns {T.tolist()} for {len(est)} finite positions (with_scale={with_scale})")
        raise ValueError("svdstf returned a non-finite transform")
    s, Rm, t, D = R.umeyama(est, ref, with_scale)
    c_np = R.align_cost(s, Rm, t, est, ref)
    c_im = R.align_cost(T[7], R.rot_from_quat(T[3:7]), T[:3], est, ref)
    sc = float((ref ** 2).sum() + (T[7] ** 2) * (est ** 2).sum()) + 1e-300
    # rounding only: the returned quaternion/translation are rounded to eps, which moves every transformed point by ~eps*|s R x|
    # -> cost changes by <= 2 sqrt(cost * sc) * k eps + (k eps)^2 sc (no term proportional to sc alone at first order)
    # ill-conditioned (nearly collinear) sources: the rotation about the line is determined only to eps*D0/D1, which costs (eps)^2 sc D0/D1
    ill = float(D[0]) / max(float(D[1]), 1e-14 * float(D[0]), 1e-300)
    if not c_im <= c_np + 256 * EPS64 * math.sqrt(c_np * sc) + (64 * EPS64) ** 2 * sc * (len(est) + ill):
        ctx.fail(pub(case), f"svdstf-contract: svdstf alignment cost {c_im:.6e} exceeds the optimum {c_np:.6e} (with_scale={with_scale}, {len(est)} points)")
    cond = float(D[1] / D[0]) if D[0] > 0 else 0.0
    return T, cond


def ape_kwargs(case):
    kw = dict(etype=case["etype"], diff=case["diff"], offset=case["offset"])
    kw.update(MODES[case["mode"]])
    return kw


_MODE_TABLE = {}


def model_flags(ctx: Ctx, mode: str):
    """(model mode 0 none / 1 origin / 2 svd, with_scale) for the documented flags of `mode` — decided by the Lean model
    (`Traj.modeOfFlags`, op c19.mode), not by the harness"""
    if not _MODE_TABLE:
        combos = [(a, s_, o) for a in (0, 1) for s_ in (0, 1) for o in (0, 1)]
        reps = ctx.driver.run([f"c19.mode {a} {s_} {o}" for a, s_, o in combos])
        for cmb, rep in zip(combos, reps):
            st, toks = common.parse_reply(rep)
            if st != "ok":
                raise common.InfraError(f"c19.mode replied {rep}")
            _MODE_TABLE[cmb] = (int(toks[0]), bool(int(toks[1])))
    fl = MODES[mode]
    return _MODE_TABLE[(int(bool(fl.get("align"))), int(bool(fl.get("scale"))), int(bool(fl.get("origin"))))]


ROT_ETYPES = ("rotation", "radian", "degree", "pose")


def collinear_exact(P, eps) -> bool:
    """exact rational test: every point lies within 256*eps*|u| of the line through the first point and the point farthest
    from it (u = their difference); all points equal counts as collinear. No floating-point decision involved."""
    pts = [[Fraction(float(x)) for x in p_] for p_ in np.asarray(P, dtype=np.float64)]
    if len(pts) <= 2:
        return True
    p0 = pts[0]
    vs = [[a - b for a, b in zip(p_, p0)] for p_ in pts]
    n2 = [sum(c_ * c_ for c_ in v_) for v_ in vs]
    jf = max(range(len(vs)), key=lambda j_: n2[j_])
    u, u2 = vs[jf], n2[jf]
    if u2 == 0:
        return True
    tau2 = Fraction(256 * eps) ** 2
    for v_ in vs:
        cx = [v_[1] * u[2] - v_[2] * u[1], v_[2] * u[0] - v_[0] * u[2], v_[0] * u[1] - v_[1] * u[0]]
        if sum(c_ * c_ for c_ in cx) > tau2 * u2 * u2:
            return False
    return True


def d43_matcher(kf, case) -> bool:
    """known finding D43: True ONLY for (ape identical / invariance clause) AND svd alignment requested AND a rotation-bearing error
    type AND the positions that enter svdstf collinear by the exact rational test on the re-built case data"""
    if kf.get("id") != "D43":
        return False
    try:
        if case.get("kind") != "traj" or case.get("clause") not in ("identical", "invariance"):
            return False
        fl = MODES[case["mode"]]
        if not (fl.get("align") or fl.get("scale")) or case["etype"] not in ROT_ETYPES:
            return False
        B = build_traj(case)
        eps = EPS[case["dtype"]]
        if case["clause"] == "identical":
            return collinear_exact(B["rp"][:, :3], eps)
        return collinear_exact(B["ep"][B["ie"]][:, :3], eps) or collinear_exact(B["rp"][B["ir"]][:, :3], eps)
    except Exception:
        return False


def scale_undefined(case, B, mode=None) -> bool:
    """a scale is requested and all matched positions of the estimate (0/0) or of the reference (optimal scale 0) coincide:
    svdstf raises ValueError from mat2Sim3(check=True) — recorded as an observation (see notes), not as a failure"""
    fl = MODES[mode if mode is not None else case["mode"]]
    P_, Q_ = B["ep"][B["ie"]][:, :3], B["rp"][B["ir"]][:, :3]
    return bool(fl.get("scale")) and (bool((P_ == P_[0]).all()) or bool((Q_ == Q_[0]).all()))


def check_traj(ctx: Ctx, case, mb: MB) -> None:
    guard(ctx, case, "traj", lambda: _check_traj(ctx, case, mb))


def _check_traj(ctx: Ctx, case, mb: MB) -> None:
    A = AR()
    P = pp()
    B = build_traj(case)
    if B["margin"] < 1e-6 or len(B["ir"]) < 3:
        ctx.count("traj.skip.margin")
        return
    dtype = case["dtype"]
    ir, ie = B["ir"], B["ie"]
    n = len(ir)
    kw = ape_kwargs(case)
    mode = case["mode"]
    rst, est_ = tens(B["rs"]), tens(B["es"])
    rpt, ept = se3t(B["rp"], dtype), se3t(B["ep"], dtype)
    snap = [None if x is None else x.clone() for x in (rst, rpt.tensor(), est_, ept.tensor())]
    try:
        with warnings.catch_warnings():
            warnings.simplefilter("ignore")
            res = A.ape(rst, rpt, est_, ept, **kw)
    except Exception as e:
        if isinstance(e, ValueError) and scale_undefined(case, B):
            ctx.count("traj.observation.scale-undefined-raises")
            return
        ctx.fail(pub(case), f"ape-raises: ape raised {excs(e)}")
        return
    for nm, a, b in zip(("rstamp", "rpose", "estamp", "epose"), (rst, rpt.tensor(), est_, ept.tensor()), snap):
        if a is not None and not torch.equal(a, b):
            ctx.fail(pub(case), f"traj-mutation: ape changed its argument {nm}")
    if not isinstance(res, dict) or sorted(res) != sorted(STAT_KEYS):
        ctx.fail(pub(case), f"ape-type: ape returned {type(res).__name__} with keys {sorted(res) if isinstance(res, dict) else None}")
        return
    vals = stat_vals(res)
    if not stats_finite(ctx, pub(case), f"ape(etype={case['etype']}, mode={mode})", vals, n):      # lesson 38(a): before the model and every tolerance
        return
    case["_vals"] = vals
    check_order(ctx, case, f"ape etype={case['etype']} mode={mode}", vals)
    # discrete: association against the model and the oracle
    try:
        if B["snd_longer"]:
            mi = A.matching_time_indices(torch.tensor(B["rs_o"]), torch.tensor(B["es_o"]), B["diff"], B["off"])
            got_pairs = list(zip(mi[0], mi[1]))
            want_pairs = list(zip(ir, ie))
            line = f"c19.match {to_wire(B['diff'])} {to_wire(B['off'])} {len(B['rs_o'])} {wire_list(list(B['rs_o']))} {len(B['es_o'])} {wire_list(list(B['es_o']))}"
        else:
            mi = A.matching_time_indices(torch.tensor(B["es_o"]), torch.tensor(B["rs_o"]), B["diff"], -B["off"])
            got_pairs = list(zip(mi[0], mi[1]))
            want_pairs = list(zip(ie, ir))
            line = f"c19.match {to_wire(B['diff'])} {to_wire(-B['off'])} {len(B['es_o'])} {wire_list(list(B['es_o']))} {len(B['rs_o'])} {wire_list(list(B['rs_o']))}"
        if got_pairs != want_pairs:
            ctx.fail(pub(case), f"traj-match: matching_time_indices pairs {got_pairs[:6]}… differ from nearest-stamp-within-diff pairs {want_pairs[:6]}… ({len(got_pairs)} vs {len(want_pairs)})")

        def cbm(rep, got_pairs=got_pairs):
            st, toks = common.parse_reply(rep)
            w = [int(t) for t in toks] if st == "ok" else None
            if w != [x for p in got_pairs for x in p]:
                ctx.disagree("match", pub(case), f"matching_time_indices: implementation {got_pairs[:5]}… model {w[:10] if w else rep[:40]}…")
        mb.add(line, cbm)
    except Exception as e:
        ctx.fail(pub(case), f"traj-raises: matching_time_indices raised {excs(e)}")
    # alignment transform (contract parameter)
    T = [0, 0, 0, 0, 0, 0, 1.0, 1.0]
    cond = 1.0
    mmode, with_scale_m = model_flags(ctx, mode)
    svd_mode = mmode == 2
    if svd_mode:
        try:
            T, cond = svd_T(ctx, case, B, ir, ie, with_scale_m)
            T = list(T)
        except Exception as e:
            if isinstance(e, ValueError) and scale_undefined(case, B):
                ctx.count("traj.observation.scale-undefined-raises")
                return
            ctx.fail(pub(case), f"svdstf-raises: svdstf raised {excs(e)}")
            return
    ts = float(np.abs(B["rp"][:, :3]).max()) + abs(T[7]) * float(np.abs(B["ep"][:, :3]).max()) * 2 + float(np.abs(np.array(T[:3])).max()) + 1e-300
    if mmode == 1:
        ts = 3 * ts
    tau = err_tol(case["etype"], ts)
    eline = (f"{to_wire(EPS64)} {ETYPES.index(case['etype'])} {mmode} {wire_list(T)} {to_wire(B['diff'])} {to_wire(B['off'])}")
    rs_m = B["rs_o"]
    es_m = B["es_o"]

    if dtype == "float32":   # float32 quaternions are unit only to eps32: formulas that agree on unit quaternions may differ
        tau = tau + 16 * EPS[dtype] * (1 + ts) * (180 / math.pi if case["etype"] == "degree" else 1)

    def cba(rep, vals=vals, tau=tau):
        st, toks = common.parse_reply(rep)
        if st != "ok":
            ctx.disagree("ape", pub(case), f"model replied {rep[:60]}, implementation returned statistics")
            return
        m = int(toks[0])
        w = [float(common.from_wire(t)) for t in toks[1:]]
        wst = w[m:]
        bad = stats_close(vals, wst, tau, m)
        if bad:
            i = STAT_KEYS.index(bad)
            ctx.disagree("ape", pub(case), f"ape etype={case['etype']} mode={mode} {m} pairs: {bad} implementation {vals[i]!r} model {wst[i]!r} (item tol {tau:.3e})")
    mb.add(f"c19.ape {eline} {traj_line(rs_m, B['rp'])} {traj_line(es_m, B['ep'])}", cba)
    # oracle: the documented definition evaluated independently (numpy float64) on the associated, aligned poses
    rp_a, ep_a = B["rp"][ir], B["ep"][ie]
    if mmode == 1:
        T0 = R.se3_mul((rp_a[0, :3], rp_a[0, 3:]), R.se3_inv((ep_a[0, :3], ep_a[0, 3:])))
        ea = R.left_mul(T0, ep_a)
    elif svd_mode:
        ea = R.apply_sim(T[7], np.array(T[3:7]), np.array(T[:3]), ep_a)
    else:
        ea = ep_a
    unit_slack0 = 16 * EPS[dtype] * (1 + ts) * (180 / math.pi if case["etype"] == "degree" else 1) if dtype == "float32" else 0.0
    want = np_stats(np_rel_errors(case["etype"], rp_a, ea, False))
    bad = stats_close(vals, want, 8 * tau + unit_slack0, n)
    if bad:
        i = STAT_KEYS.index(bad)
        ctx.fail(pub(case), f"ape-value: ape(etype={case['etype']}, mode={mode}) {bad} = {vals[i]!r}, the documented error over the {n} associated pairs gives {want[i]!r} (tol {8 * tau + unit_slack0:.3e})")
    if not abs(vals[5] - n * vals[4] ** 2) <= 64 * EPS64 * abs(vals[5]) + 1e-300:
        ctx.fail(pub(case), f"traj-stats: SSE {vals[5]!r} != n*RMSE^2 = {n * vals[4] ** 2!r} (n={n})")
    # single otype
    ot = case["otype"]
    try:
        one = run_metric(A.ape, B["rs"], B["rp"], B["es"], B["ep"], dtype, otype=ot, **kw)
        if not isinstance(one, torch.Tensor) or one.dim() != 0 or not (float(one) == float(res[ot]) or (math.isnan(float(one)) and math.isnan(float(res[ot])))):
            ctx.fail(pub(case), f"ape-otype: otype={ot!r} returned {one!r}, the dictionary entry is {res[ot]!r}")
    except Exception as e:
        ctx.fail(pub(case), f"ape-raises: ape(otype={ot!r}) raised {excs(e)}")
    eps_in = EPS[dtype]
    unit_slack = 16 * eps_in * (1 + ts) if dtype == "float32" else 0.0
    # oracle: identical trajectories -> zero statistics (every etype, this mode)
    rnd = random.Random(case["seed"] + 7)
    try:
        idres = run_metric(A.ape, B["rs"], B["rp"], B["rs"], B["rp"], dtype, **{**kw, "offset": 0.0})
        zv = stat_vals(idres)
        if not stats_finite(ctx, pub(case) | {"clause": "identical"}, f"ape(etype={case['etype']}, mode={mode}) of a trajectory with itself", zv, len(B["rp"]), known_matcher=d43_matcher):
            zv = None
        ztol = 4 * err_tol(case["etype"], 3 * float(np.abs(B["rp"][:, :3]).max()) + 1e-300) * (1e3 if svd_mode else 1) + unit_slack * (180 / math.pi if case["etype"] == "degree" else 1)
        if svd_mode and case.get("geom") == "near-line":       # ill-conditioned, NOT degenerate: rounding is amplified by 1/cond, nothing else is allowed
            Did = R.umeyama(B["rp"][:, :3], B["rp"][:, :3], False)[3]
            ztol = ztol * max(1.0, 1e-2 * float(Did[0]) / max(float(Did[1]), 1e-300))
            ctx.count("traj.near-line.identical")
        worst = nmax(abs(v) for kx, v in zip(STAT_KEYS, zv) if kx != "SSE" and not (kx == "STD" and math.isnan(v))) if zv is not None else 0.0
        if not worst <= ztol:
            ctx.fail(pub(case) | {"clause": "identical"}, f"ape-identical: identical trajectories give non-zero statistics (max |stat| {worst:.3e} > {ztol:.3e}) for etype={case['etype']} mode={mode}",
                     known_matcher=d43_matcher)
    except Exception as e:
        if isinstance(e, ValueError) and MODES[mode].get("scale") and bool((B["rp"][:, :3] == B["rp"][0, :3]).all()):
            ctx.count("traj.observation.scale-undefined-raises")
        else:
            ctx.fail(pub(case), f"ape-raises: ape raised on identical trajectories: {excs(e)}")
    # oracle: invariance of the aligned error under a transform of the estimate (ill-conditioned but not collinear: skipped)
    col = svd_mode and (collinear_exact(B["ep"][ie][:, :3], EPS[dtype]) or collinear_exact(B["rp"][ir][:, :3], EPS[dtype]))
    if col:
        ctx.count("traj.collinear")
    near = svd_mode and case.get("geom") == "near-line" and cond > 1e-11
    if mode != "none" and (not svd_mode or cond > 1e-2 or col or near):
        with_scale = with_scale_m
        s = math.exp(rnd.uniform(-1.2, 1.2)) if with_scale else 1.0
        G = (R.rand_unit(rnd) * (ts + 1) * rnd.choice([0.1, 1.0, 10.0]), R.rand_quat(rnd))
        ep2 = R.apply_sim(s, G[1], G[0], B["ep"])
        try:
            r2 = run_metric(A.ape, B["rs"], B["rp"], B["es"], ep2, "float64", **kw)
            ts2 = ts + s * float(np.abs(B["ep"][:, :3]).max()) + float(np.abs(G[0]).max())
            tau2 = err_tol(case["etype"], ts2) * (1e3 / max(cond, 1e-11 if near else 1e-2) if svd_mode else 16) + unit_slack * (180 / math.pi if case["etype"] == "degree" else 1)
            if not stats_finite(ctx, pub(case) | {"clause": "invariance"}, f"ape(etype={case['etype']}, mode={mode}) on a transformed estimate", stat_vals(r2), n, known_matcher=d43_matcher):
                return
            bad = stats_close(stat_vals(r2), vals, tau2, n)
            if bad:
                i = STAT_KEYS.index(bad)
                kind = "similarity" if with_scale else "rigid"
                ctx.fail(pub(case) | {"clause": "invariance"}, f"ape-invariance: ape(mode={mode}, etype={case['etype']}) changes under a {kind} transform of the estimate: {bad} {vals[i]!r} -> {stat_vals(r2)[i]!r} (tol {tau2:.3e}, {n} pairs)",
                         known_matcher=d43_matcher)
        except Exception as e:
            ctx.fail(pub(case), f"ape-raises: ape raised on the transformed estimate: {excs(e)}")
    # oracle: jitter / offset do not matter once the association is the same
    if B["rs"] is not None and case["stamps"] in ("jitter", "after", "before", "sub", "extra") and rnd.random() < 0.5:
        try:
            es_exact = B["rs_o"][ir] if len(set(ir)) == len(ir) else None
            if es_exact is not None:
                r3 = run_metric(A.ape, B["rs_o"][ir], B["rp"][ir], es_exact, B["ep"][ie], dtype, **{**kw, "offset": 0.0})
                bad = stats_close(stat_vals(r3), vals, 4 * tau + unit_slack, n)
                if bad:
                    i = STAT_KEYS.index(bad)
                    ctx.fail(pub(case), f"ape-assoc: ape on jittered/sub-sampled/offset stamps differs from ape on the explicitly associated pairs: {bad} {vals[i]!r} vs {stat_vals(r3)[i]!r}")
        except Exception as e:
            ctx.fail(pub(case), f"ape-raises: ape raised on pre-associated trajectories: {excs(e)}")
    check_rpe(ctx, case, mb, B, T if svd_mode else None, cond, ts, rnd)


def check_rpe(ctx: Ctx, case, mb: MB, B, Tsvd, cond, ts, rnd) -> None:
    A = AR()
    P = pp()
    dtype = case["dtype"]
    ir, ie = B["ir"], B["ie"]
    n = len(ir)
    rk = case["rpe"]
    kw = dict(etype=rk["etype"], diff=case["diff"], offset=case["offset"], associate=rk["associate"], delta=rk["delta"],
              rtol=rk["rtol"], all=rk["all"], rpair=rk["rpair"])
    mode = rk["mode"]
    kw.update(MODES[mode])
    mmode, with_scale_m = model_flags(ctx, mode)
    svd_mode = mmode == 2
    T = [0, 0, 0, 0, 0, 0, 1.0, 1.0]
    if svd_mode:
        try:
            T, cond = svd_T(ctx, case, B, ir, ie, with_scale_m)
            T = list(T)
        except Exception as e:
            if isinstance(e, ValueError) and scale_undefined(case, B, mode):
                ctx.count("traj.observation.scale-undefined-raises")
                return
            ctx.fail(pub(case), f"svdstf-raises: svdstf raised {excs(e)}")
            return
    # aligned estimate poses (independent float64) to decide the pairing and its margins
    rp_a = B["rp"][ir]
    ep_a = B["ep"][ie]
    if mmode == 1:
        T0 = R.se3_mul((rp_a[0, :3], rp_a[0, 3:]), R.se3_inv((ep_a[0, :3], ep_a[0, 3:])))
        ea = R.left_mul(T0, ep_a)
    elif svd_mode:
        ea = R.apply_sim(T[7], np.array(T[3:7]), np.array(T[:3]), ep_a)
    else:
        ea = ep_a
    src = rp_a if rk["rpair"] else ea
    if rk["associate"] == "frame":
        pairs, pmargin = R.pairs_frames_oracle(n, int(rk["delta"]), rk["all"]), math.inf
    else:
        pairs, pmargin = R.pairs_dist_oracle(src[:, :3], rk["delta"], rk["delta"] * rk["rtol"], rk["all"])
    if pmargin < 1e-6:
        ctx.count("traj.skip.pairmargin")
        return
    try:
        res = run_metric(A.rpe, B["rs"], B["rp"], B["es"], B["ep"], dtype, **kw)
    except AssertionError as e:
        if not pairs:
            ctx.count("rpe.assert.nopairs")
        else:
            ctx.fail(pub(case), f"rpe-raises: rpe raised {excs(e)} although {len(pairs)} pairs exist")
        return
    except Exception as e:
        if not pairs:
            ctx.count("rpe.raise.nopairs")
        else:
            ctx.fail(pub(case), f"rpe-raises: rpe raised {excs(e)}")
        return
    if not pairs:
        ctx.fail(pub(case), f"rpe-nopairs: rpe returned statistics although no index pair exists (associate={rk['associate']}, delta={rk['delta']}, all={rk['all']})")
        return
    if not isinstance(res, dict) or sorted(res) != sorted(STAT_KEYS):
        ctx.fail(pub(case), f"rpe-type: rpe returned {type(res).__name__}")
        return
    vals = stat_vals(res)
    m = len(pairs)
    if not stats_finite(ctx, pub(case), f"rpe(etype={rk['etype']}, mode={mode}, {rk['associate']}, delta={rk['delta']}, all={rk['all']})", vals, m):
        return
    case["_rvals"] = vals
    check_order(ctx, case, f"rpe etype={rk['etype']}", vals)
    ot = case["otype"]
    try:
        one = run_metric(A.rpe, B["rs"], B["rp"], B["es"], B["ep"], dtype, otype=ot, **kw)
        if not isinstance(one, torch.Tensor) or one.dim() != 0 or not (float(one) == float(res[ot]) or (math.isnan(float(one)) and math.isnan(float(res[ot])))):
            ctx.fail(pub(case), f"rpe-otype: otype={ot!r} returned {one!r}, the dictionary entry is {res[ot]!r}")
    except Exception as e:
        ctx.fail(pub(case), f"rpe-raises: rpe(otype={ot!r}) raised {excs(e)}")
    # discrete: pair ids of the real pair_id on the aligned trajectory
    try:
        with warnings.catch_warnings():
            warnings.simplefilter("ignore")
            st = A.StampedSE3(None, se3t(src))
            gp = A.pair_id(st, rk["delta"], rk["associate"], rk["rtol"], rk["all"])
        gp = list(zip(list(gp[0]), list(gp[1])))
        if gp != pairs:
            ctx.fail(pub(case), f"rpe-pairs: pair_id(associate={rk['associate']}, delta={rk['delta']}, all={rk['all']}) returned {gp[:6]}… the documented pairing is {pairs[:6]}… ({len(gp)} vs {len(pairs)})")

        def cbp(rep, gp=gp):
            st_, toks = common.parse_reply(rep)
            w = [int(t) for t in toks] if st_ == "ok" else None
            if w != [x for p in gp for x in p]:
                ctx.disagree("pairs", pub(case), f"pair_id: implementation {gp[:5]}… model {w[:10] if w is not None else rep[:40]}…")
        mb.add(f"c19.pairs {0 if rk['associate'] == 'frame' else 1} {int(rk['delta'])} {to_wire(rk['delta'])} {to_wire(rk['rtol'])} "
               f"{1 if rk['all'] else 0} {len(src)} " + wire_list(src.flatten().tolist()), cbp)
    except Exception as e:
        ctx.fail(pub(case), f"traj-raises: pair_id raised {excs(e)}")
    tsr = 2 * (float(np.abs(rp_a[:, :3]).max()) + float(np.abs(ea[:, :3]).max())) + 1e-300
    tau = err_tol(rk["etype"], tsr)
    eline = (f"{to_wire(EPS64)} {ETYPES.index(rk['etype'])} {mmode} {wire_list(T)} {to_wire(B['diff'])} {to_wire(B['off'])} "
             f"{0 if rk['associate'] == 'frame' else 1} {int(rk['delta'])} {to_wire(rk['delta'])} {to_wire(rk['rtol'])} {1 if rk['all'] else 0} {1 if rk['rpair'] else 0}")

    if dtype == "float32":
        tau = tau + 16 * EPS[dtype] * (1 + tsr) * (180 / math.pi if rk["etype"] == "degree" else 1)

    def cbr(rep, vals=vals, tau=tau):
        st_, toks = common.parse_reply(rep)
        if st_ != "ok":
            ctx.disagree("rpe", pub(case), f"model replied {rep[:60]}, implementation returned statistics")
            return
        mm = int(toks[0])
        w = [float(common.from_wire(t)) for t in toks[1:]]
        bad = stats_close(vals, w[mm:], tau, mm)
        if bad:
            i = STAT_KEYS.index(bad)
            ctx.disagree("rpe", pub(case), f"rpe etype={rk['etype']} mode={mode} {rk['associate']} delta={rk['delta']} all={rk['all']} rpair={rk['rpair']} ({mm} pairs): {bad} implementation {vals[i]!r} model {w[mm:][i]!r} (item tol {tau:.3e})")
    mb.add(f"c19.rpe {eline} {traj_line(B['rs_o'], B['rp'])} {traj_line(B['es_o'], B['ep'])}", cbr)
    unit_slack = 16 * EPS[dtype] * (1 + tsr) * (180 / math.pi if rk["etype"] == "degree" else 1) if dtype == "float32" else 0.0
    # oracle: the documented definition evaluated independently on the relative poses of the index pairs
    si, ti = [p[0] for p in pairs], [p[1] for p in pairs]

    def rel(A_):
        out = []
        for a_, b_ in zip(A_[si], A_[ti]):
            out.append(R.se3_vec(R.se3_mul(R.se3_inv((a_[:3], a_[3:])), (b_[:3], b_[3:]))))
        return np.stack(out)
    want = np_stats(np_rel_errors(rk["etype"], rel(rp_a), rel(ea), True))
    bad = stats_close(vals, want, 8 * tau + unit_slack, m)
    if bad:
        i = STAT_KEYS.index(bad)
        diag = ""
        try:        # diagnostics: is the implementation's own result reproducible, and which transform did the two svdstf calls return
            again = stat_vals(run_metric(A.rpe, B["rs"], B["rp"], B["es"], B["ep"], dtype, **kw))[i]
            diag = f"; a second identical call gives {again!r}"
            if svd_mode:
                T2 = svd_T(ctx, case, B, ir, ie, with_scale_m)[0]
                diag += f"; svdstf returned {[float(x) for x in T]} / on a second call {[float(x) for x in T2]}"
        except Exception as e:
            diag = f"; (diagnostic re-run raised {excs(e)})"
        ctx.fail(pub(case), f"rpe-value: rpe(etype={rk['etype']}, mode={mode}, {rk['associate']}, delta={rk['delta']}, all={rk['all']}, rpair={rk['rpair']}) {bad} = {vals[i]!r}, the documented error over the {m} index pairs gives {want[i]!r} (tol {8 * tau + unit_slack:.3e}){diag}")
    if not abs(vals[5] - m * vals[4] ** 2) <= 64 * EPS64 * abs(vals[5]) + 1e-300:
        ctx.fail(pub(case), f"traj-stats: SSE {vals[5]!r} != n*RMSE^2 = {m * vals[4] ** 2!r} (n={m})")
    # oracle: identical trajectories
    try:
        idres = run_metric(A.rpe, B["rs"], B["rp"], B["rs"], B["rp"], dtype, **{**kw, "offset": 0.0})
        zv = stat_vals(idres)
        ztol = 4 * err_tol(rk["etype"], 4 * float(np.abs(B["rp"][:, :3]).max()) + 1e-300) * (1e3 if svd_mode else 1) + unit_slack
        if svd_mode and case.get("geom") == "near-line":       # ill-conditioned, NOT degenerate: rounding is amplified by 1/cond, nothing else is allowed
            Did = R.umeyama(B["rp"][:, :3], B["rp"][:, :3], False)[3]
            ztol = ztol * max(1.0, 1e-2 * float(Did[0]) / max(float(Did[1]), 1e-300))
            ctx.count("traj.near-line.identical")
        m_id = len(R.pairs_frames_oracle(len(B["rp"]), int(rk["delta"]), rk["all"]) if rk["associate"] == "frame" else
                   R.pairs_dist_oracle(B["rp"][:, :3], rk["delta"], rk["delta"] * rk["rtol"], rk["all"])[0])
        if not stats_finite(ctx, pub(case), f"rpe(etype={rk['etype']}, mode={mode}) of a trajectory with itself", zv, m_id):
            return
        worst = nmax(abs(v) for kx, v in zip(STAT_KEYS, zv) if kx != "SSE" and not (kx == "STD" and math.isnan(v)))
        if not worst <= ztol:
            ctx.fail(pub(case), f"rpe-identical: identical trajectories give non-zero statistics (max |stat| {worst:.3e} > {ztol:.3e}), etype={rk['etype']} mode={mode}")
    except (AssertionError, IndexError):
        pass
    except Exception as e:
        ctx.fail(pub(case), f"rpe-raises: rpe raised on identical trajectories: {excs(e)}")
    # oracle (pass 7, theorems rpeCore_align_invariant_partial / rpeCore_left_invariant_svd): with svd alignment rpe does not change under a
    # rigid (scale: similarity) transform of the estimate. Collinear positions included: the free rotation about the line cancels in
    # every relative pose (rpe is not affected by D43); only ill-conditioned NON-collinear sets (other than near-line) are skipped.
    col_r = svd_mode and (collinear_exact(B["ep"][ie][:, :3], EPS[dtype]) or collinear_exact(B["rp"][ir][:, :3], EPS[dtype]))
    near_r = svd_mode and case.get("geom") == "near-line" and cond > 1e-11
    if svd_mode and (cond > 1e-2 or col_r or near_r) and not scale_undefined(case, B, mode):
        s_ = math.exp(rnd.uniform(-1.2, 1.2)) if with_scale_m else 1.0
        G = (R.rand_unit(rnd) * (ts + 1) * rnd.choice([0.1, 1.0, 10.0]), R.rand_quat(rnd))
        ep2 = R.apply_sim(s_, G[1], G[0], B["ep"])
        try:
            r2 = run_metric(A.rpe, B["rs"], B["rp"], B["es"], ep2, "float64", **kw)
            v2 = stat_vals(r2)
            if stats_finite(ctx, pub(case), f"rpe(etype={rk['etype']}, mode={mode}) on a transformed estimate", v2, m):
                tsr2 = tsr + s_ * float(np.abs(B["ep"][:, :3]).max()) + float(np.abs(G[0]).max())
                tau2 = err_tol(rk["etype"], tsr2) * 1e3 / (1.0 if col_r else max(cond, 1e-11 if near_r else 1e-2)) + unit_slack
                bad = stats_close(v2, vals, tau2, m)
                ctx.count("rpe.svd-invariance")
                if bad:
                    i = STAT_KEYS.index(bad)
                    ctx.fail(pub(case), f"rpe-invariance: rpe(etype={rk['etype']}, mode={mode}, {rk['associate']}, all={rk['all']}, rpair={rk['rpair']}) changes under a "
                                        f"{'similarity' if with_scale_m else 'rigid'} transform of the estimate: {bad} {vals[i]!r} -> {v2[i]!r} (tol {tau2:.3e}, {m} pairs)")
        except Exception as e:
            ctx.fail(pub(case), f"rpe-raises: rpe raised on the transformed estimate: {excs(e)}")
    # oracle: invariance under left multiplication of either trajectory by a fixed pose (no svd alignment)
    if not svd_mode:
        G = (R.rand_unit(rnd) * (ts + 1) * rnd.choice([0.1, 1.0, 10.0]), R.rand_quat(rnd))
        H = (R.rand_unit(rnd) * (ts + 1) * rnd.choice([0.1, 1.0, 10.0]), R.rand_quat(rnd))
        which = rnd.choice(["ref", "est", "both"])
        rp2 = R.left_mul(G, B["rp"]) if which in ("ref", "both") else B["rp"]
        ep2 = R.left_mul(H, B["ep"]) if which in ("est", "both") else B["ep"]
        try:
            r2 = run_metric(A.rpe, B["rs"], rp2, B["es"], ep2, "float64", **kw)
            tsr2 = tsr + 2 * (float(np.abs(G[0]).max()) + float(np.abs(H[0]).max()))
            tau2 = 16 * err_tol(rk["etype"], tsr2) + unit_slack
            bad = stats_close(stat_vals(r2), vals, tau2, m)
            if bad:
                i = STAT_KEYS.index(bad)
                ctx.fail(pub(case), f"rpe-invariance: rpe(etype={rk['etype']}, mode={mode}, {rk['associate']}, all={rk['all']}, rpair={rk['rpair']}) changes when the {which} trajectory is left-multiplied by a fixed pose: {bad} {vals[i]!r} -> {stat_vals(r2)[i]!r} (tol {tau2:.3e})")
        except Exception as e:
            ctx.fail(pub(case), f"rpe-raises: rpe raised on left-multiplied trajectories: {excs(e)}")


def gen_traj_cases(ctx: Ctx, n: int):
    rng = ctx.rng
    cases = []
    for i in range(n):
        c = rng.random()
        M = rng.randint(3, 8) if c < 0.3 else (rng.randint(9, 40) if c < 0.85 else rng.randint(41, 120 if ctx.quick else 200))
        if rng.random() < 0.5:
            dt = rng.choice([0.033, 0.1, 1.0])
            diff = 0.01 if dt >= 0.1 else dt / 12
        else:   # kind 18: stamp spacing / max_diff from 0.3 to 100
            diff = rng.choice([0.01, 0.01, 0.05, 0.8])
            ratio = rng.choice(SPACING_RATIOS) if rng.random() < 0.6 else 10 ** rng.uniform(math.log10(0.3), 2)
            dt = ratio * diff
        ts = rng.choice([1e-2, 1.0, 1.0, 50.0])
        assoc = rng.choice(["frame", "distance"])
        if assoc == "frame":
            delta = float(rng.choice([1, 1, 2, 3, 2.7]))
        else:
            delta = ts * rng.uniform(0.5, 3.0)
        cases.append({"kind": "traj", "dtype": rng.choice(["float64", "float64", "float64", "float32"]), "M": M, "tscale": ts,
                      "tstep": ts * rng.choice([0.2, 1.0]), "rot": rng.choice([0.0, 1e-3, 0.1, 0.5, 1.5]),
                      "est": rng.choice(["noisy", "noisy", "transformed", "identical", "independent", "regimes"]),
                      "noise": rng.choice([1e-6, 1e-2, 0.3]),
                      "stamps": rng.choice(["none", "same", "jitter", "after", "before", "sub", "extra", "unmatched"]),
                      "none_shorter": rng.random() < 0.3, "t0": rng.choice([0.0, 100.0, 1311868163.87]), "dt": dt, "diff": diff,
                      "offset": rng.choice([0.0, 0.0, 0.5, -3.25]), "etype": rng.choice(ETYPES),
                      "mode": rng.choice(["none", "origin", "align", "scale", "align+scale", "align", "align+scale", "align+origin", "scale+origin", "align+scale+origin"]),
                      "otype": rng.choice(STAT_KEYS),
                      "rpe": {"etype": rng.choice(ETYPES), "mode": rng.choice(["none", "none", "origin", "align", "align+scale"]),
                              "associate": assoc, "delta": delta, "rtol": rng.choice([0.1, 0.3, 0.02]),
                              "all": rng.random() < 0.5, "rpair": rng.random() < 0.5},
                      "seed": rng.randrange(1 << 30)})
        if rng.random() < 0.12:       # degenerate position geometry (D43 class)
            cases[-1]["geom"] = rng.choice(["line", "line", "line-rounded", "two", "one"])
        if cases[-1]["stamps"] == "none":
            cases[-1]["offset"] = 0.0
    return cases


def run_traj(ctx: Ctx, mb: MB, n: int):
    for case in gen_traj_cases(ctx, n):
        check_traj(ctx, case, mb)
        ctx.note_case(("traj", case["dtype"], case["M"], case["est"], case["stamps"], case["etype"], case["mode"], case["offset"],
                       case["rpe"]["etype"], case["rpe"]["associate"], case["rpe"]["all"], case["rpe"]["rpair"], case["rpe"]["mode"]),
                      case["est"] != "identical")
        ctx.count(f"ape.{case['etype']}.{case['mode']}")
        ctx.count(f"rpe.{case['rpe']['associate']}.{'all' if case['rpe']['all'] else 'consecutive'}")
        ctx.count(f"stamps.{case['stamps']}")
        ctx.sample({"stream": "traj", **pub(case)}, cap=30)


# ============================================================================= hardening: corpus, histories, stale reads, views

def corpus_chs():
    c = []
    sd = CORPUS_SEED
    base = dict(kind="chs", scale=1.0, pts="randn")
    for i, (N, D, batch, iv, dt_, pts) in enumerate([
            (2, 1, [], 1 - 2 ** -53, "float64", "randn"), (2, 6, [2], 0.999, "float32", "randn"), (60, 6, [2], 0.1, "float64", "randn"),
            (60, 1, [], 0.5, "float32", "lattice"), (5, 7, [], 0.25, "float64", "randn"), (4, 3, [2, 1, 2], 0.3, "float64", "randn"),
            (3, 2, [], 0.004, "float64", "randn"), (4, 2, [], 2 ** -7, "float32", "randn"), (6, 3, [], 1 / 3, "float64", "randn"),
            (6, 3, [], 1 / 7, "float32", "randn"), (9, 2, [], 0.3333333333333332, "float64", "randn"), (7, 6, [3], 0.4, "float64", "extreme"),
            (7, 6, [3], 0.4, "float32", "extreme"), (12, 4, [2, 3], 0.15, "float64", "mixed"), (3, 1, [1], 0.7, "float64", "steps"),
            (8, 2, [], 0.45, "float64", "const"), (8, 2, [], 0.45, "float64", "line"), (5, 3, [], 0.6, "float64", "lattice"),
            (3, 3, [3], 0.5, "float64", "randn"), (3, 3, [3, 3], 0.3, "float32", "randn"), (4, 4, [4], 0.25, "float64", "randn"),
            (7, 1, [7], 0.4, "float64", "randn"), (2, 2, [2, 2], 0.5, "float64", "randn"), (5, 5, [1, 5], 0.2, "float64", "randn")]):
        c.append({**base, "N": N, "D": D, "batch": batch, "interval": iv, "dtype": dt_, "pts": pts, "seed": sd + 100 + i})
    j = 0
    for n_ in (2, 3, 4, 5, 7, 10, 13):        # round 5 (class 36): interval = (1/n)(1 +- 1e-14 … 1e-6) — the grid size must follow ceil(fl(1/interval)) exactly
        for dl in (1e-6, 1e-9, 1e-12, 1e-14):
            for sg in (-1, 1):
                c.append({**base, "N": 3 + j % 3, "D": 1 + j % 2, "batch": [], "interval": (1 / n_) * (1 + sg * dl), "dtype": "float64", "pts": "randn",
                          "seed": sd + 150 + j})
                j += 1
    return c


def corpus_bs():
    c = []
    sd = CORPUS_SEED
    for i, (N, batch, iv, ex, gen, rot, ts, dt_, flip) in enumerate([
            (4, [], 0.5, False, "walk", 0.5, 1.0, "float64", False), (4, [], 1 / 3, False, "random", 0.0, 1.0, "float64", False),
            (1, [], 0.5, True, "walk", 0.5, 1.0, "float64", False), (2, [], 0.1, True, "walk", 1.0, 1.0, "float32", False),
            (3, [2], 0.3, True, "walk", 2.0, 100.0, "float64", True), (60, [], 0.5, False, "walk", 0.3, 1.0, "float64", False),
            (60, [], 0.5, True, "twist", 0.05, 1.0, "float64", False), (5, [], 0.02, False, "walk", 0.7, 1.0, "float64", False),
            (5, [], 0.999, False, "walk", 0.7, 1.0, "float64", False), (6, [9], 0.4, False, "mixed", 0.0, 1.0, "float64", False),
            (6, [9], 0.4, True, "mixed", 0.0, 1.0, "float32", False), (7, [3, 3], 0.25, True, "mixed", 0.0, 1.0, "float64", True),
            (6, [], 0.3, False, "walk", 1e-16, 1.0, "float64", False), (6, [], 0.3, False, "walk", 2.3e-16, 1e-6, "float64", False),
            (6, [], 0.3, False, "walk", 1e-10, 1e4, "float64", False), (6, [], 0.3, False, "walk", 0.0, 0.0, "float64", False),
            (6, [], 0.3, False, "walk", 3.1, 1.0, "float64", False), (8, [], 0.3, False, "twist", math.pi - 0.1, 1e4, "float64", False),
            (8, [], 0.3, True, "twist", 1e-10, 1e-6, "float64", False), (8, [], 0.3, False, "twist", 1.2e-7, 1.0, "float32", False),
            (9, [2], 0.6, False, "repeat", 0.5, 1.0, "float64", True), (3, [], 0.5, False, "walk", 0.5, 1.0, "float64", False),
            (7, [7], 0.5, False, "walk", 0.5, 1.0, "float64", False), (7, [3, 7], 0.5, True, "walk", 0.5, 1.0, "float64", False),
            (4, [4], 0.5, False, "walk", 0.5, 1.0, "float32", False), (3, [3], 0.5, True, "walk", 0.5, 1.0, "float64", False),
            (6, [6], 0.5, False, "mixed", 0.0, 1.0, "float64", False), (7, [7, 3], 0.4, False, "mixed", 0.0, 1.0, "float64", False),
            (4, [1], 0.5, False, "walk", 0.5, 1.0, "float64", False), (5, [1, 1], 0.5, True, "walk", 0.5, 1.0, "float64", False)]):
        c.append({"kind": "bs", "dtype": dt_, "N": N, "batch": batch, "interval": iv, "extrapolate": ex, "gen": gen, "rot": rot,
                  "tscale": ts, "flip": flip, "continuity": 2 if i % 3 == 0 else 0, "seed": sd + 200 + i})
    j = 0
    for n_ in (2, 4, 5, 10):                  # round 5 (class 36): intervals nearly 1/n, control poses nearly equal
        for dl in (1e-9, 1e-13):
            for sg in (-1, 1):
                c.append({"kind": "bs", "dtype": "float64", "N": 4 + j % 2, "batch": [], "interval": (1 / n_) * (1 + sg * dl), "extrapolate": bool(j % 2), "gen": "walk",
                          "rot": 0.4, "tscale": 1.0, "flip": False, "continuity": 0, "seed": sd + 260 + j})
                j += 1
    for (gen, rot, ts) in (("walk", 1e-9, 1e-9), ("walk", 1e-7, 1e-6), ("walk", 1e-5, 1e-5), ("twist", 1e-8, 1e-8), ("twist", 1e-6, 1.0), ("walk", 1e-12, 1e-12)):
        c.append({"kind": "bs", "dtype": "float64", "N": 6, "batch": [], "interval": 0.25, "extrapolate": bool(j % 2), "gen": gen, "rot": rot, "tscale": ts,
                  "flip": False, "continuity": 0, "seed": sd + 260 + j})
        j += 1
    return c


def corpus_geo():
    c = []
    shapes = [([], []), ([3], [3]), ([2, 3], [3]), ([1], [4]), ([2, 1], [1, 3]), ([5], []), ([4], [4]), ([7], [7]), ([3, 4], [4]),
              ([7, 3], [7, 1]), ([3, 3], [3, 3])]
    i = 0
    for dt_ in ("float64", "float32"):
        for tx in GEO_TYPES:
            sx, sy = shapes[i % len(shapes)]
            c.append({"kind": "geo", "dtype": dt_, "type_x": tx, "type_y": GEO_TYPES[(i * 3 + 1) % 8] if i % 2 else tx, "shape_x": sx,
                      "shape_y": sy, "reduction": ["none", "mean", "sum"][i % 3], "api": ["fn", "module"][i % 2], "seed": CORPUS_SEED + 300 + i})
            i += 1
    return c


def traj_case(i, **kw):
    base = {"kind": "traj", "dtype": "float64", "M": 8, "tscale": 1.0, "tstep": 1.0, "rot": 0.3, "est": "noisy", "noise": 1e-2,
            "stamps": "jitter", "none_shorter": False, "t0": 100.0, "dt": 0.1, "diff": 0.01, "offset": 0.0, "etype": "translation",
            "mode": "none", "otype": STAT_KEYS[i % 7],
            "rpe": {"etype": ETYPES[i % 5], "mode": "none", "associate": "frame", "delta": 1.0, "rtol": 0.1, "all": False, "rpair": False},
            "seed": CORPUS_SEED + 400 + i}
    rk = kw.pop("rpe", None)
    base.update(kw)
    if rk:
        base["rpe"] = {**base["rpe"], **rk}
    return base


def corpus_traj(quick=False):
    c = []
    i = 0
    for et in ETYPES:                       # every error type x every alignment mode
        for mode in MODES:
            c.append(traj_case(i, etype=et, mode=mode, M=7 + i % 5, est=["noisy", "transformed", "regimes"][i % 3],
                               stamps=["jitter", "same", "sub", "extra", "unmatched", "none"][i % 6],
                               rpe={"mode": ["none", "origin", "align", "align+scale"][i % 4], "associate": ["frame", "distance"][i % 2],
                                    "delta": [1.0, 2.0, 1.7, 0.9][i % 4], "all": bool(i % 2), "rpair": bool((i // 2) % 2)}))
            i += 1
    for r_i, ratio in enumerate(SPACING_RATIOS):           # kind 18: spacing / max_diff ladder x stamp kinds x offsets
        for s_i, stamps in enumerate(["after", "before", "jitter", "sub", "extra", "unmatched"]):
            if (r_i + s_i) % 2:
                continue
            diff = [0.01, 0.8, 0.05][(r_i + s_i) % 3]
            c.append(traj_case(i, M=10 + (r_i * 7 + s_i * 3) % 17, dt=ratio * diff, diff=diff, stamps=stamps,
                               est=["identical", "noisy"][(r_i + s_i) % 2], offset=[0.0, 0.5, -3.25][(r_i + 2 * s_i) % 3],
                               t0=[100.0, 0.0, 1311868163.87][s_i % 3] if diff >= 0.05 or s_i % 3 < 2 else 100.0,
                               etype=ETYPES[(r_i + s_i) % 5], mode=["none", "origin", "align"][s_i % 3],
                               rpe={"associate": "frame", "delta": 1.0 + (s_i % 2), "all": bool(r_i % 2)}))
            i += 1
    gi = 0
    for geom in ("line", "line-rounded", "two", "one"):     # pass 5: degenerate position geometry x svd modes x every error type
        for mode in ("align", "align+scale", "scale", "align+origin", "none", "origin"):
            for est in ("identical", "noisy", "transformed"):
                if ((gi % 3) and mode in ("none", "origin")) or (quick and geom != "line" and mode in ("scale", "align+origin") and est != "transformed") \
                        or (quick and est == "noisy" and mode not in ("align", "align+scale")):
                    gi += 1
                    continue
                c.append(traj_case(i, M=4 + (gi * 5) % 9, geom=geom, mode=mode, est=est, etype=ETYPES[gi % 5], noise=[1e-2, 0.3][gi % 2],
                                   dtype=["float64", "float64", "float32"][gi % 3], stamps=["jitter", "same", "sub", "none"][gi % 4],
                                   tscale=[1.0, 50.0, 1e-2][gi % 3],
                                   rpe={"mode": ["align", "align+scale", "none"][gi % 3], "etype": ETYPES[(gi + 2) % 5], "all": bool(gi % 2),
                                        "associate": ["frame", "distance"][(gi // 2) % 2], "delta": [1.0, 2.0, 1.7][gi % 3]}))
                i += 1
                gi += 1
    for dv_i, dev in enumerate((1e-3, 1e-5) if quick else (1e-3, 1e-4, 1e-5, 1e-6)):    # round 5 (class 36): nearly collinear positions — NOT D43: every error type must hold
        for m_i, mode in enumerate(("align", "align+scale")):
            for e_i, est in enumerate(("identical", "transformed", "noisy")):
                gi = dv_i * 6 + m_i * 3 + e_i
                if quick and (dv_i + m_i + e_i) % 2:
                    continue
                c.append(traj_case(i, M=5 + gi % 6, geom="near-line", dev=dev, mode=mode, est=est, etype=ETYPES[gi % 5], noise=1e-2,
                                   stamps=["jitter", "same", "none"][gi % 3], tscale=[1.0, 20.0][gi % 2],
                                   rpe={"mode": ["align", "align+scale"][gi % 2], "etype": ETYPES[(gi + 3) % 5], "all": True}))
                i += 1
    for nz_i, nz in enumerate((1e-11, 1e-7) if quick else (1e-12, 1e-10, 1e-9, 1e-8, 1e-7, 1e-6, 1e-5)):     # class 36: nearly identical trajectories, every error type
        for et in ETYPES:
            c.append(traj_case(i, M=6 + nz_i, est="noisy", noise=nz, etype=et, mode=["none", "origin", "align", "align+scale"][(nz_i + ETYPES.index(et)) % 4],
                               stamps=["jitter", "same"][nz_i % 2], rpe={"etype": et, "all": True, "mode": ["none", "align"][nz_i % 2]}))
            i += 1
    for M_ in (3, 4, 7, 8):                                  # kind 16: lengths equal to the translation / quaternion / pose dimensions
        for mode in ("align", "align+scale", "scale+origin", "align+scale+origin"):
            c.append(traj_case(i, M=M_, mode=mode, etype=ETYPES[i % 5], stamps="jitter", rpe={"mode": "align+scale", "all": True}))
            i += 1
    for kw in (dict(M=3), dict(M=200, dt=0.033, diff=0.033 / 12), dict(tscale=1e-6, tstep=1e-6), dict(tscale=1e4, tstep=1e4),
               dict(t0=1311868163.87, offset=0.5, stamps="sub"), dict(offset=-3.25, stamps="extra"), dict(offset=1000.0, stamps="jitter"),
               dict(dtype="float32", est="transformed", mode="align+scale", etype="pose"), dict(est="identical", mode="align", etype="radian"),
               dict(est="regimes", M=60, etype="radian", rpe={"etype": "degree"}), dict(est="regimes", M=60, etype="rotation", mode="origin"),
               dict(est="regimes", M=33, etype="pose", mode="align"), dict(est="independent", etype="degree", mode="scale"),
               dict(rot=0.0, est="noisy", mode="align", etype="translation"), dict(rot=1.5, tstep=0.2, mode="align+scale"),
               dict(stamps="none", none_shorter=True), dict(rpe={"associate": "distance", "delta": 1e6}),
               dict(rpe={"associate": "frame", "delta": 50.0}), dict(rpe={"associate": "distance", "delta": 0.8, "all": True, "rpair": True, "rtol": 0.3}),
               dict(rpe={"associate": "frame", "delta": 2.7, "all": True})):
        c.append(traj_case(i, **kw))
        i += 1
    return c


def run_corpus(ctx: Ctx, mb: MB):
    """class 2: deterministic corner corpus + exhaustive length sweeps, identical for every seed, run FIRST"""
    for fn, cases, tag in ((check_chs, corpus_chs() + sweep_chs_cases(ctx), "chs"), (check_bs, corpus_bs() + sweep_bs_cases(ctx), "bs"),
                           (check_geo, corpus_geo(), "geo"), (check_traj, corpus_traj(ctx.quick), "traj")):
        for case in cases:
            fn(ctx, case, mb)
            ctx.note_case(("corpus", tag, json_sig(case)), True)
            ctx.count(f"corpus.{tag}")


def json_sig(case):
    import json
    return json.dumps(pub(case), sort_keys=True, default=str)


def same_bits(a, b):
    a = a.tensor() if hasattr(a, "ltype") else a
    b = b.tensor() if hasattr(b, "ltype") else b
    return isinstance(a, torch.Tensor) and isinstance(b, torch.Tensor) and a.shape == b.shape and a.dtype == b.dtype and \
        torch.equal(torch.nan_to_num(a, nan=1234.5), torch.nan_to_num(b, nan=1234.5))


def run_history(ctx: Ctx, mb: MB):
    """class 4: the functions (and the one GeodesicLoss object) are called in long sequences in which consecutive calls differ
    in exactly one per-call argument (dtype, interval with the SAME sample count, interval, N, batch, extrapolate, data, options);
    every call is fully checked (model + oracles) and repeating the first call at the end must reproduce it bit for bit"""
    sd = CORPUS_SEED + 500
    # --- chspline
    b0 = {"kind": "chs", "dtype": "float64", "N": 6, "D": 2, "batch": [], "interval": 0.3, "pts": "randn", "scale": 1.0, "seed": sd}
    seq = [b0, {**b0, "dtype": "float32"}, b0, {**b0, "interval": 0.26}, {**b0, "interval": 0.3}, {**b0, "interval": 0.45}, {**b0, "N": 7},
           {**b0, "D": 3}, {**b0, "batch": [2]}, {**b0, "seed": sd + 1}, {**b0, "scale": 1e3}, {**b0, "pts": "line"}, b0]
    first = None
    for i, c in enumerate(seq + seq[::-1]):        # kind 17: the same calls again in the opposite order
        c = dict(c)
        check_chs(ctx, c, mb)
        ctx.note_case(("history", "chs", i), True)
        ctx.count("history.chs")
        if i == 0:
            first = c.get("_out")
        elif c == {**seq[0], **{k_: v_ for k_, v_ in c.items() if k_.startswith("_")}} and first is not None and not same_bits(first, c.get("_out")):
            ctx.fail(pub(c) | {"history": "chs", "step": i}, "history-repeat: chspline called again with the arguments of the first call (after calls with other dtype / interval / N / D / batch / data) returns different bits")
    # --- bspline
    b0 = {"kind": "bs", "dtype": "float64", "N": 6, "batch": [], "interval": 0.3, "extrapolate": False, "gen": "walk", "rot": 0.6,
          "tscale": 1.0, "flip": False, "continuity": 0, "seed": sd + 10}
    seq = [b0, {**b0, "dtype": "float32"}, b0, {**b0, "interval": 0.26}, {**b0, "interval": 0.3}, {**b0, "interval": 0.45},
           {**b0, "interval": 0.26, "dtype": "float32"}, {**b0, "N": 7}, {**b0, "batch": [2]}, {**b0, "extrapolate": True},
           {**b0, "extrapolate": True, "N": 2}, {**b0, "seed": sd + 11}, {**b0, "gen": "twist", "rot": 1.0}, {**b0, "tscale": 1e4}, b0]
    first = None
    for i, c in enumerate(seq + seq[::-1]):
        c = dict(c)
        check_bs(ctx, c, mb)
        ctx.note_case(("history", "bs", i), True)
        ctx.count("history.bs")
        if i == 0:
            first = c.get("_out")
        elif c == {**seq[0], **{k_: v_ for k_, v_ in c.items() if k_.startswith("_")}} and first is not None and not same_bits(first, c.get("_out")):
            ctx.fail(pub(c) | {"history": "bs", "step": i}, "history-repeat: bspline called again with the arguments of the first call (after calls with other dtype / interval / N / batch / extrapolate / data) returns different bits")
    # --- geodesic: one module object per reduction through types, dtypes, shapes
    g0 = {"kind": "geo", "dtype": "float64", "type_x": "SO3", "type_y": "SO3", "shape_x": [3], "shape_y": [3], "reduction": "mean",
          "api": "module", "seed": sd + 20}
    for i, c in enumerate([g0, {**g0, "dtype": "float32"}, {**g0, "type_x": "Sim3", "type_y": "se3"}, {**g0, "shape_x": [2, 3], "shape_y": [1]},
                           {**g0, "reduction": "sum"}, {**g0, "reduction": "none"}, {**g0, "api": "fn"}, g0]):
        check_geo(ctx, dict(c), mb)
        ctx.note_case(("history", "geo", i), True)
        ctx.count("history.geo")
    # --- ape / rpe: one data set, every option varied call after call, first call repeated at the end
    t0 = traj_case(900, M=12, stamps="sub", offset=0.5)
    seq = [t0] + [traj_case(900, M=12, stamps="sub", offset=0.5, etype=et, mode=mode, otype=STAT_KEYS[(j * 3) % 7],
                            rpe={"etype": ETYPES[(j + 2) % 5], "mode": ["none", "origin", "align", "align+scale"][j % 4],
                                 "associate": ["frame", "distance"][j % 2], "delta": [1.0, 2.0, 1.3][j % 3], "all": bool(j % 2), "rpair": bool(j % 3 == 0)})
                  for j, (et, mode) in enumerate([(e_, m_) for e_ in ETYPES for m_ in ("none", "origin", "align", "scale", "align+scale")][::2])] + [t0]
    first = None
    for i, c in enumerate(seq):
        c = dict(c)
        c["seed"] = t0["seed"]
        check_traj(ctx, c, mb)
        ctx.note_case(("history", "traj", i), True)
        ctx.count("history.traj")
        v = (c.get("_vals"), c.get("_rvals"))
        if i == 0:
            first = v
        elif i == len(seq) - 1 and first is not None and first[0] is not None:
            if repr(first) != repr(v):
                ctx.fail(pub(c) | {"history": "traj", "step": i}, f"history-repeat: ape/rpe repeated with the first call's arguments after {len(seq) - 2} calls with other options gives other statistics: {first} vs {v}")


def stale_check(ctx, case, name, call, update_names_fns):
    """class 5: call, update the caller's tensors IN PLACE, call again: the second result must be the one a fresh clone gives"""
    try:
        call(False)                                    # first read (a cache would be filled here)
        for uname, upd in update_names_fns:
            upd()
            got, ref = call(False), call(True)
            ctx.note_case(("stale", name, uname), True)
            ctx.count(f"stale.{name}")
            ok = all(same_bits(g, r) for g, r in zip(got, ref)) and len(got) == len(ref)
            if not ok:
                ctx.fail(case | {"update": uname}, f"stale: {name} after the in-place update '{uname}' of its argument differs from the same call on fresh clones of the updated arguments")
                return
    except Exception as e:
        ctx.fail(case, f"stale-raises: {name} raised in the in-place update probe: {excs(e)}")


def run_stale(ctx: Ctx):
    P = pp()
    A = AR()
    rnd = random.Random(CORPUS_SEED + 600)
    for dtype in ("float64", "float32"):
        D_ = DT[dtype]
        # chspline
        pts = torch.tensor([[rnd.gauss(0, 1) for _ in range(3)] for _ in range(7)], dtype=torch.float64).to(D_)
        other = torch.tensor([[rnd.gauss(0, 3) for _ in range(3)] for _ in range(7)], dtype=torch.float64).to(D_)
        case = {"kind": "stale", "fn": "chspline", "dtype": dtype}
        stale_check(ctx, case, "chspline", lambda fresh: (P.chspline(pts.clone() if fresh else pts, 0.3),),
                    [("add_", lambda: pts.add_(1.5)), ("copy_", lambda: pts.copy_(other)), ("setitem", lambda: pts.__setitem__((2, slice(None)), torch.tensor([9.0, -9.0, 0.5]).to(D_))),
                     ("mul_", lambda: pts.mul_(-2.0))])
        # bspline
        Xd = torch.tensor(R.walk(rnd, 7, 1.0, 0.7)).to(D_)
        X = P.LieTensor(Xd, ltype=P.SE3_type)
        Xo = P.LieTensor(torch.tensor(R.walk(rnd, 7, 2.0, 1.1)).to(D_), ltype=P.SE3_type)
        a = torch.tensor([[rnd.gauss(0, 0.3) for _ in range(6)] for _ in range(7)], dtype=torch.float64).to(D_)
        case = {"kind": "stale", "fn": "bspline", "dtype": dtype}
        for ex in (False, True):
            stale_check(ctx, case | {"extrapolate": ex}, "bspline", lambda fresh, ex=ex: (P.bspline(X.clone() if fresh else X, 0.4, extrapolate=ex),),
                        [("add_", lambda: X.add_(a)), ("copy_", lambda: X.copy_(Xo)), ("setitem", lambda: X.__setitem__(3, Xo[0])), ("add_ again", lambda: X.add_(a * 0.5))])
        # geodesic (function and one module object)
        x = P.LieTensor(torch.tensor(R.walk(rnd, 4, 1.0, 0.9)).to(D_), ltype=P.SE3_type)
        y = P.LieTensor(torch.tensor(R.walk(rnd, 4, 1.0, 0.9)).to(D_), ltype=P.SE3_type)
        mod = P.module.GeodesicLoss(reduction="none")
        case = {"kind": "stale", "fn": "geodesic_loss", "dtype": dtype}
        stale_check(ctx, case, "geodesic_loss", lambda fresh: (P.geodesic_loss(x.clone() if fresh else x, y.clone() if fresh else y, reduction="none"),
                                                                   mod(x.clone() if fresh else x, y.clone() if fresh else y)),
                    [("x.add_", lambda: x.add_(a[:4])), ("y.copy_", lambda: y.copy_(x)), ("y.add_", lambda: y.add_(a[1:5])), ("x.setitem", lambda: x.__setitem__(0, y[2]))])
    # ape / rpe: poses AND stamps updated in place
    M = 9
    rs = torch.arange(M, dtype=torch.float64) * 0.1
    es = rs + 0.002
    rp = P.SE3(torch.tensor(R.walk(rnd, M, 1.0, 0.4)))
    ep = P.SE3(torch.tensor(R.walk(rnd, M, 1.0, 0.4)))
    aa = torch.tensor([[rnd.gauss(0, 0.2) for _ in range(6)] for _ in range(M)], dtype=torch.float64)
    case = {"kind": "stale", "fn": "ape/rpe"}

    def call(fresh):
        c = (lambda t: t.clone()) if fresh else (lambda t: t)
        with warnings.catch_warnings():
            warnings.simplefilter("ignore")
            r1 = A.ape(c(rs), c(rp), c(es), c(ep), etype="pose", align=True, scale=True)
            r2 = A.rpe(c(rs), c(rp), c(es), c(ep), etype="radian", associate="distance", delta=0.7, all=True)
            r3 = A.ape(c(rs), c(rp), c(es), c(ep), etype="translation", offset=0.001, origin=True)
        return tuple(torch.stack([r[k_] for k_ in STAT_KEYS]) for r in (r1, r2, r3))
    stale_check(ctx, case, "ape/rpe", call, [("epose.add_", lambda: ep.add_(aa)), ("rpose.copy_", lambda: rp.copy_(ep)), ("rpose.add_", lambda: rp.add_(aa * 0.3)),
                                               ("estamp.add_", lambda: es.add_(0.003)), ("rstamp.mul_", lambda: rs.mul_(1.0001)), ("epose.setitem", lambda: ep.__setitem__(4, rp[1]))])


def view_variants(t: torch.Tensor):
    """the same values as `t` presented as (name, view, buffer): non-contiguous transpose, interior of a larger buffer filled with
    sentinels, every second row of a strided buffer"""
    out = []
    buf = t.transpose(-1, -2).contiguous()
    out.append(("transposed", buf.transpose(-1, -2), buf))
    shp = list(t.shape)
    shp[-1] += 2
    shp[-2] += 2
    buf = torch.full(shp, 777.0, dtype=t.dtype)
    buf[..., 1:-1, 1:-1] = t
    out.append(("interior of a larger buffer", buf[..., 1:-1, 1:-1], buf))
    shp = list(t.shape)
    shp[-2] *= 2
    buf = torch.full(shp, -555.0, dtype=t.dtype)
    buf[..., ::2, :] = t
    out.append(("strided rows", buf[..., ::2, :], buf))
    return out


def close_or_equal(a, b, tol):
    a = a.tensor() if hasattr(a, "ltype") else a
    b = b.tensor() if hasattr(b, "ltype") else b
    if not (isinstance(a, torch.Tensor) and isinstance(b, torch.Tensor)) or a.shape != b.shape or a.dtype != b.dtype:
        return False
    return bool(torch.equal(a, b)) or bool(((a.double() - b.double()).abs() <= tol).all())


def run_views(ctx: Ctx):
    """class 6: non-contiguous / embedded / expanded / aliased arguments: same result as on a contiguous private copy, argument and
    the whole underlying buffer untouched, the same tensor passed for two arguments"""
    P = pp()
    A = AR()
    rnd = random.Random(CORPUS_SEED + 700)
    for dtype in ("float64", "float32"):
        D_ = DT[dtype]
        eps = EPS[dtype]
        # chspline
        t = torch.tensor([[[rnd.gauss(0, 1) for _ in range(3)] for _ in range(6)] for _ in range(2)], dtype=torch.float64).to(D_)
        ref = P.chspline(t.clone(), 0.3)
        for name, v, buf in view_variants(t):
            case = {"kind": "views", "fn": "chspline", "dtype": dtype, "view": name}
            snap = buf.clone()
            ctx.note_case(("views", "chspline", dtype, name), True)
            ctx.count("views.chspline")
            try:
                out = P.chspline(v, 0.3)
                if not close_or_equal(out, ref, 8 * eps * 10):
                    ctx.fail(case, f"views: chspline on a {name} view differs from the call on a contiguous copy")
                if not torch.equal(buf, snap):
                    ctx.fail(case, f"views-mutation: chspline wrote into the caller's buffer ({name})")
            except Exception as e:
                ctx.fail(case, f"views-raises: chspline raised on a {name} view: {excs(e)}")
        case = {"kind": "views", "fn": "chspline", "dtype": dtype, "view": "expanded batch"}
        try:
            one = t[0]
            out = P.chspline(one.expand(3, 6, 3), 0.3)
            if not all(close_or_equal(out[i], ref[0], 8 * eps * 10) for i in range(3)) or not torch.equal(one, t[0]):
                ctx.fail(case, "views: chspline on an expanded (stride-0) batch differs from the single item / changed it")
        except Exception as e:
            ctx.fail(case, f"views-raises: chspline raised on an expanded batch: {excs(e)}")
        # bspline
        Xd = torch.tensor(np.stack([R.walk(rnd, 6, 1.0, 0.7), R.walk(rnd, 6, 1.0, 0.7)])).to(D_)
        for ex in (False, True):
            ref = P.bspline(P.LieTensor(Xd.clone(), ltype=P.SE3_type), 0.4, extrapolate=ex).tensor()
            for name, v, buf in view_variants(Xd):
                case = {"kind": "views", "fn": "bspline", "dtype": dtype, "view": name, "extrapolate": ex}
                snap = buf.clone()
                ctx.note_case(("views", "bspline", dtype, name, ex), True)
                ctx.count("views.bspline")
                try:
                    out = P.bspline(P.LieTensor(v, ltype=P.SE3_type), 0.4, extrapolate=ex)
                    if not close_or_equal(out, ref, 64 * eps * 10):
                        ctx.fail(case, f"views: bspline on a {name} view differs from the call on a contiguous copy")
                    if not torch.equal(buf, snap):
                        ctx.fail(case, f"views-mutation: bspline wrote into the caller's buffer ({name})")
                except Exception as e:
                    ctx.fail(case, f"views-raises: bspline raised on a {name} view: {excs(e)}")
            case = {"kind": "views", "fn": "bspline", "dtype": dtype, "view": "expanded batch", "extrapolate": ex}
            try:
                one = P.LieTensor(Xd[0].clone(), ltype=P.SE3_type)
                out = P.bspline(P.LieTensor(one.tensor().expand(3, 6, 7), ltype=P.SE3_type), 0.4, extrapolate=ex).tensor()
                if not all(close_or_equal(out[i], ref[0], 64 * eps * 10) for i in range(3)) or not torch.equal(one.tensor(), Xd[0]):
                    ctx.fail(case, "views: bspline on an expanded (stride-0) batch differs from the single item / changed it")
            except Exception as e:
                ctx.fail(case, f"views-raises: bspline raised on an expanded batch: {excs(e)}")
        # geodesic: views + the same tensor for both arguments
        q = torch.tensor(np.stack([R.walk(rnd, 5, 1.0, 1.0), R.walk(rnd, 5, 1.0, 1.0)])).to(D_)
        ref = P.geodesic_loss(P.LieTensor(q[0].clone(), ltype=P.SE3_type), P.LieTensor(q[1].clone(), ltype=P.SE3_type), reduction="none")
        for name, v, buf in view_variants(q):
            case = {"kind": "views", "fn": "geodesic_loss", "dtype": dtype, "view": name}
            snap = buf.clone()
            ctx.note_case(("views", "geo", dtype, name), True)
            ctx.count("views.geo")
            try:
                out = P.geodesic_loss(P.LieTensor(v[0], ltype=P.SE3_type), P.LieTensor(v[1], ltype=P.SE3_type), reduction="none")
                if not close_or_equal(out, ref, 8 * eps) or not torch.equal(buf, snap):
                    ctx.fail(case, f"views: geodesic_loss on {name} views differs from contiguous copies / wrote into the buffer")
            except Exception as e:
                ctx.fail(case, f"views-raises: geodesic_loss raised on {name} views: {excs(e)}")
        xs = P.LieTensor(q[0].clone(), ltype=P.SE3_type)
        case = {"kind": "views", "fn": "geodesic_loss", "dtype": dtype, "view": "same tensor twice"}
        try:
            for rd in ("none", "mean", "sum"):
                z = P.geodesic_loss(xs, xs, reduction=rd)
                if not bool((z.double().abs() <= 24 * eps * (5 if rd == "sum" else 1)).all()):
                    ctx.fail(case, f"alias: geodesic_loss(x, x, reduction={rd!r}) = {z!r}, expected 0")
        except Exception as e:
            ctx.fail(case, f"views-raises: geodesic_loss(x, x) raised: {excs(e)}")
    # ape / rpe: stamps and poses as views of larger buffers; the same objects as reference and estimate
    M = 10
    ref_p = torch.tensor(R.walk(rnd, M, 1.0, 0.4))
    est_p = torch.tensor(R.walk(rnd, M, 1.0, 0.4))
    st = torch.arange(M, dtype=torch.float64) * 0.1 + 5.0
    kw1 = dict(etype="pose", align=True, scale=True)
    kw2 = dict(etype="radian", associate="distance", delta=0.8, all=True, offset=0.002)
    with warnings.catch_warnings():
        warnings.simplefilter("ignore")
        want1 = A.ape(st.clone(), P.SE3(ref_p.clone()), (st + 0.001).clone(), P.SE3(est_p.clone()), **kw1)
        want2 = A.rpe(st.clone(), P.SE3(ref_p.clone()), (st - 0.001).clone(), P.SE3(est_p.clone()), **kw2)
    sbuf = torch.full((2 * M + 3,), -1.0, dtype=torch.float64)
    sbuf[1:2 * M + 1:2] = st
    sv = sbuf[1:2 * M + 1:2]
    for (name, rv, rbuf), (_, ev, ebuf) in zip(view_variants(ref_p), view_variants(est_p)):
        case = {"kind": "views", "fn": "ape/rpe", "view": name}
        snaps = [b_.clone() for b_ in (rbuf, ebuf, sbuf)]
        ctx.note_case(("views", "traj", name), True)
        ctx.count("views.traj")
        try:
            with warnings.catch_warnings():
                warnings.simplefilter("ignore")
                g1 = A.ape(sv, P.SE3(rv), sv + 0.001, P.SE3(ev), **kw1)
                g2 = A.rpe(sv, P.SE3(rv), sv - 0.001, P.SE3(ev), **kw2)
            for g, w, fn_ in ((g1, want1, "ape"), (g2, want2, "rpe")):
                if any(not close_or_equal(g[k_], w[k_], 1e3 * EPS64) for k_ in STAT_KEYS):
                    ctx.fail(case, f"views: {fn_} on {name} views of the poses / strided stamps differs from the call on contiguous copies")
            if not all(torch.equal(b_, s_) for b_, s_ in zip((rbuf, ebuf, sbuf), snaps)):
                ctx.fail(case, f"views-mutation: ape/rpe wrote into a caller's buffer ({name})")
        except Exception as e:
            ctx.fail(case, f"views-raises: ape/rpe raised on {name} views: {excs(e)}")
    case = {"kind": "views", "fn": "ape/rpe", "view": "same objects as reference and estimate"}
    try:
        Pz = P.SE3(ref_p.clone())
        for kw in (dict(), dict(align=True), dict(scale=True, align=True), dict(origin=True), dict(offset=0.0, etype="pose"), dict(etype="radian")):
            with warnings.catch_warnings():
                warnings.simplefilter("ignore")
                z1 = A.ape(st, Pz, st, Pz, **kw)
                z2 = A.rpe(st, Pz, st, Pz, **kw)
            for z, fn_ in ((z1, "ape"), (z2, "rpe")):
                wv = nmax(abs(float(z[k_])) for k_ in STAT_KEYS if k_ != "SSE")
                if not wv <= 1e5 * EPS64:
                    ctx.fail(case | {"kwargs": {k_: str(v_) for k_, v_ in kw.items()}}, f"alias: {fn_}(s, P, s, P, {kw}) with the very same objects gives non-zero statistics (max {wv:.3e})")
        if not torch.equal(Pz.tensor(), ref_p):
            ctx.fail(case, "alias: ape/rpe changed the shared pose object")
    except Exception as e:
        ctx.fail(case, f"views-raises: ape/rpe raised with aliased arguments: {excs(e)}")


# ============================================================================= hardening pass 2 (kinds 10-17)

def bits_eq(a, b):
    a = a.tensor() if hasattr(a, "ltype") else a
    b = b.tensor() if hasattr(b, "ltype") else b
    if isinstance(a, dict) and isinstance(b, dict):
        return sorted(a) == sorted(b) and all(bits_eq(a[k_], b[k_]) for k_ in a)
    if not (isinstance(a, torch.Tensor) and isinstance(b, torch.Tensor)):
        return False
    return a.shape == b.shape and a.dtype == b.dtype and torch.equal(torch.nan_to_num(a.detach(), nan=1234.5), torch.nan_to_num(b.detach(), nan=1234.5))


def expect_same(ctx, case, label, ref, fn):
    ctx.note_case(("pass2", case["kind"], case.get("fn"), label), True)
    ctx.count(f"{case['kind']}.{case.get('fn')}")
    try:
        with warnings.catch_warnings():
            warnings.simplefilter("ignore")
            got = fn()
    except Exception as e:
        ctx.fail(case | {"variant": label}, f"{case['kind']}-raises: {case.get('fn')} raised for the variant '{label}': {excs(e)}")
        return None
    if not (all_finite(got) and all_finite(ref)):       # bits_eq treats NaN == NaN: a NaN in both calls must not pass (lesson 38)
        ctx.fail(case | {"variant": label}, f"non-finite result: {case.get('fn')} returns non-finite values for finite valid input (variant '{label}' / reference call)")
    if not bits_eq(got, ref):
        ctx.fail(case | {"variant": label}, f"{case['kind']}: {case.get('fn')} called as '{label}' returns other values than the reference call")
    return got


def run_pass2(ctx: Ctx):
    import copy
    import pickle
    P = pp()
    A = AR()
    rnd = random.Random(CORPUS_SEED + 800)
    pts = torch.tensor([[[rnd.gauss(0, 1) for _ in range(3)] for _ in range(6)] for _ in range(3)], dtype=torch.float64)
    Xd = torch.tensor(np.stack([R.walk(rnd, 7, 1.0, 0.7) for _ in range(3)]))
    X = P.SE3(Xd.clone())
    qx, qy = P.SE3(torch.tensor(R.walk(rnd, 4, 1.0, 0.9))), P.Sim3(torch.cat([torch.tensor(R.walk(rnd, 4, 1.0, 0.9)), torch.ones(4, 1) * 1.3], -1))
    M = 11
    rs = torch.arange(M, dtype=torch.float64) * 0.1 + 3.0
    es = rs + 0.003
    rp = P.SE3(torch.tensor(R.walk(rnd, M, 1.0, 0.4)))
    ep = P.SE3(torch.tensor(R.walk(rnd, M, 1.0, 0.4)))

    def W(f):
        with warnings.catch_warnings():
            warnings.simplefilter("ignore")
            return f()
    # ---------------- kind 10: defaults, positional vs keyword, rarely used keywords, pairs of options
    c = {"kind": "args", "fn": "chspline"}
    ref = P.chspline(pts, 0.1)
    expect_same(ctx, c, "default interval", ref, lambda: P.chspline(pts))
    expect_same(ctx, c, "keyword interval", ref, lambda: P.chspline(pts, interval=0.1))
    expect_same(ctx, c, "all keywords", ref, lambda: P.chspline(points=pts, interval=0.1))
    c = {"kind": "args", "fn": "bspline"}
    ref = P.bspline(X, 0.1, False)
    expect_same(ctx, c, "defaults", ref, lambda: P.bspline(X))
    expect_same(ctx, c, "keywords", ref, lambda: P.bspline(data=X, interval=0.1, extrapolate=False))
    expect_same(ctx, c, "extrapolate keyword only", P.bspline(X, 0.1, True), lambda: P.bspline(X, extrapolate=True))
    c = {"kind": "args", "fn": "geodesic_loss"}
    for rd in ("none", "mean", "sum"):
        ref = P.geodesic_loss(qx, qy, reduction=rd)
        expect_same(ctx, c, f"positional reduction {rd}", ref, lambda: P.geodesic_loss(qx, qy, rd))
        expect_same(ctx, c, f"keywords {rd}", ref, lambda: P.geodesic_loss(input=qx, target=qy, reduction=rd))
        expect_same(ctx, c, f"module keyword {rd}", ref, lambda: P.module.GeodesicLoss(reduction=rd)(input=qx, target=qy))
    expect_same(ctx, c, "default reduction", P.geodesic_loss(qx, qy, reduction="mean"), lambda: P.geodesic_loss(qx, qy))
    expect_same(ctx, c, "module default reduction", P.geodesic_loss(qx, qy, reduction="mean"), lambda: P.module.GeodesicLoss()(qx, qy))
    c = {"kind": "args", "fn": "ape"}
    n_assoc = M
    for et, diff, off, al, sc_, orig, ot in [("translation", 0.01, 0.0, False, False, False, "All"), ("pose", 0.02, 0.001, True, False, False, "All"),
                                             ("radian", 0.01, -0.002, False, True, False, "RMSE"), ("rotation", 0.05, 0.0, True, True, True, "All"),
                                             ("degree", 0.01, 0.0, False, False, True, "Median"), ("pose", 0.01, 0.0, False, True, True, "STD")]:
        ref = W(lambda: A.ape(rs, rp, es, ep, etype=et, diff=diff, offset=off, align=al, scale=sc_, origin=orig, otype=ot))
        expect_same(ctx, c, f"positional ({et},{al},{sc_},{orig},{ot})", ref, lambda: A.ape(rs, rp, es, ep, et, diff, off, al, sc_, -1, orig, 0.3, ot))
        expect_same(ctx, c, f"thresh=0.0 ({et})", ref, lambda: A.ape(rs, rp, es, ep, etype=et, diff=diff, offset=off, align=al, scale=sc_, origin=orig, otype=ot, thresh=0.0))
        expect_same(ctx, c, f"thresh=1.0 ({et})", ref, lambda: A.ape(rs, rp, es, ep, etype=et, diff=diff, offset=off, align=al, scale=sc_, origin=orig, otype=ot, thresh=1.0))
        expect_same(ctx, c, f"nposes = number of poses ({et})", ref, lambda: A.ape(rs, rp, es, ep, etype=et, diff=diff, offset=off, align=al, scale=sc_, origin=orig, otype=ot, nposes=n_assoc))
        expect_same(ctx, c, f"all keywords ({et})", ref, lambda: A.ape(rstamp=rs, rpose=rp, estamp=es, epose=ep, etype=et, diff=diff, offset=off, align=al, scale=sc_, nposes=-1, origin=orig, thresh=0.3, otype=ot))
    if True:
        expect_same(ctx, c, "defaults", W(lambda: A.ape(rs, rp, es, ep, etype="translation", diff=0.01, offset=0.0, align=False, scale=False, nposes=-1, origin=False, thresh=0.3, otype="All")),
                    lambda: A.ape(rs, rp, es, ep))
    c = {"kind": "args", "fn": "rpe"}
    for et, al, sc_, orig, assoc, dl, rt, all_, rpair, ot in [("translation", False, False, False, "frame", 1.0, 0.1, False, False, "All"),
                                                              ("pose", True, False, False, "distance", 0.8, 0.3, True, True, "All"),
                                                              ("radian", False, True, True, "frame", 2.0, 0.1, True, False, "Max"),
                                                              ("degree", True, True, False, "distance", 1.1, 0.2, False, True, "SSE")]:
        ref = W(lambda: A.rpe(rs, rp, es, ep, etype=et, align=al, scale=sc_, origin=orig, associate=assoc, delta=dl, rtol=rt, all=all_, rpair=rpair, otype=ot))
        expect_same(ctx, c, f"positional ({et},{assoc},{all_},{rpair})", ref,
                    lambda: A.rpe(rs, rp, es, ep, et, 0.01, 0.0, al, sc_, -1, orig, assoc, dl, rt, all_, 0.3, rpair, ot))
        expect_same(ctx, c, f"thresh/nposes ({et})", ref,
                    lambda: A.rpe(rs, rp, es, ep, etype=et, align=al, scale=sc_, origin=orig, associate=assoc, delta=dl, rtol=rt, all=all_, rpair=rpair, otype=ot, thresh=0.9, nposes=M))
    expect_same(ctx, c, "defaults", W(lambda: A.rpe(rs, rp, es, ep, etype="translation", diff=0.01, offset=0.0, align=False, scale=False, nposes=-1, origin=False,
                                                    associate="frame", delta=1.0, rtol=0.1, all=False, thresh=0.3, rpair=False, otype="All")), lambda: A.rpe(rs, rp, es, ep))
    # ---------------- kind 11: a failing call in between changes nothing (functions and the module object)
    c = {"kind": "atomic", "fn": "all"}
    mod = P.module.GeodesicLoss(reduction="sum")
    snap = {k_: v_ for k_, v_ in vars(mod).items() if not k_.startswith("_")}
    good = [lambda: P.chspline(pts, 0.3), lambda: P.bspline(X, 0.4, True), lambda: mod(qx, qy), lambda: A.ape(rs, rp, es, ep, etype="pose", align=True),
            lambda: A.rpe(rs, rp, es, ep, etype="radian", all=True)]
    refs = [W(g) for g in good]
    bad = [lambda: P.chspline(pts, 1.5), lambda: P.chspline(torch.zeros(3), 0.5), lambda: P.bspline(X[:, :3], 0.4), lambda: P.bspline(P.randn_SO3(5), 0.4),
           lambda: mod(qx, torch.zeros(4, 7)), lambda: mod(qx.tensor(), qy), lambda: P.geodesic_loss(qx, qy, reduction="max"),
           lambda: A.ape(rs, rp, es + 50.0, ep), lambda: A.rpe(rs, rp, es, ep, delta=500.0), lambda: A.ape(rs, rp, es, ep, etype="nonsense"),
           lambda: A.rpe(rs, rp, es, ep, associate="nonsense"), lambda: A.ape(rs[:-1], rp, es, ep), lambda: A.ape(rs, rp, es, ep, otype="nope")]
    for bi, b_ in enumerate(bad):
        raised = False
        try:
            W(b_)
        except Exception:
            raised = True
        if not raised:
            ctx.fail(c | {"bad_call": bi}, f"atomic: malformed call #{bi} was accepted without an exception")
        for gi, g in enumerate(good):
            expect_same(ctx, c, f"good call {gi} after failing call {bi}", refs[gi], g)
        now = {k_: v_ for k_, v_ in vars(mod).items() if not k_.startswith("_")}
        if now != snap:
            ctx.fail(c | {"bad_call": bi}, f"atomic: GeodesicLoss attributes changed by a failing call: {snap} -> {now}")
    # ---------------- kind 12: grad modes give the same VALUES
    def leafs(*ts):
        out = []
        for t in ts:
            if hasattr(t, "ltype"):
                out.append(P.LieTensor(t.tensor().clone().requires_grad_(True), ltype=t.ltype))
            else:
                out.append(t.clone().requires_grad_(True))
        return out

    def in_graph(*ts):
        out = []
        for t in leafs(*ts):
            out.append(P.LieTensor(t.tensor() * 1.0, ltype=t.ltype) if hasattr(t, "ltype") else t * 1.0)
        return out
    calls = {"chspline": ((pts,), lambda p_: P.chspline(p_, 0.3)), "bspline": ((X,), lambda x_: P.bspline(x_, 0.4, True)),
             "bspline(no extrapolate)": ((X,), lambda x_: P.bspline(x_, 0.3)),
             "geodesic_loss": ((qx, qy), lambda a_, b_: P.geodesic_loss(a_, b_, reduction="none")),
             "ape": ((rp, ep), lambda a_, b_: A.ape(rs, a_, es, b_, etype="pose", align=True, scale=True)),
             "ape(origin)": ((rp, ep), lambda a_, b_: A.ape(rs, a_, es, b_, etype="radian", origin=True)),
             "rpe": ((rp, ep), lambda a_, b_: A.rpe(rs, a_, es, b_, etype="rotation", associate="distance", delta=0.8, all=True))}
    for nm, (args, f) in calls.items():
        c = {"kind": "gradmode", "fn": nm}
        ref = W(lambda: f(*args))
        expect_same(ctx, c, "requires_grad operands", ref, lambda: f(*leafs(*args)))
        expect_same(ctx, c, "inside an autograd graph", ref, lambda: f(*in_graph(*args)))

        def ng():
            with torch.no_grad():
                return f(*args)

        def ng2():
            with torch.no_grad():
                return f(*leafs(*args))

        def inf():
            with torch.inference_mode():
                return f(*[(P.LieTensor(t.tensor().clone(), ltype=t.ltype) if hasattr(t, "ltype") else t.clone()) for t in args])
        expect_same(ctx, c, "torch.no_grad()", ref, ng)
        expect_same(ctx, c, "no_grad with requires_grad operands", ref, ng2)
        expect_same(ctx, c, "torch.inference_mode()", ref, inf)
    # ---------------- kind 13: duck-typed inputs
    c = {"kind": "ducktype", "fn": "bspline"}
    expect_same(ctx, c, "pp.Parameter", P.bspline(X, 0.4, True), lambda: P.bspline(P.Parameter(P.SE3(Xd.clone())), 0.4, True))
    c = {"kind": "ducktype", "fn": "geodesic_loss"}
    expect_same(ctx, c, "pp.Parameter", P.geodesic_loss(qx, qy, reduction="none"), lambda: P.geodesic_loss(P.Parameter(qx.clone()), P.Parameter(qy.clone()), reduction="none"))
    c = {"kind": "ducktype", "fn": "chspline"}
    expect_same(ctx, c, "torch.nn.Parameter", P.chspline(pts, 0.3), lambda: P.chspline(torch.nn.Parameter(pts.clone()), 0.3))
    c = {"kind": "ducktype", "fn": "ape/rpe"}
    ri = torch.arange(M, dtype=torch.int64)
    rf = ri.double()
    for fn_, kw in ((A.ape, dict(etype="pose", align=True)), (A.rpe, dict(etype="radian", all=True)), (A.ape, dict(offset=0.25, diff=0.3))):
        ref = W(lambda: fn_(rf, rp, rf + (0.25 if "offset" not in kw else 0.0) * 0, ep, **kw))
        expect_same(ctx, c, f"int64 stamps {fn_.__name__}", ref, lambda: fn_(ri, rp, ri, ep, **kw))
        expect_same(ctx, c, f"float32 stamps {fn_.__name__}", ref, lambda: fn_(ri.float(), rp, ri.float(), ep, **kw))
        expect_same(ctx, c, f"None stamps {fn_.__name__}", ref, lambda: fn_(None, rp, None, ep, **kw))
        expect_same(ctx, c, f"mixed None / tensor stamps {fn_.__name__}", ref, lambda: fn_(None, rp, rf, ep, **kw))
        expect_same(ctx, c, f"mixed int64 / None stamps {fn_.__name__}", ref, lambda: fn_(ri, rp, None, ep, **kw))
        expect_same(ctx, c, f"mixed float32 / int64 stamps {fn_.__name__}", ref, lambda: fn_(ri.float(), rp, ri, ep, **kw))
        expect_same(ctx, c, f"Parameter poses {fn_.__name__}", ref, lambda: fn_(rf, P.Parameter(rp.clone()), rf, P.Parameter(ep.clone()), **kw))
    # ---------------- kind 14: copies of the module object follow their own law
    c = {"kind": "copies", "fn": "GeodesicLoss"}
    m0 = P.module.GeodesicLoss(reduction="sum")
    r_sum, r_none = P.geodesic_loss(qx, qy, reduction="sum"), P.geodesic_loss(qx, qy, reduction="none")
    m0(qx, qy)
    copies = {"deepcopy": copy.deepcopy(m0), "copy": copy.copy(m0), "pickle": pickle.loads(pickle.dumps(m0))}
    m_sd = P.module.GeodesicLoss(reduction="sum")
    m_sd.load_state_dict(m0.state_dict())
    copies["state_dict"] = m_sd
    for nm, mc in copies.items():
        expect_same(ctx, c, f"{nm} gives the original's result", r_sum, lambda: mc(qx, qy))
    for nm, mc in copies.items():
        if nm == "copy":
            continue
        mc.reduction = "none"
        expect_same(ctx, c, f"{nm} with its own reduction", r_none, lambda: mc(qx, qy))
        expect_same(ctx, c, f"original after changing the {nm}", r_sum, lambda: m0(qx, qy))
        mc.reduction = "sum"
    # ---------------- kind 15: outputs own their memory
    for label, src in (("random points", pts), ("constant points", torch.full((3, 6, 3), 2.5, dtype=torch.float64)),
                       ("straight line", (torch.arange(6.0, dtype=torch.float64)[:, None] * torch.tensor([1.0, -2.0, 0.5], dtype=torch.float64)).expand(3, 6, 3).clone())):
        c = {"kind": "ownmem", "fn": "chspline", "input": label}
        p_in = src.clone()
        o1 = P.chspline(p_in, 0.3)
        keep = o1.clone()
        ctx.note_case(("pass2", "ownmem", label), True)
        try:
            o1[0, 0, :] += 7.0
            o1[1].mul_(0.0)
        except RuntimeError as e:
            ctx.fail(c, f"ownmem: chspline's result cannot be written in place — its elements overlap in memory ({label}): {excs(e)}")
            continue
        if not torch.equal(p_in, src):
            ctx.fail(c, f"ownmem: writing into chspline's result changed the input points (the result aliases its argument; {label})")
        if not (torch.equal(o1[2], keep[2]) and torch.equal(o1[0, 1:], keep[0, 1:])):
            ctx.fail(c, f"ownmem: writing one item of chspline's result changed other items (overlapping result memory; {label})")
        expect_same(ctx, c, "call after writing into an earlier result", keep, lambda: P.chspline(p_in, 0.3))
    Xsame = Xd[:, :1, :].expand(3, 7, 7).clone()        # identical poses: a degenerate input whose result could be an expanded view
    for ex, Xsrc in ((False, Xd), (True, Xd), (False, Xsame), (True, Xsame)):
        c = {"kind": "ownmem", "fn": "bspline", "extrapolate": ex, "identical_poses": Xsrc is Xsame}
        Xd_ = Xsrc
        x_in = P.SE3(Xd_.clone())
        o1 = P.bspline(x_in, 0.4, ex)
        keep = o1.tensor().clone()
        try:
            o1.tensor()[0, 0, :] = 0.0
            o1.tensor()[1].mul_(0.0)
            o1.tensor()[..., -1, :] += 1.0
        except RuntimeError as e:
            ctx.fail(c, f"ownmem: bspline's result cannot be written in place — its elements overlap in memory: {excs(e)}")
            continue
        if not torch.equal(x_in.tensor(), Xd_):
            ctx.fail(c, "ownmem: writing into bspline's result changed the input poses (the result aliases its argument)")
        chk = o1.tensor()
        if not (torch.equal(chk[2, :-1], keep[2, :-1]) and torch.equal(chk[0, 1:-1], keep[0, 1:-1])):
            ctx.fail(c, "ownmem: writing one item of bspline's result changed other items (overlapping result memory)")
        expect_same(ctx, c, "call after writing into an earlier result", keep, lambda: P.bspline(x_in, 0.4, ex).tensor())
    c = {"kind": "ownmem", "fn": "geodesic_loss"}
    a_in, b_in = qx.clone(), qy.clone()
    g1 = P.geodesic_loss(a_in, b_in, reduction="none")
    keep = g1.clone()
    g1[0] = 9.0
    if not (torch.equal(a_in.tensor(), qx.tensor()) and torch.equal(b_in.tensor(), qy.tensor()) and torch.equal(g1[1:], keep[1:])):
        ctx.fail(c, "ownmem: writing into geodesic_loss's result changed an argument or another item")
    expect_same(ctx, c, "call after writing into an earlier result", keep, lambda: P.geodesic_loss(a_in, b_in, reduction="none"))
    c = {"kind": "ownmem", "fn": "ape/rpe"}
    for fn_ in (A.ape, A.rpe):
        r1 = W(lambda: fn_(rs, rp, es, ep, etype="pose"))
        keep = {k_: v_.clone() for k_, v_ in r1.items()}
        r1["Max"].mul_(0.0)
        r1["SSE"].add_(5.0)
        if any(not torch.equal(r1[k_], keep[k_]) for k_ in STAT_KEYS if k_ not in ("Max", "SSE")):
            ctx.fail(c, f"ownmem: the statistics returned by {fn_.__name__} share memory (writing Max/SSE changed another entry)")
        expect_same(ctx, c, f"{fn_.__name__} after writing into an earlier result", keep, lambda: fn_(rs, rp, es, ep, etype="pose"))


# ============================================================================= hardening pass 4 (classes 19-26)

def rand_unit_quats(g, n):
    q = torch.randn(n, 4, generator=g, dtype=torch.float64)
    return q / q.norm(dim=-1, keepdim=True)


def rand_poses_t(g, shape, tscale=1.0):
    n = int(math.prod(shape))
    return torch.cat([torch.randn(n, 3, generator=g, dtype=torch.float64) * tscale, rand_unit_quats(g, n)], -1).reshape(tuple(shape) + (7,))


def split_consistent(ctx, case, name, f, x, dim, cuts, cat_dim=None):
    """class 19: f(x) == cat(f(x[:a]), f(x[a:])) bit for bit along a batch axis, and single items reproduce"""
    cat_dim = dim if cat_dim is None else cat_dim
    full = f(x)
    ft = full.tensor() if hasattr(full, "ltype") else full
    n = x.shape[dim]
    for a in cuts:
        if not 0 < a < n:
            continue
        lo, hi = f(x.narrow(dim, 0, a)), f(x.narrow(dim, a, n - a))
        lo = lo.tensor() if hasattr(lo, "ltype") else lo
        hi = hi.tensor() if hasattr(hi, "ltype") else hi
        ctx.note_case(("pass4", "split", name, n, a), True)
        ctx.count(f"large.{name}")
        if not same_bits(ft, torch.cat([lo, hi], cat_dim)):
            bad = (ft != torch.cat([lo, hi], cat_dim)).nonzero()
            ctx.fail(case | {"cut": a}, f"split: {name} on {n} items differs from the concatenation of the calls on items [:{a}] and [{a}:] "
                                        f"(first differing index {bad[0].tolist() if len(bad) else 'shape'})")
            return ft
    for i in sorted({0, n - 1, n // 2, n - 2} if n <= 1025 else {0, n - 1}):
        one = f(x.narrow(dim, i, 1))
        one = one.tensor() if hasattr(one, "ltype") else one
        if not same_bits(ft.narrow(cat_dim, i, 1), one):
            ctx.fail(case | {"item": i}, f"split: item {i} of {n} in {name} differs from the call on that item alone")
            return ft
    return ft


def run_pass4(ctx: Ctx, mb: MB):
    P = pp()
    A = AR()
    g = torch.Generator().manual_seed(CORPUS_SEED + 4)
    quick = ctx.quick
    lt = lambda t: P.LieTensor(t, ltype=P.SE3_type)
    # ------------------------------------------------------------ class 19: sizes 2^k, 2^k +- 1, one > 2^14, one > 2^16
    sizes = [257, 4097, 16385, 65537] + ([] if quick else [255, 256, 1023, 1025, 4095, 4096, 16383, 16384, 32769, 65535, 65536])
    for n in sizes:
        for dtype in (("float64",) if (quick and n != 257) else ("float64", "float32")):
            D_ = DT[dtype]
            eps = EPS[dtype]
            cuts = [1, n // 2, n - 1, (n // 256) * 256 if n > 256 else 3] if n <= 1025 else ([n - 1, (n // 256) * 256] if n <= 4097 else [n - 1])
            if quick and n == 65537:
                cuts = []           # quick tier: the full call and the first / last item alone only (cut consistency at this size: thorough tier)
            # chspline over a batch of n sequences (quick tier: 65537 is left to the 2^18+37 probes of round 5)
            pts = torch.randn(n, 4, 2, generator=g, dtype=torch.float64).to(D_)
            c = {"kind": "large", "fn": "chspline", "batch": n, "dtype": dtype}
            skip_pw = quick and n == 65537
            try:
                if skip_pw:
                    raise StopIteration
                out = split_consistent(ctx, c, "chspline(batch)", lambda x: P.chspline(x, 0.4), pts, 0, cuts)
                if not bool(((out[:, ::3, :].double() - pts.double()).abs() <= 16 * eps * (1 + pts.double().abs())).all()):
                    ctx.fail(c, f"large: chspline on a batch of {n} does not interpolate every item")
                col = pts[n - 1, :, 1].double().tolist()
                got = out[n - 1, :, 1].double().tolist()

                def cb(rep, got=got, c=c, tol=64 * eps * 12):
                    w = nums(rep)
                    if len(w) != len(got) or not nmax(abs(a - b) for a, b in zip(got, w)) <= tol:
                        ctx.disagree("chs", c, f"last item of a batch of {c['batch']}: implementation {got[:4]}… model {w[:4]}…")
                        ctx.fail(c, f"large: the LAST item of a chspline batch of {c['batch']} differs from the Hermite spline of its points")
                mb.add(f"c19.chs 4 3 {to_wire(0.4)} " + wire_list(col), cb)
            except StopIteration:
                pass
            except Exception as e:
                ctx.fail(c, f"large-raises: chspline raised on a batch of {n}: {excs(e)}")
            # bspline over a batch of n pose sequences
            X = rand_poses_t(g, (n, 4)).to(D_)
            c = {"kind": "large", "fn": "bspline", "batch": n, "dtype": dtype}
            try:
                for ex in ((False, True) if n <= 4097 else (False,)):
                    out = split_consistent(ctx, c | {"extrapolate": ex}, "bspline(batch)", lambda x, ex=ex: P.bspline(lt(x), 0.5, extrapolate=ex), X, 0, cuts)
                if n == 16385 and dtype == "float64":
                    split_consistent(ctx, c | {"extrapolate": True}, "bspline(batch)", lambda x: P.bspline(lt(x), 0.5, extrapolate=True), X[:, :2], 0, [n - 1])
                d_last = X[n - 1].double()
                if abs(float(R.qmul(R.qconj(d_last[:-1, 3:].numpy()), d_last[1:, 3:].numpy())[:, 3].__abs__().min())) > 1e-3:
                    got = P.bspline(lt(X), 0.5)[n - 1].tensor().double().numpy()

                    def cbb(rep, got=got, c=c, eps=eps, d_last=d_last):
                        w = np.array(nums(rep)).reshape(-1, 7)
                        qt, tt = bs_tols(eps, d_last.numpy(), [0.0, 0.5])
                        dq, dt_ = R.pose_dist(got, w) if w.shape == got.shape else (np.array([math.inf]), np.array([math.inf]))
                        if not (dq.max() <= qt and dt_.max() <= tt):
                            ctx.disagree("bs", c, f"last item of a batch of {c['batch']}: rotation {dq.max():.3e} translation {dt_.max():.3e}")
                            ctx.fail(c, f"large: the LAST item of a bspline batch of {c['batch']} differs from the documented spline of its poses")
                    mb.add(f"c19.bs {to_wire(eps)} 2 {to_wire(0.5)} 0 4 " + wire_list(d_last.flatten().tolist()), cbb)
            except Exception as e:
                ctx.fail(c, f"large-raises: bspline raised on a batch of {n}: {excs(e)}")
            # geodesic over n pairs
            qa, qb = rand_unit_quats(g, n).to(D_), rand_unit_quats(g, n).to(D_)
            c = {"kind": "large", "fn": "geodesic_loss", "batch": n, "dtype": dtype}
            try:
                if skip_pw:
                    raise StopIteration
                both = torch.cat([qa, qb], -1)
                out = split_consistent(ctx, c, "geodesic_loss(batch)",
                                       lambda x: P.geodesic_loss(P.SO3(x[..., :4]), P.SO3(x[..., 4:]), reduction="none"), both, 0, cuts)
                want = R.qangle(R.qmul(qa.double().numpy(), R.qconj(qb.double().numpy())))
                e = np.abs(out.double().numpy() - want)
                if not e.max() <= 24 * eps:
                    ctx.fail(c | {"item": int(e.argmax())}, f"large: geodesic_loss item {int(e.argmax())} of {n} is off by {e.max():.3e}")
                for rd, ref in (("sum", out.double().sum()), ("mean", out.double().mean())):
                    r_ = P.geodesic_loss(P.SO3(qa), P.SO3(qb), reduction=rd)
                    if not abs(float(r_) - float(ref)) <= 64 * eps * abs(float(ref)) * (1 + math.log2(n)):
                        ctx.fail(c | {"reduction": rd}, f"large: reduction={rd!r} over {n} items gives {float(r_)!r}, the items give {float(ref)!r}")
            except StopIteration:
                pass
            except Exception as e:
                ctx.fail(c, f"large-raises: geodesic_loss raised on {n} items: {excs(e)}")
        # long sequences: chspline / bspline with n points / poses — every segment = the call on its own window
        if n <= 4097:
            c = {"kind": "large", "fn": "chspline", "N": n}
            try:
                pts = torch.randn(n, 2, generator=g, dtype=torch.float64)
                out = P.chspline(pts, 0.5)
                if out.shape[0] != (n - 1) * 2 + 1 or not bool(((out[::2] - pts).abs() <= 16 * EPS64 * (1 + pts.abs())).all()):
                    ctx.fail(c, f"large: chspline with {n} points: wrong count or not interpolating")
                for i in sorted({1, n // 2, n - 3, (n // 256) * 256 - 1 if n > 300 else 2}):
                    if 1 <= i <= n - 3:
                        w = P.chspline(pts[i - 1:i + 3].clone(), 0.5)
                        ctx.count("large.chspline(N)")
                        if not bool(((w[2:5] - out[2 * i:2 * i + 3]).abs() <= 64 * EPS64 * (1 + pts[i - 1:i + 3].abs().max())).all()):
                            ctx.fail(c | {"segment": i}, f"large: segment {i} of a chspline through {n} points differs from the spline through its own four points")
            except Exception as e:
                ctx.fail(c, f"large-raises: chspline raised on {n} points: {excs(e)}")
            c = {"kind": "large", "fn": "bspline", "N": n}
            try:
                X = rand_poses_t(g, (n,))
                for ex in (False, True):
                    out = P.bspline(lt(X), 0.5, extrapolate=ex).tensor()
                    nseg = n + (1 if ex else -3)
                    if out.shape[0] != nseg * 2 + 1:
                        ctx.fail(c | {"extrapolate": ex}, f"large: bspline with {n} poses returns {out.shape[0]} poses, expected {nseg * 2 + 1}")
                        continue
                    off = 2 if ex else 0
                    for i in sorted({0, n // 2, n - 4, (n // 256) * 256 - 2 if n > 300 else 1}):
                        if 0 <= i <= n - 4:
                            w = P.bspline(lt(X[i:i + 4].clone()), 0.5).tensor()
                            ctx.count("large.bspline(N)")
                            if not same_bits(w[:2], out[2 * (i + off):2 * (i + off) + 2]):
                                ctx.fail(c | {"segment": i, "extrapolate": ex}, f"large: segment {i} of a bspline through {n} poses differs from the spline of its own four control poses")
                    if ex and not (same_bits(out[0], X[0]) or bool(((out[0] - X[0]).abs() <= 64 * EPS64 * 4).all())):
                        ctx.fail(c, f"large: extrapolated bspline through {n} poses does not start at the first pose")
            except Exception as e:
                ctx.fail(c, f"large-raises: bspline raised on {n} poses: {excs(e)}")
        # ape / rpe on n poses: vectorised definition + concatenation consistency
        if n <= (4097 if quick else 16385) and n not in (1023, 4095, 16383):
            c = {"kind": "large", "fn": "ape/rpe", "M": n}
            try:
                rp_, ep_ = rand_poses_t(g, (n,)), rand_poses_t(g, (n,))
                st = torch.arange(n, dtype=torch.float64) * 0.1
                es_ = st + (torch.rand(n, generator=g, dtype=torch.float64) - 0.5) * 0.01
                with warnings.catch_warnings():
                    warnings.simplefilter("ignore")
                    r_all = A.ape(st, P.SE3(rp_), es_, P.SE3(ep_), etype="pose")
                    a_ = n // 2 + 1
                    r_lo = A.ape(st[:a_], P.SE3(rp_[:a_]), es_[:a_], P.SE3(ep_[:a_]), etype="pose")
                    r_hi = A.ape(st[a_:], P.SE3(rp_[a_:]), es_[a_:], P.SE3(ep_[a_:]), etype="pose")
                    q_all = A.rpe(st, P.SE3(rp_), es_, P.SE3(ep_), etype="radian", all=True)
                ctx.note_case(("pass4", "large", "ape", n), True)
                ctx.count("large.ape/rpe")
                want = np_stats(np_rel_errors("pose", rp_.numpy(), ep_.numpy(), False))
                bad = stats_close(stat_vals(r_all), want, 64 * EPS64 * 8, n)
                if bad:
                    ctx.fail(c, f"large: ape over {n} poses: {bad} = {float(r_all[bad])!r}, the documented error over all pairs gives {want[STAT_KEYS.index(bad)]!r}")
                if not (abs(float(r_all["SSE"]) - float(r_lo["SSE"]) - float(r_hi["SSE"])) <= 64 * EPS64 * float(r_all["SSE"]) * 8
                        and float(r_all["Max"]) == max(float(r_lo["Max"]), float(r_hi["Max"])) and float(r_all["Min"]) == min(float(r_lo["Min"]), float(r_hi["Min"]))):
                    ctx.fail(c | {"cut": a_}, f"split: ape over {n} poses is not the combination of ape over poses [:{a_}] and [{a_}:] (SSE / Max / Min)")

                def rel(Ax):
                    return np.stack([R.se3_vec(R.se3_mul(R.se3_inv((a[:3], a[3:])), (b[:3], b[3:]))) for a, b in zip(Ax[:-1], Ax[1:])])
                if n <= 1025:
                    want = np_stats(np_rel_errors("radian", rel(rp_.numpy()), rel(ep_.numpy()), True))
                    bad = stats_close(stat_vals(q_all), want, 256 * EPS64 * 8, n - 1)
                    if bad:
                        ctx.fail(c, f"large: rpe over {n} poses: {bad} = {float(q_all[bad])!r}, documented {want[STAT_KEYS.index(bad)]!r}")
            except Exception as e:
                ctx.fail(c, f"large-raises: ape/rpe raised on {n} poses: {excs(e)}")
    # ------------------------------------------------------------ class 20: exact coincidences
    ident = [0.0, 0.0, 0.0, 1.0]
    # (a) stamps: exactly equidistant, exactly max_diff away, duplicated stamps — every value a small integer / half-integer
    for ti, (s1, s2, diff, off) in enumerate([
            ([0.5, 1.5, 2.5, 4.0], [0.0, 1.0, 2.0, 3.0, 4.0], 0.75, 0.0),        # exact ties between two candidates
            ([0.0, 1.0, 2.0, 3.0], [0.5, 1.5, 2.5, 3.5], 0.5, 0.0),               # |d| == max_diff exactly: strict <, nothing matches
            ([0.0, 1.0, 2.0, 3.0], [0.5, 1.5, 2.5, 3.5], 0.5000000000000001, 0.0),
            ([0.0, 1.0, 1.0, 2.0], [0.0, 1.0, 1.0, 2.0, 2.0], 0.25, 0.0),         # duplicated stamps
            ([1.0, 2.0, 3.0], [0.0, 1.0, 2.0, 3.0, 4.0], 0.5, 1.0),               # offset moves the partner exactly onto the next stamp
            ([2.0, 4.0, 6.0], [1.0, 3.0, 5.0, 7.0], 1.5, 0.0), ([2.0, 4.0, 6.0], [1.0, 3.0, 5.0, 7.0], 1.0, 0.0)]):
        c = {"kind": "ties", "what": "stamps", "index": ti, "s1": s1, "s2": s2, "diff": diff, "offset": off}
        ctx.note_case(("pass4", "ties", "stamps", ti), True)
        ctx.count("ties.stamps")
        try:
            mi = A.matching_time_indices(torch.tensor(s1, dtype=torch.float64), torch.tensor(s2, dtype=torch.float64), diff, off)
            got = [x for p_ in zip(mi[0], mi[1]) for x in p_]
            want, _ = R.match_oracle(s1, s2, diff, off)
            if got != [x for p_ in want for x in p_]:
                ctx.fail(c, f"ties: matching_time_indices on exactly tied stamps gives {got}, nearest-with-first-index-on-ties and strict '< diff' gives {want}")

            def cbt(rep, got=got, c=c):
                st_, toks = common.parse_reply(rep)
                if st_ != "ok" or [int(t) for t in toks] != got:
                    ctx.disagree("match", c, f"exact ties: implementation {got} model {rep[:60]}")
            mb.add(f"c19.match {to_wire(diff)} {to_wire(off)} {len(s1)} {wire_list(s1)} {len(s2)} {wire_list(s2)}", cbt)
        except Exception as e:
            ctx.fail(c, f"ties-raises: matching_time_indices raised on tied stamps: {excs(e)}")
    # (b) distance pairing on an integer lattice: exact `>= delta`, exact argmin ties, |d - delta| == tol exactly
    lat = np.array([[float(x), 0.0, 0.0] + ident for x in (0, 1, 2, 3, 5, 6, 8, 9, 10, 12)])
    for ti, (delta, rtol, all_) in enumerate([(2.0, 0.1, False), (1.0, 0.1, False), (3.0, 0.0, False), (1.5, 0.5, True), (2.0, 0.0, True),
                                              (2.0, 0.5, True), (2.5, 0.2, True), (4.0, 0.25, True)]):
        c = {"kind": "ties", "what": "distance pairing", "delta": delta, "rtol": rtol, "all": all_}
        ctx.note_case(("pass4", "ties", "pairs", ti), True)
        ctx.count("ties.pairs")
        try:
            with warnings.catch_warnings():
                warnings.simplefilter("ignore")
                gp = A.pair_id(A.StampedSE3(None, P.SE3(torch.tensor(lat))), delta, "distance", rtol, all_)
            gp = [x for p_ in zip(list(gp[0]), list(gp[1])) for x in p_]

            def cbp(rep, gp=gp, c=c):
                st_, toks = common.parse_reply(rep)
                w = [int(t) for t in toks] if st_ == "ok" else None
                if w != gp:
                    ctx.disagree("pairs", c, f"exact ties: pair_id gives {gp}, the model {w}")
                    ctx.fail(c, f"ties: pair_id(distance, delta={c['delta']}, rtol={c['rtol']}, all={c['all']}) on an integer lattice gives {gp}; the documented rule "
                                f"(first index on ties, '>= delta', '> tol' rejects) gives {w}")
            mb.add(f"c19.pairs 1 {int(delta)} {to_wire(delta)} {to_wire(rtol)} {1 if all_ else 0} {len(lat)} " + wire_list(lat.flatten().tolist()), cbp)
        except Exception as e:
            ctx.fail(c, f"ties-raises: pair_id raised on the lattice: {excs(e)}")
    # (c) quarter / half turns with |v| == |w| bit for bit, both hemispheres, axis-aligned and generic; equal diagonal entries
    h = math.sqrt(0.5)
    qs = [[h, 0, 0, h], [0, h, 0, h], [0, 0, h, -h], [-h, 0, 0, -h], [0.5, 0.5, 0.5, 0.5], [-0.5, 0.5, -0.5, -0.5], [1.0, 0, 0, 0], [0, 0, -1.0, 0],
          [h, h, 0, 0], [0.5, 0.5, 0.5, -0.5], ident, [0, 0, 0, -1.0]]
    for dtype in ("float64", "float32"):
        eps = EPS[dtype]
        Q = torch.tensor(qs, dtype=torch.float64).to(DT[dtype])
        c = {"kind": "ties", "what": "quarter/half turns", "dtype": dtype}
        ctx.note_case(("pass4", "ties", "geo", dtype), True)
        ctx.count("ties.geo")
        try:
            I = P.identity_SO3(len(qs), dtype=DT[dtype])
            got = P.geodesic_loss(P.SO3(Q), I, reduction="none").double().numpy()
            want = R.qangle(Q.double().numpy())
            if not np.abs(got - want).max() <= 24 * eps:
                j = int(np.abs(got - want).argmax())
                ctx.fail(c | {"item": j}, f"ties: geodesic_loss of the exact turn {qs[j]} against the identity is {got[j]!r}, the angle is {want[j]!r}")
            for j, qv in enumerate(Q.double().tolist()):
                def cbg(rep, g_=float(got[j]), j=j, c=c, eps=eps):
                    if not abs(nums(rep)[0] - g_) <= 24 * eps:
                        ctx.disagree("geo", c, f"exact turn {j}: implementation {g_!r} model {nums(rep)[0]!r}")
                mb.add(f"c19.geo {to_wire(eps)} " + wire_list(qv + ident), cbg)
            # the same turns as relative rotations of bspline control poses and as ape rotation errors
            base = rand_poses_t(g, (1,))[0]
            seq = [base.numpy()]
            for qv in qs[:6] + qs[9:10]:
                seq.append(R.se3_vec(R.se3_mul((seq[-1][:3], seq[-1][3:]), (np.array([0.3, -0.2, 0.1]), np.array(qv, dtype=np.float64)))))
            case_bs = {"kind": "bs", "dtype": dtype, "N": len(seq), "batch": [], "interval": 0.5, "extrapolate": False, "gen": "walk", "rot": 1.57,
                       "tscale": 1.0, "flip": False, "continuity": 0, "seed": CORPUS_SEED + 41, "_X": torch.tensor(np.stack(seq)).to(DT[dtype])}
            check_bs(ctx, case_bs, mb)
            refp = rand_poses_t(g, (len(qs),)).numpy()
            estp = np.stack([R.se3_vec(R.se3_mul((p_[:3], p_[3:]), (np.zeros(3), np.array(qv, dtype=np.float64)))) for p_, qv in zip(refp, qs)])
            for et in ("radian", "degree", "rotation"):
                with warnings.catch_warnings():
                    warnings.simplefilter("ignore")
                    r_ = A.ape(None, se3t(refp, dtype), None, se3t(estp, dtype), etype=et)
                rp64, ep64 = se3t(refp, dtype).tensor().double().numpy(), se3t(estp, dtype).tensor().double().numpy()
                want = np_stats(np_rel_errors(et, rp64, ep64, False))
                bad = stats_close(stat_vals(r_), want, 8 * err_tol(et, 1.0) + (16 * eps * 60 if dtype == "float32" else 0), len(qs))
                if bad:
                    ctx.fail(c | {"etype": et}, f"ties: ape(etype={et}) with exact quarter/half-turn rotation errors: {bad} = {float(r_[bad])!r}, documented {want[STAT_KEYS.index(bad)]!r}")
        except Exception as e:
            ctx.fail(c, f"ties-raises: exact turns raised: {excs(e)}")
    # (d) equal singular values in the alignment: translations on the vertices of a cube / octahedron
    cube = np.array([[x, y, z] for x in (-1.0, 1.0) for y in (-1.0, 1.0) for z in (-1.0, 1.0)])
    octa = np.array([[1.0, 0, 0], [-1.0, 0, 0], [0, 1.0, 0], [0, -1.0, 0], [0, 0, 1.0], [0, 0, -1.0]])
    for nm, V in (("cube", cube), ("octahedron", octa)):
        refp = np.concatenate([V, R.qnormalize(rand_unit_quats(g, len(V)).numpy())], -1)
        S = (1.7, R.rand_quat(random.Random(7)), np.array([0.3, -2.0, 5.0]))
        estp = R.apply_sim(1 / S[0], R.qconj(S[1]), -R.qrot(R.qconj(S[1]), S[2]) / S[0], refp)       # est = S^-1 ref  =>  aligned est = ref
        c = {"kind": "ties", "what": f"equal singular values ({nm})"}
        ctx.note_case(("pass4", "ties", "svd", nm), True)
        ctx.count("ties.svd")
        try:
            with warnings.catch_warnings():
                warnings.simplefilter("ignore")
                z = A.ape(None, P.SE3(torch.tensor(refp)), None, P.SE3(torch.tensor(estp)), etype="pose", align=True, scale=True)
                z2 = A.ape(None, P.SE3(torch.tensor(refp)), None, P.SE3(torch.tensor(R.left_mul((S[2], S[1]), refp))), etype="translation", align=True)
            for zz, lab in ((z, "similarity"), (z2, "rigid")):
                wv = nmax(abs(float(zz[k_])) for k_ in STAT_KEYS if k_ != "SSE")
                if not wv <= 1e4 * EPS64:
                    ctx.fail(c | {"transform": lab}, f"ties: ape(align) of a trajectory on the vertices of a {nm} (three equal singular values) against its {lab} image is {wv:.3e}, expected 0")
        except Exception as e:
            ctx.fail(c, f"ties-raises: ape(align) raised on the {nm}: {excs(e)}")
    # ------------------------------------------------------------ class 21: user subclasses
    class MyLie(P.LieTensor):
        pass

    class MyLoss(P.module.GeodesicLoss):
        def forward(self, input, target):
            return super().forward(input, target) * 2.0
    Xs = rand_poses_t(g, (2, 6))
    lie_sub_ok = True
    try:                      # scope rule: a user subclass of LieTensor loses its ltype inside the library on the unchanged tree
        MyLie(Xs.clone(), ltype=P.SE3_type).Inv().ltype        # (observation in the notes) -> only exercised if it works at all
    except Exception:
        lie_sub_ok = False
        ctx.count("subclass.LieTensor-unsupported")
    c = {"kind": "subclass", "fn": "bspline"}
    if lie_sub_ok:
        expect_same(ctx, c, "user LieTensor subclass", P.bspline(lt(Xs), 0.4, True).tensor(), lambda: P.bspline(MyLie(Xs.clone(), ltype=P.SE3_type), 0.4, True).tensor())
    c = {"kind": "subclass", "fn": "geodesic_loss"}
    if lie_sub_ok:
        expect_same(ctx, c, "user LieTensor subclass", P.geodesic_loss(lt(Xs[0]), lt(Xs[1]), reduction="none"),
                    lambda: P.geodesic_loss(MyLie(Xs[0].clone(), ltype=P.SE3_type), MyLie(Xs[1].clone(), ltype=P.SE3_type), reduction="none"))
    expect_same(ctx, c, "user GeodesicLoss subclass follows its own forward", P.geodesic_loss(lt(Xs[0]), lt(Xs[1]), reduction="sum") * 2.0,
                lambda: MyLoss(reduction="sum")(lt(Xs[0]), lt(Xs[1])))
    c = {"kind": "subclass", "fn": "ape/rpe"}
    st6 = torch.arange(6, dtype=torch.float64)
    with warnings.catch_warnings():
        warnings.simplefilter("ignore")
        ra_ = A.ape(st6, lt(Xs[0]), st6, lt(Xs[1]), etype="pose", align=True)
        rr_ = A.rpe(st6, lt(Xs[0]), st6, lt(Xs[1]), etype="radian")
    class MyMod(torch.nn.Module):          # plain nn.Module / function versions of the same loss
        def forward(self, a_, b_):
            return P.geodesic_loss(a_, b_, reduction="sum")
    expect_same(ctx, {"kind": "subclass", "fn": "geodesic_loss"}, "plain nn.Module wrapper", P.geodesic_loss(lt(Xs[0]), lt(Xs[1]), reduction="sum"), lambda: MyMod()(lt(Xs[0]), lt(Xs[1])))
    if lie_sub_ok:
      expect_same(ctx, c, "user LieTensor subclass (ape)", ra_, lambda: A.ape(st6, MyLie(Xs[0].clone(), ltype=P.SE3_type), st6, MyLie(Xs[1].clone(), ltype=P.SE3_type), etype="pose", align=True))
      expect_same(ctx, c, "user LieTensor subclass (rpe)", rr_, lambda: A.rpe(st6, MyLie(Xs[0].clone(), ltype=P.SE3_type), st6, MyLie(Xs[1].clone(), ltype=P.SE3_type), etype="radian"))
    # ------------------------------------------------------------ class 22: clocks above 2^24 / UNIX epochs with float32 poses
    M = 12
    refp, estp = rand_poses_t(g, (M,)), rand_poses_t(g, (M,))
    for ti, (stamps_r, stamps_e, diff, off) in enumerate([
            (torch.arange(M, dtype=torch.int64) * 2 + (2 ** 24 + 1), torch.arange(M, dtype=torch.int64) * 2 + (2 ** 24 + 1), 0.5, 0.0),
            (torch.arange(M, dtype=torch.int64) * 2 + (2 ** 24 + 1), torch.arange(M, dtype=torch.int64) * 2 + (2 ** 24 + 2), 1.5, 0.0),
            (torch.arange(M, dtype=torch.int64) * 100 + 1700000000000, torch.arange(M, dtype=torch.int64) * 100 + 1700000000007, 10.0, 0.0),
            (torch.arange(M, dtype=torch.float64) * 0.004 + 1700000000.25, torch.arange(M, dtype=torch.float64) * 0.004 + 1700000000.251, 0.002, 0.0),
            (torch.arange(M, dtype=torch.float64) * 0.004 + 1700000000.25, torch.arange(M, dtype=torch.float64) * 0.004 + 0.251, 0.002, 1700000000.0),
            (torch.arange(M, dtype=torch.int64) + (2 ** 53 - 64), torch.arange(M, dtype=torch.int64) + (2 ** 53 - 64), 0.5, 0.0)]):
        for dtype in ("float32", "float64"):
            c = {"kind": "clock", "index": ti, "dtype": dtype, "first_stamp": float(stamps_r[0]), "diff": diff, "offset": off}
            ctx.note_case(("pass4", "clock", ti, dtype), True)
            ctx.count("clock")
            try:
                with warnings.catch_warnings():
                    warnings.simplefilter("ignore")
                    r1 = A.ape(stamps_r, se3t(refp.numpy(), dtype), stamps_e, se3t(estp.numpy(), dtype), etype="pose", diff=diff, offset=off)
                    r0 = A.ape(None, se3t(refp.numpy(), dtype), None, se3t(estp.numpy(), dtype), etype="pose")
                    q1 = A.rpe(stamps_r, se3t(refp.numpy(), dtype), stamps_e, se3t(estp.numpy(), dtype), etype="radian", diff=diff, offset=off, all=True)
                    q0 = A.rpe(None, se3t(refp.numpy(), dtype), None, se3t(estp.numpy(), dtype), etype="radian", all=True)
                if not (bits_eq(r1, r0) and bits_eq(q1, q0)):
                    ctx.fail(c, f"clock: ape/rpe with {dtype} poses and stamps starting at {float(stamps_r[0])!r} ({stamps_r.dtype}) do not pair pose i with pose i "
                                f"(differs from the result with index stamps)")
            except Exception as e:
                ctx.fail(c, f"clock-raises: ape/rpe raised with large stamps: {excs(e)}")
    # ------------------------------------------------------------ class 23: a key first seen under inference_mode / no_grad, then autograd
    for ki, (N_, iv_, dtype) in enumerate([(11, 0.37, "float64"), (13, 0.23, "float32"), (17, 0.41, "float64")]):
        D_ = DT[dtype]
        pts = torch.randn(N_, 3, generator=g, dtype=torch.float64).to(D_)
        Xk = rand_poses_t(g, (N_,)).to(D_)
        qa, qb = rand_unit_quats(g, N_).to(D_), rand_unit_quats(g, N_).to(D_)
        stN = torch.arange(N_, dtype=torch.float64) * 0.37
        calls = {"chspline": lambda p_=pts: P.chspline(p_, iv_), "bspline": lambda x_=Xk: P.bspline(lt(x_), iv_, True).tensor(),
                 "geodesic_loss": lambda a_=qa, b_=qb: P.geodesic_loss(P.SO3(a_), P.SO3(b_)),
                 "ape": lambda x_=Xk: A.ape(stN, lt(x_.double()), stN, lt(x_.double().flip(0)), etype="pose", align=True)["RMSE"]}
        for nm, f in calls.items():
            for first in ("inference_mode", "no_grad"):
                c = {"kind": "modecache", "fn": nm, "first_mode": first, "key": [N_, iv_, dtype]}
                ctx.note_case(("pass4", "modecache", nm, first, ki), True)
                ctx.count("modecache")
                try:
                    with warnings.catch_warnings():
                        warnings.simplefilter("ignore")
                        with (torch.inference_mode() if first == "inference_mode" else torch.no_grad()):
                            v0 = f()
                        leaf = {"chspline": pts, "bspline": Xk, "geodesic_loss": qa, "ape": Xk}[nm].clone().requires_grad_(True)
                        if nm == "geodesic_loss":
                            v1 = P.geodesic_loss(P.SO3(leaf), P.SO3(qb))
                        else:
                            v1 = f(leaf)
                        v1s = v1.sum() if v1.dim() else v1
                        v1s.backward()
                    if leaf.grad is None or not bool(torch.isfinite(leaf.grad).all()):
                        ctx.fail(c, f"modecache: {nm} called under autograd after a first call of the same size under {first}: no finite gradient")
                    if not bits_eq(v0.clone() if hasattr(v0, "clone") else v0, v1.detach()):
                        ctx.fail(c, f"modecache: {nm} under autograd (after a first call under {first}) returns other values")
                except Exception as e:
                    ctx.fail(c, f"modecache-raises: {nm} under autograd after a first call under {first} raised {excs(e)}")
    # ------------------------------------------------------------ class 25: process-wide default dtype x operand dtype, metadata compared
    old_default = torch.get_default_dtype()
    try:
        results = {}
        for dflt in (torch.float32, torch.float64, torch.float32):
            torch.set_default_dtype(dflt)
            for dtype in ("float32", "float64"):
                D_ = DT[dtype]
                pts = (torch.arange(30, dtype=torch.float64).reshape(5, 6) * 0.37 % 1.9).reshape(2, 5, 3).to(D_)
                Xd_ = torch.tensor(R.walk(random.Random(5), 6, 1.0, 0.7), dtype=torch.float64).to(D_)
                qx_ = torch.tensor(np.stack([R.rand_quat(random.Random(9 + i)) for i in range(4)]), dtype=torch.float64).to(D_)
                stD = torch.arange(6, dtype=torch.float64)
                with warnings.catch_warnings():
                    warnings.simplefilter("ignore")
                    outs = {"chspline": P.chspline(pts, 0.3), "bspline": P.bspline(lt(Xd_), 0.3), "bspline(extrapolate)": P.bspline(lt(Xd_), 0.3, True),
                            "geodesic(none)": P.geodesic_loss(P.SO3(qx_), P.SO3(qx_.flip(0)), reduction="none"),
                            "geodesic(mean)": P.geodesic_loss(P.SO3(qx_), P.SO3(qx_.flip(0))),
                            "geodesic(so3)": P.geodesic_loss(P.SO3(qx_).Log(), P.SO3(qx_.flip(0)), reduction="sum"),
                            "GeodesicLoss": P.module.GeodesicLoss("sum")(P.SO3(qx_), P.SO3(qx_.flip(0))),
                            "ape": A.ape(stD, lt(Xd_), stD, lt(Xd_.flip(0)), etype="pose", align=True, scale=True)["RMSE"],
                            "ape(origin)": A.ape(stD, lt(Xd_), stD, lt(Xd_.flip(0)), etype="radian", origin=True)["Max"],
                            "rpe": A.rpe(stD, lt(Xd_), stD, lt(Xd_.flip(0)), etype="translation", all=True)["Mean"]}
                for nm, o in outs.items():
                    c = {"kind": "defaultdtype", "fn": nm, "default": str(dflt), "operand": dtype}
                    ctx.note_case(("pass4", "defaultdtype", nm, str(dflt), dtype), True)
                    ctx.count("defaultdtype")
                    want_dt = torch.float64 if nm in ("ape", "ape(origin)", "rpe") else D_
                    if o.dtype != want_dt:
                        ctx.fail(c, f"defaultdtype: {nm} with {dtype} operands under default {dflt} returns dtype {o.dtype}, documented {want_dt}")
                    if nm.startswith("bspline") and (type(o).__name__ != "LieTensor" or o.ltype != P.SE3_type):
                        ctx.fail(c, f"defaultdtype: {nm} returned {type(o).__name__} / {getattr(o, 'ltype', None)}")
                    key = (nm, dtype)
                    ot = o.tensor() if hasattr(o, "ltype") else o
                    if key in results and not bits_eq(results[key], ot):
                        ctx.fail(c, f"defaultdtype: {nm} with {dtype} operands gives other values under default {dflt} than under the previous default")
                    results[key] = ot.clone()
    except Exception as e:
        ctx.fail({"kind": "defaultdtype"}, f"defaultdtype-raises: {excs(e)}")
    finally:
        torch.set_default_dtype(old_default)
    # ------------------------------------------------------------ class 26: sign conventions
    M = 10
    refp, estp = rand_poses_t(g, (M,)), rand_poses_t(g, (M,))
    base = torch.arange(M, dtype=torch.float64) * 0.5
    with warnings.catch_warnings():
        warnings.simplefilter("ignore")
        r0 = A.ape(base, P.SE3(refp), base, P.SE3(estp), etype="pose")
        q0 = A.rpe(base, P.SE3(refp), base, P.SE3(estp), etype="rotation", all=True)
    for ti, (rs_, es_, off) in enumerate([(base - 100.0, base - 100.0, 0.0), (base - 2.0, base - 2.0, 0.0), (-base.flip(0), -base.flip(0), 0.0),
                                           (base, base + 7.0, -7.0), (base, base - 7.0, 7.0), (base - 3.0, base + 1.0, -4.0), (base * 0.0 + base, base - 1e-3, 1e-3)]):
        c = {"kind": "signs", "what": "stamps / offset", "index": ti, "first_rstamp": float(rs_[0]), "first_estamp": float(es_[0]), "offset": off}
        expect_same(ctx, c | {"fn": "ape"}, f"negative / zero-crossing stamps, offset {off}", r0, lambda: A.ape(rs_, P.SE3(refp), es_, P.SE3(estp), etype="pose", offset=off))
        expect_same(ctx, c | {"fn": "rpe"}, f"negative / zero-crossing stamps, offset {off}", q0, lambda: A.rpe(rs_, P.SE3(refp), es_, P.SE3(estp), etype="rotation", all=True, offset=off))
    # all-negative / mixed-sign translations: moving everything into the negative octant is a common left transformation
    shift = np.array([-1e3, -2e3, -5e2])
    with warnings.catch_warnings():
        warnings.simplefilter("ignore")
        for kw in (dict(etype="translation"), dict(etype="pose", align=True), dict(etype="pose", scale=True), dict(etype="radian", origin=True)):
            a0 = A.ape(base, P.SE3(refp), base, P.SE3(estp), **kw)
            a1 = A.ape(base, P.SE3(torch.tensor(R.left_mul((shift, np.array(ident)), refp.numpy()))), base,
                       P.SE3(torch.tensor(R.left_mul((shift, np.array(ident)), estp.numpy()))), **kw)
            c = {"kind": "signs", "what": "all-negative translations", "kwargs": {k_: str(v_) for k_, v_ in kw.items()}}
            ctx.note_case(("pass4", "signs", "neg", str(kw)), True)
            bad = stats_close(stat_vals(a1), stat_vals(a0), 64 * EPS64 * 5e3 * (1e3 if ("align" in kw or "scale" in kw) else 8), M)
            if bad:
                ctx.fail(c, f"signs: ape({kw}) changes when both trajectories are shifted into the negative octant: {bad} {float(a0[bad])!r} -> {float(a1[bad])!r}")
    # negative / zero scalars that the documentation excludes must be refused (or at least not silently accepted with garbage)
    for nm, f in (("chspline interval=-0.5", lambda: P.chspline(torch.zeros(4, 2), -0.5)), ("chspline interval=0", lambda: P.chspline(torch.zeros(4, 2), 0.0)),
                  ("bspline interval=-0.5", lambda: P.bspline(P.randn_SE3(5), -0.5)), ("rpe delta=-1 (frame)", lambda: A.rpe(base, P.SE3(refp), base, P.SE3(estp), delta=-1.0)),
                  ("rpe delta=0 (frame)", lambda: A.rpe(base, P.SE3(refp), base, P.SE3(estp), delta=0.0)),
                  ("decreasing stamps", lambda: A.ape(base.flip(0), P.SE3(refp), base.flip(0), P.SE3(estp))),
                  ("negative diff", lambda: A.ape(base, P.SE3(refp), base, P.SE3(estp), diff=-0.01))):
        c = {"kind": "signs", "what": nm}
        ctx.note_case(("pass4", "signs", nm), True)
        ctx.count("signs.rejected")
        try:
            with warnings.catch_warnings():
                warnings.simplefilter("ignore")
                out = f()
            ctx.fail(c, f"signs: {nm} was accepted and returned {type(out).__name__} instead of being refused")
        except Exception:
            pass


# ============================================================================= round 5 (classes 29-36)

LIE_DIMS = {"SO3": 4, "SE3": 7, "RxSO3": 5, "Sim3": 8, "so3": 3, "se3": 6, "rxso3": 4, "sim3": 7}


def lie_rand(P, g, name, shape, dtype):
    def rn(k_):
        return torch.randn(*shape, k_, generator=g, dtype=torch.float64)

    def uq():
        q = rn(4)
        return q / q.norm(dim=-1, keepdim=True)
    data = {"SO3": lambda: uq(), "SE3": lambda: torch.cat([rn(3), uq()], -1), "RxSO3": lambda: torch.cat([uq(), rn(1).abs() + 0.5], -1),
            "Sim3": lambda: torch.cat([rn(3), uq(), rn(1).abs() + 0.5], -1), "so3": lambda: rn(3) * 0.5, "se3": lambda: rn(6) * 0.5,
            "rxso3": lambda: rn(4) * 0.5, "sim3": lambda: rn(7) * 0.5}[name]()
    return P.LieTensor(data.to(dtype), ltype=getattr(P, name + "_type"))


def lie_battery(ctx: Ctx, P, g, shapes):
    """class 32: EVERY public LieTensor operation, forward and backward, on single items / all-1 batches / batches, both dtypes"""
    for dtype in (torch.float64, torch.float32):
        for name in GEO_TYPES:
            group = name[0].isupper()
            for shape in shapes:
                X = lie_rand(P, g, name, shape, dtype)
                a = lie_rand(P, g, name.lower(), shape, dtype) if group else None
                X2 = lie_rand(P, g, name, shape, dtype)
                p3 = torch.randn(*shape, 3, generator=g, dtype=torch.float64).to(dtype)
                p4 = torch.randn(*shape, 4, generator=g, dtype=torch.float64).to(dtype)
                if group:
                    ops = {"Log": lambda Z: Z.Log(), "Inv": lambda Z: Z.Inv(), "matrix": lambda Z: Z.matrix(), "rotation": lambda Z: Z.rotation(),
                           "translation": lambda Z: Z.translation(), "scale": lambda Z: Z.scale(), "Adj": lambda Z: Z.Adj(a), "AdjT": lambda Z: Z.AdjT(a),
                           "Act3": lambda Z: Z.Act(p3), "Act4": lambda Z: Z.Act(p4), "Mul": lambda Z: Z @ X2, "MulInv": lambda Z: Z.Inv() @ X2,
                           "Jinvp": lambda Z: Z.Jinvp(a), "Retr": lambda Z: Z.Retr(a), "identity_": lambda Z: Z.clone().identity_()}
                else:
                    ops = {"Exp": lambda Z: Z.Exp(), "matrix": lambda Z: Z.matrix(), "Jr": lambda Z: Z.Jr(), "ExpLog": lambda Z: Z.Exp().Log(),
                           "rotation": lambda Z: Z.rotation(), "ExpAct": lambda Z: Z.Exp().Act(p3), "ExpAdj": lambda Z: Z.Exp().Adj(X2)}
                for on, op in ops.items():
                    for grad in (False, True):
                        try:
                            with warnings.catch_warnings():
                                warnings.simplefilter("ignore")
                                if grad:
                                    leaf = X.tensor().clone().requires_grad_(True)
                                    o = op(P.LieTensor(leaf, ltype=X.ltype))
                                    o = o.tensor() if hasattr(o, "ltype") else o
                                    o.sum().backward()
                                else:
                                    op(X)
                            ctx.count("interleave.battery-op")
                        except Exception:
                            ctx.count("interleave.battery-unsupported")


def exact_translation_traj(ks):
    """poses with identity rotation whose positions are (3k, 4k, 0): |p| = 5k exactly"""
    return np.array([[3.0 * k_, 4.0 * k_, 0.0, 0.0, 0.0, 0.0, 1.0] for k_ in ks])


def admissible_match(s, l, diff, off):
    """for every stamp of s: the list of ALL nearest indices of l + off (exact ties), or [] when the nearest is not < diff"""
    l2 = [x + off for x in l]
    out = []
    for si in s:
        d = [abs(si - x) for x in l2]
        m = min(d)
        out.append([j for j, dj in enumerate(d) if dj == m] if m < diff else [])
    return out


def run_pass5(ctx: Ctx, mb: MB):
    import os, time
    P = pp()
    A = AR()
    quick = ctx.quick
    _t = [time.time()]

    def lap(tag):
        if os.environ.get("C19_PROF"):
            print(f"  [prof] pass5 {tag}: {time.time() - _t[0]:.2f}s", flush=True)
        _t[0] = time.time()
    g = torch.Generator().manual_seed(CORPUS_SEED + 5)
    rnd = random.Random(CORPUS_SEED + 55)
    rnd_s = random.Random(ctx.seed * 7919 + 5)           # a seed-dependent share of the generated tie / band cases
    lt = lambda t: P.LieTensor(t, ltype=P.SE3_type)
    ident = [0.0, 0.0, 0.0, 1.0]

    def quiet(f):
        with warnings.catch_warnings():
            warnings.simplefilter("ignore")
            return f()
    # ------------------------------------------------------------ class 35: ties at selection boundaries — every choice decided
    # (a) stamp association on half-integer lattices with duplicates: several candidates exactly equidistant
    n_cases = ctx.pick(40, 400)
    for ci in range(n_cases):
        r_ = rnd if ci % 2 == 0 else rnd_s
        n1, n2 = r_.randint(2, 7), r_.randint(2, 9)
        s1 = sorted(r_.randint(0, 12) * 0.5 for _ in range(n1))
        s2 = sorted(r_.randint(0, 12) * 0.5 for _ in range(n2))
        diff = r_.choice([0.5, 0.75, 1.0, 1.5, 0.25])
        off = r_.choice([0.0, 0.0, 0.5, -1.0, 0.25])
        c = {"kind": "ties35", "what": "stamps", "s1": s1, "s2": s2, "diff": diff, "offset": off}
        ctx.note_case(("pass5", "ties35", "stamps", json_sig(c)), True)
        ctx.count("ties35.stamps")
        try:
            mi = A.matching_time_indices(torch.tensor(s1, dtype=torch.float64), torch.tensor(s2, dtype=torch.float64), diff, off)
            got = list(zip(mi[0], mi[1]))
            adm = admissible_match(s1, s2, diff, off)
            want_i = [i for i, cand in enumerate(adm) if cand]
            if [p_[0] for p_ in got] != want_i or any(p_[1] not in adm[p_[0]] for p_ in got):
                ctx.fail(c, f"ties35: matching_time_indices gives {got}; admissible partners (nearest stamp, strictly closer than diff) are "
                            f"{[(i, adm[i]) for i in want_i]}")
            flat = [x for p_ in got for x in p_]

            def cbt(rep, flat=flat, c=c):
                st_, toks = common.parse_reply(rep)
                if st_ != "ok" or [int(t) for t in toks] != flat:
                    ctx.disagree("match", c, f"tied stamps: implementation {flat} model (first index on ties) {rep[:60]}")
            mb.add(f"c19.match {to_wire(diff)} {to_wire(off)} {len(s1)} {wire_list(s1)} {len(s2)} {wire_list(s2)}", cbt)
        except Exception as e:
            ctx.fail(c, f"ties35-raises: matching_time_indices raised on tied stamps: {excs(e)}")
        # end to end: ape must equal the documented error for SOME admissible association (shorter trajectory is matched into the longer)
        if ci % 2 == 0:
            s1, s2 = sorted(set(s1)), sorted(set(s2))          # StampedSE3 wants ascending stamps; exact two-sided ties remain
            c = {"kind": "ties35", "what": "ape on tied stamps", "s1": s1, "s2": s2, "diff": diff, "offset": off}
            try:
                rp_ = exact_translation_traj([r_.randint(0, 5) for _ in s1])
                ep_ = exact_translation_traj([r_.randint(0, 5) for _ in s2])
                res = quiet(lambda: A.ape(tens(s1), se3t(rp_), tens(s2), se3t(ep_), etype="translation", diff=diff, offset=off))
                vals = stat_vals(res)
                if len(s2) > len(s1):
                    adm2 = admissible_match(s1, s2, diff, off)
                    combos = [list(zip([i for i, cd in enumerate(adm2) if cd], ch)) for ch in itertools.islice(itertools.product(*[cd for cd in adm2 if cd]), 512)]
                    pairs_all = [[(i, j) for i, j in cmb] for cmb in combos]
                else:
                    adm2 = admissible_match(s2, s1, diff, -off)
                    combos = [list(zip([i for i, cd in enumerate(adm2) if cd], ch)) for ch in itertools.islice(itertools.product(*[cd for cd in adm2 if cd]), 512)]
                    pairs_all = [[(j, i) for i, j in cmb] for cmb in combos]
                ok = False
                for pr in pairs_all:
                    if not pr:
                        continue
                    want = np_stats(np_rel_errors("translation", rp_[[a_ for a_, _ in pr]], ep_[[b_ for _, b_ in pr]], False))
                    if stats_close(vals, want, 64 * EPS64 * 30, len(pr)) is None:
                        ok = True
                        break
                ctx.count("ties35.ape")
                if not ok:
                    ctx.fail(c | {"rk": [int(p_[0] // 3) for p_ in rp_], "ek": [int(p_[0] // 3) for p_ in ep_]},
                             f"ties35: ape on tied stamps returns {vals[:4]}…, which is the documented error for NONE of the {len(pairs_all)} admissible associations")
            except AssertionError:
                ctx.count("ties35.ape-no-match")
            except Exception as e:
                ctx.fail(c, f"ties35-raises: ape raised on tied stamps: {excs(e)}")
    # (b) distance pairing on integer lattices (zero steps, 3-4-5 steps): exact '>= delta', exact argmin ties, |d - delta| == tol
    for ci in range(ctx.pick(30, 300)):
        r_ = rnd if ci % 2 == 0 else rnd_s
        L = r_.randint(3, 10)
        pos = [np.zeros(3)]
        for _ in range(L - 1):
            st_ = r_.choice([(0, 0, 0), (1, 0, 0), (2, 0, 0), (0, 1, 0), (3, 4, 0), (0, 0, 2), (1, 0, 0), (0, 3, 4)])
            pos.append(pos[-1] + np.array(st_, dtype=np.float64))
        lat = np.array([list(p_) + ident for p_ in pos])
        delta = r_.choice([1.0, 2.0, 3.0, 5.0, 1.5, 2.5, 4.0])
        rtol = r_.choice([0.0, 0.25, 0.5, 1.0])
        all_ = r_.random() < 0.6
        c = {"kind": "ties35", "what": "distance pairing", "positions": [list(map(float, p_)) for p_ in pos], "delta": delta, "rtol": rtol, "all": all_}
        ctx.note_case(("pass5", "ties35", "pairs", json_sig(c)), True)
        ctx.count("ties35.pairs")
        try:
            gp = quiet(lambda: A.pair_id(A.StampedSE3(None, P.SE3(torch.tensor(lat))), delta, "distance", rtol, all_))
            got = list(zip(list(gp[0]), list(gp[1])))
            # admissible choices (exact arithmetic: all distances are small integers)
            steps = [float(np.linalg.norm(pos[i + 1] - pos[i])) for i in range(L - 1)]
            dist = [0.0]
            for s_ in steps:
                dist.append(dist[-1] + s_)
            tol = delta * rtol
            if all_:
                adm = {}
                for i in range(L - 1):
                    dfh = [abs(dist[j] - dist[i] - delta) for j in range(i + 1, L)]
                    m = min(dfh)
                    if not m > tol:
                        adm[i] = [i + 1 + j for j, v in enumerate(dfh) if v == m]
                if [p_[0] for p_ in got] != sorted(adm) or any(p_[1] not in adm[p_[0]] for p_ in got):
                    ctx.fail(c, f"ties35: pair_id(distance, all=True) gives {got}; admissible targets (nearest to delta, within tol) are {sorted(adm.items())}")
            else:
                want, _ = R.pairs_dist_oracle(lat[:, :3], delta, tol, False)
                if got != want:
                    ctx.fail(c, f"ties35: pair_id(distance) gives {got}; accumulating the path until it is >= delta gives {want}")
            flat = [int(x) for p_ in got for x in p_]

            def cbp(rep, flat=flat, c=c):
                st_, toks = common.parse_reply(rep)
                w = [int(t) for t in toks] if st_ == "ok" else None
                if w != flat:
                    ctx.disagree("pairs", c, f"tied distances: pair_id gives {flat}, the model (first index on ties) {w}")
            mb.add(f"c19.pairs 1 {int(delta)} {to_wire(delta)} {to_wire(rtol)} {1 if all_ else 0} {len(lat)} " + wire_list(lat.flatten().tolist()), cbp)
        except Exception as e:
            ctx.fail(c, f"ties35-raises: pair_id raised on the lattice: {excs(e)}")
    # (c) statistics of error lists with ties and even length: the Median is the LOWER median, Max/Min exact
    for ci in range(ctx.pick(30, 200)):
        r_ = rnd if ci % 2 == 0 else rnd_s
        n = r_.choice([2, 2, 3, 4, 4, 5, 6, 6, 8, 9, 10, 12])
        ks = [r_.randint(0, 6) for _ in range(n)]
        if ci == 0:
            ks = [1, 2, 3, 4]
        if ci == 2:
            ks = [1, 2, 2, 4, 4, 7]
        n = len(ks)
        errs = sorted(5.0 * k_ for k_ in ks)
        want = np_stats(errs)
        c = {"kind": "ties35", "what": "median", "k": ks}
        ctx.note_case(("pass5", "ties35", "median", tuple(ks)), True)
        ctx.count("ties35.median")
        try:
            refp = exact_translation_traj([0] * n)
            estp = exact_translation_traj(ks)
            ra = quiet(lambda: A.ape(None, se3t(refp), None, se3t(estp), etype="translation"))
            cum = np.cumsum([0] + ks)
            rr = quiet(lambda: A.rpe(None, se3t(exact_translation_traj([0] * (n + 1))), None, se3t(exact_translation_traj(cum)), etype="translation", all=True))
            for nm, res in (("ape", ra), ("rpe", rr)):
                v = stat_vals(res)
                if not (v[0] == want[0] and v[1] == want[1] and v[3] == want[3]):
                    ctx.fail(c | {"fn": nm}, f"ties35: {nm} over the exact errors {errs}: Max/Min/Median = {v[0]!r}/{v[1]!r}/{v[3]!r}, documented "
                                             f"{want[0]!r}/{want[1]!r}/{want[3]!r} (Median = lower median of an even-length list)")
                bad = stats_close(v, want, 64 * EPS64 * 30, n)
                if bad:
                    ctx.fail(c | {"fn": nm}, f"ties35: {nm} over the exact errors {errs}: {bad} = {v[STAT_KEYS.index(bad)]!r}, documented {want[STAT_KEYS.index(bad)]!r}")
                one = quiet(lambda: (A.ape(None, se3t(refp), None, se3t(estp), etype="translation", otype="Median") if nm == "ape" else
                                     A.rpe(None, se3t(exact_translation_traj([0] * (n + 1))), None, se3t(exact_translation_traj(cum)), etype="translation", all=True, otype="Median")))
                if float(one) != want[3]:
                    ctx.fail(c | {"fn": nm}, f"ties35: {nm}(otype='Median') = {float(one)!r}, the lower median of {errs} is {want[3]!r}")
        except Exception as e:
            ctx.fail(c, f"ties35-raises: ape/rpe raised on exact errors: {excs(e)}")
    lap("ties35")
    # ------------------------------------------------------------ class 36: the band between round-off and a 'helpful' tolerance
    # (a) stamps differing by 2^-40 … 2^-27 (1e-12 … 7e-9): everything dyadic, so float and exact arithmetic agree on every decision
    for ci in range(ctx.pick(60, 400)):
        r_ = rnd if ci % 2 == 0 else rnd_s
        u = 2.0 ** -40
        pert = lambda: r_.choice([0, 0, 1, -1, 3, 2 ** 6, -2 ** 9, 2 ** 13, -2 ** 11, 2 ** 10]) * u
        n1, n2 = r_.randint(2, 6), r_.randint(3, 8)
        base1 = sorted(set(r_.randint(0, 40) for _ in range(n1)))
        base2 = sorted(set(r_.randint(0, 40) for _ in range(n2)))
        shape = ci % 4
        if shape == 0:            # candidates on both sides at distances d and d(1 +- tiny): the nearer must win, not the first
            s1 = [b_ * 0.25 for b_ in base1]
            s2 = sorted(set(x for b_ in base1 for x in (b_ * 0.25 - 0.125 - abs(pert()), b_ * 0.25 + 0.125 + abs(pert()))))
            diff = 0.2
        elif shape == 1:          # distance to the partner is diff(1 -+ tiny): strictly-closer decides
            s1 = [b_ * 0.25 for b_ in base1]
            diff = 0.0625
            s2 = sorted(set(b_ * 0.25 + r_.choice([-1, 1]) * (diff + pert()) for b_ in base1))
        elif shape == 2:          # nearly identical stamps, tiny diff
            s1 = [b_ * 0.25 + pert() for b_ in base1]
            s2 = [b_ * 0.25 + pert() for b_ in base1]
            diff = r_.choice([2 ** 6, 2 ** 10, 2 ** 13, 3]) * u
        else:
            s1 = [b_ * 0.25 + pert() for b_ in base1]
            s2 = [b_ * 0.25 + pert() for b_ in base2]
            diff = 0.125 + pert()
        off = r_.choice([0.0, 0.0, 0.25, -0.5])
        s2 = [x - off for x in s2]
        if sorted(s1) != s1 or sorted(s2) != s2 or len(s1) < 1 or len(s2) < 1:
            continue
        c = {"kind": "band36", "what": "stamps", "s1": s1, "s2": s2, "diff": diff, "offset": off}
        ctx.note_case(("pass5", "band36", "stamps", json_sig(c)), True)
        ctx.count("band36.stamps")
        try:
            mi = A.matching_time_indices(torch.tensor(s1, dtype=torch.float64), torch.tensor(s2, dtype=torch.float64), diff, off)
            got = [x for p_ in zip(mi[0], mi[1]) for x in p_]
            want, _ = R.match_oracle(s1, s2, diff, off)
            wflat = [x for p_ in want for x in p_]
            if got != wflat:
                ctx.fail(c, f"band36: matching_time_indices gives {got} on stamps that differ by 1e-12…1e-8; nearest stamp strictly closer than diff gives {wflat}")

            def cbt(rep, got=got, c=c):
                st_, toks = common.parse_reply(rep)
                if st_ != "ok" or [int(t) for t in toks] != got:
                    ctx.disagree("match", c, f"nearly tied stamps: implementation {got} model {rep[:60]}")
            mb.add(f"c19.match {to_wire(diff)} {to_wire(off)} {len(s1)} {wire_list(s1)} {len(s2)} {wire_list(s2)}", cbt)
        except Exception as e:
            ctx.fail(c, f"band36-raises: matching_time_indices raised: {excs(e)}")
    # stamps that decrease by a tiny amount must be refused like any non-ascending stamps; equal stamps are accepted
    for ti, (st_, okay) in enumerate([([0.0, 1.0, 1.0 - 2.0 ** -40, 2.0], False), ([0.0, 1.0, 1.0, 2.0], True), ([0.0, 1.0, 1.0 + 2.0 ** -40, 2.0], True),
                                      ([1e9, 1e9 + 1.0, 1e9 + 1.0 - 2.0 ** -20, 1e9 + 2.0], False)]):
        c = {"kind": "band36", "what": "ascending stamps", "stamps": st_}
        ctx.note_case(("pass5", "band36", "ascending", ti), True)
        ctx.count("band36.ascending")
        X4 = rand_poses_t(g, (4,))
        try:
            quiet(lambda: A.ape(tens(st_), P.SE3(X4), tens(st_), P.SE3(X4)))
            if not okay:
                ctx.fail(c, f"band36: stamps {st_} (decreasing by a tiny amount) were accepted; non-ascending stamps are documented to be refused")
        except Exception as e:
            if okay:
                ctx.fail(c, f"band36-raises: ascending stamps {st_} were refused: {excs(e)}")
    # (b) distance pairing with path lengths delta(1 -+ tiny) and tolerances tol(1 -+ tiny)
    for ci in range(ctx.pick(40, 300)):
        r_ = rnd if ci % 2 == 0 else rnd_s
        eta = r_.choice([2.0 ** -30, 2.0 ** -34, 1e-9, 1e-7, 2.0 ** -24])
        L = r_.randint(4, 9)
        xs = [0.0]
        for _ in range(L - 1):
            xs.append(xs[-1] + r_.choice([1.0, 1.0 - eta, 1.0 + eta, 2.0 - eta, 2.0 + 3 * eta, 0.5, 1.0 - 2 * eta]))
        axis = r_.choice([(1.0, 0.0, 0.0), (0.0, 1.0, 0.0), (0.6, 0.8, 0.0)])
        lat = np.array([[x * axis[0], x * axis[1], x * axis[2]] + ident for x in xs])
        delta = r_.choice([1.0, 2.0, 3.0])
        rtol = r_.choice([0.0, 0.5 * eta, 1.5 * eta, 2.5 * eta, 0.1])
        all_ = r_.random() < 0.6
        want, margin = R.pairs_dist_oracle(lat[:, :3], delta, delta * rtol, all_)
        if margin < 1e-13:
            ctx.count("band36.pairs-skip-exact-tie")
            continue
        c = {"kind": "band36", "what": "distance pairing", "x": xs, "axis": list(axis), "delta": delta, "rtol": rtol, "all": all_}
        ctx.note_case(("pass5", "band36", "pairs", json_sig(c)), True)
        ctx.count("band36.pairs")
        try:
            gp = quiet(lambda: A.pair_id(A.StampedSE3(None, P.SE3(torch.tensor(lat))), delta, "distance", rtol, all_))
            got = list(zip([int(x) for x in gp[0]], [int(x) for x in gp[1]]))
            if got != want:
                ctx.fail(c, f"band36: pair_id(distance, delta={delta}, rtol={rtol}, all={all_}) gives {got} on path lengths within {eta:.1e} of delta; the documented rule gives {want}")
            flat = [x for p_ in got for x in p_]

            def cbp(rep, flat=flat, c=c):
                st_, toks = common.parse_reply(rep)
                w = [int(t) for t in toks] if st_ == "ok" else None
                if w != flat:
                    ctx.disagree("pairs", c, f"nearly tied distances: pair_id gives {flat}, the model {w}")
            mb.add(f"c19.pairs 1 {int(delta)} {to_wire(delta)} {to_wire(rtol)} {1 if all_ else 0} {len(lat)} " + wire_list(lat.flatten().tolist()), cbp)
        except Exception as e:
            ctx.fail(c, f"band36-raises: pair_id raised: {excs(e)}")
    # (c) nearly equal rotations / poses: the loss and the errors must be the tiny angle / distance, not 0 and not clamped
    for dtype in ("float64",):
        angs = [10.0 ** e_ for e_ in (-13, -12, -11, -10, -9, -8, -7, -6, -5, -4)] + [3e-9, 7e-6, 2e-5]
        qa = rand_unit_quats(g, len(angs)).numpy()
        rel = np.stack([R.so3_exp(R.rand_unit(rnd) * a_) for a_ in angs])
        qb = R.qnormalize(R.qmul(qa, rel))
        c = {"kind": "band36", "what": "nearly equal rotations", "dtype": dtype}
        ctx.note_case(("pass5", "band36", "geo"), True)
        ctx.count("band36.geo")
        try:
            got = P.geodesic_loss(P.SO3(torch.tensor(qa)), P.SO3(torch.tensor(qb)), reduction="none").numpy()
            want = R.qangle(R.qmul(qa, R.qconj(qb)))
            e = np.abs(got - want)
            if not bool((e <= 24 * EPS64 + 1e-6 * want).all()):
                j = int((e - 1e-6 * want).argmax())
                ctx.fail(c | {"angle": angs[j]}, f"band36: geodesic_loss of two rotations {angs[j]:.1e} rad apart is {got[j]!r}, the angle is {want[j]!r}")
            for rd, ref in (("sum", want.sum()), ("mean", want.mean())):
                r__ = float(P.geodesic_loss(P.SO3(torch.tensor(qa)), P.SO3(torch.tensor(qb)), reduction=rd))
                if not abs(r__ - ref) <= 64 * EPS64 + 1e-6 * ref:
                    ctx.fail(c | {"reduction": rd}, f"band36: geodesic_loss(reduction={rd!r}) over nearly equal rotations is {r__!r}, documented {float(ref)!r}")
            # the same tiny motions as pose errors of ape / rpe (radian, translation, pose) at translation scale 1
            refp = rand_poses_t(g, (len(angs),)).numpy()
            dts = np.stack([R.rand_unit(rnd) * a_ for a_ in angs])
            estp = np.stack([R.se3_vec(R.se3_mul((p_[:3], p_[3:]), (dt_, q_))) for p_, dt_, q_ in zip(refp, dts, rel)])
            for et in ETYPES:
                for mode in ("none", "origin"):
                    res = quiet(lambda: A.ape(None, se3t(refp), None, se3t(estp), etype=et, **MODES[mode]))
                    ea = estp if mode == "none" else R.left_mul(R.se3_mul((refp[0, :3], refp[0, 3:]), R.se3_inv((estp[0, :3], estp[0, 3:]))), estp)
                    errs = np_rel_errors(et, refp, ea, False)
                    want_s = np_stats(errs)
                    v = stat_vals(res)
                    tau = err_tol(et, 3.0) * (16 if mode == "origin" else 1)
                    bad = stats_close(v, want_s, tau, len(angs))
                    ctx.count("band36.ape")
                    if bad:
                        ctx.fail(c | {"etype": et, "mode": mode}, f"band36: ape(etype={et}, mode={mode}) over pose errors of 1e-13…1e-4: {bad} = {v[STAT_KEYS.index(bad)]!r}, documented {want_s[STAT_KEYS.index(bad)]!r}")
                    if mode == "none" and et in ("translation", "radian") and not (v[1] > 0 and abs(v[1] - want_s[1]) <= 1e-3 * want_s[1] + (0 if et == "translation" else 256 * EPS64)):
                        ctx.fail(c | {"etype": et}, f"band36: the smallest {et} error (a 1e-13 motion) is reported as {v[1]!r}, documented {want_s[1]!r}")
        except Exception as e:
            ctx.fail(c, f"band36-raises: nearly equal rotations raised: {excs(e)}")
    # ------------------------------------------------------------ lesson 38(c): EXACT ties of the four-way branch selection of mat2SO3
    # (r22 vs atol, r00 vs r11, r00 vs -r11) reached through ape / rpe with exactly representable data: rotations from the 24 Hurwitz
    # unit quaternions (components 0, +-1, +-1/2 — products are exact), i.e. E = est^-1 ref is EXACTLY a signed permutation matrix:
    # identity, half turns about the axes (diag (1,-1,-1) …), 120-degree turns (all diagonal entries 0: r00 == r11 == r22 == -r11)
    hur = [[sg if j == i else 0.0 for j in range(4)] for i in range(4) for sg in (1.0, -1.0)] + \
          [[a_, b_, c_, d_] for a_ in (0.5, -0.5) for b_ in (0.5, -0.5) for c_ in (0.5, -0.5) for d_ in (0.5, -0.5)]
    hur = np.array(hur)
    for dtype in ("float64", "float32"):
        for variant in ((0, 2) if quick else range(4)):
            nH = len(hur)
            refq = hur[[(7 * i + 3 * variant) % nH for i in range(nH)]] if variant else np.tile(np.array(ident), (nH, 1))
            uq = hur[[(i + 5 * variant) % nH for i in range(nH)]]
            estq = R.qmul(refq, uq)
            posr = np.array([[float(i % 5), float((2 * i) % 7), float(-(i % 3))] for i in range(nH)])
            pose_ = np.array([[float((3 * i) % 4), float(i % 6), float((i * i) % 5)] for i in range(nH)])
            refp, estp = np.concatenate([posr, refq], -1), np.concatenate([pose_, estq], -1)
            for et in ("radian", "degree", "rotation", "pose"):
                for mode in ("none", "origin"):
                    c = {"kind": "exact38", "dtype": dtype, "variant": variant, "etype": et, "mode": mode,
                         "ref_quaternions": refq.tolist() if variant else "identity", "relative_quaternions": uq.tolist()}
                    ctx.note_case(("pass7", "exact38", dtype, variant, et, mode), True)
                    ctx.count("exact38")
                    try:
                        for fn_, kw, is_rpe in ((A.ape, {}, False), (A.rpe, {"all": True}, True)):
                            res = quiet(lambda: fn_(None, se3t(refp, dtype), None, se3t(estp, dtype), etype=et, **MODES[mode], **kw))
                            v = stat_vals(res)
                            m_ = nH - 1 if is_rpe else nH
                            if not stats_finite(ctx, c | {"fn": fn_.__name__}, f"{fn_.__name__}(etype={et}, mode={mode}) on rotations that are exact signed permutation matrices", v, m_):
                                continue
                            ea = estp if (mode == "none" or is_rpe) else R.left_mul(R.se3_mul((refp[0, :3], refp[0, 3:]), R.se3_inv((estp[0, :3], estp[0, 3:]))), estp)
                            if is_rpe:
                                rel_ = lambda A_: np.stack([R.se3_vec(R.se3_mul(R.se3_inv((a_[:3], a_[3:])), (b_[:3], b_[3:]))) for a_, b_ in zip(A_[:-1], A_[1:])])
                                want = np_stats(np_rel_errors(et, rel_(refp), rel_(ea), True))
                            else:
                                want = np_stats(np_rel_errors(et, refp, ea, False))
                            bad = stats_close(v, want, err_tol(et, 12.0) * 16, m_)
                            if bad:
                                ctx.fail(c | {"fn": fn_.__name__}, f"exact38: {fn_.__name__}(etype={et}, mode={mode}) on exact signed-permutation rotation errors: {bad} = "
                                                                   f"{v[STAT_KEYS.index(bad)]!r}, documented {want[STAT_KEYS.index(bad)]!r}")
                    except Exception as e:
                        ctx.fail(c, f"exact38-raises: {excs(e)}")
    # exactly EQUAL singular values / exactly symmetric point sets in the alignment: octahedron and cube vertices, estimate = exact signed
    # permutation (Hurwitz rotation) of the reference plus an integer shift, so the cross-covariance is an exact multiple of a permutation matrix
    cube_ = np.array([[x, y, z] for x in (-1.0, 1.0) for y in (-1.0, 1.0) for z in (-1.0, 1.0)])
    octa_ = np.array([[1.0, 0, 0], [-1.0, 0, 0], [0, 1.0, 0], [0, -1.0, 0], [0, 0, 1.0], [0, 0, -1.0]])
    for nm, V in (("cube", cube_), ("octahedron", octa_)):
        for gi_, G_ in enumerate((np.array(ident), hur[8], hur[2], hur[13])):
            refp = np.concatenate([V, hur[[(5 * i + gi_) % len(hur) for i in range(len(V))]]], -1)
            estp = R.left_mul((np.array([2.0, -3.0, 1.0]) * (gi_ > 0), G_), refp)
            for mode in ("align", "align+scale"):
                for et in ETYPES:
                    c = {"kind": "exact38", "what": f"alignment of the {nm} with its exact image", "G": G_.tolist(), "mode": mode, "etype": et}
                    ctx.note_case(("pass7", "exact38", "svd", nm, gi_, mode, et), True)
                    ctx.count("exact38.svd")
                    try:
                        v = stat_vals(quiet(lambda: A.ape(None, se3t(refp), None, se3t(estp), etype=et, **MODES[mode])))
                        if stats_finite(ctx, c, f"ape(etype={et}, mode={mode}) on the vertices of a {nm} (equal singular values)", v, len(V)):
                            wv = nmax(abs(x) for k_, x in zip(STAT_KEYS, v) if k_ != "SSE")
                            if not wv <= 1e4 * EPS64 * (180 / math.pi if et == "degree" else 1):
                                ctx.fail(c, f"exact38: ape(etype={et}, mode={mode}) of a trajectory on the vertices of a {nm} against its exact rotated / shifted image is {wv:.3e}, expected 0")
                    except Exception as e:
                        ctx.fail(c, f"exact38-raises: ape raised on the {nm}: {excs(e)}")
    # the same exact turns through geodesic_loss (its Log has its own branch selection): every pair of Hurwitz rotations
    try:
        ia, ib = np.meshgrid(np.arange(len(hur)), np.arange(len(hur)), indexing="ij")
        qa_h, qb_h = hur[ia.reshape(-1)], hur[ib.reshape(-1)]
        for dtype in ("float64", "float32"):
            got = P.geodesic_loss(P.SO3(torch.tensor(qa_h).to(DT[dtype])), P.SO3(torch.tensor(qb_h).to(DT[dtype])), reduction="none").double().numpy()
            want = R.qangle(R.qmul(qa_h, R.qconj(qb_h)))
            ctx.count("exact38.geo")
            if not np.isfinite(got).all():
                j = int((~np.isfinite(got)).nonzero()[0][0])
                ctx.fail({"kind": "exact38", "fn": "geodesic_loss", "dtype": dtype, "x": qa_h[j].tolist(), "y": qb_h[j].tolist()},
                         f"non-finite result: geodesic_loss of the exact rotations {qa_h[j].tolist()} and {qb_h[j].tolist()} is {got[j]!r}")
            elif not np.abs(got - want).max() <= 24 * EPS[dtype]:
                j = int(np.abs(got - want).argmax())
                ctx.fail({"kind": "exact38", "fn": "geodesic_loss", "dtype": dtype, "x": qa_h[j].tolist(), "y": qb_h[j].tolist()},
                         f"exact38: geodesic_loss of the exact rotations {qa_h[j].tolist()} and {qb_h[j].tolist()} is {got[j]!r}, the angle is {want[j]!r}")
    except Exception as e:
        ctx.fail({"kind": "exact38", "fn": "geodesic_loss"}, f"exact38-raises: {excs(e)}")
    lap("band36")
    # ------------------------------------------------------------ class 32: every other public operation between two identical calls
    Xi = rand_poses_t(g, (9,))
    Yi = torch.tensor(R.walk(random.Random(5), 9, 1.0, 0.4), dtype=torch.float64)
    pts_i = torch.randn(2, 6, 3, generator=g, dtype=torch.float64)
    st9 = torch.arange(9, dtype=torch.float64) * 0.1
    geo_fixed = {(tn, dn): (lie_rand(P, g, tn, (4,), DT[dn]), lie_rand(P, g, tn, (4,), DT[dn])) for tn in GEO_TYPES for dn in ("float64", "float32")}

    def subjects():
        out = {}
        for dn in ("float64", "float32"):
            D_ = DT[dn]
            out[f"chspline/{dn}"] = P.chspline(pts_i.to(D_), 0.3)
            out[f"bspline/{dn}"] = P.bspline(lt(Yi.to(D_)), 0.3).tensor()
            out[f"bspline(extrapolate)/{dn}"] = P.bspline(lt(Yi.to(D_)[:3]), 0.3, extrapolate=True).tensor()
            out[f"SE3.matrix/{dn}"] = lt(Yi.to(D_)).matrix()
            for tn in GEO_TYPES:
                a_, b_ = geo_fixed[(tn, dn)]
                out[f"geodesic_loss({tn})/{dn}"] = P.geodesic_loss(a_, b_, reduction="none")
            for mode in ("none", "origin", "align", "align+scale"):
                for et in ("translation", "pose", "radian"):
                    out[f"ape({mode},{et})/{dn}"] = A.ape(st9, lt(Xi.to(D_)), st9, lt(Yi.to(D_)), etype=et, **MODES[mode])
                out[f"rpe({mode})/{dn}"] = A.rpe(st9, lt(Xi.to(D_)), st9, lt(Yi.to(D_)), etype="pose", all=True, **MODES[mode])
        return out
    try:
        first = quiet(subjects)
        for nm, v_ in first.items():
            if not all_finite(v_):
                ctx.fail({"kind": "interleave", "fn": nm}, f"non-finite result: {nm} returns non-finite values for finite valid input")
        # the first results against the documented values (the battery below must not be what makes them right or wrong)
        w0 = np_stats(np_rel_errors("pose", Xi.numpy(), Yi.numpy(), False))
        if stats_close(stat_vals(first["ape(none,pose)/float64"]), w0, err_tol("pose", 3.0) * 8, 9):
            ctx.fail({"kind": "interleave", "fn": "ape"}, "interleave: ape(pose) differs from the documented error before any other operation was called")
        rounds = [((), (1,), (3,))] if quick else [((), (1,), (1, 1), (3,), (2, 1)), ((1,), ())]
        for ri, shapes in enumerate(rounds):
            lie_battery(ctx, P, g, shapes)
            second = quiet(subjects)
            for nm in first:
                c = {"kind": "interleave", "fn": nm, "round": ri}
                ctx.note_case(("pass5", "interleave", nm, ri), True)
                ctx.count("interleave")
                if not bits_eq(first[nm], second[nm]):
                    ctx.fail(c, f"interleave: {nm} returns other values after unrelated public LieTensor operations (forward/backward, single items and "
                                f"batches, float32 and float64) were called in the same process")
        w1 = np_stats(np_rel_errors("pose", Xi.numpy(), Yi.numpy(), False))
        sec = quiet(lambda: A.ape(st9, lt(Xi), st9, lt(Yi), etype="pose"))
        if stats_close(stat_vals(sec), w1, err_tol("pose", 3.0) * 8, 9):
            ctx.fail({"kind": "interleave", "fn": "ape"}, "interleave: ape(pose) differs from the documented error after the other operations were called")
        M4 = lt(Yi[:2]).matrix()
        if not bool(((M4[..., 3, :] - torch.tensor([0.0, 0, 0, 1.0], dtype=torch.float64)).abs() == 0).all()) or \
                not bool(((M4[..., :3, 3] - Yi[:2, :3]).abs() <= 8 * EPS64 * (1 + Yi[:2, :3].abs())).all()):
            ctx.fail({"kind": "interleave", "fn": "SE3.matrix"}, "interleave: SE3.matrix() (used by ape/rpe) no longer has last row (0,0,0,1) / the translation column after the other operations")
    except Exception as e:
        ctx.fail({"kind": "interleave"}, f"interleave-raises: {excs(e)}")
    lap("interleave")
    # ------------------------------------------------------------ class 29: several objects / calls with the optional argument OMITTED
    try:
        qa_, qb_ = rand_unit_quats(g, 5), rand_unit_quats(g, 5)
        ang = R.qangle(R.qmul(qa_.numpy(), R.qconj(qb_.numpy())))
        GL = P.module.GeodesicLoss
        objs = [("mean", GL()), ("sum", GL("sum")), ("mean", GL()), ("none", GL(reduction="none")), ("mean", GL()), ("sum", GL(reduction="sum")), ("mean", GL())]
        order = [0, 1, 2, 3, 4, 5, 6, 0, 3, 2, 1, 6, 4]
        for oi in order:
            rd, ob = objs[oi]
            v = ob(P.SO3(qa_), P.SO3(qb_))
            want = {"mean": ang.mean(), "sum": ang.sum(), "none": ang}[rd]
            c = {"kind": "defaults29", "fn": "GeodesicLoss", "object": oi, "documented_reduction": rd}
            ctx.note_case(("pass5", "defaults29", "GeodesicLoss", oi), True)
            ctx.count("defaults29")
            if tuple(v.shape) != (() if rd != "none" else (5,)) or not bool(np.all(np.abs(v.numpy() - want) <= 64 * EPS64 * 4)):
                ctx.fail(c, f"defaults29: GeodesicLoss object #{oi} built with reduction {'omitted' if rd == 'mean' and oi in (0, 2, 4, 6) else repr(rd)} returns "
                            f"{v.tolist()!r}; documented ({rd}) {np.asarray(want).tolist()!r}")
        # class 33: `reduction` re-assigned after construction (plain torch usage) or overridden as a PROPERTY by a user subclass
        class PropLoss(GL):
            def __init__(self):
                super().__init__()
                self.mode_ = "sum"

            @property
            def reduction(self):
                return getattr(self, "mode_", "mean")

            @reduction.setter
            def reduction(self, v):
                pass
        ob = GL()
        ob.reduction = "sum"
        pl_ = PropLoss()
        for lab, o_, want in (("attribute re-assigned to 'sum' after construction", ob, ang.sum()), ("user subclass whose `reduction` is a property returning 'sum'", pl_, ang.sum())):
            v = o_(P.SO3(qa_), P.SO3(qb_))
            ctx.note_case(("pass5", "property33", lab), True)
            ctx.count("property33")
            if v.dim() != 0 or not abs(float(v) - want) <= 64 * EPS64 * 4:
                ctx.fail({"kind": "defaults29", "fn": "GeodesicLoss", "variant": lab}, f"property33: GeodesicLoss with {lab} returns {v.tolist()!r}, the sum is {float(want)!r}")
        pl_.mode_ = "none"
        v = pl_(P.SO3(qa_), P.SO3(qb_))
        if tuple(v.shape) != (5,):
            ctx.fail({"kind": "defaults29", "fn": "GeodesicLoss", "variant": "property switched to 'none'"}, "property33: GeodesicLoss does not follow its `reduction` property after it changed to 'none'")
        # functions: omitted interval / extrapolate / etype / diff / offset / align / delta … after calls with other explicit values
        ptsd = torch.randn(5, 2, generator=g, dtype=torch.float64)
        Xd = torch.tensor(R.walk(random.Random(11), 7, 1.0, 0.4), dtype=torch.float64)
        Yd = torch.tensor(R.walk(random.Random(12), 7, 1.0, 0.4), dtype=torch.float64)
        std_ = torch.arange(7, dtype=torch.float64)
        def_calls = {
            "chspline(points)": (lambda: P.chspline(ptsd), lambda: P.chspline(ptsd, 0.1), lambda: P.chspline(ptsd, 0.37)),
            "bspline(data)": (lambda: P.bspline(lt(Xd)).tensor(), lambda: P.bspline(lt(Xd), 0.1, False).tensor(), lambda: P.bspline(lt(Xd), 0.4, True).tensor()),
            "geodesic_loss(x, y)": (lambda: P.geodesic_loss(P.SO3(qa_), P.SO3(qb_)), lambda: P.geodesic_loss(P.SO3(qa_), P.SO3(qb_), "mean"),
                                    lambda: P.geodesic_loss(P.SO3(qa_), P.SO3(qb_), "sum")),
            "ape(defaults)": (lambda: A.ape(std_, lt(Xd), std_, lt(Yd)),
                              lambda: A.ape(std_, lt(Xd), std_, lt(Yd), "translation", 0.01, 0.0, False, False, -1, False, 0.3, "All"),
                              lambda: A.ape(std_, lt(Xd), std_ + 1.0, lt(Yd), "pose", 0.5, -1.0, True, True, -1, False, 0.1, "Max")),
            "rpe(defaults)": (lambda: A.rpe(std_, lt(Xd), std_, lt(Yd)),
                              lambda: A.rpe(std_, lt(Xd), std_, lt(Yd), "translation", 0.01, 0.0, False, False, -1, False, "frame", 1.0, 0.1, False, 0.3, False, "All"),
                              lambda: A.rpe(std_, lt(Xd), std_ + 1.0, lt(Yd), "radian", 0.5, -1.0, True, True, -1, False, "distance", 2.0, 0.5, True, 0.1, True, "Max")),
        }
        for nm, (omitted, explicit, other) in def_calls.items():
            ref = quiet(explicit)
            for k_ in range(3):
                c = {"kind": "defaults29", "fn": nm, "round": k_}
                ctx.note_case(("pass5", "defaults29", nm, k_), True)
                ctx.count("defaults29")
                quiet(other)
                got = quiet(omitted)
                if not bits_eq(got, ref):
                    ctx.fail(c, f"defaults29: {nm} with the optional arguments omitted differs from the call with the documented defaults passed explicitly "
                                f"(after a call with other explicit values)")
        if tuple(quiet(def_calls["chspline(points)"][0]).shape) != (41, 2) or tuple(quiet(def_calls["bspline(data)"][0]).shape) != (41, 7):
            ctx.fail({"kind": "defaults29", "fn": "spline counts"}, "defaults29: the default interval 0.1 must give 10 samples per segment (41 points / poses)")
        wa = np_stats(np_rel_errors("translation", Xd.numpy(), Yd.numpy(), False))
        if stats_close(stat_vals(quiet(def_calls["ape(defaults)"][0])), wa, err_tol("translation", 6.0) * 8, 7):
            ctx.fail({"kind": "defaults29", "fn": "ape(defaults)"}, "defaults29: ape with defaults is not the translation error without alignment")
        # several StampedSE3 with the stamps omitted: each gets 0..n-1 of its own length
        for n_ in (9, 4, 6, 4):
            s_ = A.StampedSE3(None, P.SE3(rand_poses_t(g, (n_,))))
            ctx.count("defaults29")
            if s_.timestamps.tolist() != [float(i) for i in range(n_)] or s_.poses.dtype != torch.float64:
                ctx.fail({"kind": "defaults29", "fn": "StampedSE3", "n": n_}, f"defaults29: StampedSE3 without stamps over {n_} poses has stamps {s_.timestamps.tolist()}")
    except Exception as e:
        ctx.fail({"kind": "defaults29"}, f"defaults29-raises: {excs(e)}")
    lap("defaults29")
    # ------------------------------------------------------------ class 30: every dtype the entry points accept
    HALF = {"float16": (torch.float16, 2.0 ** -10), "bfloat16": (torch.bfloat16, 2.0 ** -7)}
    for dn, (D_, eh) in HALF.items():
        c = {"kind": "dtypes30", "dtype": dn}
        try:
            ptsh = (torch.randn(3, 5, 2, generator=g, dtype=torch.float64)).to(D_)
            o = P.chspline(ptsh, 0.25)
            o64 = P.chspline(ptsh.double(), 0.25)
            ctx.note_case(("pass5", "dtypes30", dn, "chspline"), True)
            ctx.count("dtypes30")
            if o.dtype != D_ or o.shape != o64.shape:
                ctx.fail(c | {"fn": "chspline"}, f"dtypes30: chspline with {dn} points returns {o.dtype} {tuple(o.shape)}; documented: the dtype of the points, shape {tuple(o64.shape)}")
            elif not bool(((o.double() - o64).abs() <= 24 * eh * (1 + ptsh.double().abs().max())).all()) or \
                    not bool(((o[..., ::4, :].double() - ptsh.double()).abs() <= 4 * eh * (1 + ptsh.double().abs())).all()):
                ctx.fail(c | {"fn": "chspline"}, f"dtypes30: chspline with {dn} points is off by {float((o.double() - o64).abs().max()):.3e} from the spline of the same points in float64")
            Xh = torch.tensor(R.walk(random.Random(21), 6, 1.0, 0.3), dtype=torch.float64).to(D_)
            for ex in (False, True):
                o = P.bspline(lt(Xh), 0.5, extrapolate=ex)
                X64 = Xh.double()
                X64 = torch.cat([X64[:, :3], X64[:, 3:] / X64[:, 3:].norm(dim=-1, keepdim=True)], -1)
                o64 = P.bspline(lt(X64), 0.5, extrapolate=ex).tensor()
                ctx.note_case(("pass5", "dtypes30", dn, "bspline", ex), True)
                ctx.count("dtypes30")
                if o.dtype != D_ or o.ltype != P.SE3_type or o.shape != o64.shape:
                    ctx.fail(c | {"fn": "bspline", "extrapolate": ex}, f"dtypes30: bspline with {dn} poses returns {o.dtype} {o.ltype} {tuple(o.shape)}")
                else:
                    on = o.tensor().double().numpy()
                    fin = np.isfinite(on).all(-1)
                    if not fin.all():             # scope rule: float16 loses (theta - sin theta)/theta^3 to underflow on the unchanged tree (observation, see notes)
                        ctx.count(f"dtypes30.observation.{dn}-bspline-nan-samples")
                    if dn != "float16" and not fin.all():
                        ctx.fail(c | {"fn": "bspline", "extrapolate": ex}, f"dtypes30: bspline with {dn} poses returns non-finite samples")
                    dq, dt_ = R.pose_dist(on[fin], o64.numpy()[fin]) if fin.any() else (np.zeros(1), np.zeros(1))
                    if not (dq.max() <= 48 * eh and dt_.max() <= 48 * eh * 4):
                        ctx.fail(c | {"fn": "bspline", "extrapolate": ex}, f"dtypes30: bspline with {dn} poses is off by {dq.max():.3e} (rotation) / {dt_.max():.3e} (translation) from the float64 spline of the same poses")
            qh, qh2 = rand_unit_quats(g, 6).to(D_), rand_unit_quats(g, 6).to(D_)
            o = P.geodesic_loss(P.SO3(qh), P.SO3(qh2), reduction="none")
            n1, n2 = qh.double().numpy(), qh2.double().numpy()
            want = R.qangle(R.qnormalize(R.qmul(R.qnormalize(n1), R.qconj(R.qnormalize(n2)))))
            ctx.note_case(("pass5", "dtypes30", dn, "geodesic"), True)
            ctx.count("dtypes30")
            if o.dtype != D_ or not bool((np.abs(o.double().numpy() - want) <= 48 * eh).all()):
                ctx.fail(c | {"fn": "geodesic_loss"}, f"dtypes30: geodesic_loss with {dn} rotations returns {o.dtype}, off by {np.abs(o.double().numpy() - want).max():.3e}")
            for fn_, kw in ((A.ape, dict(etype="pose", align=True)), (A.ape, dict(etype="radian", origin=True)), (A.rpe, dict(etype="rotation", all=True)),
                            (A.rpe, dict(etype="translation", associate="distance", delta=1.5, rtol=0.9, all=True))):
                Yh = torch.tensor(R.walk(random.Random(22), 6, 1.0, 0.3), dtype=torch.float64).to(D_)
                st6_ = torch.arange(6, dtype=torch.float64)
                r_h = quiet(lambda: fn_(st6_, lt(Xh), st6_, lt(Yh), **kw))
                r_d = quiet(lambda: fn_(st6_, lt(Xh.double()), st6_, lt(Yh.double()), **kw))
                ctx.note_case(("pass5", "dtypes30", dn, fn_.__name__, str(kw)), True)
                ctx.count("dtypes30")
                if not bits_eq(r_h, r_d):
                    ctx.fail(c | {"fn": fn_.__name__, "kwargs": str(kw)}, f"dtypes30: {fn_.__name__}({kw}) with {dn} poses differs from the call with the same poses converted to float64 "
                                                                          f"(documented: computed in float64) or is not float64")
        except Exception as e:
            ctx.fail(c, f"dtypes30-raises: {dn} operands raised {excs(e)}")
    Xs_, Ys_ = rand_poses_t(g, (6,)), rand_poses_t(g, (6,))
    for sdt in ((torch.int64, torch.int16, torch.uint8, torch.float16) if quick else (torch.int64, torch.int32, torch.int16, torch.int8, torch.uint8, torch.float32, torch.float16)):
        for base_, step_ in (((0, 1), (100, 3)) if quick else ((0, 1), (3, 7), (100, 3))):
            st_i = (torch.arange(6) * step_ + base_).to(sdt)
            c = {"kind": "dtypes30", "what": "stamps", "dtype": str(sdt), "first": base_, "step": step_}
            ctx.note_case(("pass5", "dtypes30", "stamps", str(sdt), base_), True)
            ctx.count("dtypes30")
            try:
                for fn_, kw in ((A.ape, dict(etype="pose", diff=0.5)), (A.rpe, dict(etype="radian", diff=0.5, all=True))):
                    r_i = quiet(lambda: fn_(st_i, P.SE3(Xs_), st_i, P.SE3(Ys_), **kw))
                    r_f = quiet(lambda: fn_(st_i.double(), P.SE3(Xs_), st_i.double(), P.SE3(Ys_), **kw))
                    r_n = quiet(lambda: fn_(None, P.SE3(Xs_), None, P.SE3(Ys_), **kw))
                    if not (bits_eq(r_i, r_f) and bits_eq(r_i, r_n)):
                        ctx.fail(c | {"fn": fn_.__name__}, f"dtypes30: {fn_.__name__} with {sdt} stamps {st_i.tolist()} differs from the call with the same stamps in float64 / with index stamps")
                    # estimate stamps one unit LATER / EARLIER than the reference stamps (differences of either sign inside the stamp dtype), diff = 1.5 / 2.5
                    st_r, st_e = (st_i * 2 + 4).to(sdt), (st_i * 2 + 5).to(sdt)
                    for a_, b_, df_ in (((st_r, st_e, 1.5), (st_e, st_r, 1.5), (st_r, (st_i * 2 + 2).to(sdt), 2.5)) if (base_ == 0 or not quick) else ()):
                        kw2 = {**kw, "diff": df_}
                        r_i = quiet(lambda: fn_(a_, P.SE3(Xs_), b_, P.SE3(Ys_), **kw2))
                        r_f = quiet(lambda: fn_(a_.double(), P.SE3(Xs_), b_.double(), P.SE3(Ys_), **kw2))
                        if not bits_eq(r_i, r_f):
                            ctx.fail(c | {"fn": fn_.__name__, "rstamps": a_.tolist(), "estamps": b_.tolist(), "diff": df_},
                                     f"dtypes30: {fn_.__name__} with {sdt} stamps {a_.tolist()} / {b_.tolist()} (diff={df_}) differs from the call with the same stamps in float64")
            except Exception as e:
                ctx.fail(c, f"dtypes30-raises: {sdt} stamps raised {excs(e)}")
    for idt in (torch.int64, torch.int32, torch.int16, torch.int8, torch.uint8, torch.bool):      # scope rule: integer points are refused on the clean tree
        try:
            o = P.chspline((torch.arange(15).reshape(5, 3) % 7).to(idt), 0.25)
            ctx.count("dtypes30.observation.integer-points-accepted")
            if o.is_floating_point() and o.shape == (17, 3) and not bool(((o[::4] - (torch.arange(15).reshape(5, 3) % 7).to(o.dtype)).abs() <= 1e-5).all()):
                ctx.fail({"kind": "dtypes30", "fn": "chspline", "dtype": str(idt)}, f"dtypes30: chspline accepted {idt} points and does not interpolate them")
        except Exception:
            ctx.count("dtypes30.observation.integer-points-refused")
    lap("dtypes30")
    # ------------------------------------------------------------ class 34: sizes beyond 2^18 for the point-wise entry points
    big = [2 ** 18 + 37] + ([] if quick else [2 ** 18 + 1, 2 ** 20 + 1])
    for n in big:
        tails = sorted({n % (2 ** k_) for k_ in ((5, 18) if quick else (5, 8, 12, 16, 18, 20)) if 0 < n % (2 ** k_) < n})
        c = {"kind": "huge34", "n": n}
        try:
            qa_, qb_ = rand_unit_quats(g, n), rand_unit_quats(g, n)
            out = P.geodesic_loss(P.SO3(qa_), P.SO3(qb_), reduction="none")
            want = R.qangle(R.qmul(qa_.numpy(), R.qconj(qb_.numpy())))
            e = np.abs(out.numpy() - want)
            ctx.note_case(("pass5", "huge34", "geodesic", n), True)
            ctx.count("huge34")
            if out.shape != (n,) or not e.max() <= 24 * EPS64:
                j = int(e.argmax())
                ctx.fail(c | {"fn": "geodesic_loss", "item": j, "from_end": n - j}, f"huge34: geodesic_loss item {j} of {n} (the {n - j}-th from the end) is off by {e.max():.3e}")
            for t_ in tails:
                if not same_bits(out[n - t_:], P.geodesic_loss(P.SO3(qa_[n - t_:]), P.SO3(qb_[n - t_:]), reduction="none")):
                    ctx.fail(c | {"fn": "geodesic_loss", "tail": t_}, f"huge34: the last {t_} of {n} geodesic losses differ from the call on those items alone")
            for rd, ref in (("sum", want.sum()), ("mean", want.mean())):
                r__ = float(P.geodesic_loss(P.SO3(qa_), P.SO3(qb_), reduction=rd))
                if not abs(r__ - ref) <= 64 * EPS64 * abs(ref) * 20:
                    ctx.fail(c | {"fn": "geodesic_loss", "reduction": rd}, f"huge34: reduction={rd!r} over {n} items gives {r__!r}, the items give {float(ref)!r}")
            # chspline: a batch of n sequences and one sequence of n points
            ptsb = torch.randn(n, 4, 2, generator=g, dtype=torch.float64)
            out = P.chspline(ptsb, 0.4)
            ctx.note_case(("pass5", "huge34", "chspline", n), True)
            ctx.count("huge34")
            if out.shape != (n, 10, 2) or not bool(((out[:, ::3, :] - ptsb).abs() <= 16 * EPS64 * (1 + ptsb.abs())).all()):
                ctx.fail(c | {"fn": "chspline(batch)"}, f"huge34: chspline on a batch of {n} sequences does not interpolate every item")
            for t_ in tails:
                if not same_bits(out[n - t_:], P.chspline(ptsb[n - t_:].clone(), 0.4)):
                    ctx.fail(c | {"fn": "chspline(batch)", "tail": t_}, f"huge34: the last {t_} of {n} chspline items differ from the call on those items alone")
            ptsl = torch.randn(n, 2, generator=g, dtype=torch.float64)
            out = P.chspline(ptsl, 0.5)
            ok_shape = out.shape == ((n - 1) * 2 + 1, 2)
            if not ok_shape or not bool(((out[::2] - ptsl).abs() <= 16 * EPS64 * (1 + ptsl.abs())).all()):
                ctx.fail(c | {"fn": "chspline(N)"}, f"huge34: chspline through {n} points: {tuple(out.shape)} samples / not interpolating (expected {(n - 1) * 2 + 1})")
            else:
                for i in sorted({1, n - 3, n - 38, 2 ** 18 - 1, 2 ** 18, 2 ** 17}):
                    if 1 <= i <= n - 3:
                        w = P.chspline(ptsl[i - 1:i + 3].clone(), 0.5)
                        if not bool(((w[2:5] - out[2 * i:2 * i + 3]).abs() <= 64 * EPS64 * (1 + ptsl[i - 1:i + 3].abs().max())).all()):
                            ctx.fail(c | {"fn": "chspline(N)", "segment": i}, f"huge34: segment {i} of a chspline through {n} points differs from the spline through its own four points")
            # the point-wise part of ape / rpe (compute_error) and the index pairing on n poses (the n x n association is not point-wise)
            rp_, ep_ = rand_poses_t(g, (n,)), rand_poses_t(g, (n,))
            ep_[n - 1, :3] = rp_[n - 1, :3] + 1e3          # the largest error sits in the LAST item
            rt, et_ = A.StampedSE3(None, P.SE3(rp_)), A.StampedSE3(None, P.SE3(ep_))
            for et, mt in ((("translation", "ape"), ("pose", "rpe"), ("radian", "ape")) if quick else
                           [(a_, b_) for a_ in ("translation", "pose", "radian", "rotation", "degree") for b_ in ("ape", "rpe")]):
                if True:
                    res = quiet(lambda: A.compute_error(rt, et_, et, mt, "All"))
                    errs = np_rel_errors(et, rp_.numpy(), ep_.numpy(), mt == "rpe")
                    want_s = np_stats(errs)
                    ctx.note_case(("pass5", "huge34", "compute_error", n, et, mt), True)
                    ctx.count("huge34")
                    bad = stats_close(stat_vals(res), want_s, err_tol(et, 1e3) * 8, n)
                    if bad:
                        ctx.fail(c | {"fn": "compute_error", "etype": et, "mtype": mt}, f"huge34: {mt} error statistics over {n} poses: {bad} = {float(res[bad])!r}, documented {want_s[STAT_KEYS.index(bad)]!r}")
            for delta, all_ in ((1.0, True), (3.0, False), (37.0, True), (4096.0, False)):
                gp = A.pair_id(rt, delta, "frame", 0.1, all_)
                want = R.pairs_frames_oracle(n, int(delta), all_)
                ctx.count("huge34")
                if len(gp[0]) != len(want) or (gp[0][-1], gp[1][-1]) != want[-1] or (gp[0][0], gp[1][0]) != want[0] or \
                        list(zip(gp[0][-40:], gp[1][-40:])) != want[-40:]:
                    ctx.fail(c | {"fn": "pair_id", "delta": delta, "all": all_}, f"huge34: pair_id(frame, delta={delta}, all={all_}) over {n} poses: {len(gp[0])} pairs ending "
                                                                                  f"{(gp[0][-1], gp[1][-1])}, documented {len(want)} pairs ending {want[-1]}")
            if not quick:
                # bspline: a batch of n x 4 poses (one segment each) — 2 s per call, thorough tier only
                Xb = rand_poses_t(g, (n, 4))
                out = P.bspline(lt(Xb), 0.5).tensor()
                ctx.note_case(("pass5", "huge34", "bspline", n), True)
                ctx.count("huge34")
                if out.shape != (n, 3, 7):
                    ctx.fail(c | {"fn": "bspline(batch)"}, f"huge34: bspline on a batch of {n} x 4 poses returns shape {tuple(out.shape)}")
                else:
                    for t_ in tails[:3] + [1]:
                        if not same_bits(out[n - t_:], P.bspline(lt(Xb[n - t_:].clone()), 0.5).tensor()):
                            ctx.fail(c | {"fn": "bspline(batch)", "tail": t_}, f"huge34: the last {t_} of {n} bspline items differ from the call on those items alone")
                    for j in (0, n // 2, 2 ** 18 - 1, 2 ** 18, n - 1):
                        if not same_bits(out[j:j + 1], P.bspline(lt(Xb[j:j + 1].clone()), 0.5).tensor()):
                            ctx.fail(c | {"fn": "bspline(batch)", "item": j}, f"huge34: item {j} of {n} bspline items differs from the call on that item alone")
            if not quick:
                Xl_ = rand_poses_t(g, (n,))
                for ex in (False, True):
                    out = P.bspline(lt(Xl_), 0.5, extrapolate=ex).tensor()
                    nseg = n + (1 if ex else -3)
                    ctx.count("huge34")
                    if out.shape[0] != nseg * 2 + 1:
                        ctx.fail(c | {"fn": "bspline(N)", "extrapolate": ex}, f"huge34: bspline through {n} poses returns {out.shape[0]} poses, expected {nseg * 2 + 1}")
                        continue
                    off_ = 2 if ex else 0
                    for i in sorted({0, n - 4, n - 41, 2 ** 18 - 2, 2 ** 18 - 4, 2 ** 17}):
                        if 0 <= i <= n - 4:
                            w = P.bspline(lt(Xl_[i:i + 4].clone()), 0.5).tensor()
                            if not same_bits(w[:2], out[2 * (i + off_):2 * (i + off_) + 2]):
                                ctx.fail(c | {"fn": "bspline(N)", "segment": i, "extrapolate": ex}, f"huge34: segment {i} of a bspline through {n} poses differs from the spline of its own four control poses")
        except Exception as e:
            ctx.fail(c, f"huge34-raises: {excs(e)}")
    lap("huge34")


# ============================================================================= entry points

def run(ctx: Ctx):
    import os, time
    torch.set_num_threads(int(os.environ.get("C19_THREADS", "2")))
    mb = MB()
    _t0 = [time.time()]

    def guard(ctx_, case, what, fn):       # local wrapper: optional per-stage timing (C19_PROF=1)
        globals()["guard"](ctx_, case, what, fn)
        if os.environ.get("C19_PROF"):
            print(f"  [prof] run {what}: {time.time() - _t0[0]:.2f}s", flush=True)
        _t0[0] = time.time()
    guard(ctx, {"kind": "corpus"}, "corpus", lambda: run_corpus(ctx, mb))       # deterministic, first
    guard(ctx, {"kind": "history"}, "history", lambda: run_history(ctx, mb))
    guard(ctx, {"kind": "stale"}, "stale", lambda: run_stale(ctx))
    guard(ctx, {"kind": "views"}, "views", lambda: run_views(ctx))
    guard(ctx, {"kind": "pass2"}, "pass2", lambda: run_pass2(ctx))
    guard(ctx, {"kind": "pass4"}, "pass4", lambda: run_pass4(ctx, mb))
    guard(ctx, {"kind": "pass5"}, "pass5", lambda: run_pass5(ctx, mb))
    guard(ctx, {"kind": "chs"}, "random-chs", lambda: run_chs(ctx, mb, ctx.pick(40, 1000)))
    guard(ctx, {"kind": "bs"}, "random-bs", lambda: run_bs(ctx, mb, ctx.pick(20, 750)))
    guard(ctx, {"kind": "geo"}, "random-geo", lambda: run_geo(ctx, mb, ctx.pick(40, 1200)))
    guard(ctx, {"kind": "traj"}, "random-traj", lambda: run_traj(ctx, mb, ctx.pick(30, 1000)))
    guard(ctx, {"kind": "model"}, "model-flush", lambda: mb.flush(ctx))


def search(ctx: Ctx):
    """after a broken proof / correspondence: hunt with the oracles only (they never need the model) on more cases"""
    mb = MB()
    for fn, n in ((run_chs, 300), (run_bs, 200), (run_geo, 300), (run_traj, 300)):
        fn(ctx, mb, n)
        if ctx.failures:
            break
    try:
        mb.flush(ctx)
    except Exception:
        pass


def replay(ctx: Ctx, case) -> bool:
    c = dict(case["case"])
    mb = MB()
    n0 = len(ctx.failures)
    kind = c.get("kind")
    if kind == "chs":
        check_chs(ctx, c, mb)
    elif kind == "bs":
        check_bs(ctx, c, mb)
    elif kind == "geo":
        check_geo(ctx, c, mb)
    elif kind == "traj":
        check_traj(ctx, c, mb)
    elif kind in ("args", "atomic", "gradmode", "ducktype", "copies", "ownmem", "pass2"):
        run_pass2(ctx)
    elif kind in ("large", "ties", "subclass", "clock", "modecache", "defaultdtype", "signs", "pass4"):
        run_pass4(ctx, mb)
    elif kind in ("exact38", "ties35", "band36", "interleave", "defaults29", "dtypes30", "huge34", "pass5"):
        run_pass5(ctx, mb)
    elif kind in ("stale", "views", "history", "corpus"):
        {"stale": lambda: run_stale(ctx), "views": lambda: run_views(ctx), "history": lambda: run_history(ctx, mb),
         "corpus": lambda: run_corpus(ctx, mb)}[kind]()
    else:
        print("  (malformed-input case: re-running the malformed streams)")
        run_chs(ctx, mb, 0)
        run_bs(ctx, mb, 0)
        run_geo(ctx, mb, 0)
    mb.flush(ctx)
    for f in ctx.failures[n0:]:
        print("  fails:", f["what"])
    for d in ctx.disagreements:
        print("  model/implementation disagreement:", d["detail"])
    return len(ctx.failures) == n0 and not ctx.disagreements
